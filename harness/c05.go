package main

import (
	"bytes"
	"context"
	"encoding/json"
	"errors"
	"fmt"
	"io"
	"net/http"
	"net/http/httptest"
	"net/url"
	"reflect"
	"sort"
	"strconv"
	"strings"
	"sync"

	"github.com/Query-farm/vgi-rpc-go/vgirpc"
	"github.com/apache/arrow-go/v18/arrow"
	"github.com/apache/arrow-go/v18/arrow/array"
	"github.com/apache/arrow-go/v18/arrow/ipc"
	"github.com/apache/arrow-go/v18/arrow/memory"
)

// C05 — error envelopes carry a stable cross-language error type.
//
// Script lines (grammar of <err>/<outcome> as in lean/Vgi/Drive/C05.lean):
//
//	raise <pipe|http> <site> <0|1> <outcome…>   a registered handler returns the error / panics with the value
//	     site: unary unaryv initp initx produce1..3 exchange1..3   (k = the stream turn that raises)
//	write <0|1> <err…>                          writeErrorResponse on the value (hook), no server
//	fw <pipe|http> <0|1> <scenario> <args…>     the FRAMEWORK raises a typed error: notimpl, pv, lost, drain,
//	                                            capwire, capext (see c05Fw)
//
// Observation per line (what the property speaks about): exception_type, exception_message,
// log_message, log_level, error_kind, presence of traceback / frames on the EXCEPTION batch.

func init() {
	Register(&Prop{
		ID: "C05",
		Rule: "error values are random trees over {RpcError(any type/kind), the 5 typed framework errors, errors.New, %w-wrapping to depth 4, " +
			"errors.Join, 5 user-defined error types with/without ErrorKind()/ErrorType()} and panics with string/int/error/nil, strings from an " +
			"alphabet with unicode, JSON/HTML-sensitive, control and Go-type-looking text; raised from unary, void unary, producer/exchange init, " +
			"producer turn k, exchange turn k over a real pipe Serve loop and a real httptest HttpServer, both debug settings, plus framework-raised " +
			"refusals (unknown method, protocol version, session lost, draining, wire/external caps). Non-trivial = at least one end-to-end " +
			"(raise/fw) line; distinct = distinct scripts",
		Gen:  c05Gen,
		Exec: c05Exec,
		NonTrivial: func(lines []string) bool {
			for _, l := range lines {
				if strings.HasPrefix(l, "raise ") || strings.HasPrefix(l, "fw ") {
					return true
				}
			}
			return false
		},
	})
	vgirpc.RegisterStateType(&C05ProdState{})
	vgirpc.RegisterStateType(&C05ExchState{})
}

// ---------------------------------------------------------------- user-defined error types

type c05ValErr struct{ msg string }

func (e c05ValErr) Error() string { return e.msg }

type c05PtrErr struct{ msg string }

func (e *c05PtrErr) Error() string { return e.msg }

type c05KindErr struct{ msg, kind string }

func (e *c05KindErr) Error() string     { return e.msg }
func (e *c05KindErr) ErrorKind() string { return e.kind }

type c05TypeErr struct{ msg, ty string }

func (e c05TypeErr) Error() string     { return e.msg }
func (e c05TypeErr) ErrorType() string { return e.ty }

type c05BothErr struct{ msg, kind, ty string }

func (e *c05BothErr) Error() string     { return e.msg }
func (e *c05BothErr) ErrorKind() string { return e.kind }
func (e *c05BothErr) ErrorType() string { return e.ty }

// c05ParseErr builds the real Go error value described by the tokens.
func c05ParseErr(t []string) (error, []string, bool) {
	if len(t) == 0 {
		return nil, nil, false
	}
	str := func(i int) (string, bool) {
		if i >= len(t) {
			return "", false
		}
		b, ok := UnX(t[i])
		return string(b), ok
	}
	switch t[0] {
	case "rpc":
		a, ok1 := str(1)
		b, ok2 := str(2)
		c, ok3 := str(3)
		d, ok4 := str(4)
		e, ok5 := str(5)
		if !(ok1 && ok2 && ok3 && ok4 && ok5) {
			return nil, nil, false
		}
		re := &vgirpc.RpcError{Type: a, Message: b, Kind: c, Traceback: d, RequestID: e}
		if d != "" || e != "" {
			c05FillUnknownFields(re)
		}
		return re, t[6:], true
	case "notimpl":
		a, ok1 := str(1)
		b, ok2 := str(2)
		if !(ok1 && ok2) {
			return nil, nil, false
		}
		return &vgirpc.MethodNotImplementedError{Method: a, Message: b}, t[3:], true
	case "pv":
		a, ok := str(1)
		if !ok {
			return nil, nil, false
		}
		return &vgirpc.ProtocolVersionError{Message: a}, t[2:], true
	case "lost":
		a, ok := str(1)
		if !ok {
			return nil, nil, false
		}
		return &vgirpc.SessionLostError{Reason: a}, t[2:], true
	case "drain":
		return &vgirpc.ServerDrainingError{}, t[1:], true
	case "cap":
		a, ok := str(1)
		if !ok {
			return nil, nil, false
		}
		return c05CapErr(a), t[2:], true
	case "plain":
		a, ok := str(1)
		if !ok {
			return nil, nil, false
		}
		return errors.New(a), t[2:], true
	case "wrap":
		a, ok := str(1)
		if !ok {
			return nil, nil, false
		}
		in, rest, ok := c05ParseErr(t[2:])
		if !ok {
			return nil, nil, false
		}
		return fmt.Errorf("%s%w", a, in), rest, true
	case "join":
		a, rest, ok := c05ParseErr(t[1:])
		if !ok {
			return nil, nil, false
		}
		b, rest2, ok := c05ParseErr(rest)
		if !ok {
			return nil, nil, false
		}
		return errors.Join(a, b), rest2, true
	case "custom":
		if len(t) < 5 {
			return nil, nil, false
		}
		m, ok1 := str(2)
		k, ok2 := str(3)
		y, ok3 := str(4)
		if !(ok1 && ok2 && ok3) {
			return nil, nil, false
		}
		var e error
		switch t[1] {
		case "val":
			e = c05ValErr{m}
		case "ptr":
			e = &c05PtrErr{m}
		case "kind":
			e = &c05KindErr{m, k}
		case "type":
			e = c05TypeErr{m, y}
		case "both":
			e = &c05BothErr{m, k, y}
		default:
			return nil, nil, false
		}
		return e, t[5:], true
	}
	return nil, nil, false
}

// c05KnownRpcFields are the RpcError fields the script sets explicitly. Any OTHER exported field
// (one added to the struct later) is found by reflection and filled with a marker, so that a
// field the envelope starts to copy is exercised without touching this file.
var c05KnownRpcFields = map[string]bool{"Type": true, "Message": true, "Kind": true, "Traceback": true, "RequestID": true}

const c05FieldMarker = "C05-FIELD-MARKER-"
const c05TBMarker = "C05-TB-MARKER"

func c05FillUnknownFields(e *vgirpc.RpcError) {
	v := reflect.ValueOf(e).Elem()
	for i := 0; i < v.NumField(); i++ {
		f := v.Type().Field(i)
		if !f.IsExported() || c05KnownRpcFields[f.Name] || !v.Field(i).CanSet() {
			continue
		}
		switch f.Type.Kind() {
		case reflect.String:
			v.Field(i).SetString(c05FieldMarker + f.Name)
		case reflect.Slice:
			switch f.Type.Elem().Kind() {
			case reflect.String:
				v.Field(i).Set(reflect.ValueOf([]string{c05FieldMarker + f.Name}).Convert(f.Type))
			case reflect.Uint8:
				v.Field(i).SetBytes([]byte(c05FieldMarker + f.Name))
			}
		case reflect.Map:
			if f.Type.Key().Kind() == reflect.String && f.Type.Elem().Kind() == reflect.String {
				m := reflect.MakeMap(f.Type)
				m.SetMapIndex(reflect.ValueOf("k").Convert(f.Type.Key()), reflect.ValueOf(c05FieldMarker+f.Name).Convert(f.Type.Elem()))
				v.Field(i).Set(m)
			}
		}
	}
}

// c05CapErr builds a real *externalCapError whose message is exactly msg cannot be done (the
// type's field is unexported), so the value comes from the constructor and the message the
// model is given is the constructor's. The script's msg only seeds the method name.
func c05CapErr(method string) error {
	return vgirpc.VerifC05NewExternalCapError(method, 7, 3)
}

type c05Out struct {
	isPanic bool
	err     error
	pv      any
	special string // "opensession", "big"
}

func c05ParseOutcome(t []string) (c05Out, bool) {
	if len(t) == 0 {
		return c05Out{}, false
	}
	switch t[0] {
	case "opensession", "big":
		return c05Out{special: t[0]}, len(t) == 1
	case "ret":
		e, rest, ok := c05ParseErr(t[1:])
		return c05Out{err: e}, ok && len(rest) == 0
	case "panic":
		if len(t) < 2 {
			return c05Out{}, false
		}
		switch t[1] {
		case "str":
			if len(t) != 3 {
				return c05Out{}, false
			}
			b, ok := UnX(t[2])
			return c05Out{isPanic: true, pv: string(b)}, ok
		case "int":
			if len(t) != 3 {
				return c05Out{}, false
			}
			n, err := strconv.ParseInt(t[2], 10, 64)
			return c05Out{isPanic: true, pv: int(n)}, err == nil
		case "nil":
			return c05Out{isPanic: true, pv: nil}, len(t) == 2
		case "err":
			e, rest, ok := c05ParseErr(t[2:])
			return c05Out{isPanic: true, pv: e}, ok && len(rest) == 0
		}
	}
	return c05Out{}, false
}

// c05Act is what the registered handlers do with their "spec" parameter.
func c05Act(spec string, cc *vgirpc.CallContext) error {
	o, ok := c05ParseOutcome(strings.Fields(spec))
	if !ok {
		return &vgirpc.RpcError{Type: "HarnessBadSpec", Message: spec}
	}
	if o.special == "opensession" {
		return cc.OpenSession(struct{}{}, 0)
	}
	if o.special == "big" {
		return nil
	}
	if o.isPanic {
		panic(o.pv)
	}
	return o.err
}

// ---------------------------------------------------------------- the served methods

type c05Params struct {
	Spec string `vgirpc:"spec"`
	At   int64  `vgirpc:"at"`
}

var (
	c05OutSchema = arrow.NewSchema([]arrow.Field{{Name: "v", Type: arrow.BinaryTypes.String}}, nil)
	c05InSchema  = arrow.NewSchema([]arrow.Field{{Name: "x", Type: arrow.PrimitiveTypes.Int64}}, nil)
	c05Big       = strings.Repeat("0123456789abcdef", 1024) // 16 KiB
)

func c05StrBatch(schema *arrow.Schema, s string) arrow.RecordBatch {
	b := array.NewStringBuilder(memory.DefaultAllocator)
	b.Append(s)
	col := b.NewArray()
	b.Release()
	rec := array.NewRecordBatch(schema, []arrow.Array{col}, 1)
	col.Release()
	return rec
}

func c05IntBatch(v int64) arrow.RecordBatch {
	b := array.NewInt64Builder(memory.DefaultAllocator)
	b.Append(v)
	col := b.NewArray()
	b.Release()
	rec := array.NewRecordBatch(c05InSchema, []arrow.Array{col}, 1)
	col.Release()
	return rec
}

// C05ProdState raises at produce turn At (1-based), emits before, finishes after 4 turns.
type C05ProdState struct {
	Spec string
	At   int64
	Turn int64
}

func (s *C05ProdState) Produce(_ context.Context, out *vgirpc.OutputCollector, cc *vgirpc.CallContext) error {
	s.Turn++
	if s.Turn == s.At {
		if err := c05Act(s.Spec, cc); err != nil {
			return err
		}
		if s.Spec == "big" {
			rec := c05StrBatch(c05OutSchema, c05Big)
			return out.Emit(rec)
		}
	}
	if s.Turn > 4 {
		return out.Finish()
	}
	return out.Emit(c05StrBatch(c05OutSchema, "ok"))
}

// C05ExchState raises at exchange turn At (1-based).
type C05ExchState struct {
	Spec string
	At   int64
	Turn int64
}

func (s *C05ExchState) Exchange(_ context.Context, _ arrow.RecordBatch, out *vgirpc.OutputCollector, cc *vgirpc.CallContext) error {
	s.Turn++
	if s.Turn == s.At {
		if err := c05Act(s.Spec, cc); err != nil {
			return err
		}
		if s.Spec == "big" {
			return out.Emit(c05StrBatch(c05OutSchema, c05Big))
		}
	}
	return out.Emit(c05StrBatch(c05OutSchema, "ok"))
}

func c05Register(s *vgirpc.Server) {
	vgirpc.Unary(s, "raise", func(_ context.Context, cc *vgirpc.CallContext, p c05Params) (string, error) {
		if err := c05Act(p.Spec, cc); err != nil {
			return "", err
		}
		if p.Spec == "big" {
			return c05Big, nil
		}
		return "ok", nil
	})
	vgirpc.UnaryVoid(s, "raisev", func(_ context.Context, cc *vgirpc.CallContext, p c05Params) error {
		return c05Act(p.Spec, cc)
	})
	vgirpc.Producer(s, "prod", c05OutSchema, func(_ context.Context, cc *vgirpc.CallContext, p c05Params) (*vgirpc.StreamResult, error) {
		if p.At == 0 {
			if err := c05Act(p.Spec, cc); err != nil {
				return nil, err
			}
		}
		return &vgirpc.StreamResult{OutputSchema: c05OutSchema, State: &C05ProdState{Spec: p.Spec, At: p.At}}, nil
	})
	vgirpc.Exchange(s, "exch", c05OutSchema, c05InSchema, func(_ context.Context, cc *vgirpc.CallContext, p c05Params) (*vgirpc.StreamResult, error) {
		if p.At == 0 {
			if err := c05Act(p.Spec, cc); err != nil {
				return nil, err
			}
		}
		return &vgirpc.StreamResult{OutputSchema: c05OutSchema, InputSchema: c05InSchema, State: &C05ExchState{Spec: p.Spec, At: p.At}}, nil
	})
}

// ---------------------------------------------------------------- servers

const c05ServerPV = "2.3.0"

type c05Srv struct {
	srv *vgirpc.Server
	hs  *vgirpc.HttpServer
	ts  *httptest.Server
}

type c05Storage struct{}

func (c05Storage) Upload(data []byte, _ *arrow.Schema, _ string) (string, error) {
	return "https://storage.invalid/c05/" + strconv.Itoa(len(data)), nil
}

var (
	c05Mu      sync.Mutex
	c05Servers = map[string]*c05Srv{}
)

// variant: plain | pv | drain | capwire | capext
func c05Server(transport string, debug bool, variant string) *c05Srv {
	c05Mu.Lock()
	defer c05Mu.Unlock()
	key := fmt.Sprintf("%s/%v/%s", transport, debug, variant)
	if s := c05Servers[key]; s != nil {
		return s
	}
	srv := vgirpc.NewServer()
	srv.SetServerID("c05srv")
	srv.SetDebugErrors(debug)
	c05Register(srv)
	if variant == "pv" {
		srv.SetProtocolVersion(c05ServerPV)
	}
	if variant == "capext" {
		cfg := vgirpc.DefaultExternalLocationConfig(c05Storage{})
		cfg.ExternalizeThresholdBytes = 1024
		srv.SetExternalLocation(cfg)
	}
	out := &c05Srv{srv: srv}
	if transport == "http" {
		hs := vgirpc.NewHttpServer(srv)
		hs.SetProducerBatchLimit(1)
		hs.EnableSticky(0)
		switch variant {
		case "drain":
			hs.DrainHandle().Drain()
		case "capwire":
			hs.SetMaxResponseBytes(6000)
		case "capext":
			hs.SetMaxExternalizedResponseBytes(2048)
		}
		out.hs = hs
		out.ts = httptest.NewServer(hs)
	}
	c05Servers[key] = out
	return out
}

// ---------------------------------------------------------------- observation

type c05Obs struct {
	found                     bool
	nExc                      int
	level, logMsg, extra      string
	kind                      string
	hasKind                   bool
	etype, emsg, tb           string
	nframes                   int
	extraOK, hasTypeKey       bool
	allMeta                   string // every key and value of the EXCEPTION batch's metadata, concatenated
	extraKeys                 []string
}

func (o *c05Obs) line() string {
	if !o.found {
		return "none"
	}
	if !o.extraOK {
		return "bad-log-extra " + XS(o.extra)
	}
	kind := "-"
	if o.hasKind {
		kind = XS(o.kind)
	}
	b2i := func(b bool) int {
		if b {
			return 1
		}
		return 0
	}
	return fmt.Sprintf("type=%s msg=%s log=%s level=%s kind=%s tb=%d frames=%d",
		XS(o.etype), XS(o.emsg), XS(o.logMsg), o.level, kind, b2i(o.tb != ""), b2i(o.nframes > 0))
}

// c05Scan walks every IPC stream in body and records the first EXCEPTION batch.
func c05Scan(body []byte, o *c05Obs) {
	rd := bytes.NewReader(body)
	for rd.Len() > 0 {
		before := rd.Len()
		r, err := ipc.NewReader(rd)
		if err != nil {
			return
		}
		for r.Next() {
			rb, ok := r.RecordBatch().(arrow.RecordBatchWithMetadata)
			if !ok {
				continue
			}
			md := rb.Metadata()
			lvl, _ := md.GetValue(vgirpc.MetaLogLevel)
			if lvl != string(vgirpc.LogException) {
				continue
			}
			o.nExc++
			if o.found {
				continue
			}
			o.found = true
			o.level = lvl
			for i, k := range md.Keys() {
				o.allMeta += k + "\x00" + md.Values()[i] + "\x00"
			}
			o.logMsg, _ = md.GetValue(vgirpc.MetaLogMessage)
			o.extra, _ = md.GetValue(vgirpc.MetaLogExtra)
			if i := md.FindKey(vgirpc.MetaErrorKind); i >= 0 {
				o.hasKind, o.kind = true, md.Values()[i]
			}
			var raw map[string]json.RawMessage
			if json.Unmarshal([]byte(o.extra), &raw) == nil {
				o.extraOK = true
				for k := range raw {
					o.extraKeys = append(o.extraKeys, k)
				}
				sort.Strings(o.extraKeys)
				if v, ok := raw["exception_type"]; ok {
					o.hasTypeKey = json.Unmarshal(v, &o.etype) == nil
				}
				if v, ok := raw["exception_message"]; ok {
					json.Unmarshal(v, &o.emsg)
				}
				if v, ok := raw["traceback"]; ok {
					json.Unmarshal(v, &o.tb)
				}
				if v, ok := raw["frames"]; ok {
					var fr []map[string]any
					json.Unmarshal(v, &fr)
					o.nframes = len(fr)
				}
				o.extraOK = o.hasTypeKey
			}
		}
		r.Release()
		if rd.Len() == before {
			return
		}
	}
}

// ---------------------------------------------------------------- pipe client

func c05ParamsBatch(spec string, at int64) arrow.RecordBatch {
	schema, err := vgirpc.SchemaForStruct(reflect.TypeOf(c05Params{}))
	if err != nil {
		panic(err)
	}
	sb := array.NewStringBuilder(memory.DefaultAllocator)
	sb.Append(spec)
	c0 := sb.NewArray()
	sb.Release()
	ib := array.NewInt64Builder(memory.DefaultAllocator)
	ib.Append(at)
	c1 := ib.NewArray()
	ib.Release()
	rec := array.NewRecordBatch(schema, []arrow.Array{c0, c1}, 1)
	c0.Release()
	c1.Release()
	return rec
}

// c05Pipe serves one request (plus an input stream of n batches for stream methods) through
// the real Serve loop and returns everything the server wrote.
func c05Pipe(s *c05Srv, method, spec string, at int64, pv string, stream string, n int) []byte {
	var in bytes.Buffer
	params := c05ParamsBatch(spec, at)
	defer params.Release()
	if err := vgirpc.WriteRequest(&in, method, params, pv); err != nil {
		panic(err)
	}
	switch stream {
	case "producer":
		empty := arrow.NewSchema(nil, nil)
		w := ipc.NewWriter(&in, ipc.WithSchema(empty))
		for i := 0; i < n; i++ {
			tick := array.NewRecordBatch(empty, nil, 0)
			w.Write(tick)
			tick.Release()
		}
		w.Close()
	case "exchange":
		w := ipc.NewWriter(&in, ipc.WithSchema(c05InSchema))
		for i := 0; i < n; i++ {
			b := c05IntBatch(int64(i))
			w.Write(b)
			b.Release()
		}
		w.Close()
	}
	var out bytes.Buffer
	s.srv.Serve(&in, &out)
	return out.Bytes()
}

// ---------------------------------------------------------------- http client

type c05Rec struct {
	base       http.RoundTripper
	bodies     [][]byte
	hdr        map[string]string // added to every request
	hdrOnExch  map[string]string // added to …/exchange requests only
}

func (t *c05Rec) RoundTrip(req *http.Request) (*http.Response, error) {
	for k, v := range t.hdr {
		req.Header.Set(k, v)
	}
	if strings.HasSuffix(req.URL.Path, "/exchange") {
		for k, v := range t.hdrOnExch {
			req.Header.Set(k, v)
		}
	}
	resp, err := t.base.RoundTrip(req)
	if err != nil {
		return resp, err
	}
	body, _ := io.ReadAll(resp.Body)
	resp.Body.Close()
	resp.Body = io.NopCloser(bytes.NewReader(body))
	dec := body
	enc := strings.TrimSpace(resp.Header.Get("Content-Encoding"))
	if enc == "" {
		enc = strings.TrimSpace(resp.Header.Get("VGI-Content-Encoding"))
	}
	if enc != "" && !strings.EqualFold(enc, "identity") {
		if d, derr := vgirpc.DecodeContentEncoding(body, enc, 1<<28); derr == nil {
			dec = d
		}
	}
	t.bodies = append(t.bodies, dec)
	return resp, nil
}

func (t *c05Rec) obs() *c05Obs {
	o := &c05Obs{}
	for _, b := range t.bodies {
		c05Scan(b, o)
	}
	return o
}

func c05HTTPClient(s *c05Srv, rec *c05Rec, pv string) *vgirpc.HttpClient {
	rec.base = http.DefaultTransport
	opts := []vgirpc.HttpClientOption{vgirpc.WithClientHTTPClient(&http.Client{Transport: rec})}
	if pv != "" {
		opts = append(opts, vgirpc.WithClientProtocolVersion(pv))
	}
	cl, err := vgirpc.NewHttpClient(s.ts.URL, opts...)
	if err != nil {
		panic(err)
	}
	return cl
}

// c05Call runs one call of the given site kind against the server and returns the observation.
// site: unary unaryv initp initx produceK exchangeK
func c05Call(transport string, s *c05Srv, site, spec, pv string, rec *c05Rec) *c05Obs {
	kind, k := site, 0
	if strings.HasPrefix(site, "produce") {
		kind, k = "produce", int(site[len(site)-1]-'0')
	} else if strings.HasPrefix(site, "exchange") {
		kind, k = "exchange", int(site[len(site)-1]-'0')
	}
	if transport == "pipe" {
		var body []byte
		switch kind {
		case "unary":
			body = c05Pipe(s, "raise", spec, 0, pv, "", 0)
		case "unaryv":
			body = c05Pipe(s, "raisev", spec, 0, pv, "", 0)
		case "initp":
			body = c05Pipe(s, "prod", spec, 0, pv, "producer", 2)
		case "initx":
			body = c05Pipe(s, "exch", spec, 0, pv, "exchange", 2)
		case "produce":
			body = c05Pipe(s, "prod", spec, int64(k), pv, "producer", k+1)
		case "exchange":
			body = c05Pipe(s, "exch", spec, int64(k), pv, "exchange", k+1)
		default:
			panic("bad site " + site)
		}
		o := &c05Obs{}
		c05Scan(body, o)
		return o
	}
	if rec == nil {
		rec = &c05Rec{}
	}
	cl := c05HTTPClient(s, rec, pv)
	defer cl.Close()
	ctx := context.Background()
	switch kind {
	case "unary", "unaryv":
		m := "raise"
		if kind == "unaryv" {
			m = "raisev"
		}
		p := c05ParamsBatch(spec, 0)
		if r, err := cl.CallUnary(ctx, m, p, nil); err == nil && r != nil {
			r.Release()
		}
		p.Release()
	case "initp", "produce":
		p := c05ParamsBatch(spec, int64(k))
		st, err := cl.OpenProducer(ctx, "prod", p, vgirpc.ClientStreamSchema{Output: c05OutSchema})
		p.Release()
		if err == nil {
			for i := 0; i < 8; i++ {
				b, ok, err := st.Next(ctx)
				if err != nil || !ok {
					break
				}
				b.Release()
			}
			st.Close()
		}
	case "initx", "exchange":
		p := c05ParamsBatch(spec, int64(k))
		st, err := cl.OpenExchange(ctx, "exch", p, vgirpc.ClientStreamSchema{Input: c05InSchema, Output: c05OutSchema})
		p.Release()
		if err == nil {
			n := k
			if n == 0 {
				n = 1
			}
			for i := 0; i < n; i++ {
				in := c05IntBatch(int64(i))
				b, err := st.Exchange(ctx, in)
				in.Release()
				if err != nil {
					break
				}
				b.Release()
			}
			st.Close()
		}
	default:
		panic("bad site " + site)
	}
	return rec.obs()
}

func c05ModelSite(site string) string {
	switch {
	case site == "unary" || site == "unaryv":
		return "unary"
	case site == "initp" || site == "initx":
		return "init"
	case strings.HasPrefix(site, "produce"):
		return "produce"
	case strings.HasPrefix(site, "exchange"):
		return "exchange"
	}
	return site
}

// ---------------------------------------------------------------- property oracle (direct, in Go)

var c05WireNames = map[string]bool{"RuntimeError": true, "AttributeError": true, "ProtocolVersionError": true,
	"SessionLostError": true, "ServerDrainingError": true}

func c05LooksGo(s string) bool { return strings.ContainsAny(s, "*./") }

// c05Oracle states the property on the observed envelope for the error value that was raised.
// where = transport+site slug; err = the value handed to the framework (nil for a panic, with pv).
func c05Oracle(c *Case, where string, o *c05Obs, err error, isPanic bool, pv any, debug bool, line string) {
	if !o.found {
		c.Oracle("no-exception-batch-"+where, fmt.Sprintf("%q: the response carries no EXCEPTION batch", line))
		return
	}
	if !o.extraOK {
		c.Oracle("log-extra-not-decodable-"+where, fmt.Sprintf("%q: vgi_rpc.log_extra = %q", line, o.extra))
		return
	}
	shape := "panic"
	var wantMsg string
	if isPanic {
		if o.etype != "RuntimeError" {
			c.Oracle("panic-not-runtime-error-"+where, fmt.Sprintf("%q: panic(%#v) went out as exception_type %q", line, pv, o.etype))
		}
		if o.hasKind {
			c.Oracle("panic-has-error-kind-"+where, fmt.Sprintf("%q: error_kind %q on a panic", line, o.kind))
		}
		carried := strings.HasSuffix(o.emsg, c05Rendered(pv))
		if pv == nil {
			carried = strings.Contains(o.emsg, c05Rendered(pv))
		}
		if !carried || !strings.HasPrefix(o.emsg, "RuntimeError: ") {
			c.Oracle("panic-message-not-carried-"+where, fmt.Sprintf("%q: message %q does not carry the panic value", line, o.emsg))
		}
		wantMsg = o.emsg
	} else {
		wantMsg = err.Error()
		goName := fmt.Sprintf("%T", err)
		var wantType string
		wantKind, hasKind := "", false
		switch e := err.(type) {
		case *vgirpc.RpcError:
			shape, wantType = "rpc", e.Type
			wantKind, hasKind = e.Kind, e.Kind != ""
		case *vgirpc.MethodNotImplementedError:
			shape, wantType, wantKind, hasKind = "notimpl", "AttributeError", "MethodNotImplementedError", true
		case *vgirpc.ProtocolVersionError:
			shape, wantType, wantKind, hasKind = "protocol-version", "ProtocolVersionError", "protocol_version_mismatch", true
		case *vgirpc.SessionLostError:
			shape, wantType, wantKind, hasKind = "session-lost", "SessionLostError", "session_lost", true
		case *vgirpc.ServerDrainingError:
			shape, wantType, wantKind, hasKind = "draining", "ServerDrainingError", "server_draining", true
		default:
			wantType = "RuntimeError"
			switch {
			case goName == "*vgirpc.externalCapError":
				shape = "external-cap"
			case goName == "*errors.errorString":
				shape = "plain"
			case goName == "*fmt.wrapError":
				shape = "wrapped"
			case goName == "*errors.joinError":
				shape = "joined"
			default:
				shape = "custom"
			}
			if kc, ok := err.(interface{ ErrorKind() string }); ok && kc.ErrorKind() != "" {
				wantKind, hasKind = kc.ErrorKind(), true
			}
		}
		if shape != "rpc" && (o.etype == goName || c05LooksGo(o.etype) || !c05WireNames[o.etype]) {
			c.Oracle("go-type-name-on-wire-"+shape, fmt.Sprintf("%q: a %s error went out as exception_type %q (allowed: the five wire names)", line, goName, o.etype))
		} else if o.etype != wantType {
			c.Oracle("wrong-exception-type-"+shape, fmt.Sprintf("%q: exception_type %q, want %q", line, o.etype, wantType))
		}
		if o.hasKind != hasKind || o.kind != wantKind {
			c.Oracle("wrong-error-kind-"+shape, fmt.Sprintf("%q: error_kind present=%v %q, want present=%v %q", line, o.hasKind, o.kind, hasKind, wantKind))
		}
	}
	if o.emsg != wantMsg || o.logMsg != wantMsg {
		c.Oracle("message-not-carried-"+shape, fmt.Sprintf("%q: exception_message %q / log_message %q, want %q", line, o.emsg, o.logMsg, wantMsg))
	}
	if o.level != "EXCEPTION" {
		c.Oracle("not-exception-level", fmt.Sprintf("%q: level %q", line, o.level))
	}
	// An RpcError's own Traceback (a relayed upstream stack) and any field this harness does not
	// know are never copied into the envelope: not with debug off (the clause of the property),
	// and with debug on the traceback is this process's own.
	for _, re := range c05RpcErrorsIn(err, pv) {
		if !strings.Contains(re.Traceback, c05TBMarker) || !strings.Contains(o.allMeta, c05TBMarker) {
			continue
		}
		if !debug {
			c.Oracle("rpc-own-traceback-leaked-without-debug", fmt.Sprintf("%q: the RpcError's own Traceback field %q appears in the EXCEPTION batch metadata although debug errors are off", line, re.Traceback))
		} else {
			c.Oracle("rpc-own-traceback-replaces-runtime-stack", fmt.Sprintf("%q: the envelope carries the RpcError's own Traceback field %q instead of this process's stack", line, re.Traceback))
		}
		break
	}
	if strings.Contains(o.allMeta, c05FieldMarker) {
		c.Oracle("rpc-unknown-field-copied-into-envelope", fmt.Sprintf("%q: a field of RpcError not known to the property reached the metadata: %.300q", line, o.allMeta))
	}
	if !debug && (o.tb != "" || o.nframes > 0) {
		c.Oracle("traceback-without-debug", fmt.Sprintf("%q: traceback %d bytes, %d frames with debug errors off", line, len(o.tb), o.nframes))
	}
	if debug && (o.tb == "" || o.nframes == 0 || o.nframes > 5) {
		c.Oracle("traceback-missing-with-debug", fmt.Sprintf("%q: traceback %d bytes, %d frames with debug errors on", line, len(o.tb), o.nframes))
	}
	c.Stat("shape:" + shape)
}

// c05RpcErrorsIn returns every *RpcError reachable from the raised value (itself, wrapped, joined,
// or thrown as a panic value).
func c05RpcErrorsIn(err error, pv any) []*vgirpc.RpcError {
	var out []*vgirpc.RpcError
	var walk func(e error)
	walk = func(e error) {
		if e == nil {
			return
		}
		if re, ok := e.(*vgirpc.RpcError); ok {
			out = append(out, re)
		}
		switch u := e.(type) {
		case interface{ Unwrap() error }:
			walk(u.Unwrap())
		case interface{ Unwrap() []error }:
			for _, x := range u.Unwrap() {
				walk(x)
			}
		}
	}
	walk(err)
	if pe, ok := pv.(error); ok {
		walk(pe)
	}
	return out
}

func c05Rendered(pv any) string {
	if pv == nil {
		return "panic called with nil argument"
	}
	return fmt.Sprintf("%v", pv)
}

// ---------------------------------------------------------------- Exec

func c05Exec(c *Case) {
	for _, l := range c.Lines {
		f := strings.Fields(l)
		if len(f) == 0 {
			continue
		}
		switch f[0] {
		case "raise":
			c05Raise(c, l, f)
		case "write":
			c05Write(c, l, f)
		case "fw":
			c05Fw(c, l, f)
		default:
			c.Out(l, "err:bad-op")
		}
	}
}

var c05Sites = map[string]bool{"unary": true, "unaryv": true, "initp": true, "initx": true,
	"produce1": true, "produce2": true, "produce3": true, "exchange1": true, "exchange2": true, "exchange3": true}

func c05Raise(c *Case, l string, f []string) {
	if len(f) < 5 || (f[1] != "pipe" && f[1] != "http") || !c05Sites[f[2]] || (f[3] != "0" && f[3] != "1") {
		c.Out(l, "err:bad-op")
		return
	}
	out, ok := c05ParseOutcome(f[4:])
	if !ok || out.special != "" {
		c.Out(l, "err:bad-op")
		return
	}
	debug := f[3] == "1"
	spec := strings.Join(f[4:], " ")
	s := c05Server(f[1], debug, "plain")
	o := c05Call(f[1], s, f[2], spec, "", nil)
	model := fmt.Sprintf("raise %s %s %s %s", f[1], c05ModelSite(f[2]), f[3], spec)
	c.Out(c05ModelLine(model, strings.Fields(model), nil), o.line())
	c.Stat("raise:" + f[1] + ":" + c05ModelSite(f[2]))
	if o.nExc > 1 {
		c.Stat("multi-exception-batches")
	}
	c05Oracle(c, f[1]+"-"+c05ModelSite(f[2]), o, out.err, out.isPanic, out.pv, debug, l)
}

func c05Write(c *Case, l string, f []string) {
	if len(f) < 3 || (f[1] != "0" && f[1] != "1") {
		c.Out(l, "err:bad-op")
		return
	}
	e, rest, ok := c05ParseErr(f[2:])
	if !ok || len(rest) != 0 {
		c.Out(l, "err:bad-op")
		return
	}
	debug := f[1] == "1"
	var buf bytes.Buffer
	if err := vgirpc.VerifC05WriteErrorResponse(&buf, nil, e, "sid", "rid", debug); err != nil {
		c.Out(l, "err:write")
		return
	}
	o := &c05Obs{}
	c05Scan(buf.Bytes(), o)
	// the log_extra built directly must agree with the one on the batch (debug off: byte-equal)
	if !debug {
		if direct := vgirpc.VerifC05BuildErrorExtra(e, false); direct != o.extra {
			c.Oracle("log-extra-differs-from-builder", fmt.Sprintf("%q: batch %q, buildErrorExtra %q", l, o.extra, direct))
		}
	}
	c.Out(c05ModelLine(l, f, e), o.line())
	c.Stat("write")
	c05Oracle(c, "write", o, e, false, nil, debug, l)
}

// c05ModelLine: a `cap` error's message is produced by the repo's constructor (unexported
// field), so the model is told that message; everything else goes to the model as scripted.
func c05ModelLine(l string, f []string, _ error) string {
	out := make([]string, len(f))
	copy(out, f)
	for i := 0; i+1 < len(out); i++ {
		if out[i] == "cap" {
			if m, ok := UnX(out[i+1]); ok {
				out[i+1] = XS(c05CapErr(string(m)).Error())
			}
		}
	}
	return strings.Join(out, " ")
}

// c05Fw: the framework itself raises a typed error.
//
//	fw <tr> <d> notimpl <unary|init|exchange> xNAME
//	fw <tr> <d> pv <unary|unaryv|initp|initx> <absent|old|new|bad>
//	fw http <d> lost <unary|initp|initx|exchange1> xTOKEN
//	fw http <d> drain <unary|unaryv|initp|initx|produce1|produce2|exchange1|exchange2>
//	fw http <d> capwire <unary|exchange1|exchange2>
//	fw http <d> capext <unary|produce1|produce2|exchange1>
func c05Fw(c *Case, l string, f []string) {
	if len(f) < 5 || (f[1] != "pipe" && f[1] != "http") || (f[2] != "0" && f[2] != "1") {
		c.Out(l, "err:bad-op")
		return
	}
	tr, debug, scen, site := f[1], f[2] == "1", f[3], f[4]
	var o *c05Obs
	var want error // a value of the type the framework is documented to raise here
	var model string
	switch scen {
	case "notimpl":
		if len(f) != 6 {
			c.Out(l, "err:bad-op")
			return
		}
		nameB, ok := UnX(f[5])
		if !ok || len(nameB) == 0 {
			c.Out(l, "err:bad-op")
			return
		}
		name := string(nameB)
		s := c05Server(tr, debug, "plain")
		if tr == "pipe" {
			o = &c05Obs{}
			c05Scan(c05Pipe(s, name, "ret drain", 0, "", "", 0), o)
			model = fmt.Sprintf("write %s notimpl %s %s", f[2], XS(name), XS(o.logMsg))
			want = &vgirpc.MethodNotImplementedError{Method: name, Message: o.logMsg}
		} else {
			path := "/" + url.PathEscape(name)
			switch site {
			case "init":
				path += "/init"
			case "exchange":
				path += "/exchange"
			}
			var body bytes.Buffer
			p := c05ParamsBatch("ret drain", 0)
			vgirpc.WriteRequest(&body, name, p, "")
			p.Release()
			rec := &c05Rec{base: http.DefaultTransport}
			req, _ := http.NewRequest("POST", s.ts.URL+path, &body)
			req.Header.Set("Content-Type", "application/vnd.apache.arrow.stream")
			if resp, err := rec.RoundTrip(req); err == nil {
				resp.Body.Close()
			}
			o = rec.obs()
			model = fmt.Sprintf("write %s notimpl %s x", f[2], XS(name))
			want = &vgirpc.MethodNotImplementedError{Method: name}
		}
	case "pv":
		if len(f) != 6 {
			c.Out(l, "err:bad-op")
			return
		}
		ver := map[string]string{"absent": "", "old": "1.9.0", "new": "3.0.0", "bad": "not-a-version"}
		v, ok := ver[f[5]]
		if !ok || !(site == "unary" || site == "unaryv" || site == "initp" || site == "initx") {
			c.Out(l, "err:bad-op")
			return
		}
		if tr == "http" && f[5] == "bad" {
			v = "10.20.30" // the HTTP client refuses to send a non-semver; a far-away version instead
		}
		s := c05Server(tr, debug, "pv")
		o = c05Call(tr, s, site, "ret drain", v, nil)
		model = fmt.Sprintf("write %s pv %s", f[2], XS(o.logMsg))
		want = &vgirpc.ProtocolVersionError{Message: o.logMsg}
	case "lost":
		if len(f) != 6 || tr != "http" {
			c.Out(l, "err:bad-op")
			return
		}
		tok, ok := UnX(f[5])
		if !ok || strings.TrimSpace(string(tok)) == "" || !(site == "unary" || site == "initp" || site == "initx" || site == "exchange1") {
			c.Out(l, "err:bad-op")
			return
		}
		s := c05Server(tr, debug, "plain")
		rec := &c05Rec{}
		if site == "exchange1" {
			rec.hdrOnExch = map[string]string{"VGI-Session": string(tok)}
		} else {
			rec.hdr = map[string]string{"VGI-Session": string(tok)}
		}
		o = c05Call(tr, s, site, "ret drain", "", rec)
		model = fmt.Sprintf("write %s lost %s", f[2], XS(o.logMsg))
		want = &vgirpc.SessionLostError{Reason: o.logMsg}
	case "drain":
		if len(f) != 5 || tr != "http" || !c05Sites[site] {
			c.Out(l, "err:bad-op")
			return
		}
		s := c05Server(tr, debug, "drain")
		rec := &c05Rec{hdr: map[string]string{"VGI-Session-Accept": "true"}}
		o = c05Call(tr, s, site, "opensession", "", rec)
		model = fmt.Sprintf("raise http %s %s ret drain", c05ModelSite(site), f[2])
		want = &vgirpc.ServerDrainingError{}
	case "capwire":
		if len(f) != 5 || tr != "http" || !(site == "unary" || site == "exchange1" || site == "exchange2") {
			c.Out(l, "err:bad-op")
			return
		}
		s := c05Server(tr, debug, "capwire")
		o = c05Call(tr, s, site, "big", "", nil)
		model = fmt.Sprintf("write %s plain %s", f[2], XS(o.logMsg))
		want = errors.New(o.logMsg)
		if !strings.Contains(o.logMsg, "max_response_bytes") {
			c.Oracle("cap-refusal-not-raised-capwire", fmt.Sprintf("%q: message %q", l, o.logMsg))
		}
	case "capext":
		if len(f) != 5 || tr != "http" || !(site == "unary" || site == "produce1" || site == "produce2" || site == "exchange1") {
			c.Out(l, "err:bad-op")
			return
		}
		s := c05Server(tr, debug, "capext")
		o = c05Call(tr, s, site, "big", "", nil)
		model = fmt.Sprintf("write %s cap %s", f[2], XS(o.logMsg))
		want = vgirpc.VerifC05NewExternalCapError("m", 1, 0)
		if !strings.Contains(o.logMsg, "max_externalized_response_bytes") {
			c.Oracle("cap-refusal-not-raised-capext", fmt.Sprintf("%q: message %q", l, o.logMsg))
		}
	default:
		c.Out(l, "err:bad-op")
		return
	}
	if !o.found {
		// keep the model line well-formed; the diff and the oracle both report it
		c.Out(fmt.Sprintf("write %s plain x", f[2]), o.line())
		c.Oracle("no-exception-batch-fw-"+scen, fmt.Sprintf("%q: the framework refusal produced no EXCEPTION batch", l))
		return
	}
	c.Out(model, o.line())
	c.Stat("fw:" + tr + ":" + scen + ":" + site)
	// For framework-raised errors the message is the framework's own: the oracle checks the
	// envelope against a value of the documented type carrying that message.
	if scen == "capext" {
		// message of the reference value differs (constructor-made); compare type/kind only
		o2 := *o
		o2.emsg, o2.logMsg = want.Error(), want.Error()
		if o.emsg != o.logMsg {
			c.Oracle("message-not-carried-external-cap", fmt.Sprintf("%q: %q vs %q", l, o.emsg, o.logMsg))
		}
		c05Oracle(c, "fw-"+scen, &o2, want, false, nil, debug, l)
		return
	}
	c05Oracle(c, "fw-"+scen, o, want, false, nil, debug, l)
}

// ---------------------------------------------------------------- generator

var c05Strings = []string{
	"", "ValueError", "TypeError", "RuntimeError", "KeyError", "AttributeError", "IOError", "SerializationError",
	"my_kind", "not_found", "session_lost", "x", "boom", "division by zero", "bad: value", "a b  c",
	"*errors.errorString", "*fmt.wrapError", "main.c05ValErr", "*vgirpc.RpcError", "pkg/path.Type", "a.b", "*",
	"héllo wörld", "日本語のエラー", "emoji 🙂 ok", "quote \" back\\slash", "<tag> & 'amp'", "line1\nline2", "tab\there", "\r\n",
	" sep ", "nul\x00byte", "ctl\x01\x1f", "{\"exception_type\":\"X\"}", "%s %d %v %!", "%w", "  lead/trail  ",
	"handler panicked: nested", "Unknown method: 'x'", ": ", " ", "Ünïcode_Kind", "UPPER", "0", "-1",
}

// Upstream tracebacks a relayed RpcError may carry in its own Traceback field (markers).
var c05Tracebacks = []string{
	"C05-TB-MARKER goroutine 99 [running]:\nmain.secret(0xc000012345)\n\t/srv/upstream/app.go:42 +0x1d",
	"C05-TB-MARKER Traceback (most recent call last):\n  File \"/opt/upstream/svc.py\", line 7, in handler\nValueError: x",
	"C05-TB-MARKER one-line", "C05-TB-MARKER \"quoted\" <&> ü 日本",
}

func c05Str(r *Rng) string {
	switch r.Intn(10) {
	case 0:
		return strings.Repeat(Pick(r, c05Strings), r.Range(2, 40))
	case 1:
		n := r.Range(1, 12)
		var sb strings.Builder
		for i := 0; i < n; i++ {
			sb.WriteRune(rune(r.Range(0x20, 0x7e)))
		}
		return sb.String()
	case 2:
		return Pick(r, c05Strings) + Pick(r, c05Strings)
	}
	return Pick(r, c05Strings)
}

func c05TypeStr(r *Rng) string {
	if r.Chance(70) {
		return Pick(r, []string{"ValueError", "TypeError", "RuntimeError", "KeyError", "AttributeError", "IOError",
			"SerializationError", "ProtocolError", "VersionError", "PermissionError", "NotImplementedError", "MyAppError", ""})
	}
	return c05Str(r)
}

func c05GenErr(r *Rng, depth int) string {
	x := r.Intn(100)
	if depth <= 0 && x >= 62 && x < 86 {
		x = r.Intn(62)
	}
	switch {
	case x < 22:
		kind := ""
		if r.Chance(45) {
			kind = c05Str(r)
		}
		tb, rid := "", ""
		if r.Chance(60) {
			tb = Pick(r, c05Tracebacks)
		}
		if r.Chance(50) {
			rid = Pick(r, []string{"C05-RID-MARKER-req-1", "0123456789abcdef", "ü-req", " "})
		}
		return fmt.Sprintf("rpc %s %s %s %s %s", XS(c05TypeStr(r)), XS(c05Str(r)), XS(kind), XS(tb), XS(rid))
	case x < 28:
		return fmt.Sprintf("notimpl %s %s", XS(c05Str(r)), XS(Pick(r, []string{"", "", c05Str(r)})))
	case x < 33:
		return "pv " + XS(c05Str(r))
	case x < 38:
		return "lost " + XS(Pick(r, []string{"", c05Str(r)}))
	case x < 42:
		return "drain"
	case x < 46:
		return "cap " + XS(Pick(r, []string{"m", "raise", "a b", "q\"uote", "日本"}))
	case x < 62:
		return "plain " + XS(c05Str(r))
	case x < 76:
		return fmt.Sprintf("wrap %s %s", XS(Pick(r, []string{"", "ctx: ", "while doing x: ", c05Str(r)})), c05GenErr(r, depth-1))
	case x < 86:
		return fmt.Sprintf("join %s %s", c05GenErr(r, depth-1), c05GenErr(r, depth-1))
	default:
		return fmt.Sprintf("custom %s %s %s %s", Pick(r, []string{"val", "ptr", "kind", "type", "both"}),
			XS(c05Str(r)), XS(Pick(r, []string{"", "my_kind", c05Str(r)})), XS(Pick(r, []string{"KeyError", "*main.c05BothErr", c05Str(r)})))
	}
}

func c05GenOutcome(r *Rng) string {
	if r.Chance(75) {
		return "ret " + c05GenErr(r, r.Range(0, 4))
	}
	switch r.Intn(5) {
	case 0:
		return "panic nil"
	case 1:
		return "panic int " + strconv.Itoa(Pick(r, []int{0, -1, 42, 1 << 40, -(1 << 62)}))
	case 2:
		return "panic err " + c05GenErr(r, r.Range(0, 2))
	}
	return "panic str " + XS(c05Str(r))
}

var c05SiteList = []string{"unary", "unaryv", "initp", "initx", "produce1", "produce2", "produce3", "exchange1", "exchange2", "exchange3"}

func c05GenFw(r *Rng) string {
	d := strconv.Itoa(r.Intn(2))
	switch r.Intn(8) {
	case 0, 1:
		tr := Pick(r, []string{"pipe", "http"})
		return fmt.Sprintf("fw %s %s notimpl %s %s", tr, d, Pick(r, []string{"unary", "init", "exchange"}),
			XS(Pick(r, []string{"nosuch", "Raise", "raise2", "a_b", "x", "prod_", "méthode", "__nope__", "a.b", "sp ace"})))
	case 2:
		return fmt.Sprintf("fw %s %s pv %s %s", Pick(r, []string{"pipe", "http"}), d,
			Pick(r, []string{"unary", "unaryv", "initp", "initx"}), Pick(r, []string{"absent", "old", "new", "bad"}))
	case 3:
		return fmt.Sprintf("fw http %s lost %s %s", d, Pick(r, []string{"unary", "initp", "initx", "exchange1"}),
			XS(Pick(r, []string{"garbage", "AAAA", "v1.abc.def", strings.Repeat("Q", 90), "é"})))
	case 4:
		return fmt.Sprintf("fw http %s drain %s", d, Pick(r, []string{"unary", "unaryv", "initp", "initx", "produce1", "produce2", "exchange1", "exchange2"}))
	case 5:
		return fmt.Sprintf("fw http %s capwire %s", d, Pick(r, []string{"unary", "exchange1", "exchange2"}))
	default:
		return fmt.Sprintf("fw http %s capext %s", d, Pick(r, []string{"unary", "produce1", "produce2", "exchange1"}))
	}
}

func c05Gen(g *Gen) {
	r := g.Rng
	// (c) small exhaustive part: every top-level error shape × every site × transport × debug
	shapes := []string{
		"ret rpc " + XS("ValueError") + " " + XS("m") + " " + XS("k") + " x x",
		"ret rpc " + XS("ValueError") + " " + XS("relayed") + " " + XS("k") + " " + XS(c05Tracebacks[0]) + " " + XS("C05-RID-MARKER-req-1"),
		"ret rpc " + XS("") + " " + XS("") + " " + XS("") + " x x",
		"ret notimpl " + XS("meth") + " x", "ret pv " + XS("too old"), "ret lost x", "ret lost " + XS("gone"), "ret drain",
		"ret cap " + XS("m"), "ret plain " + XS("plain failure"),
		"ret wrap " + XS("ctx: ") + " rpc " + XS("ValueError") + " " + XS("m") + " " + XS("k") + " " + XS(c05Tracebacks[1]) + " x",
		"ret wrap " + XS("ctx: ") + " lost " + XS("gone"),
		"ret join plain " + XS("a") + " rpc " + XS("T") + " " + XS("b") + " x " + XS(c05Tracebacks[2]) + " " + XS("r"),
		"ret custom val " + XS("v") + " x x", "ret custom ptr " + XS("v") + " x x",
		"ret custom kind " + XS("v") + " " + XS("my_kind") + " x", "ret custom type " + XS("v") + " x " + XS("KeyError"),
		"ret custom both " + XS("v") + " " + XS("kk") + " " + XS("KeyError"),
		"panic str " + XS("boom"), "panic int 7", "panic nil", "panic err plain " + XS("inner"),
		"panic err rpc " + XS("ValueError") + " " + XS("thrown") + " x " + XS(c05Tracebacks[0]) + " x",
	}
	var sites []string
	if g.Thorough() {
		sites = c05SiteList
	} else {
		sites = []string{"unary", "initp", "produce2", "exchange1"}
	}
	for _, tr := range []string{"pipe", "http"} {
		for _, site := range sites {
			var lines []string
			for i, sh := range shapes {
				lines = append(lines, fmt.Sprintf("raise %s %s %d %s", tr, site, (i+len(site))%2, sh))
			}
			g.Case(lines...)
		}
	}
	// (a) random structured cases
	n := g.N(600, 8000)
	for i := 0; i < n; i++ {
		var lines []string
		k := r.Range(3, 9)
		for j := 0; j < k; j++ {
			switch x := r.Intn(100); {
			case x < 55:
				lines = append(lines, fmt.Sprintf("raise %s %s %d %s", Pick(r, []string{"pipe", "http"}), Pick(r, c05SiteList), r.Intn(2), c05GenOutcome(r)))
			case x < 80:
				lines = append(lines, fmt.Sprintf("write %d %s", r.Intn(2), c05GenErr(r, r.Range(0, 4))))
			default:
				lines = append(lines, c05GenFw(r))
			}
		}
		g.Case(lines...)
	}
	// (b) hostile content stream: every string slot filled with the same JSON/format/Go-type-looking text
	for i := 0; i < g.N(30, 300); i++ {
		h := Pick(r, []string{"*errors.errorString", "{\"exception_type\":\"X\"}", "%!s(PANIC=Error method: x)", "\\u0000", "</script>",
			"\u2028\u2029", "a\x00b", strings.Repeat("é", 700), "RuntimeError", "exception_type", "null", "\"", "'"})
		x := XS(h)
		g.Case(
			fmt.Sprintf("write %d rpc %s %s %s %s %s", r.Intn(2), x, x, x, x, x),
			fmt.Sprintf("raise %s %s %d ret wrap %s custom both %s %s %s", Pick(r, []string{"pipe", "http"}), Pick(r, c05SiteList), r.Intn(2), x, x, x, x),
			fmt.Sprintf("raise %s %s %d panic str %s", Pick(r, []string{"pipe", "http"}), Pick(r, c05SiteList), r.Intn(2), x),
			fmt.Sprintf("write %d join notimpl %s %s lost %s", r.Intn(2), x, x, x),
		)
	}
}

var _ = sort.Strings
