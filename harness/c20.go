package main

import (
	"bytes"
	"context"
	"errors"
	"fmt"
	"io"
	"net/http"
	"net/http/httptest"
	"net/url"
	"regexp"
	"sort"
	"strconv"
	"strings"
	"time"

	"github.com/apache/arrow-go/v18/arrow"
	"github.com/apache/arrow-go/v18/arrow/array"
	"github.com/apache/arrow-go/v18/arrow/memory"

	"github.com/Query-farm/vgi-rpc-go/vgirpc"
)

// C20 — X-Request-ID, capability headers and the CORS expose list on every response.
//
// Script (one real HttpServer per case):
//
//	cfg cors=0|empty|cleared|1|star maxreq=Z maxresp=Z maxext=Z maxup=Z ext=0|nil|nostorage|nostoragethr|1|1thr
//	    upload=0|cleared|1 proofreq=0|off|1 introspect=0|1 proxyhdrs=<a,b|-|empty|cleared> sticky=<-|Z+Z…>
//	    echo=<a,b|-|nil|empty|cleared> comp=0|neg|1|default|lvl3|lvl4|back|badlvl hookfail=0|nilhook|1 pkce=0|1
//	    pfx=</p|-|empty> auth=0|1 oauth=0|1 dhook=0|1 notfound=0|1
//	(each value names one WAY of calling — or not calling — the setter; see c20Build)
//	req <VERB> <path> rid=<x<hex>|absent> kind=<recipe> inner=<authenticator behaviour|->
//
// kind is the recipe for body / request headers that steers the exit path (the model ignores it):
// empty | valid | garbage | badct | badenc | toolarge | chunkedbig | accept:<zstd|gzip|custom> |
// sessopen | sessdelete | acrh | json:<good|unknown|jws|down>.
//
// Observation: rid=<hex of the response X-Request-ID> enc=… ext=… caps=<conditional capability
// headers> expose=<sorted expose list, restricted to the names the model knows>.

type c20World struct {
	inner string
}

type c20P struct {
	X int64 `vgirpc:"x"`
}

type c20Sess struct{}

func (c20Sess) Close() {}

type c20Storage struct{}

func (c20Storage) Upload([]byte, *arrow.Schema, string) (string, error) {
	return "https://store.example/x", nil
}

type c20Provider struct{}

func (c20Provider) GenerateUploadURL(*arrow.Schema) (vgirpc.UploadURL, error) {
	return vgirpc.UploadURL{UploadURL: "https://up.example/u", DownloadURL: "https://up.example/d", ExpiresAt: time.Unix(2000000000, 0)}, nil
}

type c20Hook struct{}

func (c20Hook) OnDispatchStart(ctx context.Context, _ vgirpc.DispatchInfo) (context.Context, vgirpc.HookToken) {
	return ctx, nil
}
func (c20Hook) OnDispatchEnd(context.Context, vgirpc.HookToken, vgirpc.DispatchInfo, *vgirpc.CallStatistics, error) {
}

var (
	c20ParamsSch = arrow.NewSchema([]arrow.Field{{Name: "x", Type: arrow.PrimitiveTypes.Int64}}, nil)
	c20MintRe    = regexp.MustCompile(`^[0-9a-f]{16}$`)
	c20Garbage   = []byte("\x00\x00\x00\x00\x00\x00\x00\x00{garbage")
)

const c20Arrow = "application/vnd.apache.arrow.stream"

// names the model knows (lower case); the expose observation is restricted to them (+ echo names)
var c20Known = []string{"www-authenticate", "x-request-id", "x-vgi-content-encoding", "x-vgi-rpc-error",
	"vgi-max-response-bytes", "vgi-max-externalized-response-bytes", "vgi-externalization-enabled",
	"vgi-supported-encodings", "vgi-sticky-enabled", "vgi-sticky-default-ttl", "vgi-sticky-echo-headers",
	"vgi-session", "vgi-session-close", "vgi-max-request-bytes", "vgi-upload-url-support", "vgi-max-upload-bytes",
	"vgi-proxy-proof-required", "vgi-token-introspection", "vgi-auth-reason", "vgi-auth-proxy-required"}

var c20CondCaps = []string{"vgi-max-request-bytes", "vgi-max-response-bytes", "vgi-max-externalized-response-bytes",
	"vgi-upload-url-support", "vgi-max-upload-bytes", "vgi-proxy-proof-required", "vgi-token-introspection",
	"vgi-sticky-enabled", "vgi-sticky-default-ttl", "vgi-sticky-echo-headers"}

func init() {
	Register(&Prop{
		ID: "C20",
		Rule: "one real HttpServer per case (random CORS/caps/upload/proof/introspection/sticky+echo/compression/hook/pkce/auth configuration); " +
			"requests reach every exit path (200, 204 preflight, 401, 403, 404, 405, 413 by Content-Length and by chunked body, 415 by type and by encoding, " +
			"500 hook failure, 503) with request ids that are absent, blank, padded, 1/128/129 bytes, multi-byte; " +
			"non-trivial = the case has a request with an id or a rejecting recipe; distinct = distinct scripts",
		Gen:  c20Gen,
		Exec: c20Exec,
		NonTrivial: func(lines []string) bool {
			for _, l := range lines {
				if strings.HasPrefix(l, "req ") && (!strings.Contains(l, "rid=absent") || !strings.Contains(l, "kind=valid")) {
					return true
				}
			}
			return false
		},
	})
}

// c20NoCall: the ways that mean "this setter is not called"
func c20NoCall(k, v string) bool {
	switch v {
	case "0":
		return k == "ext" || k == "cors" || k == "upload" || k == "proofreq" || k == "hookfail" || k == "introspect"
	case "default":
		return k == "comp"
	case "-":
		return k == "proxyhdrs" || k == "echo" || k == "sticky"
	}
	return false
}

func c20KV(fields []string) map[string]string {
	m := map[string]string{}
	for _, f := range fields {
		if i := strings.IndexByte(f, '='); i > 0 {
			m[f[:i]] = f[i+1:]
		}
	}
	return m
}

type c20Server struct {
	srv    *vgirpc.Server
	h      *vgirpc.HttpServer
	cookie string // session cookie of the last PKCE login redirect
	state  string // its state nonce
	w      *c20World
	cfg    map[string]string
	pfx    string
	echo   []string
	client *vgirpc.HttpClient
	tr     *c20Transport
	minted map[string]bool
}

type c20Transport struct{ captured []byte }

func (t *c20Transport) RoundTrip(r *http.Request) (*http.Response, error) {
	if r.Body != nil {
		t.captured, _ = io.ReadAll(r.Body)
		r.Body.Close()
	}
	return nil, errors.New("captured")
}

func c20Mock(w *c20World) vgirpc.AuthenticateFunc {
	return func(*http.Request) (*vgirpc.AuthContext, error) {
		in := w.inner
		switch {
		case strings.HasPrefix(in, "accept:"):
			return &vgirpc.AuthContext{Domain: "mock", Authenticated: true, Principal: in[7:]}, nil
		case in == "anon" || in == "-" || in == "":
			return &vgirpc.AuthContext{}, nil
		case in == "failure":
			return nil, vgirpc.NewAuthFailure(vgirpc.AuthReasonInvalidCredential, "no")
		case in == "value":
			return nil, &vgirpc.RpcError{Type: "ValueError", Message: "bad credential"}
		case in == "perm":
			return nil, &vgirpc.RpcError{Type: "PermissionError", Message: "not allowed"}
		case in == "unavail":
			return nil, vgirpc.NewAuthUnavailable("authority down")
		case in == "other":
			return nil, errors.New("boom")
		}
		panic("c20: unknown inner behaviour " + in)
	}
}

func c20Build(cfgLine string) (s *c20Server, err error) {
	defer func() {
		if r := recover(); r != nil {
			err = fmt.Errorf("panic while configuring: %v", r)
		}
	}()
	cfg := c20KV(strings.Fields(cfgLine)[1:])
	for _, k := range []string{"cors", "maxreq", "maxresp", "maxext", "maxup", "ext", "upload", "proofreq", "introspect", "proxyhdrs",
		"sticky", "echo", "comp", "hookfail", "pkce", "pfx", "auth", "oauth", "dhook", "notfound"} {
		if _, ok := cfg[k]; !ok {
			return nil, fmt.Errorf("cfg key %s missing", k)
		}
	}
	on := func(k string) bool { return cfg[k] == "1" }
	if on("pkce") && !(on("auth") && on("oauth")) {
		return nil, fmt.Errorf("pkce needs auth and oauth")
	}
	bad := func(k string) error { return fmt.Errorf("cfg %s=%s: unknown way", k, cfg[k]) }
	w := &c20World{inner: "anon"}
	srv := vgirpc.NewServer()
	vgirpc.Unary(srv, "u1", func(_ context.Context, _ *vgirpc.CallContext, p c20P) (int64, error) { return p.X + 1, nil })
	vgirpc.Unary(srv, "boom", func(_ context.Context, _ *vgirpc.CallContext, p c20P) (int64, error) {
		return 0, &vgirpc.RpcError{Type: "ValueError", Message: "handler failed"}
	})
	vgirpc.Unary(srv, "sess", func(_ context.Context, ctx *vgirpc.CallContext, p c20P) (int64, error) {
		_ = ctx.OpenSession(c20Sess{}, 0)
		return p.X, nil
	})
	switch cfg["hookfail"] {
	case "0":
	case "nilhook":
		srv.SetServeStartHook(nil)
	case "1":
		srv.SetServeStartHook(func(vgirpc.TransportKind, map[string]bool) error { return errors.New("start hook says no") })
	default:
		return nil, bad("hookfail")
	}
	if on("dhook") {
		srv.SetDispatchHook(c20Hook{})
	}
	h := vgirpc.NewHttpServer(srv)
	pfx := cfg["pfx"]
	switch pfx {
	case "-":
		pfx = ""
	case "empty":
		pfx = ""
		h.SetPrefix("")
	default:
		h.SetPrefix(pfx)
	}
	h.SetEnableNotFoundPage(on("notfound"))
	if on("auth") {
		h.SetAuthenticate(c20Mock(w))
	}
	if on("oauth") {
		if err := h.SetOAuthResourceMetadata(&vgirpc.OAuthResourceMetadata{
			Resource:             "https://api.example.com" + pfx,
			AuthorizationServers: []string{c20IdPURL()},
			ClientID:             "client-1",
		}); err != nil {
			return nil, err
		}
	}
	if on("pkce") {
		if err := h.SetOAuthPkce(vgirpc.OAuthPkceConfig{}); err != nil {
			return nil, err
		}
	}
	s = &c20Server{srv: srv, h: h, w: w, cfg: cfg, pfx: pfx, minted: map[string]bool{}}
	for _, k := range []string{"ext", "cors", "comp", "maxreq", "maxresp", "maxext", "maxup", "upload", "proofreq", "proxyhdrs",
		"introspect", "sticky", "echo"} {
		if err := s.applyKey(k, cfg[k]); err != nil {
			return nil, err
		}
	}
	h.InitPages()
	s.tr = &c20Transport{}
	cl, err := vgirpc.NewHttpClient("http://c20.test", vgirpc.WithClientPrefix(pfx),
		vgirpc.WithClientHTTPClient(&http.Client{Transport: s.tr}))
	if err != nil {
		return nil, err
	}
	s.client = cl
	return s, nil
}


// applyKey performs the setter call(s) the way `v` of key `k` names, on the live server. Used for the
// initial configuration and for `recfg` lines between requests.
func (s *c20Server) applyKey(k, v string) (err error) {
	defer func() {
		if r := recover(); r != nil {
			err = fmt.Errorf("panic in setter %s=%s: %v", k, v, r)
		}
	}()
	h, srv := s.h, s.srv
	bad := fmt.Errorf("cfg %s=%s: unknown way", k, v)
	num := func() int64 { n, _ := strconv.ParseInt(v, 10, 64); return n }
	switch k {
	case "ext": // every way SetExternalLocation can be called
		switch v {
		case "0":
		case "nil":
			srv.SetExternalLocation(nil)
		case "nostorage": // a config that can only *read* external locations: no Storage, zero threshold
			srv.SetExternalLocation(&vgirpc.ExternalLocationConfig{})
		case "nostoragethr":
			srv.SetExternalLocation(&vgirpc.ExternalLocationConfig{ExternalizeThresholdBytes: 4096, MaxRetries: 1})
		case "1":
			srv.SetExternalLocation(&vgirpc.ExternalLocationConfig{Storage: c20Storage{}})
		case "1thr":
			srv.SetExternalLocation(&vgirpc.ExternalLocationConfig{Storage: c20Storage{}, ExternalizeThresholdBytes: 1})
		default:
			return bad
		}
	case "cors":
		switch v {
		case "0":
		case "empty":
			h.SetCorsOrigins("")
		case "cleared":
			h.SetCorsOrigins("https://app.example")
			h.SetCorsOrigins("")
		case "1":
			h.SetCorsOrigins("https://app.example")
		case "star":
			h.SetCorsOrigins("*")
		default:
			return bad
		}
	case "comp":
		switch v {
		case "default":
		case "1":
			return h.SetCompressionLevel(vgirpc.DefaultCompressionLevel)
		case "0":
			return h.SetCompressionLevel(0)
		case "neg":
			return h.SetCompressionLevel(-1)
		case "lvl3":
			return h.SetCompressionLevel(3)
		case "lvl4":
			return h.SetCompressionLevel(4)
		case "badlvl": // rejected by the setter (unknown zstd level): the previous setting stays
			if h.SetCompressionLevel(99) == nil {
				return fmt.Errorf("SetCompressionLevel(99) was accepted")
			}
		case "back":
			if err := h.SetCompressionLevel(0); err != nil {
				return err
			}
			return h.SetCompressionLevel(2)
		default:
			return bad
		}
	case "maxreq":
		h.SetMaxRequestBytes(num())
	case "maxresp":
		h.SetMaxResponseBytes(num())
	case "maxext":
		h.SetMaxExternalizedResponseBytes(num())
	case "maxup":
		h.SetMaxUploadBytes(num())
	case "upload":
		switch v {
		case "0":
		case "cleared":
			h.SetUploadURLProvider(c20Provider{})
			h.SetUploadURLProvider(nil)
		case "1":
			h.SetUploadURLProvider(c20Provider{})
		default:
			return bad
		}
	case "proofreq":
		switch v {
		case "0":
		case "off":
			h.SetProxyProofRequired(true)
			h.SetProxyProofRequired(false)
		case "1":
			h.SetProxyProofRequired(true)
		default:
			return bad
		}
	case "proxyhdrs":
		switch v {
		case "-":
		case "empty":
			h.SetProxyAuthHeaders()
		case "cleared":
			h.SetProxyAuthHeaders("x-old")
			h.SetProxyAuthHeaders()
		default:
			h.SetProxyAuthHeaders(strings.Split(v, ",")...)
		}
	case "introspect":
		if v == "1" {
			return h.EnableTokenIntrospection(vgirpc.TokenIntrospectionConfig{
				Resolver: func(cred string) (vgirpc.TokenIdentity, bool, error) {
					switch cred {
					case "down-token":
						return vgirpc.TokenIdentity{}, false, vgirpc.NewAuthUnavailable("store down")
					case "good-token":
						return vgirpc.TokenIdentity{Principal: "bob", TokenName: "t"}, true, nil
					}
					return vgirpc.TokenIdentity{}, false, nil
				},
				Principals:         []string{"introspector"},
				RateLimitPerSecond: 1 << 30,
			})
		} else if v != "0" {
			return bad
		}
	case "sticky":
		if v != "-" {
			// EnableSticky called once per listed TTL (the first call ever creates the registry)
			for _, t := range strings.Split(v, "+") {
				ttl, perr := strconv.Atoi(t)
				if perr != nil {
					return bad
				}
				h.EnableSticky(time.Duration(ttl) * time.Second)
			}
		}
	case "echo":
		switch v {
		case "-":
		case "nil":
			h.SetStickyEchoHeaders(nil)
			s.echo = nil
		case "empty":
			h.SetStickyEchoHeaders(map[string]string{})
			s.echo = nil
		case "cleared":
			h.SetStickyEchoHeaders(map[string]string{"old-one": "x"})
			h.SetStickyEchoHeaders(map[string]string{})
			s.echo = nil
		default:
			m := map[string]string{}
			s.echo = nil
			for _, n := range strings.Split(v, ",") {
				m[n] = "value-of-" + n
				s.echo = append(s.echo, n)
			}
			h.SetStickyEchoHeaders(m)
		}
	default:
		return fmt.Errorf("key %s cannot be reconfigured", k)
	}
	return nil
}

// ---------------------------------------------------------------- a hostile identity provider

var c20IdP *httptest.Server

// c20IdPURL starts (once per process) a local OIDC provider whose every response carries the headers
// this property is about, with foreign values: anything the worker relays verbatim shows up.
func c20IdPURL() string {
	if c20IdP != nil {
		return c20IdP.URL
	}
	mux := http.NewServeMux()
	hostile := func(w http.ResponseWriter) {
		w.Header().Set("X-Request-Id", "IDP-TRACE-7f3a9c")
		w.Header().Set("VGI-Supported-Encodings", "br")
		w.Header().Set("VGI-Externalization-Enabled", "maybe")
		w.Header().Set("VGI-Max-Request-Bytes", "1")
		w.Header().Set("Access-Control-Expose-Headers", "X-Idp-Only")
		w.Header().Set("VGI-Idp-Internal", "leak")
	}
	mux.HandleFunc("/.well-known/openid-configuration", func(w http.ResponseWriter, r *http.Request) {
		hostile(w)
		w.Header().Set("Content-Type", "application/json")
		fmt.Fprintf(w, `{"issuer":%q,"authorization_endpoint":%q,"token_endpoint":%q}`, c20IdP.URL, c20IdP.URL+"/authorize", c20IdP.URL+"/token")
	})
	mux.HandleFunc("/token", func(w http.ResponseWriter, r *http.Request) {
		hostile(w)
		w.Header().Set("Content-Type", "application/json")
		_ = r.ParseForm()
		if r.Form.Get("code") == "bad" || r.Form.Get("refresh_token") == "bad" {
			w.WriteHeader(http.StatusBadRequest)
			io.WriteString(w, `{"error":"invalid_grant"}`)
			return
		}
		io.WriteString(w, `{"access_token":"tok-123","token_type":"Bearer","expires_in":60,"refresh_token":"r-1"}`)
	})
	c20IdP = httptest.NewServer(mux)
	return c20IdP.URL
}

func (s *c20Server) close() {
	if d := s.h.DrainHandle(); d != nil {
		d.Shutdown()
	}
	s.client.Close()
}

func (s *c20Server) unaryBody(method string) []byte {
	b := array.NewInt64Builder(memory.NewGoAllocator())
	defer b.Release()
	b.Append(41)
	col := b.NewArray()
	defer col.Release()
	rec := array.NewRecordBatch(c20ParamsSch, []arrow.Array{col}, 1)
	defer rec.Release()
	s.tr.captured = nil
	_, _ = s.client.CallUnary(context.Background(), method, rec, nil)
	return s.tr.captured
}

// methodOf: the method a path below the prefix names ("" when it does not look like an RPC path)
func (s *c20Server) methodOf(path string) string {
	if !strings.HasPrefix(path, s.pfx+"/") {
		return ""
	}
	segs := strings.Split(path[len(s.pfx)+1:], "/")
	if len(segs) >= 1 && segs[0] != "" && !strings.ContainsAny(segs[0], "{}%") {
		return segs[0]
	}
	return ""
}

func (s *c20Server) freshSession() string {
	saved := s.w.inner
	s.w.inner = "anon"
	defer func() { s.w.inner = saved }()
	req := httptest.NewRequest("POST", s.pfx+"/sess", bytes.NewReader(s.unaryBody("sess")))
	req.Header.Set("Content-Type", c20Arrow)
	req.Header.Set("VGI-Session-Accept", "true")
	rec := httptest.NewRecorder()
	s.h.ServeHTTP(rec, req)
	return rec.Header().Get("VGI-Session")
}

func c20Exec(c *Case) {
	var s *c20Server
	defer func() {
		if s != nil {
			s.close()
		}
	}()
	for _, l := range c.Lines {
		f := strings.Fields(l)
		if len(f) == 0 {
			continue
		}
		switch f[0] {
		case "cfg":
			if s != nil {
				s.close()
			}
			ns, err := c20Build(l)
			if err != nil {
				s = nil
				c.Out(l, "err:cfg "+err.Error())
				continue
			}
			s = ns
			c.Out(l, "ok")
		case "recfg":
			// further setter calls on the live server, between requests
			if s == nil {
				c.Out(l, "err:no-cfg")
				continue
			}
			var rerr error
			for _, w := range f[1:] {
				i := strings.IndexByte(w, '=')
				if i <= 0 {
					rerr = fmt.Errorf("bad word %q", w)
					break
				}
				if rerr = s.applyKey(w[:i], w[i+1:]); rerr != nil {
					break
				}
				if c20NoCall(w[:i], w[i+1:]) {
					continue
				}
				if w[:i] == "sticky" && s.cfg["sticky"] != "-" && w[i+1:] != "-" {
					s.cfg["sticky"] += "+" + w[i+1:]
				} else if !(w[:i] == "comp" && w[i+1:] == "badlvl") && !(w[:i] == "introspect" && w[i+1:] == "0") {
					s.cfg[w[:i]] = w[i+1:]
				}
			}
			if rerr != nil {
				c.Out(l, "err:recfg "+rerr.Error())
				continue
			}
			c.Stat("recfg")
			c.Out(l, "ok")
		case "req":
			if s == nil {
				c.Out(l, "err:no-cfg")
				continue
			}
			if len(f) < 3 {
				c.Out(l, "err:bad-op")
				continue
			}
			c20Request(c, s, l, f[1], f[2], c20KV(f[3:]))
		default:
			c.Out(l, "err:bad-op")
		}
	}
}

func c20Request(c *Case, s *c20Server, line, verb, path string, kv map[string]string) {
	ridArg, kind, inner := kv["rid"], kv["kind"], kv["inner"]
	if !strings.HasPrefix(path, "/") || ridArg == "" || kind == "" {
		c.Out(line, "err:bad-op")
		return
	}
	var body []byte
	hdr := http.Header{}
	hdr.Set("Content-Type", c20Arrow)
	chunked := false
	method := s.methodOf(path)
	valid := func() []byte {
		if method == "" {
			return c20Garbage
		}
		return s.unaryBody(method)
	}
	switch {
	case kind == "empty":
	case kind == "valid":
		body = valid()
	case kind == "garbage":
		body = c20Garbage
	case kind == "badct":
		body = valid()
		hdr.Set("Content-Type", "application/json")
	case kind == "badenc":
		body = valid()
		hdr.Set("Content-Encoding", "br")
	case kind == "toolarge" || kind == "chunkedbig":
		body = valid()
		if n, _ := strconv.Atoi(s.cfg["maxreq"]); n > 0 && n <= 1<<20 && len(body) <= n {
			body = append(body, bytes.Repeat([]byte{0}, n+1-len(body))...)
		}
		chunked = kind == "chunkedbig"
	case strings.HasPrefix(kind, "accept:"):
		body = valid()
		switch kind[7:] {
		case "zstd":
			hdr.Set("Accept-Encoding", "zstd")
		case "gzip":
			hdr.Set("Accept-Encoding", "gzip, identity")
		case "custom":
			hdr.Set("X-VGI-Accept-Encoding", "zstd")
		default:
			c.Out(line, "err:bad-op")
			return
		}
	case kind == "sessopen":
		body = valid()
		hdr.Set("VGI-Session-Accept", "true")
	case kind == "sessdelete":
		if tok := s.freshSession(); tok != "" {
			hdr.Set("VGI-Session", tok)
		} else {
			hdr.Set("VGI-Session", "AAAAnot-a-token")
		}
	case strings.HasPrefix(kind, "tokenform:"):
		// the PKCE token proxy: a form the proxy forwards to the (hostile) IdP, or refuses itself
		hdr.Set("Content-Type", "application/x-www-form-urlencoded")
		hdr.Set("Origin", "http://localhost:5173")
		switch kind[10:] {
		case "good":
			body = []byte("grant_type=authorization_code&code=abc&code_verifier=v&redirect_uri=http%3A%2F%2Fx")
		case "refresh":
			body = []byte("grant_type=refresh_token&refresh_token=r-1&client_id=client-1")
		case "idperr":
			body = []byte("grant_type=authorization_code&code=bad&code_verifier=v")
		case "badgrant":
			body = []byte("grant_type=client_credentials")
		case "wrongclient":
			body = []byte("grant_type=authorization_code&code=abc&client_id=someone-else")
		default:
			c.Out(line, "err:bad-op")
			return
		}
	case kind == "login":
		// a browser hitting a PKCE-wrapped page: a refused caller is redirected to the IdP
		hdr.Set("Accept", "text/html,application/xhtml+xml")
	case strings.HasPrefix(kind, "callback:"):
		// the IdP sends the browser back: the worker exchanges the code at the IdP's token endpoint
		q := "?code=abc&state=" + s.state
		switch kind[9:] {
		case "good":
			hdr.Set("Cookie", s.cookie)
		case "idperr":
			q = "?code=bad&state=" + s.state
			hdr.Set("Cookie", s.cookie)
		case "badstate":
			q = "?code=abc&state=not-the-state"
			hdr.Set("Cookie", s.cookie)
		case "nocookie":
		case "error":
			q = "?error=access_denied&error_description=nope"
		default:
			c.Out(line, "err:bad-op")
			return
		}
		path += q
	case kind == "acrh":
		hdr.Set("Origin", "https://app.example")
		hdr.Set("Access-Control-Request-Headers", "content-type, x-custom")
	case strings.HasPrefix(kind, "json:"):
		hdr.Set("Content-Type", "application/json")
		tok := map[string]string{"good": "good-token", "unknown": "who-knows", "jws": "aaaa.bbbb.cccc", "down": "down-token"}[kind[5:]]
		if tok == "" {
			c.Out(line, "err:bad-op")
			return
		}
		if strings.HasSuffix(path, "/__introspect_token__") {
			body = []byte(fmt.Sprintf(`{"token":%q}`, tok))
		} else {
			body = c20Garbage // ASCII JSON on an Arrow route makes arrow-go allocate gigabytes (not this property)
		}
	default:
		c.Out(line, "err:bad-op")
		return
	}
	var sent string
	if ridArg != "absent" {
		b, ok := UnX(ridArg)
		if !ok {
			c.Out(line, "err:bad-op")
			return
		}
		sent = string(b)
		hdr["X-Request-Id"] = []string{sent}
	}
	var rd io.Reader
	if body != nil {
		rd = bytes.NewReader(body)
	}
	var req *http.Request
	func() {
		defer func() {
			if recover() != nil {
				req = nil
			}
		}()
		req = httptest.NewRequest(verb, path, rd)
	}()
	if req == nil {
		c.Out(line, "err:bad-op")
		return
	}
	req.Header = hdr
	if chunked {
		req.ContentLength = -1
		req.Body = io.NopCloser(bytes.NewReader(body))
	}
	if s.cfg["auth"] == "1" {
		s.w.inner = inner
	}
	rec := httptest.NewRecorder()
	s.h.ServeHTTP(rec, req)
	status := rec.Code

	if kind == "login" && status == http.StatusFound {
		for _, ck := range rec.Result().Cookies() {
			if ck.Value != "" && strings.Contains(ck.Path, "/_oauth/") {
				s.cookie = ck.Name + "=" + ck.Value
			}
		}
		if u, perr := url.Parse(rec.Header().Get("Location")); perr == nil {
			s.state = u.Query().Get("state")
		}
		c.Stat("login-redirect")
	}
	if i := strings.IndexByte(path, '?'); i >= 0 {
		path = path[:i]
	}

	// ---- canonical observation
	low := map[string]string{}
	for k, v := range rec.Header() {
		if len(v) > 0 {
			low[strings.ToLower(k)] = v[0]
		}
	}
	got, hasRid := low["x-request-id"]
	opt := func(n string) string {
		if v, ok := low[n]; ok {
			if n == "vgi-sticky-echo-headers" {
				parts := strings.Split(v, ", ")
				sort.Strings(parts)
				return strings.Join(parts, ", ")
			}
			return v
		}
		return "absent"
	}
	var caps []string
	for _, n := range c20CondCaps {
		if _, ok := low[n]; ok {
			caps = append(caps, n+"="+opt(n))
		}
	}
	capsS := "-"
	if len(caps) > 0 {
		capsS = strings.Join(caps, ";")
	}
	known := map[string]bool{}
	for _, n := range c20Known {
		known[n] = true
	}
	for _, n := range s.echo {
		known["vgi-echo-"+strings.ToLower(n)] = true
	}
	exposeS := "none"
	exposed := map[string]bool{}
	exposeRaw, hasExpose := low["access-control-expose-headers"]
	if hasExpose {
		var keep []string
		for _, p := range strings.Split(exposeRaw, ",") {
			n := strings.ToLower(strings.TrimSpace(p))
			exposed[n] = true
			if known[n] {
				keep = append(keep, n)
			}
		}
		sort.Strings(keep)
		exposeS = strings.Join(keep, ",")
	}
	ridObs := "rid=absent"
	if hasRid {
		ridObs = "rid=" + XS(got)
	}
	c.Out(line+" mint="+XS(got), fmt.Sprintf("%s enc=%s ext=%s caps=%s expose=%s", ridObs, opt("vgi-supported-encodings"),
		opt("vgi-externalization-enabled"), capsS, exposeS))
	c.Stat(fmt.Sprintf("status:%d", status))
	c.Stat("kind:" + strings.SplitN(kind, ":", 2)[0])
	for _, n := range []string{"vgi-session", "vgi-session-close", "x-vgi-rpc-error", "x-vgi-content-encoding", "content-encoding",
		"vgi-auth-reason", "vgi-auth-proxy-required", "www-authenticate", "retry-after"} {
		if _, ok := low[n]; ok {
			c.Stat("resp-header:" + n)
		}
	}
	for n := range low {
		if strings.HasPrefix(n, "vgi-echo-") {
			c.Stat("resp-header:vgi-echo-*")
			break
		}
	}

	// ---- the property, stated on the real response
	where := fmt.Sprintf("%s %s -> %d (kind=%s inner=%s)", verb, path, status, kind, inner)
	if !hasRid {
		c.Oracle(fmt.Sprintf("request-id-missing-on-%d", status), "response without X-Request-ID: "+where)
	} else {
		trimmed := strings.TrimSpace(sent)
		if trimmed != "" && len(trimmed) <= 128 {
			c.Stat("rid:echo")
			if got != trimmed {
				c.Oracle("request-id-not-echoed", fmt.Sprintf("caller id %q (trimmed %q, %d bytes) answered with %q: %s", sent, trimmed, len(trimmed), got, where))
			}
		} else {
			c.Stat("rid:mint")
			if !c20MintRe.MatchString(got) {
				c.Oracle("request-id-bad-mint", fmt.Sprintf("caller id %q is unusable but the response id %q is not 16 lowercase hex: %s", sent, got, where))
			} else {
				if s.minted[got] {
					c.Oracle("minted-request-id-repeated", fmt.Sprintf("minted id %q was already handed out by this server (%d minted so far): %s", got, len(s.minted), where))
				}
				s.minted[got] = true
			}
		}
	}
	if s.cfg["hookfail"] != "1" {
		for _, n := range []string{"vgi-supported-encodings", "vgi-externalization-enabled"} {
			if _, ok := low[n]; !ok {
				c.Oracle(fmt.Sprintf("capability-header-missing-on-%d", status), fmt.Sprintf("%s missing: %s", n, where))
			}
		}
		if v, ok := low["vgi-externalization-enabled"]; ok {
			want := "false"
			if s.cfg["ext"] == "1" || s.cfg["ext"] == "1thr" {
				want = "true"
			}
			if v != want {
				c.Oracle("externalization-header-bad-value", fmt.Sprintf("VGI-Externalization-Enabled=%q, the server's configuration says %q: %s", v, want, where))
			}
		}
		if v, ok := low["vgi-supported-encodings"]; ok && v != "" && v != "zstd, gzip" {
			c.Oracle("supported-encodings-foreign-value", fmt.Sprintf("VGI-Supported-Encodings=%q is not a value this server produces: %s", v, where))
		}
	}
	if (s.cfg["cors"] == "1" || s.cfg["cors"] == "star") && s.cfg["hookfail"] != "1" {
		tokenPreflight := verb == "OPTIONS" && s.cfg["pkce"] == "1" && path == s.pfx+"/_oauth/token"
		if !tokenPreflight {
			if !hasExpose {
				c.Oracle(fmt.Sprintf("expose-list-missing-on-%d", status), "CORS is enabled but the response has no Access-Control-Expose-Headers: "+where)
			} else {
				var names []string
				for n := range low {
					if strings.HasPrefix(n, "vgi-") || strings.HasPrefix(n, "x-vgi-") || n == "x-request-id" || n == "www-authenticate" {
						names = append(names, n)
					}
				}
				sort.Strings(names)
				for _, n := range names {
					if !exposed[n] {
						cls := n
						if strings.HasPrefix(n, "vgi-echo-") {
							cls = "vgi-echo-*"
						}
						c.Oracle("header-not-exposed:"+cls, fmt.Sprintf("response header %s is not listed in Access-Control-Expose-Headers (%s): %s", n, exposeRaw, where))
					}
				}
			}
		}
	}
}

// ---------------------------------------------------------------- generation

func c20B(b bool) string {
	if b {
		return "1"
	}
	return "0"
}

// c20Cfg: every field is the WAY the corresponding setter is (not) called.
type c20Cfg struct {
	cors, ext, upload, proofreq, comp, hookfail, proxyhdrs, sticky, echo, pfx string
	introspect, pkce, auth, oauth, dhook, notfound                             bool
	maxreq, maxresp, maxext, maxup                                             int
}

func (k c20Cfg) line() string {
	return fmt.Sprintf("cfg cors=%s maxreq=%d maxresp=%d maxext=%d maxup=%d ext=%s upload=%s proofreq=%s introspect=%s proxyhdrs=%s sticky=%s echo=%s comp=%s hookfail=%s pkce=%s pfx=%s auth=%s oauth=%s dhook=%s notfound=%s",
		k.cors, k.maxreq, k.maxresp, k.maxext, k.maxup, k.ext, k.upload, k.proofreq, c20B(k.introspect),
		k.proxyhdrs, k.sticky, k.echo, k.comp, k.hookfail, c20B(k.pkce), k.pfx, c20B(k.auth), c20B(k.oauth),
		c20B(k.dhook), c20B(k.notfound))
}

func (k c20Cfg) p() string {
	if k.pfx == "-" || k.pfx == "empty" {
		return ""
	}
	return k.pfx
}

func (k c20Cfg) corsOn() bool { return k.cors == "1" || k.cors == "star" }

// the ways each capability-related setter can be called (first entries = plain on/off, weighted)
var (
	c20WaysCors      = []string{"1", "1", "1", "star", "star", "0", "empty", "cleared"}
	c20WaysExt       = []string{"0", "0", "1", "1", "1thr", "nil", "nostorage", "nostorage", "nostoragethr"}
	c20WaysUpload    = []string{"0", "0", "1", "1", "1", "cleared"}
	c20WaysProofreq  = []string{"0", "0", "0", "1", "1", "off"}
	c20WaysComp      = []string{"1", "default", "default", "lvl3", "lvl4", "back", "badlvl", "0", "0", "neg"}
	c20WaysHook      = []string{"0", "0", "0", "0", "0", "0", "0", "0", "0", "nilhook", "nilhook", "1"}
	c20WaysProxyHdrs = []string{"-", "-", "-", "empty", "cleared", "x-proxy-user", "x-a,x-b"}
	c20WaysSticky    = []string{"-", "-", "1", "30", "300", "86400", "0", "-5", "30+60", "30+0", "0+45", "0+0"}
	c20WaysEcho      = []string{"-", "-", "nil", "empty", "cleared", "fly-force-instance-id", "a-b,c", "region,x-shard,zone"}
	c20WaysPfx       = []string{"-", "-", "empty", "/vgi", "/vgi", "/a/b"}
	c20WaysMax       = []int{0, 0, -1, 1, 64, 700, 4096, 1 << 20, 1 << 40}
	c20WaysMaxReq    = []int{0, 0, -1, 1, 300, 900, 4096, 65536}
)

func c20RandCfg(r *Rng) c20Cfg {
	k := c20Cfg{
		cors: Pick(r, c20WaysCors), ext: Pick(r, c20WaysExt), upload: Pick(r, c20WaysUpload),
		proofreq: Pick(r, c20WaysProofreq), comp: Pick(r, c20WaysComp), hookfail: Pick(r, c20WaysHook),
		proxyhdrs: Pick(r, c20WaysProxyHdrs), sticky: Pick(r, c20WaysSticky), echo: Pick(r, c20WaysEcho),
		pfx: Pick(r, c20WaysPfx),
	}
	k.introspect = r.Bool()
	k.auth = r.Chance(75)
	k.oauth = r.Chance(50)
	k.pkce = k.auth && k.oauth && r.Chance(50)
	k.dhook = r.Chance(40)
	k.notfound = r.Chance(70)
	k.maxreq, k.maxresp, k.maxext, k.maxup = Pick(r, c20WaysMaxReq), Pick(r, c20WaysMax), Pick(r, c20WaysMax), Pick(r, c20WaysMax)
	return k
}

var c20Rids = func() []string {
	pad := func(n int, ch string) string { return strings.Repeat(ch, n) }
	vals := []string{"", " ", " \t ", "a", "abc-123", "  padded-id\t", " nbsp-padded　", pad(127, "x"), pad(128, "x"), pad(129, "x"),
		" " + pad(128, "y") + " ", " " + pad(129, "y") + " ", pad(42, "€"), pad(43, "€"), pad(64, "é"), pad(65, "é"),
		"0123456789abcdef", "ABCDEF0123456789", "id with spaces inside", " em-space ", "x\u0085", pad(300, "z"),
		"​zero-width", "日本語のID", "a\tb", "\x7f", "-"}
	return vals
}()

func c20Rid(r *Rng) string {
	if r.Chance(22) {
		return "absent"
	}
	if r.Chance(12) {
		// random ASCII with random padding
		n := r.Range(1, 140)
		b := make([]byte, n)
		for i := range b {
			b[i] = byte(33 + r.Intn(94))
		}
		return XS(strings.Repeat(" ", r.Intn(3)) + string(b) + strings.Repeat("\t", r.Intn(3)))
	}
	return XS(Pick(r, c20Rids))
}

type c20Target struct{ verb, path, kind, inner string }

func (k c20Cfg) targets(r *Rng) []c20Target {
	p := k.p()
	root := p
	if root == "" {
		root = "/"
	}
	rej := func() string { return Pick(r, []string{"failure", "value", "perm", "unavail", "other"}) }
	t := []c20Target{
		{"POST", p + "/u1", "valid", "anon"}, {"POST", p + "/u1", "valid", "accept:alice"}, {"POST", p + "/boom", "valid", "anon"},
		{"POST", p + "/u1", "badct", "anon"}, {"POST", p + "/u1", "badenc", "anon"}, {"POST", p + "/u1", "garbage", "anon"},
		{"POST", p + "/u1", "empty", "anon"}, {"POST", p + "/nosuch", "valid", "anon"}, {"POST", p + "/u1", "toolarge", "anon"},
		{"POST", p + "/u1", "chunkedbig", "anon"}, {"POST", p + "/u1", "valid", rej()}, {"POST", p + "/u1", "valid", rej()},
		{"POST", p + "/u1/init", "valid", "anon"}, {"POST", p + "/u1/exchange", "garbage", rej()},
		{"POST", p + "/u1", "accept:zstd", "anon"}, {"POST", p + "/u1", "accept:gzip", "anon"}, {"POST", p + "/u1", "accept:custom", "anon"},
		{"POST", p + "/boom", "accept:zstd", "anon"}, {"POST", p + "/sess", "sessopen", "anon"}, {"DELETE", p + "/__session__", "sessdelete", "anon"},
		{"DELETE", p + "/__session__", "empty", rej()}, {"POST", p + "/__describe__", "valid", "anon"},
		{"POST", p + "/__upload_url__/init", "valid", "anon"}, {"POST", p + "/__upload_url__/init", "garbage", rej()},
		{"POST", p + "/__introspect_token__", "json:good", "accept:introspector"}, {"POST", p + "/__introspect_token__", "json:good", "accept:alice"},
		{"POST", p + "/__introspect_token__", "json:down", "accept:introspector"}, {"POST", p + "/__introspect_token__", "json:jws", "accept:introspector"},
		{"POST", p + "/__introspect_token__", "json:unknown", rej()},
		{"OPTIONS", p + "/u1", "empty", rej()}, {"OPTIONS", p + "/u1", "acrh", "anon"}, {"OPTIONS", "/health", "empty", "anon"},
		{"OPTIONS", p + "/_oauth/token", "acrh", rej()}, {"OPTIONS", "/nowhere", "empty", "anon"},
		{"GET", "/health", "empty", rej()}, {"GET", p + "/health", "empty", "anon"}, {"HEAD", "/health", "empty", "anon"},
		{"GET", "/.well-known/oauth-protected-resource" + p, "empty", "anon"}, {"GET", root, "empty", "anon"}, {"GET", root, "empty", rej()},
		{"GET", p + "/describe", "empty", rej()}, {"GET", "/no/such/page", "empty", "anon"}, {"PUT", p + "/u1", "valid", "anon"},
		{"GET", p + "/u1", "empty", "anon"}, {"GET", p + "/_oauth/callback", "empty", "anon"}, {"GET", p + "/_oauth/logout", "empty", "anon"},
		{"POST", p + "/_oauth/token", "badct", "anon"}, {"PATCH", "/", "garbage", "anon"},
		// OAuth routes against the hostile IdP (they exist when pkce=1; 404/405 otherwise)
		{"POST", p + "/_oauth/token", "tokenform:good", rej()}, {"POST", p + "/_oauth/token", "tokenform:refresh", "anon"},
		{"POST", p + "/_oauth/token", "tokenform:idperr", "anon"}, {"POST", p + "/_oauth/token", "tokenform:badgrant", "anon"},
		{"POST", p + "/_oauth/token", "tokenform:wrongclient", "anon"}, {"GET", root, "login", rej()},
		{"GET", p + "/_oauth/callback", "callback:good", rej()}, {"GET", p + "/_oauth/callback", "callback:idperr", "anon"},
		{"GET", p + "/_oauth/callback", "callback:badstate", "anon"}, {"GET", p + "/_oauth/callback", "callback:nocookie", "anon"},
		{"GET", p + "/_oauth/callback", "callback:error", "anon"}, {"GET", p + "/describe", "login", rej()},
	}
	return t
}

// c20Recfg: 1..3 setter calls made on the live server between two requests
func c20Recfg(r *Rng) string {
	calls := map[string][]string{
		"cors": {"1", "star", "empty", "cleared"}, "ext": {"1", "1thr", "nil", "nostorage", "nostoragethr"},
		"upload": {"1", "cleared"}, "proofreq": {"1", "off"}, "comp": {"1", "lvl3", "lvl4", "back", "badlvl", "0", "neg"},
		"proxyhdrs": {"empty", "cleared", "x-proxy-user", "x-a,x-b"}, "sticky": {"0", "30", "45", "-5"},
		"echo": {"nil", "empty", "cleared", "fly-force-instance-id", "a-b,c", "region,x-shard,zone"},
		"introspect": {"1"}, "maxreq": {"0", "-1", "300", "4096"}, "maxresp": {"0", "64", "1048576"},
		"maxext": {"0", "700"}, "maxup": {"0", "77"},
	}
	keys := []string{"cors", "ext", "upload", "proofreq", "comp", "proxyhdrs", "sticky", "echo", "introspect", "maxreq", "maxresp", "maxext", "maxup"}
	n := r.Range(1, 3)
	seen := map[string]bool{}
	out := "recfg"
	for i := 0; i < n; i++ {
		k := Pick(r, keys)
		if seen[k] {
			continue
		}
		seen[k] = true
		out += " " + k + "=" + Pick(r, calls[k])
	}
	return out
}

func c20ReqLine(t c20Target, rid string, auth bool) string {
	in := t.inner
	if !auth {
		in = "-"
	}
	return fmt.Sprintf("req %s %s rid=%s kind=%s inner=%s", t.verb, t.path, rid, t.kind, in)
}

func c20Gen(g *Gen) {
	r := g.Rng
	n := g.N(600, 8000)
	for i := 0; i < n; i++ {
		k := c20RandCfg(r)
		lines := []string{k.line()}
		ts := k.targets(r)
		m := r.Range(12, 30)
		for j := 0; j < m; j++ {
			if j > 0 && r.Chance(9) {
				lines = append(lines, c20Recfg(r))
			}
			lines = append(lines, c20ReqLine(Pick(r, ts), c20Rid(r), k.auth))
		}
		g.Case(lines...)
	}
	// histories: serve on a bare CORS server, then switch every capability on one setter call at a time,
	// serving after each (a response is judged against the configuration in force when it was produced)
	hm := g.N(12, 120)
	for i := 0; i < hm; i++ {
		k := c20Cfg{cors: Pick(r, []string{"1", "star"}), ext: "0", upload: "0", proofreq: "0", comp: "default", hookfail: "0",
			proxyhdrs: "-", sticky: "-", echo: "-", pfx: Pick(r, c20WaysPfx), auth: true, oauth: i%2 == 0, pkce: i%2 == 0, notfound: r.Bool()}
		p := k.p()
		probe := func() []string {
			return []string{
				c20ReqLine(c20Target{"GET", "/health", "empty", "anon"}, c20Rid(r), true),
				c20ReqLine(c20Target{"POST", p + "/u1", "valid", Pick(r, []string{"anon", "value", "perm"})}, c20Rid(r), true),
				c20ReqLine(Pick(r, []c20Target{{"OPTIONS", p + "/u1", "acrh", "anon"}, {"GET", "/no/such/page", "empty", "anon"},
					{"POST", p + "/sess", "sessopen", "anon"}, {"POST", p + "/u1", "toolarge", "anon"}}), c20Rid(r), true),
			}
		}
		lines := append([]string{k.line()}, probe()...)
		steps := []string{"maxreq=300", "proofreq=1", "introspect=1", "proxyhdrs=x-proxy-user", "sticky=30", "echo=fly-force-instance-id,zone",
			"maxup=77", "ext=1", "maxresp=64 maxext=700", "echo=cleared", "proofreq=off", "proxyhdrs=cleared", "comp=0", "upload=1"}
		// shuffle (upload last: SetUploadURLProvider rebuilds the mux)
		for a := len(steps) - 2; a > 0; a-- {
			b := r.Intn(a + 1)
			steps[a], steps[b] = steps[b], steps[a]
		}
		for _, st := range steps {
			lines = append(lines, "recfg "+st)
			lines = append(lines, probe()...)
		}
		g.Case(lines...)
	}
	// sweep: every exit-path target once, on configurations with CORS on (and a few with the hook failing)
	m := g.N(60, 600)
	for i := 0; i < m; i++ {
		k := c20RandCfg(r)
		k.cors = Pick(r, []string{"1", "star"})
		k.hookfail = "0"
		if i%9 == 8 {
			k.hookfail = "1"
		}
		if i%2 == 0 {
			k.auth, k.oauth = true, true
		}
		lines := []string{k.line()}
		for _, t := range k.targets(r) {
			lines = append(lines, c20ReqLine(t, c20Rid(r), k.auth))
		}
		g.Case(lines...)
	}
	// one-at-a-time: every way of calling every capability-related setter, against a short tour of exits
	base := c20Cfg{cors: "1", ext: "0", upload: "0", proofreq: "0", comp: "default", hookfail: "0", proxyhdrs: "-",
		sticky: "-", echo: "-", pfx: "-", auth: true, notfound: true}
	tour := func(k c20Cfg) {
		p := k.p()
		lines := []string{k.line()}
		for _, t := range []c20Target{{"POST", p + "/u1", "valid", "anon"}, {"POST", p + "/u1", "valid", "value"},
			{"POST", p + "/nosuch", "valid", "anon"}, {"POST", p + "/u1", "badct", "anon"}, {"POST", p + "/u1", "toolarge", "anon"},
			{"OPTIONS", p + "/u1", "acrh", "anon"}, {"GET", "/health", "empty", "anon"}, {"GET", "/no/such/page", "empty", "anon"},
			{"POST", p + "/sess", "sessopen", "anon"}} {
			lines = append(lines, c20ReqLine(t, c20Rid(r), k.auth))
		}
		g.Case(lines...)
	}
	uniq := func(l []string) []string {
		seen := map[string]bool{}
		var out []string
		for _, x := range l {
			if !seen[x] {
				seen[x] = true
				out = append(out, x)
			}
		}
		return out
	}
	for _, v := range uniq(c20WaysCors) {
		k := base
		k.cors = v
		tour(k)
	}
	for _, v := range uniq(c20WaysExt) {
		k := base
		k.ext = v
		tour(k)
	}
	for _, v := range uniq(c20WaysUpload) {
		k := base
		k.upload, k.maxup = v, 77
		tour(k)
	}
	for _, v := range uniq(c20WaysProofreq) {
		k := base
		k.proofreq = v
		tour(k)
	}
	for _, v := range uniq(c20WaysComp) {
		k := base
		k.comp = v
		tour(k)
	}
	for _, v := range uniq(c20WaysHook) {
		k := base
		k.hookfail = v
		tour(k)
	}
	for _, v := range uniq(c20WaysProxyHdrs) {
		k := base
		k.proxyhdrs = v
		tour(k)
	}
	for _, v := range uniq(c20WaysSticky) {
		for _, e := range uniq(c20WaysEcho) {
			k := base
			k.sticky, k.echo = v, e
			tour(k)
		}
	}
	for _, v := range uniq(c20WaysPfx) {
		k := base
		k.pfx = v
		tour(k)
	}
	for _, v := range c20WaysMax {
		k := base
		k.maxreq, k.maxresp, k.maxext, k.maxup, k.upload = 0, v, v, v, "1"
		if v <= 65536 {
			k.maxreq = v
		}
		tour(k)
	}
	// freshness over a long history on ONE server: well over a thousand minted ids, pairwise distinct
	{
		k := c20Cfg{cors: "0", ext: "0", upload: "0", proofreq: "0", comp: "default", hookfail: "0", proxyhdrs: "-",
			sticky: "-", echo: "-", pfx: "-", auth: false, notfound: true}
		lines := []string{k.line()}
		nm := g.N(1300, 6000)
		for i := 0; i < nm; i++ {
			rid := "absent"
			switch i % 7 {
			case 3:
				rid = XS("   ")
			case 5:
				rid = XS(strings.Repeat("q", 129+i%5))
			}
			t := c20Target{"GET", "/health", "empty", "-"}
			if i%11 == 0 {
				t = c20Target{"POST", "/nosuch", "empty", "-"}
			}
			lines = append(lines, c20ReqLine(t, rid, false))
		}
		g.Case(lines...)
	}
	// every boundary id against a plain route
	k := c20RandCfg(r)
	k.hookfail = "0"
	lines := []string{k.line()}
	for _, v := range c20Rids {
		lines = append(lines, c20ReqLine(c20Target{"POST", k.p() + "/u1", "valid", "anon"}, XS(v), k.auth))
		lines = append(lines, c20ReqLine(c20Target{"GET", "/health", "empty", "anon"}, XS(" "+v+"\t"), k.auth))
	}
	g.Case(lines...)
}
