package main

import (
	"bytes"
	"context"
	"errors"
	"fmt"
	"io"
	"net/http"
	"net/http/httptest"
	"regexp"
	"sort"
	"strconv"
	"strings"
	"time"

	"github.com/apache/arrow-go/v18/arrow"
	"github.com/apache/arrow-go/v18/arrow/array"
	"github.com/apache/arrow-go/v18/arrow/memory"

	"github.com/Query-farm/vgi-rpc-go/vgirpc"
)

// C20 — X-Request-ID, capability headers and the CORS expose list on every response.
//
// Script (one real HttpServer per case):
//
//	cfg cors=0|empty|cleared|1|star maxreq=Z maxresp=Z maxext=Z maxup=Z ext=0|nil|nostorage|nostoragethr|1|1thr
//	    upload=0|cleared|1 proofreq=0|off|1 introspect=0|1 proxyhdrs=<a,b|-|empty|cleared> sticky=<-|Z+Z…>
//	    echo=<a,b|-|nil|empty|cleared> comp=0|neg|1|default|lvl3|lvl4|back|badlvl hookfail=0|nilhook|1 pkce=0|1
//	    pfx=</p|-|empty> auth=0|1 oauth=0|1 dhook=0|1 notfound=0|1
//	(each value names one WAY of calling — or not calling — the setter; see c20Build)
//	req <VERB> <path> rid=<x<hex>|absent> kind=<recipe> inner=<authenticator behaviour|->
//
// kind is the recipe for body / request headers that steers the exit path (the model ignores it):
// empty | valid | garbage | badct | badenc | toolarge | chunkedbig | accept:<zstd|gzip|custom> |
// sessopen | sessdelete | acrh | json:<good|unknown|jws|down>.
//
// Observation: rid=<hex of the response X-Request-ID> enc=… ext=… caps=<conditional capability
// headers> expose=<sorted expose list, restricted to the names the model knows>.

type c20World struct {
	inner string
}

type c20P struct {
	X int64 `vgirpc:"x"`
}

type c20Sess struct{}

func (c20Sess) Close() {}

type c20Storage struct{}

func (c20Storage) Upload([]byte, *arrow.Schema, string) (string, error) {
	return "https://store.example/x", nil
}

type c20Provider struct{}

func (c20Provider) GenerateUploadURL(*arrow.Schema) (vgirpc.UploadURL, error) {
	return vgirpc.UploadURL{UploadURL: "https://up.example/u", DownloadURL: "https://up.example/d", ExpiresAt: time.Unix(2000000000, 0)}, nil
}

type c20Hook struct{}

func (c20Hook) OnDispatchStart(ctx context.Context, _ vgirpc.DispatchInfo) (context.Context, vgirpc.HookToken) {
	return ctx, nil
}
func (c20Hook) OnDispatchEnd(context.Context, vgirpc.HookToken, vgirpc.DispatchInfo, *vgirpc.CallStatistics, error) {
}

var (
	c20ParamsSch = arrow.NewSchema([]arrow.Field{{Name: "x", Type: arrow.PrimitiveTypes.Int64}}, nil)
	c20MintRe    = regexp.MustCompile(`^[0-9a-f]{16}$`)
	c20Garbage   = []byte("\x00\x00\x00\x00\x00\x00\x00\x00{garbage")
)

const c20Arrow = "application/vnd.apache.arrow.stream"

// names the model knows (lower case); the expose observation is restricted to them (+ echo names)
var c20Known = []string{"www-authenticate", "x-request-id", "x-vgi-content-encoding", "x-vgi-rpc-error",
	"vgi-max-response-bytes", "vgi-max-externalized-response-bytes", "vgi-externalization-enabled",
	"vgi-supported-encodings", "vgi-sticky-enabled", "vgi-sticky-default-ttl", "vgi-sticky-echo-headers",
	"vgi-session", "vgi-session-close", "vgi-max-request-bytes", "vgi-upload-url-support", "vgi-max-upload-bytes",
	"vgi-proxy-proof-required", "vgi-token-introspection", "vgi-auth-reason", "vgi-auth-proxy-required"}

var c20CondCaps = []string{"vgi-max-request-bytes", "vgi-max-response-bytes", "vgi-max-externalized-response-bytes",
	"vgi-upload-url-support", "vgi-max-upload-bytes", "vgi-proxy-proof-required", "vgi-token-introspection",
	"vgi-sticky-enabled", "vgi-sticky-default-ttl", "vgi-sticky-echo-headers"}

func init() {
	Register(&Prop{
		ID: "C20",
		Rule: "one real HttpServer per case (random CORS/caps/upload/proof/introspection/sticky+echo/compression/hook/pkce/auth configuration); " +
			"requests reach every exit path (200, 204 preflight, 401, 403, 404, 405, 413 by Content-Length and by chunked body, 415 by type and by encoding, " +
			"500 hook failure, 503) with request ids that are absent, blank, padded, 1/128/129 bytes, multi-byte; " +
			"non-trivial = the case has a request with an id or a rejecting recipe; distinct = distinct scripts",
		Gen:  c20Gen,
		Exec: c20Exec,
		NonTrivial: func(lines []string) bool {
			for _, l := range lines {
				if strings.HasPrefix(l, "req ") && (!strings.Contains(l, "rid=absent") || !strings.Contains(l, "kind=valid")) {
					return true
				}
			}
			return false
		},
	})
}

func c20KV(fields []string) map[string]string {
	m := map[string]string{}
	for _, f := range fields {
		if i := strings.IndexByte(f, '='); i > 0 {
			m[f[:i]] = f[i+1:]
		}
	}
	return m
}

type c20Server struct {
	h      *vgirpc.HttpServer
	w      *c20World
	cfg    map[string]string
	pfx    string
	echo   []string
	client *vgirpc.HttpClient
	tr     *c20Transport
	minted map[string]bool
}

type c20Transport struct{ captured []byte }

func (t *c20Transport) RoundTrip(r *http.Request) (*http.Response, error) {
	if r.Body != nil {
		t.captured, _ = io.ReadAll(r.Body)
		r.Body.Close()
	}
	return nil, errors.New("captured")
}

func c20Mock(w *c20World) vgirpc.AuthenticateFunc {
	return func(*http.Request) (*vgirpc.AuthContext, error) {
		in := w.inner
		switch {
		case strings.HasPrefix(in, "accept:"):
			return &vgirpc.AuthContext{Domain: "mock", Authenticated: true, Principal: in[7:]}, nil
		case in == "anon" || in == "-" || in == "":
			return &vgirpc.AuthContext{}, nil
		case in == "failure":
			return nil, vgirpc.NewAuthFailure(vgirpc.AuthReasonInvalidCredential, "no")
		case in == "value":
			return nil, &vgirpc.RpcError{Type: "ValueError", Message: "bad credential"}
		case in == "perm":
			return nil, &vgirpc.RpcError{Type: "PermissionError", Message: "not allowed"}
		case in == "unavail":
			return nil, vgirpc.NewAuthUnavailable("authority down")
		case in == "other":
			return nil, errors.New("boom")
		}
		panic("c20: unknown inner behaviour " + in)
	}
}

func c20Build(cfgLine string) (s *c20Server, err error) {
	defer func() {
		if r := recover(); r != nil {
			err = fmt.Errorf("panic while configuring: %v", r)
		}
	}()
	cfg := c20KV(strings.Fields(cfgLine)[1:])
	for _, k := range []string{"cors", "maxreq", "maxresp", "maxext", "maxup", "ext", "upload", "proofreq", "introspect", "proxyhdrs",
		"sticky", "echo", "comp", "hookfail", "pkce", "pfx", "auth", "oauth", "dhook", "notfound"} {
		if _, ok := cfg[k]; !ok {
			return nil, fmt.Errorf("cfg key %s missing", k)
		}
	}
	on := func(k string) bool { return cfg[k] == "1" }
	num := func(k string) int64 { n, _ := strconv.ParseInt(cfg[k], 10, 64); return n }
	if on("pkce") && !(on("auth") && on("oauth")) {
		return nil, fmt.Errorf("pkce needs auth and oauth")
	}
	bad := func(k string) error { return fmt.Errorf("cfg %s=%s: unknown way", k, cfg[k]) }
	w := &c20World{inner: "anon"}
	srv := vgirpc.NewServer()
	vgirpc.Unary(srv, "u1", func(_ context.Context, _ *vgirpc.CallContext, p c20P) (int64, error) { return p.X + 1, nil })
	vgirpc.Unary(srv, "boom", func(_ context.Context, _ *vgirpc.CallContext, p c20P) (int64, error) {
		return 0, &vgirpc.RpcError{Type: "ValueError", Message: "handler failed"}
	})
	vgirpc.Unary(srv, "sess", func(_ context.Context, ctx *vgirpc.CallContext, p c20P) (int64, error) {
		_ = ctx.OpenSession(c20Sess{}, 0)
		return p.X, nil
	})
	// every way SetExternalLocation can be called
	switch cfg["ext"] {
	case "0":
	case "nil":
		srv.SetExternalLocation(nil)
	case "nostorage": // a config that can only *read* external locations: no Storage, zero threshold
		srv.SetExternalLocation(&vgirpc.ExternalLocationConfig{})
	case "nostoragethr":
		srv.SetExternalLocation(&vgirpc.ExternalLocationConfig{ExternalizeThresholdBytes: 4096, MaxRetries: 1})
	case "1":
		srv.SetExternalLocation(&vgirpc.ExternalLocationConfig{Storage: c20Storage{}})
	case "1thr":
		srv.SetExternalLocation(&vgirpc.ExternalLocationConfig{Storage: c20Storage{}, ExternalizeThresholdBytes: 1})
	default:
		return nil, bad("ext")
	}
	switch cfg["hookfail"] {
	case "0":
	case "nilhook":
		srv.SetServeStartHook(nil)
	case "1":
		srv.SetServeStartHook(func(vgirpc.TransportKind, map[string]bool) error { return errors.New("start hook says no") })
	default:
		return nil, bad("hookfail")
	}
	if on("dhook") {
		srv.SetDispatchHook(c20Hook{})
	}
	h := vgirpc.NewHttpServer(srv)
	pfx := cfg["pfx"]
	switch pfx {
	case "-":
		pfx = ""
	case "empty":
		pfx = ""
		h.SetPrefix("")
	default:
		h.SetPrefix(pfx)
	}
	h.SetEnableNotFoundPage(on("notfound"))
	switch cfg["cors"] {
	case "0":
	case "empty":
		h.SetCorsOrigins("")
	case "cleared":
		h.SetCorsOrigins("https://app.example")
		h.SetCorsOrigins("")
	case "1":
		h.SetCorsOrigins("https://app.example")
	case "star":
		h.SetCorsOrigins("*")
	default:
		return nil, bad("cors")
	}
	switch cfg["comp"] {
	case "1", "default":
	case "0":
		err = h.SetCompressionLevel(0)
	case "neg":
		err = h.SetCompressionLevel(-1)
	case "lvl3":
		err = h.SetCompressionLevel(3)
	case "lvl4":
		err = h.SetCompressionLevel(4)
	case "badlvl": // rejected by the setter (unknown zstd level): the previous setting stays
		if h.SetCompressionLevel(99) == nil {
			return nil, fmt.Errorf("SetCompressionLevel(99) was accepted")
		}
	case "back":
		if err = h.SetCompressionLevel(0); err == nil {
			err = h.SetCompressionLevel(2)
		}
	default:
		return nil, bad("comp")
	}
	if err != nil {
		return nil, err
	}
	h.SetMaxRequestBytes(num("maxreq"))
	h.SetMaxResponseBytes(num("maxresp"))
	h.SetMaxExternalizedResponseBytes(num("maxext"))
	h.SetMaxUploadBytes(num("maxup"))
	switch cfg["upload"] {
	case "0":
	case "cleared":
		h.SetUploadURLProvider(c20Provider{})
		h.SetUploadURLProvider(nil)
	case "1":
		h.SetUploadURLProvider(c20Provider{})
	default:
		return nil, bad("upload")
	}
	switch cfg["proofreq"] {
	case "0":
	case "off":
		h.SetProxyProofRequired(true)
		h.SetProxyProofRequired(false)
	case "1":
		h.SetProxyProofRequired(true)
	default:
		return nil, bad("proofreq")
	}
	switch cfg["proxyhdrs"] {
	case "-":
	case "empty":
		h.SetProxyAuthHeaders()
	case "cleared":
		h.SetProxyAuthHeaders("x-old")
		h.SetProxyAuthHeaders()
	default:
		h.SetProxyAuthHeaders(strings.Split(cfg["proxyhdrs"], ",")...)
	}
	if on("introspect") {
		if err := h.EnableTokenIntrospection(vgirpc.TokenIntrospectionConfig{
			Resolver: func(cred string) (vgirpc.TokenIdentity, bool, error) {
				switch cred {
				case "down-token":
					return vgirpc.TokenIdentity{}, false, vgirpc.NewAuthUnavailable("store down")
				case "good-token":
					return vgirpc.TokenIdentity{Principal: "bob", TokenName: "t"}, true, nil
				}
				return vgirpc.TokenIdentity{}, false, nil
			},
			Principals:         []string{"introspector"},
			RateLimitPerSecond: 1 << 30,
		}); err != nil {
			return nil, err
		}
	}
	if on("auth") {
		h.SetAuthenticate(c20Mock(w))
	}
	if on("oauth") {
		if err := h.SetOAuthResourceMetadata(&vgirpc.OAuthResourceMetadata{
			Resource:             "https://api.example.com" + pfx,
			AuthorizationServers: []string{"http://127.0.0.1:1"},
			ClientID:             "client-1",
		}); err != nil {
			return nil, err
		}
	}
	if on("pkce") {
		if err := h.SetOAuthPkce(vgirpc.OAuthPkceConfig{}); err != nil {
			return nil, err
		}
	}
	s = &c20Server{h: h, w: w, cfg: cfg, pfx: pfx, minted: map[string]bool{}}
	if cfg["sticky"] != "-" {
		// EnableSticky called once per listed TTL (the first call creates the registry)
		for _, t := range strings.Split(cfg["sticky"], "+") {
			ttl, perr := strconv.Atoi(t)
			if perr != nil {
				return nil, bad("sticky")
			}
			h.EnableSticky(time.Duration(ttl) * time.Second)
		}
	}
	switch cfg["echo"] {
	case "-":
	case "nil":
		h.SetStickyEchoHeaders(nil)
	case "empty":
		h.SetStickyEchoHeaders(map[string]string{})
	case "cleared":
		h.SetStickyEchoHeaders(map[string]string{"old-one": "x"})
		h.SetStickyEchoHeaders(map[string]string{})
	default:
		m := map[string]string{}
		for _, n := range strings.Split(cfg["echo"], ",") {
			m[n] = "value-of-" + n
			s.echo = append(s.echo, n)
		}
		h.SetStickyEchoHeaders(m)
	}
	h.InitPages()
	s.tr = &c20Transport{}
	cl, err := vgirpc.NewHttpClient("http://c20.test", vgirpc.WithClientPrefix(pfx),
		vgirpc.WithClientHTTPClient(&http.Client{Transport: s.tr}))
	if err != nil {
		return nil, err
	}
	s.client = cl
	return s, nil
}

func (s *c20Server) close() {
	if d := s.h.DrainHandle(); d != nil {
		d.Shutdown()
	}
	s.client.Close()
}

func (s *c20Server) unaryBody(method string) []byte {
	b := array.NewInt64Builder(memory.NewGoAllocator())
	defer b.Release()
	b.Append(41)
	col := b.NewArray()
	defer col.Release()
	rec := array.NewRecordBatch(c20ParamsSch, []arrow.Array{col}, 1)
	defer rec.Release()
	s.tr.captured = nil
	_, _ = s.client.CallUnary(context.Background(), method, rec, nil)
	return s.tr.captured
}

// methodOf: the method a path below the prefix names ("" when it does not look like an RPC path)
func (s *c20Server) methodOf(path string) string {
	if !strings.HasPrefix(path, s.pfx+"/") {
		return ""
	}
	segs := strings.Split(path[len(s.pfx)+1:], "/")
	if len(segs) >= 1 && segs[0] != "" && !strings.ContainsAny(segs[0], "{}%") {
		return segs[0]
	}
	return ""
}

func (s *c20Server) freshSession() string {
	saved := s.w.inner
	s.w.inner = "anon"
	defer func() { s.w.inner = saved }()
	req := httptest.NewRequest("POST", s.pfx+"/sess", bytes.NewReader(s.unaryBody("sess")))
	req.Header.Set("Content-Type", c20Arrow)
	req.Header.Set("VGI-Session-Accept", "true")
	rec := httptest.NewRecorder()
	s.h.ServeHTTP(rec, req)
	return rec.Header().Get("VGI-Session")
}

func c20Exec(c *Case) {
	var s *c20Server
	defer func() {
		if s != nil {
			s.close()
		}
	}()
	for _, l := range c.Lines {
		f := strings.Fields(l)
		if len(f) == 0 {
			continue
		}
		switch f[0] {
		case "cfg":
			if s != nil {
				s.close()
			}
			ns, err := c20Build(l)
			if err != nil {
				s = nil
				c.Out(l, "err:cfg "+err.Error())
				continue
			}
			s = ns
			c.Out(l, "ok")
		case "req":
			if s == nil {
				c.Out(l, "err:no-cfg")
				continue
			}
			if len(f) < 3 {
				c.Out(l, "err:bad-op")
				continue
			}
			c20Request(c, s, l, f[1], f[2], c20KV(f[3:]))
		default:
			c.Out(l, "err:bad-op")
		}
	}
}

func c20Request(c *Case, s *c20Server, line, verb, path string, kv map[string]string) {
	ridArg, kind, inner := kv["rid"], kv["kind"], kv["inner"]
	if !strings.HasPrefix(path, "/") || ridArg == "" || kind == "" {
		c.Out(line, "err:bad-op")
		return
	}
	var body []byte
	hdr := http.Header{}
	hdr.Set("Content-Type", c20Arrow)
	chunked := false
	method := s.methodOf(path)
	valid := func() []byte {
		if method == "" {
			return c20Garbage
		}
		return s.unaryBody(method)
	}
	switch {
	case kind == "empty":
	case kind == "valid":
		body = valid()
	case kind == "garbage":
		body = c20Garbage
	case kind == "badct":
		body = valid()
		hdr.Set("Content-Type", "application/json")
	case kind == "badenc":
		body = valid()
		hdr.Set("Content-Encoding", "br")
	case kind == "toolarge" || kind == "chunkedbig":
		body = valid()
		if n, _ := strconv.Atoi(s.cfg["maxreq"]); n > 0 && n <= 1<<20 && len(body) <= n {
			body = append(body, bytes.Repeat([]byte{0}, n+1-len(body))...)
		}
		chunked = kind == "chunkedbig"
	case strings.HasPrefix(kind, "accept:"):
		body = valid()
		switch kind[7:] {
		case "zstd":
			hdr.Set("Accept-Encoding", "zstd")
		case "gzip":
			hdr.Set("Accept-Encoding", "gzip, identity")
		case "custom":
			hdr.Set("X-VGI-Accept-Encoding", "zstd")
		default:
			c.Out(line, "err:bad-op")
			return
		}
	case kind == "sessopen":
		body = valid()
		hdr.Set("VGI-Session-Accept", "true")
	case kind == "sessdelete":
		if tok := s.freshSession(); tok != "" {
			hdr.Set("VGI-Session", tok)
		} else {
			hdr.Set("VGI-Session", "AAAAnot-a-token")
		}
	case kind == "acrh":
		hdr.Set("Origin", "https://app.example")
		hdr.Set("Access-Control-Request-Headers", "content-type, x-custom")
	case strings.HasPrefix(kind, "json:"):
		hdr.Set("Content-Type", "application/json")
		tok := map[string]string{"good": "good-token", "unknown": "who-knows", "jws": "aaaa.bbbb.cccc", "down": "down-token"}[kind[5:]]
		if tok == "" {
			c.Out(line, "err:bad-op")
			return
		}
		if strings.HasSuffix(path, "/__introspect_token__") {
			body = []byte(fmt.Sprintf(`{"token":%q}`, tok))
		} else {
			body = c20Garbage // ASCII JSON on an Arrow route makes arrow-go allocate gigabytes (not this property)
		}
	default:
		c.Out(line, "err:bad-op")
		return
	}
	var sent string
	if ridArg != "absent" {
		b, ok := UnX(ridArg)
		if !ok {
			c.Out(line, "err:bad-op")
			return
		}
		sent = string(b)
		hdr["X-Request-Id"] = []string{sent}
	}
	var rd io.Reader
	if body != nil {
		rd = bytes.NewReader(body)
	}
	var req *http.Request
	func() {
		defer func() {
			if recover() != nil {
				req = nil
			}
		}()
		req = httptest.NewRequest(verb, path, rd)
	}()
	if req == nil {
		c.Out(line, "err:bad-op")
		return
	}
	req.Header = hdr
	if chunked {
		req.ContentLength = -1
		req.Body = io.NopCloser(bytes.NewReader(body))
	}
	if s.cfg["auth"] == "1" {
		s.w.inner = inner
	}
	rec := httptest.NewRecorder()
	s.h.ServeHTTP(rec, req)
	status := rec.Code

	// ---- canonical observation
	low := map[string]string{}
	for k, v := range rec.Header() {
		if len(v) > 0 {
			low[strings.ToLower(k)] = v[0]
		}
	}
	got, hasRid := low["x-request-id"]
	opt := func(n string) string {
		if v, ok := low[n]; ok {
			if n == "vgi-sticky-echo-headers" {
				parts := strings.Split(v, ", ")
				sort.Strings(parts)
				return strings.Join(parts, ", ")
			}
			return v
		}
		return "absent"
	}
	var caps []string
	for _, n := range c20CondCaps {
		if _, ok := low[n]; ok {
			caps = append(caps, n+"="+opt(n))
		}
	}
	capsS := "-"
	if len(caps) > 0 {
		capsS = strings.Join(caps, ";")
	}
	known := map[string]bool{}
	for _, n := range c20Known {
		known[n] = true
	}
	for _, n := range s.echo {
		known["vgi-echo-"+strings.ToLower(n)] = true
	}
	exposeS := "none"
	exposed := map[string]bool{}
	exposeRaw, hasExpose := low["access-control-expose-headers"]
	if hasExpose {
		var keep []string
		for _, p := range strings.Split(exposeRaw, ",") {
			n := strings.ToLower(strings.TrimSpace(p))
			exposed[n] = true
			if known[n] {
				keep = append(keep, n)
			}
		}
		sort.Strings(keep)
		exposeS = strings.Join(keep, ",")
	}
	ridObs := "rid=absent"
	if hasRid {
		ridObs = "rid=" + XS(got)
	}
	c.Out(line+" mint="+XS(got), fmt.Sprintf("%s enc=%s ext=%s caps=%s expose=%s", ridObs, opt("vgi-supported-encodings"),
		opt("vgi-externalization-enabled"), capsS, exposeS))
	c.Stat(fmt.Sprintf("status:%d", status))
	c.Stat("kind:" + strings.SplitN(kind, ":", 2)[0])
	for _, n := range []string{"vgi-session", "vgi-session-close", "x-vgi-rpc-error", "x-vgi-content-encoding", "content-encoding",
		"vgi-auth-reason", "vgi-auth-proxy-required", "www-authenticate", "retry-after"} {
		if _, ok := low[n]; ok {
			c.Stat("resp-header:" + n)
		}
	}
	for n := range low {
		if strings.HasPrefix(n, "vgi-echo-") {
			c.Stat("resp-header:vgi-echo-*")
			break
		}
	}

	// ---- the property, stated on the real response
	where := fmt.Sprintf("%s %s -> %d (kind=%s inner=%s)", verb, path, status, kind, inner)
	if !hasRid {
		c.Oracle(fmt.Sprintf("request-id-missing-on-%d", status), "response without X-Request-ID: "+where)
	} else {
		trimmed := strings.TrimSpace(sent)
		if trimmed != "" && len(trimmed) <= 128 {
			c.Stat("rid:echo")
			if got != trimmed {
				c.Oracle("request-id-not-echoed", fmt.Sprintf("caller id %q (trimmed %q, %d bytes) answered with %q: %s", sent, trimmed, len(trimmed), got, where))
			}
		} else {
			c.Stat("rid:mint")
			if !c20MintRe.MatchString(got) {
				c.Oracle("request-id-bad-mint", fmt.Sprintf("caller id %q is unusable but the response id %q is not 16 lowercase hex: %s", sent, got, where))
			} else {
				if s.minted[got] {
					c.Oracle("request-id-not-fresh", fmt.Sprintf("minted id %q was already used in this case: %s", got, where))
				}
				s.minted[got] = true
			}
		}
	}
	if s.cfg["hookfail"] != "1" {
		for _, n := range []string{"vgi-supported-encodings", "vgi-externalization-enabled"} {
			if _, ok := low[n]; !ok {
				c.Oracle(fmt.Sprintf("capability-header-missing-on-%d", status), fmt.Sprintf("%s missing: %s", n, where))
			}
		}
		if v, ok := low["vgi-externalization-enabled"]; ok && v != "true" && v != "false" {
			c.Oracle("externalization-header-bad-value", fmt.Sprintf("VGI-Externalization-Enabled=%q: %s", v, where))
		}
	}
	if (s.cfg["cors"] == "1" || s.cfg["cors"] == "star") && s.cfg["hookfail"] != "1" {
		tokenPreflight := verb == "OPTIONS" && s.cfg["pkce"] == "1" && path == s.pfx+"/_oauth/token"
		if !tokenPreflight {
			if !hasExpose {
				c.Oracle(fmt.Sprintf("expose-list-missing-on-%d", status), "CORS is enabled but the response has no Access-Control-Expose-Headers: "+where)
			} else {
				var names []string
				for n := range low {
					if strings.HasPrefix(n, "vgi-") || strings.HasPrefix(n, "x-vgi-") || n == "x-request-id" || n == "www-authenticate" {
						names = append(names, n)
					}
				}
				sort.Strings(names)
				for _, n := range names {
					if !exposed[n] {
						cls := n
						if strings.HasPrefix(n, "vgi-echo-") {
							cls = "vgi-echo-*"
						}
						c.Oracle("header-not-exposed:"+cls, fmt.Sprintf("response header %s is not listed in Access-Control-Expose-Headers (%s): %s", n, exposeRaw, where))
					}
				}
			}
		}
	}
}

// ---------------------------------------------------------------- generation

func c20B(b bool) string {
	if b {
		return "1"
	}
	return "0"
}

// c20Cfg: every field is the WAY the corresponding setter is (not) called.
type c20Cfg struct {
	cors, ext, upload, proofreq, comp, hookfail, proxyhdrs, sticky, echo, pfx string
	introspect, pkce, auth, oauth, dhook, notfound                             bool
	maxreq, maxresp, maxext, maxup                                             int
}

func (k c20Cfg) line() string {
	return fmt.Sprintf("cfg cors=%s maxreq=%d maxresp=%d maxext=%d maxup=%d ext=%s upload=%s proofreq=%s introspect=%s proxyhdrs=%s sticky=%s echo=%s comp=%s hookfail=%s pkce=%s pfx=%s auth=%s oauth=%s dhook=%s notfound=%s",
		k.cors, k.maxreq, k.maxresp, k.maxext, k.maxup, k.ext, k.upload, k.proofreq, c20B(k.introspect),
		k.proxyhdrs, k.sticky, k.echo, k.comp, k.hookfail, c20B(k.pkce), k.pfx, c20B(k.auth), c20B(k.oauth),
		c20B(k.dhook), c20B(k.notfound))
}

func (k c20Cfg) p() string {
	if k.pfx == "-" || k.pfx == "empty" {
		return ""
	}
	return k.pfx
}

func (k c20Cfg) corsOn() bool { return k.cors == "1" || k.cors == "star" }

// the ways each capability-related setter can be called (first entries = plain on/off, weighted)
var (
	c20WaysCors      = []string{"1", "1", "1", "star", "star", "0", "empty", "cleared"}
	c20WaysExt       = []string{"0", "0", "1", "1", "1thr", "nil", "nostorage", "nostorage", "nostoragethr"}
	c20WaysUpload    = []string{"0", "0", "1", "1", "1", "cleared"}
	c20WaysProofreq  = []string{"0", "0", "0", "1", "1", "off"}
	c20WaysComp      = []string{"1", "default", "default", "lvl3", "lvl4", "back", "badlvl", "0", "0", "neg"}
	c20WaysHook      = []string{"0", "0", "0", "0", "0", "0", "0", "0", "0", "nilhook", "nilhook", "1"}
	c20WaysProxyHdrs = []string{"-", "-", "-", "empty", "cleared", "x-proxy-user", "x-a,x-b"}
	c20WaysSticky    = []string{"-", "-", "1", "30", "300", "86400", "0", "-5", "30+60", "30+0", "0+45", "0+0"}
	c20WaysEcho      = []string{"-", "-", "nil", "empty", "cleared", "fly-force-instance-id", "a-b,c", "region,x-shard,zone"}
	c20WaysPfx       = []string{"-", "-", "empty", "/vgi", "/vgi", "/a/b"}
	c20WaysMax       = []int{0, 0, -1, 1, 64, 700, 4096, 1 << 20, 1 << 40}
	c20WaysMaxReq    = []int{0, 0, -1, 1, 300, 900, 4096, 65536}
)

func c20RandCfg(r *Rng) c20Cfg {
	k := c20Cfg{
		cors: Pick(r, c20WaysCors), ext: Pick(r, c20WaysExt), upload: Pick(r, c20WaysUpload),
		proofreq: Pick(r, c20WaysProofreq), comp: Pick(r, c20WaysComp), hookfail: Pick(r, c20WaysHook),
		proxyhdrs: Pick(r, c20WaysProxyHdrs), sticky: Pick(r, c20WaysSticky), echo: Pick(r, c20WaysEcho),
		pfx: Pick(r, c20WaysPfx),
	}
	k.introspect = r.Bool()
	k.auth = r.Chance(75)
	k.oauth = r.Chance(50)
	k.pkce = k.auth && k.oauth && r.Chance(50)
	k.dhook = r.Chance(40)
	k.notfound = r.Chance(70)
	k.maxreq, k.maxresp, k.maxext, k.maxup = Pick(r, c20WaysMaxReq), Pick(r, c20WaysMax), Pick(r, c20WaysMax), Pick(r, c20WaysMax)
	return k
}

var c20Rids = func() []string {
	pad := func(n int, ch string) string { return strings.Repeat(ch, n) }
	vals := []string{"", " ", " \t ", "a", "abc-123", "  padded-id\t", " nbsp-padded　", pad(127, "x"), pad(128, "x"), pad(129, "x"),
		" " + pad(128, "y") + " ", " " + pad(129, "y") + " ", pad(42, "€"), pad(43, "€"), pad(64, "é"), pad(65, "é"),
		"0123456789abcdef", "ABCDEF0123456789", "id with spaces inside", " em-space ", "x\u0085", pad(300, "z"),
		"​zero-width", "日本語のID", "a\tb", "\x7f", "-"}
	return vals
}()

func c20Rid(r *Rng) string {
	if r.Chance(22) {
		return "absent"
	}
	if r.Chance(12) {
		// random ASCII with random padding
		n := r.Range(1, 140)
		b := make([]byte, n)
		for i := range b {
			b[i] = byte(33 + r.Intn(94))
		}
		return XS(strings.Repeat(" ", r.Intn(3)) + string(b) + strings.Repeat("\t", r.Intn(3)))
	}
	return XS(Pick(r, c20Rids))
}

type c20Target struct{ verb, path, kind, inner string }

func (k c20Cfg) targets(r *Rng) []c20Target {
	p := k.p()
	root := p
	if root == "" {
		root = "/"
	}
	rej := func() string { return Pick(r, []string{"failure", "value", "perm", "unavail", "other"}) }
	t := []c20Target{
		{"POST", p + "/u1", "valid", "anon"}, {"POST", p + "/u1", "valid", "accept:alice"}, {"POST", p + "/boom", "valid", "anon"},
		{"POST", p + "/u1", "badct", "anon"}, {"POST", p + "/u1", "badenc", "anon"}, {"POST", p + "/u1", "garbage", "anon"},
		{"POST", p + "/u1", "empty", "anon"}, {"POST", p + "/nosuch", "valid", "anon"}, {"POST", p + "/u1", "toolarge", "anon"},
		{"POST", p + "/u1", "chunkedbig", "anon"}, {"POST", p + "/u1", "valid", rej()}, {"POST", p + "/u1", "valid", rej()},
		{"POST", p + "/u1/init", "valid", "anon"}, {"POST", p + "/u1/exchange", "garbage", rej()},
		{"POST", p + "/u1", "accept:zstd", "anon"}, {"POST", p + "/u1", "accept:gzip", "anon"}, {"POST", p + "/u1", "accept:custom", "anon"},
		{"POST", p + "/boom", "accept:zstd", "anon"}, {"POST", p + "/sess", "sessopen", "anon"}, {"DELETE", p + "/__session__", "sessdelete", "anon"},
		{"DELETE", p + "/__session__", "empty", rej()}, {"POST", p + "/__describe__", "valid", "anon"},
		{"POST", p + "/__upload_url__/init", "valid", "anon"}, {"POST", p + "/__upload_url__/init", "garbage", rej()},
		{"POST", p + "/__introspect_token__", "json:good", "accept:introspector"}, {"POST", p + "/__introspect_token__", "json:good", "accept:alice"},
		{"POST", p + "/__introspect_token__", "json:down", "accept:introspector"}, {"POST", p + "/__introspect_token__", "json:jws", "accept:introspector"},
		{"POST", p + "/__introspect_token__", "json:unknown", rej()},
		{"OPTIONS", p + "/u1", "empty", rej()}, {"OPTIONS", p + "/u1", "acrh", "anon"}, {"OPTIONS", "/health", "empty", "anon"},
		{"OPTIONS", p + "/_oauth/token", "acrh", rej()}, {"OPTIONS", "/nowhere", "empty", "anon"},
		{"GET", "/health", "empty", rej()}, {"GET", p + "/health", "empty", "anon"}, {"HEAD", "/health", "empty", "anon"},
		{"GET", "/.well-known/oauth-protected-resource" + p, "empty", "anon"}, {"GET", root, "empty", "anon"}, {"GET", root, "empty", rej()},
		{"GET", p + "/describe", "empty", rej()}, {"GET", "/no/such/page", "empty", "anon"}, {"PUT", p + "/u1", "valid", "anon"},
		{"GET", p + "/u1", "empty", "anon"}, {"GET", p + "/_oauth/callback", "empty", "anon"}, {"GET", p + "/_oauth/logout", "empty", "anon"},
		{"POST", p + "/_oauth/token", "badct", "anon"}, {"PATCH", "/", "garbage", "anon"},
	}
	return t
}

func c20ReqLine(t c20Target, rid string, auth bool) string {
	in := t.inner
	if !auth {
		in = "-"
	}
	return fmt.Sprintf("req %s %s rid=%s kind=%s inner=%s", t.verb, t.path, rid, t.kind, in)
}

func c20Gen(g *Gen) {
	r := g.Rng
	n := g.N(1100, 9000)
	for i := 0; i < n; i++ {
		k := c20RandCfg(r)
		lines := []string{k.line()}
		ts := k.targets(r)
		m := r.Range(12, 30)
		for j := 0; j < m; j++ {
			lines = append(lines, c20ReqLine(Pick(r, ts), c20Rid(r), k.auth))
		}
		g.Case(lines...)
	}
	// sweep: every exit-path target once, on configurations with CORS on (and a few with the hook failing)
	m := g.N(60, 600)
	for i := 0; i < m; i++ {
		k := c20RandCfg(r)
		k.cors = Pick(r, []string{"1", "star"})
		k.hookfail = "0"
		if i%9 == 8 {
			k.hookfail = "1"
		}
		if i%2 == 0 {
			k.auth, k.oauth = true, true
		}
		lines := []string{k.line()}
		for _, t := range k.targets(r) {
			lines = append(lines, c20ReqLine(t, c20Rid(r), k.auth))
		}
		g.Case(lines...)
	}
	// one-at-a-time: every way of calling every capability-related setter, against a short tour of exits
	base := c20Cfg{cors: "1", ext: "0", upload: "0", proofreq: "0", comp: "default", hookfail: "0", proxyhdrs: "-",
		sticky: "-", echo: "-", pfx: "-", auth: true, notfound: true}
	tour := func(k c20Cfg) {
		p := k.p()
		lines := []string{k.line()}
		for _, t := range []c20Target{{"POST", p + "/u1", "valid", "anon"}, {"POST", p + "/u1", "valid", "value"},
			{"POST", p + "/nosuch", "valid", "anon"}, {"POST", p + "/u1", "badct", "anon"}, {"POST", p + "/u1", "toolarge", "anon"},
			{"OPTIONS", p + "/u1", "acrh", "anon"}, {"GET", "/health", "empty", "anon"}, {"GET", "/no/such/page", "empty", "anon"},
			{"POST", p + "/sess", "sessopen", "anon"}} {
			lines = append(lines, c20ReqLine(t, c20Rid(r), k.auth))
		}
		g.Case(lines...)
	}
	uniq := func(l []string) []string {
		seen := map[string]bool{}
		var out []string
		for _, x := range l {
			if !seen[x] {
				seen[x] = true
				out = append(out, x)
			}
		}
		return out
	}
	for _, v := range uniq(c20WaysCors) {
		k := base
		k.cors = v
		tour(k)
	}
	for _, v := range uniq(c20WaysExt) {
		k := base
		k.ext = v
		tour(k)
	}
	for _, v := range uniq(c20WaysUpload) {
		k := base
		k.upload, k.maxup = v, 77
		tour(k)
	}
	for _, v := range uniq(c20WaysProofreq) {
		k := base
		k.proofreq = v
		tour(k)
	}
	for _, v := range uniq(c20WaysComp) {
		k := base
		k.comp = v
		tour(k)
	}
	for _, v := range uniq(c20WaysHook) {
		k := base
		k.hookfail = v
		tour(k)
	}
	for _, v := range uniq(c20WaysProxyHdrs) {
		k := base
		k.proxyhdrs = v
		tour(k)
	}
	for _, v := range uniq(c20WaysSticky) {
		for _, e := range uniq(c20WaysEcho) {
			k := base
			k.sticky, k.echo = v, e
			tour(k)
		}
	}
	for _, v := range uniq(c20WaysPfx) {
		k := base
		k.pfx = v
		tour(k)
	}
	for _, v := range c20WaysMax {
		k := base
		k.maxreq, k.maxresp, k.maxext, k.maxup, k.upload = 0, v, v, v, "1"
		if v <= 65536 {
			k.maxreq = v
		}
		tour(k)
	}
	// every boundary id against a plain route
	k := c20RandCfg(r)
	k.hookfail = "0"
	lines := []string{k.line()}
	for _, v := range c20Rids {
		lines = append(lines, c20ReqLine(c20Target{"POST", k.p() + "/u1", "valid", "anon"}, XS(v), k.auth))
		lines = append(lines, c20ReqLine(c20Target{"GET", "/health", "empty", "anon"}, XS(" "+v+"\t"), k.auth))
	}
	g.Case(lines...)
}
