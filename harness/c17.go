package main

import (
	"bytes"
	"compress/gzip"
	"context"
	"fmt"
	"io"
	"net/http"
	"net/http/httptest"
	"sort"
	"strconv"
	"strings"
	"sync"
	"sync/atomic"
	"time"
	"unicode"

	"github.com/Query-farm/vgi-rpc-go/vgirpc"
	"github.com/apache/arrow-go/v18/arrow"
	"github.com/apache/arrow-go/v18/arrow/array"
	"github.com/apache/arrow-go/v18/arrow/memory"
	"github.com/klauspost/compress/zstd"
)

// C17 — response compression is negotiated in client order and is lossless.
//
// Script ops (one fresh HttpServer per case, starting at the default level):
//   tables                          rune tables of the real unicode/strings packages
//   parse  x<hdr>                   parseAcceptEncoding -> known tokens in order
//   choose x<custom> x<std> <P>     chooseResponseEncoding with producible list P ("-" = empty)
//   new    <plain|keyed>            replace the server by a fresh one built with NewHttpServer /
//                                   NewHttpServerWithKey (advert read from a real OPTIONS /health and
//                                   compared with what the server really produces)
//   level  <n>                      SetCompressionLevel(n); advert read from a real OPTIONS /health
//   resp   x<custom> x<std> x<ctype> <len> <kind> <chunks> <status> <via>
//                                   a handler mounted on the real mux answers with that content
//                                   type / body; the response travels through ServeHTTP +
//                                   compressResponseWriter.finish (via=rec: recorder, via=net:
//                                   real socket)
//   rpc    x<custom> x<std> <route> a real route of the server: echo:<n> | badbody | health |
//                                   landing | notfound
//   burst  <n> <rounds> <zstd|gzip|mix|mixlv> <len> <seed>
//                                   SEARCH family (no model): per round n concurrent requests with
//                                   distinct large Arrow bodies, handlers held at a barrier so the
//                                   compression phases overlap; mixlv also uses a second server at
//                                   another level (the encoder pools are process-wide); every
//                                   response goes through the lossless oracle
// Model line for resp/rpc: "resp x<custom> x<std> x<ctype> <uncompressed body length>".

func init() {
	Register(&Prop{
		ID: "C17",
		Rule: "accept-header pairs from a token/case/OWS/q-value/duplicate/unknown-codec/identity grammar (incl. non-ASCII " +
			"white space, U+0130/U+212A, broken UTF-8) + mutated and random byte strings; levels -3..13; bodies 0..1 MiB with " +
			"exact and near-miss Arrow content types; real routes (unary, error, health, HTML pages). A case is non-trivial " +
			"when at least one header of a choose/resp/rpc/parse line contains a zstd, gzip or identity token (any case); " +
			"distinct = distinct scripts",
		Gen:  c17Gen,
		Exec: c17Exec,
		NonTrivial: func(lines []string) bool {
			for _, l := range lines {
				f := strings.Fields(l)
				if len(f) < 2 {
					continue
				}
				switch f[0] {
				case "burst":
					return true
				case "parse", "choose", "resp", "rpc":
					for _, a := range f[1:min(3, len(f))] {
						if b, ok := UnX(a); ok {
							s := strings.ToLower(string(b))
							if strings.Contains(s, "zstd") || strings.Contains(s, "gzip") || strings.Contains(s, "identity") {
								return true
							}
						}
					}
				}
			}
			return false
		},
	})
}

// ------------------------------------------------------------------ generator

var c17Codecs = []string{"zstd", "gzip", "zstd", "gzip", "zstd", "gzip", "zstd", "gzip", "identity", "identity", "identity",
	"br", "deflate", "br", "deflate", "*", "compress", "x-gzip", "zst", "gzi", "zstdd", "", "zstd gzip", "zs td", "id entity",
	"gzip/zstd", "identity2", "br", "deflate", "*"}

var c17OWSPlain = []string{"", "", "", " ", " ", "\t", "  ", " \t "}
var c17OWSUni = []string{"\u00a0", "\u2003", "\u3000", "\u0085", "\v", "\f", "\r\n", "\u1680", "\u2000", "\u200a", "\u2028", "\u2029",
	"\u202f", "\u205f", "\u2007", "\u00a0 ", " \u2009", "\xe3\x80\x80"}
var c17OWSBreak = []string{"\u200b" /* not space */, "\ufeff" /* not space */, "\u180e" /* not space */,
	"\xc2" /* broken */, "\xa0" /* stray continuation */, "\xe2\x80" /* truncated */, "\xe2\x80\x8b", "\xf0\x9f\x98\x80",
	"\xe1\x9a" /* truncated U+1680 */, "\x80\xc2\xa0", "\xc2\xa0\x80"}

func c17OWS(r *Rng) string {
	switch x := r.Intn(100); {
	case x < 70:
		return Pick(r, c17OWSPlain)
	case x < 92:
		return Pick(r, c17OWSUni)
	default:
		return Pick(r, c17OWSBreak)
	}
}

var c17Q = []string{"", "", "", ";q=0", ";q=0.5", "; q=1", ";q=1.0", " ;q=0.001", ";", ";;", ";identity", ";zstd", "; q=0;x=y",
	";q= ", " ; ", ";\xc4\xb0"}

var c17Seps = []string{",", ",", ",", ", ", " , ", ",,", ",\t", ";", " ", ", ,"}

func c17CaseMangle(r *Rng, s string) string {
	var b strings.Builder
	mode := r.Intn(6)
	for _, ch := range s {
		switch {
		case mode == 0:
			b.WriteRune(ch)
		case mode == 1:
			b.WriteRune(unicode.ToUpper(ch))
		default:
			switch x := r.Intn(24); {
			case x < 5:
				b.WriteRune(unicode.ToUpper(ch))
			case x == 5 && ch == 'i':
				b.WriteString("\u0130") // lower-cases to ASCII i
			case x == 6 && ch == 'i':
				b.WriteString("\u0131") // dotless i: stays non-ASCII
			case x == 7 && ch == 'z':
				b.WriteString("\uff3a") // fullwidth Z -> fullwidth z
			case x == 8 && ch == 's':
				b.WriteString("\u017f") // long s: lower case is itself
			case x == 9 && ch == 'd':
				b.WriteString("\u212a") // kelvin -> k (never a codec letter)
			default:
				b.WriteRune(ch)
			}
		}
	}
	return b.String()
}

func c17Header(r *Rng) string {
	switch x := r.Intn(100); {
	case x < 8:
		return ""
	case x < 12: // raw random bytes
		return string(r.Bytes(r.Range(1, 12)))
	case x < 18: // random over a biased alphabet
		alpha := []byte("zstdgipenty,;= \tqZSTDGIP0.5*\xc2\xa0\xc4\xb0\xe2\x80\x83\xff\x80")
		n := r.Range(1, 30)
		b := make([]byte, n)
		for i := range b {
			b[i] = alpha[r.Intn(len(alpha))]
		}
		return string(b)
	}
	n := r.Range(1, 6)
	if r.Chance(10) {
		n = r.Range(6, 14)
	}
	var sb strings.Builder
	var prev []string
	for i := 0; i < n; i++ {
		if i > 0 {
			sb.WriteString(Pick(r, c17Seps))
		}
		var tok string
		if len(prev) > 0 && r.Chance(20) {
			tok = Pick(r, prev) // duplicate
		} else {
			tok = Pick(r, c17Codecs)
		}
		prev = append(prev, tok)
		sb.WriteString(c17OWS(r))
		sb.WriteString(c17CaseMangle(r, tok))
		sb.WriteString(c17OWS(r))
		sb.WriteString(Pick(r, c17Q))
		sb.WriteString(c17OWS(r))
	}
	s := sb.String()
	if r.Chance(8) && len(s) > 0 { // byte-level mutation
		b := []byte(s)
		switch r.Intn(3) {
		case 0:
			b[r.Intn(len(b))] = byte(r.U64())
		case 1:
			b = b[:r.Intn(len(b))]
		default:
			i := r.Intn(len(b))
			b = append(b[:i], b[i+1:]...)
		}
		s = string(b)
	}
	return s
}

var c17Ps = []string{"zstd,gzip", "zstd,gzip", "zstd,gzip", "zstd,gzip", "zstd,gzip", "gzip,zstd", "gzip,zstd", "-", "zstd", "gzip", "zstd", "gzip",
	"zstd,gzip,br", "br", "identity,zstd", "gzip,identity"}

var c17CTypes = []string{
	"application/vnd.apache.arrow.stream", "application/vnd.apache.arrow.stream", "application/vnd.apache.arrow.stream",
	"application/vnd.apache.arrow.stream", "application/vnd.apache.arrow.stream",
	"text/html; charset=utf-8", "application/json", "", "application/vnd.apache.arrow.stream; charset=utf-8",
	"APPLICATION/VND.APACHE.ARROW.STREAM", "application/vnd.apache.arrow.stream ", " application/vnd.apache.arrow.stream",
	"application/vnd.apache.arrow.file", "application/octet-stream", "text/plain", "application/vnd.apache.arrow.strea",
}

func c17RespLine(r *Rng, thorough bool) string {
	var ln int
	switch x := r.Intn(100); {
	case x < 8:
		ln = 0
	case x < 20:
		ln = r.Range(1, 3)
	case x < 60:
		ln = r.Range(4, 600)
	case x < 85:
		ln = r.Range(600, 70000)
	case x < 97:
		ln = Pick(r, []int{65535, 65536, 65537, 131072, 262144})
	default:
		ln = 1 << 20
		if !thorough && r.Chance(50) {
			ln = 300000
		}
	}
	kind := Pick(r, []string{"zero", "rand", "text", "text"})
	chunks := Pick(r, []int{1, 1, 2, 3, 7})
	status := Pick(r, []int{200, 200, 200, 200, 201, 400, 404, 500})
	via := "rec"
	if r.Chance(25) {
		via = "net"
	}
	return fmt.Sprintf("resp %s %s %s %d %s %d %d %s", XS(c17Header(r)), XS(c17Header(r)), XS(Pick(r, c17CTypes)), ln, kind, chunks, status, via)
}

func c17RpcLine(r *Rng) string {
	route := Pick(r, []string{"echo:0", "echo:1", "echo:100", "echo:5000", "echo:70000", "badbody", "health", "landing", "notfound", "echo:33"})
	return fmt.Sprintf("rpc %s %s %s", XS(c17Header(r)), XS(c17Header(r)), route)
}

func c17Gen(g *Gen) {
	r := g.Rng
	g.Case("tables")
	// (a) pure negotiation function
	nPure := g.N(1000, 40000)
	for i := 0; i < nPure; i++ {
		var lines []string
		for k := 0; k < 20; k++ {
			if r.Chance(15) {
				lines = append(lines, "parse "+XS(c17Header(r)))
			} else {
				lines = append(lines, fmt.Sprintf("choose %s %s %s", XS(c17Header(r)), XS(c17Header(r)), Pick(r, c17Ps)))
			}
		}
		g.Case(lines...)
	}
	// (b) end to end: levels, responses, real routes
	nE2E := g.N(100, 2500)
	for i := 0; i < nE2E; i++ {
		var lines []string
		if r.Chance(60) {
			lines = append(lines, "new "+Pick(r, []string{"plain", "keyed", "keyed"}))
		}
		for k := 0; k < 8; k++ {
			switch x := r.Intn(100); {
			case x < 18:
				lv := r.Range(1, 4)
				if r.Chance(40) {
					lv = r.Range(-3, 13)
				}
				lines = append(lines, fmt.Sprintf("level %d", lv))
			case x < 80:
				lines = append(lines, c17RespLine(r, g.Thorough()))
			default:
				lines = append(lines, c17RpcLine(r))
			}
		}
		g.Case(lines...)
	}
	// (b2) overlapping responses: a search for a failing schedule (no model)
	nBurst := g.N(10, 120)
	for i := 0; i < nBurst; i++ {
		var lines []string
		if r.Chance(60) {
			lines = append(lines, fmt.Sprintf("level %d", r.Range(1, 4)))
		}
		for k := 0; k < 2; k++ {
			lines = append(lines, fmt.Sprintf("burst %d %d %s %d %d", r.Range(4, 16), r.Range(3, 5),
				Pick(r, []string{"zstd", "gzip", "mix", "mixlv"}), Pick(r, []int{40000, 150000, 300000, 700000}), r.Intn(1<<30)))
		}
		g.Case(lines...)
	}
	// every constructor x level histories: none, the level it already has (once, twice), off, off
	// and back on, refused levels
	arrow := XS("application/vnd.apache.arrow.stream")
	for _, ctor := range []string{"plain", "keyed"} {
		for _, hist := range [][]int{{}, {1}, {1, 1}, {0}, {0, 0}, {0, 1}, {2, 2}, {9}, {9, 1}, {0, 9}, {-1, 1, 1}, {3, 0, 3}, {4, 4, 1}} {
			lines := []string{"new " + ctor}
			for _, lv := range hist {
				lines = append(lines, fmt.Sprintf("level %d", lv))
			}
			lines = append(lines, fmt.Sprintf("resp %s x %s 64 text 1 200 rec", XS("zstd"), arrow),
				fmt.Sprintf("resp x %s %s 64 text 1 200 net", XS("gzip"), arrow), fmt.Sprintf("rpc %s x echo:64", XS("gzip")))
			g.Case(lines...)
		}
	}
	// every level once, followed by plain offers of each codec on each header
	for lv := -3; lv <= 13; lv++ {
		ct := XS("application/vnd.apache.arrow.stream")
		g.Case(fmt.Sprintf("level %d", lv),
			fmt.Sprintf("resp %s x %s 50 text 1 200 rec", XS("zstd"), ct),
			fmt.Sprintf("resp x %s %s 50 text 1 200 rec", XS("gzip"), ct),
			fmt.Sprintf("resp %s %s %s 50 text 1 200 net", XS("gzip, zstd"), XS("zstd"), ct),
			fmt.Sprintf("rpc %s x echo:64", XS("identity, zstd")),
			fmt.Sprintf("rpc %s %s landing", XS("zstd"), XS("gzip")))
	}
	if g.Thorough() {
		// (c) exhaustive: both headers over all sequences of length <= 3 from a 6-token alphabet
		alpha := []string{"zstd", "gzip", "identity", "br", "GZIP;q=0", " zstd "}
		var seqs []string
		var rec func(prefix []string, d int)
		rec = func(prefix []string, d int) {
			seqs = append(seqs, strings.Join(prefix, ","))
			if d == 0 {
				return
			}
			for _, a := range alpha {
				rec(append(append([]string{}, prefix...), a), d-1)
			}
		}
		rec(nil, 3)
		var lines []string
		for _, c := range seqs {
			for _, s := range seqs {
				lines = append(lines, fmt.Sprintf("choose %s %s zstd,gzip", XS(c), XS(s)))
				if len(lines) == 200 {
					g.Case(lines...)
					lines = nil
				}
			}
		}
		if len(lines) > 0 {
			g.Case(lines...)
		}
	}
}

// ------------------------------------------------------------------ independent specification (oracle side)

// c17RefTokens: the header's codec tokens in order, duplicates kept (the specification does not
// need de-duplication).
func c17RefTokens(h string) []string {
	var out []string
	if h == "" {
		return nil
	}
	for _, part := range strings.Split(h, ",") {
		t := strings.TrimSpace(part)
		if i := strings.IndexByte(t, ';'); i >= 0 {
			t = strings.TrimSpace(t[:i])
		}
		t = strings.ToLower(t)
		if t != "" {
			out = append(out, t)
		}
	}
	return out
}

func c17In(list []string, x string) bool {
	for _, s := range list {
		if s == x {
			return true
		}
	}
	return false
}

// c17Decide: first decisive token of one header: ("codec", name) | ("identity","") | ("", "").
func c17Decide(toks, p []string) (string, string) {
	for _, t := range toks {
		if t == "identity" {
			return "identity", ""
		}
		if c17In(p, t) {
			return "codec", t
		}
	}
	return "", ""
}

// c17Spec: the property's choice: custom header first, then the standard header.
func c17Spec(custom, standard string, p []string) (enc string, customOnly bool) {
	ct, st := c17RefTokens(custom), c17RefTokens(standard)
	k, w := c17Decide(ct, p)
	if k == "" {
		k, w = c17Decide(st, p)
	}
	if k != "codec" {
		return "", false
	}
	return w, c17In(ct, w) && !c17In(st, w)
}

func c17CheckChoice(c *Case, where, custom, standard string, p []string, enc string, customOnly bool) {
	want, wantCustom := c17Spec(custom, standard, p)
	if enc == want && customOnly == wantCustom {
		return
	}
	desc := fmt.Sprintf("%s: custom=%q standard=%q producible=%v: got (%q,%v), client order gives (%q,%v)", where, custom, standard, p, enc, customOnly, want, wantCustom)
	switch {
	case enc != "" && !c17In(p, enc):
		c.Oracle("codec-not-producible", desc)
	case enc != "" && !c17In(c17RefTokens(custom), enc) && !c17In(c17RefTokens(standard), enc):
		c.Oracle("codec-never-offered", desc)
	case want == "" && enc != "":
		c.Oracle("identity-earlier-ignored", desc)
	case want != "" && enc == "":
		c.Oracle("producible-offer-not-compressed", desc)
	case enc != want:
		c.Oracle("codec-not-first-in-client-order", desc)
	case wantCustom && !customOnly:
		c.Oracle("custom-only-offer-stamped-content-encoding", desc)
	default:
		c.Oracle("shared-offer-stamped-custom-header", desc)
	}
}

// standard decoders (not the repo's)
func c17Decode(enc string, body []byte) ([]byte, error) {
	switch enc {
	case "zstd":
		zr, err := zstd.NewReader(bytes.NewReader(body))
		if err != nil {
			return nil, err
		}
		defer zr.Close()
		return io.ReadAll(zr)
	case "gzip":
		gr, err := gzip.NewReader(bytes.NewReader(body))
		if err != nil {
			return nil, err
		}
		return io.ReadAll(gr)
	}
	return nil, fmt.Errorf("unknown codec %q", enc)
}

// ------------------------------------------------------------------ exec

type c17EchoParams struct {
	N int64 `vgirpc:"n"`
}

type c17Env struct {
	h  *vgirpc.HttpServer
	ts *httptest.Server
	// what the mounted handler answers with
	ctype  string
	status int
	body   []byte
	chunks int
	// codecs the server really produces at the current level (probed), nil = not probed yet
	produced   []string
	producedOK bool
	// burst family: bodies by request id, barrier of the current round, second server
	h2       *vgirpc.HttpServer
	level    int
	burstMu  sync.Mutex
	bodies   map[string][]byte
	arrived  *int32
	want     int32
	released chan struct{}
}

func (e *c17Env) burstHandler() http.Handler {
	return http.HandlerFunc(func(w http.ResponseWriter, r *http.Request) {
		e.burstMu.Lock()
		body := e.bodies[r.Header.Get("X-Burst-Id")]
		arrived, want, released := e.arrived, e.want, e.released
		e.burstMu.Unlock()
		// barrier: hold every handler of the round until all have arrived, so the responses'
		// compression phases (compressResponseWriter.finish, after the handler returns) overlap
		if arrived != nil {
			if atomic.AddInt32(arrived, 1) == want {
				close(released)
			}
			select {
			case <-released:
			case <-time.After(5 * time.Second):
			}
		}
		w.Header().Set("Content-Type", vgirpc.VerifC17ArrowContentType)
		w.WriteHeader(200)
		w.Write(body)
	})
}

func c17NewEnv(ctor string) *c17Env {
	e := &c17Env{}
	s := vgirpc.NewServer()
	vgirpc.Unary(s, "echo", func(_ context.Context, _ *vgirpc.CallContext, p c17EchoParams) (string, error) {
		return strings.Repeat("a", int(p.N)), nil
	})
	if ctor == "keyed" {
		h, err := vgirpc.NewHttpServerWithKey(s, []byte("0123456789abcdef0123456789abcdef"))
		if err != nil {
			panic(err)
		}
		e.h = h
	} else {
		e.h = vgirpc.NewHttpServer(s)
	}
	e.level = 1
	e.h.VerifC17Handle("PUT /__verif_c17_burst__", e.burstHandler())
	e.h.VerifC17Handle("PUT /__verif_c17__", http.HandlerFunc(func(w http.ResponseWriter, _ *http.Request) {
		if e.ctype != "" {
			w.Header().Set("Content-Type", e.ctype)
		} else {
			w.Header()["Content-Type"] = nil // suppress sniffing, leave it unset
		}
		w.WriteHeader(e.status)
		n := len(e.body)
		k := e.chunks
		if k < 1 {
			k = 1
		}
		for i := 0; i < k; i++ {
			lo, hi := n*i/k, n*(i+1)/k
			if hi > lo {
				w.Write(e.body[lo:hi])
			}
		}
	}))
	return e
}

func (e *c17Env) close() {
	if e.ts != nil {
		e.ts.Close()
	}
}

type c17Resp struct {
	status int
	hdr    http.Header
	body   []byte
}

func c17ValidFieldValue(s string) bool {
	for i := 0; i < len(s); i++ {
		b := s[i]
		if (b < 0x20 && b != '\t') || b == 0x7f {
			return false
		}
	}
	return true
}

func (e *c17Env) do(method, path string, hdrs map[string]string, body []byte, via string) (*c17Resp, error) {
	if via == "net" {
		if e.ts == nil {
			e.ts = httptest.NewServer(e.h)
		}
		req, err := http.NewRequest(method, e.ts.URL+path, bytes.NewReader(body))
		if err != nil {
			return nil, err
		}
		for k, v := range hdrs {
			req.Header.Set(k, v)
		}
		tr := &http.Transport{DisableCompression: true}
		defer tr.CloseIdleConnections()
		resp, err := (&http.Client{Transport: tr}).Do(req)
		if err != nil {
			return nil, err
		}
		defer resp.Body.Close()
		b, err := io.ReadAll(resp.Body)
		if err != nil {
			return nil, err
		}
		return &c17Resp{resp.StatusCode, resp.Header, b}, nil
	}
	req := httptest.NewRequest(method, path, bytes.NewReader(body))
	for k, v := range hdrs {
		req.Header[http.CanonicalHeaderKey(k)] = []string{v}
	}
	rec := httptest.NewRecorder()
	e.h.ServeHTTP(rec, req)
	res := rec.Result()
	b, _ := io.ReadAll(res.Body)
	return &c17Resp{res.StatusCode, res.Header, b}, nil
}

func c17AcceptHdrs(custom, standard string) map[string]string {
	m := map[string]string{}
	if custom != "" {
		m[vgirpc.VerifC17CustomAcceptEncodingHeader] = custom
	}
	if standard != "" {
		m[vgirpc.VerifC17AcceptEncodingHeader] = standard
	}
	return m
}

// stamped: which header carries the codec ("none" | "ce" | "xce" | "both") and its value.
func c17Stamped(h http.Header) (string, string) {
	ce := h.Values(vgirpc.VerifC17ContentEncodingHeader)
	xce := h.Values(vgirpc.VerifC17CustomContentEncodingHeader)
	switch {
	case len(ce) == 0 && len(xce) == 0:
		return "none", ""
	case len(ce) > 0 && len(xce) > 0:
		return "both", strings.Join(ce, "|") + "/" + strings.Join(xce, "|")
	case len(ce) > 0:
		return "ce", strings.Join(ce, "|")
	default:
		return "xce", strings.Join(xce, "|")
	}
}

func c17Advert(h http.Header) string {
	v, ok := h[http.CanonicalHeaderKey(vgirpc.VerifC17SupportedEncodingsHeader)]
	if !ok {
		return "!absent"
	}
	return strings.Join(v, "|")
}

// probeProduced asks the real server, codec by codec, whether it compresses an Arrow body for a
// client that offers exactly that codec.
func (e *c17Env) probeProduced(c *Case) []string {
	if e.producedOK {
		return e.produced
	}
	sc, ss, sb, sk, st := e.ctype, e.status, e.body, e.chunks, e.produced
	_ = st
	e.ctype, e.status, e.body, e.chunks = vgirpc.VerifC17ArrowContentType, 200, []byte("probe-body-probe-body"), 1
	var out []string
	for _, codec := range []string{"zstd", "gzip", "br", "deflate", "identity", "compress"} {
		r, err := e.do("PUT", "/__verif_c17__", map[string]string{vgirpc.VerifC17CustomAcceptEncodingHeader: codec}, nil, "rec")
		if err != nil {
			continue
		}
		if which, val := c17Stamped(r.hdr); which != "none" || !bytes.Equal(r.body, e.body) {
			out = append(out, codec)
			if val != codec {
				c.Oracle("probe-stamped-other-codec", fmt.Sprintf("offered only %q, response stamped %s=%q", codec, which, val))
			}
		}
	}
	e.ctype, e.status, e.body, e.chunks = sc, ss, sb, sk
	e.produced, e.producedOK = out, true
	return out
}

func c17Body(n int, kind string) []byte {
	b := make([]byte, n)
	switch kind {
	case "zero":
	case "rand":
		r := NewRng(uint64(n)*7919 + 13)
		for i := range b {
			b[i] = byte(r.U64())
		}
	default:
		const t = "ARROW1\x00\x00schema:{name:utf8,value:float64} batch rows=1024 "
		for i := range b {
			b[i] = t[(i+i/len(t))%len(t)]
		}
	}
	return b
}

var c17EchoReq = map[int][]byte{}

func c17EchoRequest(n int) []byte {
	if b, ok := c17EchoReq[n]; ok {
		return b
	}
	mem := memory.NewGoAllocator()
	schema := arrow.NewSchema([]arrow.Field{{Name: "n", Type: arrow.PrimitiveTypes.Int64}}, nil)
	bld := array.NewInt64Builder(mem)
	bld.Append(int64(n))
	col := bld.NewArray()
	bld.Release()
	batch := array.NewRecordBatch(schema, []arrow.Array{col}, 1)
	col.Release()
	var buf bytes.Buffer
	if err := vgirpc.WriteRequest(&buf, "echo", batch, ""); err != nil {
		panic(err)
	}
	batch.Release()
	c17EchoReq[n] = buf.Bytes()
	return buf.Bytes()
}

// checkResponse: oracles on one real response + canonical observation.
// orig is the uncompressed body the handler produced (nil when unknown: only decodability is checked).
func (e *c17Env) checkResponse(c *Case, line, custom, standard, ctype string, orig []byte, origKnown bool, r *c17Resp) string {
	which, val := c17Stamped(r.hdr)
	enc := ""
	switch which {
	case "both":
		c.Oracle("both-encoding-headers-stamped", fmt.Sprintf("%s: %s", line, val))
		enc = "?"
	case "ce", "xce":
		enc = val
	}
	if enc != "" && enc != "?" {
		dec, err := c17Decode(enc, r.body)
		if err != nil {
			c.Oracle("stamped-codec-does-not-decode-body", fmt.Sprintf("%s: stamped %s=%q, decode failed: %v", line, which, enc, err))
		} else if origKnown && !bytes.Equal(dec, orig) {
			c.Oracle("compressed-body-not-lossless", fmt.Sprintf("%s: decoded %d bytes differ from the %d uncompressed bytes", line, len(dec), len(orig)))
		}
		if ctype != vgirpc.VerifC17ArrowContentType {
			c.Oracle("non-arrow-body-compressed", fmt.Sprintf("%s: content type %q compressed with %q", line, ctype, enc))
		}
		c.Stat("compressed-" + enc + "-" + which)
	} else if enc == "" {
		if origKnown && !bytes.Equal(r.body, orig) {
			if ctype != vgirpc.VerifC17ArrowContentType {
				c.Oracle("non-arrow-body-altered", fmt.Sprintf("%s: content type %q: body altered without a stamped codec", line, ctype))
			} else {
				c.Oracle("body-altered-without-stamp", fmt.Sprintf("%s: no encoding header but the body differs from the uncompressed one", line))
			}
		}
		c.Stat("uncompressed")
	}
	// negotiation oracle on the real response (producible set probed from the real server)
	if enc != "?" {
		p := e.probeProduced(c)
		want, wantCustom := c17Spec(custom, standard, p)
		compressible := ctype == vgirpc.VerifC17ArrowContentType && (!origKnown || len(orig) > 0)
		if enc != "" || compressible {
			c17CheckChoice(c, "response "+line, custom, standard, p, enc, which == "xce")
		}
		_, _ = want, wantCustom
	}
	return fmt.Sprintf("enc=%s hdr=%s adv=%s", c17Dash(enc), which, XS(c17Advert(r.hdr)))
}

// checkAdvert reads the capability header from a real OPTIONS /health response and compares it
// with the codecs the server really produces (probed, one codec at a time).
func (e *c17Env) checkAdvert(c *Case, l string) string {
	r, rerr := e.do("OPTIONS", "/health", nil, nil, "rec")
	adv := "!error"
	if rerr == nil {
		adv = c17Advert(r.hdr)
	}
	// advertised == what the server actually produces
	produced := e.probeProduced(c)
	var advSet []string
	for _, t := range strings.Split(adv, ",") {
		if t = strings.TrimSpace(t); t != "" {
			advSet = append(advSet, t)
		}
	}
	a, b := append([]string{}, advSet...), append([]string{}, produced...)
	sort.Strings(a)
	sort.Strings(b)
	if strings.Join(a, ",") != strings.Join(b, ",") {
		c.Oracle("advert-not-producible-set", fmt.Sprintf("after %q: VGI-Supported-Encodings=%q but the server produces %v", l, adv, produced))
	}
	if hp := e.h.VerifC17Producible(); strings.Join(hp, ", ") != adv {
		c.Oracle("advert-not-producible-list", fmt.Sprintf("after %q: VGI-Supported-Encodings=%q, producibleResponseEncodings()=%v", l, adv, hp))
	}
	return adv
}

func c17Dash(s string) string {
	if s == "" {
		return "-"
	}
	return s
}

func c17Exec(c *Case) {
	var env *c17Env
	get := func() *c17Env {
		if env == nil {
			env = c17NewEnv("plain")
		}
		return env
	}
	defer func() {
		if env != nil {
			env.close()
		}
	}()
	for _, l := range c.Lines {
		f := strings.Fields(l)
		if len(f) == 0 {
			continue
		}
		switch {
		case f[0] == "tables" && len(f) == 1:
			var sp, lo []string
			for r := rune(0); r <= unicode.MaxRune; r++ {
				if r >= 0xD800 && r <= 0xDFFF {
					continue
				}
				if unicode.IsSpace(r) {
					sp = append(sp, strconv.Itoa(int(r)))
				}
				if r >= 0x80 {
					low := strings.ToLower(string(r))
					for i := 0; i < len(low); i++ {
						if low[i] < 0x80 {
							lo = append(lo, fmt.Sprintf("%d:%x", r, low))
							break
						}
					}
				}
			}
			c.Out(l, fmt.Sprintf("space=%s lower=%s", strings.Join(sp, ","), strings.Join(lo, ",")))
		case f[0] == "parse" && len(f) == 2:
			h := UnXS(f[1])
			toks := vgirpc.VerifC17ParseAcceptEncoding(h)
			// The property speaks about the ORDER of first occurrences only: whether the parser
			// de-duplicates is an implementation detail, so both sides are reduced to first
			// occurrences here.
			first := func(in []string) []string {
				var out []string
				seen := map[string]bool{}
				for _, t := range in {
					if !seen[t] {
						seen[t] = true
						out = append(out, t)
					}
				}
				return out
			}
			var known []string
			for _, t := range first(toks) {
				if t == "zstd" || t == "gzip" || t == "identity" {
					known = append(known, t)
				}
			}
			if ref, got := first(c17RefTokens(h)), first(toks); fmt.Sprint(ref) != fmt.Sprint(got) {
				c.Oracle("parse-not-client-order", fmt.Sprintf("parseAcceptEncoding(%q) = %q, header lists %q", h, toks, ref))
			}
			c.Stat("parse")
			c.Out(l, "toks "+c17Dash(strings.Join(known, ",")))
		case f[0] == "choose" && len(f) == 4:
			custom, standard := UnXS(f[1]), UnXS(f[2])
			var p []string
			if f[3] != "-" {
				p = strings.Split(f[3], ",")
			}
			enc, cu := vgirpc.VerifC17Choose(custom, standard, p)
			c17CheckChoice(c, "chooseResponseEncoding", custom, standard, p, enc, cu)
			if enc == "" {
				c.Stat("choose-none")
			} else if cu {
				c.Stat("choose-" + enc + "-custom-only")
			} else {
				c.Stat("choose-" + enc)
			}
			c.Out(l, fmt.Sprintf("enc=%s custom=%v", c17Dash(enc), cu))
		case f[0] == "new" && len(f) == 2 && (f[1] == "plain" || f[1] == "keyed"):
			if env != nil {
				env.close()
			}
			env = c17NewEnv(f[1])
			adv := env.checkAdvert(c, l)
			c.Stat("new-" + f[1] + "-adv=" + adv)
			c.Out(l, "ok adv="+XS(adv))
		case f[0] == "level" && len(f) == 2:
			e := get()
			n, _ := strconv.Atoi(f[1])
			err := e.h.SetCompressionLevel(n)
			if err == nil {
				e.level = n
			}
			e.producedOK = false
			adv := e.checkAdvert(c, l)
			st := "ok"
			if err != nil {
				st = "err"
			}
			c.Stat("level-" + st + "-adv=" + adv)
			c.Out(l, st+" adv="+XS(adv))
		case f[0] == "resp" && len(f) == 9:
			e := get()
			custom, standard, ctype := UnXS(f[1]), UnXS(f[2]), UnXS(f[3])
			n, _ := strconv.Atoi(f[4])
			chunks, _ := strconv.Atoi(f[6])
			status, _ := strconv.Atoi(f[7])
			via := f[8]
			if via == "net" && !(c17ValidFieldValue(custom) && c17ValidFieldValue(standard)) {
				via = "rec"
			}
			e.ctype, e.status, e.body, e.chunks = ctype, status, c17Body(n, f[5]), chunks
			r, err := e.do("PUT", "/__verif_c17__", c17AcceptHdrs(custom, standard), nil, via)
			model := fmt.Sprintf("resp %s %s %s %d", f[1], f[2], f[3], n)
			if err != nil {
				c.Out(model, "err:transport "+err.Error())
				c.Oracle("transport-error", fmt.Sprintf("%s: %v", l, err))
				continue
			}
			if r.status != status {
				c.Oracle("status-altered", fmt.Sprintf("%s: handler wrote %d, client saw %d", l, status, r.status))
			}
			if got := r.hdr.Get("Content-Type"); got != strings.TrimSpace(ctype) && !(via == "rec" && got == ctype) {
				c.Oracle("content-type-altered", fmt.Sprintf("%s: handler set %q, client saw %q", l, ctype, got))
			}
			c.Stat("resp-" + via)
			c.Out(model, e.checkResponse(c, l, custom, standard, ctype, e.body, true, r))
		case f[0] == "rpc" && len(f) == 4:
			e := get()
			custom, standard := UnXS(f[1]), UnXS(f[2])
			method, path := "GET", "/"
			var body []byte
			route := f[3]
			switch {
			case strings.HasPrefix(route, "echo:"):
				n, _ := strconv.Atoi(route[5:])
				method, path, body = "POST", "/echo", c17EchoRequest(n)
			case route == "badbody":
				method, path, body = "POST", "/echo", []byte("\xff\xff\xff\xff\x00\x00\x00\x00") // end-of-stream marker only (free text here makes the IPC reader allocate GiBs: not this property)
			case route == "health":
				path = "/health"
			case route == "landing":
				path = "/"
			case route == "notfound":
				path = "/no/such/page"
			default:
				c.Out(l, "err:bad-op")
				continue
			}
			hd := func(m map[string]string) map[string]string {
				if method == "POST" {
					m["Content-Type"] = vgirpc.VerifC17ArrowContentType
				}
				return m
			}
			base, err1 := e.do(method, path, hd(map[string]string{}), body, "rec")
			base2, err2 := e.do(method, path, hd(map[string]string{}), body, "rec")
			r, err3 := e.do(method, path, hd(c17AcceptHdrs(custom, standard)), body, "rec")
			if err1 != nil || err2 != nil || err3 != nil {
				c.Out(l, "err:transport")
				continue
			}
			if w, _ := c17Stamped(base.hdr); w != "none" {
				c.Oracle("compressed-without-any-offer", fmt.Sprintf("%s: no accept header sent, response stamped %s", l, w))
			}
			ctype := r.hdr.Get("Content-Type")
			deterministic := bytes.Equal(base.body, base2.body)
			model := fmt.Sprintf("resp %s %s %s %d", f[1], f[2], XS(ctype), len(base.body))
			c.Stat("rpc-" + strings.SplitN(route, ":", 2)[0] + "-" + strconv.Itoa(r.status))
			c.Out(model, e.checkResponse(c, l, custom, standard, ctype, base.body, deterministic, r))
		case f[0] == "burst" && len(f) == 6:
			e := get()
			n, e1 := strconv.Atoi(f[1])
			rounds, e2 := strconv.Atoi(f[2])
			ln, e3 := strconv.Atoi(f[4])
			seed, e4 := strconv.ParseUint(f[5], 10, 64)
			if e1 != nil || e2 != nil || e3 != nil || e4 != nil || n < 1 || n > 64 || rounds < 1 || rounds > 50 || ln < 0 || ln > 4<<20 {
				c.Out(l, "err:bad-op")
				continue
			}
			c.Out(l, e.burst(c, l, n, rounds, f[3], ln, seed))
		default:
			c.Out(l, "err:bad-op")
		}
	}
}

// burstBody: distinct, compressible, recognisable per (seed, round, i).
func c17BurstBody(seed uint64, round, i, ln int) []byte {
	r := NewRng(seed*1000003 + uint64(round)*1009 + uint64(i)*17 + 1)
	block := r.Bytes(61)
	n := ln + i*1013 + round*7
	b := make([]byte, n)
	for k := range b {
		b[k] = block[(k+k/61)%61]
	}
	if n >= 16 {
		copy(b, fmt.Sprintf("ARROW r%03d i%03d ", round, i))
	}
	return b
}

// burst is a search for a failing schedule, not part of the model: overlapping responses
// through the real ServeHTTP, each checked by the lossless oracle.
func (e *c17Env) burst(c *Case, line string, n, rounds int, mode string, ln int, seed uint64) string {
	servers := []*vgirpc.HttpServer{e.h}
	if mode == "mixlv" {
		if e.h2 == nil {
			s := vgirpc.NewServer()
			e.h2 = vgirpc.NewHttpServer(s)
			e.h2.VerifC17Handle("PUT /__verif_c17_burst__", e.burstHandler())
		}
		e.h2.SetCompressionLevel(e.level%4 + 1)
		servers = append(servers, e.h2)
	}
	bad, total := 0, 0
	for round := 0; round < rounds; round++ {
		bodies := map[string][]byte{}
		ids := make([]string, n)
		for i := 0; i < n; i++ {
			ids[i] = fmt.Sprintf("%d-%d", round, i)
			bodies[ids[i]] = c17BurstBody(seed, round, i, ln)
		}
		var arrived int32
		e.burstMu.Lock()
		e.bodies, e.arrived, e.want, e.released = bodies, &arrived, int32(n), make(chan struct{})
		e.burstMu.Unlock()
		type res struct {
			which, val string
			body       []byte
		}
		out := make([]res, n)
		var wg sync.WaitGroup
		for i := 0; i < n; i++ {
			codec := mode
			if mode == "mix" || mode == "mixlv" {
				codec = []string{"zstd", "gzip"}[i%2]
			}
			srv := servers[(i/2)%len(servers)]
			wg.Add(1)
			go func(i int, codec string, srv *vgirpc.HttpServer) {
				defer wg.Done()
				defer func() {
					// net/http would recover this per connection; here it must not take the harness down
					if p := recover(); p != nil {
						out[i] = res{"panic", fmt.Sprint(p), nil}
					}
				}()
				req := httptest.NewRequest("PUT", "/__verif_c17_burst__", nil)
				req.Header.Set("X-Burst-Id", ids[i])
				if i%3 == 0 {
					req.Header.Set(vgirpc.VerifC17AcceptEncodingHeader, codec)
				} else {
					req.Header.Set(vgirpc.VerifC17CustomAcceptEncodingHeader, codec)
				}
				rec := httptest.NewRecorder()
				srv.ServeHTTP(rec, req)
				r := rec.Result()
				b, _ := io.ReadAll(r.Body)
				w, v := c17Stamped(r.Header)
				out[i] = res{w, v, b}
			}(i, codec, srv)
		}
		wg.Wait()
		for i := 0; i < n; i++ {
			total++
			want := bodies[ids[i]]
			got := out[i].body
			var err error
			switch out[i].which {
			case "none":
			case "ce", "xce":
				got, err = c17Decode(out[i].val, out[i].body)
			case "panic":
				err = fmt.Errorf("ServeHTTP panicked while compressing: %s", out[i].val)
			default:
				err = fmt.Errorf("both encoding headers stamped")
			}
			if err != nil || !bytes.Equal(got, want) {
				bad++
				what := fmt.Sprintf("decoded %d bytes, want %d", len(got), len(want))
				if err != nil {
					what = "decode failed: " + err.Error()
				} else if len(got) >= 16 && len(want) >= 16 && !bytes.Equal(got[:16], want[:16]) {
					what += fmt.Sprintf(" (carries %q, the payload of another response; want %q)", got[:16], want[:16])
				}
				if bad <= 3 {
					c.Oracle("overlapping-response-not-lossless", fmt.Sprintf("%s: round %d request %d (%s=%q, %d wire bytes): %s", line, round, i, out[i].which, out[i].val, len(out[i].body), what))
				}
			}
			if out[i].which == "panic" {
				c.Stat("burst-panic")
			} else if out[i].which != "none" {
				c.Stat("burst-compressed-" + out[i].val)
			} else {
				c.Stat("burst-uncompressed")
			}
		}
	}
	e.burstMu.Lock()
	e.arrived = nil
	e.burstMu.Unlock()
	if bad > 0 {
		return fmt.Sprintf("burst corrupted %d/%d", bad, total)
	}
	return "burst lossless"
}
