// Package main is the correspondence harness: it runs the REAL vgi-rpc-go code on generated
// (or replayed) cases and records, per script line, the line handed to the Lean model driver
// and the canonical observation of the implementation.
//
// Files written into --dir:
//
//	script.txt    replayable harness input  ("#case <n>" separators)
//	model_in.txt  lines for the Lean driver (script line, possibly enriched with observed
//	              environment values: random nonces, serialized sizes, ... — never with the
//	              implementation's *decision*)
//	impl.out      one canonical output line per model_in line
//	oracle.jsonl  property-oracle failures on the real outputs (class, desc, case)
//	stats.json    measured counters (evaluations, distinct, distribution, samples)
package main

import (
	"bufio"
	"crypto/sha256"
	"encoding/hex"
	"encoding/json"
	"flag"
	"fmt"
	"os"
	"path/filepath"
	"runtime/debug"
	"sort"
	"strings"
	"time"
)

// Prop is one property's correspondence harness.
type Prop struct {
	ID string
	// Gen emits cases; every random choice must come from g.Rng.
	Gen func(g *Gen)
	// Exec runs one case against the real code.
	Exec func(c *Case)
	// NonTrivial reports whether a case counts as non-trivial (default: any case with >0 lines).
	NonTrivial func(lines []string) bool
	// Rule describes generation and the non-triviality rule (goes into the evidence).
	Rule string
}

var registry = map[string]*Prop{}

func Register(p *Prop) { registry[p.ID] = p }

// Rng is splitmix64; the whole run derives from one seed.
type Rng struct{ s uint64 }

// NewRng mixes the seed through two rounds of the output function first, so that consecutive
// seeds give unrelated streams (a plain affine start would make seed k+1 a one-draw shift of seed k).
func NewRng(seed uint64) *Rng {
	r := &Rng{s: seed ^ 0x6A09E667F3BCC908}
	a := r.U64()
	b := r.U64()
	r.s = a ^ (b << 1) ^ (seed * 0xD1342543DE82EF95)
	return r
}
func (r *Rng) U64() uint64 {
	r.s += 0x9E3779B97F4A7C15
	z := r.s
	z = (z ^ (z >> 30)) * 0xBF58476D1CE4E5B9
	z = (z ^ (z >> 27)) * 0x94D049BB133111EB
	return z ^ (z >> 31)
}
func (r *Rng) Intn(n int) int {
	if n <= 0 {
		return 0
	}
	return int(r.U64() % uint64(n))
}
func (r *Rng) Range(lo, hi int) int { return lo + r.Intn(hi-lo+1) } // inclusive
func (r *Rng) Bool() bool           { return r.U64()&1 == 1 }
func (r *Rng) Chance(pct int) bool  { return r.Intn(100) < pct }
func (r *Rng) Bytes(n int) []byte {
	b := make([]byte, n)
	for i := range b {
		b[i] = byte(r.U64())
	}
	return b
}
func Pick[T any](r *Rng, xs []T) T { return xs[r.Intn(len(xs))] }

// Gen is handed to Prop.Gen.
type Gen struct {
	Rng      *Rng
	Tier     string
	Seed     uint64
	emit     func(lines []string)
	Deadline time.Time
}

func (g *Gen) Thorough() bool { return g.Tier == "thorough" }

// N picks the case count by tier.
func (g *Gen) N(quick, thorough int) int {
	if g.Thorough() {
		return thorough
	}
	return quick
}
func (g *Gen) Case(lines ...string) { g.emit(lines) }

// Case is handed to Prop.Exec.
type Case struct {
	Index   int
	Lines   []string
	modelIn []string
	implOut []string
	oracle  []OracleFailure
	stats   map[string]int
}

type OracleFailure struct {
	Property string   `json:"property"`
	Case     int      `json:"case"`
	Class    string   `json:"class"`
	Desc     string   `json:"desc"`
	Script   []string `json:"script"`
}

// Out records the model input line and the implementation's canonical observation for it.
func (c *Case) Out(modelLine, implOut string) {
	c.modelIn = append(c.modelIn, oneLine(modelLine))
	c.implOut = append(c.implOut, oneLine(implOut))
}

// Oracle records a violation of the property observed on the real code.
// class must identify the specific failing input class / call site (it is what
// known_findings.json matches on).
func (c *Case) Oracle(class, desc string) {
	c.oracle = append(c.oracle, OracleFailure{Class: class, Desc: desc})
}

// Stat bumps a distribution counter.
func (c *Case) Stat(key string) { c.stats[key]++ }

func oneLine(s string) string {
	s = strings.ReplaceAll(s, "\n", "\\n")
	return strings.ReplaceAll(s, "\r", "\\r")
}

// Hex helpers for the line protocol: byte strings travel as x<hex>.
func X(b []byte) string  { return "x" + hex.EncodeToString(b) }
func XS(s string) string { return "x" + hex.EncodeToString([]byte(s)) }
func UnX(s string) ([]byte, bool) {
	if !strings.HasPrefix(s, "x") {
		return nil, false
	}
	b, err := hex.DecodeString(s[1:])
	return b, err == nil
}
func MustUnX(s string) []byte {
	b, ok := UnX(s)
	if !ok {
		panic("bad hex arg: " + s)
	}
	return b
}
func UnXS(s string) string { return string(MustUnX(s)) }

// caseTimeouts counts cases that hit the per-case timeout; after a few of them the run stops
// executing further cases (a defect that makes the real code hang would otherwise cost
// timeout x cases). The timeouts already recorded are oracle failures, so the verdict stands.
var caseTimeouts int

// Once a run has already observed property violations, there is no point in spending a long time
// on the remaining cases (defects that make the real code block cost seconds per case): after
// runBudget of wall time with at least one oracle failure recorded, remaining cases are skipped.
// A clean run is never cut short.
var (
	runStart       = time.Now()
	runBudget      = 150 * time.Second
	oracleFailures int
)

func runCase(p *Prop, idx int, lines []string) (c *Case) {
	c = &Case{Index: idx, Lines: lines, stats: map[string]int{}}
	if caseTimeouts >= 3 || (oracleFailures > 0 && time.Since(runStart) > runBudget) {
		c.Out("!skipped", "!skipped")
		c.stats["skipped-after-repeated-timeouts"]++
		return c
	}
	done := make(chan struct{})
	go func() {
		defer close(done)
		defer func() {
			if r := recover(); r != nil {
				c.Out("!panic", fmt.Sprintf("!panic %v", r))
				c.Oracle("harness-panic", fmt.Sprintf("panic escaped to the harness: %v\n%s", r, debug.Stack()))
			}
		}()
		p.Exec(c)
	}()
	to := 120 * time.Second
	select {
	case <-done:
	case <-time.After(to):
		c = &Case{Index: idx, Lines: lines, stats: map[string]int{}}
		caseTimeouts++
		c.Out("!timeout", "!timeout")
		c.Oracle("harness-timeout", fmt.Sprintf("case did not finish within %s", to))
	}
	return c
}

type Stats struct {
	Property           string         `json:"property"`
	Seed               uint64         `json:"seed"`
	Tier               string         `json:"tier"`
	Evaluations        int            `json:"evaluations"`
	DistinctNonTrivial int            `json:"distinct_nontrivial"`
	Lines              int            `json:"lines"`
	Rule               string         `json:"rule"`
	Distribution       map[string]int `json:"distribution"`
	Samples            [][]string     `json:"samples"`
	OracleFailures     int            `json:"oracle_failures"`
	CorpusCases        int            `json:"corpus_cases"`
	WallS              float64        `json:"wall_s"`
}

func main() {
	if len(os.Args) < 3 {
		fmt.Fprintln(os.Stderr, "usage: harness run|exec <ID> --dir D [--seed N] [--tier quick|thorough] [--corpus DIR]")
		os.Exit(2)
	}
	mode, id := os.Args[1], os.Args[2]
	fs := flag.NewFlagSet("harness", flag.ExitOnError)
	dir := fs.String("dir", "", "output directory")
	seed := fs.Uint64("seed", 1, "seed")
	tier := fs.String("tier", "quick", "tier")
	corpus := fs.String("corpus", "", "corpus directory (cases run first)")
	fs.Parse(os.Args[3:])
	if mode == "list" {
		ids := []string{}
		for k := range registry {
			ids = append(ids, k)
		}
		sort.Strings(ids)
		fmt.Println(strings.Join(ids, " "))
		return
	}
	p := registry[id]
	if p == nil {
		fmt.Fprintln(os.Stderr, "unknown property", id)
		os.Exit(2)
	}
	if *dir == "" {
		fmt.Fprintln(os.Stderr, "--dir required")
		os.Exit(2)
	}
	os.MkdirAll(*dir, 0o755)
	start := time.Now()

	var cases [][]string
	nCorpus := 0
	switch mode {
	case "exec":
		cases = readCases(filepath.Join(*dir, "script.txt"))
	case "run":
		if *corpus != "" {
			files, _ := filepath.Glob(filepath.Join(*corpus, "*.txt"))
			sort.Strings(files)
			for _, f := range files {
				cs := readCases(f)
				cases = append(cases, cs...)
				nCorpus += len(cs)
			}
		}
	default:
		fmt.Fprintln(os.Stderr, "unknown mode", mode)
		os.Exit(2)
	}

	scriptF := mustCreate(filepath.Join(*dir, ifExec(mode, "script.replayed.txt", "script.txt")))
	modelF := mustCreate(filepath.Join(*dir, "model_in.txt"))
	implF := mustCreate(filepath.Join(*dir, "impl.out"))
	oracleF := mustCreate(filepath.Join(*dir, "oracle.jsonl"))
	if *tier == "thorough" {
		runBudget = 15 * time.Minute
	}
	st := &Stats{Property: id, Seed: *seed, Tier: *tier, Rule: p.Rule, Distribution: map[string]int{}, CorpusCases: nCorpus}
	seen := map[[32]byte]bool{}
	idx := 0
	process := func(lines []string) {
		idx++
		c := runCase(p, idx, lines)
		fmt.Fprintf(scriptF, "#case %d\n", idx)
		for _, l := range lines {
			fmt.Fprintln(scriptF, oneLine(l))
		}
		fmt.Fprintf(modelF, "#case %d\n", idx)
		fmt.Fprintf(implF, "#case %d\n", idx)
		for i := range c.modelIn {
			fmt.Fprintln(modelF, c.modelIn[i])
			fmt.Fprintln(implF, c.implOut[i])
		}
		st.Lines += len(c.modelIn)
		oracleFailures += len(c.oracle)
		for _, o := range c.oracle {
			o.Property, o.Case, o.Script = id, idx, lines
			b, _ := json.Marshal(o)
			oracleF.Write(append(b, '\n'))
			st.OracleFailures++
		}
		for k, v := range c.stats {
			st.Distribution[k] += v
		}
		st.Evaluations++
		h := sha256.Sum256([]byte(strings.Join(lines, "\n")))
		nt := len(lines) > 0
		if p.NonTrivial != nil {
			nt = p.NonTrivial(lines)
		}
		if nt && !seen[h] {
			seen[h] = true
			st.DistinctNonTrivial++
		}
		if len(st.Samples) < 3 || (len(st.Samples) < 6 && idx%97 == 0) {
			s := lines
			if len(s) > 12 {
				s = append(append([]string{}, s[:12]...), fmt.Sprintf("... (%d more lines)", len(lines)-12))
			}
			for i, l := range s {
				if len(l) > 400 {
					s2 := append([]string{}, s...)
					s2[i] = l[:400] + "…"
					s = s2
				}
			}
			st.Samples = append(st.Samples, s)
		}
	}
	for _, cs := range cases {
		process(cs)
	}
	if mode == "run" {
		g := &Gen{Rng: NewRng(*seed), Tier: *tier, Seed: *seed, emit: process}
		p.Gen(g)
	}
	st.WallS = time.Since(start).Seconds()
	scriptF.Close()
	modelF.Close()
	implF.Close()
	oracleF.Close()
	b, _ := json.MarshalIndent(st, "", " ")
	os.WriteFile(filepath.Join(*dir, "stats.json"), b, 0o644)
}

func ifExec(mode, a, b string) string {
	if mode == "exec" {
		return a
	}
	return b
}

type outFile struct {
	*bufio.Writer
	f *os.File
}

func (o *outFile) Close() { o.Flush(); o.f.Close() }

func mustCreate(path string) *outFile {
	f, err := os.Create(path)
	if err != nil {
		panic(err)
	}
	return &outFile{Writer: bufio.NewWriterSize(f, 1<<20), f: f}
}

func readCases(path string) [][]string {
	f, err := os.Open(path)
	if err != nil {
		fmt.Fprintln(os.Stderr, "cannot read", path, err)
		os.Exit(2)
	}
	defer f.Close()
	var cases [][]string
	var cur []string
	started := false
	sc := bufio.NewScanner(f)
	sc.Buffer(make([]byte, 1<<20), 1<<28)
	for sc.Scan() {
		l := sc.Text()
		if strings.HasPrefix(l, "#case") {
			if started {
				cases = append(cases, cur)
			}
			cur, started = nil, true
			continue
		}
		if strings.HasPrefix(l, "##") { // comment in corpus files
			continue
		}
		started = true
		cur = append(cur, l)
	}
	if started {
		cases = append(cases, cur)
	}
	return cases
}
