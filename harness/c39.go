package main

import (
	"bytes"
	"encoding/json"
	"fmt"
	"hash/fnv"
	"math"
	"math/big"
	"strconv"
	"strings"
	"sync"
	"sync/atomic"
	"time"

	"github.com/Query-farm/vgi-rpc-go/vgirpc"
)

// C39 — access-log sampling and async emission lose nothing silently.
//
// One AccessLogHook per case, writing to a gated io.Writer. Script ops:
//
//	hook <rate|none> <q|sync>            NewAccessLogHook; SetSampleRate(rate) unless none; SetAsync(q) unless sync
//	emit <id> <status> <sid> <rid> [extras]   AccessLogHook.emit on a record {n:id,status,stream_id,request_id,…};
//	                                     field tokens: - absent | n non-string (7) | t true | f false | i<int> | x<hex> string;
//	                                     extras: - | x<key>:<field>,… = every other key of the record (trace_id,
//	                                     span_id, method, principal, arbitrary names) — they vary freely between
//	                                     records that share a stream id / request id
//	w                                    let the writer goroutine's current Write return (it then eagerly
//	                                     receives the next queued record / exits when closed and empty)
//	drain                                repeat w while allowed
//	close                                asyncEmitter.close() (in a goroutine: it waits for the drain)
//	hclose                               AccessLogHook.Close(): open the gate, close, drain; later emits are synchronous
//
// Scheduling discipline that makes every observation deterministic: in async mode the harness first
// enqueues a primer record (id 0) and waits until the writer goroutine is inside Write holding it; from
// then on, while the emitter is open, `w` is honoured only if another record is queued (the writer is
// never idle while records can still arrive). After close the writer may run dry and exit.
//
// Observation per line: q=<len(ch)> p=<dropped> c=<closed> d=<writer exited> h=<id in the writer's hand>
// out=<records written since the previous line, id:dropped_records:sample_rate(-|r|bad)>.

func init() {
	Register(&Prop{
		ID: "C39",
		Rule: "hooks with sampling rates steered to FNV-1a hashes of the key pool (thr = h-1,h,h+1), 0, 1, tiny, invalid (NaN/neg/>1); " +
			"records over a small pool of stream/request ids with string/non-string/empty/absent fields and ok/error/odd statuses, " +
			"each carrying independently varied other keys (trace_id, span_id, method, principal, look-alike id keys, values drawn from the same id pool) " +
			"and the rest of the record schema with typed values (cancelled true/false, http_status, method_type, authenticated, error_type, status-like look-alikes); " +
			"async queues of capacity 1..5 (and <=0 -> default) under random emit/w/close/drain/hclose schedules with a gated writer; " +
			"thorough adds every schedule of length <=7 over {emit,emit-err,w,close} for capacities 1 and 2. " +
			"non-trivial = at least one emit on a hook with an active sampler or an async queue; distinct = distinct scripts",
		Gen:  c39Gen,
		Exec: c39Exec,
		NonTrivial: func(lines []string) bool {
			if len(lines) == 0 {
				return false
			}
			f := strings.Fields(lines[0])
			if len(f) != 3 || f[0] != "hook" || (f[1] == "none" && f[2] == "sync") {
				return false
			}
			for _, l := range lines[1:] {
				if strings.HasPrefix(l, "emit ") {
					return true
				}
			}
			return false
		},
	})
}

// ---------------------------------------------------------------- generator

var c39Keys = []string{"a", "b", "ab", "s1", "s2", "00000000000000000000000000000001", "ffffffffffffffffffffffffffffffff",
	"req-1", "req-2", "é", "k k", "error", "0", "z"}

func c39Fnv(s string) uint32 {
	h := fnv.New32a()
	h.Write([]byte(s))
	return h.Sum32()
}

func c39RateTok(r *Rng) string {
	switch r.Intn(20) {
	case 0:
		return Pick(r, []string{"nan", "-0.5", "2", "100", "1.0000000000000002", "inf", "-inf", "-5e-324", "-1"})
	case 1, 5:
		return Pick(r, []string{"1", "0", "0", "-0", "5e-324", "0.9999999999999999", "1e-10"})
	case 2, 3:
		return Pick(r, []string{"0.5", "0.1", "0.25", "0.9", "0.01", "0.75"})
	case 4:
		return strconv.FormatFloat(float64(r.U64()>>11)/float64(uint64(1)<<53), 'g', -1, 64)
	default:
		// steer the threshold onto / next to the hash of a pool key
		h := int64(c39Fnv(Pick(r, c39Keys)))
		t := h + int64(r.Range(-1, 1))
		if t < 0 {
			t = 0
		}
		if t > math.MaxUint32-1 {
			t = math.MaxUint32 - 1
		}
		return strconv.FormatFloat((float64(t)+0.5)/float64(math.MaxUint32), 'g', -1, 64)
	}
}

func c39FieldTok(r *Rng, pool []string) string {
	switch x := r.Intn(100); {
	case x < 62:
		return XS(Pick(r, pool))
	case x < 80:
		return "-"
	case x < 88:
		return "n"
	case x < 95:
		return XS("")
	default:
		return X(r.Bytes(r.Range(1, 6)))
	}
}

func c39StatusTok(r *Rng) string {
	switch x := r.Intn(100); {
	case x < 60:
		return XS("ok")
	case x < 88:
		return XS("error")
	case x < 92:
		return XS("Error")
	case x < 95:
		return "-"
	case x < 97:
		return "n"
	default:
		return XS(Pick(r, []string{"", "errors", "erro", "ERROR", "ok "}))
	}
}

// every other key a record may carry: the sampler and the emitter must not look at any of them.
// (status / stream_id / request_id are the three positional fields; n is the harness label;
// sample_rate and dropped_records are the two keys the code itself writes.)
var c39ExtraKeys = []string{"trace_id", "span_id", "method", "method_type", "principal", "server_id", "protocol", "remote_addr",
	"call_id", "id", "key", "StreamID", "stream-id", "streamid", "Stream_Id", "requestId", "request-id", "error_type", "message",
	"parent_id", "session_id", "traceparent", "timestamp", "é"}

func c39Extras(r *Rng, pool []string) string {
	if r.Chance(12) {
		return "-"
	}
	used := map[string]bool{}
	var parts []string
	add := func(k string) {
		if used[k] {
			return
		}
		used[k] = true
		var v string
		switch x := r.Intn(100); {
		case x < 45:
			v = XS(Pick(r, pool)) // collides with the ids other records are keyed on
		case x < 80:
			v = X([]byte(fmt.Sprintf("%016x", r.U64())))
		case x < 88:
			v = "n"
		case x < 94:
			v = XS("")
		default:
			v = XS(Pick(r, c39Keys))
		}
		parts = append(parts, XS(k)+":"+v)
	}
	addTyped := func(k, v string) {
		if !used[k] {
			used[k] = true
			parts = append(parts, XS(k)+":"+v)
		}
	}
	// the rest of the access-log record schema, every field varied independently inside a key group:
	// booleans, numbers and status-like strings on non-error records must not change their fate
	if r.Chance(45) {
		addTyped("cancelled", Pick(r, []string{"t", "t", "f", XS("true"), "i1"}))
	}
	if r.Chance(30) {
		addTyped("http_status", Pick(r, []string{"i200", "i400", "i500", "i0", XS("500")}))
	}
	if r.Chance(30) {
		addTyped("method_type", XS(Pick(r, []string{"unary", "stream", "error"})))
	}
	if r.Chance(25) {
		addTyped("authenticated", Pick(r, []string{"t", "f"}))
	}
	if r.Chance(25) {
		addTyped("error_type", XS(Pick(r, []string{"", "ValueError", "error"})))
	}
	if r.Chance(20) {
		addTyped(Pick(r, []string{"error_message", "level", "truncated", "error", "failed", "is_error", "Status", "STATUS", "state", "duration_ms", "request_bytes", "original_request_bytes", "claims"}),
			Pick(r, []string{"t", "f", "i0", "i1", "n", XS("error"), XS("ERROR"), XS("payload_omitted")}))
	}
	// trace_id / span_id vary on (almost) every record, like on a real server with tracing on
	if r.Chance(85) {
		add("trace_id")
	}
	if r.Chance(70) {
		add("span_id")
	}
	for i, n := 0, r.Intn(4); i < n; i++ {
		add(Pick(r, c39ExtraKeys))
	}
	if len(parts) == 0 {
		return "-"
	}
	return strings.Join(parts, ",")
}

func c39Emit(r *Rng, id int, pool []string) string {
	return fmt.Sprintf("emit %d %s %s %s %s", id, c39StatusTok(r), c39FieldTok(r, pool), c39FieldTok(r, pool), c39Extras(r, pool))
}

func c39Gen(g *Gen) {
	r := g.Rng
	// (1) synchronous hooks: the sampler alone
	for i, n := 0, g.N(500, 6000); i < n; i++ {
		pool := []string{Pick(r, c39Keys), Pick(r, c39Keys), Pick(r, c39Keys), Pick(r, c39Keys)}
		lines := []string{fmt.Sprintf("hook %s sync", c39RateTok(r))}
		for k, m := 0, r.Range(4, 40); k < m; k++ {
			lines = append(lines, c39Emit(r, k+1, pool))
		}
		g.Case(lines...)
	}
	// (2) async queues, with and without sampling
	for i, n := 0, g.N(900, 12000); i < n; i++ {
		pool := []string{Pick(r, c39Keys), Pick(r, c39Keys), Pick(r, c39Keys)}
		rate := "none"
		if r.Chance(40) {
			rate = c39RateTok(r)
		}
		q := Pick(r, []int{1, 1, 2, 2, 3, 5})
		if r.Chance(4) {
			q = Pick(r, []int{0, -1, -1000})
		}
		lines := []string{fmt.Sprintf("hook %s %d", rate, q)}
		id := 0
		closed := false
		for k, m := 0, r.Range(3, 45); k < m; k++ {
			switch x := r.Intn(100); {
			case x < 58:
				id++
				if rate == "none" && r.Chance(70) {
					lines = append(lines, fmt.Sprintf("emit %d %s - -", id, c39StatusTok(r)))
				} else {
					lines = append(lines, c39Emit(r, id, pool))
				}
			case x < 88:
				lines = append(lines, "w")
			case x < 93:
				lines = append(lines, "drain")
			case x < 97:
				lines = append(lines, "close")
				closed = true
			default:
				if !closed && r.Chance(50) {
					lines = append(lines, "hclose")
					closed = true
				}
			}
		}
		if r.Chance(85) {
			if r.Bool() {
				lines = append(lines, "close", "drain")
			} else {
				lines = append(lines, "hclose")
			}
		}
		g.Case(lines...)
	}
	// (3) malformed / out-of-protocol lines
	for i, n := 0, g.N(40, 300); i < n; i++ {
		lines := []string{}
		if r.Bool() {
			lines = append(lines, fmt.Sprintf("hook %s %s", c39RateTok(r), Pick(r, []string{"sync", "1", "2"})))
		}
		for k, m := 0, r.Range(1, 6); k < m; k++ {
			lines = append(lines, Pick(r, []string{"w", "drain", "close", "hclose", "emit 1 x6f6b - -", "emit 2 x6572726f72 x61 x62"}))
		}
		g.Case(lines...)
	}
	if g.Thorough() {
		alpha := []string{"E", "X", "w", "close"}
		for _, q := range []int{1, 2} {
			var rec func(prefix []string, depth int)
			rec = func(prefix []string, depth int) {
				if depth == 0 {
					lines := []string{fmt.Sprintf("hook none %d", q)}
					for i, a := range prefix {
						switch a {
						case "E":
							lines = append(lines, fmt.Sprintf("emit %d x6f6b - -", i+1))
						case "X":
							lines = append(lines, fmt.Sprintf("emit %d x6572726f72 - -", i+1))
						default:
							lines = append(lines, a)
						}
					}
					g.Case(append(lines, "close", "drain")...)
					return
				}
				for _, a := range alpha {
					rec(append(append([]string{}, prefix...), a), depth-1)
				}
			}
			for d := 1; d <= 7; d++ {
				rec(nil, d)
			}
		}
	}
}

// ---------------------------------------------------------------- gated writer

type c39Writer struct {
	mu      sync.Mutex
	lines   [][]byte
	gating  atomic.Bool
	gate    chan struct{}
	opened  bool
	picks   atomic.Int64
	wrotes  atomic.Int64
	holding atomic.Int64
}

func newC39Writer() *c39Writer {
	w := &c39Writer{gate: make(chan struct{}, 1<<16)}
	w.holding.Store(-1)
	return w
}

func (w *c39Writer) Write(p []byte) (int, error) {
	var m struct {
		N int64 `json:"n"`
	}
	m.N = -2
	_ = json.Unmarshal(p, &m)
	w.holding.Store(m.N)
	w.picks.Add(1)
	if w.gating.Load() {
		<-w.gate
	}
	w.mu.Lock()
	w.lines = append(w.lines, append([]byte(nil), p...))
	w.mu.Unlock()
	w.holding.Store(-1)
	w.wrotes.Add(1)
	return len(p), nil
}

// open lets every current and future Write through.
func (w *c39Writer) open() {
	w.gating.Store(false)
	if !w.opened {
		w.opened = true
		close(w.gate)
	}
}

// c39Blocked counts emits that blocked in this process. A healthy emit returns in microseconds;
// once three have hung for the full 3 s the verdict is settled and later cases only wait 150 ms,
// so a run against a blocking emitter still finishes in reasonable time.
var c39Blocked atomic.Int64

func c39BlockTimeout() time.Duration {
	if c39Blocked.Load() >= 3 {
		return 150 * time.Millisecond
	}
	return 3 * time.Second
}

func c39StateWait() time.Duration {
	if c39Blocked.Load() >= 3 {
		return 150 * time.Millisecond
	}
	return 2 * time.Second
}

func c39Wait(cond func() bool) bool {
	deadline := time.Now().Add(5 * time.Second)
	for i := 0; !cond(); i++ {
		if time.Now().After(deadline) {
			return false
		}
		if i < 200 {
			time.Sleep(5 * time.Microsecond)
		} else {
			time.Sleep(200 * time.Microsecond)
		}
	}
	return true
}

// ---------------------------------------------------------------- exec

type c39Event struct {
	id      int64
	isErr   bool
	ident   string
	hasID   bool
	outcome string // accepted | dropped | sampled | discarded | direct
}

type c39Env struct {
	c        *Case
	h        *vgirpc.AccessLogHook
	w        *c39Writer
	em       *vgirpc.VerifC39Emitter
	rate     float64
	sampling bool
	// what the caller asked for through SetSampleRate, independent of what the hook installed
	askedRate   float64
	askedValid  bool // a rate in [0, 1] was passed
	reported int
	events   []c39Event
	aborted  bool
	closeWG  sync.WaitGroup
}

func c39ParseRate(tok string) (float64, bool) {
	switch tok {
	case "nan":
		return math.NaN(), true
	case "-0":
		return math.Copysign(0, -1), true
	}
	f, err := strconv.ParseFloat(tok, 64)
	if err != nil && !math.IsInf(f, 0) {
		return 0, false
	}
	return f, true
}

func c39FieldVal(tok string) (any, bool, bool) { // value, present, ok
	switch {
	case tok == "-":
		return nil, false, true
	case tok == "n":
		return 7, true, true
	case tok == "t":
		return true, true, true
	case tok == "f":
		return false, true, true
	case len(tok) > 1 && tok[0] == 'i':
		n, err := strconv.Atoi(tok[1:])
		return n, true, err == nil
	default:
		b, ok := UnX(tok)
		return string(b), true, ok
	}
}

func (e *c39Env) state() (q, capacity int, p int64, closed, done bool) {
	q, capacity, p, closed, done, stuck := e.em.State(c39StateWait())
	if stuck {
		c39Blocked.Add(1)
		e.c.Oracle("enqueue-blocked", "the emitter's mutex stayed held (2 s): an enqueue arriving now would block")
		e.abort()
	}
	return q, capacity, p, closed, done
}

func (e *c39Env) abort() {
	e.aborted = true
	e.w.open()
}

// summary renders the canonical observation and consumes the newly written lines.
func (e *c39Env) summary() string {
	e.w.mu.Lock()
	lines := e.w.lines[e.reported:]
	e.reported = len(e.w.lines)
	e.w.mu.Unlock()
	outs := []string{}
	for _, ln := range lines {
		outs = append(outs, e.canon(ln))
	}
	out := "-"
	if len(outs) > 0 {
		out = strings.Join(outs, ",")
	}
	if e.em == nil {
		return "q=- p=- c=- d=- h=- out=" + out
	}
	q, _, p, closed, done := e.state()
	hand := "-"
	if h := e.w.holding.Load(); h >= 0 {
		hand = strconv.FormatInt(h, 10)
	}
	b := func(x bool) string {
		if x {
			return "1"
		}
		return "0"
	}
	return fmt.Sprintf("q=%d p=%d c=%s d=%s h=%s out=%s", q, p, b(closed), b(done), hand, out)
}

type c39Line struct {
	id      int64
	dropped int64
	hasDrop bool
	sr      string
	status  any
}

func c39ParseLine(ln []byte, rate float64, sampling bool) (c39Line, error) {
	var m map[string]any
	dec := json.NewDecoder(bytes.NewReader(ln))
	dec.UseNumber()
	if err := dec.Decode(&m); err != nil {
		return c39Line{}, err
	}
	var out c39Line
	if n, ok := m["n"].(json.Number); ok {
		out.id, _ = n.Int64()
	} else {
		return out, fmt.Errorf("no n field")
	}
	if d, ok := m["dropped_records"]; ok {
		out.hasDrop = true
		if n, ok := d.(json.Number); ok {
			v, err := n.Int64()
			if err != nil {
				return out, fmt.Errorf("dropped_records not an integer: %v", d)
			}
			out.dropped = v
		} else {
			return out, fmt.Errorf("dropped_records not a number: %v", d)
		}
	}
	out.sr = "-"
	if s, ok := m["sample_rate"]; ok {
		out.sr = "bad"
		if n, ok := s.(json.Number); ok && sampling {
			if f, err := n.Float64(); err == nil && f == rate {
				out.sr = "r"
			}
		}
	}
	out.status = m["status"]
	return out, nil
}

func (e *c39Env) canon(ln []byte) string {
	if !bytes.HasSuffix(ln, []byte("\n")) || bytes.Count(ln, []byte("\n")) != 1 {
		e.c.Oracle("not-one-json-line", fmt.Sprintf("written chunk is not exactly one line: %q", ln))
	}
	p, err := c39ParseLine(ln, e.rate, e.sampling)
	if err != nil {
		e.c.Oracle("not-one-json-line", fmt.Sprintf("written line does not parse: %v: %q", err, ln))
		return "unparsable"
	}
	return fmt.Sprintf("%d:%d:%s", p.id, p.dropped, p.sr)
}

// settle waits until the writer goroutine has reached its next stable point: holding a record
// inside Write (if one was available), or exited (if closed and empty).
func (e *c39Env) settleAfterWrite(prevPicks, prevWrotes int64, hadQueued, closed bool) {
	if !c39Wait(func() bool { return e.w.wrotes.Load() == prevWrotes+1 }) {
		e.c.Oracle("writer-stalled", "released write did not complete within 5 s")
		e.abort()
		return
	}
	if hadQueued {
		if !c39Wait(func() bool { return e.w.picks.Load() == prevPicks+1 }) {
			e.c.Oracle("writer-stalled", "a queued record was not picked up by the writer within 5 s")
			e.abort()
		}
	} else if closed {
		e.waitDone()
	}
}

func (e *c39Env) waitDone() {
	ok := c39Wait(func() bool {
		_, _, _, _, done, _ := e.em.State(c39StateWait())
		return done
	})
	if !ok {
		e.c.Oracle("close-never-completes", "emitter closed and empty, but the writer goroutine did not exit within 5 s")
		e.abort()
	}
}

// releaseOne implements `w`. Returns false when the step is not allowed by the discipline.
func (e *c39Env) releaseOne() bool {
	if e.em == nil || e.w.holding.Load() < 0 {
		return false
	}
	q, _, _, closed, _ := e.state()
	if e.aborted {
		return false
	}
	if q == 0 && !closed {
		return false
	}
	p0, w0 := e.w.picks.Load(), e.w.wrotes.Load()
	e.w.gate <- struct{}{}
	e.settleAfterWrite(p0, w0, q > 0, closed)
	return true
}

func c39Exec(c *Case) {
	e := &c39Env{c: c}
	defer func() {
		if e.w != nil {
			e.w.open()
		}
		if e.h != nil {
			e.h.Close()
		}
		e.closeWG.Wait()
	}()
	for _, l := range c.Lines {
		if e.aborted {
			break
		}
		f := strings.Fields(l)
		if len(f) == 0 {
			continue
		}
		if f[0] == "hook" && len(f) == 3 && e.h == nil {
			e.doHook(l, f)
			continue
		}
		if e.h == nil {
			if f[0] == "hook" {
				c.Out(l, "bad-op")
			} else {
				c.Out(l, "err:no-hook")
			}
			continue
		}
		switch {
		case f[0] == "emit" && (len(f) == 5 || len(f) == 6):
			e.doEmit(l, f)
		case l == "w":
			if e.releaseOne() {
				c.Stat("w")
				c.Out(l, e.summary())
			} else if !e.aborted {
				c.Stat("w-idle")
				c.Out(l, "idle")
			}
		case l == "drain":
			for e.releaseOne() {
			}
			if !e.aborted {
				c.Out(l, e.summary())
			}
		case l == "close":
			if e.em == nil {
				c.Out(l, "idle")
				continue
			}
			e.doClose()
			if !e.aborted {
				c.Stat("close")
				c.Out(l, e.summary())
			}
		case l == "hclose":
			if e.em == nil {
				c.Out(l, "idle")
				continue
			}
			e.w.open()
			done := make(chan struct{})
			go func() { e.h.Close(); close(done) }()
			select {
			case <-done:
			case <-time.After(5 * time.Second):
				c.Oracle("close-never-completes", "AccessLogHook.Close did not return within 5 s with an unobstructed writer")
				e.abort()
				continue
			}
			e.waitDone()
			if e.aborted {
				continue
			}
			c.Stat("hclose")
			s := e.summary()
			e.finishAsync()
			e.em = nil
			c.Out(l, s+" retired")
		default:
			c.Out(l, "bad-op")
		}
	}
	// end of case: drain whatever is left and check the accounting on the real log
	if e.em != nil && !e.aborted {
		e.w.open()
		done := make(chan struct{})
		em := e.em
		go func() { em.Close(); close(done) }()
		select {
		case <-done:
			e.waitDone()
			if !e.aborted {
				e.finishAsync()
			}
		case <-time.After(5 * time.Second):
			c.Oracle("close-never-completes", "asyncEmitter.close did not return within 5 s with an unobstructed writer")
		}
	}
	e.samplerOracle()
}

func (e *c39Env) doHook(l string, f []string) {
	c := e.c
	var rate float64
	hasRate := f[1] != "none"
	if hasRate {
		r, ok := c39ParseRate(f[1])
		if !ok {
			c.Out(l, "bad-op")
			return
		}
		rate = r
	}
	qTok := f[2]
	q := 0
	if qTok != "sync" {
		n, err := strconv.Atoi(qTok)
		if err != nil {
			c.Out(l, "bad-op")
			return
		}
		q = n
	}
	e.w = newC39Writer()
	e.h = vgirpc.NewAccessLogHook(e.w, "")
	rs, bitsTok, thrTok := "-", "none", "-"
	if hasRate {
		bitsTok = strconv.FormatUint(math.Float64bits(rate), 10)
		if err := e.h.SetSampleRate(rate); err != nil {
			rs = "err"
			c.Stat("rate-refused")
		} else {
			rs = "ok"
		}
		if rt, thr, ok := e.h.VerifC39Sampler(); ok {
			thrTok = strconv.FormatUint(uint64(thr), 10)
			e.rate, e.sampling = rate, true
			c.Stat("sampler-active")
			if rt != rate && !(math.IsNaN(rt) && math.IsNaN(rate)) {
				c.Oracle("sampler-rate-differs", fmt.Sprintf("SetSampleRate(%v) installed a sampler with rate %v", rate, rt))
			}
			// independent check of the threshold: floor(rate * (2^32-1)), one unit of slack for float rounding
			if !math.IsNaN(rate) && rate >= 0 && rate <= 1 {
				want := new(big.Float).SetPrec(200).Mul(new(big.Float).SetPrec(200).SetFloat64(rate), new(big.Float).SetPrec(200).SetInt64(math.MaxUint32))
				wi, _ := want.Int(nil)
				d := new(big.Int).Sub(wi, new(big.Int).SetUint64(uint64(thr)))
				if d.Abs(d).Cmp(big.NewInt(2)) > 0 {
					c.Oracle("threshold-not-rate", fmt.Sprintf("rate %v gives threshold %d, expected about %s", rate, thr, wi))
				}
			}
		}
		if !math.IsNaN(rate) && rate >= 0 && rate <= 1 {
			e.askedRate, e.askedValid = rate, true
			// a rate below 1 asks for sampling: the setter must have installed a sampler with that rate
			if rate < 1 && !e.sampling {
				c.Oracle("sampler-not-installed", fmt.Sprintf("SetSampleRate(%v) succeeded but the hook samples nothing", rate))
			}
		}
		// the validity rule stated directly: NaN, <0, >1 must be refused; everything else accepted
		bad := math.IsNaN(rate) || rate < 0 || rate > 1
		if bad != (rs == "err") {
			c.Oracle("rate-validation", fmt.Sprintf("SetSampleRate(%v) error=%v", rate, rs == "err"))
		}
	}
	asyncTok := "-"
	if qTok != "sync" {
		if err := e.h.SetAsync(q); err != nil {
			c.Out(l, "err:async")
			e.aborted = true
			return
		}
		e.em = e.h.VerifC39Emitter()
		_, capacity, _, _, _ := e.state()
		asyncTok = strconv.Itoa(capacity)
		c.Stat("async")
	}
	sm := "0"
	if e.sampling {
		sm = "1"
	}
	c.Out(fmt.Sprintf("hook %s %s %s", bitsTok, thrTok, qTok), fmt.Sprintf("ok rate=%s sampler=%s async=%s", rs, sm, asyncTok))
	if e.em != nil {
		// primer: park the writer goroutine inside Write
		e.w.gating.Store(true)
		p0 := e.w.picks.Load()
		e.em.Enqueue(map[string]any{"n": 0, "status": "ok"})
		if !c39Wait(func() bool { return e.w.picks.Load() == p0+1 }) {
			c.Oracle("writer-stalled", "primer record was not picked up by the writer goroutine within 5 s")
			e.abort()
			return
		}
		e.events = append(e.events, c39Event{id: 0, outcome: "accepted"})
		c.Out("prime", e.summary())
	}
}

func (e *c39Env) doEmit(l string, f []string) {
	c := e.c
	id, err := strconv.ParseInt(f[1], 10, 64)
	if err != nil || id < 0 {
		c.Out(l, "bad-op")
		return
	}
	rec := map[string]any{"n": id}
	ev := c39Event{id: id}
	names := []string{"status", "stream_id", "request_id"}
	vals := make([]any, 3)
	for i, tok := range f[2:5] {
		v, present, ok := c39FieldVal(tok)
		if !ok {
			c.Out(l, "bad-op")
			return
		}
		if present {
			rec[names[i]] = v
			vals[i] = v
		}
	}
	if len(f) == 6 && f[5] != "-" {
		for _, p := range strings.Split(f[5], ",") {
			kv := strings.Split(p, ":")
			if len(kv) != 2 {
				c.Out(l, "bad-op")
				return
			}
			k, ok := UnX(kv[0])
			v, present, ok2 := c39FieldVal(kv[1])
			if !ok || !ok2 || !present {
				c.Out(l, "bad-op")
				return
			}
			switch string(k) {
			case "n", "status", "stream_id", "request_id", "sample_rate", "dropped_records":
				c.Out(l, "bad-op")
				return
			}
			rec[string(k)] = v
		}
		c.Stat("emit-with-extras")
	}
	ev.isErr = vals[0] == any("error")
	for _, v := range vals[1:] {
		if s, ok := v.(string); ok && s != "" {
			ev.ident, ev.hasID = s, true
			break
		}
	}
	var q0 int
	var p0 int64
	var closed0 bool
	if e.em != nil {
		q0, _, p0, closed0, _ = e.state()
		if e.aborted {
			return
		}
	}
	w0 := e.w.wrotes.Load()
	done := make(chan struct{})
	go func() { e.h.VerifC39Emit(rec); close(done) }()
	select {
	case <-done:
	case <-time.After(c39BlockTimeout()):
		c39Blocked.Add(1)
		c.Oracle("enqueue-blocked", fmt.Sprintf("emit %q did not return within %s while the writer was stalled", l, c39BlockTimeout()))
		c.Out(l, "blocked")
		e.abort()
		<-done
		return
	}
	if e.em == nil {
		if e.w.wrotes.Load() == w0+1 {
			ev.outcome = "direct"
		} else {
			ev.outcome = "sampled"
		}
	} else {
		q1, capacity, p1, _, _ := e.state()
		if e.aborted {
			return
		}
		switch {
		case closed0:
			ev.outcome = "discarded"
			if q1 != q0 || p1 != p0 {
				c.Oracle("enqueue-after-close-not-discarded", fmt.Sprintf("%q after close changed the emitter (q %d->%d, dropped %d->%d)", l, q0, q1, p0, p1))
			}
		case q1 == q0+1:
			ev.outcome = "accepted"
		case p1 == p0+1 && q1 == q0:
			ev.outcome = "dropped"
		default:
			ev.outcome = "sampled"
		}
		if q1 > capacity {
			c.Oracle("queue-over-capacity", fmt.Sprintf("queue holds %d > capacity %d", q1, capacity))
		}
		if ev.outcome == "dropped" && q0 < capacity {
			c.Oracle("dropped-though-room", fmt.Sprintf("%q counted as dropped with %d/%d queued", l, q0, capacity))
		}
	}
	c.Stat("emit-" + ev.outcome)
	e.events = append(e.events, ev)
	c.Out(l, e.summary())
}

func (e *c39Env) doClose() {
	e.closeWG.Add(1)
	em := e.em
	go func() { defer e.closeWG.Done(); em.Close() }()
	ok := c39Wait(func() bool {
		_, _, _, closed, _, stuck := e.em.State(c39StateWait())
		return closed || stuck
	})
	if !ok {
		e.c.Oracle("close-never-completes", "close() did not set the closed flag within 5 s")
		e.abort()
		return
	}
	q, _, _, _, _ := e.state()
	if e.aborted {
		return
	}
	if q == 0 && e.w.holding.Load() < 0 {
		e.waitDone()
	}
}

// finishAsync: the emitter is closed and its writer has exited. The property, on the real log:
// every record accepted by the queue is written once, in order; a run of queue-full drops is
// reported exactly by the dropped_records of the next written record; records with no drops
// before them carry none; the trailing run is what the emitter still holds as pending.
func (e *c39Env) finishAsync() {
	c := e.c
	e.w.mu.Lock()
	lines := append([][]byte(nil), e.w.lines...)
	e.w.mu.Unlock()
	_, _, pending, _, _ := e.state()
	var written []c39Line
	for _, ln := range lines {
		p, err := c39ParseLine(ln, e.rate, e.sampling)
		if err != nil {
			return // reported by canon
		}
		written = append(written, p)
	}
	i := 0
	run := int64(0)
	for _, ev := range e.events {
		switch ev.outcome {
		case "dropped":
			run++
		case "accepted":
			if i >= len(written) {
				c.Oracle("record-lost-unaccounted", fmt.Sprintf("record %d entered the queue before close but was never written (log has %d lines)", ev.id, len(written)))
				return
			}
			wl := written[i]
			i++
			if wl.id != ev.id {
				c.Oracle("record-lost-unaccounted", fmt.Sprintf("log line %d is record %d, expected record %d (order/loss/duplication)", i, wl.id, ev.id))
				return
			}
			if wl.dropped != run || (run == 0 && wl.hasDrop) {
				c.Oracle("dropped-count-wrong", fmt.Sprintf("record %d written with dropped_records=%d (present=%v) after a run of %d drops", ev.id, wl.dropped, wl.hasDrop, run))
				return
			}
			run = 0
		}
	}
	if i != len(written) {
		c.Oracle("record-lost-unaccounted", fmt.Sprintf("log has %d lines but only %d records entered the queue", len(written), i))
	}
	if pending != run {
		c.Oracle("trailing-drops-lost", fmt.Sprintf("trailing run of %d drops but the emitter holds pending=%d", run, pending))
	}
	c.Stat("async-accounted")
}

// boundaryRateOracle states the two boundary rates directly on the hook-level path
// (SetSampleRate + emit), independently of the model and of the hook's own idea of its sampler:
// rate 0.0 keeps no record but the errors; rate 1.0 keeps everything.
func (e *c39Env) boundaryRateOracle() {
	if !e.askedValid || (e.askedRate != 0 && e.askedRate != 1) {
		return
	}
	c := e.c
	for _, ev := range e.events {
		if ev.outcome == "discarded" || ev.id == 0 {
			continue
		}
		sampled := ev.outcome == "sampled"
		switch {
		case e.askedRate == 0 && !ev.isErr && !sampled:
			c.Oracle("rate-zero-keeps-nonerror", fmt.Sprintf("hook set to sample rate 0.0 kept non-error record %d (%s)", ev.id, ev.outcome))
		case e.askedRate == 0 && ev.isErr && sampled:
			c.Oracle("error-record-sampled", fmt.Sprintf("hook set to sample rate 0.0 dropped error record %d", ev.id))
		case e.askedRate == 1 && sampled:
			c.Oracle("rate-one-drops-record", fmt.Sprintf("hook set to sample rate 1.0 dropped record %d", ev.id))
		}
	}
	c.Stat("boundary-rate")
}

// samplerOracle: errors always kept; same identifier → same fate; kept non-error records carry the rate.
func (e *c39Env) samplerOracle() {
	c := e.c
	e.boundaryRateOracle()
	// judged by what was ASKED for (a valid rate below 1), not by what the hook says it installed
	if !(e.sampling || (e.askedValid && e.askedRate < 1)) {
		return
	}
	if !e.sampling {
		e.rate = e.askedRate
	}
	fate := map[string]string{}
	kept := map[int64]bool{}
	for _, ev := range e.events {
		if ev.outcome == "discarded" || ev.id == 0 {
			continue
		}
		sampled := ev.outcome == "sampled"
		kept[ev.id] = !sampled && !ev.isErr
		if ev.isErr {
			if sampled {
				c.Oracle("error-record-sampled", fmt.Sprintf("error record %d was dropped by the sampler (rate %v)", ev.id, e.rate))
			}
			continue
		}
		if !ev.hasID {
			continue
		}
		cur := "kept"
		if sampled {
			cur = "sampled"
		}
		if prev, ok := fate[ev.ident]; ok && prev != cur {
			c.Oracle("same-key-different-fate", fmt.Sprintf("records sharing identifier %q: one %s, record %d %s", ev.ident, prev, ev.id, cur))
		}
		fate[ev.ident] = cur
	}
	e.w.mu.Lock()
	lines := append([][]byte(nil), e.w.lines...)
	e.w.mu.Unlock()
	for _, ln := range lines {
		p, err := c39ParseLine(ln, e.rate, true)
		if err != nil || p.id == 0 {
			continue
		}
		if kept[p.id] && p.sr != "r" {
			c.Oracle("kept-without-rate", fmt.Sprintf("kept non-error record %d written with sample_rate=%s (rate %v): %s", p.id, p.sr, e.rate, bytes.TrimSpace(ln)))
		}
	}
}
