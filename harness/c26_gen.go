package main

import (
	"encoding/json"
	"fmt"
	"strings"
)

const c26Alnum = "ABCDEFGHIJKLMNOPQRSTUVWXYZabcdefghijklmnopqrstuvwxyz0123456789"

func c26Rand(r *Rng, n int, alpha string) string {
	b := make([]byte, n)
	for i := range b {
		b[i] = alpha[r.Intn(len(alpha))]
	}
	return string(b)
}

// c26GenCred draws a subject credential: opaque, JWS-shaped and near misses, length boundaries.
func c26GenCred(r *Rng) string {
	b64 := c26Alnum + "-_"
	seg := func(lo, hi int) string { return c26Rand(r, r.Range(lo, hi), b64) }
	switch r.Intn(20) {
	case 0:
		return seg(1, 30) + "." + seg(1, 30) + "." + seg(1, 30) // JWS
	case 1:
		return "eyJhbGciOiJIUzI1NiJ9." + seg(8, 40) + "." + seg(8, 43) // JWS
	case 2:
		return seg(1, 20) + "." + seg(1, 20) + "." // JWS with empty signature
	case 3:
		return Pick(r, []string{seg(5, 9) + ".." + seg(5, 9), "." + seg(5, 9) + "." + seg(5, 9), seg(5, 9) + "." + seg(5, 9), seg(4, 9) + "." + seg(4, 9) + "." + seg(4, 9) + "." + seg(4, 9),
			seg(5, 9) + "." + seg(5, 9) + "." + seg(3, 5) + "=", seg(5, 9) + "." + seg(5, 9) + "." + seg(3, 5) + "\n", " " + seg(5, 9) + "." + seg(5, 9) + "." + seg(3, 5), seg(5, 9) + "." + seg(3, 5) + "+" + seg(3, 5) + "." + seg(5, 9),
			seg(5, 9) + "." + seg(5, 9) + "." + seg(3, 5) + "\xc3\xa9", seg(5, 9) + "\xef\xbc\x8e" + seg(5, 9) + "\xef\xbc\x8e" + seg(5, 9), seg(5, 9) + "./" + seg(5, 9) + "." + seg(5, 9), "..", ".", "a.b.c", "a.b.", "a..", ".."+seg(5, 9)})
	case 4:
		return c26Rand(r, Pick(r, []int{4095, 4096, 4097, 5000}), c26Alnum)
	case 5:
		// JWS-shaped at the length caps
		n := Pick(r, []int{4096, 4097})
		return c26Rand(r, n-4, b64) + ".a.b"
	case 6:
		return ""
	case 7:
		return c26Rand(r, r.Range(1, 7), c26Alnum)
	case 8:
		return c26Rand(r, r.Range(8, 40), c26Alnum) + Pick(r, []string{" ", "\t", "\"", "\\", "<>&", "é", " ", "\x00", "\x7f", "%2e", "\xff"}) + c26Rand(r, r.Range(8, 20), c26Alnum)
	default:
		return "tok_" + c26Rand(r, r.Range(12, 48), c26Alnum)
	}
}

// c26GenBody wraps a credential into a request body: mostly {"token": ...}, plus the JSON shapes
// and size boundaries readIntrospectToken has to survive.
func c26GenBody(r *Rng, cred string) []byte {
	js, _ := json.Marshal(cred)
	tok := string(js)
	if r.Chance(10) {
		// spell some characters as \u escapes (a JWS can hide behind them)
		var b strings.Builder
		b.WriteByte('"')
		for i := 0; i < len(cred); i++ {
			ch := cred[i]
			if ch < 0x80 && ch >= 0x20 && ch != '"' && ch != '\\' && r.Chance(30) {
				fmt.Fprintf(&b, "\\u%04x", ch)
			} else if ch < 0x20 || ch == '"' || ch == '\\' || ch >= 0x80 {
				b.Reset()
				b.WriteString(tok[:len(tok)-1])
				break
			} else {
				b.WriteByte(ch)
			}
		}
		b.WriteByte('"')
		tok = b.String()
	}
	switch r.Intn(24) {
	case 0:
		return []byte(Pick(r, []string{"", "{", "}", "null", "[]", "42", `"` + cred + `"`, `{"token":`, `{"token":42}`, `{"token":null}`, `{"token":["` + cred + `"]}`, `{"token":{"x":1}}`,
			`{"token":` + tok + `} trailing`, `{"token":` + tok + `}{"token":"x"}`, `{'token':'x'}`, "\xff\xfe", `{"token":true}`, `{"tok":` + tok + `}`, `{}`}))
	case 1:
		return []byte(`{"token":"first-` + c26Rand(r, 12, c26Alnum) + `","token":` + tok + `}`) // duplicate key: last wins
	case 2:
		return []byte(`{"` + Pick(r, []string{"Token", "TOKEN", "tOkEn"}) + `":` + tok + `}`) // case-insensitive key match
	case 3:
		return []byte(`{"other":"` + c26Rand(r, 20, c26Alnum) + `","token":` + tok + `,"claims":{"sub":"x"}}`)
	case 4:
		return []byte(" \n\t{ \"token\" :\n" + tok + " }\n")
	case 5:
		// pad to the body cap with leading whitespace
		core := `{"token":` + tok + `}`
		n := Pick(r, []int{8191, 8192, 8193, 8300, 20000})
		if len(core) < n {
			return []byte(strings.Repeat(" ", n-len(core)) + core)
		}
		return []byte(core)
	case 6:
		core := `{"token":` + tok + `,"pad":"`
		n := Pick(r, []int{8192, 8193})
		if len(core)+2 < n {
			return []byte(core + strings.Repeat("p", n-len(core)-2) + `"}`)
		}
		return []byte(core + `"}`)
	default:
		return []byte(`{"token":` + tok + `}`)
	}
}

// c26GenRes draws the resolver's answer (identity, ok, err) as the full product: ok in {true,false}
// x identity {empty, populated, partially populated} x err {nil, AuthUnavailable, other}.
func c26GenRes(r *Rng) string {
	if r.Chance(15) {
		return Pick(r, []string{"unknown", "unknown", fmt.Sprintf("unavail:%d:%s", Pick(r, []int{0, 7, -1}), XS("timeout")), fmt.Sprintf("id:%s:%s:%d", XS("subject@example"), XS("laptop"), 0)})
	}
	p, n, ttl := "", "", 0
	switch r.Intn(5) {
	case 0: // empty identity
	case 1: // only a principal (an expired / revoked row still naming its owner)
		p = Pick(r, []string{"alice@example", "owner-of-expired-row", "café@example", "<admin>"})
	case 2: // only a name / ttl
		n, ttl = Pick(r, []string{"laptop", "ci token"}), Pick(r, []int{0, 60, -1})
	default:
		p, n, ttl = Pick(r, []string{"subject@example", "svc-account", "bob@example"}), Pick(r, []string{"laptop", "ci token", ""}), Pick(r, []int{0, -1, 1, 60, 3600, 300})
	}
	ok := Pick(r, []string{"0", "1", "1"})
	errk, ra, et := "nil", 0, ""
	switch r.Intn(8) {
	case 0:
		errk, ra, et = "unavail", Pick(r, []int{0, 1, 7, 30, -5}), Pick(r, []string{"credential store unreachable", "timeout", ""})
	case 1:
		errk, et = "other", Pick(r, []string{"boom", "sql: connection refused"})
	}
	return fmt.Sprintf("r:%s:%s:%d:%s:%s:%s:%d", ok, errk, ra, XS(et), XS(p), XS(n), ttl)
}

func c26Gen(g *Gen) {
	r := g.Rng
	for i, n := 0, g.N(900, 15000); i < n; i++ {
		listed := []string{"introspector@example", "proxy-1"}
		var ps []string
		switch r.Intn(8) {
		case 0:
			ps = nil
		case 1:
			ps = []string{""}
		case 2:
			ps = []string{"", "proxy-1"}
		case 3:
			ps = []string{"proxy-1"}
		default:
			ps = listed
		}
		enabled := "1"
		if r.Chance(8) {
			enabled = "0"
		}
		rate := Pick(r, []int{1, 2, 3, 3, 5, 20, 0, -4})
		ttl := Pick(r, []int{0, 300, 60, -1, 900})
		authmode := "func"
		if r.Chance(5) {
			authmode = "none"
		}
		lines := []string{fmt.Sprintf("cfg %s %s %d %d %s", enabled, c26ListX(ps), ttl, rate, authmode)}
		eff := rate
		if eff <= 0 {
			eff = 20
		}
		for k, m := 0, r.Range(1, 6); k < m; k++ {
			auth := ""
			switch r.Intn(12) {
			case 0:
				auth = "anon"
			case 1:
				auth = Pick(r, []string{"fail-value", "fail-unavail", "fail-other"})
			case 2:
				auth = "ok:" + XS(Pick(r, []string{"someone-else", "introspector@example ", "Introspector@example", "", "proxy-2", "proxy-1\x00"}))
			case 3:
				auth = "unauth:" + XS(Pick(r, []string{"introspector@example", "proxy-1", ""}))
			default:
				auth = "ok:" + XS(Pick(r, listed))
			}
			vary := r.Chance(55)
			burst := 1
			if r.Chance(35) {
				burst = eff + r.Range(-1, 2)
				if burst < 1 {
					burst = 1
				}
				if burst > 26 {
					burst = 26
				}
			}
			for b := 0; b < burst; b++ {
				cred := c26GenCred(r)
				body := c26GenBody(r, cred)
				cl := "auto"
				if r.Chance(8) {
					cl = Pick(r, []string{"-1", "0", "8192", "8193", "100000", "1"})
				}
				line := fmt.Sprintf("req %s %s %s %s", auth, cl, X(body), c26GenRes(r))
				if vary {
					// same principal, another transport identity every time: fresh TCP connection
					// (new remote port / address), forwarded-for chain, user agent
					line += fmt.Sprintf(" t:%s:%s:%s",
						XS(Pick(r, []string{fmt.Sprintf("192.0.2.1:%d", 1024+r.Intn(60000)), fmt.Sprintf("198.51.100.%d:%d", r.Intn(255), 1024+r.Intn(60000)), fmt.Sprintf("[2001:db8::%x]:%d", r.Intn(65535), 1024+r.Intn(60000)), ""})),
						XS(Pick(r, []string{"", fmt.Sprintf("203.0.113.%d", r.Intn(255)), fmt.Sprintf("10.0.0.%d, 203.0.113.%d", r.Intn(255), r.Intn(255))})),
						XS(Pick(r, []string{"", "proxy/" + c26Rand(r, 4, c26Alnum), "curl/8." + c26Rand(r, 1, "0123456789")})))
				}
				lines = append(lines, line)
				if r.Chance(6) {
					// another listed caller in the same window: budgets are per caller
					lines = append(lines, fmt.Sprintf("req ok:%s auto %s %s", XS(Pick(r, listed)), X(c26GenBody(r, c26GenCred(r))), c26GenRes(r)))
				}
			}
			if r.Chance(45) {
				lines = append(lines, fmt.Sprintf("shift %d", Pick(r, []int64{int64(c26Window), int64(c26Window) - 60e9, 60e9, int64(c26Window) + 1, 2 * int64(c26Window), 59 * 60e9, 1e9, 30 * 60e9})))
			}
		}
		g.Case(lines...)
	}
}

func c26ListX(xs []string) string {
	if len(xs) == 0 {
		return "-"
	}
	p := make([]string, len(xs))
	for i, s := range xs {
		p[i] = XS(s)
	}
	return strings.Join(p, ",")
}
