package main

import (
	"fmt"
	"strings"
)

// C13 — tokens are bound to the identity and the kind they were minted for.
//
// One case per ordered pair (minting identity I, presenting identity J) drawn from a pool built
// to collide wherever a weakened binding would: anonymous, unauthenticated-with-fields, empty
// domain, empty principal, the ("", "anonymous") identity whose cache-key string equals the
// anonymous one, "ab"/"c" vs "a"/"bc", a principal containing NUL, the same principal in two
// domains, non-ASCII. Kinds: cursor, call, sticky-session; cache warm / cold / evicted /
// disabled; sticky routes: unary, /init, /exchange, DELETE. Executor and grammar: c12_world.go.

func init() {
	Register(&Prop{
		ID: "C13",
		Rule: "one case per ordered identity pair (I mints, J presents) x {cursor, call, session} x cache {warm, cold, size 1, off}, " +
			"plus cross-kind presentations (version byte rewritten, re-encoded) and altered session tokens; thorough: all ordered pairs twice; " +
			"non-trivial = a token minted for one identity is presented by another identity or as another kind; distinct = distinct scripts",
		Gen:  c13Gen,
		Exec: tkExecProp("C13"),
		NonTrivial: func(lines []string) bool {
			for _, l := range lines {
				if strings.Contains(l, "|rv:") || strings.Contains(l, "|enc:") {
					return true
				}
			}
			ids := map[string]bool{}
			for _, l := range lines {
				f := strings.Fields(l)
				if len(f) > 2 && (f[0] == "cont" || f[0] == "suse" || f[0] == "init" || f[0] == "sopen") {
					ids[f[2]] = true
				}
			}
			return len(ids) > 1
		},
	})
}

var c13Pool = []string{
	"anon",
	tkID(false, "bearer", "alice"), // fields set but not authenticated: anonymous
	tkID(true, "bearer", "alice"),
	tkID(true, "jwt", "alice"), // same principal, other domain
	tkID(true, "bearer", "bob"),
	tkID(true, "", "alice"),     // empty domain
	tkID(true, "bearer", ""),    // empty principal
	tkID(true, "", ""),          // both empty
	tkID(true, "", "anonymous"), // cache-key string equals the anonymous one
	tkID(true, "ab", "c"),       // "ab"+"c" vs "a"+"bc"
	tkID(true, "a", "bc"),
	tkID(true, "a", "b\x00c"), // NUL inside the principal
	tkID(true, "a\x01b", "c"),
	tkID(true, "oidc", "üser☃"),
	tkID(true, "bearer", "alice\x00"),
	tkID(true, "bearer", "anonymous"),
	// domain‖principal concatenations that coincide but split differently
	tkID(true, "jwt", "2alice"),
	tkID(true, "jwt2", "alice"),
	tkID(true, "", "mtls"),
	tkID(true, "mtls", ""),
	// long issuer-qualified subjects sharing long prefixes and differing only late (AAD tail =
	// 0x01 ‖ domain ‖ 0 ‖ principal: the pairs agree on their first 40 / 46 / 47 / 64 / 100 / 300 bytes)
	tkID(true, "oidc", c13Long(34, "a")), tkID(true, "oidc", c13Long(34, "b")), // differ at tail byte 40
	tkID(true, "oidc", c13Long(40, "a")), tkID(true, "oidc", c13Long(40, "b")), // 46
	tkID(true, "oidc", c13Long(41, "a")), tkID(true, "oidc", c13Long(41, "b")), // 47
	tkID(true, "oidc", c13Long(58, "a")), tkID(true, "oidc", c13Long(58, "b")), // 64
	tkID(true, c13Long(94, "x"), "p"), tkID(true, c13Long(94, "y"), "p"), // long domains, differ at 100
	tkID(true, "oidc", c13Long(294, "a")), tkID(true, "oidc", c13Long(294, "b")), // 300
}

// c13Long: an issuer-qualified subject of n shared bytes followed by a distinguishing suffix.
func c13Long(n int, suffix string) string {
	base := "https://accounts.example.com/realms/production/tenants/0123456789abcdef/users/"
	for len(base) < n {
		base += "0123456789abcdef/"
	}
	return base[:n] + suffix
}

func c13Gen(g *Gen) {
	r := g.Rng
	var pairs [][2]string
	const short = 20 // the first 20 pool entries pair with everyone; the long ones with their sibling, themselves and two short ones
	for i, a := range c13Pool {
		for j, b := range c13Pool {
			if (i < short && j < short) || i/2 == j/2 || (i >= short && j < 2) || (j >= short && i < 2) {
				pairs = append(pairs, [2]string{a, b})
			}
		}
	}
	rounds := g.N(1, 2)
	streamMethods := []string{"exch", "prod", "dyne", "dynp", "exb", "dynb"}
	for round := 0; round < rounds; round++ {
		for _, p := range pairs {
			I, J := p[0], p[1]
			same := tkSameIdent(I, J)
			key := tkKeyOfLen(r, Pick(r, []int{16, 32, 32, 48}))
			m := Pick(r, streamMethods)
			rh, hk := r.Bool(), r.Bool()
			lines := []string{
				tkInstLine("i0", key, 100000, 4096, true, "w0", rh, hk),
				tkInstLine("i1", key, 100000, Pick(r, []int{0, 4096}), true, "w1", rh, hk),
			}
			if r.Chance(40) {
				lines = append(lines, "aad cursor "+I, "aad call "+I, "aad cursor "+J, "aad call "+J, "ikey "+I, "ikey "+J)
			}
			cont := func(inst, who, cur, call, sess string) {
				lines = append(lines, fmt.Sprintf("cont %s %s %s cur=%s call=%s cancel=0 sess=%s out=-", inst, who, m, cur, call, sess))
			}
			// history: J may have used the server before I's tokens exist
			jFirst := r.Bool()
			if jFirst {
				lines = append(lines, fmt.Sprintf("init i0 %s %s limit=6 sess=- cur=j0 call=jk0", J, m))
			}
			lines = append(lines, fmt.Sprintf("init i0 %s %s limit=6 sess=- cur=c0 call=k0", I, m))
			if !jFirst {
				lines = append(lines, fmt.Sprintf("init i0 %s %s limit=6 sess=- cur=j0 call=jk0", J, m))
			}
			cur := "c0"
			if r.Bool() {
				lines = append(lines, fmt.Sprintf("cont %s %s %s cur=$c0 call=$k0 cancel=0 sess=- out=c1", Pick(r, []string{"i0", "i1"}), I, m))
				cur = "c1"
			}
			// J presents I's tokens: warm instance, cold instance
			cont("i0", J, "$"+cur, "$k0", "-")
			cont("i1", J, "$"+cur, "$k0", "-")
			// J's own cursor with I's call token (consulted on the cold instance)
			cont("i1", J, "$j0", "$k0", "-")
			// a cursor for J naming I's call (only a key holder could mint it) + I's call token:
			// the call token is for I, and the cache entry is I's
			if same || !strings.EqualFold(tkSpecIdentKey(I), tkSpecIdentKey(J)) {
				lines = append(lines, fmt.Sprintf("mint cursor fj i0 %s age=0 callid=@c0 method=%s skind=%s count=1 limit=9", J, m, map[bool]string{true: "P", false: "E"}[strings.Contains(m, "p")]))
				cont("i0", J, "$fj", "$k0", "-")
				cont("i0", J, "$fj", "-", "-")
				cont("i1", J, "$fj", "$k0", "-")
				cont("i0", J, "$fj", "$jk0", "-")
			}
			// kinds: call as cursor, cursor as call, with and without the version byte rewritten
			cont("i1", I, "$k0|rv:6", "$k0", "-")
			cont("i1", I, "$k0", "$k0", "-")
			cont("i1", I, "$"+cur, "$"+cur+"|rv:1", "-")
			cont("i1", I, "$"+cur, "$"+cur, "-")
			cont("i1", J, "$k0|rv:6", "$jk0", "-")
			// sticky-session tokens
			lines = append(lines, fmt.Sprintf("sopen i0 %s accept=1 sess=- out=s0", I))
			lines = append(lines, fmt.Sprintf("sopen i0 %s accept=1 sess=- out=sj", J))
			lines = append(lines, "suse i0 "+I+" sess=$s0", "suse i0 "+J+" sess=$s0", "suse i0 "+I+" sess=$sj", "suse i1 "+I+" sess=$s0")
			lines = append(lines, fmt.Sprintf("init i0 %s %s limit=6 sess=$s0 cur=- call=-", J, m))
			cont("i0", J, "$j0", "$jk0", "$s0")
			cont("i0", I, "$"+cur, "$k0", "$s0")
			lines = append(lines, "sdel i0 "+J+" sess=$s0", "suse i0 "+I+" sess=$s0")
			// session <-> cursor / call
			cont("i1", I, "$s0|rv:6|enc:std", "$k0", "-")
			cont("i1", I, "$s0|enc:std", "$k0", "-")
			cont("i1", I, "$"+cur, "$s0|enc:std", "-")
			lines = append(lines, "suse i0 "+I+" sess=$"+cur+"|rv:1|enc:rawurl", "suse i0 "+I+" sess=$"+cur+"|enc:rawurl",
				"suse i0 "+I+" sess=$k0|enc:rawurl", "sdel i0 "+I+" sess=$k0|enc:rawurl")
			// a session token for I naming this worker/another worker, sealed by a key holder
			lines = append(lines, fmt.Sprintf("mint session sx i0 %s serverid=%s sid=@s0", I, XS("other-worker")), "suse i0 "+I+" sess=$sx")
			lines = append(lines, fmt.Sprintf("mint session sy i0 %s serverid=self sid=@s0", J), "suse i0 "+J+" sess=$sy", "suse i0 "+I+" sess=$sy")
			// altered session tokens (ASCII edits only: the header is TrimSpace'd)
			for k := 0; k < 6; k++ {
				e := Pick(r, []string{
					fmt.Sprintf("tx:%d:%d", r.Intn(120), Pick(r, []int{1, 2, 4, 16})),
					fmt.Sprintf("td:%d", r.Intn(120)), fmt.Sprintf("ti:%d:65", r.Intn(120)),
					fmt.Sprintf("tt:%d", Pick(r, []int{0, 1, 54, 55, 56, 100})),
					fmt.Sprintf("rx:%d:1", r.Intn(80)), fmt.Sprintf("rv:%d", Pick(r, []int{0, 2, 6, 255})),
					"enc:url", "enc:std", "enc:rawstd", "bits", "ti:0:32|ta:20", "ti:0:9|ta:0d0a", fmt.Sprintf("ti:%d:10", r.Intn(100)), "ta:3d", "ra:00",
				})
				lines = append(lines, "suse i0 "+I+" sess=$s0|"+e)
			}
			lines = append(lines, "sclose i0 "+J+" sess=$s0", "sclose i0 "+I+" sess=$s0", "suse i0 "+I+" sess=$s0")
			// sessions opened from inside stream turns (init handler, Exchange turn, Produce continuation):
			// they belong to the caller of that turn exactly like one opened by a unary handler
			for k, sm := range []string{"exch", "prod", "dyne"} {
				sc, sk, ss := fmt.Sprintf("tc%d", k), fmt.Sprintf("tk%d", k), fmt.Sprintf("ts%d", k)
				acceptInit := b2i(r.Chance(30))
				lines = append(lines, fmt.Sprintf("init i0 %s %s limit=9 sess=- cur=%s call=%s sessopen=1 accept=%d sout=%s", I, sm, sc, sk, acceptInit, ss))
				lines = append(lines, fmt.Sprintf("cont i0 %s %s cur=$%s call=$%s cancel=0 sess=- out=%s accept=1 sout=%s", I, sm, sc, sk, sc, ss))
				lines = append(lines, "suse i0 "+I+" sess=$"+ss, "suse i0 "+J+" sess=$"+ss, "suse i0 anon sess=$"+ss)
				lines = append(lines, fmt.Sprintf("cont i0 %s %s cur=$%s call=$%s cancel=0 sess=$%s out=%s accept=1", I, sm, sc, sk, ss, sc))
				lines = append(lines, "sdel i0 anon sess=$"+ss, "sdel i0 "+I+" sess=$"+ss)
			}
			// eviction pressure: a FULL small cache, the victim's entry evicted by other identities' /init,
			// then the victim continues — with another identity's call token, with none (size 1: any policy
			// that admits new entries has dropped the victim) and with its own (must see its own call)
			other := J
			if same {
				for _, p := range c13Pool {
					if !tkSameIdent(p, I) && tkSpecIdentKey(p) != tkSpecIdentKey(I) {
						other = p
						break
					}
				}
			}
			third := c13Pool[(indexOf(c13Pool, other)+3)%len(c13Pool)]
			if tkSameIdent(third, I) || tkSameIdent(third, other) {
				third = c13Pool[(indexOf(c13Pool, other)+5)%len(c13Pool)]
			}
			lines = append(lines,
				tkInstLine("e1", key, 100000, 1, false, "we1", rh, true),
				tkInstLine("e2", key, 100000, 2, false, "we2", rh, true),
				fmt.Sprintf("init e1 %s %s limit=6 sess=- cur=v1 call=vk1", I, m),
				fmt.Sprintf("init e1 %s %s limit=6 sess=- cur=o1 call=ok1", other, m))
			cont("e1", I, "$v1", "$ok1", "-")
			cont("e1", I, "$v1", "-", "-")
			cont("e1", I, "$v1", "$vk1", "-")
			cont("e1", other, "$o1", "$vk1", "-")
			cont("e1", other, "$o1", "$ok1", "-")
			lines = append(lines,
				fmt.Sprintf("init e2 %s %s limit=6 sess=- cur=v2 call=vk2", I, m),
				fmt.Sprintf("init e2 %s %s limit=6 sess=- cur=o2 call=ok2", other, m),
				fmt.Sprintf("init e2 %s %s limit=6 sess=- cur=t2 call=tk2", third, m))
			cont("e2", I, "$v2", "$vk2", "-")
			cont("e2", other, "$o2", "$ok2", "-")
			cont("e2", third, "$t2", "$tk2", "-")
			cont("e2", I, "$v2", "$vk2", "-")
			// afterwards both identities still continue their own streams
			lines = append(lines, fmt.Sprintf("cont i1 %s %s cur=$%s call=$k0 cancel=0 sess=- out=cz", I, m, cur))
			lines = append(lines, fmt.Sprintf("cont i0 %s %s cur=$j0 call=$jk0 cancel=0 sess=- out=jz", J, m))
			g.Case(lines...)
		}
	}
}
