package main

import (
	"bytes"
	"context"
	"errors"
	"fmt"
	"net/http"
	"net/http/httptest"
	"runtime"
	"strconv"
	"strings"
	"sync"
	"sync/atomic"
	"time"

	"github.com/Query-farm/vgi-rpc-go/vgirpc"
	"github.com/apache/arrow-go/v18/arrow"
	"github.com/apache/arrow-go/v18/arrow/array"
	"github.com/apache/arrow-go/v18/arrow/ipc"
	"github.com/apache/arrow-go/v18/arrow/memory"
)

// C40 — concurrent HTTP serving: the serve-start hook commits once and is retried after a failure,
// Once cells (pages, protocol hash, health body) are computed once, every request sees the same
// transport kind and hash.
//
// One case = one real Server + HttpServer (sticky sessions, compression, dispatch hook, landing /
// describe / not-found pages on). Requests are real ServeHTTP calls in goroutines. The serve-start
// hook is scripted: its k-th invocation returns nil/error at once (o/f) or blocks until `go`
// (O/F) — a blocked hook is how a schedule is forced: further first requests then queue on
// transportNotifyMu (read off the goroutine wait state).
//
//   server <hook:0|1> <plan>     plan: comma list of o f O F, or -
//   req <t> <route>              unary | health | landing | describe | options | notfound
//   go                           release the invocation blocked inside the hook
//   stat
//   storm <seed> <n> <fails>     concurrent search on a private server
//
// Output (requests are anonymous: which queued request gets the gate next is the runtime's choice):
//   gate= hook= ok= err= runs= succ= kind= seen= pages= hash= health= same=

func init() {
	vgirpc.RegisterStateType(&c40Tick{})
	Register(&Prop{
		ID: "C40",
		Rule: "scripted concurrent first and subsequent requests across routes against a real HttpServer whose serve-start hook " +
			"fails / succeeds / blocks per plan (forced schedules: requests queued on the notify gate while one is inside the hook; " +
			"failure then retry; success then fast path), plus servers without hook; non-trivial = a plan with at least one failing or " +
			"blocking invocation and at least three requests; distinct = distinct scripts",
		Gen:  c40Gen,
		Exec: c40Exec,
		NonTrivial: func(lines []string) bool {
			reqs, hard := 0, false
			for _, l := range lines {
				f := strings.Fields(l)
				if len(f) == 3 && f[0] == "server" && strings.ContainsAny(f[2], "fFO") {
					hard = true
				}
				if len(f) == 3 && f[0] == "req" {
					reqs++
				}
			}
			return hard && reqs >= 3
		},
	})
}

type c40Params struct {
	N int64 `vgirpc:"n"`
}

type c40Plan struct{ block, ok bool }

// c40Tick is the producer stream state (gob-registered, so continuation tokens can carry it).
type c40Tick struct{ Seq int64 }

func (p *c40Tick) Produce(_ context.Context, out *vgirpc.OutputCollector, _ *vgirpc.CallContext) error {
	p.Seq++
	return out.EmitMap(map[string][]interface{}{"value": {p.Seq}})
}

var c40TickSchema = arrow.NewSchema([]arrow.Field{{Name: "value", Type: arrow.PrimitiveTypes.Int64}}, nil)

var c40Key = bytes.Repeat([]byte{0x40}, 32)

func c40Register(s *vgirpc.Server) {
	vgirpc.Producer(s, "p", c40TickSchema, func(context.Context, *vgirpc.CallContext, c40Params) (*vgirpc.StreamResult, error) {
		return &vgirpc.StreamResult{OutputSchema: c40TickSchema, State: &c40Tick{}}, nil
	})
}

// a sibling instance (same registration, same token key, its own process state) that mints
// continuation tokens: a load-balanced peer or the instance before a restart
var (
	c40SiblingOnce sync.Once
	c40Sibling     *vgirpc.HttpServer
)

func c40Mint() (state, call []byte) {
	c40SiblingOnce.Do(func() {
		s := vgirpc.NewServer()
		s.SetServiceName("c40")
		s.SetServerID("c40-server")
		vgirpc.Unary(s, "m", func(_ context.Context, _ *vgirpc.CallContext, p c40Params) (int64, error) { return p.N, nil })
		c40Register(s)
		h, err := vgirpc.NewHttpServerWithKey(s, c40Key)
		if err != nil {
			panic(err)
		}
		h.SetProducerBatchLimit(1)
		c40Sibling = h
	})
	rec := httptest.NewRecorder()
	c40Sibling.ServeHTTP(rec, c40InitRequest())
	return vgirpc.FindStreamTokens(rec.Body.Bytes())
}

func c40ParamsBody(method string) []byte {
	mem := memory.NewGoAllocator()
	schema := arrow.NewSchema([]arrow.Field{{Name: "n", Type: arrow.PrimitiveTypes.Int64}}, nil)
	bld := array.NewInt64Builder(mem)
	bld.Append(7)
	col := bld.NewArray()
	bld.Release()
	batch := array.NewRecordBatch(schema, []arrow.Array{col}, 1)
	col.Release()
	defer batch.Release()
	var buf bytes.Buffer
	if err := vgirpc.WriteRequest(&buf, method, batch, ""); err != nil {
		panic(err)
	}
	return buf.Bytes()
}

var c40InitBody = sync.OnceValue(func() []byte { return c40ParamsBody("p") })

func c40InitRequest() *http.Request {
	r := httptest.NewRequest("POST", "/p/init", bytes.NewReader(c40InitBody()))
	r.Header.Set("Content-Type", "application/vnd.apache.arrow.stream")
	return r
}

func c40ContRequest() *http.Request {
	state, call := c40Mint()
	tick := array.NewRecordBatchWithMetadata(arrow.NewSchema(nil, nil), nil, 0,
		arrow.NewMetadata([]string{vgirpc.MetaStreamState, vgirpc.MetaCallState}, []string{string(state), string(call)}))
	defer tick.Release()
	var buf bytes.Buffer
	w := ipc.NewWriter(&buf, ipc.WithSchema(arrow.NewSchema(nil, nil)))
	if err := w.Write(tick); err != nil {
		panic(err)
	}
	_ = w.Close()
	r := httptest.NewRequest("POST", "/p/exchange", bytes.NewReader(buf.Bytes()))
	r.Header.Set("Content-Type", "application/vnd.apache.arrow.stream")
	return r
}

type c40Req struct {
	id    int
	route string
	gid   string
	mu    sync.Mutex
	state string // running | done
	code  int
	body  []byte
	panic any
	okAtSucc int32 // number of successful hook runs when the request completed
}

type c40World struct {
	srv  *vgirpc.Server
	h    *vgirpc.HttpServer
	hook bool
	plan []c40Plan

	mu        sync.Mutex
	reqs      []*c40Req
	byID      map[int]*c40Req
	started   int32 // hook invocations started
	runs      int32 // hook invocations completed
	succ      int32 // hook invocations that returned nil
	inHook    int32
	blocked   chan struct{} // non-nil while an invocation waits for `go`
	blockedOK bool
	seenKinds map[string]bool
	hashes    map[string]bool
	healths   map[string]bool
	landings  map[string]bool
	ptr0      [5]uintptr
	ptrMoved  [5]bool
	oracles   [][2]string
}

func (w *c40World) oracle(class, desc string) {
	w.mu.Lock()
	w.oracles = append(w.oracles, [2]string{class, desc})
	w.mu.Unlock()
}

func c40NewWorld(hook bool, plan []c40Plan) *c40World {
	w := &c40World{hook: hook, plan: plan, byID: map[int]*c40Req{}, seenKinds: map[string]bool{}, hashes: map[string]bool{},
		healths: map[string]bool{}, landings: map[string]bool{}}
	s := vgirpc.NewServer()
	s.SetServiceName("c40")
	s.SetServerID("c40-server")
	vgirpc.Unary(s, "m", func(_ context.Context, _ *vgirpc.CallContext, p c40Params) (int64, error) {
		k := string(s.TransportKind())
		w.mu.Lock()
		w.seenKinds[k] = true
		w.mu.Unlock()
		return p.N, nil
	})
	c40Register(s)
	s.SetDispatchHook(c40Dispatch{w})
	if hook {
		s.SetServeStartHook(func(kind vgirpc.TransportKind, _ map[string]bool) error {
			idx := int(atomic.AddInt32(&w.started, 1)) - 1
			defer atomic.AddInt32(&w.runs, 1) // counted when the invocation returns
			if n := atomic.AddInt32(&w.inHook, 1); n > 1 {
				w.oracle("hook-ran-concurrently", fmt.Sprintf("serve-start hook invocation %d entered while %d other invocation(s) were running", idx, n-1))
			}
			defer atomic.AddInt32(&w.inHook, -1)
			if atomic.LoadInt32(&w.succ) > 0 {
				w.oracle("hook-run-after-commit", fmt.Sprintf("serve-start hook invoked again (invocation %d) after it had already succeeded", idx))
			}
			if string(kind) != "http" {
				w.oracle("kind-mismatch", fmt.Sprintf("hook called with kind %q", kind))
			}
			p := c40Plan{false, true}
			if idx < len(w.plan) {
				p = w.plan[idx]
			}
			if p.block {
				ch := make(chan struct{})
				w.mu.Lock()
				w.blocked = ch
				w.mu.Unlock()
				<-ch
			}
			if p.ok {
				if n := atomic.AddInt32(&w.succ, 1); n > 1 {
					w.oracle("hook-success-more-than-once", fmt.Sprintf("serve-start hook returned nil %d times", n))
				}
				return nil
			}
			return errors.New("scripted hook failure")
		})
	}
	h, err := vgirpc.NewHttpServerWithKey(s, c40Key)
	if err != nil {
		panic(err)
	}
	h.SetProducerBatchLimit(1)
	h.EnableSticky(0)
	w.srv, w.h = s, h
	return w
}

type c40Dispatch struct{ w *c40World }

func (d c40Dispatch) OnDispatchStart(ctx context.Context, info vgirpc.DispatchInfo) (context.Context, vgirpc.HookToken) {
	d.w.mu.Lock()
	d.w.hashes[info.ProtocolHash] = true
	d.w.mu.Unlock()
	return ctx, nil
}

func (d c40Dispatch) OnDispatchEnd(context.Context, vgirpc.HookToken, vgirpc.DispatchInfo, *vgirpc.CallStatistics, error) {
}

var c40ReqBody []byte
var c40ReqOnce sync.Once

func c40Body() []byte {
	c40ReqOnce.Do(func() {
		mem := memory.NewGoAllocator()
		schema := arrow.NewSchema([]arrow.Field{{Name: "n", Type: arrow.PrimitiveTypes.Int64}}, nil)
		bld := array.NewInt64Builder(mem)
		bld.Append(7)
		col := bld.NewArray()
		bld.Release()
		batch := array.NewRecordBatch(schema, []arrow.Array{col}, 1)
		col.Release()
		var buf bytes.Buffer
		if err := vgirpc.WriteRequest(&buf, "m", batch, ""); err != nil {
			panic(err)
		}
		batch.Release()
		c40ReqBody = buf.Bytes()
	})
	return c40ReqBody
}

func c40HTTPRequest(route string) *http.Request {
	switch route {
	case "unary":
		r := httptest.NewRequest("POST", "/m", bytes.NewReader(c40Body()))
		r.Header.Set("Content-Type", "application/vnd.apache.arrow.stream")
		r.Header.Set("Accept-Encoding", "zstd, gzip")
		return r
	case "init":
		return c40InitRequest()
	case "cont":
		return c40ContRequest()
	case "health":
		return httptest.NewRequest("GET", "/health", nil)
	case "landing":
		return httptest.NewRequest("GET", "/", nil)
	case "describe":
		return httptest.NewRequest("GET", "/describe", nil)
	case "options":
		return httptest.NewRequest("OPTIONS", "/health", nil)
	default:
		return httptest.NewRequest("GET", "/no/such/page", nil)
	}
}

func c40Gid() string {
	buf := make([]byte, 64)
	n := runtime.Stack(buf, false)
	f := strings.Fields(string(buf[:n]))
	if len(f) >= 2 {
		return f[1]
	}
	return ""
}

var (
	c40StackMu  sync.Mutex
	c40StackBuf = make([]byte, 1<<20)
)

func c40GoState(gid string) string {
	c40StackMu.Lock()
	defer c40StackMu.Unlock()
	n := runtime.Stack(c40StackBuf, true)
	s := string(c40StackBuf[:n])
	key := "goroutine " + gid + " ["
	i := strings.Index(s, key)
	if i < 0 {
		return ""
	}
	rest := s[i+len(key):]
	j := strings.IndexAny(rest, ",]")
	if j < 0 {
		return ""
	}
	return rest[:j]
}

func (w *c40World) start(r *c40Req) {
	started := make(chan struct{})
	go func() {
		r.gid = c40Gid()
		close(started)
		rec := httptest.NewRecorder()
		defer func() {
			if p := recover(); p != nil {
				r.mu.Lock()
				r.panic = p
				r.mu.Unlock()
				w.oracle("request-panicked", fmt.Sprintf("request %d (%s) panicked: %v", r.id, r.route, p))
			}
			r.mu.Lock()
			r.code = rec.Code
			r.body = rec.Body.Bytes()
			r.okAtSucc = atomic.LoadInt32(&w.succ)
			r.state = "done"
			r.mu.Unlock()
		}()
		w.h.ServeHTTP(rec, c40HTTPRequest(r.route))
	}()
	<-started
}

func (r *c40Req) get() string {
	r.mu.Lock()
	defer r.mu.Unlock()
	return r.state
}

// wait until every request is done, inside the blocked hook, or parked (on the notify gate)
func (w *c40World) settle() (gate, hook int) {
	deadline := time.Now().Add(20 * time.Second)
	for {
		gate, hook = 0, 0
		unsettled := false
		w.mu.Lock()
		blockedNow := w.blocked != nil
		w.mu.Unlock()
		for _, r := range w.reqs {
			if r.get() == "done" {
				continue
			}
			parked := 0
			for k := 0; k < 6; k++ {
				gs := c40GoState(r.gid)
				if r.get() == "done" {
					break
				}
				if gs != "" && gs != "running" && gs != "runnable" && gs != "syscall" {
					parked++
					time.Sleep(300 * time.Microsecond)
				} else {
					break
				}
			}
			if r.get() == "done" {
				continue
			}
			if parked < 6 {
				unsettled = true
				continue
			}
			gate++ // parked: either on the gate or inside the blocked hook (sorted out below)
		}
		w.mu.Lock()
		blockedAfter := w.blocked != nil
		w.mu.Unlock()
		if blockedAfter != blockedNow {
			continue // an invocation entered or left the hook while we were sampling
		}
		if !unsettled && gate > 0 && !blockedNow && atomic.LoadInt32(&w.inHook) == 0 {
			// parked requests but nobody inside the hook: the gate is changing hands right now
			if time.Now().Before(deadline) {
				time.Sleep(100 * time.Microsecond)
				continue
			}
		}
		if !unsettled {
			if blockedNow && gate > 0 {
				gate--
				hook = 1
			}
			// more than one invocation inside the hook cannot be told apart from gate waiters by wait
			// state; the hook itself reports concurrent entry
			if n := int(atomic.LoadInt32(&w.inHook)); n > 1 {
				hook = n
				gate -= n - 1
				if gate < 0 {
					gate = 0
				}
			}
			return
		}
		if time.Now().After(deadline) {
			w.oracle("request-stuck", "a request neither finished nor parked within 20 s")
			return
		}
		time.Sleep(200 * time.Microsecond)
	}
}

func (w *c40World) status() string {
	gate, hook := w.settle()
	ok, errs := 0, 0
	for _, r := range w.reqs {
		if r.get() != "done" {
			continue
		}
		r.mu.Lock()
		code, body, route, atSucc := r.code, r.body, r.route, r.okAtSucc
		r.mu.Unlock()
		if code == 500 && bytes.Contains(body, []byte("server startup hook failed")) {
			errs++
			continue
		}
		ok++
		if w.hook && atSucc == 0 {
			w.oracle("request-served-without-successful-hook", fmt.Sprintf("request %d (%s) was served (status %d) although the serve-start hook has never succeeded", r.id, route, code))
		}
		w.mu.Lock()
		switch route {
		case "health":
			w.healths[string(body)] = true
		case "landing":
			w.landings[string(body)] = true
		}
		w.mu.Unlock()
	}
	kind := string(w.srv.TransportKind())
	if kind == "" {
		kind = "-"
	}
	w.mu.Lock()
	seen := "-"
	if len(w.seenKinds) == 1 && w.seenKinds["http"] {
		seen = "http"
	} else if len(w.seenKinds) > 0 {
		seen = "mixed"
	}
	hashSame := len(w.hashes) <= 1
	if len(w.hashes) == 1 && !w.hashes[w.srv.ProtocolHash()] {
		hashSame = false
	}
	healthSame := len(w.healths) <= 1
	pagesSame := len(w.landings) <= 1
	w.mu.Unlock()
	if seen == "mixed" {
		w.oracle("kind-mismatch", fmt.Sprintf("method handlers observed transport kinds %v", w.seenKinds))
	}
	if !hashSame {
		w.mu.Lock()
		var hs []string
		for k := range w.hashes {
			hs = append(hs, fmt.Sprintf("%q", k))
		}
		w.mu.Unlock()
		w.oracle("hash-differs-between-requests", fmt.Sprintf("dispatched requests observed protocol hash(es) %v; Server.ProtocolHash() is %q", hs, w.srv.ProtocolHash()))
	}
	if !healthSame || !pagesSame {
		w.oracle("cached-body-mismatch", "two requests to the same cached route got different bodies")
	}
	// computed-once: the cached values never move
	cnt := func(i ...int) string {
		moved, set := false, false
		for _, k := range i {
			moved = moved || w.ptrMoved[k]
			set = set || w.ptr0[k] != 0
		}
		switch {
		case moved:
			return "2"
		case set:
			return "1"
		}
		return "0"
	}
	if gate == 0 && hook == 0 {
		p := w.h.VerifC40Ptrs()
		names := []string{"landing page", "describe page", "not-found page", "health body", "protocol hash"}
		for k := range p {
			if w.ptr0[k] == 0 {
				w.ptr0[k] = p[k]
			} else if p[k] != w.ptr0[k] && !w.ptrMoved[k] {
				w.ptrMoved[k] = true
				w.oracle("cached-value-recomputed", names[k]+" was computed again (its cached value moved)")
			}
		}
	}
	b := func(x bool) string {
		if x {
			return "1"
		}
		return "0"
	}
	return fmt.Sprintf("gate=%d hook=%d ok=%d err=%d runs=%d succ=%d kind=%s seen=%s pages=%s hash=%s health=%s same=%s%s%s",
		gate, hook, ok, errs, atomic.LoadInt32(&w.runs), atomic.LoadInt32(&w.succ), kind, seen,
		cnt(0, 1, 2), cnt(4), cnt(3), b(pagesSame), b(hashSame), b(healthSame))
}

func c40ParsePlan(s string) ([]c40Plan, bool) {
	if s == "-" {
		return nil, true
	}
	var out []c40Plan
	for _, x := range strings.Split(s, ",") {
		switch x {
		case "o":
			out = append(out, c40Plan{false, true})
		case "f":
			out = append(out, c40Plan{false, false})
		case "O":
			out = append(out, c40Plan{true, true})
		case "F":
			out = append(out, c40Plan{true, false})
		default:
			return nil, false
		}
	}
	return out, true
}

var c40Routes = map[string]bool{"unary": true, "init": true, "cont": true, "health": true, "landing": true, "describe": true, "options": true, "notfound": true}

func c40Exec(c *Case) {
	var w *c40World
	defer func() {
		if w == nil {
			return
		}
		// never leave a goroutine blocked inside the hook
		for i := 0; i < 50; i++ {
			w.mu.Lock()
			ch := w.blocked
			w.blocked = nil
			w.mu.Unlock()
			if ch != nil {
				close(ch)
			}
			all := true
			for _, r := range w.reqs {
				if r.get() != "done" {
					all = false
				}
			}
			if all {
				break
			}
			time.Sleep(2 * time.Millisecond)
		}
		if dh := w.h.DrainHandle(); dh != nil {
			dh.Shutdown()
		}
	}()
	flush := func() {
		if w == nil {
			return
		}
		w.mu.Lock()
		os := w.oracles
		w.oracles = nil
		w.mu.Unlock()
		for _, o := range os {
			c.Oracle(o[0], o[1])
		}
	}
	for _, line := range c.Lines {
		f := strings.Fields(line)
		if len(f) == 0 {
			continue
		}
		out := "bad-op"
		switch {
		case f[0] == "server" && len(f) == 3 && w == nil && (f[1] == "0" || f[1] == "1"):
			if plan, ok := c40ParsePlan(f[2]); ok {
				w = c40NewWorld(f[1] == "1", plan)
				c.Stat("server-hook" + f[1])
				out = "ok " + w.status()
			}
		case f[0] == "req" && len(f) == 3 && w != nil && c40Routes[f[2]]:
			id, err := strconv.Atoi(f[1])
			if err != nil || id < 0 {
				break
			}
			if w.byID[id] != nil {
				out = "noop " + w.status()
				break
			}
			r := &c40Req{id: id, route: f[2], state: "running"}
			w.reqs = append(w.reqs, r)
			w.byID[id] = r
			w.start(r)
			c.Stat("req-" + f[2])
			out = "ok " + w.status()
		case f[0] == "go" && len(f) == 1 && w != nil:
			w.settle()
			w.mu.Lock()
			ch := w.blocked
			w.blocked = nil
			w.mu.Unlock()
			if ch == nil {
				out = "noop " + w.status()
				break
			}
			close(ch)
			c.Stat("go")
			// the released invocation must leave the hook before the next snapshot
			for i := 0; i < 2000; i++ {
				w.mu.Lock()
				again := w.blocked != nil
				w.mu.Unlock()
				if again || atomic.LoadInt32(&w.inHook) == 0 {
					break
				}
				time.Sleep(100 * time.Microsecond)
			}
			out = "ok " + w.status()
		case f[0] == "stat" && len(f) == 1 && w != nil:
			out = w.status()
		case f[0] == "storm" && len(f) == 4:
			seed, e1 := strconv.Atoi(f[1])
			n, e2 := strconv.Atoi(f[2])
			fails, e3 := strconv.Atoi(f[3])
			if e1 == nil && e2 == nil && e3 == nil && n > 0 && fails >= 0 {
				c.Stat("storm")
				out = c40Storm(c, seed, n, fails)
			}
		}
		flush()
		if strings.Contains(out, "gate=") {
			for _, k := range []string{"gate=0", "hook=1", "err=0", "succ=1"} {
				if strings.Contains(out, k) {
					c.Stat("seen-" + k)
				}
			}
			if !strings.Contains(out, "gate=0") {
				c.Stat("seen-queued-on-gate")
			}
			if !strings.Contains(out, "err=0") {
				c.Stat("seen-hook-failure")
			}
		}
		c.Out(line, out)
	}
	flush()
}

// concurrent search: n requests across all routes hit a fresh server at once; the hook fails its
// first `fails` invocations, then succeeds.
func c40Storm(c *Case, seed, n, fails int) string {
	plan := make([]c40Plan, fails)
	w := c40NewWorld(true, plan)
	routes := []string{"unary", "health", "landing", "describe", "options", "notfound", "unary", "cont", "init", "cont"}
	rng := NewRng(uint64(seed))
	var wg sync.WaitGroup
	startGate := make(chan struct{})
	var served, refused atomic.Int32
	viol := 0
	for round := 0; round < 3; round++ {
		for i := 0; i < n; i++ {
			route := routes[rng.Intn(len(routes))]
			wg.Add(1)
			go func(route string) {
				defer wg.Done()
				<-startGate
				rec := httptest.NewRecorder()
				func() {
					defer func() {
						if p := recover(); p != nil {
							w.oracle("request-panicked", fmt.Sprintf("storm: %s request panicked: %v", route, p))
						}
					}()
					w.h.ServeHTTP(rec, c40HTTPRequest(route))
				}()
				if rec.Code == 500 && bytes.Contains(rec.Body.Bytes(), []byte("server startup hook failed")) {
					refused.Add(1)
					return
				}
				served.Add(1)
				if atomic.LoadInt32(&w.succ) == 0 {
					w.oracle("request-served-without-successful-hook", "storm: a "+route+" request was served before the hook ever succeeded")
				}
			}(route)
		}
		if round == 0 {
			close(startGate)
		}
		wg.Wait()
	}
	// after the storm everything is bound
	if got := atomic.LoadInt32(&w.succ); got != 1 {
		viol++
		c.Oracle("hook-success-more-than-once", fmt.Sprintf("storm: hook succeeded %d times (plan: %d failures then success, %d requests)", got, fails, 3*n))
	}
	if int(atomic.LoadInt32(&w.runs)) != fails+1 {
		viol++
		c.Oracle("hook-run-count", fmt.Sprintf("storm: hook ran %d times, want %d failures + 1 success", atomic.LoadInt32(&w.runs), fails))
	}
	if int(refused.Load()) != fails {
		viol++
		c.Oracle("hook-run-count", fmt.Sprintf("storm: %d requests were refused, want exactly the %d whose hook run failed", refused.Load(), fails))
	}
	w.mu.Lock()
	os := w.oracles
	w.oracles = nil
	nh := len(w.hashes)
	if nh == 1 && !w.hashes[w.srv.ProtocolHash()] {
		nh = 2
	}
	w.mu.Unlock()
	for _, o := range os {
		viol++
		c.Oracle(o[0], o[1])
	}
	if nh > 1 {
		viol++
		c.Oracle("hash-differs-between-requests", "storm: requests observed different protocol hashes")
	}
	if dh := w.h.DrainHandle(); dh != nil {
		dh.Shutdown()
	}
	return fmt.Sprintf("succ=%d viol=%d", atomic.LoadInt32(&w.succ), viol)
}

// ---------------------------------------------------------------- generator

func c40Gen(g *Gen) {
	r := g.Rng
	routes := []string{"unary", "init", "cont", "cont", "health", "landing", "describe", "options", "notfound"}
	// requests that are in flight together are anonymous, so they must touch the same lazy cells
	class := map[string][]string{"unary": {"unary"}, "init": {"init", "cont"}, "cont": {"init", "cont"}, "health": {"health"},
		"landing": {"landing", "describe", "options", "notfound"}, "describe": {"landing", "describe", "options", "notfound"},
		"options": {"landing", "describe", "options", "notfound"}, "notfound": {"landing", "describe", "options", "notfound"}}
	n := g.N(220, 4000)
	for i := 0; i < n; i++ {
		hook := r.Chance(88)
		var plan []string
		if hook {
			for k := r.Range(0, 5); k > 0; k-- {
				plan = append(plan, Pick(r, []string{"o", "f", "F", "O", "F", "f"}))
			}
		}
		ps := "-"
		if len(plan) > 0 {
			ps = strings.Join(plan, ",")
		}
		h := 0
		if hook {
			h = 1
		}
		lines := []string{fmt.Sprintf("server %d %s", h, ps)}
		// shadow of the gate: which invocation index is next, is someone blocked in the hook
		inv, bound, blocked, waiting := 0, !hook, false, 0
		flight := "" // route shared by all requests that are in flight together
		next := 0
		steps := r.Range(3, 14)
		for k := 0; k < steps && next < 12; k++ {
			if blocked && r.Chance(35) {
				// release: the invocation returns its planned outcome
				lines = append(lines, "go")
				ok := plan[inv][0] == 'O'
				inv++
				blocked = false
				if ok {
					bound = true
					waiting = 0
				} else if waiting > 0 {
					// the next queued request runs the hook
					waiting--
					for {
						if inv >= len(plan) || plan[inv] == "o" {
							inv++
							bound = true
							waiting = 0
							break
						}
						if plan[inv] == "f" {
							inv++
							if waiting == 0 {
								break
							}
							waiting--
							continue
						}
						blocked = true
						break
					}
				}
				if !blocked {
					flight = ""
				}
				continue
			}
			route := Pick(r, routes)
			if blocked {
				route = Pick(r, class[flight]) // everything queued behind a blocked hook touches the same cells
			}
			lines = append(lines, fmt.Sprintf("req %d %s", next, route))
			next++
			switch {
			case bound:
			case blocked:
				waiting++
			default:
				// this request runs the hook
				if inv >= len(plan) || plan[inv] == "o" {
					inv++
					bound = true
				} else if plan[inv] == "f" {
					inv++
				} else {
					blocked = true
					flight = route
				}
			}
			if r.Chance(10) {
				lines = append(lines, "stat")
			}
		}
		for k := 0; k < 8; k++ {
			lines = append(lines, "go")
		}
		lines = append(lines, fmt.Sprintf("req %d cont", next), fmt.Sprintf("req %d unary", next+1), fmt.Sprintf("req %d health", next+2), fmt.Sprintf("req %d landing", next+3), "stat")
		g.Case(lines...)
	}
	s := g.N(6, 120)
	for i := 0; i < s; i++ {
		g.Case(fmt.Sprintf("storm %d %d %d", r.Intn(100000), r.Range(4, 24), r.Range(0, 4)))
	}
}
