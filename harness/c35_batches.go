package main

import (
	"bytes"
	"fmt"
	"math"
	"strconv"
	"strings"

	"github.com/apache/arrow-go/v18/arrow"
	"github.com/apache/arrow-go/v18/arrow/array"
	"github.com/apache/arrow-go/v18/arrow/ipc"
	"github.com/apache/arrow-go/v18/arrow/memory"
)

// Batch family of the C35 harness. A schema is written as columns separated by ';', each column
// a comma-separated PREORDER token list:
//
//	leaf      i8 i16 i32 i64 u8 u16 u32 u64 f32 f64 bool str bin lstr lbin date32 tsus fsb4 null
//	dictN,V   dictionary<intN, V>  (N in 8,16,32; V a leaf)
//	list,T  llist,T  flist2,T
//	structK,T1..TK  (K = 1..3)
//	map,K,V   (K a non-null leaf)
//
// Values are drawn from a splitmix stream seeded by the script's <seed>, so a script line fully
// determines the batch.

var c35Mem = memory.NewGoAllocator()

type c35TyParser struct {
	toks []string
	pos  int
}

func (p *c35TyParser) next() (string, error) {
	if p.pos >= len(p.toks) {
		return "", fmt.Errorf("type tokens exhausted")
	}
	t := p.toks[p.pos]
	p.pos++
	return t, nil
}

func (p *c35TyParser) parse() (arrow.DataType, error) {
	t, err := p.next()
	if err != nil {
		return nil, err
	}
	switch t {
	case "i8":
		return arrow.PrimitiveTypes.Int8, nil
	case "i16":
		return arrow.PrimitiveTypes.Int16, nil
	case "i32":
		return arrow.PrimitiveTypes.Int32, nil
	case "i64":
		return arrow.PrimitiveTypes.Int64, nil
	case "u8":
		return arrow.PrimitiveTypes.Uint8, nil
	case "u16":
		return arrow.PrimitiveTypes.Uint16, nil
	case "u32":
		return arrow.PrimitiveTypes.Uint32, nil
	case "u64":
		return arrow.PrimitiveTypes.Uint64, nil
	case "f32":
		return arrow.PrimitiveTypes.Float32, nil
	case "f64":
		return arrow.PrimitiveTypes.Float64, nil
	case "bool":
		return arrow.FixedWidthTypes.Boolean, nil
	case "str":
		return arrow.BinaryTypes.String, nil
	case "bin":
		return arrow.BinaryTypes.Binary, nil
	case "lstr":
		return arrow.BinaryTypes.LargeString, nil
	case "lbin":
		return arrow.BinaryTypes.LargeBinary, nil
	case "date32":
		return arrow.FixedWidthTypes.Date32, nil
	case "tsus":
		return arrow.FixedWidthTypes.Timestamp_us, nil
	case "fsb4":
		return &arrow.FixedSizeBinaryType{ByteWidth: 4}, nil
	case "fsb8":
		return &arrow.FixedSizeBinaryType{ByteWidth: 8}, nil
	case "null":
		return arrow.Null, nil
	case "dict8", "dict16", "dict32":
		v, err := p.parse()
		if err != nil {
			return nil, err
		}
		var idx arrow.DataType = arrow.PrimitiveTypes.Int8
		if t == "dict16" {
			idx = arrow.PrimitiveTypes.Int16
		} else if t == "dict32" {
			idx = arrow.PrimitiveTypes.Int32
		}
		return &arrow.DictionaryType{IndexType: idx, ValueType: v}, nil
	case "list", "llist", "flist2":
		e, err := p.parse()
		if err != nil {
			return nil, err
		}
		switch t {
		case "list":
			return arrow.ListOf(e), nil
		case "llist":
			return arrow.LargeListOf(e), nil
		}
		return arrow.FixedSizeListOf(2, e), nil
	case "struct1", "struct2", "struct3":
		k := int(t[6] - '0')
		fs := make([]arrow.Field, k)
		for i := range fs {
			ft, err := p.parse()
			if err != nil {
				return nil, err
			}
			fs[i] = arrow.Field{Name: fmt.Sprintf("f%d", i), Type: ft, Nullable: true}
		}
		return arrow.StructOf(fs...), nil
	case "map":
		kt, err := p.parse()
		if err != nil {
			return nil, err
		}
		vt, err := p.parse()
		if err != nil {
			return nil, err
		}
		return arrow.MapOf(kt, vt), nil
	}
	return nil, fmt.Errorf("unknown type token %q", t)
}

// c35Schema parses "<col>;<col>;..." ("-" = no columns). A column may end in tokens "~k=v" (field
// metadata); a pseudo-column "^k=v" is schema-level metadata. Neither changes names, types or the
// storage layout — they make schemas that differ only in what Schema.Fingerprint() ignores.
func c35Schema(cols string) (*arrow.Schema, error) {
	if cols == "-" {
		return arrow.NewSchema(nil, nil), nil
	}
	var fields []arrow.Field
	var smk, smv []string
	for _, c := range strings.Split(cols, ";") {
		if strings.HasPrefix(c, "^") {
			kv := strings.SplitN(c[1:], "=", 2)
			smk, smv = append(smk, kv[0]), append(smv, kv[len(kv)-1])
			continue
		}
		toks := strings.Split(c, ",")
		var fmk, fmv []string
		for len(toks) > 1 && strings.HasPrefix(toks[len(toks)-1], "~") {
			kv := strings.SplitN(toks[len(toks)-1][1:], "=", 2)
			fmk, fmv = append([]string{kv[0]}, fmk...), append([]string{kv[len(kv)-1]}, fmv...)
			toks = toks[:len(toks)-1]
		}
		p := &c35TyParser{toks: toks}
		dt, err := p.parse()
		if err != nil {
			return nil, err
		}
		if p.pos != len(p.toks) {
			return nil, fmt.Errorf("trailing type tokens in %q", c)
		}
		f := arrow.Field{Name: fmt.Sprintf("c%d", len(fields)), Type: dt, Nullable: true}
		if len(fmk) > 0 {
			f.Metadata = arrow.NewMetadata(fmk, fmv)
		}
		fields = append(fields, f)
	}
	if len(smk) > 0 {
		md := arrow.NewMetadata(smk, smv)
		return arrow.NewSchema(fields, &md), nil
	}
	return arrow.NewSchema(fields, nil), nil
}

// c35SchemaStrictEqual: names, nullability, types (incl. fixed-size widths and nested field
// metadata), field metadata and schema-level metadata all equal.
func c35SchemaStrictEqual(a, b *arrow.Schema) bool {
	if a.NumFields() != b.NumFields() || !c35MetaEqual(a.Metadata(), b.Metadata()) {
		return false
	}
	for i := 0; i < a.NumFields(); i++ {
		fa, fb := a.Field(i), b.Field(i)
		if fa.Name != fb.Name || fa.Nullable != fb.Nullable || !c35MetaEqual(fa.Metadata, fb.Metadata) ||
			!arrow.TypeEqual(fa.Type, fb.Type, arrow.CheckMetadata()) || fa.Type.String() != fb.Type.String() {
			return false
		}
	}
	return true
}

func c35MetaEqual(a, b arrow.Metadata) bool {
	if a.Len() != b.Len() {
		return false
	}
	for i := 0; i < a.Len(); i++ {
		if a.Keys()[i] != b.Keys()[i] || a.Values()[i] != b.Values()[i] {
			return false
		}
	}
	return true
}

// c35OwnKind is the harness's own reading of the storage-layout rule from the token lists
// (independent of the code): a dictionary as a column's own type -> "top"; a dictionary anywhere
// below -> "nested"; else "plain".
func c35OwnKind(cols string) string {
	if cols == "-" {
		return "plain"
	}
	top, any := false, false
	for _, c := range strings.Split(cols, ";") {
		if strings.HasPrefix(c, "^") {
			continue
		}
		for i, t := range strings.Split(c, ",") {
			if strings.HasPrefix(t, "dict") {
				any = true
				if i == 0 {
					top = true
				}
			}
		}
	}
	if top {
		return "top"
	}
	if any {
		return "nested"
	}
	return "plain"
}

var c35Strings = []string{"", "a", "b", "héllo", "日本", "a", "zz", "\x00", "longer string value here", "x"}

func c35Fill(b array.Builder, dt arrow.DataType, r *Rng, allowNull bool) {
	if allowNull && r.Chance(15) {
		b.AppendNull()
		return
	}
	switch bb := b.(type) {
	case *array.Int8Builder:
		bb.Append(int8(r.U64()))
	case *array.Int16Builder:
		bb.Append(int16(r.U64()))
	case *array.Int32Builder:
		bb.Append(int32(r.U64()))
	case *array.Int64Builder:
		bb.Append(Pick(r, []int64{0, 1, -1, math.MaxInt64, math.MinInt64, int64(r.U64())}))
	case *array.Uint8Builder:
		bb.Append(uint8(r.U64()))
	case *array.Uint16Builder:
		bb.Append(uint16(r.U64()))
	case *array.Uint32Builder:
		bb.Append(uint32(r.U64()))
	case *array.Uint64Builder:
		bb.Append(Pick(r, []uint64{0, 1, math.MaxUint64, r.U64()}))
	case *array.Float32Builder:
		bb.Append(float32(int32(r.U64())) / 8)
	case *array.Float64Builder:
		bb.Append(Pick(r, []float64{0, 1.5, -2.25, math.Inf(1), math.MaxFloat64, float64(int64(r.U64())) / 1024}))
	case *array.BooleanBuilder:
		bb.Append(r.Bool())
	case *array.StringBuilder:
		bb.Append(Pick(r, c35Strings))
	case *array.LargeStringBuilder:
		bb.Append(Pick(r, c35Strings))
	case *array.BinaryBuilder:
		bb.Append(r.Bytes(r.Intn(6)))
	case *array.FixedSizeBinaryBuilder:
		bb.Append(r.Bytes(dt.(*arrow.FixedSizeBinaryType).ByteWidth))
	case *array.Date32Builder:
		bb.Append(arrow.Date32(int32(r.U64() % 40000)))
	case *array.TimestampBuilder:
		bb.Append(arrow.Timestamp(int64(r.U64() % (1 << 50))))
	case *array.NullBuilder:
		bb.AppendNull()
	case *array.BinaryDictionaryBuilder:
		if dt.(*arrow.DictionaryType).ValueType.ID() == arrow.STRING {
			if err := bb.AppendString(Pick(r, c35Strings)); err != nil {
				panic(err)
			}
		} else {
			if err := bb.Append(r.Bytes(r.Intn(3))); err != nil {
				panic(err)
			}
		}
	case *array.Int64DictionaryBuilder:
		if err := bb.Append(int64(r.Intn(5)) - 2); err != nil {
			panic(err)
		}
	case *array.Int32DictionaryBuilder:
		if err := bb.Append(int32(r.Intn(5)) - 2); err != nil {
			panic(err)
		}
	case *array.ListBuilder:
		bb.Append(true)
		et := dt.(*arrow.ListType).Elem()
		for k := r.Intn(4); k > 0; k-- {
			c35Fill(bb.ValueBuilder(), et, r, true)
		}
	case *array.LargeListBuilder:
		bb.Append(true)
		et := dt.(*arrow.LargeListType).Elem()
		for k := r.Intn(4); k > 0; k-- {
			c35Fill(bb.ValueBuilder(), et, r, true)
		}
	case *array.FixedSizeListBuilder:
		bb.Append(true)
		et := dt.(*arrow.FixedSizeListType).Elem()
		for k := 0; k < 2; k++ {
			c35Fill(bb.ValueBuilder(), et, r, true)
		}
	case *array.StructBuilder:
		bb.Append(true)
		st := dt.(*arrow.StructType)
		for i := 0; i < st.NumFields(); i++ {
			c35Fill(bb.FieldBuilder(i), st.Field(i).Type, r, true)
		}
	case *array.MapBuilder:
		bb.Append(true)
		mt := dt.(*arrow.MapType)
		for k := r.Intn(3); k > 0; k-- {
			c35Fill(bb.KeyBuilder(), mt.KeyType(), r, false)
			c35Fill(bb.ItemBuilder(), mt.ItemType(), r, true)
		}
	default:
		panic(fmt.Sprintf("c35Fill: unsupported builder %T for %s", b, dt))
	}
}

// c35Batch builds the batch a script line denotes.
func c35Batch(cols string, rows int, seed uint64, md arrow.Metadata, withMeta bool) (arrow.RecordBatch, error) {
	schema, err := c35Schema(cols)
	if err != nil {
		return nil, err
	}
	r := NewRng(seed ^ 0xC35)
	arrs := make([]arrow.Array, schema.NumFields())
	for i, f := range schema.Fields() {
		b := array.NewBuilder(c35Mem, f.Type)
		for k := 0; k < rows; k++ {
			c35Fill(b, f.Type, r, true)
		}
		arrs[i] = b.NewArray()
		b.Release()
	}
	defer func() {
		for _, a := range arrs {
			a.Release()
		}
	}()
	if withMeta {
		return array.NewRecordBatchWithMetadata(schema, arrs, int64(rows), md), nil
	}
	return array.NewRecordBatch(schema, arrs, int64(rows)), nil
}

// c35FullStream is the harness's own complete IPC stream of the batch (schema message,
// dictionary messages, record batch, EOS) produced directly with arrow-go.
func c35FullStream(b arrow.RecordBatch) []byte {
	var buf bytes.Buffer
	w := ipc.NewWriter(&buf, ipc.WithSchema(b.Schema()))
	if err := w.Write(b); err != nil {
		panic(err)
	}
	if err := w.Close(); err != nil {
		panic(err)
	}
	return buf.Bytes()
}

func c35SchemaOnly(s *arrow.Schema) []byte {
	var buf bytes.Buffer
	w := ipc.NewWriter(&buf, ipc.WithSchema(s))
	if err := w.Close(); err != nil {
		panic(err)
	}
	return buf.Bytes()
}

var c35EOS = []byte{0xFF, 0xFF, 0xFF, 0xFF, 0, 0, 0, 0}

// c35Decodable: would arrow-go's stream reader produce a first batch from this region when it
// is presented the way the storage layout prescribes? Independent of vgirpc.
func c35Decodable(kind string, schema *arrow.Schema, region []byte) (ok bool) {
	defer func() {
		if recover() != nil {
			ok = false
		}
	}()
	stream := region
	if kind == "top" {
		so := c35SchemaOnly(schema)
		if len(so) < 8 {
			return false
		}
		stream = append(append(append([]byte{}, so[:len(so)-8]...), region...), c35EOS...)
	}
	rdr, err := ipc.NewReader(bytes.NewReader(stream))
	if err != nil {
		return false
	}
	defer rdr.Release()
	return rdr.Next()
}

// metadata on the line protocol: "-" or xK:xV,xK:xV
func c35ParseMeta(s string) (keys, vals []string) {
	if s == "-" {
		return nil, nil
	}
	for _, kv := range strings.Split(s, ",") {
		p := strings.SplitN(kv, ":", 2)
		keys = append(keys, UnXS(p[0]))
		vals = append(vals, UnXS(p[1]))
	}
	return
}

func c35ShowMeta(keys, vals []string) string {
	if len(keys) == 0 {
		return "-"
	}
	parts := make([]string, len(keys))
	for i := range keys {
		parts[i] = XS(keys[i]) + ":" + XS(vals[i])
	}
	return strings.Join(parts, ",")
}

func c35Fnv(b []byte) string {
	h := uint64(14695981039346656037)
	for _, c := range b {
		h = (h ^ uint64(c)) * 1099511628211
	}
	return strconv.FormatUint(h, 10)
}
