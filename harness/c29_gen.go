package main

import (
	"bytes"
	"encoding/hex"
	"fmt"
	"strings"
	"sync"
	"time"

	"github.com/Query-farm/vgi-rpc-go/vgirpc"
)

// ---------------------------------------------------------------- generator

var c29Idents = []string{
	"anon", "u:6a:61", "a:6a:61", "a:6a:62", "a:6b:61", "a::616e6f6e796d6f7573", "a:6a:610062",
	"a:6a:c3a9", "a:6a:", "a::", "a:c3a9:f09f9880", "a:6a:6161",
}

type c29GT struct {
	id   int
	rem  int // `b`s not yet released
	real bool
	pred *c29GT
}

func (t *c29GT) unfinished() bool {
	return t.rem > 0 || (t.pred != nil && t.pred.unfinished())
}

type c29G struct {
	r        *Rng
	lines    []string
	nW       int
	nextT    int
	threads  []*c29GT
	sidN     int
	sids     []string // sids used so far (any worker)
	perW     map[int][]string
	opens    int // estimate of published tokens
	idents   []string
	blockers []string // "w sid" of sessions whose Close blocks
}

func (g *c29G) add(format string, a ...any) { g.lines = append(g.lines, fmt.Sprintf(format, a...)) }

func (g *c29G) newSid(w int) string {
	g.sidN++
	b := g.r.Bytes(12)
	b[0] = byte(g.sidN)
	s := hex.EncodeToString(b)
	g.sids = append(g.sids, s)
	g.perW[w] = append(g.perW[w], s)
	return s
}

// a sid fresh for worker w, preferring one already used on ANOTHER worker (forced collision)
func (g *c29G) sidFor(w int) string {
	if g.r.Chance(35) {
		for _, s := range g.sids {
			used := false
			for _, u := range g.perW[w] {
				if u == s {
					used = true
				}
			}
			if !used {
				g.perW[w] = append(g.perW[w], s)
				return s
			}
		}
	}
	return g.newSid(w)
}

func (g *c29G) ident() string { return Pick(g.r, g.idents) }

func (g *c29G) realUnfinished() []*c29GT {
	var out []*c29GT
	for _, t := range g.threads {
		if t.real && t.unfinished() {
			out = append(out, t)
		}
	}
	return out
}

func (g *c29G) tokenRef(w int) string {
	r := g.r
	k := 0
	if g.opens > 0 {
		k = r.Intn(g.opens + 1)
	}
	switch x := r.Intn(100); {
	case x < 52:
		return fmt.Sprintf("T%d", k)
	case x < 57:
		return fmt.Sprintf("T%d+pad", k)
	case x < 61:
		return fmt.Sprintf("T%d+ws", k)
	case x < 66:
		return fmt.Sprintf("T%d+ver%d", k, Pick(r, []int{0, 2, 6, 255, 1}))
	case x < 71:
		return fmt.Sprintf("T%d+flip%d", k, r.Intn(400))
	case x < 75:
		return fmt.Sprintf("T%d+trunc%d", k, Pick(r, []int{0, 1, 24, 40, 41, 42, 60}))
	case x < 79:
		return "Gbad/" + hex.EncodeToString(r.Bytes(r.Range(0, 20)))
	case x < 83:
		n := Pick(r, []int{0, 1, 25, 40, 41, 42, 80})
		raw := r.Bytes(n)
		if n > 0 && r.Bool() {
			raw[0] = 1
		}
		return "Graw/" + hex.EncodeToString(raw)
	case x < 94:
		// crafted with a real key: chosen worker key, caller AAD, server id, session id
		kw := r.Intn(g.nW)
		sid := hex.EncodeToString(r.Bytes(12))
		if len(g.sids) > 0 && r.Chance(85) {
			sid = Pick(r, g.sids)
		}
		srv := Pick(r, []string{"41", "42", "", "4141", "43"})
		return fmt.Sprintf("S/%d/%s/%s/%s", kw, g.ident(), srv, sid)
	default:
		// arbitrary plaintext under a real key
		kw := r.Intn(g.nW)
		var p []byte
		switch r.Intn(5) {
		case 0:
			p = r.Bytes(r.Range(0, 8))
		case 1: // length byte disagrees with the length
			p = append(make([]byte, 8), byte(r.Intn(4)))
			p = append(p, r.Bytes(r.Range(18, 26))...)
		case 2: // exact layout with a random server id
			srv := r.Bytes(r.Intn(3))
			p = append(make([]byte, 8), byte(len(srv)))
			p = append(p, srv...)
			p = append(p, r.Bytes(12)...)
			p = append(p, make([]byte, 8)...)
		case 3: // exact layout naming a known session and server id "A"
			p = append(make([]byte, 8), 1, 0x41)
			sid := r.Bytes(12)
			if len(g.sids) > 0 {
				sid, _ = hex.DecodeString(Pick(r, g.sids))
			}
			p = append(p, sid...)
			p = append(p, make([]byte, 8)...)
		default:
			p = r.Bytes(r.Range(9, 40))
		}
		return fmt.Sprintf("P/%d/%s/%s", kw, g.ident(), hex.EncodeToString(p))
	}
}

func (g *c29G) prog(w int, allowBlock bool) (string, int) {
	r := g.r
	n := r.Range(0, 5)
	var ops []string
	blocks := 0
	for i := 0; i < n; i++ {
		switch x := r.Intn(100); {
		case x < 30:
			ops = append(ops, "s")
		case x < 50:
			ttl := Pick(r, []int{0, -1, 1, 2, 3, 5})
			sid := g.sidFor(w)
			mode := ""
			switch x := r.Intn(100); {
			case x < 10:
				mode = ":p" // this state's Close panics
			case x < 16:
				mode = ":b" // this state's Close blocks until `goclose`
				g.blockers = append(g.blockers, fmt.Sprintf("%d %s", w, sid))
			}
			ops = append(ops, fmt.Sprintf("o%d/%s%s", ttl, sid, mode))
		case x < 68:
			ops = append(ops, "c")
		case x < 88:
			if allowBlock && blocks < 2 {
				ops = append(ops, "b")
				blocks++
			} else {
				ops = append(ops, "s")
			}
		default:
			ops = append(ops, "p")
			i = n
		}
	}
	if len(ops) == 0 {
		return "-", 0
	}
	// a `b` after a `p` never executes
	eff := 0
	for _, o := range ops {
		if o == "p" {
			break
		}
		if o == "b" {
			eff++
		}
	}
	return strings.Join(ops, ","), eff
}

func (g *c29G) workers() {
	r := g.r
	g.nW = Pick(r, []int{1, 1, 2, 2, 2, 3})
	keys := []string{strings.Repeat("11", 32), strings.Repeat("22", 32)}
	srvs := []string{"41", "42", "43", ""}
	used := map[string]bool{}
	for w := 0; w < g.nW; w++ {
		var k, s string
		for {
			k = keys[0]
			if r.Chance(25) {
				k = keys[1]
			}
			s = Pick(r, srvs)
			if r.Chance(4) {
				s = strings.Repeat("5a", 255)
			} else if r.Chance(4) {
				s = strings.Repeat("5a", 256) // sealSessionToken refuses: the rollback path
			}
			if !used[k+"/"+s] {
				break
			}
		}
		used[k+"/"+s] = true
		g.add("worker %d x%s x%s %d", w, k, s, Pick(r, []int{3, 0, 1, 2, -1}))
	}
}

func (g *c29G) startCall(w int, ident, tok string, accept bool, allowBlock bool) {
	real := tok != "-" && !strings.HasPrefix(tok, "G")
	var pred *c29GT
	if real {
		if u := g.realUnfinished(); len(u) > 0 {
			pred = u[0]
		}
	}
	prog, blocks := g.prog(w, allowBlock)
	if strings.Contains(prog, "o") && accept {
		g.opens++
	}
	a := 0
	if accept {
		a = 1
	}
	g.add("call %d %d %s %s %d %s", g.nextT, w, ident, tok, a, prog)
	g.threads = append(g.threads, &c29GT{id: g.nextT, rem: blocks, real: real, pred: pred})
	g.nextT++
}

func (g *c29G) release() bool {
	// release a blocked thread whose predecessors are finished
	var cands []*c29GT
	for _, t := range g.threads {
		if t.rem > 0 && (t.pred == nil || !t.pred.unfinished()) {
			cands = append(cands, t)
		}
	}
	if len(cands) == 0 {
		return false
	}
	t := Pick(g.r, cands)
	g.add("go %d", t.id)
	t.rem--
	return true
}

func (g *c29G) finish() {
	for _, b := range g.blockers {
		if g.r.Chance(70) {
			g.add("goclose %s", b)
		}
	}
	for i := 0; i < 40; i++ {
		if !g.release() {
			break
		}
	}
	g.add("snap")
}

func (g *c29G) randomOps(n int) {
	r := g.r
	for i := 0; i < n && g.nextT < 14; i++ {
		w := r.Intn(g.nW)
		canReal := len(g.realUnfinished()) <= 1
		switch x := r.Intn(100); {
		case x < 14:
			g.startCall(w, g.ident(), "-", r.Chance(80), true)
		case x < 44:
			if !canReal {
				g.release()
				continue
			}
			if r.Chance(25) {
				tok := g.tokenRef(w)
				var pred *c29GT
				if u := g.realUnfinished(); len(u) > 0 {
					pred = u[0]
				}
				pr := Pick(r, []string{"s", "s,b,s", "s,c,s", "b", "-"})
				g.add("xcall %d %d %s %s %s %s", g.nextT, w, g.ident(), tok, Pick(r, []string{"init", "cont", "exch", "cancel"}), pr)
				g.threads = append(g.threads, &c29GT{id: g.nextT, rem: strings.Count(pr, "b"), real: tok != "-" && !strings.HasPrefix(tok, "G"), pred: pred})
				g.nextT++
				continue
			}
			g.startCall(w, g.ident(), g.tokenRef(w), r.Chance(40), true)
		case x < 54:
			if !canReal {
				g.release()
				continue
			}
			tok := g.tokenRef(w)
			var pred *c29GT
			if u := g.realUnfinished(); len(u) > 0 {
				pred = u[0]
			}
			g.add("delete %d %d %s %s", g.nextT, w, g.ident(), tok)
			g.threads = append(g.threads, &c29GT{id: g.nextT, real: tok != "-" && !strings.HasPrefix(tok, "G"), pred: pred})
			g.nextT++
		case x < 64:
			g.release()
		case x < 71:
			g.add("age %d", Pick(r, []int{0, 1, 1, 2, 3, 6, 31}))
		case x < 77:
			g.add("reap %d", w)
		case x < 81:
			if len(g.perW[w]) > 0 {
				g.add("reapat %d %s %d", w, Pick(r, g.perW[w]), Pick(r, []int{-1, 0, 1}))
			}
		case x < 87:
			g.add("drain %d %d", w, r.Intn(2))
		case x < 90:
			g.add("shutdown %d", w)
		case x < 94 && len(g.blockers) > 0:
			g.add("goclose %s", Pick(r, g.blockers))
		default:
			g.add("snap")
		}
	}
}

func c29NewG(r *Rng) *c29G {
	g := &c29G{r: r, perW: map[int][]string{}}
	// a case speaks about a few callers, so that "same caller" / "other caller" both occur often
	n := r.Range(2, 4)
	for i := 0; i < n; i++ {
		g.idents = append(g.idents, Pick(r, c29Idents))
	}
	return g
}

func c29GenLocal(gen *Gen) {
	r := gen.Rng
	n := gen.N(600, 12000)
	for i := 0; i < n; i++ {
		g := c29NewG(r)
		g.workers()
		switch r.Intn(12) {
		case 0, 1, 2: // life cycle: open, then follow-ups
			w := r.Intn(g.nW)
			id := g.ident()
			g.add("call %d %d %s - 1 o%d/%s,s", g.nextT, w, id, Pick(r, []int{0, 1, 2, 3}), g.newSid(w))
			g.threads = append(g.threads, &c29GT{id: g.nextT})
			g.nextT++
			g.opens++
			g.add("snap")
			g.idents = append(g.idents, id, id)
			g.randomOps(r.Range(3, 10))
		case 3, 4: // contention on one session
			w := r.Intn(g.nW)
			id := g.ident()
			g.add("call 0 %d %s - 1 o3/%s", w, id, g.newSid(w))
			g.nextT = 1
			g.opens = 1
			hold := Pick(r, []string{"s,b,s", "b,c,s", "s,b,b,s", "b,p", "b,c,o2/" + g.newSid(w) + ",s", "b"})
			kinds := []string{"unary", "init", "cont", "exch", "cancel"}
			hk, wkind := Pick(r, kinds), Pick(r, kinds)
			if gen.Thorough() {
				hk, wkind = kinds[(i/5)%5], kinds[i%5] // every pair of route kinds, over and over
			}
			if hk != "unary" {
				hold = Pick(r, []string{"s,b,s", "b,c,s", "s,b,b,s", "b"}) // stream turns cannot open, and do not script panics
			}
			nb := strings.Count(hold, "b")
			if hk == "unary" {
				g.add("call 1 %d %s T0 %d %s", w, id, r.Intn(2), hold)
			} else {
				g.add("xcall 1 %d %s T0 %s %s", w, id, hk, hold)
			}
			holder := &c29GT{id: 1, rem: nb, real: true}
			g.threads = append(g.threads, holder)
			g.nextT = 2
			if wkind != "unary" {
				wp := Pick(r, []string{"s", "s,b,s", "s,c,s", "-"})
				g.add("xcall 2 %d %s T0 %s %s", w, id, wkind, wp)
				g.threads = append(g.threads, &c29GT{id: 2, rem: strings.Count(wp, "b"), real: true, pred: holder})
			} else {
				switch r.Intn(4) {
				case 0:
					g.add("delete 2 %d %s T0", w, id)
					g.threads = append(g.threads, &c29GT{id: 2, real: true, pred: holder})
				case 1:
					g.add("call 2 %d %s T0+pad 0 s,c,s", w, id)
					g.threads = append(g.threads, &c29GT{id: 2, real: true, pred: holder})
				case 2:
					g.add("call 2 %d %s T0 0 s,b,s", w, id)
					g.threads = append(g.threads, &c29GT{id: 2, rem: 1, real: true, pred: holder})
				default:
					g.add("call 2 %d %s T0 0 -", w, Pick(r, []string{id, g.ident()}))
					g.threads = append(g.threads, &c29GT{id: 2, real: true, pred: holder})
				}
			}
			g.nextT = 3
			// things that happen while the session is held
			for k := r.Intn(4); k > 0; k-- {
				switch r.Intn(6) {
				case 0:
					g.add("age %d", Pick(r, []int{1, 4, 31}))
				case 1:
					g.add("reap %d", w)
				case 2:
					g.add("snap")
				case 3:
					g.add("drain %d 1", w)
				case 4:
					g.add("shutdown %d", w)
				default:
					g.startCall(w, g.ident(), "-", true, false)
				}
			}
			g.idents = append(g.idents, id, id)
			g.randomOps(r.Range(1, 6))
		case 5: // panic after open; session stays registered; lock free afterwards
			w := r.Intn(g.nW)
			id := g.ident()
			g.add("call 0 %d %s - 1 o2/%s,p", w, id, g.newSid(w))
			g.add("call 1 %d %s T0 0 s,p", w, id)
			g.add("call 2 %d %s T0 0 s,c", w, id)
			g.nextT, g.opens = 3, 1
			g.add("snap")
			g.randomOps(r.Range(0, 5))
		case 6: // the same session id on two workers; tokens presented crosswise
			if g.nW < 2 {
				g.randomOps(r.Range(4, 10))
				break
			}
			id := g.ident()
			sid := g.newSid(0)
			g.perW[1] = append(g.perW[1], sid)
			g.add("call 0 0 %s - 1 o3/%s", id, sid)
			g.add("call 1 1 %s - 1 o3/%s", id, sid)
			g.add("call 2 1 %s T0 0 s", id)
			g.add("call 3 0 %s T1 0 s", id)
			g.add("delete 4 1 %s T0", id)
			g.add("call 5 0 %s T0 0 s,c", id)
			g.add("call 6 1 %s T1 0 s", id)
			g.nextT, g.opens = 7, 2
			g.add("snap")
			g.randomOps(r.Range(0, 4))
		case 7: // draining
			w := r.Intn(g.nW)
			id := g.ident()
			g.add("call 0 %d %s - 1 o3/%s", w, id, g.newSid(w))
			g.add("drain %d 1", w)
			g.add("call 1 %d %s - 1 o3/%s,s", w, g.ident(), g.newSid(w))
			g.add("call 2 %d %s T0 1 s,c,o1/%s,s", w, id, g.newSid(w))
			g.add("snap")
			if r.Bool() {
				g.add("drain %d 0", w)
				g.add("call 3 %d %s - 1 o3/%s,s", w, g.ident(), g.newSid(w))
			}
			g.nextT, g.opens = 4, 1
			g.randomOps(r.Range(0, 5))
		case 8: // a Close that blocks during shutdown / a sweep, while other sessions are closed, deleted, expired, opened
			w := r.Intn(g.nW)
			id := g.ident()
			a, b, cc := g.newSid(w), g.newSid(w), g.newSid(w)
			g.add("call 0 %d %s - 1 o3/%s:b", w, id, a)
			g.add("call 1 %d %s - 1 o%d/%s", w, id, Pick(r, []int{1, 3}), b)
			g.add("call 2 %d %s - 1 o3/%s%s", w, id, cc, Pick(r, []string{"", ":p", ""}))
			g.blockers = append(g.blockers, fmt.Sprintf("%d %s", w, a))
			g.nextT, g.opens = 3, 3
			if r.Chance(30) {
				g.add("age %d", Pick(r, []int{2, 4}))
				g.add("reap %d", w)
			} else {
				g.add("shutdown %d", w)
			}
			g.add("snap")
			for k := r.Range(1, 4); k > 0; k-- {
				switch r.Intn(5) {
				case 0:
					g.add("delete %d %d %s T1", g.nextT, w, id)
					g.nextT++
				case 1:
					g.add("call %d %d %s T2 0 s,c", g.nextT, w, id)
					g.nextT++
				case 2:
					g.add("age 4")
					g.add("reap %d", w)
				case 3:
					g.add("call %d %d %s - 1 o3/%s,s", g.nextT, w, id, g.newSid(w))
					g.nextT++
					g.opens++
				default:
					g.add("shutdown %d", w)
				}
			}
			g.add("snap")
			g.add("goclose %d %s", w, a)
			g.add("snap")
			g.randomOps(r.Range(0, 3))
		case 9: // states whose Close panics, in sweeps with several due sessions, in shutdown and under DELETE
			w := r.Intn(g.nW)
			id := g.ident()
			a, b, cc := g.newSid(w), g.newSid(w), g.newSid(w)
			g.add("call 0 %d %s - 1 o1/%s:p", w, id, a)
			g.add("call 1 %d %s - 1 o1/%s", w, id, b)
			g.add("call 2 %d %s - 1 o1/%s:p", w, id, cc)
			g.nextT, g.opens = 3, 3
			switch r.Intn(4) {
			case 0:
				g.add("age 2")
				g.add("reap %d", w)
			case 1:
				g.add("shutdown %d", w)
			case 2:
				g.add("delete 3 %d %s T0", w, id)
				g.add("call 4 %d %s T2 0 s,c,s", w, id)
				g.nextT = 5
			default:
				g.add("age 2")
				g.add("call 3 %d %s T0 0 s", w, id) // in-line eviction of a state whose Close panics
				g.nextT = 4
			}
			g.add("snap")
			g.randomOps(r.Range(0, 4))
		default:
			g.randomOps(r.Range(4, 14))
		}
		g.finish()
		gen.Case(g.lines...)
	}
	// pure helpers: AAD / principal key / token layout against the model, broad alphabets
	m := gen.N(60, 800)
	for i := 0; i < m; i++ {
		var lines []string
		for k := 0; k < 12; k++ {
			switch r.Intn(3) {
			case 0:
				d := r.Bytes(r.Intn(4))
				p := r.Bytes(r.Intn(6))
				if r.Chance(30) {
					d = []byte(Pick(r, []string{"", "jwt", "a\x00b", "é", "bearer"}))
				}
				if r.Chance(30) {
					p = []byte(Pick(r, []string{"", "anonymous", "b\x00c", "\x00anonymous", "alice"}))
				}
				lines = append(lines, fmt.Sprintf("aad %s:%s:%s", Pick(r, []string{"a", "u"}), hex.EncodeToString(d), hex.EncodeToString(p)))
			case 1:
				n := Pick(r, []int{0, 1, 2, 12, 254, 255, 256, 300})
				lines = append(lines, fmt.Sprintf("plain x%s x%s", hex.EncodeToString(r.Bytes(n)), hex.EncodeToString(r.Bytes(12))))
			default:
				var p []byte
				switch r.Intn(4) {
				case 0:
					p = r.Bytes(r.Range(0, 12))
				case 1:
					srv := r.Bytes(r.Intn(5))
					p = append(make([]byte, 8), byte(len(srv)+r.Intn(2)*r.Intn(3)))
					p = append(p, srv...)
					p = append(p, r.Bytes(12+r.Intn(2)*r.Range(-2, 2))...)
					p = append(p, r.Bytes(8)...)
				case 2:
					p = r.Bytes(r.Range(20, 60))
				default:
					p = append(r.Bytes(8), 0)
					p = append(p, r.Bytes(20)...)
				}
				lines = append(lines, "parse x"+hex.EncodeToString(p))
			}
		}
		lines = append(lines, "aad anon")
		gen.Case(lines...)
	}
	// concurrent searches (no forced schedule): overlap detector, Close counters, lock probes
	s := gen.N(6, 80)
	for i := 0; i < s; i++ {
		gen.Case(fmt.Sprintf("stress %d %d %d", r.Intn(1000), r.Range(3, 8), r.Range(3, 10)), "realreaper 1")
	}
}

// ---------------------------------------------------------------- concurrent searches

func c29RunToDone(w *c29World, t *c29Thread) {
	w.mu.Lock()
	w.threads = append(w.threads, t)
	w.byID[t.id] = t
	w.mu.Unlock()
	t.start(w)
	deadline := time.Now().Add(2 * time.Second)
	for t.getStatus() != "done" {
		w.mu.Lock()
		stuck := w.stuck
		w.mu.Unlock()
		if stuck || time.Now().After(deadline) {
			w.mu.Lock()
			first := !w.stuck
			w.stuck = true
			w.mu.Unlock()
			if first {
				w.oracle("request-stuck", fmt.Sprintf("concurrent search: request %d did not complete within 2 s (a session lock was never released?)", t.id))
			}
			return
		}
		time.Sleep(50 * time.Microsecond)
	}
}

func c29Stress(c *Case, parent *c29World, seed, n, k int) string {
	sw := &c29World{byID: map[int]*c29Thread{}, states: map[string]*c29State{}, stress: true}
	key := bytes.Repeat([]byte{byte(seed)}, 32)
	sw.workers = []*c29Worker{c29NewWorker(sw, key, "S", 3)}
	c29Cur.Store(sw)
	defer c29Cur.Store(parent)
	sw.stress = false
	mk := func(id int, tok string, prog []string, accept, spin, del bool) *c29Thread {
		return &c29Thread{id: id, worker: 0, ident: "a:6a:61", tokSpec: tok, prog: prog, accept: accept, spin: spin,
			isDelete: del, status: "running", release: make(chan struct{})}
	}
	sidA, sidB := "aa0000000000000000000001", "aa0000000000000000000002"
	c29RunToDone(sw, mk(0, "-", []string{"o3/" + sidA}, true, false, false))
	overlapBase := 0
	// phase A: n goroutines x k calls on one session, a DELETE in the middle
	var wg sync.WaitGroup
	for i := 0; i < n; i++ {
		wg.Add(1)
		go func(i int) {
			defer wg.Done()
			for j := 0; j < k; j++ {
				c29RunToDone(sw, mk(100+i*100+j, "T0", nil, false, true, false))
				if i == 0 && j == k/2 {
					c29RunToDone(sw, mk(90, "T0", nil, false, false, true))
				}
			}
		}(i)
	}
	wg.Wait()
	after := mk(91, "T0", []string{"s"}, false, false, false)
	c29RunToDone(sw, after)
	lostAfter := 0
	if !after.invoked && bytes.Contains(after.body, []byte("session_lost")) {
		lostAfter = 1
	} else {
		c.Oracle("resolved-after-close", "stress: the session was resolvable after DELETE returned 204/200")
	}
	// phase B: an expired session raced by in-line eviction, two sweeps and shutdown
	c29RunToDone(sw, mk(1, "-", []string{"o1/" + sidB}, true, false, false))
	sw.workers[0].h.VerifC29Age(2 * c29Tick)
	for i := 0; i < n; i++ {
		wg.Add(1)
		go func(i int) {
			defer wg.Done()
			switch i % 3 {
			case 0:
				c29RunToDone(sw, mk(5000+i, "T1", nil, false, true, false))
			case 1:
				sw.workers[0].h.VerifC29DrainExpired(time.Now())
			default:
				if i == 2 {
					sw.workers[0].h.DrainHandle().Shutdown()
				} else {
					c29RunToDone(sw, mk(5000+i, "T1", nil, false, false, true))
				}
			}
		}(i)
	}
	wg.Wait()
	sw.workers[0].h.DrainHandle().Shutdown()
	drainOpen := c29DrainSearch(c, seed, n)
	overlaps := 0
	sw.mu.Lock()
	for _, o := range sw.oracles {
		if o[0] == "same-session-overlap" {
			overlaps++
		}
		c.Oracle(o[0], "stress: "+o[1])
	}
	sw.oracles = nil
	closes := "ok"
	for k, st := range sw.states {
		if n := st.closes.Load(); n != 1 {
			closes = fmt.Sprintf("%s=%d", k, n)
			cl := "removed-not-closed"
			if n > 1 {
				cl = "close-more-than-once"
			}
			c.Oracle(cl, fmt.Sprintf("stress: state %s closed %d times after delete/expiry/shutdown races", k, n))
		}
	}
	sw.mu.Unlock()
	locks := "free"
	for _, e := range sw.workers[0].h.VerifC29Entries() {
		locks = "left:" + hex.EncodeToString(e.SID)
		c.Oracle("removed-not-closed", "stress: an entry survived shutdown")
	}
	return fmt.Sprintf("overlap=%d closes=%s locks=%s lostafter=%d drainopen=%d", overlaps-overlapBase, closes, locks, lostAfter, drainOpen)
}

// c29DrainSearch is a SEARCH (no forced schedule is possible without a hook between the drain check
// and the insert): goroutines open sessions on a fresh worker while Drain() and then Shutdown() run;
// the entropy source is made slow so that an open spends a while between reading the drain flag
// and inserting. Afterwards no session may have been opened after Drain returned, and every session
// that was ever registered must have been closed exactly once.
func c29DrainSearch(c *Case, seed, n int) int {
	bad := 0
	for round := 0; round < 6; round++ {
		dw := &c29World{byID: map[int]*c29Thread{}, states: map[string]*c29State{}}
		dw.workers = []*c29Worker{c29NewWorker(dw, bytes.Repeat([]byte{byte(seed + round)}, 32), "D", 3)}
		c29Cur.Store(dw)
		c29Rd.slow.Store(int64(300 * time.Microsecond))
		var wg sync.WaitGroup
		stop := make(chan struct{})
		for i := 0; i < n; i++ {
			wg.Add(1)
			go func(i int) {
				defer wg.Done()
				for j := 0; ; j++ {
					select {
					case <-stop:
						return
					default:
					}
					t := &c29Thread{id: 1000*i + j, worker: 0, ident: "anon", tokSpec: "-", prog: []string{"O"}, accept: true,
						status: "running", release: make(chan struct{})}
					c29RunToDone(dw, t)
				}
			}(i)
		}
		time.Sleep(time.Duration(200+100*round) * time.Microsecond)
		dh := dw.workers[0].h.DrainHandle()
		dh.Drain()
		drained := time.Now()
		dh.Shutdown()
		time.Sleep(2 * time.Millisecond) // let the opens that were in flight finish
		close(stop)
		wg.Wait()
		c29Rd.slow.Store(0)
		dw.mu.Lock()
		states := append([]*c29State(nil), dw.all...)
		dw.mu.Unlock()
		for _, st := range states {
			if !st.registered.Load() {
				continue
			}
			// An insert that happened before the drain flag was set is seen by Shutdown (which runs after
			// Drain) and closed; an OpenSession that read the flag before Drain but inserted after it leaves
			// a session that Shutdown never closes.
			if n := st.closes.Load(); n != 1 && bad < 3 {
				bad++
				cl := "opened-while-draining"
				if n > 1 {
					cl = "close-more-than-once"
				}
				c.Oracle(cl, fmt.Sprintf("concurrent search: a session whose OpenSession started %v before Drain() returned (and returned nil %v after it) had its state closed %d times after Drain()+Shutdown(): it was registered after draining began",
					drained.Sub(st.openStarted), st.openedAt.Sub(drained), n))
			}
		}
		if left := len(dw.workers[0].h.VerifC29Entries()); left > 0 && bad < 3 {
			bad++
			c.Oracle("opened-while-draining", fmt.Sprintf("concurrent search: %d session(s) are registered after Drain()+Shutdown()", left))
		}
		dw.workers[0].h.DrainHandle().Shutdown()
	}
	return bad
}

func c29RealReaper(c *Case, parent *c29World) string {
	sw := &c29World{byID: map[int]*c29Thread{}, states: map[string]*c29State{}}
	key := bytes.Repeat([]byte{0x33}, 32)
	sw.workers = []*c29Worker{c29NewWorkerR(sw, key, "R", 3, 2*time.Millisecond)}
	c29Cur.Store(sw)
	defer c29Cur.Store(parent)
	sid := "bb0000000000000000000001"
	t := &c29Thread{id: 0, worker: 0, ident: "anon", tokSpec: "-", prog: []string{"o1/" + sid}, accept: true,
		status: "running", release: make(chan struct{})}
	c29RunToDone(sw, t)
	sw.mu.Lock()
	st := sw.states["0/"+sid]
	sw.mu.Unlock()
	if st == nil {
		return "evicted=0 closes=none"
	}
	sw.workers[0].h.VerifC29Age(2 * c29Tick)
	// the server's own reaper (started by the server on the request path, tick 2 ms) must evict and close
	deadline := time.Now().Add(2 * time.Second)
	for st.closes.Load() == 0 && time.Now().Before(deadline) {
		time.Sleep(time.Millisecond)
	}
	if st.closes.Load() == 0 {
		c.Oracle("expired-session-never-closed", "a session opened by a request without a session header expired (aged 2 TTLs) but the server's reaper never evicted it: state.Close did not run within 2 s (reaper tick 2 ms)")
	}
	ev := 0
	if len(sw.workers[0].h.VerifC29Entries()) == 0 {
		ev = 1
	}
	sw.workers[0].h.DrainHandle().Shutdown()
	n := st.closes.Load()
	if n != 1 {
		cl := "removed-not-closed"
		if n > 1 {
			cl = "close-more-than-once"
		}
		c.Oracle(cl, fmt.Sprintf("real reaper: expired session closed %d times (reaper tick, then shutdown)", n))
	}
	_ = vgirpc.VerifC29SessionIDLen
	return fmt.Sprintf("evicted=%d closes=%d", ev, n)
}
