package main

import (
	"bytes"
	"compress/gzip"
	"context"
	"crypto/sha256"
	"fmt"
	"io"
	"net/http"
	"net/http/httptest"
	"runtime"
	"strconv"
	"strings"

	"github.com/Query-farm/vgi-rpc-go/vgirpc"
	"github.com/apache/arrow-go/v18/arrow"
	"github.com/apache/arrow-go/v18/arrow/array"
	"github.com/apache/arrow-go/v18/arrow/memory"
	"github.com/klauspost/compress/zstd"
)

// C18 — request bodies are decoded exactly and never beyond their caps.
//
// Script ops (state: one HttpServer, reconfigured by cfg):
//   cfg <maxBody> <maxReq> <maxDec> x<prefix>
//   exempt x<path>                               isMaxBytesExempt
//   read x<path> x<Content-Encoding> <body>      readHTTPBody through the hook, counting body reader
//   post <cl|chunked> x<Content-Encoding> <body> <rec|net>
//                                                real ServeHTTP, POST {prefix}/digest; the compressed
//                                                plain text is the Arrow IPC request carrying the payload
//   route <unary|describe|init|exchange|upload> <cl|chunked> x<Content-Encoding> <body>
//                                                the same request sent to every route that reads a body
//                                                (handleUnary, handleDescribe, handleStreamInit,
//                                                handleStreamExchange, handleUploadURLInit); compared and
//                                                judged on the statuses the body reader owns: 413 / 415 / other
//   dec <codec name> <max> <body>                decompressBounded
//   stack x<Content-Encoding> <max> <len> <kind> <seed> <none|trunc|plain>
//                                                DecodeContentEncoding on a body built by applying the
//                                                header's codings left to right
// <body> = <codec>/<len>/<kind>/<level>/<nframes>/<fcs>/<wlog>/<corrupt>
//          codec raw|zstd|gzip|junk; kind zero|rand|text; corrupt none|trunc:<k>|flip:<permille>
//
// Model lines carry the codec-library facts of the body (measured here with the library itself,
// never with the repo code): fcs=<n|-> init=<0|1> tail=<0|1> ewd=<0|1> frames=<window:len;...|->.

func init() {
	Register(&Prop{
		ID: "C18",
		Rule: "payloads 0..4 MiB (zero/random/text; 32 MiB bombs) x identity/zstd/gzip (levels, 1-3 frames, with/without declared " +
			"content size, window logs, truncation/bit flips, codec mismatch, junk) x caps at exact boundaries of the raw and decoded " +
			"sizes (cap-1, cap, cap+1, x16 derivation, negative, 0, <1 KiB) x Content-Encoding spellings x exempt paths; coding stacks " +
			"to depth 4. Non-trivial: a case with at least one read/post/dec/stack line whose body is compressed; distinct = distinct scripts",
		Gen:  c18Gen,
		Exec: c18Exec,
		NonTrivial: func(lines []string) bool {
			for _, l := range lines {
				if (strings.HasPrefix(l, "read ") || strings.HasPrefix(l, "post ") || strings.HasPrefix(l, "dec ") || strings.HasPrefix(l, "route ")) &&
					(strings.Contains(l, " zstd/") || strings.Contains(l, " gzip/")) {
					return true
				}
				if strings.HasPrefix(l, "stack ") {
					return true
				}
			}
			return false
		},
	})
}

// ------------------------------------------------------------------ generator

func c18GenSpec(r *Rng, thorough bool) c18Spec {
	var s c18Spec
	switch x := r.Intn(100); {
	case x < 45:
		s.codec = "zstd"
	case x < 75:
		s.codec = "gzip"
	case x < 90:
		s.codec = "raw"
	default:
		s.codec = "junk"
	}
	switch x := r.Intn(100); {
	case x < 4:
		s.n = 0
	case x < 10:
		s.n = r.Range(1, 3)
	case x < 30:
		s.n = r.Range(4, 200)
	case x < 65:
		s.n = r.Range(200, 6000)
	case x < 92:
		s.n = r.Range(6000, 300000)
	default:
		s.n = Pick(r, []int{1 << 20, 1<<20 + 1, 3 << 20})
		if thorough && r.Chance(30) {
			s.n = 4 << 20
		}
	}
	s.kind = Pick(r, []string{"zero", "rand", "text", "text"})
	s.level = r.Range(1, 9)
	s.nframes = Pick(r, []int{1, 1, 1, 2, 3})
	s.fcs = r.Chance(55)
	s.wlog = Pick(r, []int{0, 0, 0, 10, 12, 17, 20})
	s.corrupt = "none"
	if s.codec != "raw" && s.codec != "junk" && r.Chance(12) {
		if r.Bool() {
			s.corrupt = fmt.Sprintf("trunc:%d", Pick(r, []int{1, 2, 4, 8, 30}))
		} else {
			s.corrupt = fmt.Sprintf("flip:%d", r.Range(0, 1000))
		}
	}
	return s
}

func c18GenEncHdr(r *Rng, codec string) string {
	name := codec
	switch codec {
	case "raw":
		name = Pick(r, []string{"", "", "identity", "identity", "IDENTITY", " identity "})
		if r.Chance(85) {
			return name
		}
	case "junk":
		name = Pick(r, []string{"zstd", "gzip", "", "identity"})
	}
	switch x := r.Intn(100); {
	case x < 60:
		return name
	case x < 78: // spelling variants of the same coding
		v := name
		switch r.Intn(6) {
		case 0:
			v = strings.ToUpper(v)
		case 1:
			v = " " + v + "\t"
		case 2:
			v = "\u00a0" + v + "\u3000"
		case 3:
			v = strings.Replace(v, "i", "\u0130", 1)
		case 4:
			v = strings.Title(v)
		default:
			v = v + " "
		}
		return v
	case x < 86: // the other codec
		if name == "zstd" {
			return "gzip"
		}
		return "zstd"
	default: // unknown codings
		return Pick(r, []string{"br", "deflate", "zstd, gzip", "gzip,zstd", "x-gzip", "zstd;q=1", "\xff", "zst", "compress", "identity, zstd", "g zip", "\u200bzstd"})
	}
}

func c18AroundInt(r *Rng, v int) int64 {
	return int64(v + Pick(r, []int{-1, 0, 0, 1, 1, 2}))
}

// c18GenCfg picks the three caps around the raw (wire) size, the decoded size and the zstd window.
func c18GenCfg(r *Rng, raw, dec, win int) (int64, int64, int64) {
	big := int64(64 << 20)
	switch r.Intn(9) {
	case 0:
		return big, 0, 0
	case 1: // body cap boundary
		return c18AroundInt(r, raw), 0, Pick(r, []int64{0, 0, -1, int64(dec) - 1, int64(dec), int64(dec) + 1, big})
	case 2: // advertised cap boundary on the raw size
		mr := c18AroundInt(r, raw)
		return Pick(r, []int64{0, big, mr - 1, mr, mr + 1, int64(raw) + 5}), mr, Pick(r, []int64{0, 0, -1, int64(dec), int64(dec) + 1, big})
	case 3: // advertised cap boundary on the decoded size
		mr := c18AroundInt(r, dec)
		return Pick(r, []int64{0, big, mr, mr + 1}), mr, Pick(r, []int64{0, -1, mr - 1, mr, mr + 1, big})
	case 4: // derived x16 boundary
		mb := int64((dec+15)/16) + Pick(r, []int64{-1, 0, 0, 1})
		if mb < int64(raw) {
			mb = int64(raw) + Pick(r, []int64{0, 1})
		}
		return mb, Pick(r, []int64{0, 0, mb + 1, big}), 0
	case 5: // explicit decompressed cap boundary
		return Pick(r, []int64{big, 0, int64(raw) + 1}), Pick(r, []int64{0, 0, big, int64(dec) + 3}),
			Pick(r, []int64{int64(dec) - 1, int64(dec), int64(dec) + 1, 1, 1023, 1024, 1025, int64(win) - 1, int64(win), int64(win) + 1})
	case 6: // negative = disabled
		return Pick(r, []int64{int64(raw), int64(raw) + 1, big, 0}), Pick(r, []int64{0, 0, int64(raw) + 1, int64(dec) - 1}), Pick(r, []int64{-1, -1, -5})
	case 7:
		return Pick(r, []int64{0, -1}), Pick(r, []int64{0, -1}), Pick(r, []int64{0, -1, int64(dec)})
	default:
		return int64(r.Range(0, 3000)), int64(r.Range(0, 3000)), int64(r.Range(-1, 40000))
	}
}

func c18Measure(spec c18Spec, post bool, encHdr string) (raw, dec, win int) {
	plain := c18Payload(spec.n, spec.kind)
	if post {
		plain = c18IPC(plain)
	}
	b := c18Build(spec, plain)
	raw, dec = len(b.body), len(plain)
	if enc := c18RefEnc(encHdr); enc == "zstd" || enc == "gzip" {
		f := c18FactsFor(enc, b.codec, b.pieces)
		dec, win = f.total(), f.maxWindow()
	}
	return
}

func c18GenStackHdr(r *Rng) string {
	depth := Pick(r, []int{0, 1, 1, 2, 2, 2, 3, 3, 4})
	var parts []string
	for i := 0; i < depth; i++ {
		nm := Pick(r, []string{"zstd", "gzip"})
		switch r.Intn(8) {
		case 0:
			nm = strings.ToUpper(nm)
		case 1:
			nm = " " + nm + " "
		case 2:
			nm = "\t" + nm
		}
		parts = append(parts, nm)
		if r.Chance(25) {
			parts = append(parts, Pick(r, []string{"identity", "br", "", " ", "deflate", "Identity", "zstd;q=1"}))
		}
	}
	if depth == 0 && r.Bool() {
		parts = append(parts, Pick(r, []string{"identity", "br", " "}))
	}
	sep := Pick(r, []string{",", ", ", " , "})
	return strings.Join(parts, sep)
}

func c18Gen(g *Gen) {
	r := g.Rng
	paths := []string{"/digest", "/digest", "/health", "/health/x", "/healthz", "/health/", "/x/health", "", "/"}
	n := g.N(150, 6000)
	for i := 0; i < n; i++ {
		prefix := Pick(r, []string{"", "", "", "/vgi", "/api/v1"})
		spec := c18GenSpec(r, g.Thorough())
		encHdr := c18GenEncHdr(r, spec.codec)
		post := r.Chance(35)
		if post {
			// through the real handler only bodies whose delivery means "a valid Arrow request":
			// never junk, never an identity header over an encoded body (the IPC reader's own
			// 400 would be indistinguishable from a body-read refusal)
			if spec.codec == "junk" {
				spec.codec = "zstd"
			}
			if e := c18RefEnc(encHdr); (e == "" || e == "identity") && spec.codec != "raw" {
				encHdr = spec.codec
			}
			if spec.n > 400000 {
				spec.n = r.Range(1000, 400000)
			}
		}
		raw, dec, win := c18Measure(spec, post, encHdr)
		a, b, d := c18GenCfg(r, raw, dec, win)
		lines := []string{fmt.Sprintf("cfg %d %d %d %s", a, b, d, XS(prefix))}
		if post {
			lines = append(lines, fmt.Sprintf("post %s %s %s %s", Pick(r, []string{"cl", "cl", "chunked"}), XS(encHdr), spec, Pick(r, []string{"rec", "rec", "net"})))
			if r.Chance(50) {
				lines = append(lines, fmt.Sprintf("post %s %s %s rec", Pick(r, []string{"cl", "chunked"}), XS(encHdr), spec))
			}
			// the same request on every route that reads a body
			mode := Pick(r, []string{"cl", "chunked", "chunked"})
			for _, rt := range []string{"unary", "describe", "init", "exchange", "upload"} {
				lines = append(lines, fmt.Sprintf("route %s %s %s %s", rt, mode, XS(encHdr), spec))
			}
		} else {
			p := Pick(r, paths)
			if r.Chance(30) {
				p = prefix + p
			}
			lines = append(lines, fmt.Sprintf("read %s %s %s", XS(p), XS(encHdr), spec))
			if r.Chance(40) {
				lines = append(lines, fmt.Sprintf("read %s %s %s", XS(Pick(r, []string{"/digest", prefix + "/health", "/health"})), XS(encHdr), spec))
			}
			lines = append(lines, fmt.Sprintf("exempt %s", XS(p)))
		}
		// decompressBounded directly, limits around the decoded size / window
		if spec.codec != "raw" {
			name := Pick(r, []string{spec.codec, spec.codec, spec.codec, "zstd", "gzip", "br", "empty", "identity", "ZSTD"})
			if spec.codec == "junk" {
				name = Pick(r, []string{"zstd", "gzip", "br"})
			}
			_, dd, ww := c18Measure(spec, false, name)
			mx := Pick(r, []int64{0, -1, int64(dd) - 1, int64(dd), int64(dd) + 1, 1, 1024, int64(ww) - 1, int64(ww), int64(ww) + 1, 64 << 20})
			lines = append(lines, fmt.Sprintf("dec %s %d %s", name, mx, spec))
		}
		g.Case(lines...)
	}
	// refusals on every body-reading route: caps just below/at the wire and decoded sizes, unknown codings
	nr := g.N(30, 1200)
	for i := 0; i < nr; i++ {
		prefix := Pick(r, []string{"", "", "/vgi"})
		spec := c18GenSpec(r, false)
		if spec.codec == "junk" {
			spec.codec = "gzip"
		}
		if spec.n > 60000 {
			spec.n = r.Range(100, 60000)
		}
		spec.corrupt = "none"
		encHdr := spec.codec
		if spec.codec == "raw" {
			encHdr = Pick(r, []string{"", "identity"})
		}
		if r.Chance(25) {
			encHdr = Pick(r, []string{"br", "deflate", "zstd, gzip", "x-gzip", "compress"})
		}
		raw, dec, _ := c18Measure(spec, true, encHdr)
		var a, b, d int64
		switch r.Intn(5) {
		case 0:
			a, b, d = 0, int64(raw)-1, 0
		case 1:
			a, b, d = Pick(r, []int64{0, 64 << 20}), int64(dec)-1, Pick(r, []int64{0, -1})
		case 2:
			a, b, d = 0, int64(dec), 0
		case 3:
			a, b, d = 64<<20, 0, int64(dec)-1
		default:
			a, b, d = int64(raw), int64(raw)+1, 0
		}
		lines := []string{fmt.Sprintf("cfg %d %d %d %s", a, b, d, XS(prefix))}
		mode := Pick(r, []string{"cl", "chunked", "chunked"})
		for _, rt := range []string{"unary", "describe", "init", "exchange", "upload"} {
			lines = append(lines, fmt.Sprintf("route %s %s %s %s", rt, mode, XS(encHdr), spec))
		}
		g.Case(lines...)
	}
	// coding stacks
	ns := g.N(80, 4000)
	for i := 0; i < ns; i++ {
		var lines []string
		for k := 0; k < 3; k++ {
			hdr := c18GenStackHdr(r)
			ln := Pick(r, []int{0, 1, 17, 100, 1000, 5000, 40000})
			if r.Chance(30) {
				ln = r.Range(16, 20000)
			}
			mode := Pick(r, []string{"none", "none", "none", "none", "none", "none", "trunc", "plain"})
			if mode == "plain" && ln < 16 {
				ln = 64
			}
			mx := Pick(r, []int64{0, 0, -1, int64(ln) - 1, int64(ln), int64(ln) + 1, 1024, int64(ln) + 40, 1 << 20})
			lines = append(lines, fmt.Sprintf("stack %s %d %d %s %d %s", XS(hdr), mx, ln, Pick(r, []string{"zero", "rand", "text"}), r.Intn(1<<30), mode))
		}
		g.Case(lines...)
	}
	// decompression bombs: 32 MiB of zeros behind small caps
	for _, bomb := range []string{
		"zstd/33554432/zero/1/1/0/10/none", "zstd/33554432/zero/1/1/1/0/none", "gzip/33554432/zero/6/1/0/0/none", "zstd/33554432/zero/3/2/0/12/none",
	} {
		codec := bomb[:4]
		g.Case("cfg 65536 0 0 x", fmt.Sprintf("read %s %s %s", XS("/digest"), XS(codec), bomb),
			"cfg 0 4096 0 x", fmt.Sprintf("read %s %s %s", XS("/digest"), XS(codec), bomb),
			fmt.Sprintf("dec %s 4096 %s", codec, bomb), fmt.Sprintf("dec %s 1048576 %s", codec, bomb))
	}
}

// ------------------------------------------------------------------ bodies

type c18Spec struct {
	codec   string
	n       int
	kind    string
	level   int
	nframes int
	fcs     bool
	wlog    int
	corrupt string
}

func (s c18Spec) String() string {
	f := 0
	if s.fcs {
		f = 1
	}
	return fmt.Sprintf("%s/%d/%s/%d/%d/%d/%d/%s", s.codec, s.n, s.kind, s.level, s.nframes, f, s.wlog, s.corrupt)
}

func c18ParseSpec(t string) (c18Spec, bool) {
	p := strings.Split(t, "/")
	if len(p) != 8 {
		return c18Spec{}, false
	}
	var s c18Spec
	var err [5]error
	s.codec, s.kind, s.corrupt = p[0], p[2], p[7]
	s.n, err[0] = strconv.Atoi(p[1])
	s.level, err[1] = strconv.Atoi(p[3])
	s.nframes, err[2] = strconv.Atoi(p[4])
	var f int
	f, err[3] = strconv.Atoi(p[5])
	s.fcs = f == 1
	s.wlog, err[4] = strconv.Atoi(p[6])
	for _, e := range err {
		if e != nil {
			return s, false
		}
	}
	if s.n < 0 || s.n > 64<<20 || s.nframes < 1 || s.nframes > 8 {
		return s, false
	}
	return s, true
}

func c18Payload(n int, kind string) []byte {
	b := make([]byte, n)
	switch kind {
	case "zero":
	case "rand":
		r := NewRng(uint64(n)*104729 + 7)
		for i := 0; i+8 <= n; i += 8 {
			v := r.U64()
			for k := 0; k < 8; k++ {
				b[i+k] = byte(v >> (8 * k))
			}
		}
		for i := n - n%8; i < n; i++ {
			b[i] = byte(r.U64())
		}
	default:
		const t = "request{method:digest,params:{data:binary}} row=0001 value=3.14159 "
		for i := range b {
			b[i] = t[(i+i/len(t))%len(t)]
		}
	}
	return b
}

// c18ZstdLevel maps the spec's level 1..9 onto klauspost's four levels, skewed to the fast ones
// (level 4 clears tens of MiB of tables per frame).
func c18ZstdLevel(l int) zstd.EncoderLevel {
	switch {
	case l >= 1 && l <= 4:
		return zstd.EncoderLevel(l)
	case l == 5 || l == 6:
		return zstd.SpeedFastest
	case l == 7 || l == 8:
		return zstd.SpeedDefault
	case l == 9:
		return zstd.SpeedBetterCompression
	}
	return zstd.SpeedFastest
}

var c18Encoders = map[[2]int]*zstd.Encoder{}

func c18Encoder(level, wlog int) *zstd.Encoder {
	key := [2]int{int(c18ZstdLevel(level)), wlog}
	if e, ok := c18Encoders[key]; ok {
		return e
	}
	opts := []zstd.EOption{zstd.WithEncoderLevel(c18ZstdLevel(level)), zstd.WithEncoderConcurrency(1)}
	if wlog > 0 {
		opts = append(opts, zstd.WithWindowSize(1<<wlog))
	}
	e, err := zstd.NewWriter(nil, opts...)
	if err != nil {
		panic(err)
	}
	c18Encoders[key] = e
	return e
}

func c18EncodePiece(codec string, chunk []byte, s c18Spec) []byte {
	switch codec {
	case "zstd":
		enc := c18Encoder(s.level, s.wlog)
		if s.fcs {
			return enc.EncodeAll(chunk, nil)
		}
		var buf bytes.Buffer
		enc.Reset(&buf)
		h := len(chunk) / 2
		enc.Write(chunk[:h])
		enc.Flush() // forces the frame header out before the size is known: no declared content size
		enc.Write(chunk[h:])
		enc.Close()
		return buf.Bytes()
	case "gzip":
		lv := s.level
		if lv < 1 || lv > 9 {
			lv = gzip.DefaultCompression
		}
		var buf bytes.Buffer
		w, _ := gzip.NewWriterLevel(&buf, lv)
		w.Write(chunk)
		w.Close()
		return buf.Bytes()
	}
	return chunk
}

// c18Built is a request body plus what the harness knows about its construction.
type c18Built struct {
	plain  []byte   // what the client encoded
	body   []byte   // bytes on the wire
	codec  string   // construction codec (raw|zstd|gzip|junk)
	pieces [][]byte // wire pieces (frames / members), last one possibly corrupted
}

var c18BuildCache = map[string]*c18Built{}

// c18Build memoizes the large bodies (bombs are built once per run).
func c18Build(s c18Spec, plain []byte) *c18Built {
	if len(plain) < 8<<20 {
		return c18BuildRaw(s, plain)
	}
	key := s.String() + "#" + strconv.Itoa(len(plain))
	if b, ok := c18BuildCache[key]; ok {
		return b
	}
	if len(c18BuildCache) > 6 {
		c18BuildCache = map[string]*c18Built{}
	}
	b := c18BuildRaw(s, plain)
	c18BuildCache[key] = b
	return b
}

func c18BuildRaw(s c18Spec, plain []byte) *c18Built {
	b := &c18Built{plain: plain, codec: s.codec}
	switch s.codec {
	case "raw":
		b.body, b.pieces = plain, [][]byte{plain}
		return b
	case "junk":
		r := NewRng(uint64(len(plain))*31 + 5)
		b.body = r.Bytes(len(plain))
		b.pieces = [][]byte{b.body}
		return b
	}
	k := s.nframes
	for i := 0; i < k; i++ {
		lo, hi := len(plain)*i/k, len(plain)*(i+1)/k
		b.pieces = append(b.pieces, c18EncodePiece(s.codec, plain[lo:hi], s))
	}
	last := append([]byte{}, b.pieces[k-1]...)
	switch {
	case strings.HasPrefix(s.corrupt, "trunc:"):
		n, _ := strconv.Atoi(s.corrupt[6:])
		if n >= len(last) {
			n = len(last) - 1
		}
		if n > 0 {
			last = last[:len(last)-n]
		}
	case strings.HasPrefix(s.corrupt, "flip:"):
		pm, _ := strconv.Atoi(s.corrupt[5:])
		if len(last) > 0 {
			last[(len(last)-1)*pm/1000] ^= 0x41
		}
	}
	b.pieces[k-1] = last
	for _, p := range b.pieces {
		b.body = append(b.body, p...)
	}
	return b
}

// ------------------------------------------------------------------ codec-library facts

type c18Frame struct{ window, n int }

type c18Facts struct {
	fcs     int // -1 = none
	initErr bool
	frames  []c18Frame
	tailErr bool
	ewd     bool // the terminal error is handed over together with the last decoded bytes
}

func (f c18Facts) String() string {
	fc := "-"
	if f.fcs >= 0 {
		fc = strconv.Itoa(f.fcs)
	}
	fr := "-"
	if len(f.frames) > 0 {
		var p []string
		for _, x := range f.frames {
			p = append(p, fmt.Sprintf("%d:%d", x.window, x.n))
		}
		fr = strings.Join(p, ";")
	}
	b := func(x bool) int {
		if x {
			return 1
		}
		return 0
	}
	return fmt.Sprintf("fcs=%s init=%d tail=%d ewd=%d frames=%s", fc, b(f.initErr), b(f.tailErr), b(f.ewd), fr)
}

func (f c18Facts) total() int {
	t := 0
	for _, x := range f.frames {
		t += x.n
	}
	return t
}

func (f c18Facts) clean() bool { return !f.initErr && !f.tailErr }

func (f c18Facts) maxWindow() int {
	m := 0
	for _, x := range f.frames {
		if x.window > m {
			m = x.window
		}
	}
	return m
}

var c18RefZstd *zstd.Decoder

// c18RefDecode: the library's own streaming decoder, unlimited.
func c18RefDecode(codec string, piece []byte) (n int, out []byte, initErr bool, err error) {
	switch codec {
	case "zstd":
		if c18RefZstd == nil {
			zr, e := zstd.NewReader(nil)
			if e != nil {
				panic(e)
			}
			c18RefZstd = zr
		}
		if e := c18RefZstd.Reset(bytes.NewReader(piece)); e != nil {
			return 0, nil, true, e
		}
		out, err = io.ReadAll(c18RefZstd)
		return len(out), out, false, err
	case "gzip":
		gr, e := gzip.NewReader(bytes.NewReader(piece))
		if e != nil {
			return 0, nil, true, e
		}
		out, err = io.ReadAll(gr)
		return len(out), out, false, err
	}
	return 0, nil, true, fmt.Errorf("no codec")
}

func c18Window(piece []byte) (int, bool) {
	var h zstd.Header
	if err := h.Decode(piece); err != nil {
		return 0, false
	}
	if h.Skippable {
		return 0, true
	}
	if h.SingleSegment {
		w := int(h.FrameContentSize)
		if w < 1024 {
			w = 1024
		}
		return w, true
	}
	return int(h.WindowSize), true
}

// c18FactsFor measures what decoding `pieces` (concatenated) as `codec` does.
// When the body was built with another codec the whole body is one opaque piece.
func c18FactsFor(codec string, built string, pieces [][]byte) c18Facts {
	f := c18Facts{fcs: -1}
	if codec != built {
		var all []byte
		for _, p := range pieces {
			all = append(all, p...)
		}
		pieces = [][]byte{all}
	}
	var whole []byte
	for _, p := range pieces {
		whole = append(whole, p...)
	}
	if codec == "zstd" {
		var h zstd.Header
		if err := h.Decode(whole); err == nil && h.HasFCS {
			f.fcs = int(h.FrameContentSize)
		}
	}
	for i, p := range pieces {
		n, _, ierr, err := c18RefDecode(codec, p)
		if ierr {
			if i == 0 && codec == "gzip" {
				f.initErr = true
			} else {
				// a later member/frame whose header the library rejects: the stream fails there,
				// and (gzip multistream) the error comes with the previous member's last bytes
				f.tailErr = true
				f.ewd = c18ErrWithData(codec, whole, f.total())
			}
			return f
		}
		w := 0
		if codec == "zstd" {
			if ww, ok := c18Window(p); ok {
				w = ww
			}
		}
		f.frames = append(f.frames, c18Frame{w, n})
		if err != nil {
			f.tailErr = true
			f.ewd = c18ErrWithData(codec, whole, f.total())
			return f
		}
	}
	return f
}

// c18ErrWithData: does reading exactly the decodable prefix already report the error?
// (io.ReadAll over io.LimitReader, the read pattern of a bounded decode.)
func c18ErrWithData(codec string, whole []byte, avail int) bool {
	var rd io.Reader
	switch codec {
	case "zstd":
		if err := c18RefZstd.Reset(bytes.NewReader(whole)); err != nil {
			return false
		}
		rd = c18RefZstd
	case "gzip":
		gr, err := gzip.NewReader(bytes.NewReader(whole))
		if err != nil {
			return false
		}
		rd = gr
	default:
		return false
	}
	_, err := io.ReadAll(io.LimitReader(rd, int64(avail)))
	return err != nil
}

func c18ValidFieldValue(s string) bool {
	for i := 0; i < len(s); i++ {
		b := s[i]
		if (b < 0x20 && b != '\t') || b == 0x7f {
			return false
		}
	}
	return true
}

// ------------------------------------------------------------------ independent cap specification (oracle side)

type c18Cfg struct {
	maxBody, maxReq, maxDec int64
	prefix                  string
}

func c18SpecExempt(prefix, path string) bool {
	for _, base := range []string{prefix + "/health", "/health"} {
		if path == base || strings.HasPrefix(path, base+"/") {
			return true
		}
	}
	return false
}

// caps in force, as documented on the setters. adv = the advertised max_request_bytes.
type c18Caps struct {
	rawAdv, rawBody int64 // 0 = not in force
	decAdv, decOwn  int64 // decoded-size caps: advertised request cap / explicit or derived x16 cap
}

func c18SpecCaps(c c18Cfg, exempt bool) c18Caps {
	var k c18Caps
	applied := c.maxReq > 0 && !exempt && (c.maxBody <= 0 || c.maxReq <= c.maxBody)
	if applied {
		k.rawAdv, k.decAdv = c.maxReq, c.maxReq
	} else if c.maxBody > 0 {
		k.rawBody = c.maxBody
	}
	switch {
	case c.maxDec > 0:
		k.decOwn = c.maxDec
	case c.maxDec == 0 && !applied && c.maxBody > 0:
		k.decOwn = c.maxBody * 16
	}
	return k
}

func c18Over(n int, cap int64) bool { return cap > 0 && int64(n) > cap }

func c18RefEnc(h string) string { return strings.ToLower(strings.TrimSpace(h)) }

// c18Judge states the property on one observed outcome. status 200 means "delivered to the handler".
func c18Judge(c *Case, line string, cfg c18Cfg, exempt bool, cl int64, b *c18Built, encHdr string, facts c18Facts,
	status int, got []byte, gotKnown bool) {
	k := c18SpecCaps(cfg, exempt)
	enc := c18RefEnc(encHdr)
	raw := len(b.body)
	fast := cfg.maxReq > 0 && !exempt && cl > cfg.maxReq
	rawOverAdv, rawOverBody := c18Over(raw, k.rawAdv) || fast, c18Over(raw, k.rawBody)
	desc := func(what string) string {
		return fmt.Sprintf("%s: %s [maxBody=%d maxReq=%d maxDec=%d exempt=%v raw=%d %s status=%d]", line, what, cfg.maxBody, cfg.maxReq, cfg.maxDec, exempt, raw, facts, status)
	}
	if rawOverAdv || rawOverBody {
		switch {
		case status == 200:
			c.Oracle("raw-over-cap-accepted", desc("raw body over a cap was accepted"))
		case rawOverAdv && !rawOverBody && status != 413:
			c.Oracle("advertised-cap-overrun-not-413", desc("raw body over max_request_bytes"))
		case rawOverBody && !rawOverAdv && status != 400:
			c.Oracle("body-cap-overrun-not-400", desc("raw body over the (non-advertised) body cap"))
		case status != 413 && status != 400:
			c.Oracle("over-cap-wrong-status", desc("over a cap"))
		}
		return
	}
	switch enc {
	case "", "identity":
		if status != 200 {
			c.Oracle("within-caps-refused", desc("identity body within caps refused"))
		} else if gotKnown && !bytes.Equal(got, b.body) {
			c.Oracle("decoded-bytes-differ", desc("identity body altered"))
		}
		return
	case "zstd", "gzip":
	default:
		if status != 415 {
			c.Oracle("unknown-coding-not-415", desc(fmt.Sprintf("unknown coding %q", enc)))
		}
		return
	}
	// compressed
	declared := facts.fcs
	decoded := facts.total()
	overAdv := c18Over(decoded, k.decAdv) || (enc == "zstd" && c18Over(declared, k.decAdv))
	overOwn := c18Over(decoded, k.decOwn) || (enc == "zstd" && c18Over(declared, k.decOwn))
	eff := int64(0)
	for _, v := range []int64{k.decAdv, k.decOwn} {
		if v > 0 && (eff == 0 || v < eff) {
			eff = v
		}
	}
	// zstd treats the decoded-size cap as a memory bound: a frame whose window exceeds it is
	// refused as undecodable (400) whatever its content size — the property excludes these
	// frames from the exactness and status clauses; they must still never be accepted over a cap.
	hedge := enc == "zstd" && eff > 0 && int64(facts.maxWindow()) > eff
	if facts.clean() && (overAdv || overOwn) {
		switch {
		case status == 200:
			c.Oracle("decoded-over-cap-accepted", desc("decoded size over a cap was accepted"))
		case hedge:
			c.Stat("hedge-window-over-cap")
		case overAdv && !overOwn && status != 413:
			c.Oracle("advertised-cap-overrun-not-413", desc("decoded size over max_request_bytes"))
		case overOwn && !overAdv && status == 413:
			c.Oracle("decoded-over-nonadvertised-cap-413", desc("decoded size over the non-advertised decompressed cap answered 413"))
		case status != 413 && status != 400:
			c.Oracle("over-cap-wrong-status", desc("over a cap"))
		}
		return
	}
	if !facts.clean() {
		if status == 200 {
			// a corrupt stream may only be accepted if the library itself delivered it all (it did not)
			c.Oracle("corrupt-body-accepted", desc("stream the library rejects was accepted"))
		}
		return
	}
	// clean and within every cap: must be delivered exactly, unless a zstd window exceeds the
	// decoded-size cap (the decoder treats the cap as a memory bound) — excluded by the property.
	if hedge {
		c.Stat("hedge-window-over-cap")
		return
	}
	if status != 200 {
		if cfg.maxDec < 0 && k.decAdv == 0 && cfg.maxBody > 0 && int64(decoded) > 16*cfg.maxBody {
			c.Oracle("negative-decompressed-cap-not-disabled", desc("SetMaxDecompressedBodySize(<0) documents 'no cap', body refused"))
		} else {
			c.Oracle("within-caps-refused", desc("body within every cap refused"))
		}
	} else if gotKnown && !bytes.Equal(got, b.plain) {
		c.Oracle("decoded-bytes-differ", desc(fmt.Sprintf("decoded %d bytes differ from the %d bytes the client encoded", len(got), len(b.plain))))
	}
}

// ------------------------------------------------------------------ exec

type c18DigestParams struct {
	Data []byte `vgirpc:"data"`
}

var c18StreamSchema = arrow.NewSchema([]arrow.Field{{Name: "v", Type: arrow.BinaryTypes.Binary}}, nil)

type c18NoUploads struct{}

func (c18NoUploads) GenerateUploadURL(*arrow.Schema) (vgirpc.UploadURL, error) {
	return vgirpc.UploadURL{}, fmt.Errorf("no storage in this harness")
}

var c18Routes = map[string]string{
	"unary": "/digest", "describe": "/__describe__", "init": "/xstream/init", "exchange": "/xstream/exchange", "upload": "/__upload_url__/init",
}

// c18JudgeRoute: the status clauses of the property on one route, restricted to the statuses only
// the body reader (or the fast path) produces. got = 413 | 415 | 0 (anything else).
func c18JudgeRoute(c *Case, route, line string, cfg c18Cfg, cl int64, b *c18Built, encHdr string, facts c18Facts, got int) {
	k := c18SpecCaps(cfg, false)
	enc := c18RefEnc(encHdr)
	raw := len(b.body)
	fast := cfg.maxReq > 0 && cl > cfg.maxReq
	desc := func(what string) string {
		return fmt.Sprintf("%s: %s [route=%s maxBody=%d maxReq=%d maxDec=%d raw=%d %s answered=%d]", line, what, route, cfg.maxBody, cfg.maxReq, cfg.maxDec, raw, facts, got)
	}
	rawOverAdv, rawOverBody := c18Over(raw, k.rawAdv) || fast, c18Over(raw, k.rawBody)
	switch {
	case rawOverAdv && !rawOverBody:
		if got != 413 {
			c.Oracle("route-"+route+"-advertised-cap-overrun-not-413", desc("body over max_request_bytes"))
		}
		return
	case rawOverAdv || rawOverBody:
		if got == 415 {
			c.Oracle("route-"+route+"-over-cap-wrong-status", desc("body over a cap answered 415"))
		}
		return
	}
	switch enc {
	case "", "identity":
		if got != 0 {
			c.Oracle("route-"+route+"-within-caps-refused", desc("identity body within caps"))
		}
		return
	case "zstd", "gzip":
	default:
		if got != 415 {
			c.Oracle("route-"+route+"-unknown-coding-not-415", desc(fmt.Sprintf("unknown coding %q", enc)))
		}
		return
	}
	decoded := facts.total()
	overAdv := c18Over(decoded, k.decAdv) || (enc == "zstd" && c18Over(facts.fcs, k.decAdv))
	overOwn := c18Over(decoded, k.decOwn) || (enc == "zstd" && c18Over(facts.fcs, k.decOwn))
	eff := int64(0)
	for _, v := range []int64{k.decAdv, k.decOwn} {
		if v > 0 && (eff == 0 || v < eff) {
			eff = v
		}
	}
	hedge := enc == "zstd" && eff > 0 && int64(facts.maxWindow()) > eff
	switch {
	case got == 415:
		c.Oracle("route-"+route+"-known-coding-415", desc("zstd/gzip body answered 415"))
	case !facts.clean() || hedge:
		// refusal class of undecodable streams is 400 or 413 depending on where the decoder stops
	case overAdv && !overOwn && got != 413:
		c.Oracle("route-"+route+"-advertised-cap-overrun-not-413", desc("decoded size over max_request_bytes"))
	case overOwn && !overAdv && got == 413:
		c.Oracle("route-"+route+"-nonadvertised-cap-413", desc("decoded size over the non-advertised decompressed cap"))
	case !overAdv && !overOwn && got != 0:
		c.Oracle("route-"+route+"-within-caps-refused", desc("body within every cap"))
	}
}

type c18Env struct {
	cfg c18Cfg
	h   *vgirpc.HttpServer
	ts  *httptest.Server
}

func c18Digest(b []byte) string {
	s := sha256.Sum256(b)
	return fmt.Sprintf("digest:%d:%x", len(b), s[:10])
}

func c18Sha(b []byte) string {
	s := sha256.Sum256(b)
	return fmt.Sprintf("%x", s[:8])
}

func c18NewEnv(cfg c18Cfg) *c18Env {
	s := vgirpc.NewServer()
	vgirpc.Unary(s, "digest", func(_ context.Context, _ *vgirpc.CallContext, p c18DigestParams) (string, error) {
		return c18Digest(p.Data), nil
	})
	vgirpc.Exchange(s, "xstream", c18StreamSchema, c18StreamSchema, func(_ context.Context, _ *vgirpc.CallContext, _ c18DigestParams) (*vgirpc.StreamResult, error) {
		return nil, fmt.Errorf("stream body is never run by this harness")
	})
	h := vgirpc.NewHttpServer(s)
	h.SetUploadURLProvider(c18NoUploads{})
	if cfg.prefix != "" {
		h.SetPrefix(cfg.prefix)
	}
	h.SetMaxBodySize(cfg.maxBody)
	h.SetMaxRequestBytes(cfg.maxReq)
	h.SetMaxDecompressedBodySize(cfg.maxDec)
	return &c18Env{cfg: cfg, h: h}
}

func (e *c18Env) close() {
	if e.ts != nil {
		e.ts.Close()
	}
}

var c18DefaultCfg = c18Cfg{maxBody: 64 << 20}

func c18IPC(payload []byte) []byte {
	mem := memory.NewGoAllocator()
	schema := arrow.NewSchema([]arrow.Field{{Name: "data", Type: arrow.BinaryTypes.Binary}}, nil)
	bld := array.NewBinaryBuilder(mem, arrow.BinaryTypes.Binary)
	bld.Append(payload)
	col := bld.NewArray()
	bld.Release()
	batch := array.NewRecordBatch(schema, []arrow.Array{col}, 1)
	col.Release()
	var buf bytes.Buffer
	if err := vgirpc.WriteRequest(&buf, "digest", batch, ""); err != nil {
		panic(err)
	}
	batch.Release()
	return buf.Bytes()
}

type c18CountingReader struct {
	r io.Reader
	n int
}

func (c *c18CountingReader) Read(p []byte) (int, error) {
	n, err := c.r.Read(p)
	c.n += n
	return n, err
}

func c18ModelCodec(name string) string {
	switch name {
	case "zstd", "gzip":
		return name
	}
	return "other"
}

func c18Exec(c *Case) {
	env := c18NewEnv(c18DefaultCfg)
	defer func() { env.close() }()
	for _, l := range c.Lines {
		f := strings.Fields(l)
		if len(f) == 0 {
			continue
		}
		switch {
		case f[0] == "cfg" && len(f) == 5:
			a, e1 := strconv.ParseInt(f[1], 10, 64)
			b, e2 := strconv.ParseInt(f[2], 10, 64)
			d, e3 := strconv.ParseInt(f[3], 10, 64)
			p, ok := UnX(f[4])
			if e1 != nil || e2 != nil || e3 != nil || !ok {
				c.Out(l, "err:bad-op")
				continue
			}
			env.close()
			env = c18NewEnv(c18Cfg{a, b, d, string(p)})
			c.Out(l, "ok")
		case f[0] == "exempt" && len(f) == 2:
			p := UnXS(f[1])
			got := env.h.VerifC18IsExempt(p)
			if got != c18SpecExempt(env.cfg.prefix, p) {
				c.Oracle("exempt-path-misjudged", fmt.Sprintf("prefix %q path %q: exempt=%v", env.cfg.prefix, p, got))
			}
			c.Out(l, fmt.Sprintf("exempt=%v", got))
		case f[0] == "read" && len(f) == 4:
			spec, ok := c18ParseSpec(f[3])
			if !ok {
				c.Out(l, "err:bad-op")
				continue
			}
			path, encHdr := UnXS(f[1]), UnXS(f[2])
			b := c18Build(spec, c18Payload(spec.n, spec.kind))
			enc := c18RefEnc(encHdr)
			facts := c18Facts{fcs: -1}
			if enc == "zstd" || enc == "gzip" {
				facts = c18FactsFor(enc, b.codec, b.pieces)
			}
			cr := &c18CountingReader{r: bytes.NewReader(b.body)}
			req := httptest.NewRequest("POST", "http://x/", io.NopCloser(cr))
			req.URL.Path = path
			if encHdr != "" {
				req.Header["Content-Encoding"] = []string{encHdr}
			}
			var ms0, ms1 runtime.MemStats
			bomb := facts.total() >= 8<<20
			if bomb {
				runtime.ReadMemStats(&ms0)
			}
			got, err := env.h.VerifC18ReadBody(req)
			if bomb {
				runtime.ReadMemStats(&ms1)
			}
			exempt := c18SpecExempt(env.cfg.prefix, path)
			status, obs := 200, ""
			if err != nil {
				status = env.h.VerifC18BodyErrorStatus(err)
				kind, _ := vgirpc.VerifC18ErrorKind(err)
				switch {
				case status == 413:
					obs = "413 too-large"
				case status == 415:
					obs = "415 unsupported"
				case status == 400:
					obs = "400 bad-request"
				default:
					obs = fmt.Sprintf("%d %s", status, kind)
				}
				c.Stat("read-" + obs[:3])
			} else {
				obs = fmt.Sprintf("200 body len=%d sha=%s", len(got), c18Sha(got))
				c.Stat("read-200-" + c18ModelCodec(enc))
			}
			c18Judge(c, l, env.cfg, exempt, -1, b, encHdr, facts, status, got, err == nil)
			// never more than one byte past the raw cap
			k := c18SpecCaps(env.cfg, exempt)
			rawCap := k.rawAdv + k.rawBody
			if rawCap > 0 && int64(cr.n) > rawCap+1 {
				c.Oracle("raw-read-past-cap", fmt.Sprintf("%s: %d raw bytes pulled with a raw cap of %d", l, cr.n, rawCap))
			}
			if bomb {
				eff := int64(0)
				for _, v := range []int64{k.decAdv, k.decOwn} {
					if v > 0 && (eff == 0 || v < eff) {
						eff = v
					}
				}
				delta := int64(ms1.TotalAlloc - ms0.TotalAlloc)
				if eff > 0 && int64(facts.total()) > eff && delta > 4*eff+(24<<20) {
					c.Oracle("decoded-far-past-cap", fmt.Sprintf("%s: %d bytes allocated while decoding under a cap of %d", l, delta, eff))
				}
				c.Stat("bomb")
			}
			expect := b.plain
			if enc != "zstd" && enc != "gzip" {
				expect = b.body // sent as is: what the client "encoded" is the wire body itself
			}
			c.Out(fmt.Sprintf("read %s %d %s sha=%s %s", f[1], len(b.body), f[2], c18Sha(expect), facts), fmt.Sprintf("%s raw=%d", obs, cr.n))
		case f[0] == "post" && len(f) == 5:
			spec, ok := c18ParseSpec(f[3])
			if !ok || (f[1] != "cl" && f[1] != "chunked") {
				c.Out(l, "err:bad-op")
				continue
			}
			encHdr := UnXS(f[2])
			payload := c18Payload(spec.n, spec.kind)
			b := c18Build(spec, c18IPC(payload))
			enc := c18RefEnc(encHdr)
			facts := c18Facts{fcs: -1}
			if enc == "zstd" || enc == "gzip" {
				facts = c18FactsFor(enc, b.codec, b.pieces)
			}
			path := env.cfg.prefix + "/digest"
			cl := int64(len(b.body))
			if f[1] == "chunked" {
				cl = -1
			}
			var status int
			var respBody []byte
			if f[4] == "net" && c18ValidFieldValue(encHdr) {
				if env.ts == nil {
					env.ts = httptest.NewServer(env.h)
				}
				var rd io.Reader = bytes.NewReader(b.body)
				if cl < 0 {
					rd = io.NopCloser(rd) // hides the length: chunked transfer
				}
				req, err := http.NewRequest("POST", env.ts.URL+path, rd)
				if err != nil {
					c.Out(l, "err:transport")
					continue
				}
				req.Header.Set("Content-Type", "application/vnd.apache.arrow.stream")
				if encHdr != "" {
					req.Header.Set("Content-Encoding", encHdr)
				}
				tr := &http.Transport{DisableCompression: true}
				resp, err := (&http.Client{Transport: tr}).Do(req)
				if err != nil {
					tr.CloseIdleConnections()
					c.Out(l, "err:transport")
					c.Oracle("transport-error", fmt.Sprintf("%s: %v", l, err))
					continue
				}
				respBody, _ = io.ReadAll(resp.Body)
				resp.Body.Close()
				tr.CloseIdleConnections()
				status = resp.StatusCode
			} else {
				req := httptest.NewRequest("POST", path, io.NopCloser(bytes.NewReader(b.body)))
				req.ContentLength = cl
				req.Header.Set("Content-Type", "application/vnd.apache.arrow.stream")
				if encHdr != "" {
					req.Header["Content-Encoding"] = []string{encHdr}
				}
				rec := httptest.NewRecorder()
				env.h.ServeHTTP(rec, req)
				status, respBody = rec.Code, rec.Body.Bytes()
			}
			obs := ""
			exact := false
			switch status {
			case 200:
				// the handler answers with a digest of the payload it was given
				if bytes.Contains(respBody, []byte(c18Digest(payload))) {
					exact = true
					obs = fmt.Sprintf("200 body len=%d sha=%s", len(b.plain), c18Sha(b.plain))
				} else {
					obs = "200 body-not-the-client-bytes"
				}
			case 413:
				obs = "413 too-large"
			case 415:
				obs = "415 unsupported"
			case 400:
				obs = "400 bad-request"
			default:
				obs = fmt.Sprintf("%d other", status)
			}
			c.Stat("post-" + obs[:3])
			var got []byte
			if exact {
				got = b.plain
				if enc == "" || enc == "identity" {
					got = b.body
				}
			}
			c18Judge(c, l, env.cfg, false, cl, b, encHdr, facts, status, got, status == 200)
			c.Out(fmt.Sprintf("post %s %d %d %s sha=%s %s", XS(path), cl, len(b.body), f[2], c18Sha(b.plain), facts), obs)
		case f[0] == "route" && len(f) == 5:
			spec, ok := c18ParseSpec(f[4])
			sub, okr := c18Routes[f[1]]
			if !ok || !okr || (f[2] != "cl" && f[2] != "chunked") {
				c.Out(l, "err:bad-op")
				continue
			}
			encHdr := UnXS(f[3])
			b := c18Build(spec, c18IPC(c18Payload(spec.n, spec.kind)))
			enc := c18RefEnc(encHdr)
			facts := c18Facts{fcs: -1}
			if enc == "zstd" || enc == "gzip" {
				facts = c18FactsFor(enc, b.codec, b.pieces)
			}
			path := env.cfg.prefix + sub
			cl := int64(len(b.body))
			if f[2] == "chunked" {
				cl = -1
			}
			req := httptest.NewRequest("POST", path, io.NopCloser(bytes.NewReader(b.body)))
			req.ContentLength = cl
			req.Header.Set("Content-Type", "application/vnd.apache.arrow.stream")
			if encHdr != "" {
				req.Header["Content-Encoding"] = []string{encHdr}
			}
			rec := httptest.NewRecorder()
			env.h.ServeHTTP(rec, req)
			got, obs := 0, "other"
			switch rec.Code {
			case 413:
				got, obs = 413, "413"
			case 415:
				got, obs = 415, "415"
			}
			c.Stat(fmt.Sprintf("route-%s-%d", f[1], rec.Code))
			c18JudgeRoute(c, f[1], l, env.cfg, cl, b, encHdr, facts, got)
			c.Out(fmt.Sprintf("route %s %d %d %s %s", XS(path), cl, len(b.body), f[3], facts), obs)
		case f[0] == "dec" && len(f) == 4:
			spec, ok := c18ParseSpec(f[3])
			max, e1 := strconv.ParseInt(f[2], 10, 64)
			if !ok || e1 != nil {
				c.Out(l, "err:bad-op")
				continue
			}
			name := f[1]
			if name == "empty" {
				name = ""
			}
			b := c18Build(spec, c18Payload(spec.n, spec.kind))
			facts := c18Facts{fcs: -1}
			if name == "zstd" || name == "gzip" {
				facts = c18FactsFor(name, b.codec, b.pieces)
			}
			var ms0, ms1 runtime.MemStats
			bomb := facts.total() >= 8<<20
			if bomb {
				runtime.ReadMemStats(&ms0)
			}
			got, err := vgirpc.VerifC18DecompressBounded(name, b.body, max)
			if bomb {
				runtime.ReadMemStats(&ms1)
			}
			obs := ""
			if err == nil {
				obs = fmt.Sprintf("ok len=%d sha=%s", len(got), c18Sha(got))
				if max > 0 && int64(len(got)) > max {
					c.Oracle("decoder-output-over-limit", fmt.Sprintf("%s: returned %d bytes with limit %d", l, len(got), max))
				}
				if !facts.clean() {
					c.Oracle("corrupt-body-accepted", fmt.Sprintf("%s: %s", l, facts))
				} else if !bytes.Equal(got, b.plain) {
					c.Oracle("decoded-bytes-differ", fmt.Sprintf("%s: %d bytes differ from the %d encoded", l, len(got), len(b.plain)))
				}
			} else {
				kind, _ := vgirpc.VerifC18ErrorKind(err)
				switch kind {
				case "too-large", "unsupported":
					obs = kind
				default:
					obs = "error"
				}
				if (name == "zstd" || name == "gzip") && facts.clean() &&
					(max <= 0 || (int64(facts.total()) <= max && int64(facts.maxWindow()) <= max)) {
					c.Oracle("within-limit-refused", fmt.Sprintf("%s: %s refused: %v", l, facts, err))
				}
				if name != "zstd" && name != "gzip" && kind != "unsupported" {
					c.Oracle("unknown-coding-not-unsupported", fmt.Sprintf("%s: %v", l, err))
				}
			}
			if bomb && max > 0 && int64(facts.total()) > max {
				if delta := int64(ms1.TotalAlloc - ms0.TotalAlloc); delta > 4*max+(24<<20) {
					c.Oracle("decoded-far-past-cap", fmt.Sprintf("%s: %d bytes allocated while decoding under a limit of %d", l, delta, max))
				}
				c.Stat("bomb")
			}
			c.Stat("dec-" + strings.Fields(obs)[0])
			c.Out(fmt.Sprintf("dec %s %d sha=%s %s", c18ModelCodec(name), max, c18Sha(b.plain), facts), obs)
		case f[0] == "stack" && len(f) == 7:
			hdr := UnXS(f[1])
			max, e1 := strconv.ParseInt(f[2], 10, 64)
			n, e2 := strconv.Atoi(f[3])
			seed, e3 := strconv.ParseUint(f[5], 10, 64)
			if e1 != nil || e2 != nil || e3 != nil || n < 0 || n > 16<<20 {
				c.Out(l, "err:bad-op")
				continue
			}
			payload := c18Payload(n, f[4])
			r := NewRng(seed)
			// apply the header's codings left to right (reference reading of the header)
			var names []string
			if hdr != "" {
				for _, part := range strings.Split(hdr, ",") {
					if t := c18RefEnc(part); t == "zstd" || t == "gzip" {
						names = append(names, t)
					}
				}
			}
			cur := payload
			type layer struct {
				codec  string
				pieces [][]byte
			}
			var layers []layer // in application order
			if f[6] != "plain" {
				for _, nm := range names {
					spec := c18Spec{codec: nm, level: r.Range(1, 9), nframes: r.Range(1, 3), fcs: r.Bool(), corrupt: "none"}
					if len(layers) > 0 {
						spec.nframes = 1
					}
					b := c18Build(spec, cur)
					layers = append(layers, layer{nm, b.pieces})
					cur = b.body
				}
				if f[6] == "trunc" && len(layers) > 0 && len(cur) > 4 {
					cur = cur[:len(cur)-3]
					lp := layers[len(layers)-1].pieces
					lp[len(lp)-1] = lp[len(lp)-1][:len(lp[len(lp)-1])-3]
				}
			}
			// facts per layer in decode order (outermost first); once a layer fails or the body was
			// never encoded ("plain") the facts of the deeper layers are measured on what is there
			var factsList []c18Facts
			allClean := true
			if f[6] == "plain" {
				data := cur
				for i := len(names) - 1; i >= 0; i-- {
					fc := c18FactsFor(names[i], "opaque", [][]byte{data})
					factsList = append(factsList, fc)
					allClean = false
					break // an unencoded body fails at the first recognised coding (or decodes by accident: not generated)
				}
			} else {
				for i := len(layers) - 1; i >= 0; i-- {
					fc := c18FactsFor(layers[i].codec, layers[i].codec, layers[i].pieces)
					factsList = append(factsList, fc)
					if !fc.clean() {
						allClean = false
						break
					}
				}
			}
			got, err := vgirpc.DecodeContentEncoding(cur, hdr, max)
			obs := ""
			within := true
			for _, fc := range factsList {
				if max > 0 && (int64(fc.total()) > max || int64(fc.maxWindow()) > max || int64(fc.fcs) > max) {
					within = false
				}
			}
			if err == nil {
				obs = fmt.Sprintf("ok len=%d sha=%s", len(got), c18Sha(got))
				if max > 0 && len(names) > 0 && int64(len(got)) > max {
					c.Oracle("stack-output-over-limit", fmt.Sprintf("%s: returned %d bytes with per-coding limit %d", l, len(got), max))
				}
				if allClean && !bytes.Equal(got, payload) {
					c.Oracle("stack-not-undone", fmt.Sprintf("%s: codings %v: result differs from the payload", l, names))
				}
				if !allClean {
					c.Oracle("corrupt-body-accepted", fmt.Sprintf("%s: a layer the library rejects was accepted", l))
				}
				if !within && allClean {
					c.Oracle("stack-layer-over-limit-accepted", fmt.Sprintf("%s: a layer decodes past the per-coding limit %d", l, max))
				}
			} else {
				kind, _ := vgirpc.VerifC18ErrorKind(err)
				if kind == "too-large" {
					obs = "too-large"
				} else {
					obs = "error"
				}
				if allClean && within {
					c.Oracle("stack-not-undone", fmt.Sprintf("%s: valid stack %v within the limit refused: %v", l, names, err))
				}
			}
			c.Stat(fmt.Sprintf("stack-depth%d-%s", len(names), strings.Fields(obs)[0]))
			var fs []string
			for _, fc := range factsList {
				fs = append(fs, fc.String())
			}
			c.Out(strings.TrimSpace(fmt.Sprintf("stack %s %d %d sha=%s %s", f[1], max, len(cur), c18Sha(payload), strings.Join(fs, " "))), obs)
		default:
			c.Out(l, "err:bad-op")
		}
	}
}
