package main

import (
	"bytes"
	"context"
	"crypto/sha256"
	"encoding/hex"
	"fmt"
	"io"
	"net/http"
	"net/http/httptest"
	"reflect"
	"sort"
	"strconv"
	"strings"

	"github.com/Query-farm/vgi-rpc-go/vgirpc"
	"github.com/apache/arrow-go/v18/arrow"
	"github.com/apache/arrow-go/v18/arrow/array"
	"github.com/apache/arrow-go/v18/arrow/ipc"
)

// C09 — describe lists the registered surface (sorted, once each) and hashes it canonically.
//
// Script (one server per case; schemas travel as x<hex of the IPC schema stream>):
//
//	new xSERVICE xSERVERID (nopv | pv xVERSION)
//	reg <api> xNAME <P-id> <R-id> (xOUT|-) (xIN|-) (xHDR|-)   real registration through the generic API
//	      api: unary unaryvoid producer producerh exchange exchangeh dynamich
//	describe <pipe|http>      __describe__ over that transport, decoded
//	hash                      Server.ProtocolHash()
//	httpopt <k=v>…            (re)build the HttpServer with these options: name (SetProtocolName), prefix, comp
//	                          (compression level), ae (Accept-Encoding the client sends), cors, corsage, pages, repo,
//	                          sticky, maxreq, maxresp, batchlimit, cache, auth, initpages
//	setsid xID / setsvc xNAME Server.SetServerID / SetServiceName AFTER the HttpServer exists
//	perm <k>                  rebuild the final surface (last registration of every name) on a fresh
//	                          server in the k-th shuffled order, other server id / protocol version;
//	                          it becomes the current server; describe it
//
// Model lines: new/reg/describe/hash as in lean/Vgi/Drive/C09.lean; a reg line carries the IPC bytes of
// the schemas the registration is expected to store, serialized by the harness with arrow-go
// (reference serialization) — never taken from the describe response.

func init() {
	Register(&Prop{
		ID: "C09",
		Rule: "servers with random service name / server id / protocol version and 0..10 registrations through the real generic API " +
			"(7 registration functions × 10 parameter struct types × 9 result types × random Arrow output/input/header schemas incl. nested, " +
			"dictionary, decimal, timestamp, metadata; names with unicode, separators 0x1e/0x1f, case and prefix collisions, repeated names), " +
			"described over pipe and HTTP, re-registered in shuffled orders on fresh servers. Non-trivial = at least two registrations and one " +
			"describe; distinct = distinct scripts",
		Gen:  c09Gen,
		Exec: c09Exec,
		NonTrivial: func(lines []string) bool {
			regs, desc := 0, 0
			for _, l := range lines {
				if strings.HasPrefix(l, "reg ") {
					regs++
				}
				if strings.HasPrefix(l, "describe ") || strings.HasPrefix(l, "perm ") {
					desc++
				}
			}
			return regs >= 2 && desc >= 1
		},
	})
}

// ---------------------------------------------------------------- static type family

type c09P0 struct{}
type c09P1 struct {
	A int64 `vgirpc:"a"`
}
type c09P2 struct {
	S string  `vgirpc:"s"`
	F float64 `vgirpc:"f"`
	B bool    `vgirpc:"b"`
}
type c09P3 struct {
	Opt *string `vgirpc:"opt"`
	N   *int64  `vgirpc:"n"`
}
type c09P4 struct {
	L  []int64  `vgirpc:"l"`
	LS []string `vgirpc:"ls"`
}
type c09P5 struct {
	M map[string]int64 `vgirpc:"m"`
}
type c09P6 struct {
	Raw []byte `vgirpc:"raw"`
	D   string `vgirpc:"d,default=x"`
	I   int64  `vgirpc:"i,default=7"`
}
type c09P7 struct {
	I32 int32   `vgirpc:"i32,int32"`
	F32 float32 `vgirpc:"f32,float32"`
	E   string  `vgirpc:"e,enum"`
	NS  string  `vgirpc:"ns,nullable"`
}
type c09P8 struct {
	Ünï string `vgirpc:"ünï"`
	Z   int64  `vgirpc:"z"`
	A   int64  `vgirpc:"a"`
}

// c09P9 declares its own wire schema (ParamsSchemaDeclarer).
type c09P9 struct {
	X int64 `vgirpc:"x"`
}

var c09P9Schema = arrow.NewSchema([]arrow.Field{{Name: "request", Type: arrow.BinaryTypes.Binary}}, nil)

func (c09P9) VgiRpcParamsSchema() *arrow.Schema { return c09P9Schema }

type c09RS struct {
	X int64 `vgirpc:"x"`
}

var c09PIDs = []string{"P0", "P1", "P2", "P3", "P4", "P5", "P6", "P7", "P8", "P9"}
var c09RIDs = []string{"Rstr", "Ri64", "Rf64", "Rbool", "Rbytes", "Rlstr", "Rli64", "Rstruct", "Rpstr"}

type c09Regs struct {
	unary     map[string]func(*vgirpc.Server, string)
	unaryVoid func(*vgirpc.Server, string)
	producer  func(*vgirpc.Server, string, *arrow.Schema)
	producerH func(*vgirpc.Server, string, *arrow.Schema, *arrow.Schema)
	exchange  func(*vgirpc.Server, string, *arrow.Schema, *arrow.Schema)
	exchangeH func(*vgirpc.Server, string, *arrow.Schema, *arrow.Schema, *arrow.Schema)
	dynamicH  func(*vgirpc.Server, string, *arrow.Schema)
}

func c09U[P any, R any]() func(*vgirpc.Server, string) {
	return func(s *vgirpc.Server, n string) {
		vgirpc.Unary(s, n, func(context.Context, *vgirpc.CallContext, P) (R, error) {
			var r R
			return r, nil
		})
	}
}

func c09ForP[P any]() *c09Regs {
	sh := func(context.Context, *vgirpc.CallContext, P) (*vgirpc.StreamResult, error) { return nil, nil }
	return &c09Regs{
		unary: map[string]func(*vgirpc.Server, string){
			"Rstr": c09U[P, string](), "Ri64": c09U[P, int64](), "Rf64": c09U[P, float64](), "Rbool": c09U[P, bool](),
			"Rbytes": c09U[P, []byte](), "Rlstr": c09U[P, []string](), "Rli64": c09U[P, []int64](),
			"Rstruct": c09U[P, c09RS](), "Rpstr": c09U[P, *string](),
		},
		unaryVoid: func(s *vgirpc.Server, n string) {
			vgirpc.UnaryVoid(s, n, func(context.Context, *vgirpc.CallContext, P) error { return nil })
		},
		producer:  func(s *vgirpc.Server, n string, o *arrow.Schema) { vgirpc.Producer(s, n, o, sh) },
		producerH: func(s *vgirpc.Server, n string, o, h *arrow.Schema) { vgirpc.ProducerWithHeader(s, n, o, h, sh) },
		exchange:  func(s *vgirpc.Server, n string, o, i *arrow.Schema) { vgirpc.Exchange(s, n, o, i, sh) },
		exchangeH: func(s *vgirpc.Server, n string, o, i, h *arrow.Schema) { vgirpc.ExchangeWithHeader(s, n, o, i, h, sh) },
		dynamicH:  func(s *vgirpc.Server, n string, h *arrow.Schema) { vgirpc.DynamicStreamWithHeader(s, n, h, sh) },
	}
}

var c09Table = map[string]*c09Regs{
	"P0": c09ForP[c09P0](), "P1": c09ForP[c09P1](), "P2": c09ForP[c09P2](), "P3": c09ForP[c09P3](), "P4": c09ForP[c09P4](),
	"P5": c09ForP[c09P5](), "P6": c09ForP[c09P6](), "P7": c09ForP[c09P7](), "P8": c09ForP[c09P8](), "P9": c09ForP[c09P9](),
}

// ---------------------------------------------------------------- schema helpers

var c09Empty = arrow.NewSchema(nil, nil)

// c09Ser is the reference serialization: the schema as an Arrow IPC stream (schema message + EOS).
func c09Ser(s *arrow.Schema) []byte {
	var buf bytes.Buffer
	w := ipc.NewWriter(&buf, ipc.WithSchema(s))
	w.Close()
	return buf.Bytes()
}

func c09De(b []byte) (*arrow.Schema, error) {
	r, err := ipc.NewReader(bytes.NewReader(b))
	if err != nil {
		return nil, err
	}
	defer r.Release()
	return r.Schema(), nil
}

func c09SameSchema(a, b *arrow.Schema) bool {
	if a == nil || b == nil {
		return a == b
	}
	return a.Equal(b) && a.String() == b.String() && a.Metadata().Equal(b.Metadata())
}

func c09OptSchema(tok string) (*arrow.Schema, bool) {
	if tok == "-" {
		return nil, true
	}
	b, ok := UnX(tok)
	if !ok {
		return nil, false
	}
	s, err := c09De(b)
	if err != nil {
		return nil, false
	}
	return s, true
}

func c09OptX(s *arrow.Schema) string {
	if s == nil {
		return "-"
	}
	return X(c09Ser(s))
}

// ---------------------------------------------------------------- the registered surface (harness side)

type c09Reg struct {
	api, name, pid, rid string
	out, in, hdr        *arrow.Schema
}

type c09State struct {
	service, serverID, pv string
	pvSet                 bool
	srv                   *vgirpc.Server
	ts                    *httptest.Server
	regs                  []c09Reg
	opts                  []string // httpopt k=v words the HttpServer is built with
	prefix, accept        string
}

func (st *c09State) close() {
	if st != nil && st.ts != nil {
		st.ts.Close()
		st.ts = nil
	}
}

func c09NewServer(service, serverID string, pvSet bool, pv string) *c09State {
	s := vgirpc.NewServer()
	s.SetServiceName(service)
	s.SetServerID(serverID)
	if pvSet {
		s.SetProtocolVersion(pv)
	}
	return &c09State{service: service, serverID: serverID, pv: pv, pvSet: pvSet, srv: s}
}

func c09NewLine(st *c09State) string {
	if st.pvSet {
		return fmt.Sprintf("new %s %s pv %s", XS(st.service), XS(st.serverID), XS(st.pv))
	}
	return fmt.Sprintf("new %s %s nopv", XS(st.service), XS(st.serverID))
}

// c09DoReg performs the real registration and returns the model line.
func c09DoReg(c *Case, st *c09State, r c09Reg) (string, bool) {
	t := c09Table[r.pid]
	if t == nil {
		return "", false
	}
	switch r.api {
	case "unary":
		f := t.unary[r.rid]
		if f == nil {
			return "", false
		}
		f(st.srv, r.name)
	case "unaryvoid":
		t.unaryVoid(st.srv, r.name)
	case "producer":
		if r.out == nil {
			return "", false
		}
		t.producer(st.srv, r.name, r.out)
	case "producerh":
		if r.out == nil {
			return "", false
		}
		t.producerH(st.srv, r.name, r.out, r.hdr)
	case "exchange":
		if r.out == nil || r.in == nil {
			return "", false
		}
		t.exchange(st.srv, r.name, r.out, r.in)
	case "exchangeh":
		if r.out == nil || r.in == nil {
			return "", false
		}
		t.exchangeH(st.srv, r.name, r.out, r.in, r.hdr)
	case "dynamich":
		t.dynamicH(st.srv, r.name, r.hdr)
	default:
		return "", false
	}
	st.regs = append(st.regs, r)
	// What the registration is expected to have stored (reference: exported derivation for P / R,
	// the arguments themselves for output / header).
	exp := c09Expected(r)
	if info, ok := vgirpc.VerifC09MethodInfo(st.srv, r.name); !ok {
		c.Oracle("registration-not-stored", fmt.Sprintf("%s %q is not in the method table", r.api, r.name))
	} else {
		if !c09SameSchema(info.Params, exp.params) {
			c.Oracle("registration-stored-wrong-params-schema", fmt.Sprintf("%s %q %s: stored %v, derived %v", r.api, r.name, r.pid, info.Params, exp.params))
		}
		if !c09SameSchema(info.Result, exp.result) {
			c.Oracle("registration-stored-wrong-result-schema-"+r.api, fmt.Sprintf("%q %s: stored %v, expected %v", r.name, r.rid, info.Result, exp.result))
		}
		if !c09SameSchema(info.Output, exp.output) {
			c.Oracle("registration-stored-wrong-output-schema-"+r.api, fmt.Sprintf("%q: stored %v, passed %v", r.name, info.Output, exp.output))
		}
		if info.HasHeader != exp.hasHeader || !c09SameSchema(info.Header, exp.header) {
			c.Oracle("registration-stored-wrong-header-"+r.api, fmt.Sprintf("%q: stored has=%v %v, expected has=%v %v", r.name, info.HasHeader, info.Header, exp.hasHeader, exp.header))
		}
	}
	line := fmt.Sprintf("reg %s %s %s %s %s %s %s", r.api, XS(r.name), X(c09Ser(exp.params)), X(c09Ser(exp.resultOrEmpty())),
		X(c09Ser(c09Empty)), c09OptX(exp.outputArg), c09OptX(exp.headerArg))
	c.Stat("reg:" + r.api)
	return line, true
}

type c09Exp struct {
	params, result, output, header *arrow.Schema // expected stored values
	hasHeader                      bool
	outputArg, headerArg           *arrow.Schema // the arguments as passed (model input)
	unaryResult                    *arrow.Schema
}

func (e c09Exp) resultOrEmpty() *arrow.Schema {
	if e.unaryResult != nil {
		return e.unaryResult
	}
	return c09Empty
}

var c09PTypes = map[string]any{"P0": c09P0{}, "P1": c09P1{}, "P2": c09P2{}, "P3": c09P3{}, "P4": c09P4{}, "P5": c09P5{},
	"P6": c09P6{}, "P7": c09P7{}, "P8": c09P8{}, "P9": c09P9{}}
var c09RTypes = map[string]any{"Rstr": "", "Ri64": int64(0), "Rf64": float64(0), "Rbool": false, "Rbytes": []byte(nil),
	"Rlstr": []string(nil), "Rli64": []int64(nil), "Rstruct": c09RS{}, "Rpstr": (*string)(nil)}

func c09Expected(r c09Reg) c09Exp {
	var e c09Exp
	if r.pid == "P9" {
		e.params = c09P9Schema
	} else {
		s, err := vgirpc.SchemaForStruct(reflect.TypeOf(c09PTypes[r.pid]))
		if err != nil {
			panic(err)
		}
		e.params = s
	}
	e.result = c09Empty
	switch r.api {
	case "unary":
		s, err := vgirpc.SchemaForResult(reflect.TypeOf(c09RTypes[r.rid]))
		if err != nil {
			panic(err)
		}
		e.result, e.unaryResult = s, s
	case "producer", "exchange":
		e.output, e.outputArg = r.out, r.out
	case "producerh", "exchangeh":
		e.output, e.outputArg = r.out, r.out
		e.hasHeader, e.header, e.headerArg = true, r.hdr, r.hdr
	case "dynamich":
		e.hasHeader, e.header, e.headerArg = true, r.hdr, r.hdr
	}
	return e
}

// ---------------------------------------------------------------- describe: call + decode

type c09Row struct {
	name, mtype            string
	hasReturn, hasHeader   bool
	isExchange             string // "-", "0", "1"
	params, result, header []byte
	headerNull             bool
}

type c09Desc struct {
	ok   bool
	why  string
	rows []c09Row
	meta map[string]string
}

func c09DescribeBody(st *c09State, tr string) ([]byte, string) {
	var req bytes.Buffer
	empty := array.NewRecordBatch(c09Empty, nil, 0)
	defer empty.Release()
	if err := vgirpc.WriteRequest(&req, "__describe__", empty, ""); err != nil {
		return nil, "write-request"
	}
	if tr == "pipe" {
		var out bytes.Buffer
		st.srv.Serve(&req, &out)
		return out.Bytes(), ""
	}
	if st.ts == nil {
		c09BuildHTTP(st)
	}
	hr, _ := http.NewRequest("POST", st.ts.URL+st.prefix+"/__describe__", &req)
	hr.Header.Set("Content-Type", "application/vnd.apache.arrow.stream")
	switch st.accept {
	case "zstd":
		hr.Header.Set("Accept-Encoding", "zstd")
	case "gzip":
		hr.Header.Set("Accept-Encoding", "gzip")
	case "xzstd":
		hr.Header.Set("X-VGI-Accept-Encoding", "zstd, gzip")
		hr.Header.Set("Accept-Encoding", "identity")
	default:
		hr.Header.Set("Accept-Encoding", "identity")
	}
	hr.Header.Set("Origin", "https://app.example")
	resp, err := (&http.Client{Transport: &http.Transport{DisableCompression: true}}).Do(hr)
	if err != nil {
		return nil, "http"
	}
	defer resp.Body.Close()
	body, _ := io.ReadAll(resp.Body)
	if resp.StatusCode != 200 {
		return body, "http-status-" + strconv.Itoa(resp.StatusCode)
	}
	enc := strings.TrimSpace(resp.Header.Get("Content-Encoding"))
	if enc == "" {
		enc = strings.TrimSpace(resp.Header.Get("X-VGI-Content-Encoding"))
	}
	if enc != "" && !strings.EqualFold(enc, "identity") {
		dec, derr := vgirpc.DecodeContentEncoding(body, enc, 1<<28)
		if derr != nil {
			return body, "content-encoding-" + enc
		}
		body = dec
	}
	return body, ""
}

// c09BuildHTTP creates the HttpServer around the current Server with the scripted options.
func c09BuildHTTP(st *c09State) {
	hs := vgirpc.NewHttpServer(st.srv)
	st.prefix, st.accept = "", ""
	for _, w := range st.opts {
		k, v, _ := strings.Cut(w, "=")
		str := func() string { b, _ := UnX(v); return string(b) }
		num := func() int { n, _ := strconv.Atoi(v); return n }
		switch k {
		case "name":
			hs.SetProtocolName(str())
		case "prefix":
			hs.SetPrefix(str())
			st.prefix = str()
		case "comp":
			hs.SetCompressionLevel(num())
		case "ae":
			st.accept = v
		case "cors":
			hs.SetCorsOrigins(str())
		case "corsage":
			hs.SetCorsMaxAge(num())
		case "pages":
			n := num()
			hs.SetEnableLandingPage(n&1 != 0)
			hs.SetEnableDescribePage(n&2 != 0)
			hs.SetEnableNotFoundPage(n&4 != 0)
		case "repo":
			hs.SetRepoURL(str())
		case "sticky":
			if v == "1" {
				hs.EnableSticky(0)
				hs.SetStickyEchoHeaders(map[string]string{"VGI-Echo-Zone": "z1"})
			}
		case "maxreq":
			hs.SetMaxRequestBytes(int64(num()))
		case "maxresp":
			hs.SetMaxResponseBytes(int64(num()))
		case "batchlimit":
			hs.SetProducerBatchLimit(num())
		case "cache":
			hs.SetCallStateCacheEntries(num())
		case "auth":
			if v == "1" {
				hs.SetAuthenticate(func(*http.Request) (*vgirpc.AuthContext, error) {
					return &vgirpc.AuthContext{Domain: "bearer", Authenticated: true, Principal: "alice"}, nil
				})
			}
		case "initpages":
			if v == "1" {
				hs.InitPages()
			}
		}
	}
	st.ts = httptest.NewServer(hs)
}

var c09OptKeys = map[string]bool{"name": true, "prefix": true, "comp": true, "ae": true, "cors": true, "corsage": true, "pages": true,
	"repo": true, "sticky": true, "maxreq": true, "maxresp": true, "batchlimit": true, "cache": true, "auth": true, "initpages": true}

func c09Decode(body []byte) *c09Desc {
	d := &c09Desc{meta: map[string]string{}}
	r, err := ipc.NewReader(bytes.NewReader(body))
	if err != nil {
		d.why = "not-ipc"
		return d
	}
	defer r.Release()
	n := 0
	for r.Next() {
		n++
		if n > 1 {
			d.why = "more-than-one-batch"
			return d
		}
		rec := r.RecordBatch()
		if bm, ok := rec.(arrow.RecordBatchWithMetadata); ok {
			md := bm.Metadata()
			for i, k := range md.Keys() {
				d.meta[k] = md.Values()[i]
			}
		}
		sc := rec.Schema()
		col := func(name string) arrow.Array {
			idx := sc.FieldIndices(name)
			if len(idx) != 1 {
				return nil
			}
			return rec.Column(idx[0])
		}
		names, _ := col("name").(*array.String)
		mt, _ := col("method_type").(*array.String)
		hr, _ := col("has_return").(*array.Boolean)
		ps, _ := col("params_schema_ipc").(*array.Binary)
		rs, _ := col("result_schema_ipc").(*array.Binary)
		hh, _ := col("has_header").(*array.Boolean)
		hs, _ := col("header_schema_ipc").(*array.Binary)
		ie, _ := col("is_exchange").(*array.Boolean)
		if names == nil || mt == nil || hr == nil || ps == nil || rs == nil || hh == nil || hs == nil || ie == nil {
			d.why = "describe-schema"
			return d
		}
		for i := 0; i < int(rec.NumRows()); i++ {
			row := c09Row{name: names.Value(i), mtype: mt.Value(i), hasReturn: hr.Value(i), hasHeader: hh.Value(i),
				params: append([]byte{}, ps.Value(i)...), result: append([]byte{}, rs.Value(i)...), isExchange: "-"}
			if names.IsNull(i) || mt.IsNull(i) || hr.IsNull(i) || ps.IsNull(i) || rs.IsNull(i) || hh.IsNull(i) {
				d.why = "null-in-required-column"
				return d
			}
			if hs.IsNull(i) {
				row.headerNull = true
			} else {
				row.header = append([]byte{}, hs.Value(i)...)
			}
			if !ie.IsNull(i) {
				if ie.Value(i) {
					row.isExchange = "1"
				} else {
					row.isExchange = "0"
				}
			}
			d.rows = append(d.rows, row)
		}
	}
	if n != 1 {
		d.why = "no-batch"
		return d
	}
	d.ok = true
	return d
}

func c09B(b bool) string {
	if b {
		return "1"
	}
	return "0"
}

func (d *c09Desc) line() string {
	if !d.ok {
		return "err:" + d.why
	}
	opt := func(k string) string {
		if v, ok := d.meta[k]; ok {
			return XS(v)
		}
		return "-"
	}
	var rows []string
	for _, r := range d.rows {
		h := "-"
		if !r.headerNull {
			h = X(r.header)
		}
		rows = append(rows, strings.Join([]string{XS(r.name), r.mtype, c09B(r.hasReturn), c09B(r.hasHeader), r.isExchange,
			X(r.params), X(r.result), h}, ","))
	}
	return fmt.Sprintf("n=%d pname=%s rv=%s dv=%s hash=%s sid=%s pv=%s rows=%s", len(d.rows), opt(vgirpc.MetaProtocolName),
		d.meta[vgirpc.MetaRequestVersion], d.meta[vgirpc.MetaDescribeVersion], d.meta[vgirpc.MetaProtocolHash],
		opt(vgirpc.MetaServerID), opt(vgirpc.MetaProtocolVersion), strings.Join(rows, ";"))
}

// c09RefHash is the reference algorithm, written independently of describe.go: the canonical
// framing of the SERVED rows under the SERVED protocol name, SHA-256, lower-case hex.
func c09RefHash(d *c09Desc) string {
	h := sha256.New()
	io.WriteString(h, "vgi_rpc.describe.v"+d.meta[vgirpc.MetaDescribeVersion]+"|"+d.meta[vgirpc.MetaRequestVersion]+"|"+d.meta[vgirpc.MetaProtocolName]+"|")
	for _, r := range d.rows {
		h.Write([]byte{0x1f})
		io.WriteString(h, r.name)
		h.Write([]byte{0x1e})
		io.WriteString(h, r.mtype)
		h.Write([]byte{0x1e})
		io.WriteString(h, c09B(r.hasReturn))
		h.Write([]byte{0x1e})
		io.WriteString(h, c09B(r.hasHeader))
		h.Write([]byte{0x1e})
		io.WriteString(h, r.isExchange)
		h.Write([]byte{0x1e})
		h.Write(r.params)
		h.Write([]byte{0x1e})
		h.Write(r.result)
		h.Write([]byte{0x1e})
		h.Write(r.header)
	}
	return hex.EncodeToString(h.Sum(nil))
}

// ---------------------------------------------------------------- property oracle

func (st *c09State) final() map[string]c09Reg {
	m := map[string]c09Reg{}
	for _, r := range st.regs {
		m[r.name] = r
	}
	return m
}

func c09Oracle(c *Case, st *c09State, d *c09Desc, tr, line string) {
	if !d.ok {
		c.Oracle("describe-not-decodable-"+tr, fmt.Sprintf("%q: %s", line, d.why))
		return
	}
	fin := st.final()
	// sorted, once each
	for i := 1; i < len(d.rows); i++ {
		if !(d.rows[i-1].name < d.rows[i].name) {
			c.Oracle("rows-not-sorted-or-repeated", fmt.Sprintf("%q: %q is listed before %q", line, d.rows[i-1].name, d.rows[i].name))
			break
		}
	}
	seen := map[string]bool{}
	for _, r := range d.rows {
		seen[r.name] = true
		if _, ok := fin[r.name]; !ok {
			c.Oracle("row-for-unregistered-method", fmt.Sprintf("%q: %q is listed but was never registered", line, r.name))
		}
	}
	for n := range fin {
		if !seen[n] {
			c.Oracle("registered-method-not-listed", fmt.Sprintf("%q: %q is registered but not listed", line, n))
		}
	}
	if len(d.rows) != vgirpc.VerifC09MethodCount(st.srv) {
		c.Oracle("row-count-differs-from-method-table", fmt.Sprintf("%q: %d rows, %d methods", line, len(d.rows), vgirpc.VerifC09MethodCount(st.srv)))
	}
	// each row says what was registered
	for _, row := range d.rows {
		r, ok := fin[row.name]
		if !ok {
			continue
		}
		exp := c09Expected(r)
		wantType := "stream"
		if r.api == "unary" || r.api == "unaryvoid" {
			wantType = "unary"
		}
		if row.mtype != wantType {
			c.Oracle("row-wrong-method-type-"+r.api, fmt.Sprintf("%q: %q has method_type %q", line, row.name, row.mtype))
		}
		if row.hasReturn != (r.api == "unary") {
			c.Oracle("row-wrong-has-return-"+r.api, fmt.Sprintf("%q: %q has_return=%v", line, row.name, row.hasReturn))
		}
		if row.hasHeader != exp.hasHeader {
			c.Oracle("row-wrong-has-header-"+r.api, fmt.Sprintf("%q: %q has_header=%v", line, row.name, row.hasHeader))
		}
		if row.isExchange != "-" {
			c.Oracle("row-is-exchange-not-null", fmt.Sprintf("%q: %q is_exchange=%s", line, row.name, row.isExchange))
		}
		if s, err := c09De(row.params); err != nil || !c09SameSchema(s, exp.params) {
			c.Oracle("params-schema-not-the-registered-one", fmt.Sprintf("%q: %q params decode to %v (err %v), registered %v", line, row.name, s, err, exp.params))
		}
		wantRes := exp.result
		if exp.output != nil {
			wantRes = exp.output
		}
		if s, err := c09De(row.result); err != nil || !c09SameSchema(s, wantRes) {
			c.Oracle("result-schema-not-the-registered-one-"+r.api, fmt.Sprintf("%q: %q result decodes to %v (err %v), registered %v", line, row.name, s, err, wantRes))
		}
		if exp.hasHeader && exp.header != nil {
			if row.headerNull {
				c.Oracle("header-schema-missing-"+r.api, fmt.Sprintf("%q: %q header is null", line, row.name))
			} else if s, err := c09De(row.header); err != nil || !c09SameSchema(s, exp.header) {
				c.Oracle("header-schema-not-the-registered-one-"+r.api, fmt.Sprintf("%q: %q header decodes to %v (err %v), registered %v", line, row.name, s, err, exp.header))
			}
		} else if !row.headerNull {
			c.Oracle("header-schema-present-without-header-"+r.api, fmt.Sprintf("%q: %q carries header bytes", line, row.name))
		}
	}
	// hash = reference digest of the served payload; = Server.ProtocolHash()
	served := d.meta[vgirpc.MetaProtocolHash]
	if ref := c09RefHash(d); served != ref {
		c.Oracle("hash-not-reference-digest", fmt.Sprintf("%q: served %s, reference algorithm on the served payload %s", line, served, ref))
	}
	// metadata
	wantName := st.service
	if wantName == "" {
		wantName = "GoRpcServer"
	}
	sid, hasSid := d.meta[vgirpc.MetaServerID]
	pv, hasPv := d.meta[vgirpc.MetaProtocolVersion]
	if d.meta[vgirpc.MetaProtocolName] != wantName || d.meta[vgirpc.MetaRequestVersion] != "1" || d.meta[vgirpc.MetaDescribeVersion] != "4" ||
		hasSid != (st.serverID != "") || sid != st.serverID || hasPv != st.pvSet || (st.pvSet && pv != st.pv) {
		c.Oracle("describe-metadata-wrong", fmt.Sprintf("%q: metadata %v for service %q id %q pv(%v) %q", line, d.meta, st.service, st.serverID, st.pvSet, st.pv))
	}
}

// c09Surface is rows + protocol name + hash, for comparing two responses.
func c09Surface(d *c09Desc) string {
	l := d.line()
	if i := strings.Index(l, " rows="); i >= 0 {
		return "pname=" + d.meta[vgirpc.MetaProtocolName] + " hash=" + d.meta[vgirpc.MetaProtocolHash] + l[i:]
	}
	return l
}

// ---------------------------------------------------------------- Exec

func c09Exec(c *Case) {
	var st *c09State
	defer func() { st.close() }()
	var last *c09Desc // last describe of the current server
	lastTr := ""
	for _, l := range c.Lines {
		f := strings.Fields(l)
		if len(f) == 0 {
			continue
		}
		if f[0] != "new" && st == nil {
			c.Out(l, "err:no-server")
			continue
		}
		switch f[0] {
		case "new":
			if !(len(f) == 4 && f[3] == "nopv") && !(len(f) == 5 && f[3] == "pv") {
				c.Out(l, "err:bad-op")
				continue
			}
			svc, ok1 := UnX(f[1])
			sid, ok2 := UnX(f[2])
			pv := ""
			if len(f) == 5 {
				b, ok := UnX(f[4])
				ok1 = ok1 && ok
				pv = string(b)
			}
			if !ok1 || !ok2 {
				c.Out(l, "err:bad-op")
				continue
			}
			st.close()
			st = c09NewServer(string(svc), string(sid), len(f) == 5, pv)
			last = nil
			c.Out(l, "ok")
		case "reg":
			if len(f) != 8 {
				c.Out(l, "err:bad-op")
				continue
			}
			name, ok := UnX(f[2])
			out, ok1 := c09OptSchema(f[5])
			in, ok2 := c09OptSchema(f[6])
			hdr, ok3 := c09OptSchema(f[7])
			if !ok || !ok1 || !ok2 || !ok3 {
				c.Out(l, "err:bad-op")
				continue
			}
			line, ok := c09DoReg(c, st, c09Reg{api: f[1], name: string(name), pid: f[3], rid: f[4], out: out, in: in, hdr: hdr})
			if !ok {
				c.Out(l, "err:bad-op")
				continue
			}
			last = nil
			c.Out(line, "ok")
		case "httpopt":
			ok := true
			for _, w := range f[1:] {
				k, v, has := strings.Cut(w, "=")
				if !has || !c09OptKeys[k] {
					ok = false
				}
				if k == "name" || k == "prefix" || k == "cors" || k == "repo" {
					if _, good := UnX(v); !good {
						ok = false
					}
				}
			}
			if !ok {
				c.Out(l, "err:bad-op")
				continue
			}
			st.close()
			st.opts = append([]string{}, f[1:]...)
			c09BuildHTTP(st)
			for _, w := range f[1:] {
				k, _, _ := strings.Cut(w, "=")
				c.Stat("httpopt:" + k)
			}
			c.Out(l, "ok")
		case "setsid", "setsvc":
			if len(f) != 2 {
				c.Out(l, "err:bad-op")
				continue
			}
			b, ok := UnX(f[1])
			if !ok {
				c.Out(l, "err:bad-op")
				continue
			}
			if f[0] == "setsid" {
				st.srv.SetServerID(string(b))
				st.serverID = string(b)
			} else {
				st.srv.SetServiceName(string(b))
				st.service = string(b)
			}
			last = nil
			c.Stat(f[0])
			c.Out(l, "ok")
		case "describe":
			if len(f) != 2 || (f[1] != "pipe" && f[1] != "http") {
				c.Out(l, "err:bad-op")
				continue
			}
			body, why := c09DescribeBody(st, f[1])
			var d *c09Desc
			if why != "" {
				d = &c09Desc{why: why}
			} else {
				d = c09Decode(body)
			}
			c.Out(l, d.line())
			c.Stat("describe:" + f[1])
			c09Oracle(c, st, d, f[1], l)
			if d.ok && last != nil && last.ok {
				if a, b := c09Surface(last), c09Surface(d); a != b || last.line() != d.line() {
					if lastTr != f[1] {
						c.Oracle("pipe-and-http-describe-differ", fmt.Sprintf("%q: %s answered %.300s, %s answered %.300s", l, lastTr, last.line(), f[1], d.line()))
					} else {
						c.Oracle("describe-not-deterministic", fmt.Sprintf("%q: two %s describes of the same server differ", l, f[1]))
					}
				}
			}
			if d.ok {
				last, lastTr = d, f[1]
			}
		case "hash":
			h := st.srv.ProtocolHash()
			c.Out(l, h)
			c.Stat("hash")
			if h2 := st.srv.ProtocolHash(); h2 != h {
				c.Oracle("protocolhash-not-stable", fmt.Sprintf("%q: %s then %s", l, h, h2))
			}
			body, why := c09DescribeBody(st, "pipe")
			if why == "" {
				if d := c09Decode(body); d.ok && d.meta[vgirpc.MetaProtocolHash] != h {
					c.Oracle("protocolhash-differs-from-describe", fmt.Sprintf("%q: ProtocolHash() %s, describe %s", l, h, d.meta[vgirpc.MetaProtocolHash]))
				}
			}
		case "perm":
			if len(f) != 2 {
				c.Out(l, "err:bad-op")
				continue
			}
			k, err := strconv.ParseUint(f[1], 10, 64)
			if err != nil {
				c.Out(l, "err:bad-op")
				continue
			}
			// before
			var before *c09Desc
			if body, why := c09DescribeBody(st, "pipe"); why == "" {
				before = c09Decode(body)
			}
			fin := st.final()
			names := make([]string, 0, len(fin))
			for n := range fin {
				names = append(names, n)
			}
			sort.Strings(names)
			rng := NewRng(k)
			for i := len(names) - 1; i > 0; i-- {
				j := rng.Intn(i + 1)
				names[i], names[j] = names[j], names[i]
			}
			old := st
			pv2 := "7." + strconv.Itoa(int(k%50)) + ".1"
			sid2 := old.serverID + "-perm" + f[1]
			if k%3 == 0 {
				sid2 = ""
			}
			st = c09NewServer(old.service, sid2, !old.pvSet || k%2 == 0, pv2)
			st.opts = old.opts
			old.close()
			c.Out(c09NewLine(st), "ok")
			for _, n := range names {
				line, ok := c09DoReg(c, st, fin[n])
				if !ok {
					c.Out("reg bad", "err:bad-op")
					continue
				}
				c.Out(line, "ok")
			}
			body, why := c09DescribeBody(st, "pipe")
			var d *c09Desc
			if why != "" {
				d = &c09Desc{why: why}
			} else {
				d = c09Decode(body)
			}
			c.Out("describe pipe", d.line())
			c.Stat("perm")
			c09Oracle(c, st, d, "pipe", l)
			if before != nil && before.ok && d.ok {
				if before.meta[vgirpc.MetaProtocolHash] != d.meta[vgirpc.MetaProtocolHash] {
					c.Oracle("hash-depends-on-order-or-server-identity", fmt.Sprintf("%q: %s before, %s after re-registering the same surface in order %q with another server id / protocol version",
						l, before.meta[vgirpc.MetaProtocolHash], d.meta[vgirpc.MetaProtocolHash], names))
				}
				if c09Surface(before) != c09Surface(d) {
					c.Oracle("rows-depend-on-registration-order", fmt.Sprintf("%q: rows differ after re-registering in order %q", l, names))
				}
			}
			last, lastTr = d, "pipe"
			if !d.ok {
				last = nil
			}
		default:
			c.Out(l, "err:bad-op")
		}
	}
}
