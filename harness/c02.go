package main

import (
	"bytes"
	"context"
	"encoding/hex"
	"encoding/json"
	"fmt"
	"io"
	"log/slog"
	"net"
	"os"
	"strconv"
	"strings"
	"time"

	"github.com/Query-farm/vgi-rpc-go/vgirpc"
	"github.com/apache/arrow-go/v18/arrow"
	"github.com/apache/arrow-go/v18/arrow/array"
	"github.com/apache/arrow-go/v18/arrow/ipc"
	"github.com/apache/arrow-go/v18/arrow/memory"
)

// C02 — a pipe/socket session stays in frame after every request, good or bad.
//
// Script (one connection per case):
//
//	pv on|off
//	    the server has SetProtocolVersion("1.2.0") or not (default off)
//	op <tag> S <schema> {B <rows> <cells> <meta>} [S <schema> {B <rows> <cells> <meta>}]
//	    one client call: the request stream and, optionally, the input stream the client
//	    writes after it.   <schema> = name:type:nullable,...  | -
//	                       <cells>  = int,int,...  (row values, one per column) | -
//	                       <meta>   = hexkey=hexval,...  (batch custom metadata, in order) | -
//	    <tag> = w:<category> (the generator claims the call is well-shaped) or i:<category>.
//	    Observation: the answer to this call ALONE on a fresh connection.
//	end
//	    the whole history is written to ONE connection; observation: every response stream the
//	    server wrote and how many client streams were left unread.
//
// Before the first op the harness tells the model which methods the real server registered
// (`method ...` lines read through vgirpc.VerifC02Methods).
//
// The server's handlers are scripted by their int64 parameters (a, b, c) — see c02Unary,
// c02Init, c02State; Vgi.Drive.C02.scriptCfg is the same table in Lean.

func init() {
	slog.SetDefault(slog.New(slog.NewTextHandler(io.Discard, nil)))
	Register(&Prop{
		ID: "C02",
		Rule: "histories of 1..8 (thorough: ..30) client calls on one connection, drawn from 30 call categories " +
			"(good/garbage unary, parameter mismatch, version refusal, handler value/error/panic, stream init failures, " +
			"mid-stream error/panic/contract violation, cancel, cast failure, extra ticks, describe) with random " +
			"metadata extras/duplicates; ~12% of histories contain an ill-shaped call (correspondence only). " +
			"non-trivial = at least 2 calls of which one is answered with an error or is a stream call; distinct = distinct scripts",
		Gen:  c02Gen,
		Exec: c02Exec,
		NonTrivial: func(lines []string) bool {
			n, interesting := 0, false
			for _, l := range lines {
				if strings.HasPrefix(l, "op ") {
					n++
					f := strings.Fields(l)
					if len(f) > 1 && !strings.HasSuffix(f[1], ":unary-ok") {
						interesting = true
					}
				}
			}
			return n >= 2 && interesting
		},
	})
}

// ---------------------------------------------------------------- scripted server

type c02P0 struct{}
type c02P1 struct {
	A int64 `vgirpc:"a"`
}
type c02P3 struct {
	A int64 `vgirpc:"a"`
	B int64 `vgirpc:"b"`
	C int64 `vgirpc:"c"`
}
type c02P2s struct {
	A int64  `vgirpc:"a"`
	S string `vgirpc:"s"`
}

// c02Inner is an embedded ArrowSerializable parameter (method n1; exercised by C03).
type c02Inner struct {
	X int64 `arrow:"x"`
}

func (c02Inner) ArrowSchema() *arrow.Schema {
	return arrow.NewSchema([]arrow.Field{{Name: "x", Type: arrow.PrimitiveTypes.Int64}}, nil)
}

type c02PN struct {
	Inner c02Inner `vgirpc:"inner"`
}

type c02Header struct {
	V int64 `arrow:"hdr_v"`
}

func (c02Header) ArrowSchema() *arrow.Schema {
	return arrow.NewSchema([]arrow.Field{{Name: "hdr_v", Type: arrow.PrimitiveTypes.Int64}}, nil)
}

var c02OutSchema = arrow.NewSchema([]arrow.Field{{Name: "o", Type: arrow.PrimitiveTypes.Int64}}, nil)
var c02InSchema = arrow.NewSchema([]arrow.Field{{Name: "v", Type: arrow.PrimitiveTypes.Int64}}, nil)

func c02Logs(ctx *vgirpc.CallContext, n int64) {
	for i := int64(0); i < n; i++ {
		ctx.ClientLog(vgirpc.LogInfo, "l")
	}
}

// c02Unary: a = mode.
func c02Unary(ctx *vgirpc.CallContext, a, b, c int64) (int64, error) {
	switch a {
	case 0:
		return 2*b + c, nil
	case 1:
		return 0, &vgirpc.RpcError{Type: "ValueError", Message: "scripted"}
	case 2:
		panic("scripted panic")
	case 3:
		n := c % 4
		if c < 0 {
			n = 0
		}
		c02Logs(ctx, n)
		return b, nil
	case 4:
		c02Logs(ctx, 1)
		return 0, &vgirpc.RpcError{Type: "KeyError", Message: "scripted"}
	case 5:
		c02Logs(ctx, 2)
		panic("scripted panic")
	}
	return a + b + c, nil
}

type c02State struct {
	a, b, c int64
	k       int64
}

func c02Emit(out *vgirpc.OutputCollector, v int64) error {
	bl := array.NewInt64Builder(memory.NewGoAllocator())
	defer bl.Release()
	bl.Append(v)
	arr := bl.NewArray()
	defer arr.Release()
	return out.Emit(array.NewRecordBatch(c02OutSchema, []arrow.Array{arr}, 1))
}

// fail implements the failure modes at call k == c. done=true: the call is over.
func (s *c02State) fail(out *vgirpc.OutputCollector, k int64) (done bool, err error) {
	if k != s.c {
		return false, nil
	}
	switch s.a {
	case 11:
		return true, &vgirpc.RpcError{Type: "ValueError", Message: "scripted"}
	case 12:
		panic("scripted stream panic")
	case 13:
		return true, nil // contract violation: neither data nor finish
	case 14:
		out.ClientLog(vgirpc.LogInfo, "only a log")
		return true, nil
	case 15:
		_ = c02Emit(out, 1)
		if e := c02Emit(out, 2); e != nil { // second data batch is refused
			return true, &vgirpc.RpcError{Type: "RuntimeError", Message: e.Error()}
		}
		return true, nil
	case 16:
		_ = out.Finish() // refused on exchange streams
		return true, nil
	}
	return false, nil
}

func (s *c02State) produce(out *vgirpc.OutputCollector) error {
	k := s.k
	s.k++
	if done, err := s.fail(out, k); done {
		return err
	}
	if k >= s.b || k >= 50 { // at most 50 rows whatever the (possibly garbled) count says
		return out.Finish()
	}
	if s.a == 17 {
		out.ClientLog(vgirpc.LogInfo, "l")
	}
	if err := c02Emit(out, k+10*s.b); err != nil {
		return err
	}
	if s.a == 18 {
		return out.Finish()
	}
	return nil
}

func c02FirstInt(in arrow.RecordBatch) int64 {
	if in == nil || in.NumCols() == 0 || in.NumRows() == 0 {
		return 0
	}
	switch col := in.Column(0).(type) {
	case *array.Int64:
		return col.Value(0)
	case *array.Int32:
		return int64(col.Value(0))
	case *array.String:
		v, _ := strconv.ParseInt(strings.TrimPrefix(col.Value(0), "s"), 10, 64)
		return v
	}
	return 0
}

func (s *c02State) exchange(in arrow.RecordBatch, out *vgirpc.OutputCollector) error {
	k := s.k
	s.k++
	if done, err := s.fail(out, k); done {
		return err
	}
	if s.a == 17 {
		out.ClientLog(vgirpc.LogInfo, "l")
	}
	return c02Emit(out, c02FirstInt(in)+s.b)
}

type c02Both struct{ c02State }

func (s *c02Both) Produce(_ context.Context, out *vgirpc.OutputCollector, _ *vgirpc.CallContext) error {
	return s.produce(out)
}
func (s *c02Both) Exchange(_ context.Context, in arrow.RecordBatch, out *vgirpc.OutputCollector, _ *vgirpc.CallContext) error {
	return s.exchange(in, out)
}

type c02ProdOnly struct{ c02State }

func (s *c02ProdOnly) Produce(_ context.Context, out *vgirpc.OutputCollector, _ *vgirpc.CallContext) error {
	return s.produce(out)
}

type c02ExchOnly struct{ c02State }

func (s *c02ExchOnly) Exchange(_ context.Context, in arrow.RecordBatch, out *vgirpc.OutputCollector, _ *vgirpc.CallContext) error {
	return s.exchange(in, out)
}

type c02Neither struct{ c02State }

func c02Init(ctx *vgirpc.CallContext, a, b, c int64) (*vgirpc.StreamResult, error) {
	switch a {
	case 1:
		return nil, &vgirpc.RpcError{Type: "ValueError", Message: "scripted init"}
	case 2:
		panic("scripted init panic")
	case 3:
		return nil, nil
	}
	if a == 9 {
		c02Logs(ctx, 2)
	}
	res := &vgirpc.StreamResult{OutputSchema: c02OutSchema}
	if a != 10 {
		res.Header = c02Header{V: 1}
	}
	if a == 21 {
		res.InputSchema = c02InSchema
	}
	st := c02State{a: a, b: b, c: c}
	switch {
	case a == 4:
		res.State = &c02Neither{st}
	case a == 5:
		res.State = &c02ProdOnly{st}
	case a == 6 || (a >= 20 && a <= 29):
		res.State = &c02ExchOnly{st}
	default:
		res.State = &c02Both{st}
	}
	return res, nil
}

func c02NewServer(pvOn bool) *vgirpc.Server {
	s := vgirpc.NewServer()
	if pvOn {
		s.SetProtocolVersion("1.2.0")
	}
	vgirpc.Unary(s, "u3", func(_ context.Context, ctx *vgirpc.CallContext, p c02P3) (int64, error) {
		return c02Unary(ctx, p.A, p.B, p.C)
	})
	vgirpc.Unary(s, "u1", func(_ context.Context, ctx *vgirpc.CallContext, p c02P1) (int64, error) {
		return c02Unary(ctx, p.A, 0, 0)
	})
	vgirpc.Unary(s, "u0", func(_ context.Context, ctx *vgirpc.CallContext, p c02P0) (int64, error) {
		return c02Unary(ctx, 0, 0, 0)
	})
	vgirpc.Unary(s, "us", func(_ context.Context, ctx *vgirpc.CallContext, p c02P2s) (int64, error) {
		b, _ := strconv.ParseInt(strings.TrimPrefix(p.S, "s"), 10, 64)
		return c02Unary(ctx, p.A, b, 0)
	})
	vgirpc.Unary(s, "n1", func(_ context.Context, ctx *vgirpc.CallContext, p c02PN) (int64, error) {
		return c02Unary(ctx, p.Inner.X, 0, 0)
	})
	vgirpc.UnaryVoid(s, "v3", func(_ context.Context, ctx *vgirpc.CallContext, p c02P3) error {
		_, err := c02Unary(ctx, p.A, p.B, p.C)
		return err
	})
	vgirpc.Producer(s, "p3", c02OutSchema, func(_ context.Context, ctx *vgirpc.CallContext, p c02P3) (*vgirpc.StreamResult, error) {
		return c02Init(ctx, p.A, p.B, p.C)
	})
	vgirpc.ProducerWithHeader(s, "ph3", c02OutSchema, c02Header{}.ArrowSchema(), func(_ context.Context, ctx *vgirpc.CallContext, p c02P3) (*vgirpc.StreamResult, error) {
		return c02Init(ctx, p.A, p.B, p.C)
	})
	vgirpc.Exchange(s, "x3", c02OutSchema, c02InSchema, func(_ context.Context, ctx *vgirpc.CallContext, p c02P3) (*vgirpc.StreamResult, error) {
		return c02Init(ctx, p.A, p.B, p.C)
	})
	vgirpc.ExchangeWithHeader(s, "xh1", c02OutSchema, c02InSchema, c02Header{}.ArrowSchema(), func(_ context.Context, ctx *vgirpc.CallContext, p c02P1) (*vgirpc.StreamResult, error) {
		return c02Init(ctx, p.A, 0, 0)
	})
	vgirpc.DynamicStreamWithHeader(s, "d3", c02Header{}.ArrowSchema(), func(_ context.Context, ctx *vgirpc.CallContext, p c02P3) (*vgirpc.StreamResult, error) {
		return c02Init(ctx, p.A, p.B, p.C)
	})
	return s
}

// ---------------------------------------------------------------- script <-> bytes

type c02Field struct {
	name, typ string
	nullable  bool
}
type c02Batch struct {
	rows  int
	cells []int64
	meta  [][2]string
}
type c02Stream struct {
	schema  []c02Field
	batches []c02Batch
}

func c02ParseSchema(s string) ([]c02Field, bool) {
	if s == "-" {
		return nil, true
	}
	var out []c02Field
	for _, p := range strings.Split(s, ",") {
		f := strings.Split(p, ":")
		if len(f) != 3 || (f[2] != "0" && f[2] != "1") {
			return nil, false
		}
		out = append(out, c02Field{f[0], f[1], f[2] == "1"})
	}
	return out, true
}

func c02ParseStreams(words []string) ([]c02Stream, bool) {
	var out []c02Stream
	i := 0
	for i < len(words) {
		if words[i] != "S" || i+1 >= len(words) {
			return nil, false
		}
		sch, ok := c02ParseSchema(words[i+1])
		if !ok {
			return nil, false
		}
		st := c02Stream{schema: sch}
		i += 2
		for i < len(words) && words[i] == "B" {
			if i+3 >= len(words) {
				return nil, false
			}
			rows, err := strconv.Atoi(words[i+1])
			if err != nil || rows < 0 {
				return nil, false
			}
			b := c02Batch{rows: rows}
			if words[i+2] != "-" {
				for _, cs := range strings.Split(words[i+2], ",") {
					v, err := strconv.ParseInt(cs, 10, 64)
					if err != nil {
						return nil, false
					}
					b.cells = append(b.cells, v)
				}
			}
			if words[i+3] != "-" {
				for _, kv := range strings.Split(words[i+3], ",") {
					p := strings.Split(kv, "=")
					if len(p) != 2 {
						return nil, false
					}
					k, e1 := hex.DecodeString(p[0])
					v, e2 := hex.DecodeString(p[1])
					if e1 != nil || e2 != nil {
						return nil, false
					}
					b.meta = append(b.meta, [2]string{string(k), string(v)})
				}
			}
			st.batches = append(st.batches, b)
			i += 4
		}
		out = append(out, st)
	}
	return out, len(out) >= 1
}

func c02ArrowType(t string) arrow.DataType {
	switch t {
	case "int64":
		return arrow.PrimitiveTypes.Int64
	case "int32":
		return arrow.PrimitiveTypes.Int32
	case "utf8":
		return arrow.BinaryTypes.String
	case "float64":
		return arrow.PrimitiveTypes.Float64
	case "bool":
		return arrow.FixedWidthTypes.Boolean
	case "binary", "payload":
		return arrow.BinaryTypes.Binary
	}
	return nil
}

// c02Payload builds the embedded ArrowSerializable payload of method n1 for script cell v:
// v >= 0: a valid inner stream with x = v; -1: x is a utf8 column; -2: garbage bytes; -3: empty;
// -4: a valid inner stream with zero rows. Only v >= 0 binds.
func c02Payload(v int64) []byte {
	mem := memory.NewGoAllocator()
	enc := func(f arrow.Field, col arrow.Array, rows int64) []byte {
		sch := arrow.NewSchema([]arrow.Field{f}, nil)
		rec := array.NewRecordBatch(sch, []arrow.Array{col}, rows)
		var buf bytes.Buffer
		w := ipc.NewWriter(&buf, ipc.WithSchema(sch))
		_ = w.Write(rec)
		_ = w.Close()
		return buf.Bytes()
	}
	switch {
	case v >= 0:
		b := array.NewInt64Builder(mem)
		b.Append(v)
		return enc(arrow.Field{Name: "x", Type: arrow.PrimitiveTypes.Int64}, b.NewArray(), 1)
	case v == -1:
		b := array.NewStringBuilder(mem)
		b.Append("notanint")
		return enc(arrow.Field{Name: "x", Type: arrow.BinaryTypes.String}, b.NewArray(), 1)
	case v == -3:
		return nil
	case v == -4:
		b := array.NewInt64Builder(mem)
		return enc(arrow.Field{Name: "x", Type: arrow.PrimitiveTypes.Int64}, b.NewArray(), 0)
	}
	// garbage: legacy framing that declares a 4-byte metadata block which is not a flatbuffer
	return []byte("\x04\x00\x00\x00junk")
}

func c02BuildColumn(code string, dt arrow.DataType, rows int, v int64) arrow.Array {
	mem := memory.NewGoAllocator()
	b := array.NewBuilder(mem, dt)
	defer b.Release()
	for r := 0; r < rows; r++ {
		if code == "payload" {
			b.(*array.BinaryBuilder).Append(c02Payload(v))
			continue
		}
		switch bb := b.(type) {
		case *array.Int64Builder:
			bb.Append(v)
		case *array.Int32Builder:
			bb.Append(int32(v))
		case *array.StringBuilder:
			bb.Append("s" + strconv.FormatInt(v, 10))
		case *array.Float64Builder:
			bb.Append(float64(v))
		case *array.BooleanBuilder:
			bb.Append(v != 0)
		case *array.BinaryBuilder:
			bb.Append([]byte(strconv.FormatInt(v, 10)))
		default:
			bb.AppendNull()
		}
	}
	return b.NewArray()
}

// c02Encode writes one IPC stream (schema, batches, EOS) with arrow-go.
func c02Encode(w io.Writer, st c02Stream) error {
	fields := make([]arrow.Field, len(st.schema))
	for i, f := range st.schema {
		dt := c02ArrowType(f.typ)
		if dt == nil {
			return fmt.Errorf("unsupported type %q", f.typ)
		}
		fields[i] = arrow.Field{Name: f.name, Type: dt, Nullable: f.nullable}
	}
	schema := arrow.NewSchema(fields, nil)
	wr := ipc.NewWriter(w, ipc.WithSchema(schema))
	for _, b := range st.batches {
		cols := make([]arrow.Array, len(fields))
		for i := range fields {
			v := int64(0)
			if i < len(b.cells) {
				v = b.cells[i]
			}
			cols[i] = c02BuildColumn(st.schema[i].typ, fields[i].Type, b.rows, v)
		}
		keys := make([]string, len(b.meta))
		vals := make([]string, len(b.meta))
		for i, kv := range b.meta {
			keys[i], vals[i] = kv[0], kv[1]
		}
		rec := array.NewRecordBatchWithMetadata(schema, cols, int64(b.rows), arrow.NewMetadata(keys, vals))
		err := wr.Write(rec)
		rec.Release()
		for _, c := range cols {
			c.Release()
		}
		if err != nil {
			return err
		}
	}
	return wr.Close()
}

func c02SchemaText(s *arrow.Schema) string {
	if s == nil || s.NumFields() == 0 {
		return "-"
	}
	var parts []string
	for _, f := range s.Fields() {
		n := "0"
		if f.Nullable {
			n = "1"
		}
		parts = append(parts, fmt.Sprintf("%s:%s:%s", f.Name, f.Type.String(), n))
	}
	return strings.Join(parts, ",")
}

// ---------------------------------------------------------------- running and decoding

type c02Result struct {
	streams  []string // rendered response streams
	left     string   // client streams left unread ("mid" = stopped inside a stream)
	panicked string
	raw      []byte
}

var c02Servers = map[bool]*vgirpc.Server{}

func c02Server(pvOn bool) *vgirpc.Server {
	if s, ok := c02Servers[pvOn]; ok {
		return s
	}
	s := c02NewServer(pvOn)
	c02Servers[pvOn] = s
	return s
}

// c02Serve feeds the client's streams to Server.Serve on one connection.
func c02Serve(pvOn bool, streams [][]byte, viaPipe bool) c02Result {
	var all []byte
	offsets := map[int]int{} // start offset -> stream index
	for i, b := range streams {
		offsets[len(all)] = i
		all = append(all, b...)
	}
	res := c02Result{}
	var out bytes.Buffer
	srv := c02Server(pvOn)
	if viaPipe {
		// a real pipe pair: the client writes while the server reads
		pr, pw := io.Pipe()
		go func() {
			_, _ = pw.Write(all)
			_ = pw.Close()
		}()
		func() {
			defer func() {
				if r := recover(); r != nil {
					res.panicked = fmt.Sprint(r)
				}
			}()
			srv.Serve(pr, &out)
		}()
		_ = pr.CloseWithError(io.ErrClosedPipe) // unblock the writer if the server stopped early
		res.left = "n/a"
	} else {
		rd := bytes.NewReader(all)
		func() {
			defer func() {
				if r := recover(); r != nil {
					res.panicked = fmt.Sprint(r)
				}
			}()
			srv.Serve(rd, &out)
		}()
		consumed := len(all) - rd.Len()
		if consumed == len(all) {
			res.left = "0"
		} else if idx, ok := offsets[consumed]; ok {
			res.left = strconv.Itoa(len(streams) - idx)
		} else {
			res.left = "mid"
		}
	}
	res.raw = out.Bytes()
	res.streams = c02Decode(res.raw)
	return res
}

func c02Hex(s string) string { return hex.EncodeToString([]byte(s)) }

// c02Decode renders every IPC stream in the server's output.
func c02Decode(data []byte) []string {
	var out []string
	r := bytes.NewReader(data)
	for r.Len() > 0 {
		rd, err := ipc.NewReader(r)
		if err != nil {
			out = append(out, "X[unreadable]")
			break
		}
		sch := rd.Schema()
		isHeader := len(sch.FieldIndices("hdr_v")) > 0
		isDescribe := sch.Equal(vgirpc.VerifC02DescribeSchema())
		var bs []string
		for rd.Next() {
			rec := rd.RecordBatch()
			var md arrow.Metadata
			if rb, ok := rec.(arrow.RecordBatchWithMetadata); ok {
				md = rb.Metadata()
			}
			get := func(k string) (string, bool) {
				i := md.FindKey(k)
				if i < 0 {
					return "", false
				}
				return md.Values()[i], true
			}
			id, _ := get(vgirpc.MetaRequestID)
			if lvl, ok := get(vgirpc.MetaLogLevel); ok && rec.NumRows() == 0 {
				if lvl == string(vgirpc.LogException) {
					extra, _ := get(vgirpc.MetaLogExtra)
					var e struct {
						T string `json:"exception_type"`
					}
					_ = json.Unmarshal([]byte(extra), &e)
					bs = append(bs, "E:"+e.T+":"+c02Hex(id))
				} else {
					bs = append(bs, "L:"+c02Hex(id))
				}
				continue
			}
			if isDescribe {
				bs = append(bs, "DESC")
				continue
			}
			if _, ok := get(vgirpc.MetaTransportShm); ok {
				bs = append(bs, "TOPT")
				continue
			}
			cells := "-"
			if !isHeader && rec.NumRows() > 0 && rec.NumCols() > 0 {
				var cs []string
				for i := 0; i < int(rec.NumCols()); i++ {
					cs = append(cs, c02Hex(rec.Column(i).ValueStr(0)))
				}
				cells = strings.Join(cs, ";")
			}
			bs = append(bs, fmt.Sprintf("D:%d:%s", rec.NumRows(), cells))
		}
		kind := "D"
		if isHeader {
			kind = "H"
		}
		if rd.Err() != nil {
			kind = "X"
		}
		rd.Release()
		out = append(out, kind+"["+strings.Join(bs, ",")+"]")
	}
	return out
}

func c02Render(streams []string) string {
	if len(streams) == 0 {
		return "-"
	}
	return strings.Join(streams, " ")
}

type c02OpRec struct {
	tag      string
	line     string
	frames   [][]byte
	isolated []string
}

func c02Exec(c *Case) {
	pvOn := false
	announced := false
	var ops []c02OpRec
	announce := func() {
		if announced {
			return
		}
		announced = true
		for _, m := range vgirpc.VerifC02Methods(c02Server(pvOn)) {
			in := "none"
			if m.InputSchema != nil {
				in = c02SchemaText(m.InputSchema)
			}
			b := func(x bool) string {
				if x {
					return "1"
				}
				return "0"
			}
			c.Out(fmt.Sprintf("method %s %s %s %s %s %s", c02Hex(m.Name), m.Kind, c02SchemaText(m.ParamsSchema),
				b(m.HasResult), b(m.HasHeader), in), "ok")
		}
	}
	for _, l := range c.Lines {
		f := strings.Fields(l)
		if len(f) == 0 {
			continue
		}
		switch {
		case f[0] == "pv" && len(f) == 2 && (f[1] == "on" || f[1] == "off"):
			pvOn = f[1] == "on"
			c.Out(l, "ok")
		case f[0] == "op" && len(f) >= 4:
			announce()
			streams, ok := c02ParseStreams(f[2:])
			if !ok || len(streams) > 2 {
				c.Out(l, "err:bad-op")
				continue
			}
			rec := c02OpRec{tag: f[1], line: l}
			bad := false
			for _, st := range streams {
				var buf bytes.Buffer
				if err := c02Encode(&buf, st); err != nil {
					bad = true
					break
				}
				rec.frames = append(rec.frames, buf.Bytes())
			}
			if bad {
				c.Out(l, "err:bad-op")
				continue
			}
			r := c02Serve(pvOn, rec.frames, false)
			rec.isolated = r.streams
			if r.panicked != "" {
				c.Oracle("panic-escaped-serve", fmt.Sprintf("%q alone: panic escaped Serve: %s", l, r.panicked))
			}
			ops = append(ops, rec)
			c.Stat("op:" + strings.TrimPrefix(strings.TrimPrefix(f[1], "w:"), "i:"))
			c.Out(l, f[1][:1]+" "+c02Render(r.streams))
			// oracle: exactly one complete response (a header stream, if any, then one data stream)
			if strings.HasPrefix(f[1], "w") {
				okShape := (len(r.streams) == 1 && strings.HasPrefix(r.streams[0], "D[")) ||
					(len(r.streams) == 2 && strings.HasPrefix(r.streams[0], "H[") && strings.HasPrefix(r.streams[1], "D["))
				if !okShape {
					c.Oracle("not-one-response-"+c02Cat(f[1]), fmt.Sprintf("%q alone was answered with %v", l, r.streams))
				}
				if r.left != "0" {
					c.Oracle("own-frames-not-consumed-"+c02Cat(f[1]), fmt.Sprintf("%q alone: %s client stream(s) left unread", l, r.left))
				}
			}
		case f[0] == "end" && len(f) == 1:
			announce()
			var frames [][]byte
			for _, o := range ops {
				frames = append(frames, o.frames...)
			}
			r := c02Serve(pvOn, frames, false)
			c.Out(l, c02Render(r.streams)+" left="+r.left)
			if r.panicked != "" {
				c.Oracle("panic-escaped-serve", "history: panic escaped Serve: "+r.panicked)
			}
			c02HistoryOracle(c, pvOn, ops, frames, r)
		default:
			c.Out(l, "err:bad-op")
		}
	}
}

func c02Cat(tag string) string {
	if i := strings.Index(tag, ":"); i >= 0 {
		return tag[i+1:]
	}
	return "untagged"
}

// c02HistoryOracle states the property on the real outputs, independently of the model:
// when every call of the history is well-shaped, the connection's output is the in-order
// concatenation of the answers each call gets alone on a fresh connection, one data stream per
// call, and the server read everything the client wrote.
func c02HistoryOracle(c *Case, pvOn bool, ops []c02OpRec, frames [][]byte, r c02Result) {
	for _, o := range ops {
		if !strings.HasPrefix(o.tag, "w") {
			c.Stat("history:ill-shaped")
			return
		}
	}
	c.Stat("history:well-shaped")
	var want []string
	owner := []int{}
	for i, o := range ops {
		for range o.isolated {
			owner = append(owner, i)
		}
		want = append(want, o.isolated...)
	}
	got := r.streams
	for p := 0; p < len(want) || p < len(got); p++ {
		if p < len(want) && p < len(got) && want[p] == got[p] {
			continue
		}
		k := len(ops) - 1
		if p < len(owner) {
			k = owner[p]
		}
		first := p == 0 || p >= len(owner) || owner[p-1] != k
		w, g := "<none>", "<none>"
		if p < len(want) {
			w = want[p]
		}
		if p < len(got) {
			g = got[p]
		}
		if first && k > 0 {
			c.Oracle("desync-after-"+c02Cat(ops[k-1].tag),
				fmt.Sprintf("response stream %d (call %d %q): on the shared connection %s, alone %s; previous call: %q", p, k, ops[k].line, g, w, ops[k-1].line))
		} else {
			c.Oracle("wrong-response-"+c02Cat(ops[k].tag),
				fmt.Sprintf("response stream %d (call %d %q): on the shared connection %s, alone %s", p, k, ops[k].line, g, w))
		}
		break
	}
	nData := 0
	for _, s := range got {
		if strings.HasPrefix(s, "D[") {
			nData++
		}
	}
	if nData != len(ops) {
		c.Oracle("response-count", fmt.Sprintf("%d calls, %d data streams: %v", len(ops), nData, got))
	}
	if r.left != "0" {
		c.Oracle("session-closed-early", fmt.Sprintf("the serve loop returned with %s client stream(s) unread", r.left))
	}
	// the same bytes through a real pipe pair, a Unix socket (RunUnix) and a TCP socket (RunTcp)
	// must give the same output
	var all []byte
	for _, f := range frames {
		all = append(all, f...)
	}
	for _, tr := range []string{"pipe", "unix", "tcp"} {
		done := make(chan []byte, 1)
		go func() {
			if tr == "pipe" {
				done <- c02Serve(pvOn, frames, true).raw
			} else {
				done <- c02ServeSocket(pvOn, tr, all)
			}
		}()
		select {
		case raw := <-done:
			if !bytes.Equal(raw, r.raw) {
				c.Oracle(tr+"-transport-differs", fmt.Sprintf("%s run wrote %v, buffer run wrote %v", tr, c02Decode(raw), r.streams))
			}
			c.Stat("transport:" + tr)
		case <-time.After(20 * time.Second):
			c.Oracle(tr+"-transport-hang", "serving the history over "+tr+" did not finish")
		}
	}
}

// ---------------------------------------------------------------- socket transports

type c02Listener struct {
	network, addr string
}

var c02Listeners = map[string]*c02Listener{}

// c02ListenerFor starts (once per process) RunUnix / RunTcp on a fresh scripted server.
func c02ListenerFor(pvOn bool, kind string) *c02Listener {
	key := fmt.Sprintf("%s/%v", kind, pvOn)
	if l, ok := c02Listeners[key]; ok {
		return l
	}
	srv := c02NewServer(pvOn)
	ready := make(chan *c02Listener, 1)
	if kind == "unix" {
		// Linux abstract socket: nothing is left in the file system
		path := fmt.Sprintf("@verif-c02-%d-%v", os.Getpid(), pvOn)
		go func() {
			_ = srv.RunUnix(path, 0, func(p string) { ready <- &c02Listener{"unix", p} })
		}()
	} else {
		go func() {
			_ = srv.RunTcp("127.0.0.1", 0, 0, func(h string, p int) {
				ready <- &c02Listener{"tcp", net.JoinHostPort(h, strconv.Itoa(p))}
			})
		}()
	}
	select {
	case l := <-ready:
		c02Listeners[key] = l
		return l
	case <-time.After(10 * time.Second):
		panic("C02: " + kind + " listener did not come up")
	}
}

// c02ServeSocket plays the client's bytes over one socket connection and returns everything
// the server wrote until it closed the connection.
func c02ServeSocket(pvOn bool, kind string, all []byte) []byte {
	l := c02ListenerFor(pvOn, kind)
	conn, err := net.Dial(l.network, l.addr)
	if err != nil {
		return []byte("dial error: " + err.Error())
	}
	defer conn.Close()
	go func() {
		_, _ = conn.Write(all)
		switch cc := conn.(type) {
		case *net.UnixConn:
			_ = cc.CloseWrite()
		case *net.TCPConn:
			_ = cc.CloseWrite()
		}
	}()
	_ = conn.SetReadDeadline(time.Now().Add(15 * time.Second))
	out, _ := io.ReadAll(conn)
	return out
}
