package main

import (
	"crypto/hmac"
	"crypto/sha256"
	"encoding/base64"
	"errors"
	"fmt"
	"net/http"
	"net/http/httptest"
	"regexp"
	"strconv"
	"strings"
	"time"

	"github.com/Query-farm/vgi-rpc-go/vgirpc"
)

// C25 — proxy proofs verify only for their worker and can never be replayed.
//
// Script ops (one gate and one unit-level cache per case; byte strings are x<hex>):
//
//	cfg <mode> <origin> <skew> <cap> <nocache 0|1> <inner nil|ok|fail> <kid>:<secret>...
//	      vgirpc.ProofAuthenticate(cfg, inner)                  -> ok | err:config
//	req <now_ns> <hdr>*
//	      the returned AuthenticateFunc on a request carrying these VGI-Proxy-Proof values, the
//	      injected clock reading now_ns                          -> pass calls=<n> | refuse <reason> <detail> calls=<n>
//	cache <ttl_ns> <cap>   newNonceCache (hook)                  -> ok
//	add <now_ns> <nonce>   checkAndAdd at that clock reading     -> true|false <dump>
//	verify <now_ns> <tok>  VerifyProof(tok, cfg, unit cache)     -> ok|refused <dump>
//
// <dump> = the cache's list oldest first, `nonce@expires_ns;…` ("-" empty, "nil" no cache).

func init() {
	Register(&Prop{
		ID: "C25",
		Rule: "gate histories (mode, origin, 1-3 keys, skew 1..300, capacity 1..8 or default, cache on/off, inner nil/ok/fail) with pools of " +
			"minted proofs (timestamps at -skew-2..+skew+2 around the clock), replays at the window and TTL boundary instants, " +
			"monotone and non-monotone clocks; field-grammar mutations of valid proofs (charset/length edges per field, versions, " +
			"field counts, foreign origin/secret/framing MACs, padding-bit variants); header multiplicity; config validation; " +
			"unit-level nonce-cache op sequences with cache dumps; VerifyProof against a dumped cache. " +
			"non-trivial = the case reaches a built gate or cache and presents at least one request/add/verify; distinct = distinct scripts",
		Gen:  c25Gen,
		Exec: c25Exec,
		NonTrivial: func(lines []string) bool {
			built, used := false, false
			for _, l := range lines {
				if strings.HasPrefix(l, "cfg ") || strings.HasPrefix(l, "cache ") {
					built = true
				}
				if strings.HasPrefix(l, "req ") || strings.HasPrefix(l, "add ") || strings.HasPrefix(l, "verify ") {
					used = true
				}
			}
			return built && used
		},
	})
}

// ---------------------------------------------------------------- token construction (harness side)

const c25TokChars = "ABCDEFGHIJKLMNOPQRSTUVWXYZabcdefghijklmnopqrstuvwxyz0123456789_-"
const c25B64Alphabet = "ABCDEFGHIJKLMNOPQRSTUVWXYZabcdefghijklmnopqrstuvwxyz0123456789-_"

func c25MAC(secret []byte, kid, ts, nonce, origin string) []byte {
	m := hmac.New(sha256.New, secret)
	m.Write([]byte("vgi.proxy.proof.v1\x00" + kid + "\x00" + ts + "\x00" + nonce + "\x00" + origin))
	return m.Sum(nil)
}

func c25B64(b []byte) string { return base64.RawURLEncoding.EncodeToString(b) }

func c25Token(secret []byte, kid, ts, nonce, origin string) string {
	return "v1." + kid + "." + ts + "." + nonce + "." + c25B64(c25MAC(secret, kid, ts, nonce, origin))
}

func c25RandTok(r *Rng, n int) string {
	b := make([]byte, n)
	for i := range b {
		b[i] = c25TokChars[r.Intn(len(c25TokChars))]
	}
	return string(b)
}

type c25Key struct {
	kid    string
	secret []byte
}

type c25World struct {
	mode    string
	origin  string
	keys    []c25Key
	skew    int
	cap     int
	nocache bool
	inner   string
}

func (w *c25World) cfgLine() string {
	parts := []string{"cfg", XS(w.mode), XS(w.origin), strconv.Itoa(w.skew), strconv.Itoa(w.cap), map[bool]string{false: "0", true: "1"}[w.nocache], w.inner}
	for _, k := range w.keys {
		parts = append(parts, XS(k.kid)+":"+X(k.secret))
	}
	return strings.Join(parts, " ")
}

// c25Later, when non-zero, is added to the clock for every reading after the first one inside the
// same request ("t1,t2" in the script): the repaired code reads the clock once per request.
var c25Later int64

func c25ReqLine(nowNs int64, hdrs ...string) string {
	parts := []string{"req", strconv.FormatInt(nowNs, 10)}
	if c25Later != 0 {
		parts[1] += "," + strconv.FormatInt(nowNs+c25Later, 10)
	}
	for _, h := range hdrs {
		parts = append(parts, XS(h))
	}
	return strings.Join(parts, " ")
}

var c25Origins = []string{"worker-a", "conformance-origin", "w", "https://w.example:8443/a_b", "a.b", strings.Repeat("o", 255)}
var c25Kids = []string{"k1", "proxy-A", "p_2", "K", strings.Repeat("k", 64), "conformance-proxy", "0"}

func c25NewWorld(r *Rng) *c25World {
	w := &c25World{mode: "require", origin: Pick(r, c25Origins), skew: Pick(r, []int{1, 1, 2, 3, 5, 30, 300}), inner: Pick(r, []string{"nil", "ok", "ok", "fail"})}
	switch r.Intn(10) {
	case 0:
		w.cap = Pick(r, []int{0, -1})
	default:
		w.cap = Pick(r, []int{1, 1, 2, 2, 2, 3, 3, 4, 5, 8})
	}
	if r.Chance(8) {
		w.nocache = true
	}
	if r.Chance(8) {
		w.mode = "allow"
	}
	nk := r.Range(1, 3)
	used := map[string]bool{}
	for len(w.keys) < nk {
		k := Pick(r, c25Kids)
		if used[k] {
			continue
		}
		used[k] = true
		w.keys = append(w.keys, c25Key{k, r.Bytes(32)})
	}
	return w
}

const c25NS = int64(1000000000)

// c25FarTs: timestamps at huge distances from the clock reading nowS (seconds), all inside the
// 1..20-digit grammar: beyond what a time.Duration can express (~9.22e9 s), powers of two, the
// int64 edge, and values where time.Unix(ts, 0) itself wraps internally.
func c25FarTs(r *Rng, nowS int64) string {
	if r.Chance(25) {
		// leading-zero numerals: the field is a DECIMAL numeral (the grammar is [0-9]{1,20}), so these
		// are far-future timestamps; read as octal (strconv base 0) they would land inside the window
		near := nowS + int64(r.Range(-2, 2))
		if near < 0 {
			near = 0
		}
		switch r.Intn(4) {
		case 0:
			return "0" + strconv.FormatInt(near, 8)
		case 1:
			return "00" + strconv.FormatInt(near, 8)
		case 2:
			return "0" + strconv.FormatInt(nowS, 8)
		default:
			return strings.Repeat("0", r.Range(1, 6)) + strconv.FormatInt(near, 8)
		}
	}
	switch r.Intn(16) {
	case 0:
		return strconv.FormatInt(nowS+10000000000, 10)
	case 1:
		return strconv.FormatInt(max(nowS-10000000000, 0), 10)
	case 2:
		return strconv.FormatInt(1<<40, 10)
	case 3:
		return strconv.FormatInt(1<<62, 10)
	case 4:
		return strconv.FormatInt(nowS+9223372036, 10) // first second whose distance in ns still fits int64
	case 5:
		return strconv.FormatInt(nowS+9223372037, 10) // one more: the distance in ns no longer fits
	case 6:
		return strconv.FormatInt(nowS+9223372037+int64(r.Intn(1000000)), 10)
	case 7:
		return strconv.FormatInt(nowS+(1<<uint(r.Range(33, 61))), 10)
	case 8:
		return "9223372036854775807"
	case 9:
		return strconv.FormatInt(9223372036854775807-62135596800, 10) // last ts before time.Unix's internal offset wraps
	case 10:
		return strconv.FormatInt(9223372036854775807-62135596800+1, 10)
	case 11:
		return "0"
	case 12:
		return "1"
	case 13:
		return strconv.FormatInt(nowS+int64(r.Range(31, 4000))*86400, 10) // days to ~11 years ahead
	case 14:
		return strconv.FormatInt(max(nowS-int64(r.Range(31, 4000))*86400, 0), 10)
	default:
		return strconv.FormatInt(nowS+(1<<32), 10)
	}
}

// ---------------------------------------------------------------- generator

func c25Gen(g *Gen) {
	r := g.Rng
	for i, n := 0, g.N(260, 6000); i < n; i++ {
		c25GenHistory(g, r)
	}
	for i, n := 0, g.N(160, 4000); i < n; i++ {
		c25GenGrammar(g, r)
	}
	for i, n := 0, g.N(40, 600); i < n; i++ {
		c25GenHeaders(g, r)
	}
	for i, n := 0, g.N(60, 800); i < n; i++ {
		c25GenConfig(g, r)
	}
	for i, n := 0, g.N(120, 3000); i < n; i++ {
		c25GenCacheUnit(g, r)
	}
	for i, n := 0, g.N(80, 2000); i < n; i++ {
		c25GenVerifyUnit(g, r)
	}
	if g.Thorough() {
		c25GenExhaustiveCache(g)
	}
}

type c25Minted struct {
	tok string
	ts  int64
}

// gate histories: a pool of proofs presented and re-presented along a clock history that visits
// the window edges and the cache-expiry instants.
func c25GenHistory(g *Gen, r *Rng) {
	w := c25NewWorld(r)
	lines := []string{w.cfgLine()}
	base := int64(1700000000) + int64(r.Intn(1000000))
	if r.Chance(5) {
		base = int64(w.skew) + int64(r.Intn(3)) // near the epoch: ts - skew touches 0
	}
	skew := int64(w.skew)
	var pool []c25Minted
	np := r.Range(1, 6)
	for i := 0; i < np; i++ {
		k := Pick(r, w.keys)
		var off int64
		switch r.Intn(6) {
		case 0:
			off = skew // future-dated at the edge: first acceptable at `base`
		case 1:
			off = -skew
		case 2:
			off = 0
		default:
			off = int64(r.Range(int(-skew-2), int(skew+2)))
		}
		ts := base + off
		if ts < 0 {
			ts = 0
		}
		tsStr := strconv.FormatInt(ts, 10)
		if r.Chance(12) { // stamped far away from the clock (or a leading-zero numeral), correctly signed
			tsStr = c25FarTs(r, base)
			ts, _ = strconv.ParseInt(tsStr, 10, 64)
		}
		nonce := c25RandTok(r, 22)
		if len(pool) > 0 && r.Chance(12) { // same nonce under another key / timestamp
			nonce = strings.Split(pool[r.Intn(len(pool))].tok, ".")[3]
		}
		pool = append(pool, c25Minted{c25Token(k.secret, k.kid, tsStr, nonce, w.origin), ts})
	}
	now := base*c25NS + int64(r.Intn(int(c25NS)))
	monotone := !r.Chance(15)
	nops := r.Range(3, 28)
	var firstAccept = map[int]int64{}
	for k := 0; k < nops; k++ {
		j := r.Intn(len(pool))
		p := pool[j]
		// choose the next clock reading
		var cand []int64
		lo, hi := (p.ts-skew)*c25NS, (p.ts+skew+1)*c25NS
		if p.ts > 9000000000 || p.ts < base-9000000000 { // far timestamp: its window is not a representable instant; stay near the clock
			lo, hi = now, now+(2*skew+2)*c25NS
		}
		cand = append(cand, lo-1, lo, lo+int64(r.Intn(int(c25NS))), hi-1, hi, hi-c25NS, hi-c25NS-1, now, now+1, now+int64(r.Intn(int(2*skew+2)))*c25NS)
		if a, ok := firstAccept[j]; ok {
			cand = append(cand, a+skew*c25NS-1, a+skew*c25NS, a+skew*c25NS+1, a+(2*skew+1)*c25NS-1, a+(2*skew+1)*c25NS, a+2*skew*c25NS)
		}
		t := Pick(r, cand)
		if monotone && t < now {
			if r.Bool() {
				t = now
			} else {
				t = now + int64(r.Intn(int(c25NS)))
			}
		}
		if t < 0 {
			t = 0
		}
		now = t
		c25Later = 0
		if r.Chance(30) {
			c25Later = Pick(r, []int64{1, c25NS, skew * c25NS, (2*skew + 1) * c25NS, int64(r.Intn(int(2*skew+2))) * c25NS})
		}
		switch x := r.Intn(100); {
		case x < 80:
			lines = append(lines, c25ReqLine(now, p.tok))
			if _, ok := firstAccept[j]; !ok && now >= lo && now < hi {
				firstAccept[j] = now
			}
		case x < 88:
			lines = append(lines, c25ReqLine(now, c25Mutate(r, w, p.tok, p.ts)))
		case x < 92:
			lines = append(lines, c25ReqLine(now))
		case x < 96:
			lines = append(lines, c25ReqLine(now, p.tok, pool[r.Intn(len(pool))].tok))
		default:
			// a fresh proof admitted in between (pushes the cache toward capacity)
			kk := Pick(r, w.keys)
			lines = append(lines, c25ReqLine(now, c25Token(kk.secret, kk.kid, strconv.FormatInt(now/c25NS, 10), c25RandTok(r, 22), w.origin)))
		}
	}
	c25Later = 0
	g.Case(lines...)
}

var c25Junk = []string{"", ".", ",", " ", "\x00", "\x7f", "\x80", "é", "+", "/", "=", "~", "!", "\n", "A", "0", "_", "-", ":", "%00"}

// c25Mutate returns a near-miss of a valid token.
func c25Mutate(r *Rng, w *c25World, tok string, ts int64) string {
	f := strings.Split(tok, ".")
	if len(f) != 5 {
		return tok + "x"
	}
	k0 := w.keys[0]
	for _, k := range w.keys {
		if k.kid == f[1] {
			k0 = k
		}
	}
	remac := func() string { // re-sign the (possibly out-of-grammar) fields with the right key
		return strings.Join([]string{f[0], f[1], f[2], f[3], c25B64(c25MAC(k0.secret, f[1], f[2], f[3], w.origin))}, ".")
	}
	edit := func(s string) string {
		j := Pick(r, c25Junk)
		switch r.Intn(4) {
		case 0:
			return s + j
		case 1:
			return j + s
		case 2:
			if len(s) > 0 {
				p := r.Intn(len(s))
				return s[:p] + j + s[p+1:]
			}
			return j
		default:
			if len(s) > 0 {
				return s[:len(s)-1]
			}
			return s
		}
	}
	switch r.Intn(28) {
	case 0:
		f[0] = Pick(r, []string{"v2", "V1", "", "v1 ", "v10", "1", "v"})
		return remac()
	case 1:
		f[1] = edit(f[1])
		return remac()
	case 2:
		f[1] = Pick(r, []string{"", strings.Repeat("a", 64), strings.Repeat("a", 65), "no-such-kid", "a b", "a\x00b"})
		return remac()
	case 3:
		f[2] = edit(f[2])
		return remac()
	case 4: // numerically equal / huge / boundary timestamps, correctly signed
		f[2] = Pick(r, []string{"0" + f[2], "00000000000000000000", "9223372036854775807", "9223372036854775808", "99999999999999999999",
			"18446744073709551616", strings.Repeat("0", 20-min(len(f[2]), 20)) + f[2], strings.Repeat("0", 21-min(len(f[2]), 21)) + f[2], "-" + f[2], "+" + f[2], "1e9", "",
			"0x" + strconv.FormatInt(ts, 16), "0X" + strconv.FormatInt(ts, 16), "0o" + strconv.FormatInt(ts, 8), "0b" + strconv.FormatInt(ts, 2),
			strconv.FormatInt(ts, 16), f[2][:1] + "_" + f[2][1:], "0" + strconv.FormatInt(ts, 8), "00" + strconv.FormatInt(ts, 8), "0_" + strconv.FormatInt(ts, 8)})
		return remac()
	case 5:
		f[3] = edit(f[3])
		return remac()
	case 6:
		f[3] = Pick(r, []string{c25RandTok(r, 21), c25RandTok(r, 23), "", c25RandTok(r, 21) + "=", c25RandTok(r, 21) + "\x00"})
		return remac()
	case 7:
		f[4] = edit(f[4])
	case 8: // padding-bit variant: the low 2 bits of the last MAC character are not part of the 32 bytes
		last := strings.IndexByte(c25B64Alphabet, f[4][42])
		f[4] = f[4][:42] + string(c25B64Alphabet[last^(1+r.Intn(3))])
	case 9: // one MAC bit flipped in a significant position
		p := r.Intn(42)
		v := strings.IndexByte(c25B64Alphabet, f[4][p])
		f[4] = f[4][:p] + string(c25B64Alphabet[v^(1<<r.Intn(6))]) + f[4][p+1:]
	case 10: // signed for another origin
		f[4] = c25B64(c25MAC(k0.secret, f[1], f[2], f[3], Pick(r, []string{w.origin + "x", "other-worker", w.origin[:len(w.origin)-1] + "_", ""})))
	case 11: // signed with a foreign / other configured key
		s := r.Bytes(32)
		if len(w.keys) > 1 && r.Bool() {
			s = w.keys[r.Intn(len(w.keys))].secret
		}
		f[4] = c25B64(c25MAC(s, f[1], f[2], f[3], w.origin))
	case 12: // framing: separators dropped or shifted between fields
		m := hmac.New(sha256.New, k0.secret)
		switch r.Intn(3) {
		case 0:
			m.Write([]byte("vgi.proxy.proof.v1" + f[1] + f[2] + f[3] + w.origin))
		case 1:
			m.Write([]byte("vgi.proxy.proof.v1\x00" + f[1] + "\x00" + f[2] + f[3] + "\x00\x00" + w.origin))
		default:
			m.Write([]byte("vgi.proxy.proof.v1\x00" + f[1] + "\x00" + f[2] + "\x00" + f[3] + "\x00" + w.origin + "\x00"))
		}
		f[4] = c25B64(m.Sum(nil))
	case 13: // shifted field boundary: kid "ab", ts "1…" vs kid "ab1", ts "…" signed as the other split
		if len(f[2]) > 1 {
			mac := c25MAC(k0.secret, f[1], f[2], f[3], w.origin)
			f[1], f[2] = f[1]+f[2][:1], f[2][1:]
			f[4] = c25B64(mac)
		}
	case 14:
		return strings.Join(f[:4], ".")
	case 15:
		return tok + "." + Pick(r, []string{"", "x", f[4]})
	case 16:
		return tok + strings.Repeat(Pick(r, []string{"A", ".", " "}), Pick(r, []int{1, 512 - len(tok), 513 - len(tok), 600}))
	case 17:
		return Pick(r, []string{" ", "\t", "\n", ""}) + tok + Pick(r, []string{" ", "\t", "\n", "\r\n", "\x00"})
	case 18:
		return strings.ReplaceAll(tok, ".", Pick(r, []string{"..", ":", ",", " "}))
	case 19:
		return tok + "," + tok
	case 20:
		f[4] = base64.StdEncoding.EncodeToString(c25MAC(k0.secret, f[1], f[2], f[3], w.origin)) // padded, +/ alphabet
	case 21:
		f[4] = f[4][:42]
	case 22:
		f[4] = f[4] + "A"
	case 26, 27: // timestamp at a huge distance from the clock, correctly signed
		f[2] = c25FarTs(r, ts)
		return remac()
	case 23: // timestamp just outside / at the window, correctly signed
		f[2] = strconv.FormatInt(ts+Pick(r, []int64{int64(w.skew), int64(w.skew) + 1, -int64(w.skew), -int64(w.skew) - 1, 2 * int64(w.skew)}), 10)
		return remac()
	case 24:
		return Pick(r, []string{"garbage", "v1", "v1....", "....", "v1.a.b.c", "v1.a.b.c.d.e", strings.Repeat("x", 600), "v1." + strings.Repeat("x", 600)})
	default:
		b := []byte(tok)
		b[r.Intn(len(b))] ^= byte(1 << r.Intn(8))
		return string(b)
	}
	return strings.Join(f, ".")
}

// one configured gate, many single presentations of mutated proofs at in-window instants
func c25GenGrammar(g *Gen, r *Rng) {
	w := c25NewWorld(r)
	w.cap = 8
	lines := []string{w.cfgLine()}
	base := int64(1700000000) + int64(r.Intn(100000))
	for k, n := 0, r.Range(4, 14); k < n; k++ {
		key := Pick(r, w.keys)
		ts := base + int64(r.Range(-w.skew, w.skew))
		tok := c25Token(key.secret, key.kid, strconv.FormatInt(ts, 10), c25RandTok(r, 22), w.origin)
		now := base*c25NS + int64(r.Intn(int(c25NS)))
		if r.Chance(25) {
			lines = append(lines, c25ReqLine(now, tok))
		} else {
			lines = append(lines, c25ReqLine(now, c25Mutate(r, w, tok, ts)))
		}
	}
	g.Case(lines...)
}

func c25GenHeaders(g *Gen, r *Rng) {
	w := c25NewWorld(r)
	w.mode = "require"
	lines := []string{w.cfgLine()}
	base := int64(1700000000)
	mk := func() string {
		key := Pick(r, w.keys)
		return c25Token(key.secret, key.kid, strconv.FormatInt(base, 10), c25RandTok(r, 22), w.origin)
	}
	now := base * c25NS
	shapes := [][]string{{}, {""}, {"", mk()}, {mk(), ""}, {mk(), mk()}, {mk() + "," + mk()}, {mk() + ","}, {"," + mk()}, {mk(), mk(), mk()}, {" "}, {mk()}, {"", ""}}
	for k, n := 0, r.Range(3, 8); k < n; k++ {
		lines = append(lines, c25ReqLine(now, Pick(r, shapes)...))
	}
	// the same valid value twice as two header lines, then alone, then alone again
	v := mk()
	lines = append(lines, c25ReqLine(now, v, v), c25ReqLine(now, v), c25ReqLine(now, v))
	g.Case(lines...)
}

func c25GenConfig(g *Gen, r *Rng) {
	w := c25NewWorld(r)
	key := w.keys[0]
	switch r.Intn(12) {
	case 0:
		w.mode = Pick(r, []string{"off", "", "Require", "REQUIRE", "deny", "allow "})
	case 1:
		w.origin = Pick(r, []string{"", strings.Repeat("o", 256), "a b", "a\x00b", "é", "a,b", "a;b"})
	case 2:
		w.keys = nil
	case 3:
		w.keys = append(w.keys, c25Key{Pick(r, []string{"", "bad kid", "a.b", strings.Repeat("k", 65), "k\x00"}), r.Bytes(32)})
	case 4:
		w.keys[r.Intn(len(w.keys))].secret = r.Bytes(Pick(r, []int{0, 1, 31, 33, 64}))
	case 5:
		w.skew = Pick(r, []int{0, -1, -30})
	case 6:
		w.cap = Pick(r, []int{0, -5, 1})
	case 7:
		w.nocache = true
	default:
	}
	lines := []string{w.cfgLine()}
	base := int64(1700000000)
	if len(w.keys) > 0 {
		key = w.keys[0]
	}
	tok := c25Token(key.secret, key.kid, strconv.FormatInt(base, 10), c25RandTok(r, 22), w.origin)
	lines = append(lines, c25ReqLine(base*c25NS, tok), c25ReqLine(base*c25NS+5, tok), c25ReqLine(base*c25NS+7))
	g.Case(lines...)
}

func c25GenCacheUnit(g *Gen, r *Rng) {
	ttl := Pick(r, []int64{0, 1, 5, 10, 1000, 3 * c25NS})
	capN := r.Range(1, 5)
	lines := []string{fmt.Sprintf("cache %d %d", ttl, capN)}
	nonces := []string{"a", "b", "c", "d", "e", "f", "", "a\x00", strings.Repeat("n", 22)}
	now := int64(r.Intn(50))
	var expiries []int64
	for k, n := 0, r.Range(3, 30); k < n; k++ {
		cand := []int64{now, now, now + 1, now + int64(r.Intn(int(ttl)+2)), now + ttl, now + ttl - 1, now + ttl + 1}
		for _, e := range expiries {
			cand = append(cand, e-1, e, e+1)
		}
		t := Pick(r, cand)
		if t < now && !r.Chance(10) {
			t = now
		}
		if t < 0 {
			t = 0
		}
		now = t
		lines = append(lines, fmt.Sprintf("add %d %s", now, XS(Pick(r, nonces[:r.Range(2, len(nonces))]))))
		expiries = append(expiries, now+ttl)
		if len(expiries) > 4 {
			expiries = expiries[1:]
		}
	}
	g.Case(lines...)
}

func c25GenVerifyUnit(g *Gen, r *Rng) {
	w := c25NewWorld(r)
	skew := int64(w.skew)
	ttl := Pick(r, []int64{skew * c25NS, (2*skew + 1) * c25NS, c25NS, 1})
	lines := []string{w.cfgLine()}
	if !r.Chance(10) {
		lines = append(lines, fmt.Sprintf("cache %d %d", ttl, r.Range(1, 4)))
	}
	base := int64(1700000000) + int64(r.Intn(1000))
	now := base * c25NS
	var toks []c25Minted
	for k, n := 0, r.Range(3, 16); k < n; k++ {
		var p c25Minted
		if len(toks) > 0 && r.Chance(45) {
			p = Pick(r, toks)
		} else {
			key := Pick(r, w.keys)
			ts := now/c25NS + int64(r.Range(int(-skew-1), int(skew+1)))
			tsStr := strconv.FormatInt(ts, 10)
			if r.Chance(12) {
				tsStr = c25FarTs(r, now/c25NS)
				ts, _ = strconv.ParseInt(tsStr, 10, 64)
			}
			p = c25Minted{c25Token(key.secret, key.kid, tsStr, c25RandTok(r, 22), w.origin), ts}
			toks = append(toks, p)
		}
		tok := p.tok
		if r.Chance(25) {
			tok = c25Mutate(r, w, tok, p.ts)
		}
		now += Pick(r, []int64{0, 1, c25NS / 2, c25NS, skew * c25NS, ttl - 1, ttl})
		lines = append(lines, fmt.Sprintf("verify %d %s", now, XS(tok)))
	}
	g.Case(lines...)
}

// thorough: every add sequence of length <= 6 over 3 nonces x 3 clock steps on a capacity-2 cache
func c25GenExhaustiveCache(g *Gen) {
	type op struct {
		nonce string
		dt    int64
	}
	var alpha []op
	for _, n := range []string{"a", "b", "c"} {
		for _, dt := range []int64{0, 1, 2} {
			alpha = append(alpha, op{n, dt})
		}
	}
	var rec func(prefix []op, depth int)
	rec = func(prefix []op, depth int) {
		if depth == 0 {
			lines := []string{"cache 2 2"}
			now := int64(10)
			for _, o := range prefix {
				now += o.dt
				lines = append(lines, fmt.Sprintf("add %d %s", now, XS(o.nonce)))
			}
			g.Case(lines...)
			return
		}
		for _, a := range alpha {
			rec(append(append([]op{}, prefix...), a), depth-1)
		}
	}
	for d := 1; d <= 4; d++ {
		rec(nil, d)
	}
}

// ---------------------------------------------------------------- exec

var c25ErrInner = errors.New("inner authenticator says no")

var (
	c25KidRe   = regexp.MustCompile(`^[A-Za-z0-9_-]{1,64}$`)
	c25TsRe    = regexp.MustCompile(`^[0-9]{1,20}$`)
	c25NonceRe = regexp.MustCompile(`^[A-Za-z0-9_-]{22}$`)
	c25MacRe   = regexp.MustCompile(`^[A-Za-z0-9_-]{43}$`)
)

// c25SpecValid is the property's acceptance condition restated independently of proof.go:
// exactly the five-field grammar, a configured kid, a timestamp within the window of the clock
// reading, and a MAC that verifies for this worker's origin. Returns the nonce and timestamp.
func c25SpecValid(w *c25World, now time.Time, tok string) (nonce string, ts int64, ok bool) {
	if len(tok) > 512 {
		return "", 0, false
	}
	f := strings.Split(tok, ".")
	if len(f) != 5 || f[0] != "v1" || !c25KidRe.MatchString(f[1]) || !c25TsRe.MatchString(f[2]) || !c25NonceRe.MatchString(f[3]) || !c25MacRe.MatchString(f[4]) {
		return "", 0, false
	}
	var secret []byte
	for _, k := range w.keys {
		if k.kid == f[1] {
			secret = k.secret
		}
	}
	if secret == nil {
		return "", 0, false
	}
	ts, err := strconv.ParseInt(f[2], 10, 64)
	if err != nil {
		return "", 0, false
	}
	age := now.Unix() - ts
	if age > int64(w.skew) || age < -int64(w.skew) {
		return "", 0, false
	}
	got, err := base64.RawURLEncoding.DecodeString(f[4])
	if err != nil || !hmac.Equal(got, c25MAC(secret, f[1], f[2], f[3], w.origin)) {
		return "", 0, false
	}
	return f[3], ts, true
}

// c25OnlyWindowFails: the token is authentic in every respect except that its timestamp is
// outside the skew window of the clock reading (judged on mathematical integers).
func c25OnlyWindowFails(w *c25World, now time.Time, tok string) bool {
	f := strings.Split(tok, ".")
	if len(f) != 5 || !c25TsRe.MatchString(f[2]) {
		return false
	}
	ts, err := strconv.ParseInt(f[2], 10, 64)
	if err != nil {
		return false
	}
	_, _, ok := c25SpecValid(w, time.Unix(ts, 0), tok) // valid at its own timestamp …
	_, _, okNow := c25SpecValid(w, now, tok)          // … but not at the clock reading
	return ok && !okNow
}

// c25Accepted remembers one accepted presentation by position, so the replay oracle costs nothing
// per request: "admitted since" is a difference of counters and "still acceptable at every later
// clock reading" is evaluated over the recorded readings only when the same nonce passes again.
type c25Accepted struct {
	limit      int64 // gate: ts+skew in Unix seconds; unit cache: the expiry instant in ns
	at         int   // index into the readings recorded so far
	admittedAt int   // value of the admitted counter right after this acceptance
}

// c25StillInTime: every reading after position at stayed within the limit (<= for the gate's
// second-granular window, < for the cache's expiry instant).
func c25StillInTime(readings []int64, a *c25Accepted, strict bool) bool {
	for _, t := range readings[a.at+1:] {
		if t > a.limit || (strict && t == a.limit) {
			return false
		}
	}
	return true
}

func c25Exec(c *Case) {
	var (
		w          *c25World
		fn         vgirpc.AuthenticateFunc
		clock      time.Time // first clock reading of the current request
		clockLater time.Time // what any further reading inside the same request returns
		clockReads int
		innerCalls int
		pcfg       *vgirpc.ProofConfig
		ucache     *vgirpc.VerifC25Cache
		ucacheCap  int
		ucacheTTL  int64
		accepted   = map[string]*c25Accepted{} // gate level, by nonce
		uAccepted  = map[string]*c25Accepted{} // unit level
		readings   []int64                     // gate: clock readings in Unix seconds, one per request
		uReadings  []int64                     // unit cache: clock readings in ns, one per add
		admitted   int                         // proofs admitted by the gate so far
		uAdmitted  int
	)
	dump := func() string {
		if ucache == nil {
			return "nil"
		}
		es, consistent := ucache.Entries()
		if !consistent {
			c.Oracle("cache-map-list-inconsistent", "the nonce cache's lookup map no longer mirrors its list")
		}
		if len(es) > ucacheCap {
			c.Oracle("cache-over-capacity", fmt.Sprintf("%d entries in a cache of capacity %d", len(es), ucacheCap))
		}
		if len(es) == 0 {
			return "-"
		}
		parts := make([]string, len(es))
		for i, e := range es {
			parts[i] = fmt.Sprintf("%s@%d", XS(e.Nonce), e.ExpiresAt.UnixNano())
		}
		return strings.Join(parts, ";")
	}
	for _, l := range c.Lines {
		f := strings.Fields(l)
		if len(f) == 0 {
			continue
		}
		switch f[0] {
		case "cfg":
			if len(f) < 7 {
				c.Out(l, "err:bad-op")
				continue
			}
			nw := &c25World{mode: UnXS(f[1]), origin: UnXS(f[2]), inner: f[6], nocache: f[5] == "1"}
			nw.skew, _ = strconv.Atoi(f[3])
			nw.cap, _ = strconv.Atoi(f[4])
			secrets := map[string]vgirpc.ProofSecret{}
			for _, ks := range f[7:] {
				kv := strings.SplitN(ks, ":", 2)
				kid, sec := UnXS(kv[0]), MustUnX(kv[1])
				nw.keys = append(nw.keys, c25Key{kid, sec})
				secrets[kid] = vgirpc.ProofSecret{Secret: sec, Label: kid}
			}
			cfg := vgirpc.ProofConfig{
				Mode: vgirpc.ProofMode(nw.mode), OriginID: nw.origin, Secrets: secrets, SkewSeconds: nw.skew,
				ReplayCapacity: nw.cap, DisableReplayCache: nw.nocache,
				Now: func() time.Time {
					clockReads++
					if clockReads > 1 {
						return clockLater
					}
					return clock
				},
			}
			var inner vgirpc.AuthenticateFunc
			switch nw.inner {
			case "ok":
				inner = func(*http.Request) (*vgirpc.AuthContext, error) {
					innerCalls++
					return &vgirpc.AuthContext{Domain: "t", Authenticated: true, Principal: "u"}, nil
				}
			case "fail":
				inner = func(*http.Request) (*vgirpc.AuthContext, error) { innerCalls++; return nil, c25ErrInner }
			}
			gate, err := vgirpc.ProofAuthenticate(cfg, inner)
			accepted, readings, admitted = map[string]*c25Accepted{}, nil, 0
			if err != nil {
				fn, w, pcfg = nil, nil, nil
				c.Stat("cfg-rejected")
				c.Out(l, "err:config")
				continue
			}
			fn, w = gate, nw
			cc := cfg
			pcfg = &cc
			c.Stat("cfg-ok-" + nw.mode)
			c.Out(l, "ok")
		case "req":
			if fn == nil {
				c.Out(l, "err:no-gate")
				continue
			}
			t12 := strings.SplitN(f[1], ",", 2)
			ns, _ := strconv.ParseInt(t12[0], 10, 64)
			clock = time.Unix(ns/c25NS, ns%c25NS)
			clockLater, clockReads = clock, 0
			if len(t12) == 2 {
				ns2, _ := strconv.ParseInt(t12[1], 10, 64)
				clockLater = time.Unix(ns2/c25NS, ns2%c25NS)
			}
			req := httptest.NewRequest("POST", "/x", nil)
			var hdrs []string
			for _, h := range f[2:] {
				hdrs = append(hdrs, UnXS(h))
				req.Header.Add(vgirpc.ProofHeader, UnXS(h))
			}
			before := innerCalls
			_, err := fn(req)
			calls := innerCalls - before
			pass := err == nil || err == c25ErrInner
			// ---- property oracles on the real answer (require mode)
			var nonce string
			var ts int64
			valid := false
			if len(hdrs) == 1 && hdrs[0] != "" && !strings.Contains(hdrs[0], ",") {
				nonce, ts, valid = c25SpecValid(w, clock, hdrs[0])
			}
			if w.mode == "require" {
				if pass && !valid {
					cls := "pass-without-valid-proof"
					if len(hdrs) != 1 {
						cls = "pass-without-exactly-one-header"
					} else if c25OnlyWindowFails(w, clock, hdrs[0]) {
						cls = "passed-outside-window"
					}
					c.Oracle(cls, fmt.Sprintf("%q passed the gate (headers=%d) though no single proof header verifies for origin %q at %d", l, len(hdrs), w.origin, clock.Unix()))
				}
				if !pass {
					var af *vgirpc.AuthFailure
					if !errors.As(err, &af) || af.Reason != vgirpc.AuthReasonProxyRequired || af.Detail != "proxy proof required" {
						c.Oracle("refusal-not-uniform", fmt.Sprintf("%q refused with %T %q instead of the uniform proxy_required answer", l, err, err))
					}
					if calls != 0 {
						c.Oracle("inner-called-on-refusal", fmt.Sprintf("%q refused but the inner authenticator ran %d time(s)", l, calls))
					}
				}
			}
			readings = append(readings, clock.Unix())
			if w.mode == "require" && pass && valid && !w.nocache {
				if a := accepted[nonce]; a != nil && c25StillInTime(readings, a, false) {
					capN := w.cap
					if capN <= 0 {
						capN = 100000
					}
					if since := admitted - a.admittedAt; since < capN {
						c.Oracle("replay-accepted", fmt.Sprintf("%q: nonce %s was accepted before, its timestamp has been acceptable ever since, only %d proof(s) were admitted in between (capacity %d), yet it passed again", l, nonce, since, capN))
					}
				}
				admitted++
				accepted[nonce] = &c25Accepted{limit: ts + int64(w.skew), at: len(readings) - 1, admittedAt: admitted}
			}
			if pass {
				c.Stat("req-pass")
				c.Out(l, fmt.Sprintf("pass calls=%d", calls))
			} else {
				if valid {
					c.Stat("req-refused-valid(replay)")
				} else {
					c.Stat("req-refused-invalid")
				}
				var af *vgirpc.AuthFailure
				if errors.As(err, &af) {
					c.Out(l, fmt.Sprintf("refuse %s %s calls=%d", XS(string(af.Reason)), XS(af.Detail), calls))
				} else {
					c.Out(l, fmt.Sprintf("refuse-other calls=%d", calls))
				}
			}
		case "cache":
			ttl, _ := strconv.ParseInt(f[1], 10, 64)
			capN, _ := strconv.Atoi(f[2])
			if capN < 1 {
				c.Out(l, "err:bad-op") // newNonceCache with capacity 0 is outside the constructor's contract
				continue
			}
			ucache, ucacheCap, ucacheTTL = vgirpc.VerifC25NewCache(time.Duration(ttl), capN), capN, ttl
			uAccepted, uReadings, uAdmitted = map[string]*c25Accepted{}, nil, 0
			c.Out(l, "ok")
		case "add":
			if ucache == nil {
				c.Out(l, "err:no-cache")
				continue
			}
			ns, _ := strconv.ParseInt(f[1], 10, 64)
			nonce := UnXS(f[2])
			fresh := ucache.CheckAndAdd(nonce, time.Unix(ns/c25NS, ns%c25NS))
			uReadings = append(uReadings, ns)
			if fresh {
				if a := uAccepted[nonce]; a != nil && c25StillInTime(uReadings, a, true) && uAdmitted-a.admittedAt < ucacheCap {
					c.Oracle("unit-replay-accepted", fmt.Sprintf("%q: nonce accepted again before its expiry %d with %d admission(s) in between (capacity %d)", l, a.limit, uAdmitted-a.admittedAt, ucacheCap))
				}
				uAdmitted++
				uAccepted[nonce] = &c25Accepted{limit: ns + ucacheTTL, at: len(uReadings) - 1, admittedAt: uAdmitted}
				c.Stat("add-fresh")
			} else {
				c.Stat("add-seen")
			}
			c.Out(l, fmt.Sprintf("%v %s", fresh, dump()))
		case "verify":
			if pcfg == nil {
				c.Out(l, "err:no-gate")
				continue
			}
			ns, _ := strconv.ParseInt(f[1], 10, 64)
			clock = time.Unix(ns/c25NS, ns%c25NS)
			clockLater, clockReads = clock, 0
			tok := UnXS(f[2])
			before := dump()
			err := ucache.Verify(tok, pcfg)
			after := dump()
			_, _, valid := c25SpecValid(w, clock, tok)
			if err == nil && !valid {
				c.Oracle("verify-ok-without-valid-proof", fmt.Sprintf("%q: VerifyProof accepted a token that does not verify for origin %q", l, w.origin))
			}
			if !valid && before != after {
				c.Oracle("cache-touched-by-unverified-proof", fmt.Sprintf("%q: a proof that does not verify changed the replay cache (%s -> %s)", l, before, after))
			}
			if err == nil {
				c.Stat("verify-ok")
				c.Out(l, "ok "+after)
			} else {
				var pe *vgirpc.ProofError
				if errors.As(err, &pe) {
					c.Stat("verify-" + pe.Reason)
				}
				c.Out(l, "refused "+after)
			}
		default:
			c.Out(l, "err:bad-op")
		}
	}
}
