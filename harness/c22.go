package main

import (
	"bytes"
	"context"
	"errors"
	"fmt"
	"io"
	"net/http"
	"net/http/httptest"
	"strconv"
	"strings"
	"time"

	"github.com/apache/arrow-go/v18/arrow"
	"github.com/apache/arrow-go/v18/arrow/array"
	"github.com/apache/arrow-go/v18/arrow/memory"

	"github.com/Query-farm/vgi-rpc-go/vgirpc"
)

// C22 — every RPC and control route is behind the authenticator.
//
// Script (one real HttpServer per case):
//
//	cfg pfx=</a/b|-> auth=0|1 proof=0|1 pkce=0|1 upload=0|1 introspect=0|1 sticky=0|1
//	    describe=0|1 landing=0|1 notfound=0|1 custom=<VERB:/pattern,...|-> failed=<failing setter calls|->
//	fail <failing setter call>      (made on the live server between requests)
//	cfg … rotate=1: SetAuthenticate(A) -> SetOAuthPkce -> SetAuthenticate(mock); req … cred=<none|header|cookie>
//	sends a credential only A accepts; inner=chain:m1/m2/… installs ChainAuthenticate over those members
//	req <VERB> <path> inner=<behaviour of the mock authenticator; ctx+<kind> = (non-nil context, that error)> proof=<absent|valid|bad>
//	    ct=<arrow|other> body=<kind> sess=<absent|garbage|fresh>
//
// Observation per request: gate=<denied|open|na> ev=<mock invocations>. `denied` = the response is
// one HttpServer.authenticate (or the PKCE page wrapper) writes; `na` when the authenticator answers
// (nil, nil) (the dropped request is indistinguishable from an empty 200 by its bytes). ev lists
// which of the mocks ran: unary handler, describe, stream init handler, stream state, upload-URL
// provider (count), token resolver, operator route, session state Close.

type c22World struct {
	handler, initN, state, provider, resolver, custom, stateClose, authCalls, oldAuthCalls int
	inner                                                               string
}

// the stream states travel through gob tokens, so they reach the counters through this pointer
var c22Cur *c22World

type c22P struct {
	X int64 `vgirpc:"x"`
}

type c22ProdState struct{ N int64 }

func (s *c22ProdState) Produce(_ context.Context, out *vgirpc.OutputCollector, _ *vgirpc.CallContext) error {
	if c22Cur != nil {
		c22Cur.state++
	}
	s.N++
	if s.N > 1 {
		return out.Finish()
	}
	b := array.NewInt64Builder(memory.NewGoAllocator())
	defer b.Release()
	b.Append(s.N)
	col := b.NewArray()
	defer col.Release()
	return out.EmitArrays([]arrow.Array{col}, 1)
}

type c22ExchState struct{ N int64 }

func (s *c22ExchState) Exchange(_ context.Context, input arrow.RecordBatch, out *vgirpc.OutputCollector, _ *vgirpc.CallContext) error {
	if c22Cur != nil {
		c22Cur.state++
	}
	s.N++
	b := array.NewInt64Builder(memory.NewGoAllocator())
	defer b.Release()
	b.Append(s.N)
	col := b.NewArray()
	defer col.Release()
	return out.EmitArrays([]arrow.Array{col}, 1)
}

type c22Sess struct{}

func (c22Sess) Close() {
	if c22Cur != nil {
		c22Cur.stateClose++
	}
}

type c22Provider struct{ w *c22World }

func (p c22Provider) GenerateUploadURL(*arrow.Schema) (vgirpc.UploadURL, error) {
	p.w.provider++
	return vgirpc.UploadURL{UploadURL: "https://up.example/u", DownloadURL: "https://up.example/d", ExpiresAt: time.Unix(2000000000, 0)}, nil
}

var (
	c22IOSchema   = arrow.NewSchema([]arrow.Field{{Name: "v", Type: arrow.PrimitiveTypes.Int64}}, nil)
	c22ParamsSch  = arrow.NewSchema([]arrow.Field{{Name: "x", Type: arrow.PrimitiveTypes.Int64}}, nil)
	c22ProofKey   = bytes.Repeat([]byte{0x42}, 32)
	c22ProofNonce int
)

const c22Arrow = "application/vnd.apache.arrow.stream"

// neither an Arrow IPC stream nor JSON. It starts with a zero message length on purpose: arrow-go
// allocates whatever length the first four bytes announce before reading (gigabytes for ASCII text),
// which is C03/C18 territory, not this property's.
var c22Garbage = []byte("\x00\x00\x00\x00\x00\x00\x00\x00{garbage")

func init() {
	vgirpc.RegisterStateType(&c22ProdState{})
	vgirpc.RegisterStateType(&c22ExchState{})
	Register(&Prop{
		ID: "C22",
		Rule: "one real HttpServer per case (random prefix, feature flags, operator routes; thorough: all flag combinations x prefixes x route targets x refusal kinds); " +
			"requests target every registered route, wrong verbs, and random paths from the route alphabet; a case is non-trivial when it has a request " +
			"under a refusing authenticator; distinct = distinct scripts",
		Gen:  c22Gen,
		Exec: c22Exec,
		NonTrivial: func(lines []string) bool {
			if len(lines) == 0 || !strings.Contains(lines[0], "auth=1") {
				return false
			}
			for _, l := range lines[1:] {
				if c22Refusing(lines[0], l) {
					return true
				}
			}
			return false
		},
	})
}

// ---------------------------------------------------------------- script parsing

func c22KV(fields []string) map[string]string {
	m := map[string]string{}
	for _, f := range fields {
		if i := strings.IndexByte(f, '='); i > 0 {
			m[f[:i]] = f[i+1:]
		}
	}
	return m
}

// c22Effective: what the authenticator stack answers for this behaviour. For a chain this is the
// documented ChainAuthenticate contract: first success wins; *AuthUnavailableError stops; a ValueError
// RpcError moves on; anything else stops the chain; all declined -> the chain's own ValueError. A
// context returned together with an error never survives a chain.
func c22Effective(inner string) string {
	if !strings.HasPrefix(inner, "chain:") {
		return inner
	}
	for _, m := range strings.Split(inner[6:], "/") {
		switch strings.TrimPrefix(m, "ctx+") {
		case "value":
			continue
		case "failure", "wrapped", "perm", "unavail", "rpcother", "other":
			return strings.TrimPrefix(m, "ctx+")
		}
		return m // accept:NAME, anon, nilnil
	}
	return "value"
}

func c22IsRejectInner(inner string) bool {
	inner = c22Effective(inner)
	switch strings.TrimPrefix(inner, "ctx+") {
	case "failure", "wrapped", "value", "perm", "unavail", "rpcother", "other":
		return true
	case "nilnil":
		return inner == "nilnil"
	}
	return false
}

// c22Refusing: does the configured authenticator stack refuse this request (by construction)?
func c22Refusing(cfgLine, reqLine string) bool {
	c := c22KV(strings.Fields(cfgLine))
	r := c22KV(strings.Fields(reqLine))
	if c["auth"] != "1" {
		return false
	}
	if c["proof"] == "1" && r["proof"] != "valid" {
		return true
	}
	return c22IsRejectInner(r["inner"])
}

type c22Server struct {
	h       *vgirpc.HttpServer
	w       *c22World
	cfg     map[string]string
	pfx     string
	customs []string // "VERB:/pattern"
	metaSet bool     // SetOAuthResourceMetadata succeeded at some point
	client  *vgirpc.HttpClient
	tr      *c22Transport
}

// c22Transport serves the package's own HttpClient in-process; in capture mode it records the
// request instead of sending it (that is how request bodies are built with the real client code).
type c22Transport struct {
	s        *c22Server
	capture  bool
	captured []byte
	extra    http.Header
	last     *httptest.ResponseRecorder
}

func (t *c22Transport) RoundTrip(r *http.Request) (*http.Response, error) {
	var body []byte
	if r.Body != nil {
		body, _ = io.ReadAll(r.Body)
		r.Body.Close()
	}
	if t.capture {
		t.captured = body
		return nil, errors.New("captured")
	}
	req := httptest.NewRequest(r.Method, r.URL.Path, bytes.NewReader(body))
	req.Header = r.Header.Clone()
	for k, v := range t.extra {
		req.Header[k] = v
	}
	rec := httptest.NewRecorder()
	t.s.h.ServeHTTP(rec, req)
	t.last = rec
	return rec.Result(), nil
}

// c22Mock is the authenticator installed with SetAuthenticate. For `chain:m1/m2/…` it is a real
// vgirpc.ChainAuthenticate over one mock member per listed behaviour.
func c22Mock(w *c22World) vgirpc.AuthenticateFunc {
	return func(r *http.Request) (*vgirpc.AuthContext, error) {
		if strings.HasPrefix(w.inner, "chain:") {
			var members []vgirpc.AuthenticateFunc
			for _, m := range strings.Split(w.inner[6:], "/") {
				members = append(members, c22Single(w, m))
			}
			return vgirpc.ChainAuthenticate(members...)(r)
		}
		return c22Single(w, w.inner)(r)
	}
}

func c22Single(w *c22World, behaviour string) vgirpc.AuthenticateFunc {
	return func(*http.Request) (*vgirpc.AuthContext, error) {
		w.authCalls++
		in := behaviour
		if strings.HasPrefix(in, "ctx+") {
			// a refusal that nevertheless hands back a usable context: (non-nil ctx, err). Only the
			// error counts; a gate that looks at the context first lets the request through.
			_, err := c22Single(w, in[4:])(nil)
			w.authCalls--
			return &vgirpc.AuthContext{Domain: "mock", Authenticated: true, Principal: "introspector"}, err
		}
		switch {
		case strings.HasPrefix(in, "accept:"):
			return &vgirpc.AuthContext{Domain: "mock", Authenticated: true, Principal: in[7:]}, nil
		case in == "anon":
			return &vgirpc.AuthContext{}, nil
		case in == "failure":
			return nil, vgirpc.NewAuthFailure(vgirpc.AuthReasonInvalidCredential, "no")
		case in == "wrapped":
			return nil, fmt.Errorf("while checking: %w", vgirpc.NewAuthFailure(vgirpc.AuthReasonExpiredCredential, "old"))
		case in == "value":
			return nil, &vgirpc.RpcError{Type: "ValueError", Message: "bad credential"}
		case in == "perm":
			return nil, &vgirpc.RpcError{Type: "PermissionError", Message: "not allowed"}
		case in == "unavail":
			return nil, vgirpc.NewAuthUnavailable("authority down")
		case in == "rpcother":
			return nil, &vgirpc.RpcError{Type: "RuntimeError", Message: "broken"}
		case in == "other":
			return nil, errors.New("boom")
		case in == "nilnil":
			return nil, nil
		}
		panic("c22: unknown inner behaviour " + in)
	}
}

func c22Build(cfgLine string) (s *c22Server, err error) {
	defer func() {
		if r := recover(); r != nil {
			err = fmt.Errorf("panic while configuring: %v", r)
		}
	}()
	cfg := c22KV(strings.Fields(cfgLine)[1:])
	for _, k := range []string{"pfx", "auth", "proof", "pkce", "upload", "introspect", "sticky", "describe", "landing", "notfound", "custom"} {
		if _, ok := cfg[k]; !ok {
			return nil, fmt.Errorf("cfg key %s missing", k)
		}
	}
	on := func(k string) bool { return cfg[k] == "1" }
	if (on("pkce") || on("proof")) && !on("auth") {
		return nil, fmt.Errorf("pkce/proof need an authenticator")
	}
	w := &c22World{inner: "anon"}
	srv := vgirpc.NewServer()
	vgirpc.Unary(srv, "u1", func(_ context.Context, ctx *vgirpc.CallContext, p c22P) (int64, error) {
		w.handler++
		_ = ctx.OpenSession(c22Sess{}, 0) // succeeds only with VGI-Session-Accept: true (harness setup)
		return p.X + 1, nil
	})
	// setup-only twin of u1 (never named by the generator): an operator route may shadow {prefix}/u1
	vgirpc.Unary(srv, "zsess", func(_ context.Context, ctx *vgirpc.CallContext, p c22P) (int64, error) {
		w.handler++
		_ = ctx.OpenSession(c22Sess{}, 0)
		return p.X, nil
	})
	vgirpc.Producer(srv, "pr1", c22IOSchema, func(_ context.Context, _ *vgirpc.CallContext, _ c22P) (*vgirpc.StreamResult, error) {
		w.initN++
		return &vgirpc.StreamResult{OutputSchema: c22IOSchema, State: &c22ProdState{}}, nil
	})
	vgirpc.Exchange(srv, "ex1", c22IOSchema, c22IOSchema, func(_ context.Context, _ *vgirpc.CallContext, _ c22P) (*vgirpc.StreamResult, error) {
		w.initN++
		return &vgirpc.StreamResult{OutputSchema: c22IOSchema, InputSchema: c22IOSchema, State: &c22ExchState{}}, nil
	})
	h := vgirpc.NewHttpServer(srv)
	pfx := cfg["pfx"]
	if pfx == "-" {
		pfx = ""
	}
	if pfx != "" {
		h.SetPrefix(pfx)
	}
	h.SetEnableDescribePage(on("describe"))
	h.SetEnableLandingPage(on("landing"))
	h.SetEnableNotFoundPage(on("notfound"))
	if on("upload") {
		h.SetUploadURLProvider(c22Provider{w})
	}
	if on("introspect") {
		if err := h.EnableTokenIntrospection(vgirpc.TokenIntrospectionConfig{
			Resolver: func(cred string) (vgirpc.TokenIdentity, bool, error) {
				w.resolver++
				switch cred {
				case "down-token":
					return vgirpc.TokenIdentity{}, false, vgirpc.NewAuthUnavailable("store down")
				case "good-token":
					return vgirpc.TokenIdentity{Principal: "bob", TokenName: "t"}, true, nil
				}
				return vgirpc.TokenIdentity{}, false, nil
			},
			Principals:         []string{"introspector"},
			RateLimitPerSecond: 1 << 30,
		}); err != nil {
			return nil, err
		}
	}
	rotate := cfg["rotate"] == "1"
	if rotate && !(on("pkce") && on("auth") && !on("proof")) {
		return nil, fmt.Errorf("rotate needs auth and pkce without the proof gate")
	}
	if rotate {
		// the authenticator in place while SetOAuthPkce runs; it is REPLACED afterwards (below)
		h.SetAuthenticate(func(r *http.Request) (*vgirpc.AuthContext, error) {
			w.oldAuthCalls++
			if r.Header.Get("Authorization") == "Bearer cred-A" {
				return &vgirpc.AuthContext{Domain: "old", Authenticated: true, Principal: "olduser"}, nil
			}
			return nil, &vgirpc.RpcError{Type: "ValueError", Message: "not a credential of the old authenticator"}
		})
	}
	if on("auth") && !rotate {
		var fn vgirpc.AuthenticateFunc = c22Mock(w)
		if on("proof") {
			gated, err := vgirpc.ProofAuthenticate(vgirpc.ProofConfig{
				Mode: vgirpc.ProofModeRequire, OriginID: "origin-1",
				Secrets:     map[string]vgirpc.ProofSecret{"k1": {Secret: c22ProofKey, Label: "proxy"}},
				SkewSeconds: 300,
			}, fn)
			if err != nil {
				return nil, err
			}
			fn = gated
			h.SetProxyProofRequired(true)
		}
		h.SetAuthenticate(fn)
	}
	if on("pkce") {
		if err := h.SetOAuthResourceMetadata(&vgirpc.OAuthResourceMetadata{
			Resource:             "https://api.example.com" + pfx,
			AuthorizationServers: []string{"http://127.0.0.1:1"},
			ClientID:             "client-1",
		}); err != nil {
			return nil, err
		}
		if err := h.SetOAuthPkce(vgirpc.OAuthPkceConfig{}); err != nil {
			return nil, err
		}
	}
	if rotate {
		// key rotation / config reload: a new authenticator replaces the old one after PKCE was wired
		h.SetAuthenticate(c22Mock(w))
	}
	if on("sticky") {
		h.EnableSticky(0)
	}
	s = &c22Server{h: h, w: w, cfg: cfg, pfx: pfx}
	if cfg["custom"] != "-" {
		for _, c := range strings.Split(cfg["custom"], ",") {
			i := strings.IndexByte(c, ':')
			if i < 0 {
				return nil, fmt.Errorf("bad custom route %q", c)
			}
			pat := c[i+1:]
			if c[:i] != "*" {
				pat = c[:i] + " " + pat
			}
			h.Handle(pat, func(rw http.ResponseWriter, _ *http.Request) {
				w.custom++
				rw.WriteHeader(http.StatusOK)
			})
			s.customs = append(s.customs, c)
		}
	}
	if pk := cfg["pkce"]; pk == "1" {
		s.metaSet = true
	}
	if f, ok := cfg["failed"]; ok && f != "-" {
		for _, name := range strings.Split(f, ",") {
			if err := s.failingCall(name); err != nil {
				return nil, err
			}
		}
	}
	h.InitPages()
	s.tr = &c22Transport{s: s}
	cl, err := vgirpc.NewHttpClient("http://c22.test", vgirpc.WithClientPrefix(pfx),
		vgirpc.WithClientHTTPClient(&http.Client{Transport: s.tr}))
	if err != nil {
		return nil, err
	}
	s.client = cl
	return s, nil
}

// failingCall makes a setter call that the setter's own validation rejects. The property must not
// care: a failed configuration attempt leaves the server (its authenticator in particular) as it was.
func (s *c22Server) failingCall(name string) error {
	var err error
	switch name {
	case "pkce-nometa":
		if s.cfg["pkce"] == "1" || s.metaSet {
			return nil // not a failing call on this server (metadata present): skip
		}
		err = s.h.SetOAuthPkce(vgirpc.OAuthPkceConfig{})
	case "pkce-noclient":
		if s.cfg["pkce"] == "1" {
			return nil
		}
		if merr := s.h.SetOAuthResourceMetadata(&vgirpc.OAuthResourceMetadata{
			Resource: "https://api.example.com" + s.pfx, AuthorizationServers: []string{"http://127.0.0.1:1"}}); merr != nil {
			return merr
		}
		s.metaSet = true
		err = s.h.SetOAuthPkce(vgirpc.OAuthPkceConfig{Scope: "openid"})
	case "oauthmeta-invalid":
		err = s.h.SetOAuthResourceMetadata(&vgirpc.OAuthResourceMetadata{Resource: ""})
	case "introspect-noresolver":
		err = s.h.EnableTokenIntrospection(vgirpc.TokenIntrospectionConfig{Principals: []string{"introspector"}})
	case "introspect-noprincipals":
		err = s.h.EnableTokenIntrospection(vgirpc.TokenIntrospectionConfig{
			Resolver: func(string) (vgirpc.TokenIdentity, bool, error) { return vgirpc.TokenIdentity{}, false, nil }})
	default:
		return fmt.Errorf("unknown failing call %q", name)
	}
	if err == nil {
		return fmt.Errorf("%s was expected to be rejected by the setter but succeeded", name)
	}
	return nil
}

func (s *c22Server) close() {
	if d := s.h.DrainHandle(); d != nil {
		d.Shutdown()
	}
	s.client.Close()
}

func c22ParamsBatch() arrow.RecordBatch {
	b := array.NewInt64Builder(memory.NewGoAllocator())
	defer b.Release()
	b.Append(41)
	col := b.NewArray()
	defer col.Release()
	return array.NewRecordBatch(c22ParamsSch, []arrow.Array{col}, 1)
}

func c22IOBatch() arrow.RecordBatch {
	b := array.NewInt64Builder(memory.NewGoAllocator())
	defer b.Release()
	b.Append(7)
	col := b.NewArray()
	defer col.Release()
	return array.NewRecordBatch(c22IOSchema, []arrow.Array{col}, 1)
}

func c22CountBatch(n int64) arrow.RecordBatch {
	b := array.NewInt64Builder(memory.NewGoAllocator())
	defer b.Release()
	b.Append(n)
	col := b.NewArray()
	defer col.Release()
	return array.NewRecordBatch(vgirpc.UploadURLParamsSchema, []arrow.Array{col}, 1)
}

func c22Empty() arrow.RecordBatch {
	return array.NewRecordBatch(arrow.NewSchema(nil, nil), nil, 0)
}

func c22MintProof() string {
	c22ProofNonce++
	tok, err := vgirpc.MintProof(c22ProofKey, "k1", "origin-1", time.Now().Unix(), fmt.Sprintf("nonce%017d", c22ProofNonce))
	if err != nil {
		panic(err)
	}
	return tok
}

// setupHeaders: what a harness-side setup call must carry to get through the configured stack.
func (s *c22Server) setupHeaders() http.Header {
	hd := http.Header{}
	if s.cfg["proof"] == "1" {
		hd.Set(vgirpc.ProofHeader, c22MintProof())
	}
	return hd
}

// captureBody runs f against the real client with the transport in capture mode and returns the
// bytes the client would have sent.
func (s *c22Server) captureBody(f func()) []byte {
	s.tr.capture, s.tr.captured = true, nil
	f()
	s.tr.capture = false
	return s.tr.captured
}

func (s *c22Server) unaryBody(method string, params arrow.RecordBatch) []byte {
	defer params.Release()
	return s.captureBody(func() { _, _ = s.client.CallUnary(context.Background(), method, params, nil) })
}

func (s *c22Server) initBody(method string) []byte {
	p := c22ParamsBatch()
	defer p.Release()
	return s.captureBody(func() {
		_, _ = s.client.OpenProducer(context.Background(), method, p, vgirpc.ClientStreamSchema{Output: c22IOSchema})
	})
}

// continuationBody opens a real ex1 stream as `identity` and returns the bytes of its first exchange
// POST (built by the real client, not sent).
func (s *c22Server) continuationBody(identity string) []byte {
	saved := s.w.inner
	s.w.inner = identity
	s.tr.extra = s.setupHeaders()
	defer func() { s.w.inner = saved; s.tr.extra = nil }()
	p := c22ParamsBatch()
	defer p.Release()
	st, err := s.client.OpenExchange(context.Background(), "ex1", p, vgirpc.ClientStreamSchema{Input: c22IOSchema, Output: c22IOSchema})
	if err != nil {
		return nil
	}
	defer st.Close()
	in := c22IOBatch()
	defer in.Release()
	return s.captureBody(func() { _, _ = st.Exchange(context.Background(), in) })
}

// freshSession opens a session anonymously through u1 and returns its token ("" when sticky is off).
func (s *c22Server) freshSession() string {
	saved := s.w.inner
	s.w.inner = "anon"
	defer func() { s.w.inner = saved }()
	body := s.unaryBody("zsess", c22ParamsBatch())
	req := httptest.NewRequest("POST", s.pfx+"/zsess", bytes.NewReader(body))
	req.Header = s.setupHeaders()
	req.Header.Set("Content-Type", c22Arrow)
	req.Header.Set("VGI-Session-Accept", "true")
	rec := httptest.NewRecorder()
	s.h.ServeHTTP(rec, req)
	return rec.Header().Get("VGI-Session")
}

// rel splits path into segments below the prefix; ok=false when the path is not under the prefix.
func (s *c22Server) rel(path string) ([]string, bool) {
	if !strings.HasPrefix(path, s.pfx) {
		return nil, false
	}
	rest := path[len(s.pfx):]
	if rest == "" {
		return nil, true
	}
	if rest[0] != '/' {
		return nil, false
	}
	return strings.Split(rest[1:], "/"), true
}

func (s *c22Server) customMatches(verb, path string) bool {
	segs := strings.Split(strings.TrimPrefix(path, "/"), "/")
	for _, c := range s.customs {
		i := strings.IndexByte(c, ':')
		v, pat := c[:i], c[i+1:]
		if v != "*" && v != verb && !(v == "GET" && verb == "HEAD") {
			continue
		}
		ps := strings.Split(strings.TrimPrefix(pat, "/"), "/")
		subtree := false
		if ps[len(ps)-1] == "" {
			subtree = true
			ps = ps[:len(ps)-1]
		}
		if len(segs) < len(ps) || (!subtree && len(segs) != len(ps)) {
			continue
		}
		ok := true
		for j, p := range ps {
			if !(strings.HasPrefix(p, "{") && strings.HasSuffix(p, "}")) && p != segs[j] {
				ok = false
			}
		}
		if ok {
			return true
		}
	}
	return false
}

// ---------------------------------------------------------------- Exec

func c22Exec(c *Case) {
	if len(c.Lines) == 0 {
		return
	}
	var s *c22Server
	defer func() {
		if s != nil {
			s.close()
		}
		c22Cur = nil
	}()
	for _, l := range c.Lines {
		f := strings.Fields(l)
		if len(f) == 0 {
			continue
		}
		switch f[0] {
		case "cfg":
			if s != nil {
				s.close()
			}
			ns, err := c22Build(l)
			if err != nil {
				s = nil
				c.Out(l, "err:cfg "+err.Error())
				continue
			}
			s = ns
			c22Cur = s.w
			c.Stat("cfg")
			c.Out(l, "ok")
		case "fail":
			if s == nil {
				c.Out(l, "err:no-cfg")
				continue
			}
			if len(f) != 2 {
				c.Out(l, "err:bad-op")
				continue
			}
			if err := s.failingCall(f[1]); err != nil {
				c.Out(l, "err:fail "+err.Error())
				continue
			}
			c.Stat("failing-setter-call")
			c.Out(l, "ok")
		case "req":
			if s == nil {
				c.Out(l, "err:no-cfg")
				continue
			}
			if len(f) < 3 {
				c.Out(l, "err:bad-op")
				continue
			}
			c22Request(c, s, l, f[1], f[2], c22KV(f[3:]))
		default:
			c.Out(l, "err:bad-op")
		}
	}
}

func c22Request(c *Case, s *c22Server, line, verb, path string, kv map[string]string) {
	rawInner, proof, ct, bodyKind, sess := kv["inner"], kv["proof"], kv["ct"], kv["body"], kv["sess"]
	inner := c22Effective(rawInner)
	cred := kv["cred"]
	if !strings.HasPrefix(path, "/") {
		c.Out(line, "err:bad-op")
		return
	}
	rel, under := s.rel(path)
	hasAuth := s.cfg["auth"] == "1"
	refusing := hasAuth && ((s.cfg["proof"] == "1" && proof != "valid") || c22IsRejectInner(inner))
	effNilNil := hasAuth && inner == "nilnil" && !(s.cfg["proof"] == "1" && proof != "valid")
	// identity the request would run as if it got through (tokens are bound to it)
	identity := "anon"
	if hasAuth && strings.HasPrefix(inner, "accept:") && !refusing {
		identity = inner
	}
	if hasAuth && strings.HasPrefix(rawInner, "ctx+") {
		identity = "accept:introspector" // the context such a refusal carries (tokens are minted for it)
	}

	// ---- body
	var body []byte
	switch {
	case bodyKind == "empty":
	case bodyKind == "garbage":
		body = c22Garbage
	case bodyKind == "mismatch":
		body = s.unaryBody("some_other_method", c22Empty())
	case strings.HasPrefix(bodyKind, "count:"):
		n, _ := strconv.ParseInt(bodyKind[6:], 10, 64)
		body = s.unaryBody(vgirpc.UploadURLMethod, c22CountBatch(n))
	case strings.HasPrefix(bodyKind, "tok-") && !(under && len(rel) == 1 && rel[0] == "__introspect_token__"):
		// JSON is only sent to the introspection path: posted to an Arrow route, ASCII text makes
		// arrow-go allocate the "message length" its first bytes spell (see c22Garbage)
		body = c22Garbage
	case bodyKind == "tok-unknown":
		body = []byte(`{"token":"who-knows"}`)
	case bodyKind == "tok-jws":
		body = []byte(`{"token":"aaaa.bbbb.cccc"}`)
	case bodyKind == "tok-down":
		body = []byte(`{"token":"down-token"}`)
	case bodyKind == "valid":
		switch {
		case under && len(rel) == 1 && rel[0] == strings.TrimPrefix(vgirpc.IntrospectEndpoint, "/"):
			body = []byte(`{"token":"good-token"}`)
		case under && len(rel) == 1 && rel[0] == "__describe__":
			body = s.unaryBody("__describe__", c22Empty())
		case under && len(rel) == 1:
			body = s.unaryBody(rel[0], c22ParamsBatch())
		case under && len(rel) == 2 && rel[0] == vgirpc.UploadURLMethod && rel[1] == "init":
			body = s.unaryBody(vgirpc.UploadURLMethod, c22CountBatch(1))
		case under && len(rel) == 2 && rel[1] == "init":
			body = s.initBody(rel[0])
		case under && len(rel) == 2 && rel[1] == "exchange" && rel[0] == "ex1":
			body = s.continuationBody(identity)
			if body == nil {
				body = c22Garbage
			}
		default:
			body = c22Garbage
		}
	default:
		c.Out(line, "err:bad-op")
		return
	}

	// ---- request
	var rd io.Reader
	if body != nil {
		rd = bytes.NewReader(body)
	}
	var req *http.Request
	func() {
		defer func() {
			if recover() != nil {
				req = nil
			}
		}()
		req = httptest.NewRequest(verb, path, rd)
	}()
	if req == nil {
		c.Out(line, "err:bad-op")
		return
	}
	switch ct {
	case "arrow":
		req.Header.Set("Content-Type", c22Arrow)
	case "other":
		req.Header.Set("Content-Type", "application/json")
	default:
		c.Out(line, "err:bad-op")
		return
	}
	switch proof {
	case "absent":
	case "valid":
		req.Header.Set(vgirpc.ProofHeader, c22MintProof())
	case "bad":
		req.Header.Set(vgirpc.ProofHeader, "v1.k1.0.nonce.AAAAAAAAAAAAAAAAAAAAAAAAAAAAAAAAAAAAAAAAAAA")
	default:
		c.Out(line, "err:bad-op")
		return
	}
	// VGI-Session is only sent on DELETE (the session-delete route is the property's subject; what a
	// session token does to an RPC call is C29's)
	if verb != "DELETE" && (sess == "garbage" || sess == "fresh") {
		sess = "absent"
	}
	switch sess {
	case "absent":
	case "garbage":
		req.Header.Set("VGI-Session", "AAAAnot-a-session-token")
	case "fresh":
		if tok := s.freshSession(); tok != "" {
			req.Header.Set("VGI-Session", tok)
		} else {
			req.Header.Set("VGI-Session", "AAAAnot-a-session-token")
		}
	default:
		c.Out(line, "err:bad-op")
		return
	}

	// ---- measured call
	switch cred {
	case "", "none":
	case "header": // a credential only the authenticator installed BEFORE the rotation accepts
		req.Header.Set("Authorization", "Bearer cred-A")
	case "cookie":
		req.AddCookie(&http.Cookie{Name: "_vgi_auth", Value: "cred-A"})
	default:
		c.Out(line, "err:bad-op")
		return
	}
	if hasAuth {
		s.w.inner = rawInner
	}
	w := s.w
	w.handler, w.initN, w.state, w.provider, w.resolver, w.custom, w.stateClose, w.authCalls, w.oldAuthCalls = 0, 0, 0, 0, 0, 0, 0, 0, 0
	rec := httptest.NewRecorder()
	s.h.ServeHTTP(rec, req)
	respBody := rec.Body.String()
	status := rec.Code

	describe := strings.HasSuffix(strings.TrimSuffix(path, "/"), "/__describe__") && status == 200 &&
		rec.Header().Get("Content-Type") == c22Arrow && rec.Header().Get("X-VGI-RPC-Error") == "" && len(respBody) > 0

	denied := (status == 401 && rec.Header().Get(vgirpc.HeaderAuthReason) != "") ||
		(status == 401 && respBody == "Authentication required\n") ||
		(status == 503 && strings.HasPrefix(respBody, "authentication service unavailable")) ||
		(status == 500 && respBody == "Internal server error\n")
	gate := "open"
	if denied {
		gate = "denied"
	}
	if effNilNil {
		gate = "na"
	}
	var ev []string
	if w.handler > 0 {
		ev = append(ev, "handler")
	}
	if describe {
		ev = append(ev, "describe")
	}
	if w.initN > 0 {
		ev = append(ev, "init")
	}
	if w.state > 0 {
		ev = append(ev, "state")
	}
	if w.provider > 0 {
		ev = append(ev, fmt.Sprintf("provider=%d", w.provider))
	}
	if w.resolver > 0 {
		ev = append(ev, "resolver")
	}
	if w.custom > 0 {
		ev = append(ev, "custom")
	}
	if w.stateClose > 0 {
		ev = append(ev, "stateclose")
	}
	evs := "-"
	if len(ev) > 0 {
		evs = strings.Join(ev, ",")
	}
	c.Out(line, fmt.Sprintf("gate=%s ev=%s", gate, evs))

	// ---- statistics
	if refusing {
		c.Stat("refusing:" + gate)
		if s.cfg["proof"] == "1" && proof != "valid" {
			c.Stat("refused-by:proof-gate")
		} else {
			c.Stat("refused-by:" + inner)
			if strings.HasPrefix(inner, "ctx+") {
				c.Stat("refused-with-context")
			}
		}
	} else {
		c.Stat("admitting:" + evs)
	}
	c.Stat(fmt.Sprintf("status:%d", status))

	// ---- the property, stated on the real observations
	if !refusing {
		return
	}
	where := fmt.Sprintf("%s %s (status %d, cfg %v, inner=%s proof=%s)", verb, path, status, s.cfg, inner, proof)
	if w.handler > 0 {
		c.Oracle("unary-handler-ran-unauthenticated", "a unary method handler ran although the authenticator refused: "+where)
	}
	if describe {
		c.Oracle("describe-ran-unauthenticated", "__describe__ answered although the authenticator refused: "+where)
	}
	if w.initN > 0 {
		c.Oracle("stream-init-ran-unauthenticated", "a stream init handler ran although the authenticator refused: "+where)
	}
	if w.state > 0 {
		c.Oracle("stream-state-ran-unauthenticated", "a stream state ran although the authenticator refused: "+where)
	}
	if w.provider > 0 {
		c.Oracle("upload-url-init-unauthenticated", fmt.Sprintf("the upload-URL provider minted %d URL(s) although the authenticator refused: %s", w.provider, where))
	}
	if w.resolver > 0 {
		c.Oracle("introspect-resolver-ran-unauthenticated", "the token resolver ran although the authenticator refused: "+where)
	}
	if w.oldAuthCalls > 0 {
		c.Oracle("replaced-authenticator-still-consulted", "the authenticator that SetAuthenticate replaced after SetOAuthPkce was consulted: "+where)
	}
	isSessionDelete := verb == "DELETE" && under && len(rel) == 1 && rel[0] == "__session__"
	if w.stateClose > 0 && !isSessionDelete {
		c.Oracle("session-state-touched-unauthenticated", "a session state was closed outside the session-delete route although the authenticator refused: "+where)
	}
	// RPC / control routes (by path shape) must be answered by the gate, not by the handler
	if verb == "POST" && under && !effNilNil && !s.customMatches(verb, path) {
		protected := ""
		switch {
		case len(rel) == 1 && rel[0] == "__introspect_token__":
			if s.cfg["introspect"] == "1" {
				protected = "introspect"
			}
		case len(rel) == 1 && rel[0] != "":
			protected = "unary"
		case len(rel) == 2 && rel[0] != "" && rel[1] == "init":
			protected = "stream-init"
		case len(rel) == 2 && rel[0] != "" && rel[1] == "exchange":
			protected = "continuation"
		}
		if protected != "" && !denied {
			c.Oracle("protected-route-answered-before-auth",
				fmt.Sprintf("%s route answered %d without consulting/obeying the refusing authenticator: %s", protected, status, where))
		}
	}
}

// ---------------------------------------------------------------- generation

var c22FailingCalls = []string{"pkce-nometa", "pkce-noclient", "oauthmeta-invalid", "introspect-noresolver", "introspect-noprincipals"}

var (
	c22Prefixes = []string{"-", "-", "/vgi", "/vgi", "/a/b", "/api/v1/x", "/describe", "/init", "/exchange/x", "/.well-known", "/u1"}
	c22Customs  = []string{"POST:/custom", "GET:/custom/{id}", "*:/zz/deep/", "DELETE:/admin", "POST:{P}/__test_drain__",
		"PUT:/upload/{name}/part/{n}", "GET:{P}/extra", "POST:{P}/u1", "POST:{P}/ex1/exchange", "GET:/zz/{$}"}
	c22RejectInners = []string{"failure", "wrapped", "value", "perm", "unavail", "rpcother", "other", "nilnil",
		"ctx+failure", "ctx+wrapped", "ctx+value", "ctx+perm", "ctx+unavail", "ctx+rpcother", "ctx+other"}
	c22AllInners = []string{"failure", "wrapped", "value", "perm", "unavail", "rpcother", "other", "nilnil",
		"ctx+failure", "ctx+wrapped", "ctx+value", "ctx+perm", "ctx+unavail", "ctx+rpcother", "ctx+other", "anon",
		"accept:alice", "accept:introspector"}
	c22Bodies = []string{"empty", "garbage", "valid", "valid", "valid", "mismatch", "count:3", "count:0", "count:100", "count:101",
		"count:-5", "tok-unknown", "tok-jws", "tok-down"}
	c22Verbs = []string{"POST", "POST", "POST", "GET", "GET", "HEAD", "DELETE", "PUT", "PATCH", "OPTIONS"}
	c22Segs  = []string{"u1", "pr1", "ex1", "nosuch", "__describe__", "__upload_url__", "__introspect_token__", "__session__",
		"init", "exchange", "health", "describe", "_oauth", "callback", "logout", "token", ".well-known",
		"oauth-protected-resource", "custom", "zz", "deep", "admin", "extra", "__test_drain__", "upload", "part", "7", "x"}
)

func b01(b bool) string {
	if b {
		return "1"
	}
	return "0"
}

type c22Cfg struct {
	pfx                                                                      string
	auth, proof, pkce, upload, introspect, sticky, describe, landing, notfnd bool
	customs                                                                  []string
	failed                                                                   []string // failing setter calls made after the configuration
	rotate                                                                   bool     // SetAuthenticate(A) -> SetOAuthPkce -> SetAuthenticate(B)
}

func (k c22Cfg) line() string {
	cu := "-"
	if len(k.customs) > 0 {
		cu = strings.Join(k.customs, ",")
	}
	fl := "-"
	if len(k.failed) > 0 {
		fl = strings.Join(k.failed, ",")
	}
	return fmt.Sprintf("cfg pfx=%s auth=%s proof=%s pkce=%s upload=%s introspect=%s sticky=%s describe=%s landing=%s notfound=%s custom=%s failed=%s rotate=%s",
		k.pfx, b01(k.auth), b01(k.proof), b01(k.pkce), b01(k.upload), b01(k.introspect), b01(k.sticky), b01(k.describe),
		b01(k.landing), b01(k.notfnd), cu, fl, b01(k.rotate))
}

func (k c22Cfg) p() string {
	if k.pfx == "-" {
		return ""
	}
	return k.pfx
}

func c22Req(verb, path, inner, proof, ct, body, sess string) string {
	return fmt.Sprintf("req %s %s inner=%s proof=%s ct=%s body=%s sess=%s", verb, path, inner, proof, ct, body, sess)
}

var c22Members = []string{"value", "value", "value", "ctx+value", "perm", "failure", "wrapped", "unavail", "rpcother", "other",
	"ctx+other", "ctx+perm", "accept:alice", "accept:introspector", "anon"}

// c22Chain: a ChainAuthenticate of 2..4 members, each with any outcome kind. With refuse=true the chain
// as a whole must refuse (by the documented contract); the interesting ones have an accepting member
// BEHIND a member's hard failure.
func c22Chain(r *Rng, refuse bool) string {
	for {
		n := r.Range(2, 4)
		ms := make([]string, n)
		for i := range ms {
			ms[i] = Pick(r, c22Members)
		}
		if refuse && r.Chance(60) {
			// decline(s), then a hard failure, then an accepting member
			k := r.Intn(n - 1)
			for i := 0; i < k; i++ {
				ms[i] = Pick(r, []string{"value", "ctx+value"})
			}
			ms[k] = Pick(r, []string{"other", "rpcother", "failure", "wrapped", "perm", "unavail", "ctx+other", "ctx+failure"})
			ms[n-1] = Pick(r, []string{"accept:alice", "accept:introspector", "anon"})
		}
		spec := "chain:" + strings.Join(ms, "/")
		if !refuse || c22IsRejectInner(spec) {
			return spec
		}
	}
}

// targets: every registered route of the configuration (right verb), by path
func (k c22Cfg) targets() [][2]string {
	p := k.p()
	root := p
	if root == "" {
		root = "/"
	}
	t := [][2]string{
		{"POST", p + "/u1"}, {"POST", p + "/pr1"}, {"POST", p + "/nosuch"}, {"POST", p + "/__describe__"},
		{"POST", p + "/pr1/init"}, {"POST", p + "/ex1/init"}, {"POST", p + "/u1/init"}, {"POST", p + "/nosuch/init"},
		{"POST", p + "/ex1/exchange"}, {"POST", p + "/pr1/exchange"}, {"POST", p + "/nosuch/exchange"},
		{"POST", p + "/__upload_url__/init"}, {"POST", p + "/__upload_url__/exchange"}, {"POST", p + "/__upload_url__"},
		{"POST", p + "/__introspect_token__"}, {"POST", p + "/__introspect_token__/init"},
		{"GET", "/health"}, {"GET", p + "/health"}, {"GET", "/.well-known/oauth-protected-resource" + p},
		{"GET", p + "/_oauth/callback"}, {"GET", p + "/_oauth/logout"}, {"POST", p + "/_oauth/token"}, {"OPTIONS", p + "/_oauth/token"},
		{"GET", p + "/describe"}, {"GET", root}, {"GET", "/"}, {"GET", "/no/such/page"},
		{"DELETE", p + "/__session__"}, {"POST", p + "/__session__"}, {"OPTIONS", p + "/u1"},
	}
	for _, c := range k.customs {
		i := strings.IndexByte(c, ':')
		v, pat := c[:i], c[i+1:]
		if v == "*" {
			v = "PATCH"
		}
		pat = strings.NewReplacer("{id}", "7", "{name}", "f", "{n}", "2", "{$}", "").Replace(pat)
		if strings.HasSuffix(pat, "/") && !strings.HasSuffix(c, "{$}") {
			pat += "x/y"
		}
		t = append(t, [2]string{v, pat})
	}
	return t
}

func c22RandCfg(r *Rng) c22Cfg {
	k := c22Cfg{pfx: Pick(r, c22Prefixes)}
	k.auth = r.Chance(88)
	k.proof = k.auth && r.Chance(30)
	k.pkce = k.auth && r.Chance(35)
	k.upload = r.Chance(60)
	k.introspect = r.Chance(60)
	k.sticky = r.Chance(60)
	k.describe = r.Chance(75)
	k.landing = r.Chance(75)
	k.notfnd = r.Chance(70)
	k.rotate = k.pkce && !k.proof && r.Chance(45)
	if r.Chance(30) {
		k.failed = append(k.failed, Pick(r, c22FailingCalls))
		if r.Chance(30) {
			k.failed = append(k.failed, Pick(r, c22FailingCalls))
		}
	}
	n := r.Intn(4)
	seen := map[string]bool{}
	for i := 0; i < n; i++ {
		c := strings.ReplaceAll(Pick(r, c22Customs), "{P}", k.p())
		if !seen[c] {
			seen[c] = true
			k.customs = append(k.customs, c)
		}
	}
	return k
}

func c22RandReq(r *Rng, k c22Cfg) string {
	var verb, path string
	switch x := r.Intn(100); {
	case x < 62: // a registered route, mostly with its own verb
		t := Pick(r, k.targets())
		verb, path = t[0], t[1]
		if r.Chance(12) {
			verb = Pick(r, c22Verbs)
		}
		if r.Chance(4) && !strings.HasSuffix(path, "/") {
			path += "/"
		}
	default: // probing: a path from the route alphabet
		verb = Pick(r, c22Verbs)
		n := r.Intn(5)
		path = ""
		if r.Chance(70) {
			path = k.p()
		}
		for i := 0; i < n; i++ {
			path += "/" + Pick(r, c22Segs)
		}
		if path == "" || (r.Chance(8) && !strings.HasSuffix(path, "/")) {
			path += "/"
		}
	}
	inner := Pick(r, c22RejectInners)
	if r.Chance(28) {
		inner = Pick(r, c22AllInners)
	}
	if r.Chance(22) {
		inner = c22Chain(r, r.Chance(75))
	}
	if k.rotate && r.Chance(50) {
		inner = Pick(r, []string{"value", "value", "ctx+value", "chain:value/value", "perm"})
	}
	if k.proof && c22Effective(inner) == "nilnil" {
		// ProofAuthenticate dereferences the inner authenticator's context: (nil, nil) behind the
		// gate panics inside the authenticator (no work is done, but it is not this property's subject)
		inner = "value"
	}
	proof := "absent"
	if k.proof {
		proof = Pick(r, []string{"valid", "valid", "valid", "absent", "bad"})
	} else if r.Chance(5) {
		proof = Pick(r, []string{"valid", "bad"})
	}
	ct := "arrow"
	if r.Chance(15) {
		ct = "other"
	}
	body := Pick(r, c22Bodies)
	if strings.HasSuffix(path, "__upload_url__/init") && r.Chance(60) {
		body = Pick(r, []string{"valid", "count:3", "count:0", "count:100", "count:101", "count:-5", "count:1"})
	}
	if strings.HasSuffix(path, "__introspect_token__") && r.Chance(60) {
		body = Pick(r, []string{"valid", "tok-unknown", "tok-jws", "tok-down"})
	}
	sess := "absent"
	if strings.HasSuffix(path, "__session__") {
		sess = Pick(r, []string{"fresh", "fresh", "fresh", "garbage", "absent"})
	} else if r.Chance(6) {
		sess = Pick(r, []string{"fresh", "garbage"})
	}
	line := c22Req(verb, path, inner, proof, ct, body, sess)
	if k.rotate || r.Chance(5) {
		// credentials that only the authenticator in place BEFORE a rotation accepts (header and cookie form)
		line += " cred=" + Pick(r, []string{"cookie", "cookie", "header", "none"})
	}
	return line
}

// c22WithInner rewrites the inner= (and, for an admitted request behind the proof gate, proof=) field
func c22WithInner(line, inner string, validProof bool) string {
	f := strings.Fields(line)
	for i, w := range f {
		if strings.HasPrefix(w, "inner=") {
			f[i] = "inner=" + inner
		}
		if validProof && strings.HasPrefix(w, "proof=") {
			f[i] = "proof=valid"
		}
	}
	return strings.Join(f, " ")
}

func c22RejectFor(k c22Cfg) []string {
	if !k.proof {
		return c22RejectInners
	}
	var out []string
	for _, in := range c22RejectInners {
		if in != "nilnil" {
			out = append(out, in)
		}
	}
	return out
}

func c22Gen(g *Gen) {
	r := g.Rng
	// (a) random configurations, mixed targeted + probing requests
	n := g.N(700, 6000)
	for i := 0; i < n; i++ {
		k := c22RandCfg(r)
		lines := []string{k.line()}
		m := r.Range(10, 28)
		for j := 0; j < m; j++ {
			if j > 0 && r.Chance(5) {
				lines = append(lines, "fail "+Pick(r, c22FailingCalls))
			}
			l := c22RandReq(r, k)
			if k.auth && r.Chance(18) {
				// request history on one route: admitted first, then the same request refused
				lines = append(lines, c22WithInner(l, Pick(r, []string{"anon", "accept:alice", "accept:introspector"}), k.proof))
				l = c22WithInner(l, Pick(r, c22RejectFor(k)), false)
			}
			lines = append(lines, l)
		}
		g.Case(lines...)
	}
	// (b) sweep: every route target x every refusal kind (and one admitting control) on a few
	// configurations (quick), on every feature combination x prefix (thorough)
	sweep := func(k c22Cfg) {
		lines := []string{k.line()}
		for _, t := range k.targets() {
			inners := c22RejectInners
			if !g.Thorough() {
				inners = []string{Pick(r, c22RejectInners), Pick(r, c22RejectInners)}
			}
			sess := "absent"
			if strings.HasSuffix(t[1], "__session__") {
				sess = "fresh"
			}
			// request history per route: admitted, refused in every way, admitted again — a route that
			// remembers an admitted answer must not replay it to a refused caller
			pv0 := "absent"
			if k.proof {
				pv0 = "valid"
			}
			lines = append(lines, c22Req(t[0], t[1], Pick(r, []string{"anon", "accept:alice", "accept:introspector"}), pv0, "arrow", "valid", sess))
			inners = append(append([]string{}, inners...), c22Chain(r, true))
			if g.Thorough() {
				inners = append(inners, c22Chain(r, true), c22Chain(r, true))
			}
			for _, in := range inners {
				if k.proof && c22Effective(in) == "nilnil" {
					continue
				}
				if k.rotate {
					lines = append(lines, c22Req(t[0], t[1], Pick(r, []string{"value", "ctx+value", "chain:value/value"}), "absent", "arrow", "valid", sess)+
						" cred="+Pick(r, []string{"cookie", "header"}))
				}
				proof := "absent"
				if k.proof && r.Chance(70) {
					proof = "valid"
				}
				lines = append(lines, c22Req(t[0], t[1], in, proof, "arrow", "valid", sess))
			}
			pv := "absent"
			if k.proof {
				pv = "valid"
			}
			lines = append(lines, c22Req(t[0], t[1], Pick(r, []string{"anon", "accept:alice", "accept:introspector"}), pv, "arrow", "valid", sess))
			if k.proof {
				lines = append(lines, c22Req(t[0], t[1], "accept:alice", Pick(r, []string{"absent", "bad"}), "arrow", "valid", sess))
			}
		}
		g.Case(lines...)
	}
	if !g.Thorough() {
		for i := 0; i < 12; i++ {
			k := c22RandCfg(r)
			k.auth = true
			if i%3 == 1 {
				k.pkce, k.proof, k.rotate = true, false, true
			}
			if i%3 == 0 {
				k.rotate = false
				k.pkce = false // so that the failing SetOAuthPkce calls are failing calls on this server
				k.failed = []string{c22FailingCalls[(i/3)%len(c22FailingCalls)], "pkce-nometa"}
			}
			sweep(k)
		}
		return
	}
	for _, pfx := range []string{"-", "/vgi", "/a/b"} {
		for mask := 0; mask < 64; mask++ {
			k := c22Cfg{pfx: pfx, auth: true, proof: mask&1 != 0, pkce: mask&2 != 0, upload: mask&4 != 0,
				introspect: mask&8 != 0, sticky: mask&16 != 0, notfnd: mask&32 != 0, describe: true, landing: true}
			if mask%3 == 0 {
				k.customs = []string{"POST:/custom", strings.ReplaceAll("POST:{P}/__test_drain__", "{P}", k.p())}
			}
			if mask%5 == 0 {
				k.describe, k.landing = false, false
			}
			k.rotate = k.pkce && !k.proof && mask%8 >= 4
			if mask%4 == 1 {
				k.failed = []string{c22FailingCalls[(mask/4)%len(c22FailingCalls)], "pkce-nometa", "pkce-noclient"}
			}
			sweep(k)
		}
	}
}
