package main

import (
	"fmt"
	"strings"

	"github.com/apache/arrow-go/v18/arrow"
)

// ---------------------------------------------------------------- generator for C09

var c09FieldNames = []string{"a", "b", "value", "id", "x", "name", "ts", "Value", "ünï", "with space", "", "a.b", "0", "日本", "vgi_rpc.x", "result"}

func c09GenType(r *Rng, depth int) arrow.DataType {
	n := 22
	if depth <= 0 {
		n = 16
	}
	switch r.Intn(n) {
	case 0:
		return arrow.PrimitiveTypes.Int64
	case 1:
		return arrow.PrimitiveTypes.Int32
	case 2:
		return arrow.PrimitiveTypes.Uint8
	case 3:
		return arrow.PrimitiveTypes.Float64
	case 4:
		return arrow.PrimitiveTypes.Float32
	case 5:
		return arrow.BinaryTypes.String
	case 6:
		return arrow.BinaryTypes.Binary
	case 7:
		return arrow.FixedWidthTypes.Boolean
	case 8:
		return arrow.BinaryTypes.LargeString
	case 9:
		return arrow.FixedWidthTypes.Date32
	case 10:
		return &arrow.TimestampType{Unit: Pick(r, []arrow.TimeUnit{arrow.Second, arrow.Millisecond, arrow.Microsecond, arrow.Nanosecond}),
			TimeZone: Pick(r, []string{"", "UTC", "Europe/Berlin"})}
	case 11:
		return &arrow.Decimal128Type{Precision: int32(r.Range(1, 38)), Scale: int32(r.Range(0, 10))}
	case 12:
		return &arrow.FixedSizeBinaryType{ByteWidth: r.Range(1, 32)}
	case 13:
		return arrow.FixedWidthTypes.Duration_us
	case 14:
		return arrow.PrimitiveTypes.Uint64
	case 15:
		return arrow.Null
	case 16:
		return arrow.ListOf(c09GenType(r, depth-1))
	case 17:
		k := r.Range(1, 3)
		fs := make([]arrow.Field, k)
		for i := range fs {
			fs[i] = arrow.Field{Name: fmt.Sprintf("f%d", i), Type: c09GenType(r, depth-1), Nullable: r.Bool()}
		}
		return arrow.StructOf(fs...)
	case 18:
		return arrow.MapOf(arrow.BinaryTypes.String, c09GenType(r, depth-1))
	case 19:
		return &arrow.DictionaryType{IndexType: Pick(r, []arrow.DataType{arrow.PrimitiveTypes.Int8, arrow.PrimitiveTypes.Int32}), ValueType: arrow.BinaryTypes.String, Ordered: r.Chance(20)}
	case 20:
		return arrow.FixedSizeListOf(int32(r.Range(1, 4)), c09GenType(r, depth-1))
	default:
		return arrow.LargeListOf(c09GenType(r, depth-1))
	}
}

func c09GenSchema(r *Rng) *arrow.Schema {
	k := Pick(r, []int{0, 1, 1, 2, 2, 3, 5})
	fs := make([]arrow.Field, 0, k)
	used := map[string]bool{}
	for i := 0; i < k; i++ {
		n := Pick(r, c09FieldNames)
		if used[n] && r.Chance(80) {
			n = fmt.Sprintf("%s_%d", n, i)
		}
		used[n] = true
		f := arrow.Field{Name: n, Type: c09GenType(r, 2), Nullable: r.Bool()}
		if r.Chance(15) {
			f.Metadata = arrow.NewMetadata([]string{"k", "doc"}, []string{Pick(r, []string{"", "v", "ü"}), "field doc"})
		}
		fs = append(fs, f)
	}
	var md *arrow.Metadata
	if r.Chance(15) {
		m := arrow.NewMetadata([]string{"schema.k"}, []string{Pick(r, []string{"", "v", "\x1e\x1f"})})
		md = &m
	}
	return arrow.NewSchema(fs, md)
}

var c09Names = []string{"a", "b", "ab", "abc", "A", "B", "Z", "z", "_a", "a_", "0", "9", "get", "get_all", "getAll", "Get", "ünï", "é", "e",
	"日本", "zz", "a\x1fb", "a\x1eb", "a|b", " ", "a b", "__describe__", "__transport_options__", "x.y", "x/y", "\U0001F600", "~", "", "aa", "aaa", "á"}

func c09GenName(r *Rng) string {
	if r.Chance(75) {
		return Pick(r, c09Names)
	}
	n := r.Range(1, 6)
	var sb strings.Builder
	for i := 0; i < n; i++ {
		sb.WriteRune(Pick(r, []rune{'a', 'b', 'A', 'B', '_', '0', 'z', 'é', '\x1f', '|'}))
	}
	return sb.String()
}

var c09Apis = []string{"unary", "unaryvoid", "producer", "producerh", "exchange", "exchangeh", "dynamich"}

func c09GenReg(r *Rng, name string) string {
	api := Pick(r, c09Apis)
	out, in, hdr := "-", "-", "-"
	switch api {
	case "producer", "producerh":
		out = X(c09Ser(c09GenSchema(r)))
	case "exchange", "exchangeh":
		out = X(c09Ser(c09GenSchema(r)))
		in = X(c09Ser(c09GenSchema(r)))
	}
	if strings.HasSuffix(api, "h") && r.Chance(85) {
		hdr = X(c09Ser(c09GenSchema(r)))
	}
	return fmt.Sprintf("reg %s %s %s %s %s %s %s", api, XS(name), Pick(r, c09PIDs), Pick(r, c09RIDs), out, in, hdr)
}

func c09GenNew(r *Rng) string {
	svc := Pick(r, []string{"", "", "MyService", "svc", "Ünï Service", "a|b", "x\x1fy", "GoRpcServer", "vgi_rpc.describe.v4"})
	sid := Pick(r, []string{"", "srv-1", "0123456789abcdef", "ü", " "})
	if r.Chance(40) {
		return fmt.Sprintf("new %s %s pv %s", XS(svc), XS(sid), XS(Pick(r, []string{"0.0.0", "1.2.3", "10.20.30", "2.0.0"})))
	}
	return fmt.Sprintf("new %s %s nopv", XS(svc), XS(sid))
}

// c09GenHTTPOpt: every HttpServer-level option that could touch describe.
func c09GenHTTPOpt(r *Rng) string {
	w := []string{"httpopt"}
	if r.Chance(70) {
		w = append(w, "name="+XS(Pick(r, []string{"", "Display Name", "MyService", "GoRpcServer", "other|name", "ünï", "x"})))
	}
	if r.Chance(40) {
		w = append(w, "prefix="+XS(Pick(r, []string{"", "/vgi", "/a/b", "/api-v1"})))
	}
	if r.Chance(50) {
		w = append(w, fmt.Sprintf("comp=%d", Pick(r, []int{0, 1, 3, 9})))
	}
	if r.Chance(60) {
		w = append(w, "ae="+Pick(r, []string{"none", "zstd", "gzip", "xzstd"}))
	}
	if r.Chance(30) {
		w = append(w, "cors="+XS(Pick(r, []string{"*", "https://app.example", ""})), fmt.Sprintf("corsage=%d", Pick(r, []int{0, 60})))
	}
	if r.Chance(30) {
		w = append(w, fmt.Sprintf("pages=%d", r.Intn(8)), "repo="+XS("https://example.com/repo"))
	}
	if r.Chance(30) {
		w = append(w, "sticky=1")
	}
	if r.Chance(20) {
		w = append(w, "maxreq=1048576", "maxresp=1048576")
	}
	if r.Chance(20) {
		w = append(w, fmt.Sprintf("batchlimit=%d", r.Range(1, 3)), fmt.Sprintf("cache=%d", r.Range(1, 64)))
	}
	if r.Chance(25) {
		w = append(w, "auth=1")
	}
	if r.Chance(25) {
		w = append(w, "initpages=1")
	}
	return strings.Join(w, " ")
}

func c09Gen(g *Gen) {
	r := g.Rng
	n := g.N(400, 6000)
	for i := 0; i < n; i++ {
		lines := []string{c09GenNew(r)}
		k := Pick(r, []int{0, 1, 2, 3, 4, 5, 6, 8, 10})
		var names []string
		for j := 0; j < k; j++ {
			var name string
			if len(names) > 0 && r.Chance(15) {
				name = Pick(r, names) // repeated name: the later registration wins
			} else {
				name = c09GenName(r)
			}
			names = append(names, name)
			lines = append(lines, c09GenReg(r, name))
			if r.Chance(8) {
				lines = append(lines, "describe "+Pick(r, []string{"pipe", "http"}))
			}
		}
		if r.Chance(65) {
			// configure the HTTP side, then both transports must answer alike
			lines = append(lines, c09GenHTTPOpt(r))
			if r.Chance(30) {
				lines = append(lines, "setsid "+XS(Pick(r, []string{"", "late-id", "ü2"})))
			}
			if r.Chance(20) {
				lines = append(lines, "setsvc "+XS(Pick(r, []string{"", "LateName", "Display Name"})))
			}
			lines = append(lines, "describe http", "describe pipe")
		}
		lines = append(lines, "describe "+Pick(r, []string{"pipe", "http"}))
		tail := r.Range(1, 4)
		for j := 0; j < tail; j++ {
			switch x := r.Intn(100); {
			case x < 30:
				lines = append(lines, "describe pipe")
			case x < 55:
				lines = append(lines, "describe http")
			case x < 70:
				lines = append(lines, "hash")
			default:
				lines = append(lines, fmt.Sprintf("perm %d", r.Intn(1000)))
			}
		}
		g.Case(lines...)
	}
	// (b) adversarial names: every pair from a set that stresses byte order and the 0x1e/0x1f framing
	adv := []string{"a", "A", "a\x1e", "a\x1f", "a\x1fb", "ab", "b", "é", "e", "z", "", "\x7f", "~"}
	m := g.N(60, 600)
	for i := 0; i < m; i++ {
		lines := []string{c09GenNew(r)}
		perm := append([]string{}, adv...)
		for a := len(perm) - 1; a > 0; a-- {
			b := r.Intn(a + 1)
			perm[a], perm[b] = perm[b], perm[a]
		}
		for _, nm := range perm[:r.Range(2, len(perm))] {
			lines = append(lines, c09GenReg(r, nm))
		}
		lines = append(lines, c09GenHTTPOpt(r), "describe pipe", "describe http", fmt.Sprintf("perm %d", r.Intn(1000)), "hash", "describe http", fmt.Sprintf("perm %d", r.Intn(1000)))
		g.Case(lines...)
	}
	if g.Thorough() {
		// (c) exhaustive: all orders of 4 fixed registrations give one describe
		base := []string{
			"reg unary " + XS("b") + " P1 Ri64 - - -",
			"reg producerh " + XS("a") + " P2 Rstr " + X(c09Ser(c09GenSchema(r))) + " - " + X(c09Ser(c09GenSchema(r))),
			"reg exchange " + XS("B") + " P0 Rstr " + X(c09Ser(c09GenSchema(r))) + " " + X(c09Ser(c09GenSchema(r))) + " -",
			"reg dynamich " + XS("ab") + " P3 Rstr - - -",
		}
		var rec func(cur []string, rest []string)
		rec = func(cur []string, rest []string) {
			if len(rest) == 0 {
				g.Case(append(append([]string{"new x x nopv"}, cur...), "describe pipe", "hash", "describe http")...)
				return
			}
			for i := range rest {
				nr := append(append([]string{}, rest[:i]...), rest[i+1:]...)
				rec(append(append([]string{}, cur...), rest[i]), nr)
			}
		}
		rec(nil, base)
	}
}
