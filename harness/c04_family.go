package main

// Scripted handler family (shared by C04, C06, C37): ONE generic registered server whose methods
// interpret a *script* carried in the call parameters, so a single registration covers every
// generated program; the Lean model (lean/Vgi/Model/Script*.lean) interprets the same script.
//
// This file holds the unary half (methods u_*), the wire client helpers (request builders,
// "record everything the server wrote" decoders) and the canonical rendering of batches.
// The stream half lives in c06_family.go.

import (
	"bytes"
	"context"
	"encoding/hex"
	"encoding/json"
	"errors"
	"fmt"
	"math"
	"net/http"
	"net/http/httptest"
	"sort"
	"strconv"
	"strings"
	"sync"
	"time"

	"github.com/apache/arrow-go/v18/arrow"
	"github.com/apache/arrow-go/v18/arrow/array"
	"github.com/apache/arrow-go/v18/arrow/ipc"
	"github.com/apache/arrow-go/v18/arrow/memory"

	"github.com/Query-farm/vgi-rpc-go/vgirpc"
)

// ---------------------------------------------------------------- scripts (text <-> struct)

type famLog struct {
	Level, Msg string
	Extras     []vgirpc.KV
}

// famOutcome: what the scripted unary handler does after its logs.
type famOutcome struct {
	Kind string // "ret" | "err" | "panic"
	Val  string // ret: value token (s:x.. i:.. f:x.. b:0|1 l:[..] r:n:x.. void)
	Sub  string // err: rpc|plain|wrap ; panic: str|err|int
	Typ  string // err rpc: RpcError.Type
	Msg  string // err: message ; panic str/err: payload
	Int  int    // panic int ; err shared: sentinel slot
	// err rpcfull: the other exported fields of the RpcError the handler pre-populates
	RID, EKind, TB string
}

// famSharedErrs are package-level sentinel errors: a handler scripted `err shared <slot>`
// returns the SAME *RpcError value on every call. Re-created at the start of every case so a
// case replays from its script alone.
var famSharedErrs [3]*vgirpc.RpcError

func famResetShared() {
	famSharedErrs = [3]*vgirpc.RpcError{
		{Type: "LookupError", Message: "not found"},
		{Type: "ValueError", Message: "shared sentinel"},
		{},
	}
}

func init() { famResetShared() }

func famSharedSlot(n int) int {
	if n < 0 || n >= len(famSharedErrs) {
		return len(famSharedErrs) - 1
	}
	return n
}

type famUnaryScript struct {
	Logs []famLog
	Out  famOutcome
}

func famTakeX(ts []string) (string, []string, error) {
	if len(ts) == 0 {
		return "", nil, errors.New("script: missing byte-string token")
	}
	b, ok := UnX(ts[0])
	if !ok {
		return "", nil, fmt.Errorf("script: bad byte-string token %q", ts[0])
	}
	return string(b), ts[1:], nil
}

func famTakeN(ts []string) (int, []string, error) {
	if len(ts) == 0 {
		return 0, nil, errors.New("script: missing count")
	}
	n, err := strconv.Atoi(ts[0])
	if err != nil || n < 0 {
		return 0, nil, fmt.Errorf("script: bad count %q", ts[0])
	}
	return n, ts[1:], nil
}

// famParseLogs parses `<n> {<lvl> <msg> <k> {<key> <val>}*k}*n`.
func famParseLogs(ts []string) ([]famLog, []string, error) {
	n, ts, err := famTakeN(ts)
	if err != nil {
		return nil, nil, err
	}
	var logs []famLog
	for i := 0; i < n; i++ {
		var l famLog
		if l.Level, ts, err = famTakeX(ts); err != nil {
			return nil, nil, err
		}
		if l.Msg, ts, err = famTakeX(ts); err != nil {
			return nil, nil, err
		}
		var k int
		if k, ts, err = famTakeN(ts); err != nil {
			return nil, nil, err
		}
		for j := 0; j < k; j++ {
			var kv vgirpc.KV
			if kv.Key, ts, err = famTakeX(ts); err != nil {
				return nil, nil, err
			}
			if kv.Value, ts, err = famTakeX(ts); err != nil {
				return nil, nil, err
			}
			l.Extras = append(l.Extras, kv)
		}
		logs = append(logs, l)
	}
	return logs, ts, nil
}

func famLogsTokens(logs []famLog) []string {
	out := []string{strconv.Itoa(len(logs))}
	for _, l := range logs {
		out = append(out, XS(l.Level), XS(l.Msg), strconv.Itoa(len(l.Extras)))
		for _, kv := range l.Extras {
			out = append(out, XS(kv.Key), XS(kv.Value))
		}
	}
	return out
}

// famParseFail parses `rpc <typ> <msg> | plain <msg> | wrap <msg>` (after "err") or
// `str <s> | err <m> | int <n>` (after "panic").
func famParseOutcome(ts []string) (famOutcome, []string, error) {
	var o famOutcome
	if len(ts) < 2 {
		return o, nil, errors.New("script: missing outcome")
	}
	o.Kind = ts[0]
	var err error
	switch ts[0] {
	case "ret":
		o.Val = ts[1]
		return o, ts[2:], nil
	case "err":
		o.Sub = ts[1]
		ts = ts[2:]
		switch o.Sub {
		case "rpc":
			if o.Typ, ts, err = famTakeX(ts); err != nil {
				return o, nil, err
			}
			o.Msg, ts, err = famTakeX(ts)
			return o, ts, err
		case "plain", "wrap":
			o.Msg, ts, err = famTakeX(ts)
			return o, ts, err
		case "rpcfull":
			for _, f := range []*string{&o.Typ, &o.Msg, &o.RID, &o.EKind, &o.TB} {
				if *f, ts, err = famTakeX(ts); err != nil {
					return o, nil, err
				}
			}
			return o, ts, nil
		case "shared":
			o.Int, ts, err = famTakeN(ts)
			return o, ts, err
		}
	case "panic":
		o.Sub = ts[1]
		ts = ts[2:]
		switch o.Sub {
		case "str", "err":
			o.Msg, ts, err = famTakeX(ts)
			return o, ts, err
		case "int":
			if len(ts) == 0 {
				return o, nil, errors.New("script: missing int")
			}
			o.Int, err = strconv.Atoi(ts[0])
			return o, ts[1:], err
		}
	}
	return o, nil, fmt.Errorf("script: bad outcome %v", ts)
}

func (o famOutcome) tokens() []string {
	switch o.Kind {
	case "ret":
		return []string{"ret", o.Val}
	case "err":
		switch o.Sub {
		case "rpc":
			return []string{"err", "rpc", XS(o.Typ), XS(o.Msg)}
		case "rpcfull":
			return []string{"err", "rpcfull", XS(o.Typ), XS(o.Msg), XS(o.RID), XS(o.EKind), XS(o.TB)}
		case "shared":
			return []string{"err", "shared", strconv.Itoa(o.Int)}
		}
		return []string{"err", o.Sub, XS(o.Msg)}
	default:
		if o.Sub == "int" {
			return []string{"panic", "int", strconv.Itoa(o.Int)}
		}
		return []string{"panic", o.Sub, XS(o.Msg)}
	}
}

// failure reports whether the outcome is an error/panic and the message the client must see.
func (o famOutcome) failure() (bool, string) {
	switch o.Kind {
	case "err":
		switch o.Sub {
		case "rpc", "rpcfull":
			return true, o.Typ + ": " + o.Msg
		case "shared":
			e := famSharedErrs[famSharedSlot(o.Int)]
			return true, e.Type + ": " + e.Message
		case "plain":
			return true, o.Msg
		default:
			return true, "wrapped: " + o.Msg
		}
	case "panic":
		switch o.Sub {
		case "int":
			return true, "RuntimeError: handler panicked: " + strconv.Itoa(o.Int)
		default:
			return true, "RuntimeError: handler panicked: " + o.Msg
		}
	}
	return false, ""
}

// act performs the failing part of an outcome (returns the error or panics); nil for "ret".
func (o famOutcome) act() error {
	switch o.Kind {
	case "err":
		switch o.Sub {
		case "rpc":
			return &vgirpc.RpcError{Type: o.Typ, Message: o.Msg}
		case "rpcfull":
			return &vgirpc.RpcError{Type: o.Typ, Message: o.Msg, RequestID: o.RID, Kind: o.EKind, Traceback: o.TB}
		case "shared":
			return famSharedErrs[famSharedSlot(o.Int)] // the same value every time
		case "plain":
			return errors.New(o.Msg)
		default:
			return fmt.Errorf("wrapped: %w", errors.New(o.Msg))
		}
	case "panic":
		switch o.Sub {
		case "str":
			panic(o.Msg)
		case "err":
			panic(errors.New(o.Msg))
		default:
			panic(o.Int)
		}
	}
	return nil
}

func famParseUnaryScript(ts []string) (*famUnaryScript, error) {
	logs, ts, err := famParseLogs(ts)
	if err != nil {
		return nil, err
	}
	out, ts, err := famParseOutcome(ts)
	if err != nil {
		return nil, err
	}
	if len(ts) != 0 {
		return nil, fmt.Errorf("script: trailing tokens %v", ts)
	}
	return &famUnaryScript{Logs: logs, Out: out}, nil
}

func (s *famUnaryScript) tokens() []string {
	return append(famLogsTokens(s.Logs), s.Out.tokens()...)
}

// ---------------------------------------------------------------- value tokens

func famValStr(tok string) string {
	if strings.HasPrefix(tok, "s:") {
		if b, ok := UnX(tok[2:]); ok {
			return string(b)
		}
	}
	panic("family: value token is not a string: " + tok)
}
func famValI64(tok string) int64 {
	if strings.HasPrefix(tok, "i:") {
		if n, err := strconv.ParseInt(tok[2:], 10, 64); err == nil {
			return n
		}
	}
	panic("family: value token is not an int64: " + tok)
}
func famValF64(tok string) float64 {
	if strings.HasPrefix(tok, "f:x") {
		if n, err := strconv.ParseUint(tok[3:], 16, 64); err == nil {
			return math.Float64frombits(n)
		}
	}
	panic("family: value token is not a float64: " + tok)
}
func famValBool(tok string) bool {
	switch tok {
	case "b:0":
		return false
	case "b:1":
		return true
	}
	panic("family: value token is not a bool: " + tok)
}
func famValList(tok string) []int64 {
	if strings.HasPrefix(tok, "l:[") && strings.HasSuffix(tok, "]") {
		body := tok[3 : len(tok)-1]
		out := []int64{}
		if body == "" {
			return out
		}
		for _, p := range strings.Split(body, ",") {
			n, err := strconv.ParseInt(p, 10, 64)
			if err != nil {
				panic("family: bad list token " + tok)
			}
			out = append(out, n)
		}
		return out
	}
	panic("family: value token is not a list: " + tok)
}

type famRec struct {
	A int64  `vgirpc:"a"`
	B string `vgirpc:"b"`
}

func famValRec(tok string) famRec {
	p := strings.SplitN(tok, ":", 3)
	if len(p) == 3 && p[0] == "r" {
		n, err := strconv.ParseInt(p[1], 10, 64)
		b, ok := UnX(p[2])
		if err == nil && ok {
			return famRec{A: n, B: string(b)}
		}
	}
	panic("family: value token is not a record: " + tok)
}

// Result types that share an Arrow type ID with another method's result but differ in the
// type's parameters (element type, precision/scale, byte width, time zone, value type).
type famDec2 string
type famDec4 string
type famFsb4 []byte
type famFsb8 []byte
type famTsNaive time.Time
type famTsUTC time.Time

func (famDec2) VgirpcArrowResult() arrow.DataType {
	return &arrow.Decimal128Type{Precision: 10, Scale: 2}
}
func (famDec4) VgirpcArrowResult() arrow.DataType {
	return &arrow.Decimal128Type{Precision: 20, Scale: 4}
}
func (famFsb4) VgirpcArrowResult() arrow.DataType { return &arrow.FixedSizeBinaryType{ByteWidth: 4} }
func (famFsb8) VgirpcArrowResult() arrow.DataType { return &arrow.FixedSizeBinaryType{ByteWidth: 8} }
func (famTsNaive) VgirpcArrowResult() arrow.DataType {
	return &arrow.TimestampType{Unit: arrow.Microsecond}
}
func (famTsUTC) VgirpcArrowResult() arrow.DataType {
	return &arrow.TimestampType{Unit: arrow.Microsecond, TimeZone: "UTC"}
}

func famTokPayload(tok, prefix string) string {
	if !strings.HasPrefix(tok, prefix) {
		panic("family: value token " + tok + " is not a " + prefix)
	}
	return tok[len(prefix):]
}

// sl:[x<hex>,x<hex>]
func famValSList(tok string) []string {
	body := strings.TrimSuffix(famTokPayload(tok, "sl:["), "]")
	out := []string{}
	if body == "" {
		return out
	}
	for _, p := range strings.Split(body, ",") {
		out = append(out, UnXS(p))
	}
	return out
}
func famTokSList(l []string) string {
	p := make([]string, len(l))
	for i, v := range l {
		p[i] = XS(v)
	}
	return "sl:[" + strings.Join(p, ",") + "]"
}

// mi:{x<hex>=<n>,…} / ms:{x<hex>=x<hex>,…}, keys ascending
func famMapPairs(tok, prefix string) [][2]string {
	body := strings.TrimSuffix(famTokPayload(tok, prefix), "}")
	var out [][2]string
	if body == "" {
		return out
	}
	for _, p := range strings.Split(body, ",") {
		kv := strings.SplitN(p, "=", 2)
		out = append(out, [2]string{UnXS(kv[0]), kv[1]})
	}
	return out
}
func famValIMap(tok string) map[string]int64 {
	m := map[string]int64{}
	for _, kv := range famMapPairs(tok, "mi:{") {
		n, err := strconv.ParseInt(kv[1], 10, 64)
		if err != nil {
			panic(err)
		}
		m[kv[0]] = n
	}
	return m
}
func famValSMap(tok string) map[string]string {
	m := map[string]string{}
	for _, kv := range famMapPairs(tok, "ms:{") {
		m[kv[0]] = UnXS(kv[1])
	}
	return m
}
func famTokMap(prefix string, m map[string]string) string {
	keys := make([]string, 0, len(m))
	for k := range m {
		keys = append(keys, k)
	}
	sort.Strings(keys)
	p := make([]string, len(keys))
	for i, k := range keys {
		p[i] = XS(k) + "=" + m[k]
	}
	return prefix + strings.Join(p, ",") + "}"
}
func famValDec2(tok string) famDec2 { return famDec2(famTokPayload(tok, "d2:")) }
func famValDec4(tok string) famDec4 { return famDec4(famTokPayload(tok, "d4:")) }
func famValFsb4(tok string) famFsb4 { return famFsb4(MustUnX(famTokPayload(tok, "fb:"))) }
func famValFsb8(tok string) famFsb8 { return famFsb8(MustUnX(famTokPayload(tok, "fb:"))) }
func famTsOf(tok, prefix string) time.Time {
	n, err := strconv.ParseInt(famTokPayload(tok, prefix), 10, 64)
	if err != nil {
		panic(err)
	}
	return time.UnixMicro(n).UTC()
}
func famValTsNaive(tok string) famTsNaive { return famTsNaive(famTsOf(tok, "tn:")) }
func famValTsUTC(tok string) famTsUTC     { return famTsUTC(famTsOf(tok, "tz:")) }

func famTokI64(n int64) string   { return "i:" + strconv.FormatInt(n, 10) }
func famTokStr(s string) string  { return "s:" + XS(s) }
func famTokF64(f float64) string { return fmt.Sprintf("f:x%016x", math.Float64bits(f)) }
func famTokBool(b bool) string {
	if b {
		return "b:1"
	}
	return "b:0"
}
func famTokList(l []int64) string {
	p := make([]string, len(l))
	for i, n := range l {
		p[i] = strconv.FormatInt(n, 10)
	}
	return "l:[" + strings.Join(p, ",") + "]"
}
func famTokRec(r famRec) string { return "r:" + strconv.FormatInt(r.A, 10) + ":" + XS(r.B) }

// ---------------------------------------------------------------- the unary methods

type famUnaryParams struct {
	Script string `vgirpc:"script"`
}

// famRunUnary is the scripted handler body: every ClientLog of the script in order, then the
// outcome. Returns the value token for "ret".
func famRunUnary(cc *vgirpc.CallContext, script string) (string, error) {
	sc, err := famParseUnaryScript(strings.Fields(script))
	if err != nil {
		return "", err
	}
	for _, l := range sc.Logs {
		cc.ClientLog(vgirpc.LogLevel(l.Level), l.Msg, l.Extras...)
	}
	famMaybeAbortRID(cc.RequestID)
	if err := sc.Out.act(); err != nil {
		return "", err
	}
	return sc.Out.Val, nil
}

func famUnary[R any](s *vgirpc.Server, name string, conv func(string) R) {
	vgirpc.Unary(s, name, func(_ context.Context, cc *vgirpc.CallContext, p famUnaryParams) (R, error) {
		tok, err := famRunUnary(cc, p.Script)
		if err != nil {
			var zero R
			return zero, err
		}
		return conv(tok), nil
	})
}

var famUnaryMethods = []string{"u_str", "u_i64", "u_f64", "u_bool", "u_list", "u_rec", "u_void",
	"u_slist", "u_imap", "u_smap", "u_dec2", "u_dec4", "u_fsb4", "u_fsb8", "u_tsn", "u_tsz"}

// famTypeFamilies: methods whose result columns have the SAME Arrow type id and different type parameters.
var famTypeFamilies = [][]string{
	{"u_list", "u_slist"}, {"u_imap", "u_smap"}, {"u_dec2", "u_dec4"}, {"u_fsb4", "u_fsb8"}, {"u_tsn", "u_tsz"},
	{"u_rec", "u_fsb4"}, // binary vs fixed_size_binary: different ids, for contrast
}

func famRegisterUnary(s *vgirpc.Server) {
	famUnary(s, "u_str", famValStr)
	famUnary(s, "u_i64", famValI64)
	famUnary(s, "u_f64", famValF64)
	famUnary(s, "u_bool", famValBool)
	famUnary(s, "u_list", famValList)
	famUnary(s, "u_rec", famValRec)
	famUnary(s, "u_slist", famValSList)
	famUnary(s, "u_imap", famValIMap)
	famUnary(s, "u_smap", famValSMap)
	famUnary(s, "u_dec2", famValDec2)
	famUnary(s, "u_dec4", famValDec4)
	famUnary(s, "u_fsb4", famValFsb4)
	famUnary(s, "u_fsb8", famValFsb8)
	famUnary(s, "u_tsn", famValTsNaive)
	famUnary(s, "u_tsz", famValTsUTC)
	vgirpc.UnaryVoid(s, "u_void", func(_ context.Context, cc *vgirpc.CallContext, p famUnaryParams) error {
		_, err := famRunUnary(cc, p.Script)
		return err
	})
}

// ---------------------------------------------------------------- wire client

var famScriptSchema = arrow.NewSchema([]arrow.Field{{Name: "script", Type: arrow.BinaryTypes.String}}, nil)

// famIPC writes one complete IPC stream holding the given batches.
func famIPC(schema *arrow.Schema, batches ...arrow.RecordBatch) []byte {
	var buf bytes.Buffer
	w := ipc.NewWriter(&buf, ipc.WithSchema(schema))
	for _, b := range batches {
		if err := w.Write(b); err != nil {
			panic(err)
		}
	}
	if err := w.Close(); err != nil {
		panic(err)
	}
	return buf.Bytes()
}

// famRequest builds the request stream of a scripted call: one row {script}, custom metadata
// method / request_version / request_id / log_level (the last two only when non-empty) / extra.
func famRequest(method, script, lvl, rid string, extra ...[2]string) []byte {
	b := array.NewStringBuilder(memory.DefaultAllocator)
	b.Append(script)
	col := b.NewArray()
	b.Release()
	defer col.Release()
	keys := []string{vgirpc.MetaMethod, vgirpc.MetaRequestVersion}
	vals := []string{method, vgirpc.ProtocolVersion}
	if rid != "" {
		keys = append(keys, vgirpc.MetaRequestID)
		vals = append(vals, rid)
	}
	if lvl != "" {
		keys = append(keys, vgirpc.MetaLogLevel)
		vals = append(vals, lvl)
	}
	for _, kv := range extra {
		keys = append(keys, kv[0])
		vals = append(vals, kv[1])
	}
	rec := array.NewRecordBatchWithMetadata(famScriptSchema, []arrow.Array{col}, 1, arrow.NewMetadata(keys, vals))
	defer rec.Release()
	return famIPC(famScriptSchema, rec)
}

// famBatch is one decoded response batch.
type famBatch struct {
	Rows  int64
	NCols int
	Keys  []string // custom metadata, wire order
	Vals  []string
	Val   string // value token of the rows (see famBatchToken)
}

func (b famBatch) get(k string) (string, bool) {
	for i, kk := range b.Keys {
		if kk == k {
			return b.Vals[i], true
		}
	}
	return "", false
}

// famStream is one decoded IPC stream; Err is the reader error that ended it, if any.
type famStream struct {
	Schema  *arrow.Schema
	Batches []famBatch
	Err     error
}

// famReadStreams decodes everything the server wrote: a sequence of complete IPC streams.
func famReadStreams(data []byte) ([]famStream, error) {
	r := bytes.NewReader(data)
	var out []famStream
	for r.Len() > 0 {
		rd, err := ipc.NewReader(r, ipc.WithAllocator(memory.DefaultAllocator))
		if err != nil {
			return out, fmt.Errorf("stream %d: %w", len(out), err)
		}
		st := famStream{Schema: rd.Schema()}
		for rd.Next() {
			rec := rd.RecordBatch()
			fb := famBatch{Rows: rec.NumRows(), NCols: int(rec.NumCols()), Val: famBatchToken(rec)}
			if wm, ok := rec.(arrow.RecordBatchWithMetadata); ok {
				md := wm.Metadata()
				fb.Keys = append(fb.Keys, md.Keys()...)
				fb.Vals = append(fb.Vals, md.Values()...)
			}
			st.Batches = append(st.Batches, fb)
		}
		st.Err = rd.Err()
		rd.Release()
		out = append(out, st)
		if st.Err != nil {
			return out, fmt.Errorf("stream %d: %w", len(out)-1, st.Err)
		}
	}
	return out, nil
}

// famCellToken renders one cell as a value token.
func famCellToken(col arrow.Array, i int) string {
	if col.IsNull(i) {
		return "null"
	}
	switch a := col.(type) {
	case *array.String:
		return famTokStr(a.Value(i))
	case *array.Int64:
		return famTokI64(a.Value(i))
	case *array.Int32:
		return "i32:" + strconv.FormatInt(int64(a.Value(i)), 10)
	case *array.Float64:
		return famTokF64(a.Value(i))
	case *array.Boolean:
		return famTokBool(a.Value(i))
	case *array.Map: // before *array.List: a Map embeds a List
		s, e := a.ValueOffsets(i)
		keys, okk := a.Keys().(*array.String)
		if !okk {
			break
		}
		m := map[string]string{}
		prefix := "mi:{"
		for j := int(s); j < int(e); j++ {
			switch items := a.Items().(type) {
			case *array.Int64:
				m[keys.Value(j)] = strconv.FormatInt(items.Value(j), 10)
			case *array.String:
				prefix = "ms:{"
				m[keys.Value(j)] = XS(items.Value(j))
			default:
				return "?map"
			}
		}
		if _, isStr := a.Items().(*array.String); isStr {
			prefix = "ms:{"
		}
		return famTokMap(prefix, m)
	case *array.List:
		s, e := a.ValueOffsets(i)
		switch vals := a.ListValues().(type) {
		case *array.Int64:
			l := []int64{}
			for j := s; j < e; j++ {
				l = append(l, vals.Value(int(j)))
			}
			return famTokList(l)
		case *array.String:
			l := []string{}
			for j := s; j < e; j++ {
				l = append(l, vals.Value(int(j)))
			}
			return famTokSList(l)
		}
	case *array.Decimal128:
		dt := a.DataType().(*arrow.Decimal128Type)
		p := "d2:"
		if dt.Scale == 4 {
			p = "d4:"
		}
		return p + a.Value(i).ToString(dt.Scale)
	case *array.FixedSizeBinary:
		return "fb:x" + hex.EncodeToString(a.Value(i))
	case *array.Timestamp:
		p := "tn:"
		if a.DataType().(*arrow.TimestampType).TimeZone != "" {
			p = "tz:"
		}
		return p + strconv.FormatInt(int64(a.Value(i)), 10)
	case *array.Binary:
		raw := a.Value(i)
		// a struct result travels as an IPC stream with one row (a:int64, b:utf8)
		if rd, err := ipc.NewReader(bytes.NewReader(raw)); err == nil {
			defer rd.Release()
			if rd.Next() {
				rec := rd.RecordBatch()
				if rec.NumRows() == 1 && rec.NumCols() == 2 && rec.ColumnName(0) == "a" && rec.ColumnName(1) == "b" {
					ca, oka := rec.Column(0).(*array.Int64)
					cb, okb := rec.Column(1).(*array.String)
					if oka && okb {
						return famTokRec(famRec{A: ca.Value(0), B: cb.Value(0)})
					}
				}
			}
		}
		return "y:x" + hex.EncodeToString(raw)
	}
	return "?" + strings.ReplaceAll(col.DataType().String(), " ", "")
}

// famBatchToken renders the rows of a batch: the single cell for 1x1, otherwise
// `rows=<n>[r0c0|r0c1/r1c0|r1c1]`.
func famBatchToken(rec arrow.RecordBatch) string {
	if rec.NumRows() == 1 && rec.NumCols() == 1 {
		return famCellToken(rec.Column(0), 0)
	}
	rows := []string{}
	for i := 0; i < int(rec.NumRows()); i++ {
		cells := []string{}
		for j := 0; j < int(rec.NumCols()); j++ {
			cells = append(cells, famCellToken(rec.Column(j), i))
		}
		rows = append(rows, strings.Join(cells, "|"))
	}
	return fmt.Sprintf("rows=%d[%s]", rec.NumRows(), strings.Join(rows, "/"))
}

// famSchemaCanon renders a schema without spaces: {name:type,name:type?}.
func famSchemaCanon(s *arrow.Schema) string {
	if s == nil {
		return "nil"
	}
	parts := []string{}
	for _, f := range s.Fields() {
		p := f.Name + ":" + strings.ReplaceAll(f.Type.String(), " ", "")
		if f.Nullable {
			p += "?"
		}
		parts = append(parts, p)
	}
	return "{" + strings.Join(parts, ",") + "}"
}

// frameworkKeys are metadata keys that mark a batch as not-plain-data or that the canonical
// rendering of a data batch must not show (tokens are random).
var famHiddenDataKeys = map[string]bool{vgirpc.MetaStreamState: true, vgirpc.MetaCallState: true, vgirpc.MetaServerID: true}

// kind classifies a response batch the way a client does: "log", "exc", "void", "data".
func (b famBatch) kind() string {
	if lvl, ok := b.get(vgirpc.MetaLogLevel); ok && b.Rows == 0 {
		if lvl == string(vgirpc.LogException) {
			if ex, ok := b.get(vgirpc.MetaLogExtra); ok {
				var m map[string]any
				if json.Unmarshal([]byte(ex), &m) == nil {
					if _, ok := m["exception_type"]; ok {
						return "exc"
					}
				}
			}
		}
		return "log"
	}
	if b.NCols == 0 && b.Rows == 0 {
		return "void"
	}
	return "data"
}

func famKVCanon(m map[string]string) string {
	if len(m) == 0 {
		return "-"
	}
	keys := make([]string, 0, len(m))
	for k := range m {
		keys = append(keys, k)
	}
	sort.Strings(keys) // bytewise
	p := make([]string, len(keys))
	for i, k := range keys {
		p[i] = hex.EncodeToString([]byte(k)) + "=" + hex.EncodeToString([]byte(m[k]))
	}
	return strings.Join(p, ",")
}

// extras returns the decoded log_extra object of a log batch (nil when the key is absent).
func (b famBatch) extras() (map[string]string, string) {
	ex, ok := b.get(vgirpc.MetaLogExtra)
	if !ok {
		return nil, "-"
	}
	var m map[string]string
	if err := json.Unmarshal([]byte(ex), &m); err != nil {
		return nil, "?json"
	}
	if len(m) == 0 {
		return m, "{}"
	}
	return m, famKVCanon(m)
}

func (b famBatch) rid() string {
	if r, ok := b.get(vgirpc.MetaRequestID); ok {
		return XS(r)
	}
	return "-"
}

// canon is the property-relevant rendering compared with the model.
func (b famBatch) canon() string {
	switch b.kind() {
	case "log":
		lvl, _ := b.get(vgirpc.MetaLogLevel)
		msg, _ := b.get(vgirpc.MetaLogMessage)
		_, ex := b.extras()
		return fmt.Sprintf("log %s %s %s %s", XS(lvl), XS(msg), ex, b.rid())
	case "exc":
		msg, _ := b.get(vgirpc.MetaLogMessage)
		return fmt.Sprintf("exc %s %s", XS(msg), b.rid())
	case "void":
		if len(b.Keys) == 0 {
			return "void"
		}
		fallthrough
	default:
		md := map[string]string{}
		for i, k := range b.Keys {
			if !famHiddenDataKeys[k] {
				md[k] = b.Vals[i]
			}
		}
		return fmt.Sprintf("data %s %s", b.Val, famKVCanon(md))
	}
}

func (s famStream) canon() string {
	parts := []string{famSchemaCanon(s.Schema)}
	for _, b := range s.Batches {
		parts = append(parts, b.canon())
	}
	return strings.Join(parts, " ; ")
}

// ---------------------------------------------------------------- serve-context cancellation

// A history can ask for the context given to Serve to be cancelled from INSIDE a call: during
// turn k of the stream with a given id, or inside the unary handler answering a given request id.
var (
	famAbortMu    sync.Mutex
	famAbortTurn  = map[string]int{}  // stream id -> turn index
	famAbortRID   = map[string]bool{} // request id
	famServeAbort func()              // cancels the context of the Serve call in progress
)

func famMaybeAbortTurn(sid string, k int) {
	famAbortMu.Lock()
	at, ok := famAbortTurn[sid]
	f := famServeAbort
	famAbortMu.Unlock()
	if ok && at == k && f != nil {
		f()
	}
}

func famMaybeAbortRID(rid string) {
	famAbortMu.Lock()
	ok := famAbortRID[rid]
	f := famServeAbort
	famAbortMu.Unlock()
	if ok && f != nil {
		f()
	}
}

// ---------------------------------------------------------------- running the real server

// famServePipe feeds the given bytes (requests and input streams, back to back) to
// Server.Serve and returns everything the server wrote. A panic escaping Serve is returned.
// famServePipeCtx is famServePipe with a cancellable context: the family can cancel it from inside
// a call (famMaybeAbort*); preCancel cancels it before Serve starts.
func famServePipeCtx(s *vgirpc.Server, input []byte, preCancel bool) (out []byte, panicked any) {
	ctx, cancel := context.WithCancel(context.Background())
	defer cancel()
	famAbortMu.Lock()
	famServeAbort = cancel
	famAbortMu.Unlock()
	defer func() {
		famAbortMu.Lock()
		famServeAbort = nil
		famAbortMu.Unlock()
	}()
	if preCancel {
		cancel()
	}
	var buf bytes.Buffer
	func() {
		defer func() { panicked = recover() }()
		s.ServeWithContext(ctx, bytes.NewReader(input), &buf)
	}()
	return buf.Bytes(), panicked
}

func famServePipe(s *vgirpc.Server, input []byte) (out []byte, panicked any) {
	var buf bytes.Buffer
	func() {
		defer func() { panicked = recover() }()
		s.Serve(bytes.NewReader(input), &buf)
	}()
	return buf.Bytes(), panicked
}

// famHTTPPost posts an Arrow body to the in-process HttpServer.
func famHTTPPost(h http.Handler, path string, body []byte, headers ...[2]string) (rec *httptest.ResponseRecorder, panicked any) {
	req := httptest.NewRequest(http.MethodPost, path, bytes.NewReader(body))
	req.Header.Set("Content-Type", "application/vnd.apache.arrow.stream")
	for _, kv := range headers {
		req.Header[http.CanonicalHeaderKey(kv[0])] = []string{kv[1]}
	}
	rec = httptest.NewRecorder()
	func() {
		defer func() { panicked = recover() }()
		h.ServeHTTP(rec, req)
	}()
	return rec, panicked
}

// famLevelRank is the documented severity order, stated independently of the code:
// EXCEPTION < ERROR < WARN < INFO < DEBUG < TRACE < anything else.
func famLevelRank(l string) int {
	switch l {
	case "EXCEPTION":
		return 0
	case "ERROR":
		return 1
	case "WARN":
		return 2
	case "INFO":
		return 3
	case "DEBUG":
		return 4
	case "TRACE":
		return 5
	}
	return 6
}

// famKept: is a log at level l delivered when the client requested `requested`?
func famKept(requested, l string) bool {
	if requested == "" {
		requested = "TRACE"
	}
	return famLevelRank(l) <= famLevelRank(requested)
}

// famJSONRoundTrip is what a map[string]string is after encoding/json has carried it: invalid
// UTF-8 bytes become U+FFFD (library behaviour, asked of the library itself).
func famJSONRoundTrip(m map[string]string) map[string]string {
	if len(m) == 0 {
		return m
	}
	raw, err := json.Marshal(m)
	if err != nil {
		panic(err)
	}
	out := map[string]string{}
	if err := json.Unmarshal(raw, &out); err != nil {
		panic(err)
	}
	return out
}

// famExtrasMap is the Go map a KV list denotes (last write wins).
func famExtrasMap(kvs []vgirpc.KV) map[string]string {
	m := map[string]string{}
	for _, kv := range kvs {
		m[kv.Key] = kv.Value
	}
	return m
}

// ---------------------------------------------------------------- generator helpers

var famLevels = []string{"EXCEPTION", "ERROR", "WARN", "INFO", "DEBUG", "TRACE"}

func famRandText(r *Rng) string {
	switch r.Intn(16) {
	case 0:
		return ""
	case 1:
		return "hello world"
	case 2:
		return "ünï-çødé ✓ 日本"
	case 3:
		return `quote " back\slash <tag> & {json:"x"}`
	case 4:
		return strings.Repeat("long-", r.Range(20, 80))
	case 5:
		return "line1\nline2\ttab"
	case 6:
		return "x" + strconv.Itoa(r.Intn(1000))
	case 7:
		return string(rune(0x1F600+r.Intn(40))) + " emoji"
	case 8: // every C0 control character, DEL, the JSON-special bytes
		return "\x00\x01\x02\a\b\t\n\v\f\r\x0e\x1b\x1f\x7f\"\\/"
	case 9: // one control character in ordinary text
		return "ctl" + string(rune(r.Intn(0x20))) + "end" + Pick(r, []string{"", "\x7f", "\x1f"})
	case 10: // line/paragraph separators, BOM, replacement char, a non-BMP rune, C1 controls
		return "sep\u2028\u2029\ufeff\ufffd\U0010ffff\u0085\u009f"
	case 11: // invalid UTF-8: stray bytes, bad continuation, surrogate, overlong, truncated
		return Pick(r, []string{"a\xff\xfeb", "\xc3(", "\xed\xa0\x80", "\xc0\xaf", "tail\xe2\x82", "\xf4\x90\x80\x80", "\x80"})
	case 12: // arbitrary bytes from the whole range
		return string(r.Bytes(r.Range(1, 24)))
	case 13: // very long
		return strings.Repeat("0123456789abcdef\x01\"", r.Range(100, 400))
	default:
		n := r.Range(1, 12)
		b := make([]byte, n)
		for i := range b {
			b[i] = byte(0x20 + r.Intn(0x5f))
		}
		return string(b)
	}
}

// famRandKey draws an extras key: any VALID UTF-8 text incl. control characters (two different
// invalid keys would collapse into one after the JSON round trip, which the model does not follow).
func famRandKey(r *Rng) string {
	return Pick(r, []string{"a", "b", "k", "K", "", "zz", "ключ", "a b", "user.id", "a",
		"\x00", "\x01\x1f", "tab\there", "q\"uote", "back\\slash", "\x7f", "\u2028", "\u2029k", "<&>", "\a\v", strings.Repeat("k", 300)})
}

func famRandLevel(r *Rng) string {
	switch x := r.Intn(100); {
	case x < 80:
		return Pick(r, famLevels)
	case x < 85:
		return ""
	case x < 90:
		return strings.ToLower(Pick(r, famLevels))
	case x < 94:
		return "VERBOSE"
	case x < 97:
		return Pick(r, famLevels) + " "
	default:
		return famRandText(r)
	}
}

// panicText is fmt.Sprint of the value the scripted handler panics with.
func (o famOutcome) panicText() string {
	if o.Sub == "int" {
		return strconv.Itoa(o.Int)
	}
	return o.Msg
}
