package main

import (
	"fmt"
	"sort"
	"strings"
)

func c11Gen(g *Gen) {
	r := g.Rng
	n := g.N(1500, 15000)
	for i := 0; i < n; i++ {
		lines := []string{fmt.Sprintf("cfg limit=%d cache=%d inst=%d comp=%d", Pick(r, []int{0, 0, 1, 1, 2, 3, 4}), b2i(r.Chance(55)),
			r.Range(1, 3), b2i(r.Chance(35)))}
		for k := r.Range(1, 4); k > 0; k-- {
			lines = append(lines, c11GenRun(r))
		}
		g.Case(lines...)
	}
	if g.Thorough() {
		c11GenExhaustive(g)
	}
}

func c11GenRun(r *Rng) string {
	method := Pick(r, []string{"ex", "pr", "exh", "prh", "dyn", "dyn", "dyn"})
	kind := "ex"
	switch method {
	case "pr", "prh":
		kind = "pr"
	case "dyn":
		kind = Pick(r, []string{"ex", "ex", "pr"})
	}
	hdr := "-"
	if (method == "exh" || method == "prh" || method == "dyn") && r.Chance(70) {
		hdr = fmt.Sprint(r.Range(1, 99))
	}
	if (method == "ex" || method == "pr") && r.Chance(10) {
		hdr = fmt.Sprint(r.Range(1, 99)) // a header on a method registered without one: ignored
	}
	ilogs := Pick(r, []int{0, 0, 1, 2, 3})
	iout := "ok"
	switch r.Intn(14) {
	case 0:
		iout = fmt.Sprintf("f%d", r.Intn(9))
	case 1:
		iout = fmt.Sprintf("p%d", r.Intn(9))
	}
	decl := r.Intn(2)
	prog := genProg(r, kind == "ex", r.Chance(25), 6)
	if kind == "ex" && r.Chance(60) {
		// mostly well-behaved exchange cycles so sessions last several turns
		n := r.Range(1, 7)
		ticks := make([]string, n)
		for i := range ticks {
			if r.Chance(85) {
				t := genEmit(r, true, r.Chance(20))
				if r.Chance(40) { // the handler echoes what it saw as InputMetadata
					t = fmt.Sprintf("E%d:%s", r.Intn(2), Pick(r, []string{"i0", "i1", "c7", "c"}))
				}
				if r.Chance(35) {
					t = fmt.Sprintf("l%d;", r.Intn(50)) + t
				}
				if r.Chance(15) {
					t += fmt.Sprintf(";l%d", r.Intn(50))
				}
				ticks[i] = t
			} else {
				ticks[i] = genTick(r, true, false)
			}
		}
		prog = strings.Join(ticks, "/")
	}
	if kind == "pr" && r.Chance(75) {
		// mostly well-behaved producers so streams span several responses
		n := r.Range(1, 8)
		ticks := make([]string, n)
		for i := range ticks {
			if r.Chance(85) {
				t := genEmit(r, false, r.Chance(20))
				if r.Chance(35) {
					t = fmt.Sprintf("l%d;", r.Intn(50)) + t
				}
				if r.Chance(15) {
					t += fmt.Sprintf(";l%d", r.Intn(50))
				}
				ticks[i] = t
			} else {
				ticks[i] = genTick(r, false, false)
			}
		}
		prog = strings.Join(ticks, "/")
	}
	route := ""
	for i := r.Range(1, 6); i > 0; i-- {
		route += fmt.Sprint(r.Intn(3))
	}
	inputs := "-"
	if kind == "ex" {
		ik := Pick(r, []string{"s", "s", "s", "c", "c", "b"})
		var ins []string
		for i := r.Range(0, 6); i > 0; i-- {
			if r.Chance(8) {
				ins = append(ins, "x")
				break
			}
			in := ik + ":" + genVals(r, 3)
			if r.Chance(40) { // the client's own metadata on the input batch (sorted, unique, no transport keys)
				set := map[string]string{}
				for j := r.Range(1, 3); j > 0; j-- {
					set[Pick(r, []string{"if_none_match", "k", "a", "b", "vgi_pushdown_filters", "ключ", "vgi_rpc.cancel2", "zz"})] = Pick(r, metaValues)
				}
				ks := make([]string, 0, len(set))
				for k := range set {
					ks = append(ks, k)
				}
				sort.Strings(ks)
				ps := make([]string, len(ks))
				for j, k := range ks {
					ps[j] = hx(k) + "=" + hx(set[k])
				}
				in += ":" + strings.Join(ps, ";")
			}
			ins = append(ins, in)
		}
		if len(ins) > 0 {
			inputs = strings.Join(ins, ",")
		}
	}
	// serialized state size: mostly tiny, sometimes ballast around the token codec's internal bounds
	pad := ""
	if r.Chance(14) {
		n := Pick(r, []int{1, 1 << 10, 63 << 10, 64<<10 - 1, 64 << 10, 64<<10 + 1, 65 << 10, 96 << 10, 200 << 10})
		if r.Chance(6) {
			n = 1 << 20
		}
		pad = " " + Pick(r, []string{"z", "z", "r"}) + fmt.Sprint(n)
	}
	state := kind
	if method == "dyn" && kind == "pr" && r.Chance(55) {
		// the dynamic init returns a state whose TYPE has both Produce and Exchange: still a producer,
		// on /init, on every continuation and over the pipe alike
		state = Pick(r, []string{"pr+", "ex+"})
	}
	return fmt.Sprintf("run %s %s %s %d %s %d %s %s %s%s", method, state, hdr, ilogs, iout, decl, prog, route, inputs, pad)
}

// c11GenExhaustive (thorough): every method x declared x input kind x a few cycle shapes, for every
// batch limit 0..3 and cache/compression setting, two instances with alternating routing.
func c11GenExhaustive(g *Gen) {
	progs := map[string][]string{
		"ex": {"e1:i1:", "l1;e1:i0:" + hx("k") + "=" + hx("v") + ";l2/e1:c7:", "e1:i0:/r3", "_", "e1:i0:/p2"},
		"pr": {"e1:c1:/e1:c2:/e1:c3:", "l1;e1:c1:/e1:c2:;l2/e1:c3:;f1", "e1:c1:/r3/e1:c2:", "-", "e1:c1:/_"},
	}
	for limit := 0; limit <= 3; limit++ {
		for _, cache := range []int{0, 1} {
			for _, comp := range []int{0, 1} {
				cfg := fmt.Sprintf("cfg limit=%d cache=%d inst=2 comp=%d", limit, cache, comp)
				var lines []string
				for _, m := range []string{"ex", "exh", "pr", "prh", "dyn"} {
					kinds := []string{"ex"}
					if m == "pr" || m == "prh" {
						kinds = []string{"pr"}
					} else if m == "dyn" {
						kinds = []string{"ex", "pr"}
					}
					for _, k := range kinds {
						for _, p := range progs[k] {
							if k == "pr" {
								lines = append(lines, fmt.Sprintf("run %s pr 5 1 ok 0 %s 01 -", m, p))
								if m == "dyn" {
									lines = append(lines, fmt.Sprintf("run dyn pr+ 5 1 ok 0 %s 01 -", p), fmt.Sprintf("run dyn ex+ 5 1 ok 0 %s 01 -", p))
								}
								continue
							}
							for _, ik := range []string{"s", "c", "b"} {
								for decl := 0; decl <= 1; decl++ {
									lines = append(lines, fmt.Sprintf("run %s ex 5 1 ok %d %s 01 %s:c1.2,%s:c3", m, decl, p, ik, ik))
								}
							}
						}
					}
				}
				g.Case(append([]string{cfg}, lines...)...)
			}
		}
	}
}
