package main

// C38, real HTTP histories: a real vgirpc.HttpServer with the AccessLogHook installed (behind a
// tee that records the DispatchInfo / statistics / error the framework really hands to the hook),
// driven by the repo's own HttpClient through an in-process RoundTripper that sees every request
// and response body as it crosses the "wire".
//
//	http <debug> <ver> <auth> <trace> <red> <compress 0|1> <chunked 0|1>
//	un <ok|rpc|go> <rid|->                  unary call (rid: X-Request-ID header sent)
//	px <n> <errat|-1> <cancelafter|-1>      producer stream, one batch per response
//	ex <turns> <errat|-1>                   exchange stream
//	dx <turns> <errat|-1>                   DYNAMIC exchange stream declaring its input schema at run time
//	dp <n> <errat|-1>                       DYNAMIC producer stream
//	conc <n> <s|p>                          n overlapping unary calls held at a barrier (s: one P, staggered; p: parallel)
//	(http … [<-|c<entries>>]                optional 9th token: call-state cache size, c0 = off)
//	fault <b<k>|w<i>z|w<i>h|w<i>l|->        from now on the connection under the server accepts only part of each
//	                                        response body, then fails the write (see c38FaultWriter); - = healthy again

import (
	"bytes"
	"context"
	"errors"
	"fmt"
	"io"
	"net/http"
	"net/http/httptest"
	"encoding/base64"
	"runtime"
	"strconv"
	"strings"
	"sync"
	"time"

	"github.com/Query-farm/vgi-rpc-go/vgirpc"
	"github.com/apache/arrow-go/v18/arrow"
	"github.com/apache/arrow-go/v18/arrow/array"
	"github.com/apache/arrow-go/v18/arrow/ipc"
	"github.com/apache/arrow-go/v18/arrow/memory"
)

func init() {
	vgirpc.RegisterStateType(&C38Prod{})
	vgirpc.RegisterStateType(&C38Exch{})
}

type c38Params struct {
	Plan string `vgirpc:"plan"`
}

// C38Prod is the producer state (serialized into the continuation token between turns).
type C38Prod struct {
	N, ErrAt, I int
}

// C38Exch is the exchange state.
type C38Exch struct {
	ErrAt, N int
}

// c38Hdr is the stream header of the dynamic methods (DynamicStreamWithHeader requires one).
type c38Hdr struct {
	Label string `arrow:"label"`
}

func (c38Hdr) ArrowSchema() *arrow.Schema {
	return arrow.NewSchema([]arrow.Field{{Name: "label", Type: arrow.BinaryTypes.String}}, nil)
}

var c38Cur *c38HTTP

var c38Schema = arrow.NewSchema([]arrow.Field{{Name: "v", Type: arrow.PrimitiveTypes.Int64, Nullable: true}}, nil)

func c38Batch(vals ...int64) arrow.RecordBatch {
	b := array.NewInt64Builder(memory.DefaultAllocator)
	defer b.Release()
	b.AppendValues(vals, nil)
	arr := b.NewArray()
	defer arr.Release()
	return array.NewRecordBatch(c38Schema, []arrow.Array{arr}, int64(len(vals)))
}

func (s *C38Prod) Produce(_ context.Context, out *vgirpc.OutputCollector, _ *vgirpc.CallContext) error {
	if s.ErrAt == s.I {
		c38Cur.raised = true
		return &vgirpc.RpcError{Type: "RuntimeError", Message: fmt.Sprintf("produce-%d", s.I)}
	}
	if s.I >= s.N {
		return out.Finish()
	}
	s.I++
	return out.Emit(c38Batch(int64(s.I), int64(s.I*10)))
}

func (s *C38Exch) Exchange(_ context.Context, input arrow.RecordBatch, out *vgirpc.OutputCollector, _ *vgirpc.CallContext) error {
	if s.ErrAt == s.N {
		c38Cur.raised = true
		return errors.New("exchange-failed")
	}
	s.N++
	return out.Emit(c38Batch(int64(s.N) + input.NumRows()))
}

func c38Plan(p string) map[string]int {
	m := map[string]int{}
	for _, kv := range strings.Split(p, ";") {
		if i := strings.IndexByte(kv, '='); i > 0 {
			n, _ := strconv.Atoi(kv[i+1:])
			m[kv[:i]] = n
		}
	}
	return m
}

// ---------------------------------------------------------------- tee hook

type c38Cap struct {
	info       vgirpc.DispatchInfo
	stats      *vgirpc.CallStatistics
	err        error
	hasEgress  bool
	egressRID  string
	egressReq  int64
	egressExt  int64
}

type c38Tee struct {
	inner *vgirpc.AccessLogHook
	mu    sync.Mutex
	caps  []c38Cap
}

func (t *c38Tee) OnDispatchStart(ctx context.Context, info vgirpc.DispatchInfo) (context.Context, vgirpc.HookToken) {
	return t.inner.OnDispatchStart(ctx, info)
}

func (t *c38Tee) OnDispatchEnd(ctx context.Context, tok vgirpc.HookToken, info vgirpc.DispatchInfo, stats *vgirpc.CallStatistics, err error) {
	cp := c38Cap{info: info, err: err}
	if stats != nil {
		s := *stats
		cp.stats = &s
	}
	cp.egressRID, cp.egressReq, cp.egressExt, cp.hasEgress = vgirpc.VerifC38Egress(ctx)
	t.mu.Lock()
	t.caps = append(t.caps, cp)
	t.mu.Unlock()
	t.inner.OnDispatchEnd(ctx, tok, info, stats, err)
}

// ---------------------------------------------------------------- environment

type c38HTTP struct {
	c        *Case
	srv      *vgirpc.Server
	hs       *vgirpc.HttpServer
	client   *vgirpc.HttpClient
	buf      *c38Buf
	tee      *c38Tee
	params   *arrow.Schema
	debug    string
	ver      string
	traceTok string
	redTok   string
	chunked  bool
	raised   bool
	nextRID  string
	label    int            // current stream label
	sealed   map[int]string // label -> stream id of its first record
	line     string
	lines    int
	arrived  chan struct{} // overlapping calls: a handler reached the barrier
	release  chan struct{} // …and may return
	fault    string // connection fault applied to every response until changed ("" = none)
	cut      bool   // the last response was cut by the fault
}

// c38FaultWriter is the connection under the real server: it accepts response-body bytes until the
// fault strikes, then reports a short write with an error (peer disconnect / broken pipe mid-body)
// and refuses everything afterwards. What it accepted is what crossed the wire.
//
//	b<k>    the connection accepts k body bytes in total
//	w<i>z   the i-th Write call (0-based) is refused entirely      (k = 0 of that write)
//	w<i>h   the i-th Write call is cut in the middle
//	w<i>l   the i-th Write call loses its last byte
type c38FaultWriter struct {
	rec      *httptest.ResponseRecorder
	spec     string
	writes   int
	dead     bool
	accepted int64
}

var errC38Pipe = errors.New("write: broken pipe")

func (w *c38FaultWriter) Header() http.Header  { return w.rec.Header() }
func (w *c38FaultWriter) WriteHeader(code int) { w.rec.WriteHeader(code) }
func (w *c38FaultWriter) Flush()               { w.rec.Flush() }

func (w *c38FaultWriter) Write(b []byte) (int, error) {
	if w.dead {
		return 0, errC38Pipe
	}
	idx := w.writes
	w.writes++
	allow := len(b)
	switch {
	case w.spec == "":
	case w.spec[0] == 'b':
		budget, _ := strconv.ParseInt(w.spec[1:], 10, 64)
		if left := budget - w.accepted; left < int64(allow) {
			allow = int(max(left, 0))
		}
	case w.spec[0] == 'w' && len(w.spec) >= 3:
		i, _ := strconv.Atoi(w.spec[1 : len(w.spec)-1])
		if i == idx {
			switch w.spec[len(w.spec)-1] {
			case 'z':
				allow = 0
			case 'h':
				allow = len(b) / 2
			case 'l':
				allow = max(len(b)-1, 0)
			}
		}
	}
	if allow > 0 {
		w.rec.Write(b[:allow])
		w.accepted += int64(allow)
	}
	if allow < len(b) {
		w.dead = true
		return allow, errC38Pipe
	}
	return allow, nil
}

func c38NewHTTP(c *Case, l string, f []string) *c38HTTP {
	if len(f) != 8 && len(f) != 9 {
		c.Out(l, "bad-op")
		return nil
	}
	ver, ok := UnX(f[2])
	if !ok {
		c.Out(l, "bad-op")
		return nil
	}
	h := &c38HTTP{c: c, debug: f[1], ver: string(ver), traceTok: f[4], redTok: f[5], chunked: f[7] == "1", sealed: map[int]string{}, buf: &c38Buf{}}
	var auth *vgirpc.AuthContext
	if f[3] != "nil" {
		p := strings.Split(f[3], ":")
		if len(p) != 5 || p[0] != "a" {
			c.Out(l, "bad-op")
			return nil
		}
		pr, _ := UnX(p[1])
		dm, _ := UnX(p[2])
		cs, okc := c38ParseClaims(p[4])
		if !okc {
			c.Out(l, "bad-op")
			return nil
		}
		auth = &vgirpc.AuthContext{Principal: string(pr), Domain: string(dm), Authenticated: p[3] == "1", Claims: c38ClaimMap(cs)}
	}
	srv := vgirpc.NewServer()
	srv.SetServiceName("C38Service")
	vgirpc.Unary(srv, "un", func(_ context.Context, _ *vgirpc.CallContext, p c38Params) (int64, error) {
		switch p.Plan {
		case "rpc":
			c38Cur.raised = true
			return 0, &vgirpc.RpcError{Type: "ValueError", Message: "unary refused"}
		case "go":
			c38Cur.raised = true
			return 0, errors.New("plain failure")
		}
		return 42, nil
	})
	vgirpc.Producer(srv, "px", c38Schema, func(_ context.Context, _ *vgirpc.CallContext, p c38Params) (*vgirpc.StreamResult, error) {
		pl := c38Plan(p.Plan)
		if pl["initerr"] == 1 {
			c38Cur.raised = true
			return nil, &vgirpc.RpcError{Type: "ValueError", Message: "init refused"}
		}
		return &vgirpc.StreamResult{OutputSchema: c38Schema, State: &C38Prod{N: pl["n"], ErrAt: pl["errat"]}}, nil
	})
	vgirpc.Exchange(srv, "ex", c38Schema, c38Schema, func(_ context.Context, _ *vgirpc.CallContext, p c38Params) (*vgirpc.StreamResult, error) {
		pl := c38Plan(p.Plan)
		return &vgirpc.StreamResult{OutputSchema: c38Schema, InputSchema: c38Schema, State: &C38Exch{ErrAt: pl["errat"]}}, nil
	})
	// dynamic streams: the state type and BOTH schemas are only known at run time
	vgirpc.DynamicStreamWithHeader(srv, "dx", c38Hdr{}.ArrowSchema(), func(_ context.Context, _ *vgirpc.CallContext, p c38Params) (*vgirpc.StreamResult, error) {
		pl := c38Plan(p.Plan)
		return &vgirpc.StreamResult{OutputSchema: c38Schema, InputSchema: c38Schema, State: &C38Exch{ErrAt: pl["errat"]}, Header: c38Hdr{Label: "dx"}}, nil
	})
	vgirpc.DynamicStreamWithHeader(srv, "dp", c38Hdr{}.ArrowSchema(), func(_ context.Context, _ *vgirpc.CallContext, p c38Params) (*vgirpc.StreamResult, error) {
		pl := c38Plan(p.Plan)
		return &vgirpc.StreamResult{OutputSchema: c38Schema, State: &C38Prod{N: pl["n"], ErrAt: pl["errat"]}, Header: c38Hdr{Label: "dp"}}, nil
	})
	// a unary method whose handler waits at a barrier (overlapping calls)
	vgirpc.Unary(srv, "hold", func(_ context.Context, _ *vgirpc.CallContext, p c38Params) (int64, error) {
		cur := c38Cur
		if cur != nil && cur.arrived != nil {
			cur.arrived <- struct{}{}
			select {
			case <-cur.release:
			case <-time.After(5 * time.Second):
			}
		}
		return int64(len(p.Plan)), nil
	})
	hook := vgirpc.NewAccessLogHook(h.buf, h.ver)
	hook.SetDebug(h.debug == "1")
	h.tee = &c38Tee{inner: hook}
	srv.SetDispatchHook(h.tee)
	h.srv = srv
	h.hs = vgirpc.NewHttpServer(srv)
	h.hs.SetProducerBatchLimit(1)
	if f[6] == "0" {
		h.hs.SetCompressionLevel(0)
	}
	if len(f) == 9 && strings.HasPrefix(f[8], "c") {
		// call-state cache size (0 = off: every continuation reopens the call token)
		n, _ := strconv.Atoi(f[8][1:])
		h.hs.SetCallStateCacheEntries(n)
		c.Stat("http-cache-" + f[8])
	}
	if auth != nil {
		a := auth
		h.hs.SetAuthenticate(func(*http.Request) (*vgirpc.AuthContext, error) { return a, nil })
	}
	h.params = vgirpc.VerifC38ParamsSchema(srv, "un")
	cl, err := vgirpc.NewHttpClient("http://c38.test", vgirpc.WithClientHTTPClient(&http.Client{Transport: h}))
	if err != nil {
		panic(err)
	}
	h.client = cl
	if !c38InstallTrace(h.traceTok) {
		c.Out(l, "bad-op")
		return nil
	}
	// the redactor is installed per record-producing request (the verbatim policy's model token
	// depends on the claims), here only validated
	if _, _, ok := c38InstallRedactor(h.redTok, func() string { return "-" }); !ok {
		c.Out(l, "bad-op")
		return nil
	}
	c38Cur = h
	c.Stat("http-server")
	c.Out("http", "ok")
	return h
}

func (h *c38HTTP) close() {
	if h != nil && h.client != nil {
		h.client.Close()
	}
}

func (h *c38HTTP) paramsBatch(plan string) arrow.RecordBatch {
	b := array.NewStringBuilder(memory.DefaultAllocator)
	defer b.Release()
	b.Append(plan)
	arr := b.NewArray()
	defer arr.Release()
	return array.NewRecordBatch(h.params, []arrow.Array{arr}, 1)
}

// RoundTrip serves the request in process and compares every access-log record it produced.
func (h *c38HTTP) RoundTrip(req *http.Request) (*http.Response, error) {
	var body []byte
	if req.Body != nil {
		body, _ = io.ReadAll(req.Body)
		req.Body.Close()
	}
	sreq := req.Clone(req.Context())
	sreq.Body = io.NopCloser(bytes.NewReader(body))
	sreq.ContentLength = int64(len(body))
	declared := int64(len(body))
	if h.chunked {
		sreq.ContentLength = -1
		sreq.TransferEncoding = []string{"chunked"}
		declared = 0
	}
	sreq.RequestURI = req.URL.RequestURI()
	sreq.RemoteAddr = "192.0.2.7:4242"
	if h.nextRID != "" {
		sreq.Header.Set("X-Request-ID", h.nextRID)
	}
	capsBefore := len(h.tee.caps)
	linesBefore := len(h.buf.chunks)
	h.raised = false
	redModel, redKind, _ := c38InstallRedactor(h.redTok, func() string { return "-" })
	rec := httptest.NewRecorder()
	fw := &c38FaultWriter{rec: rec, spec: h.fault}
	h.hs.ServeHTTP(fw, sreq)
	vgirpc.SetClaimRedactor(nil)
	// the reference: the body bytes the connection really accepted
	respLen := int64(rec.Body.Len())
	if fw.accepted != respLen {
		panic("c38: fault writer accounting is inconsistent")
	}
	h.cut = fw.dead
	if fw.dead {
		h.c.Stat("http-response-cut")
	}
	caps := h.tee.caps[capsBefore:]
	lines := h.buf.chunks[linesBefore:]
	path := req.URL.Path
	isInit := strings.HasSuffix(path, "/init")
	isCont := strings.HasSuffix(path, "/exchange")
	if isInit {
		h.label++
	}
	if len(caps) != len(lines) {
		h.c.Oracle("record-count-mismatch", fmt.Sprintf("%s %s: %d dispatch ends but %d records written", h.line, path, len(caps), len(lines)))
	}
	for i := 0; i < len(caps) && i < len(lines); i++ {
		h.compare(caps[i], lines[i], path, isInit, isCont, declared, respLen, rec, redModel, redKind)
	}
	return &http.Response{
		Status:        fmt.Sprintf("%d %s", rec.Code, http.StatusText(rec.Code)),
		StatusCode:    rec.Code,
		Proto:         "HTTP/1.1",
		ProtoMajor:    1,
		ProtoMinor:    1,
		Header:        rec.Header().Clone(),
		Body:          io.NopCloser(bytes.NewReader(rec.Body.Bytes())),
		ContentLength: respLen,
		Request:       req,
	}, nil
}

func (h *c38HTTP) compare(cp c38Cap, raw []byte, path string, isInit, isCont bool, declared, respLen int64, rec *httptest.ResponseRecorder, redModel, redKind string) {
	c := h.c
	info := cp.info
	authTok := "nil"
	var claimsIn map[string]any
	if info.Auth != nil {
		claimsIn = info.Auth.Claims
		a := "0"
		if info.Auth.Authenticated {
			a = "1"
		}
		authTok = fmt.Sprintf("a:%s:%s:%s:%s", XS(info.Auth.Principal), XS(info.Auth.Domain), a, c38ClaimsTok(claimsIn))
	}
	if h.redTok == "verbatim" {
		redModel = "c:" + c38ClaimsTok(claimsIn)
	}
	errTok := "nil"
	if cp.err != nil {
		var re *vgirpc.RpcError
		if r, ok := cp.err.(*vgirpc.RpcError); ok {
			re = r
			errTok = "r:" + XS(re.Type) + ":" + XS(re.Message)
		} else {
			errTok = "p:" + XS(cp.err.Error())
		}
	}
	statsTok := "nil"
	if s := cp.stats; s != nil {
		statsTok = fmt.Sprintf("%d,%d,%d,%d,%d,%d", s.InputBatches, s.OutputBatches, s.InputRows, s.OutputRows, s.InputBytes, s.OutputBytes)
	}
	// what crossed the wire, as the harness's own transport saw it
	egressTok := "nil"
	if cp.hasEgress {
		egressTok = fmt.Sprintf("%s,%d,%d,%d", XS(rec.Header().Get("X-Request-ID")), declared, cp.egressExt, respLen)
	} else {
		c.Oracle("http-record-without-recorder", fmt.Sprintf("%s %s: dispatch over HTTP ran without an egress recorder", h.line, path))
	}
	streamTok := XS(info.StreamID)
	if info.MethodType == vgirpc.DispatchMethodStream {
		switch {
		case isInit:
			streamTok = fmt.Sprintf("i%d:%s", h.label, XS(info.StreamID))
		case isCont:
			streamTok = fmt.Sprintf("c%d", h.label)
		}
	}
	canon, m, perr := c38Canon(raw)
	if perr != nil {
		c.Oracle("not-one-json-line", fmt.Sprintf("%s %s: record does not parse: %v", h.line, path, perr))
		canon = "unparsable"
		m = map[string]any{}
	}
	mint := "x"
	if info.MethodType == vgirpc.DispatchMethodStream && info.StreamID == "" {
		if sid, _ := m["stream_id"].(string); c38Hex32.MatchString(sid) {
			mint = "x" + sid
		}
	}
	cancelled := "0"
	if info.Cancelled {
		cancelled = "1"
	}
	model := fmt.Sprintf("rec %s %s %s %s %s %s %s %s %s %s %d %s %s %s %s %s %s %s %s %s",
		h.debug, XS(h.ver), XS(info.Protocol), XS(info.Method), XS(info.MethodType), XS(info.ServerID), XS(info.ProtocolHash),
		XS(info.RequestID), authTok, XS(info.RemoteAddr), info.HTTPStatus, X(info.RequestData), streamTok, cancelled,
		errTok, statsTok, egressTok, h.traceTok, redModel, mint)
	if perr == nil {
		carriesPayload := info.MethodType == vgirpc.DispatchMethodUnary || isInit
		c38Oracles(c, raw, m, c38Expect{streamFromFramework: true, hasPayload: carriesPayload, payload: info.RequestData,
			claimsIn: claimsIn, redactor: redKind, where: h.line + " " + path})
		// stream id identical across init and continuations
		if info.MethodType == vgirpc.DispatchMethodStream {
			sid, _ := m["stream_id"].(string)
			if first, ok := h.sealed[h.label]; ok {
				if sid != first {
					c.Oracle("stream-id-changed", fmt.Sprintf("%s %s: stream_id %q differs from the stream's first record %q", h.line, path, sid, first))
				}
			} else {
				h.sealed[h.label] = sid
			}
		}
		// byte counts equal what crossed the wire
		if c38ValTok(m["request_bytes"]) != fmt.Sprintf("i%d", declared) {
			c.Oracle("bytes-mismatch", fmt.Sprintf("%s %s: request_bytes=%v, the client sent a declared body of %d bytes", h.line, path, m["request_bytes"], declared))
		}
		if c38ValTok(m["response_bytes"]) != fmt.Sprintf("i%d", respLen) {
			if h.cut {
				c.Oracle("response-bytes-not-on-wire", fmt.Sprintf("%s %s (connection fault %s): response_bytes=%v, but the peer accepted only %d body bytes before the write failed", h.line, path, h.fault, m["response_bytes"], respLen))
			} else {
				c.Oracle("bytes-mismatch", fmt.Sprintf("%s %s: response_bytes=%v, %d body bytes crossed the wire", h.line, path, m["response_bytes"], respLen))
			}
		}
		// describes the call
		wantMethod := strings.Split(strings.TrimPrefix(path, "/"), "/")[0]
		if m["method"] != wantMethod {
			c.Oracle("describes-call-mismatch", fmt.Sprintf("%s %s: record names method %v", h.line, path, m["method"]))
		}
		if (m["status"] == "error") != h.raised {
			c.Oracle("describes-call-mismatch", fmt.Sprintf("%s %s: handler failed=%v but status=%v", h.line, path, h.raised, m["status"]))
		}
		wantType := vgirpc.DispatchMethodStream
		if wantMethod == "un" || wantMethod == "hold" {
			wantType = vgirpc.DispatchMethodUnary
		}
		if m["method_type"] != wantType {
			c.Oracle("describes-call-mismatch", fmt.Sprintf("%s %s: method_type=%v", h.line, path, m["method_type"]))
		}
		if h.nextRID != "" && info.RequestID == "" && m["request_id"] != h.nextRID {
			c.Oracle("describes-call-mismatch", fmt.Sprintf("%s %s: caller sent X-Request-ID %q, record has request_id=%v", h.line, path, h.nextRID, m["request_id"]))
		}
	}
	kind := "unary"
	if isInit {
		kind = "init"
	} else if isCont {
		kind = "continuation"
	}
	c.Stat("http-record-" + kind)
	if info.Cancelled {
		c.Stat("http-record-cancelled")
	}
	c.Out(model, canon)
}

func (h *c38HTTP) call(l string, f []string) {
	c := h.c
	h.line = l
	ctx := context.Background()
	before := len(h.buf.chunks)
	switch f[0] {
	case "fault":
		h.fault = ""
		if len(f) == 2 && f[1] != "-" {
			h.fault = f[1]
		}
		return
	case "conc":
		h.concurrent(l, f)
		return
	case "dx":
		if len(f) != 3 {
			c.Out(l, "bad-op")
			return
		}
		turns, _ := strconv.Atoi(f[1])
		errAt, _ := strconv.Atoi(f[2])
		p := h.paramsBatch(fmt.Sprintf("errat=%d", errAt))
		st, err := h.client.OpenExchange(ctx, "dx", p, vgirpc.ClientStreamSchema{Input: c38Schema, Output: c38Schema, Header: c38Hdr{}.ArrowSchema()})
		p.Release()
		if err == nil {
			for i := 0; i < turns; i++ {
				in := c38Batch(int64(i))
				b, err := st.Exchange(ctx, in)
				in.Release()
				if err != nil {
					break
				}
				b.Release()
			}
			st.Close()
		}
	case "dp":
		if len(f) != 3 {
			c.Out(l, "bad-op")
			return
		}
		n, _ := strconv.Atoi(f[1])
		errAt, _ := strconv.Atoi(f[2])
		p := h.paramsBatch(fmt.Sprintf("n=%d;errat=%d", n, errAt))
		st, err := h.client.OpenProducer(ctx, "dp", p, vgirpc.ClientStreamSchema{Output: c38Schema, Header: c38Hdr{}.ArrowSchema()})
		p.Release()
		if err == nil {
			for i := 0; i < 50; i++ {
				b, ok, err := st.Next(ctx)
				if err != nil || !ok {
					break
				}
				b.Release()
			}
			st.Close()
		}
	case "un":
		if len(f) != 3 {
			c.Out(l, "bad-op")
			return
		}
		h.nextRID = ""
		if f[2] != "-" {
			h.nextRID = f[2]
		}
		p := h.paramsBatch(f[1])
		b, err := h.client.CallUnary(ctx, "un", p, nil)
		p.Release()
		if err == nil {
			b.Release()
		}
		h.nextRID = ""
	case "px":
		if len(f) != 4 {
			c.Out(l, "bad-op")
			return
		}
		n, _ := strconv.Atoi(f[1])
		errAt, _ := strconv.Atoi(f[2])
		cancelAfter, _ := strconv.Atoi(f[3])
		plan := fmt.Sprintf("n=%d;errat=%d", n, errAt)
		if errAt == -2 {
			plan = "initerr=1"
		}
		p := h.paramsBatch(plan)
		st, err := h.client.OpenProducer(ctx, "px", p, vgirpc.ClientStreamSchema{Output: c38Schema})
		p.Release()
		if err == nil {
			for i := 0; ; i++ {
				if cancelAfter >= 0 && i == cancelAfter {
					_ = st.Cancel(ctx)
					break
				}
				b, ok, err := st.Next(ctx)
				if err != nil || !ok {
					break
				}
				b.Release()
				if i > 50 {
					break
				}
			}
			st.Close()
		}
	case "ex":
		if len(f) != 3 {
			c.Out(l, "bad-op")
			return
		}
		turns, _ := strconv.Atoi(f[1])
		errAt, _ := strconv.Atoi(f[2])
		p := h.paramsBatch(fmt.Sprintf("errat=%d", errAt))
		st, err := h.client.OpenExchange(ctx, "ex", p, vgirpc.ClientStreamSchema{Input: c38Schema, Output: c38Schema})
		p.Release()
		if err == nil {
			for i := 0; i < turns; i++ {
				in := c38Batch(int64(i))
				b, err := st.Exchange(ctx, in)
				in.Release()
				if err != nil {
					break
				}
				b.Release()
			}
			st.Close()
		}
	}
	if len(h.buf.chunks) == before && f[0] != "fault" && f[0] != "conc" {
		c.Oracle("call-without-record", fmt.Sprintf("%s produced no access-log record", l))
	}
}

// ---------------------------------------------------------------- generator

func c38GenHTTP(g *Gen) {
	r := g.Rng
	for i, n := 0, g.N(120, 1500); i < n; i++ {
		auth := "nil"
		if r.Chance(60) {
			auth = fmt.Sprintf("a:%s:%s:%d:%s", XS(Pick(r, []string{"alice", "svc-1", ""})), XS(Pick(r, []string{"bearer", "jwt"})), r.Intn(2), c38Claims(r, 0, 6))
		}
		red := Pick(r, []string{"default", "default", "default", "panic", "verbatim", "c:" + c38Claims(r, 0, 3)})
		debug := r.Intn(2)
		lines := []string{fmt.Sprintf("http %d %s %s %s %s %d %d %s", debug, XS(Pick(r, []string{"", "2.0.1"})), auth, c38TraceTok(r), red,
			Pick(r, []int{1, 1, 0}), Pick(r, []int{0, 0, 0, 1}), Pick(r, []string{"-", "-", "c0", "c1", "c64"}))}
		if debug == 1 && r.Chance(60) || r.Chance(10) {
			lines = append(lines, fmt.Sprintf("conc %d %s", r.Range(8, 16), Pick(r, []string{"s", "s", "p"})))
		}
		for k, m := 0, r.Range(1, 5); k < m; k++ {
			if r.Chance(30) {
				lines = append(lines, "fault "+Pick(r, []string{"w0z", "w0h", "w0l", "w0l", "w1z", "w1h", "w1l", "w2h", "b0", "b1", "b17", "b135", "b136", "b200", "b295", "b296", "b1000", "-", "-"}))
			}
			switch r.Intn(5) {
			case 3:
				lines = append(lines, fmt.Sprintf("dx %d %d", r.Range(0, 6), Pick(r, []int{-1, -1, -1, 0, 2, 4})))
			case 4:
				lines = append(lines, fmt.Sprintf("dp %d %d", r.Range(0, 5), Pick(r, []int{-1, -1, -1, 0, 2})))
			case 0:
				lines = append(lines, fmt.Sprintf("un %s %s", Pick(r, []string{"ok", "ok", "rpc", "go"}), Pick(r, []string{"-", "-", "req-abc", "0123456789abcdef"})))
			case 1:
				n := r.Range(0, 4)
				lines = append(lines, fmt.Sprintf("px %d %d %d", n, Pick(r, []int{-1, -1, -1, 0, 1, 2, -2}), Pick(r, []int{-1, -1, -1, 0, 1, 2})))
			default:
				lines = append(lines, fmt.Sprintf("ex %d %d", r.Range(0, 4), Pick(r, []int{-1, -1, 0, 1, 2})))
			}
		}
		g.Case(lines...)
	}
}


// concurrent: n overlapping unary calls with distinct payloads. Each handler is held at a barrier
// until every call has been dispatched (so every request payload has been captured before any record
// is assembled), then all return. Mode "s" runs the schedule on a single P with staggered starts
// (the next call starts once the previous handler waits), mode "p" starts all calls in parallel.
// Every record — identified by the X-Request-ID the caller sent — must carry ITS OWN request payload.
// This is a schedule search: it shows overlap bugs on the schedules it runs, it proves nothing.
func (h *c38HTTP) concurrent(l string, f []string) {
	c := h.c
	if len(f) != 3 {
		c.Out(l, "bad-op")
		return
	}
	n, _ := strconv.Atoi(f[1])
	if n < 1 || n > 32 {
		c.Out(l, "bad-op")
		return
	}
	single := f[2] == "s"
	h.line = l
	if single {
		defer runtime.GOMAXPROCS(runtime.GOMAXPROCS(1))
	}
	h.arrived, h.release = make(chan struct{}, n), make(chan struct{})
	redModel, redKind, _ := c38InstallRedactor(h.redTok, func() string { return "-" })
	capsBefore, linesBefore := len(h.tee.caps), len(h.buf.chunks)
	type result struct {
		rec      *httptest.ResponseRecorder
		declared int64
	}
	results := make([]result, n)
	plans := make([]string, n)
	var wg sync.WaitGroup
	for i := 0; i < n; i++ {
		// same length for half of the payloads (an overwritten buffer still parses), growing for the rest
		plans[i] = fmt.Sprintf("payload-%02d", i)
		if i%2 == 1 {
			plans[i] += strings.Repeat("x", i)
		}
		p := h.paramsBatch(plans[i])
		var body bytes.Buffer
		if err := vgirpc.WriteRequest(&body, "hold", p, ""); err != nil {
			panic(err)
		}
		p.Release()
		req := httptest.NewRequest(http.MethodPost, "http://c38.test/hold", bytes.NewReader(body.Bytes()))
		req.Header.Set("Content-Type", "application/vnd.apache.arrow.stream")
		req.Header.Set("X-Request-ID", fmt.Sprintf("conc-%02d", i))
		req.RemoteAddr = "192.0.2.7:4242"
		results[i] = result{rec: httptest.NewRecorder(), declared: int64(body.Len())}
		wg.Add(1)
		go func(i int, req *http.Request) {
			defer wg.Done()
			h.hs.ServeHTTP(results[i].rec, req)
		}(i, req)
		if single {
			select {
			case <-h.arrived:
			case <-time.After(3 * time.Second):
			}
		}
	}
	if !single {
		for i := 0; i < n; i++ {
			select {
			case <-h.arrived:
			case <-time.After(3 * time.Second):
			}
		}
	}
	close(h.release)
	wg.Wait()
	h.arrived, h.release = nil, nil
	vgirpc.SetClaimRedactor(nil)
	caps := append([]c38Cap(nil), h.tee.caps[capsBefore:]...)
	lines := h.buf.chunks[linesBefore:]
	if len(caps) != n || len(lines) != n {
		c.Oracle("record-count-mismatch", fmt.Sprintf("%s: %d overlapping calls produced %d dispatch ends and %d records", l, n, len(caps), len(lines)))
	}
	byID := map[string][]byte{}
	for _, ln := range lines {
		if _, m, err := c38Canon(ln); err == nil {
			if id, ok := m["request_id"].(string); ok {
				byID[id] = ln
			}
		}
	}
	c.Stat("http-overlapping-calls")
	for i := 0; i < n; i++ {
		id := fmt.Sprintf("conc-%02d", i)
		raw, ok := byID[id]
		if !ok {
			c.Oracle("call-without-record", fmt.Sprintf("%s: no record with request_id %s", l, id))
			continue
		}
		var cp *c38Cap
		for k := range caps {
			if caps[k].egressRID == id {
				cp = &caps[k]
			}
		}
		if cp == nil {
			c.Oracle("record-count-mismatch", fmt.Sprintf("%s: no dispatch end seen for %s", l, id))
			continue
		}
		// the record's payload must be THIS call's request batch
		_, m, _ := c38Canon(raw)
		if rd, has := m["request_data"].(string); has {
			got, why := c38PlanOfRequestData(rd)
			if got != plans[i] {
				c.Oracle("request-data-of-another-call", fmt.Sprintf("%s: the record of call %s (payload %q) carries request_data that decodes to %q %s", l, id, plans[i], got, why))
			}
		}
		h.nextRID, h.raised, h.cut = id, false, false
		h.compare(*cp, raw, "/hold", false, false, results[i].declared, int64(results[i].rec.Body.Len()), results[i].rec, redModel, redKind)
	}
	h.nextRID = ""
}

// c38PlanOfRequestData decodes a record's request_data (base64 of a self-contained IPC stream) and
// returns the "plan" parameter of the request batch it holds.
func c38PlanOfRequestData(rd string) (plan, why string) {
	defer func() {
		if rv := recover(); rv != nil {
			plan, why = "", fmt.Sprintf("(not a readable IPC stream: %v)", rv)
		}
	}()
	raw, err := base64.StdEncoding.DecodeString(rd)
	if err != nil {
		return "", "(not base64)"
	}
	rdr, err := ipc.NewReader(bytes.NewReader(raw))
	if err != nil {
		return "", fmt.Sprintf("(not a readable IPC stream: %v)", err)
	}
	defer rdr.Release()
	if !rdr.Next() {
		return "", "(IPC stream without a batch)"
	}
	rec := rdr.RecordBatch()
	for i, fld := range rec.Schema().Fields() {
		if fld.Name == "plan" {
			if col, ok := rec.Column(i).(*array.String); ok && col.Len() == 1 {
				return col.Value(0), ""
			}
		}
	}
	return "", "(no plan column)"
}
