package main

import (
	"encoding/base64"
	"encoding/hex"
	"fmt"
	"net/url"
	"strings"
)

// Generator for C03. The structured part reuses the call generator of C02 (every call category,
// with its metadata extras), then bends it: unexpected shapes, stray streams, byte mutations.

func c03StripOp(op string) (tag string, streams string) {
	f := strings.SplitN(op, " ", 3)
	return strings.TrimPrefix(strings.TrimPrefix(f[1], "w:"), "i:"), f[2]
}

var c03PN = []c02Field{{"inner", "payload", false}}

var c03Boundary = []string{"", "0", "-0", "+1", "-1", "1", "9223372036854775807", "9223372036854775808", "-9223372036854775808", "-9223372036854775809",
	"18446744073709551615", "18446744073709551616", "99999999999999999999", "999999999999999999999", "1234567890123456789",
	"9999999999999999999999999999999999999999", "1e3", "0x10", " 1", "1 ", "1.5", "NaN", "true", "\xff\xfe", "\x00", strings.Repeat("9", 400),
	strings.Repeat("z", 4000), "EXCEPTION", "1", "2", "٣"}

// c03Unexpected: structurally valid requests with shapes the happy path never sends.
func c03Unexpected(x *c02G) (tag, streams string) {
	r := x.g.Rng
	um := Pick(r, c02Unaries)
	sm := Pick(r, c02StreamsM)
	if r.Chance(25) {
		// boundary VALUES for every protocol metadata key the server reads: numerals of 19/20/21/40
		// digits around 2^63 and 2^64, signs, empty, huge, non-UTF-8
		m := Pick(r, []c02Method{um, sm})
		key := Pick(r, []string{"vgi_rpc.protocol_version", "vgi_rpc.protocol_version", "vgi_rpc.request_version", "vgi_rpc.log_level",
			"vgi_rpc.request_id", "vgi_rpc.method", "vgi_rpc.shm_offset", "vgi_rpc.shm_length", "vgi_rpc.shm_segment_size", "vgi_rpc.shm_segment_name",
			"vgi_rpc.location", "vgi_rpc.location.sha256", "vgi_rpc.cancel", "vgi_rpc.stream_state#b64", "vgi_rpc.call_state#b64", "traceparent"})
		val := Pick(r, c03Boundary)
		if x.pvOn && r.Chance(50) {
			key = "vgi_rpc.protocol_version"
			val = Pick(r, []string{"9223372036854775807", "9223372036854775808", "18446744073709551615", "18446744073709551616",
				"99999999999999999999", "10000000000000000000", "123456789012345678901", "9999999999999999999999999999999999999999"})
		}
		if key == "vgi_rpc.protocol_version" && r.Bool() {
			val = Pick(r, []string{val + ".0.0", "1." + val + ".0", "1.2." + val, val + "." + val + "." + val})
		}
		meta := x.meta(m.name, true)
		if r.Bool() {
			meta = append([][2]string{{key, val}}, meta...) // first: wins for GetValue lookups
		} else {
			meta = append(meta, [2]string{key, val}) // last: wins in the metadata map
		}
		rows := 1
		if strings.HasPrefix(key, "vgi_rpc.shm") || key == "vgi_rpc.location" {
			rows = Pick(r, []int{0, 1})
		}
		s := x.reqStream(m.params, rows, []int64{0, 2, 99}[:len(m.params)], meta)
		if m.kind != "unary" && r.Chance(70) {
			s += " " + x.ticks(r.Intn(3), -1)
		}
		return "boundary-metadata", s
	}
	switch r.Intn(7) {
	case 0, 1: // embedded payload of n1: valid, foreign inner type, garbage, empty, no row
		v := Pick(r, []int64{0, 1, 2, 7, -1, -1, -2, -3, -4, -4})
		return fmt.Sprintf("payload(%d)", v), x.reqStream(c03PN, 1, []int64{v}, x.meta("n1", true))
	case 2: // zero-row pointer batch (location key) with the method's own schema
		m := x.meta(Pick(r, []string{um.name, sm.name, "n1"}), true)
		m = append(m, [2]string{"vgi_rpc.location", Pick(r, []string{"http://x/y", "", "file:///etc/passwd"})})
		cols := um.params
		if r.Bool() {
			cols = sm.params
		}
		s := x.reqStream(cols, Pick(r, []int{0, 0, 2}), nil, m)
		if r.Bool() {
			s += " " + x.ticks(r.Intn(3), -1)
		}
		return "zero-row-location", s
	case 3: // shm keys without / with a log level, segment advertisement that cannot be attached
		m := x.meta(Pick(r, []string{um.name, sm.name}), true)
		m = append(m, [2]string{"vgi_rpc.shm_offset", Pick(r, []string{"0", "-1", "x", "99999999999999999999"})})
		if r.Bool() {
			m = append(m, [2]string{"vgi_rpc.shm_length", Pick(r, []string{"8", "-8", ""})})
		}
		if r.Chance(30) {
			m = append(m, [2]string{"vgi_rpc.log_level", "INFO"})
		}
		if r.Chance(40) {
			m = append(m, [2]string{"vgi_rpc.shm_segment_name", "/verif-no-such-segment"}, [2]string{"vgi_rpc.shm_segment_size", Pick(r, []string{"70000", "1", "x", "-5"})})
		}
		s := x.reqStream(um.params, Pick(r, []int{0, 0, 1}), []int64{0, 1, 2}[:len(um.params)], m)
		if r.Chance(40) {
			s += " " + x.ticks(r.Intn(3), -1)
		}
		return "shm-keys", s
	case 4: // the wrapped `request` column (deserializeParams unwraps a binary column of that name)
		v := Pick(r, []int64{0, 5, -1, -2, -3, -4})
		return "wrapped-request-column", x.reqStream([]c02Field{{"request", "payload", false}}, 1, []int64{v}, x.meta(Pick(r, []string{"u1", "u3", "n1", "p3"}), true))
	case 5: // log level / trace keys on the request, huge request id
		m := x.meta(um.name, true)
		m = append(m, [2]string{"vgi_rpc.log_level", Pick(r, []string{"EXCEPTION", "TRACE", "", "bogus"})},
			[2]string{"vgi_rpc.request_id", strings.Repeat("r", r.Range(0, 3000))})
		return "odd-metadata", x.reqStream(um.params, 1, []int64{3, 1, 3}[:len(um.params)], m)
	default: // 2..5 rows with the right schema, for unary and stream methods
		m := Pick(r, []c02Method{um, sm})
		s := x.reqStream(m.params, Pick(r, []int{2, 5}), []int64{0, 1, 2}[:len(m.params)], x.meta(m.name, true))
		return "many-rows", s
	}
}

func c03FirstMethod(streams string) string {
	// method of the first batch's metadata (first key wins), "" when absent
	key := hex.EncodeToString([]byte("vgi_rpc.method")) + "="
	f := strings.Fields(streams)
	for i, w := range f {
		if w == "B" && i+3 < len(f) {
			for _, kv := range strings.Split(f[i+3], ",") {
				if strings.HasPrefix(kv, key) {
					b, _ := hex.DecodeString(kv[len(key):])
					return string(b)
				}
			}
			return ""
		}
	}
	return ""
}

func c03Gen(g *Gen) {
	r := g.Rng
	n := g.N(2500, 60000)
	for i := 0; i < n; i++ {
		x := &c02G{g: g, pvOn: r.Chance(35)}
		pv := map[bool]string{true: "on", false: "off"}[x.pvOn]
		var tag, streams string
		switch k := r.Intn(10); {
		case k < 5:
			tag, streams = c03StripOp(x.op())
		case k < 6:
			tag, streams = c03StripOp(x.illOp())
		default:
			tag, streams = c03Unexpected(x)
		}
		if r.Chance(35) {
			// widened HTTP family: every route, authenticators installed, hostile headers;
			// genuine-but-foreign tokens; clock histories of the proof gate
			switch k := r.Intn(12); {
			case k < 2:
				g.Case(x.wideSticky()...)
			case k < 4:
				g.Case(x.wideProofHistory()...)
			case k < 7:
				g.Case(x.widePkceCookie())
			default:
				g.Case(x.wideLine())
			}
			continue
		}
		mut := "-"
		if r.Chance(35) {
			mut = c01GenMut(r)
		}
		if r.Chance(45) {
			// a pipe session: this call, sometimes followed / preceded by more streams
			all := streams
			for r.Chance(35) {
				_, more := c03StripOp(x.op())
				if r.Bool() {
					all = all + " " + more
				} else {
					all = more + " " + all
				}
			}
			g.Case(fmt.Sprintf("pipe %s %s %s %s", pv, mut, tag, all))
			continue
		}
		// one HTTP request
		route := Pick(r, []string{"unary", "unary", "init", "init", "exchange"})
		method := c03FirstMethod(streams)
		if r.Chance(70) && route != "exchange" {
			// mostly the route that fits the method's kind
			route = "unary"
			for _, m := range c02StreamsM {
				if m.name == method {
					route = "init"
				}
			}
		}
		switch r.Intn(10) {
		case 0:
			method = Pick(r, []string{"nope", "u3", "p3", "__describe__", "ü", "a/b", "a b", "%41"})
		case 1:
			method = Pick(r, []string{"u3", "p3", "x3", "n1", "d3"})
		}
		if method == "" || method == "." || method == ".." {
			// an empty / dot path segment never reaches the {method} routes (net/http's mux
			// answers itself): outside the modelled handlers
			method = "nomethod"
		}
		ct := Pick(r, []string{"arrow", "arrow", "arrow", "arrow", "arrow", "arrow", "arrow", "arrow", "arrow", "none", "json", "arrowparams"})
		enc := Pick(r, []string{"-", "-", "-", "-", "-", "-", "-", "-", "identity", "br"})
		body := streams
		if route == "exchange" && r.Chance(60) {
			// continuation-shaped bodies: a batch carrying a state token (junk, or a genuine one
			// minted for ANOTHER method), with and without a cancel key
			src := Pick(r, []string{"x3", "xh1", "d3"})
			tok := Pick(r, []string{"@INIT:" + src, "@INIT:" + src, "AAAA", "", "not base64 !!", strings.Repeat("A", 500)})
			kv := c02Hex("vgi_rpc.stream_state#b64") + "=" + c02Hex(tok)
			if r.Chance(25) {
				kv += "," + c02Hex("vgi_rpc.cancel") + "=" + c02Hex("1")
			}
			if r.Chance(25) {
				kv += "," + c02Hex("vgi_rpc.call_state#b64") + "=" + c02Hex(Pick(r, []string{"", "AAAA", "@INIT:" + src}))
			}
			sch := Pick(r, []string{"-", "v:int64:0", "v:utf8:0", "o:int64:0"})
			rows := Pick(r, []int{0, 1, 1, 2})
			body = fmt.Sprintf("S %s B %d %d %s", sch, rows, r.Intn(9), kv)
			method = Pick(r, []string{src, src, "x3", "p3", "ph3", "u3", "nope", "d3"})
			tag = "continuation"
		}
		if r.Chance(4) {
			body = "" // empty body
			tag = "empty-body"
		}
		line := fmt.Sprintf("http %s x%s %s %s %s %s %s body", route, hex.EncodeToString([]byte(method)), ct, enc, pv, mut, tag)
		if body != "" {
			line += " " + body
		}
		g.Case(line)
	}
}

// ---------------------------------------------------------------- widened HTTP family (hx lines)

var c03Cfgs = []string{"plain", "xfcc", "xfcc", "xfccv", "pem", "pemfp", "pemv", "bearer", "bearer", "proof", "chain", "chain"}

// hostile and well-formed values per header
var c03XfccVals = []string{
	`Hash=abc;Subject="CN=alice"`, `By=spiffe://a;Hash=0123;Subject="CN=bob,O=x";URI=spiffe://b;DNS=a.example`,
	`Hash=abc;Subject="CN=alice\`, `Subject="CN=al\"ice"`, `Subject="CN=alice`, `Subject="\`, `"`, `\`, `"\`, `""\`, `Hash=abc\`,
	`Hash=abc;Subject="CN=a\\`, `Hash=%zz;Subject=%`, `;;;`, `,,,`, `=`, `==;=;`, `Hash=a,Hash=b,`, `,Hash=a`, `Hash`, `Subject=CN=x`,
	`Subject="CN=x";Subject="CN=y"`, `URI="a,b;c";Hash="d"`, `Subject="CN=` + "\xff\xfe" + `"`, `Hash=a;Subject="CN=x",Hash=b;Subject="CN=y\`,
	" ", "\t", `Subject="",`, `Subject="CN="`, `Subject=",CN=x"`,
}
var c03AuthVals = []string{"Bearer tok1", "Bearer tok2", "Bearer tok1", "Bearer", "Bearer ", "Bearer  tok1", "bearer tok1", "BEARER tok1",
	"Bearer tok1 extra", "Bearer nope", "Basic dXNlcjpwYXNz", "Basic", "tok1", "Bearer \xff\xfe", "Bearer ", "Negotiate ", ",", "Bearer tok1,Bearer tok2"}
var c03ProofVals = []string{"@PROOF", "@PROOF", "@PROOFREPLAY", "", "v1", "v1.k1", "v1.k1.0.n.sig", "v1.k1.2000000000.nonce.AAAA", "....", "v1.k9.2000000000.n.x",
	"v2.k1.2000000000.n.AAAA", "v1.k1.99999999999999999999.n.AAAA", "v1.k1.-5.n.AAAA", "\xff", "v1.k1.2000000000." + "n" + ".%zz"}
var c03PemVals = []string{"", "x", "%zz", "-----BEGIN%20CERTIFICATE-----%0AAAAA%0A-----END%20CERTIFICATE-----", "-----BEGIN CERTIFICATE-----", "%2D%2D", "%",
	"-----BEGIN%20CERTIFICATE-----%0AMIIB%0A-----END%20CERTIFICATE-----%0A", "-----BEGIN%20PRIVATE%20KEY-----%0AAAAA%0A-----END%20PRIVATE%20KEY-----"}

func (x *c02G) wideHeaders(cfg string) string {
	r := x.g.Rng
	var kv [][2]string
	add := func(k, v string) { kv = append(kv, [2]string{k, v}) }
	noise := func(vals []string) string {
		if r.Chance(12) {
			b := r.Bytes(r.Range(0, 40))
			for i := range b {
				// net/http itself answers 400 to control bytes in a header value and closes
				// without reading the body: not the application's code
				if (b[i] < 0x20 && b[i] != '\t') || b[i] == 0x7f {
					b[i] = '"'
				}
			}
			return string(b)
		}
		if r.Chance(5) {
			return strings.Repeat(Pick(r, vals), r.Range(2, 300))
		}
		return Pick(r, vals)
	}
	ct := Pick(r, []string{c03Arrow, c03Arrow, c03Arrow, c03Arrow, "application/json", "", c03Arrow + ";x", "application/x-www-form-urlencoded"})
	if ct != "" {
		add("Content-Type", ct)
	}
	if cfg == "xfcc" || cfg == "xfccv" || cfg == "chain" || r.Chance(10) {
		if r.Chance(90) {
			add("X-Forwarded-Client-Cert", noise(c03XfccVals))
		}
		if r.Chance(5) {
			add("X-Forwarded-Client-Cert", noise(c03XfccVals))
		}
	}
	if cfg == "bearer" || cfg == "proof" || cfg == "chain" || r.Chance(10) {
		if r.Chance(85) {
			add("Authorization", noise(c03AuthVals))
		}
	}
	if cfg == "proof" || r.Chance(8) {
		if r.Chance(85) {
			add("VGI-Proxy-Proof", noise(c03ProofVals))
		}
	}
	if strings.HasPrefix(cfg, "pem") || cfg == "chain" || r.Chance(8) {
		if r.Chance(85) {
			add("X-SSL-Client-Cert", noise(c03PemVals))
		}
	}
	for r.Chance(30) {
		switch r.Intn(9) {
		case 0:
			add("X-Request-ID", Pick(r, []string{"", "r", strings.Repeat("x", 5000), "\xff\xfe", "a b", "a,b", "\"", "🙂"}))
		case 1:
			add("VGI-Session", Pick(r, []string{"", "AAAA", "not base64", strings.Repeat("A", 3000), "\xff"}))
		case 2:
			add("Accept-Encoding", Pick(r, []string{"zstd", "gzip;q=0", "*;q=x", ",,,", "zstd;q=1.5", "identity;q=0,*;q=0", "\xff"}))
		case 3:
			add("X-VGI-Accept-Encoding", Pick(r, []string{"zstd", "br", ";", "zstd;q="}))
		case 4:
			add("Content-Encoding", Pick(r, []string{"zstd", "gzip", "identity", "br", " ", "zstd,gzip"}))
		case 5:
			add("Cookie", Pick(r, []string{"_vgi_auth=x", "_vgi_auth=", "_vgi_oauth_session=AAAA.BBBB", "=;=;", "a", strings.Repeat("c=d; ", 400), "_vgi_auth=\"x"}))
		case 6:
			add("Origin", Pick(r, []string{"https://a.example", "null", "", "x", "https://cupola.query-farm.services"}))
		case 7:
			add("Traceparent", Pick(r, []string{"00-0af7651916cd43dd8448eb211c80319c-b7ad6b7169203331-01", "zz", "", strings.Repeat("0", 600)}))
		default:
			add("VGI-Session-Accept", Pick(r, []string{"1", "true", "", "x"}))
		}
	}
	if len(kv) == 0 {
		return "-"
	}
	var p []string
	for _, e := range kv {
		p = append(p, c02Hex(e[0])+"="+c02Hex(e[1]))
	}
	return strings.Join(p, ",")
}

func (x *c02G) wideLine() string {
	r := x.g.Rng
	cfg := Pick(r, c03Cfgs)
	tag := "route"
	verb := "POST"
	target := ""
	body := ""
	countSch := "count:int64:0"
	ptr := func() string {
		var kv [][2]string
		kv = append(kv, [2]string{"vgi_rpc.method", "__upload_url__"}, [2]string{"vgi_rpc.request_version", "1"})
		if r.Chance(60) {
			kv = append(kv, [2]string{Pick(r, []string{"vgi_rpc.location", "vgi_rpc.shm_offset"}), Pick(r, []string{"http://x/y", "0", ""})})
		}
		if r.Chance(15) {
			kv = append(kv, [2]string{"vgi_rpc.log_level", "INFO"})
		}
		return c02MetaStr(kv)
	}
	switch k := r.Intn(20); {
	case k < 5: // the upload-URL route: row counts 0/1/2, pointer keys, foreign / missing columns, garbage
		target, tag = "/__upload_url__/init", "upload-url"
		sch := Pick(r, []string{countSch, countSch, countSch, "count:int64:1", "count:utf8:0", "count:int32:0", "n:int64:0", "-", "count:int64:0,extra:int64:0", "x:int64:0,count:int64:0"})
		rows := Pick(r, []int{0, 0, 0, 1, 1, 2, 5})
		cells := Pick(r, []string{"1", "3", "0", "-1", "1000", "99999999"})
		if rows == 0 || sch == "-" {
			cells = "-"
		} else if strings.Contains(sch, ",") {
			cells += "," + cells
		}
		body = fmt.Sprintf("S %s B %d %s %s", sch, rows, cells, ptr())
		if r.Chance(10) {
			body = "S " + sch
		}
	case k < 7: // token introspection: JSON bodies
		target, tag = "/__introspect_token__", "introspect"
		js := Pick(r, []string{`{"token":"good-token"}`, `{"token":"x"}`, `{"token":""}`, `{}`, `{"token":5}`, `[`, ``, `{"token":"` + strings.Repeat("t", 9000) + `"}`, "\xff\xfe", `{"token":null}`, `nul`})
		body = "x" + hex.EncodeToString([]byte(js))
	case k < 8:
		target, tag = "/__describe__", "describe"
		body = x.reqStream(nil, Pick(r, []int{0, 1, 2}), nil, x.meta(Pick(r, []string{"__describe__", "u3"}), true))
	case k < 9:
		verb, target, tag = "DELETE", "/__session__", "sticky-delete"
	case k < 11: // pages, health, OAuth routes
		verb = Pick(r, []string{"GET", "GET", "GET", "HEAD", "OPTIONS", "POST"})
		target = Pick(r, []string{"/health", "/", "/describe", "/.well-known/oauth-protected-resource", "/_oauth/callback", "/_oauth/callback?code=abc&state=xyz",
			"/_oauth/callback?error=access_denied", "/_oauth/callback?code=%zz&state=%", "/_oauth/logout", "/_oauth/logout?_vgi_return_to=https://evil.example/", "/_oauth/token",
			"/nope", "/describe?x=%zz", "/?_vgi_return_to=//evil", "/favicon.ico", "/health/", "//", "/a/b/c/d", "/%2e%2e/health", "/u3/init/extra"})
		tag = "pages-oauth"
		if verb == "POST" {
			body = "x" + hex.EncodeToString([]byte(Pick(r, []string{"grant_type=authorization_code&code=x", "", "%zz=%", "a=b&a=c"})))
		}
	case k < 12: // odd verbs on RPC routes
		verb = Pick(r, []string{"GET", "PUT", "PATCH", "DELETE", "OPTIONS", "HEAD", "TRACE", "FOO"})
		target = Pick(r, []string{"/u3", "/p3/init", "/x3/exchange", "/__upload_url__/init", "/__introspect_token__", "/__session__"})
		tag = "odd-verb"
	default: // the RPC routes with hostile headers and the usual / unexpected bodies
		var streams string
		if r.Chance(60) {
			tag, streams = c03StripOp(x.op())
		} else {
			tag, streams = c03Unexpected(x)
		}
		m := c03FirstMethod(streams)
		if m == "" || r.Chance(10) {
			m = Pick(r, []string{"u3", "p3", "x3", "n1", "nope"})
		}
		target = "/" + url.PathEscape(m) + Pick(r, []string{"", "", "/init", "/init", "/exchange"})
		body = streams
	}
	mut := "-"
	if body != "" && !strings.HasPrefix(body, "x") && r.Chance(25) {
		mut = c01GenMut(r)
	}
	line := fmt.Sprintf("hx %s %s x%s %s %s %s body", cfg, verb, hex.EncodeToString([]byte(target)), x.wideHeaders(cfg), mut, tag)
	if body != "" {
		line += " " + body
	}
	return line
}

func c03Hdrs(kv ...string) string {
	var p []string
	for i := 0; i+1 < len(kv); i += 2 {
		p = append(p, c02Hex(kv[i])+"="+c02Hex(kv[i+1]))
	}
	if len(p) == 0 {
		return "-"
	}
	return strings.Join(p, ",")
}

// credHeaders: the header(s) with which the configuration admits the caller, as script text.
func c03CredHeaders(cfg string) []string {
	switch cfg {
	case "xfcc", "xfccv":
		return []string{"X-Forwarded-Client-Cert", `Hash=abc;Subject="CN=alice"`}
	case "bearer", "chain":
		return []string{"Authorization", "Bearer tok1"}
	case "proof":
		return []string{"Authorization", "Bearer tok1", "VGI-Proxy-Proof", "@PROOF"}
	}
	return nil
}

var c03U3Body = "S a:int64:0,b:int64:0,c:int64:0 B 1 0,3,1 " + c02MetaStr([][2]string{{"vgi_rpc.method", "u3"}, {"vgi_rpc.request_version", "1"}})

// wideSticky: an authenticated request carrying a GENUINE sticky-session token that is not (or no
// longer) this worker's / this caller's to use, or a genuine-but-foreign continuation token.
func (x *c02G) wideSticky() []string {
	r := x.g.Rng
	cfg := Pick(r, []string{"plain", "xfcc", "xfccv", "bearer", "proof", "chain"})
	kind := Pick(r, []string{"own", "foreign", "foreign", "other", "expired", "closed"})
	h := append([]string{"Content-Type", c03Arrow}, c03CredHeaders(cfg)...)
	h = append(h, "VGI-Session", "@STICKY:"+kind)
	if r.Chance(40) {
		h = append(h, "VGI-Session-Accept", Pick(r, []string{"true", "TRUE", "false"}))
	}
	route := r.Intn(6)
	verb, target, body := "POST", "/u3", c03U3Body
	switch route {
	case 1:
		target = "/p3/init"
		body = "S a:int64:0,b:int64:0,c:int64:0 B 1 0,2,99 " + c02MetaStr([][2]string{{"vgi_rpc.method", "p3"}, {"vgi_rpc.request_version", "1"}})
	case 2:
		src := Pick(r, []string{"own", "sibling"})
		target = "/x3/exchange"
		body = "S v:int64:0 B 1 5 " + c02Hex("vgi_rpc.stream_state#b64") + "=" + c02Hex("@WINIT:"+src+":x3")
	case 3:
		verb, target, body = "DELETE", "/__session__", ""
	case 4:
		target = "/ss"
		body = "S a:int64:0 B 1 0 " + c02MetaStr([][2]string{{"vgi_rpc.method", "ss"}, {"vgi_rpc.request_version", "1"}})
	case 5:
		target = "/__upload_url__/init"
		body = "S count:int64:0 B 1 1 " + c02MetaStr([][2]string{{"vgi_rpc.method", "__upload_url__"}, {"vgi_rpc.request_version", "1"}})
	}
	line := fmt.Sprintf("hx %s %s x%s %s - sticky-%s body", cfg, verb, hex.EncodeToString([]byte(target)), c03Hdrs(h...), kind)
	if body != "" {
		line += " " + body
	}
	if r.Chance(30) {
		// also a continuation with a token minted by the sibling worker, without any sticky header
		cont := fmt.Sprintf("hx %s POST x%s %s - foreign-continuation body S v:int64:0 B 1 5 %s=%s", cfg,
			hex.EncodeToString([]byte("/x3/exchange")), c03Hdrs(append([]string{"Content-Type", c03Arrow}, c03CredHeaders(cfg)...)...),
			c02Hex("vgi_rpc.stream_state#b64"), c02Hex("@WINIT:sibling:x3"))
		return []string{line, cont}
	}
	return []string{line}
}

// wideProofHistory: a fresh proof-gated server, then a sequence of requests whose proofs are valid
// for the clock at which they are sent, separated by idle gaps around the replay cache's TTL
// (2*skew+1 = 601 s) and by backwards clock steps; replays and garbage in between.
func (x *c02G) wideProofHistory() []string {
	r := x.g.Rng
	lines := []string{"fresh proof"}
	n := r.Range(2, 6)
	for i := 0; i < n; i++ {
		if i > 0 {
			lines = append(lines, fmt.Sprintf("clock %d", Pick(r, []int{0, 1, 300, 600, 601, 601, 602, 602, 3000, 100000, -100, -700})))
		}
		proof := Pick(r, []string{"@PROOF", "@PROOF", "@PROOF", "@PROOF", "@PROOFREPLAY", "v1.k1.2000000000.n.AAAA"})
		target := Pick(r, []string{"/u3", "/u3", "/p3/init", "/__upload_url__/init", "/health"})
		verb := "POST"
		body := c03U3Body
		if target == "/health" {
			verb, body = "GET", ""
		}
		line := fmt.Sprintf("hx proof %s x%s %s - proof-history body", verb, hex.EncodeToString([]byte(target)),
			c03Hdrs("Content-Type", c03Arrow, "Authorization", "Bearer tok1", "VGI-Proxy-Proof", proof))
		if body != "" {
			line += " " + body
		}
		lines = append(lines, line)
	}
	return lines
}

func c03B64(s string) string {
	return strings.TrimRight(base64.URLEncoding.EncodeToString([]byte(s)), "=")
}

// widePkceCookie: the browser-login (OAuth PKCE) pages with JWT-shaped `_vgi_auth` / session cookies
// whose claim JSON is hostile, with and without a valid `_vgi_return_to`.
func (x *c02G) widePkceCookie() string {
	r := x.g.Rng
	cfg := Pick(r, []string{"xfcc", "bearer", "proof", "chain", "pem", "xfccv"})
	hdr := Pick(r, []string{`{"alg":"none"}`, `{"alg":"RS256","typ":"JWT"}`, `{"alg":"HS256","kid":5}`, `{}`, `[]`, `nul`, ``})
	claim := func() string {
		v := Pick(r, []string{`"1700000000"`, `null`, `true`, `false`, `{}`, `[]`, `[1]`, `{"a":1}`, `1700000000`, `4102444800`, `1.5`, `-1`, `0`,
			`1e30`, `1e400`, `99999999999999999999`, `-99999999999999999999`, `""`, `"x"`, `[[[[[[[[[[1]]]]]]]]]]`})
		return v
	}
	payload := Pick(r, []string{
		`{"exp":` + claim() + `}`,
		`{"exp":` + claim() + `,"iat":` + claim() + `,"sub":` + claim() + `,"aud":` + claim() + `}`,
		`{"exp":` + claim() + `,"email":` + claim() + `,"name":` + claim() + `}`,
		`{"sub":"alice","exp":` + claim() + `,"nested":{"exp":` + claim() + `}}`,
		`{"exp":` + claim(), `[` + claim() + `]`, claim(), `{"exp":1,"exp":` + claim() + `}`, ``, `{"EXP":` + claim() + `}`,
	})
	var jwt string
	switch r.Intn(10) {
	case 0:
		jwt = c03B64(hdr) + "." + c03B64(payload) // two segments
	case 1:
		jwt = c03B64(hdr) + "." + c03B64(payload) + ".sig.extra"
	case 2:
		jwt = c03B64(hdr) + ".%%%." + "sig" // invalid base64
	case 3:
		jwt = Pick(r, []string{"..", ".", "a.b.c", "tok1", "", "..."})
	case 4:
		jwt = c03B64(hdr) + "." + base64.URLEncoding.EncodeToString([]byte(payload)) + ".c2ln" // padded
	default:
		jwt = c03B64(hdr) + "." + c03B64(payload) + "." + Pick(r, []string{"c2ln", "", "AAAA"})
	}
	cookie := "_vgi_auth=" + jwt
	if r.Chance(30) {
		cookie += "; _vgi_identity=" + Pick(r, []string{c03B64(`{"email":5}`), "x", "%7B"})
	}
	if r.Chance(30) {
		cookie += "; _vgi_oauth_session=" + Pick(r, []string{"AAAA", c03B64(payload), jwt, strings.Repeat("A", 700), "v1." + c03B64("x")})
	}
	rt := Pick(r, []string{"", "", "?_vgi_return_to=http%3A%2F%2Flocalhost%3A3000%2Fapp", "?_vgi_return_to=http%3A%2F%2Flocalhost%3A3000%2Fapp",
		"?_vgi_return_to=https%3A%2F%2Fcupola.query-farm.services%2Fx", "?_vgi_return_to=http%3A%2F%2F127.0.0.1%2F", "?_vgi_return_to=https%3A%2F%2Fevil.example%2F",
		"?_vgi_return_to=%zz", "?_vgi_return_to=//x", "?_vgi_return_to=http%3A%2F%2F%5B%3A%3A1%5D%3A1%2F"})
	target := Pick(r, []string{"/", "/", "/describe", "/describe", "/_oauth/callback?code=abc&state=xyz", "/_oauth/logout", "/u3", "/nope"})
	if strings.Contains(target, "?") {
		rt = strings.Replace(rt, "?", "&", 1)
	}
	h := []string{"Cookie", cookie}
	if r.Chance(30) {
		h = append(h, "Accept", Pick(r, []string{"text/html", "*/*", "application/json"}))
	}
	if r.Chance(20) {
		h = append(h, c03CredHeaders(cfg)...)
	}
	verb := Pick(r, []string{"GET", "GET", "GET", "HEAD", "POST"})
	return fmt.Sprintf("hx %s %s x%s %s - pkce-cookie body", cfg, verb, hex.EncodeToString([]byte(target+rt)), c03Hdrs(h...))
}
