package main

import (
	"encoding/hex"
	"fmt"
	"strings"
)

// Generator for C03. The structured part reuses the call generator of C02 (every call category,
// with its metadata extras), then bends it: unexpected shapes, stray streams, byte mutations.

func c03StripOp(op string) (tag string, streams string) {
	f := strings.SplitN(op, " ", 3)
	return strings.TrimPrefix(strings.TrimPrefix(f[1], "w:"), "i:"), f[2]
}

var c03PN = []c02Field{{"inner", "payload", false}}

// c03Unexpected: structurally valid requests with shapes the happy path never sends.
func c03Unexpected(x *c02G) (tag, streams string) {
	r := x.g.Rng
	um := Pick(r, c02Unaries)
	sm := Pick(r, c02StreamsM)
	switch r.Intn(7) {
	case 0, 1: // embedded payload of n1: valid, foreign inner type, garbage, empty, no row
		v := Pick(r, []int64{0, 1, 2, 7, -1, -1, -2, -3, -4, -4})
		return fmt.Sprintf("payload(%d)", v), x.reqStream(c03PN, 1, []int64{v}, x.meta("n1", true))
	case 2: // zero-row pointer batch (location key) with the method's own schema
		m := x.meta(Pick(r, []string{um.name, sm.name, "n1"}), true)
		m = append(m, [2]string{"vgi_rpc.location", Pick(r, []string{"http://x/y", "", "file:///etc/passwd"})})
		cols := um.params
		if r.Bool() {
			cols = sm.params
		}
		s := x.reqStream(cols, Pick(r, []int{0, 0, 2}), nil, m)
		if r.Bool() {
			s += " " + x.ticks(r.Intn(3), -1)
		}
		return "zero-row-location", s
	case 3: // shm keys without / with a log level, segment advertisement that cannot be attached
		m := x.meta(Pick(r, []string{um.name, sm.name}), true)
		m = append(m, [2]string{"vgi_rpc.shm_offset", Pick(r, []string{"0", "-1", "x", "99999999999999999999"})})
		if r.Bool() {
			m = append(m, [2]string{"vgi_rpc.shm_length", Pick(r, []string{"8", "-8", ""})})
		}
		if r.Chance(30) {
			m = append(m, [2]string{"vgi_rpc.log_level", "INFO"})
		}
		if r.Chance(40) {
			m = append(m, [2]string{"vgi_rpc.shm_segment_name", "/verif-no-such-segment"}, [2]string{"vgi_rpc.shm_segment_size", Pick(r, []string{"70000", "1", "x", "-5"})})
		}
		s := x.reqStream(um.params, Pick(r, []int{0, 0, 1}), []int64{0, 1, 2}[:len(um.params)], m)
		if r.Chance(40) {
			s += " " + x.ticks(r.Intn(3), -1)
		}
		return "shm-keys", s
	case 4: // the wrapped `request` column (deserializeParams unwraps a binary column of that name)
		v := Pick(r, []int64{0, 5, -1, -2, -3, -4})
		return "wrapped-request-column", x.reqStream([]c02Field{{"request", "payload", false}}, 1, []int64{v}, x.meta(Pick(r, []string{"u1", "u3", "n1", "p3"}), true))
	case 5: // log level / trace keys on the request, huge request id
		m := x.meta(um.name, true)
		m = append(m, [2]string{"vgi_rpc.log_level", Pick(r, []string{"EXCEPTION", "TRACE", "", "bogus"})},
			[2]string{"vgi_rpc.request_id", strings.Repeat("r", r.Range(0, 3000))})
		return "odd-metadata", x.reqStream(um.params, 1, []int64{3, 1, 3}[:len(um.params)], m)
	default: // 2..5 rows with the right schema, for unary and stream methods
		m := Pick(r, []c02Method{um, sm})
		s := x.reqStream(m.params, Pick(r, []int{2, 5}), []int64{0, 1, 2}[:len(m.params)], x.meta(m.name, true))
		return "many-rows", s
	}
}

func c03FirstMethod(streams string) string {
	// method of the first batch's metadata (first key wins), "" when absent
	key := hex.EncodeToString([]byte("vgi_rpc.method")) + "="
	f := strings.Fields(streams)
	for i, w := range f {
		if w == "B" && i+3 < len(f) {
			for _, kv := range strings.Split(f[i+3], ",") {
				if strings.HasPrefix(kv, key) {
					b, _ := hex.DecodeString(kv[len(key):])
					return string(b)
				}
			}
			return ""
		}
	}
	return ""
}

func c03Gen(g *Gen) {
	r := g.Rng
	n := g.N(2500, 60000)
	for i := 0; i < n; i++ {
		x := &c02G{g: g, pvOn: r.Chance(35)}
		pv := map[bool]string{true: "on", false: "off"}[x.pvOn]
		var tag, streams string
		switch k := r.Intn(10); {
		case k < 5:
			tag, streams = c03StripOp(x.op())
		case k < 6:
			tag, streams = c03StripOp(x.illOp())
		default:
			tag, streams = c03Unexpected(x)
		}
		mut := "-"
		if r.Chance(35) {
			mut = c01GenMut(r)
		}
		if r.Chance(45) {
			// a pipe session: this call, sometimes followed / preceded by more streams
			all := streams
			for r.Chance(35) {
				_, more := c03StripOp(x.op())
				if r.Bool() {
					all = all + " " + more
				} else {
					all = more + " " + all
				}
			}
			g.Case(fmt.Sprintf("pipe %s %s %s %s", pv, mut, tag, all))
			continue
		}
		// one HTTP request
		route := Pick(r, []string{"unary", "unary", "init", "init", "exchange"})
		method := c03FirstMethod(streams)
		if r.Chance(70) && route != "exchange" {
			// mostly the route that fits the method's kind
			route = "unary"
			for _, m := range c02StreamsM {
				if m.name == method {
					route = "init"
				}
			}
		}
		switch r.Intn(10) {
		case 0:
			method = Pick(r, []string{"nope", "u3", "p3", "__describe__", "ü", "a/b", "a b", "%41"})
		case 1:
			method = Pick(r, []string{"u3", "p3", "x3", "n1", "d3"})
		}
		if method == "" || method == "." || method == ".." {
			// an empty / dot path segment never reaches the {method} routes (net/http's mux
			// answers itself): outside the modelled handlers
			method = "nomethod"
		}
		ct := Pick(r, []string{"arrow", "arrow", "arrow", "arrow", "arrow", "arrow", "arrow", "arrow", "arrow", "none", "json", "arrowparams"})
		enc := Pick(r, []string{"-", "-", "-", "-", "-", "-", "-", "-", "identity", "br"})
		body := streams
		if route == "exchange" && r.Chance(60) {
			// continuation-shaped bodies: a batch carrying a state token (junk, or a genuine one
			// minted for ANOTHER method), with and without a cancel key
			src := Pick(r, []string{"x3", "xh1", "d3"})
			tok := Pick(r, []string{"@INIT:" + src, "@INIT:" + src, "AAAA", "", "not base64 !!", strings.Repeat("A", 500)})
			kv := c02Hex("vgi_rpc.stream_state#b64") + "=" + c02Hex(tok)
			if r.Chance(25) {
				kv += "," + c02Hex("vgi_rpc.cancel") + "=" + c02Hex("1")
			}
			if r.Chance(25) {
				kv += "," + c02Hex("vgi_rpc.call_state#b64") + "=" + c02Hex(Pick(r, []string{"", "AAAA", "@INIT:" + src}))
			}
			sch := Pick(r, []string{"-", "v:int64:0", "v:utf8:0", "o:int64:0"})
			rows := Pick(r, []int{0, 1, 1, 2})
			body = fmt.Sprintf("S %s B %d %d %s", sch, rows, r.Intn(9), kv)
			method = Pick(r, []string{src, src, "x3", "p3", "ph3", "u3", "nope", "d3"})
			tag = "continuation"
		}
		if r.Chance(4) {
			body = "" // empty body
			tag = "empty-body"
		}
		line := fmt.Sprintf("http %s x%s %s %s %s %s %s body", route, hex.EncodeToString([]byte(method)), ct, enc, pv, mut, tag)
		if body != "" {
			line += " " + body
		}
		g.Case(line)
	}
}
