package main

// Generators for C08 (shared pieces are reused by C07).

import (
	"fmt"
	"math/big"
	"strings"
)

type c08Spec struct{ kind, at string }

var c08IntKinds = []string{"i8", "i16", "i32", "i64", "int", "u8", "u16", "u32", "u64", "uint"}
var c08IntTags = []string{"", "int8", "int16", "int32", "uint8", "uint16", "uint32", "uint64"}

// supported (kind, type option) pairs: a value in the wire range must survive
func c08SupportedSpecs() []c08Spec {
	out := []c08Spec{}
	for _, k := range c08IntKinds {
		for _, t := range c08IntTags {
			out = append(out, c08Spec{k, t})
		}
	}
	out = append(out,
		c08Spec{"f32", ""}, c08Spec{"f32", "float32"}, c08Spec{"f64", ""}, c08Spec{"bool", ""},
		c08Spec{"str", ""}, c08Spec{"str", "large_string"}, c08Spec{"str", "enum"}, c08Spec{"str", "dict_string"}, c08Spec{"str", "decimal"},
		c08Spec{"bytes", ""}, c08Spec{"bytes", "binary"}, c08Spec{"bytes", "large_binary"},
		c08Spec{"bytes", "fixed_binary[1]"}, c08Spec{"bytes", "fixed_binary[4]"}, c08Spec{"bytes", "fixed_binary[16]"},
		c08Spec{"time", "date"}, c08Spec{"time", "timestamp"}, c08Spec{"time", "timestamp_utc"}, c08Spec{"time", "time"},
		c08Spec{"dur", "duration"})
	return out
}

// pairs the code rejects (or cannot describe); both sides must say so
var c08RejectedSpecs = []c08Spec{
	{"str", "int32"}, {"str", "uint8"}, {"str", "binary"}, {"str", "date"}, {"str", "duration"}, {"str", "float32"},
	{"bool", "int8"}, {"bool", "binary"}, {"bool", "decimal"}, {"bool", "date"}, {"bool", "float32"}, {"bool", "duration"},
	{"bytes", "int16"}, {"bytes", "date"}, {"bytes", "decimal"}, {"bytes", "float32"}, {"bytes", "duration"},
	{"time", ""}, {"time", "int32"}, {"time", "binary"}, {"time", "duration"}, {"time", "decimal"}, {"time", "float32"}, {"time", "struct"},
	{"dur", ""}, {"dur", "int32"}, {"dur", "date"}, {"dur", "decimal"}, {"dur", "binary"},
	{"i32", "binary"}, {"u64", "date"}, {"i64", "decimal"}, {"int", "time"}, {"i8", "struct"},
	{"f64", "int8"}, {"f32", "binary"}, {"f64", "date"}, {"f32", "decimal"}, {"f64", "uint64"},
	{"bytes", "fixed_binary[0]"}, {"bytes", "fixed_binary[-3]"}, {"bytes", "fixed_binary[x]"}, {"bytes", "fixed_binary[]"},
	{"str", "fixed_binary[2]"}, {"i16", "fixed_binary[2]"},
}

func c08Big(s string) *big.Int { n, _ := new(big.Int).SetString(s, 10); return n }

var c08IntEdges = []string{"0", "1", "-1", "2", "-2", "127", "128", "-128", "-129", "255", "256", "32767", "32768", "-32768", "-32769",
	"65535", "65536", "2147483647", "2147483648", "-2147483648", "-2147483649", "4294967295", "4294967296",
	"9223372036854775807", "9223372036854775808", "-9223372036854775808", "18446744073709551615", "10", "9", "100", "-10"}

func c08GenInt(r *Rng, kind string) *c08Val {
	lo, hi, _ := c08IntRange(kind)
	for tries := 0; tries < 8; tries++ {
		var n *big.Int
		if r.Chance(70) {
			n = c08Big(Pick(r, c08IntEdges))
		} else {
			n = new(big.Int).SetUint64(r.U64())
			if r.Bool() {
				n.Rsh(n, uint(r.Intn(64)))
			}
			if r.Bool() {
				n.Neg(n)
			}
		}
		if n.Cmp(lo) >= 0 && n.Cmp(hi) <= 0 {
			return &c08Val{K: 'i', I: n}
		}
	}
	if r.Bool() {
		return &c08Val{K: 'i', I: lo}
	}
	return &c08Val{K: 'i', I: hi}
}

var c08StrEdges = []string{"", "a", "hello world", "héllo ✓ 日本", "\xff\xfe\x80", "a\x00b", "comma,=\"quote\"", " lead", "x"}

func c08GenStr(r *Rng) []byte {
	switch r.Intn(10) {
	case 0:
		return []byte(strings.Repeat("ab✓", r.Range(50, 120)))
	case 1:
		return r.Bytes(r.Range(1, 12))
	}
	return []byte(Pick(r, c08StrEdges))
}

var c08Decimals = []string{"0", "1", "-1", "0.0001", "-0.0001", "1.5", "123456.7890", "9999999999999999.9999", "-9999999999999999.9999",
	"10000000000000000", "-10000000000000000.0000", "+1.", ".5", "-.5", "0.00004", "1.23456", "-1.23456", "1.2344", "00012.50", "+0", "-0", "0.0000",
	"99999999999999999999", "1.00006", "-7.99996", "5000.00051", "42", "3.14159"}
var c08BadDecimals = []string{"", "zz", "1..2", "-", "+", ".", "1,5", "1-", "$1", " 1", "1 ", "--1", "1.2.3", "١٢"}

func c08GenDecimal(r *Rng) []byte {
	switch x := r.Intn(100); {
	case x < 55:
		return []byte(Pick(r, c08Decimals))
	case x < 70:
		return []byte(Pick(r, c08BadDecimals))
	}
	// random: up to 16 integer digits, up to 7 fraction digits, never an exact tie beyond 4 places
	s := ""
	if r.Chance(40) {
		s = "-"
	}
	nd := r.Range(1, 16)
	for i := 0; i < nd; i++ {
		s += string(rune('0' + r.Intn(10)))
	}
	if r.Chance(80) {
		s += "."
		nf := r.Range(0, 7)
		for i := 0; i < nf; i++ {
			d := r.Intn(10)
			if i == 4 && d == 5 {
				d = 6
			}
			s += string(rune('0' + d))
		}
	}
	return []byte(s)
}

var c08F64Edges = []uint64{0, 0x8000000000000000, 0x3ff0000000000000, 0xbff0000000000000, 0x7ff0000000000000, 0xfff0000000000000,
	0x7ff8000000000000, 0x7ff0000000000001, 0xfff8000000000123, 1, 0x7fefffffffffffff, 0x000fffffffffffff, 0x4059000000000000, 0x3fb999999999999a}
var c08F32Edges = []uint64{0, 0x80000000, 0x3f800000, 0xbf800000, 0x7f800000, 0xff800000, 0x7fc00000, 0x7f800001, 1, 0x7f7fffff, 0x007fffff, 0x3dcccccd}

const (
	c08MaxUsSec = 9223372036854 // floor(2^63 / 1e6)
	c08MaxDay   = 2147483647    // int32
	c08Year1    = -62135596800  // 0001-01-01
	c08Y9999    = 253402300799  // 9999-12-31T23:59:59
	c08Y2500    = 16725225600   // F08 witnesses
	c08Sat      = 9223372036    // ±292 years: time.Duration saturates
)

func c08GenTime(r *Rng, at string) *c08Val {
	nsecs := []int64{0, 0, 1, 999, 1000, 1001, 500000, 999999, 1000000, 999999000, 999999999, 123456789}
	v := &c08Val{K: 't', Nsec: Pick(r, nsecs)}
	switch at {
	case "date":
		days := []int64{0, -1, 1, -2, 2, 106751, 106752, -106751, -106752, -106753, c08MaxDay, -c08MaxDay - 1, c08MaxDay + 1, -c08MaxDay - 2,
			c08MaxDay - 1, -c08MaxDay, 19000, -719162, 2932896, 193445, int64(r.Range(-3000000, 3000000)), int64(r.Range(-40000, 40000))}
		d := Pick(r, days)
		if r.Chance(15) {
			d = int64(r.U64()>>31) - (1 << 32) // spread over and beyond the int32 range
		}
		v.Sec = d*86400 + Pick(r, []int64{0, 0, 1, 43199, 43200, 86399, 3600, int64(r.Intn(86400))})
	case "timestamp", "timestamp_utc":
		switch r.Intn(12) {
		case 0: // the last representable microsecond and the first that is not
			v.Sec, v.Nsec = c08MaxUsSec, Pick(r, []int64{775807000, 775807999, 775808000, 775806999, 0, 999999999})
		case 1: // the first representable microsecond and the one before
			v.Sec, v.Nsec = -c08MaxUsSec-1, Pick(r, []int64{224192000, 224192999, 224191999, 224191000, 999999999, 0})
		case 2:
			v.Sec = Pick(r, []int64{c08Sat, c08Sat + 1, c08Sat - 1, -c08Sat, -c08Sat - 1, -c08Sat - 2})
		case 3:
			v.Sec = Pick(r, []int64{c08Year1, c08Y9999, c08Y2500, -c08Y2500, c08Year1 - 1, c08Y9999 + 1})
		case 4:
			v.Sec = Pick(r, []int64{0, -1, 1, -86400, 86399, -43200})
		case 5:
			v.Sec = int64(r.U64()>>20) - (1 << 43) // ± 8.8e12 s: the whole microsecond range
		case 6:
			v.Sec = Pick(r, []int64{c08MaxUsSec + 1, -c08MaxUsSec - 2, 1 << 50, -(1 << 50)}) // not representable
		default:
			v.Sec = int64(r.Range(-4000000000, 4000000000))
		}
	default: // time of day
		day := Pick(r, []int64{0, -1, 1, 18000, -25000, 106752, -106753, int64(r.Range(-100000, 100000))})
		v.Sec = day*86400 + Pick(r, []int64{0, 1, 59, 60, 3599, 3600, 43200, 86399, 86340, int64(r.Intn(86400))})
	}
	return v
}

func c08GenDur(r *Rng) *c08Val {
	edges := []int64{0, 1, -1, 999, -999, 1000, -1000, 1001, -1001, 1500, -1500, 9223372036854775807, -9223372036854775808,
		9223372036854775000, -9223372036854775000, 3600000000000, -86400000000000, 123456789}
	if r.Chance(75) {
		return &c08Val{K: 'd', Ns: Pick(r, edges)}
	}
	return &c08Val{K: 'd', Ns: int64(r.U64()) >> uint(r.Intn(60))}
}

func c08FixedWidth(at string) (int, bool) {
	var w int
	if _, err := fmt.Sscanf(at, "fixed_binary[%d]", &w); err == nil && strings.HasSuffix(at, "]") {
		return w, true
	}
	return 0, false
}

// c08GenLeaf draws a value of a leaf kind, steering to the edges that matter for the type option.
func c08GenLeaf(r *Rng, kind, at string) *c08Val {
	switch c08Base(kind) {
	case "i8", "i16", "i32", "i64", "int", "u8", "u16", "u32", "u64", "uint":
		return c08GenInt(r, kind)
	case "f32":
		if r.Chance(70) {
			return &c08Val{K: 'g', Bits: Pick(r, c08F32Edges)}
		}
		return &c08Val{K: 'g', Bits: r.U64() & 0xffffffff}
	case "f64":
		if r.Chance(70) {
			return &c08Val{K: 'f', Bits: Pick(r, c08F64Edges)}
		}
		return &c08Val{K: 'f', Bits: r.U64()}
	case "bool":
		return &c08Val{K: 'b', B: r.Bool()}
	case "str":
		if at == "decimal" {
			return &c08Val{K: 's', S: c08GenDecimal(r)}
		}
		return &c08Val{K: 's', S: c08GenStr(r)}
	case "bytes":
		if w, ok := c08FixedWidth(at); ok && w > 0 && w < 100 && r.Chance(85) {
			return &c08Val{K: 'y', S: r.Bytes(w)}
		}
		if r.Chance(10) {
			return &c08Val{K: 'n'}
		}
		return &c08Val{K: 'y', S: r.Bytes(Pick(r, []int{0, 1, 3, 4, 5, 16, 17, 40}))}
	case "time":
		return c08GenTime(r, at)
	case "dur":
		return c08GenDur(r)
	}
	panic("c08GenLeaf: " + kind)
}

func c08JoinTag(name string, opts ...string) string {
	out := name
	for _, o := range opts {
		if o != "" {
			out += "," + o
		}
	}
	return out
}

var c08Names = []string{"v", "value", "a", "b", "n", "ts", "élan", "日付", "x y", "Field_1", "k-1", "Request", "result"}

// c08Wrap places a leaf spec at a position and draws a value for it: returns one struct field
// (tag + type) and its value.
func c08Wrap(r *Rng, sp c08Spec, pos int) (c08Field, *c08Val) {
	name := Pick(r, c08Names)
	leaf := c08Leaf(sp.kind)
	val := func() *c08Val { return c08GenLeaf(r, sp.kind, sp.at) }
	mayNil := func() *c08Val {
		if r.Chance(30) {
			return &c08Val{K: 'n'}
		}
		return val()
	}
	nullable := ""
	if r.Chance(15) {
		nullable = "nullable"
	}
	switch pos {
	case 0: // top-level field
		return c08Field{Tag: c08JoinTag(name, sp.at, nullable), T: leaf}, val()
	case 1: // pointer
		return c08Field{Tag: c08JoinTag(name, sp.at, nullable), T: c08Ptr(leaf)}, mayNil()
	case 2: // list element
		l := &c08Val{K: 'l'}
		for i, n := 0, r.Range(0, 4); i < n; i++ {
			l.Elems = append(l.Elems, val())
		}
		if r.Chance(10) {
			l = &c08Val{K: 'n'}
		}
		et := ""
		if sp.at != "" {
			et = "elem=" + sp.at
		}
		return c08Field{Tag: c08JoinTag(name, et, nullable), T: c08Sl(leaf)}, l
	case 3: // list of pointers
		l := &c08Val{K: 'l'}
		for i, n := 0, r.Range(1, 4); i < n; i++ {
			l.Elems = append(l.Elems, mayNil())
		}
		et := ""
		if sp.at != "" {
			et = "elem=" + sp.at
		}
		ft := c08Sl(c08Ptr(leaf))
		if r.Chance(25) {
			ft = c08Ptr(ft)
		}
		return c08Field{Tag: c08JoinTag(name, et), T: ft}, l
	case 4: // child of a struct-tagged struct (by value or by pointer)
		inner := c08St(c08Field{Tag: c08JoinTag(Pick(r, c08Names), sp.at), T: leaf})
		iv := &c08Val{K: 'r', Elems: []*c08Val{val()}}
		if r.Bool() {
			inner.Fields[0].T = c08Ptr(leaf)
			iv.Elems[0] = mayNil()
		}
		if r.Chance(30) {
			if r.Chance(30) {
				return c08Field{Tag: c08JoinTag(name, "struct"), T: c08Ptr(inner)}, &c08Val{K: 'n'}
			}
			return c08Field{Tag: c08JoinTag(name, "struct"), T: c08Ptr(inner)}, iv
		}
		return c08Field{Tag: c08JoinTag(name, "struct"), T: inner}, iv
	case 5: // list of structs
		inner := c08St(c08Field{Tag: c08JoinTag("c", sp.at), T: leaf}, c08Field{Tag: "", T: c08Leaf("i32")})
		l := &c08Val{K: 'l'}
		for i, n := 0, r.Range(0, 3); i < n; i++ {
			l.Elems = append(l.Elems, &c08Val{K: 'r', Elems: []*c08Val{val(), c08GenInt(r, "i32")}})
		}
		return c08Field{Tag: c08JoinTag(name, "elem=struct"), T: c08Sl(inner)}, l
	case 6: // map value (no type option reaches a map value)
		m := &c08Val{K: 'm'}
		keys := []string{"a", "b", "", "zz", "é", "10", "9", "A"}
		perm := r.Intn(len(keys))
		for i, n := 0, r.Range(0, 4); i < n; i++ {
			m.Keys = append(m.Keys, &c08Val{K: 's', S: []byte(keys[(perm+i)%len(keys)])})
			m.Elems = append(m.Elems, val())
		}
		ft := c08Map(c08Leaf("str"), leaf)
		if r.Chance(35) {
			ft = c08Map(c08Leaf("str"), c08Ptr(leaf))
			for i := range m.Elems {
				if r.Chance(40) {
					m.Elems[i] = &c08Val{K: 'n'}
				}
			}
		}
		if r.Chance(10) {
			m = &c08Val{K: 'n'}
		}
		return c08Field{Tag: c08JoinTag(name, nullable), T: ft}, m
	default: // map key
		m := &c08Val{K: 'm'}
		seen := map[string]bool{}
		for i, n := 0, r.Range(0, 5); i < n; i++ {
			k := val()
			kt := strings.Join(k.tokens(), " ")
			if seen[kt] {
				continue
			}
			seen[kt] = true
			m.Keys = append(m.Keys, k)
			m.Elems = append(m.Elems, c08GenInt(r, "i16"))
		}
		return c08Field{Tag: name, T: c08Map(leaf, c08Leaf("i16"))}, m
	}
}

func c08Line(op string, ty *c08Ty, rest []string) string {
	return op + " " + strings.Join(ty.tokens(), " ") + " | " + strings.Join(rest, " ")
}

func c08PosFor(r *Rng, sp c08Spec) int {
	if sp.kind == "u8" { // []uint8 is []byte, not a list: keep u8 out of the plain list position
		for {
			if p := c08PosFor(r, c08Spec{"u16", sp.at}); p != 2 {
				return p
			}
		}
	}
	untaggedOK := sp.at == ""
	isKey := untaggedOK && (c08Base(sp.kind) == "str" || sp.kind[0] == 'i' || sp.kind[0] == 'u')
	for {
		p := r.Intn(8)
		if p == 6 && !untaggedOK {
			continue
		}
		if p == 7 && !isKey {
			continue
		}
		return p
	}
}

// ---------------------------------------------------------------- random struct types (tree stream)

type c08TreeGen struct {
	r          *Rng
	specs      []c08Spec
	noRejected bool // only supported (kind, option) pairs
}

// field draws a field type with its tag options and a value, nested up to depth.
func (g *c08TreeGen) field(depth int) (ft *c08Ty, opts []string, v *c08Val) {
	r := g.r
	x := r.Intn(100)
	switch {
	case depth <= 0 || x < 45:
		sp := Pick(r, g.specs)
		if r.Chance(4) && !g.noRejected {
			sp = Pick(r, c08RejectedSpecs)
		}
		return c08Leaf(sp.kind), []string{sp.at}, c08GenLeaf(r, sp.kind, sp.at)
	case x < 57: // pointer
		t, o, vv := g.field(depth - 1)
		if t.K == "ptr" {
			if r.Chance(90) {
				return t, o, vv
			}
			// **T is not describable. (With a type override the derivation would succeed and the
			// serializer then refuse the inner pointer; the model keeps one implicit pointer
			// level, so that corner is left to the derive-error reading.)
			return c08Ptr(t), nil, vv
		}
		if r.Chance(30) {
			vv = &c08Val{K: 'n'}
		}
		return c08Ptr(t), o, vv
	case x < 75: // slice
		t, o, _ := g.field(depth - 1)
		if t.K == "u8" {
			t = c08Ptr(t)
		}
		elemOpt := ""
		if t.isLeaf() || (t.K == "ptr" && t.Elem.isLeaf()) {
			if len(o) > 0 && o[0] != "" {
				elemOpt = "elem=" + o[0]
			}
		} else if t.K == "st" || (t.K == "ptr" && t.Elem.K == "st") {
			elemOpt = "elem=struct"
		} else if len(o) > 0 && (o[0] != "" || len(o) > 1) {
			// an inner list/map cannot receive options: draw it again without any
			t, _ = g.plain(depth - 1)
		}
		if t.K == "u8" { // []uint8 is []byte
			t = c08Ptr(t)
		}
		l := &c08Val{K: 'l'}
		for i, n := 0, r.Range(0, 3); i < n; i++ {
			l.Elems = append(l.Elems, g.value(t, c08OptAt(elemOpt)))
		}
		if r.Chance(12) {
			l = &c08Val{K: 'n'}
		}
		return c08Sl(t), []string{"", elemOpt}, l
	case x < 88: // map
		kt := c08Leaf(Pick(r, []string{"str", "str", "i32", "i64", "u8", "int", "u64", "i8"}))
		vt, _ := g.plain(depth - 1)
		m := &c08Val{K: 'm'}
		seen := map[string]bool{}
		for i, n := 0, r.Range(0, 4); i < n; i++ {
			k := c08GenLeaf(r, kt.K, "")
			ks := strings.Join(k.tokens(), " ")
			if seen[ks] {
				continue
			}
			seen[ks] = true
			m.Keys = append(m.Keys, k)
			m.Elems = append(m.Elems, g.value(vt, ""))
		}
		if r.Chance(12) {
			m = &c08Val{K: 'n'}
		}
		return c08Map(kt, vt), []string{""}, m
	default: // struct-tagged struct
		st, sv := g.structTy(depth-1, r.Range(1, 3))
		return st, []string{"struct"}, sv
	}
}

func c08OptAt(elemOpt string) string { return strings.TrimPrefix(elemOpt, "elem=") }

// plain draws a type that needs no tag option (usable as map value / inner list element).
func (g *c08TreeGen) plain(depth int) (*c08Ty, *c08Val) {
	r := g.r
	kinds := []string{"i8", "i16", "i32", "i64", "int", "u8", "u16", "u32", "u64", "uint", "f32", "f64", "bool", "str", "bytes"}
	x := r.Intn(100)
	var t *c08Ty
	switch {
	case depth <= 0 || x < 55:
		t = c08Leaf(Pick(r, kinds))
	case x < 70:
		t = c08Ptr(c08Leaf(Pick(r, kinds)))
	case x < 85:
		e, _ := g.plain(depth - 1)
		if e.K == "u8" {
			e = c08Leaf("u16")
		}
		t = c08Sl(e)
	default:
		e, _ := g.plain(depth - 1)
		t = c08Map(c08Leaf(Pick(r, []string{"str", "i32", "u16"})), e)
	}
	return t, g.value(t, "")
}

// value draws a value for type t whose leaf option is at (only meaningful for leaves / ptr leaves /
// struct).
func (g *c08TreeGen) value(t *c08Ty, at string) *c08Val {
	r := g.r
	switch t.K {
	case "ptr":
		if r.Chance(30) {
			return &c08Val{K: 'n'}
		}
		return g.value(t.Elem, at)
	case "sl":
		if r.Chance(10) {
			return &c08Val{K: 'n'}
		}
		l := &c08Val{K: 'l'}
		for i, n := 0, r.Range(0, 3); i < n; i++ {
			l.Elems = append(l.Elems, g.value(t.Elem, ""))
		}
		return l
	case "map":
		if r.Chance(10) {
			return &c08Val{K: 'n'}
		}
		m := &c08Val{K: 'm'}
		seen := map[string]bool{}
		for i, n := 0, r.Range(0, 3); i < n; i++ {
			k := c08GenLeaf(r, t.Key.K, "")
			ks := strings.Join(k.tokens(), " ")
			if seen[ks] {
				continue
			}
			seen[ks] = true
			m.Keys = append(m.Keys, k)
			m.Elems = append(m.Elems, g.value(t.Elem, ""))
		}
		return m
	case "st":
		v := &c08Val{K: 'r'}
		for _, f := range t.Fields {
			ti := c08ParseTag(f.Tag)
			v.Elems = append(v.Elems, g.fieldValue(f.T, ti))
		}
		return v
	}
	return c08GenLeaf(r, t.K, at)
}

func (g *c08TreeGen) fieldValue(t *c08Ty, ti c08TagInfo) *c08Val {
	u := t
	if u.K == "ptr" {
		if g.r.Chance(30) {
			return &c08Val{K: 'n'}
		}
		u = u.Elem
	}
	if u.K == "sl" && ti.elemType != "" {
		if g.r.Chance(10) {
			return &c08Val{K: 'n'}
		}
		l := &c08Val{K: 'l'}
		for i, n := 0, g.r.Range(0, 3); i < n; i++ {
			l.Elems = append(l.Elems, g.value(u.Elem, ti.elemType))
		}
		return l
	}
	return g.value(u, ti.arrowType)
}

// structTy draws a struct type with n tagged fields (plus the odd untagged one) and a value.
func (g *c08TreeGen) structTy(depth, n int) (*c08Ty, *c08Val) {
	r := g.r
	st := &c08Ty{K: "st"}
	sv := &c08Val{K: 'r'}
	used := map[string]bool{}
	for i := 0; i < n; i++ {
		ft, opts, v := g.field(depth)
		name := Pick(r, c08Names)
		if used[name] { // duplicate names are exercised by the fixed shapes of the malformed stream
			name = fmt.Sprintf("%s%d", name, i)
		}
		used[name] = true
		if r.Chance(12) {
			opts = append(opts, "nullable")
		}
		if r.Chance(6) && ft.K != "ptr" {
			opts = append(opts, "default="+Pick(r, []string{"5", "x", "", "true", "1.5"}))
		}
		f := c08Field{Tag: c08JoinTag(name, opts...), T: ft}
		if r.Chance(4) {
			f.ATag = Pick(r, []string{name, "other", name + ",opt", "-"})
		}
		st.Fields = append(st.Fields, f)
		sv.Elems = append(sv.Elems, v)
		if r.Chance(8) { // an untagged field: does not travel
			pt, pv := g.plain(0)
			st.Fields = append(st.Fields, c08Field{Tag: Pick(r, []string{"", "-"}), T: pt})
			sv.Elems = append(sv.Elems, pv)
		}
	}
	return st, sv
}

// ---------------------------------------------------------------- wire-side cells

// c08GenCell draws a wire cell for a field of Go type t carrying (at): tokens, and whether the cell
// is representable in the Go field (then decode+encode must reproduce it exactly).
func c08GenCell(r *Rng, kind, at string, nullOK bool) ([]string, bool) {
	if r.Chance(12) {
		return []string{"N"}, nullOK
	}
	one := func(s string, exact bool) ([]string, bool) { return []string{s}, exact }
	if w, ok := c08FixedWidth(at); ok {
		return one(fmt.Sprintf("y:%x", r.Bytes(w)), true)
	}
	switch kind {
	case "i8", "i16", "i32", "i64", "int", "u8", "u16", "u32", "u64", "uint":
		wire := kind
		if at != "" {
			wire = c08WireInts[at]
		}
		v := c08GenInt(r, wire)
		lo, hi, _ := c08IntRange(kind)
		return one("i:"+v.I.String(), v.I.Cmp(lo) >= 0 && v.I.Cmp(hi) <= 0)
	case "f32":
		return one(fmt.Sprintf("g:%08x", c08GenLeaf(r, "f32", "").Bits), true)
	case "f64":
		return one(fmt.Sprintf("f:%016x", c08GenLeaf(r, "f64", "").Bits), true)
	case "bool":
		return one(Pick(r, []string{"b:0", "b:1"}), true)
	case "str":
		if at == "decimal" {
			edges := []string{"0", "1", "-1", "15000", "-15000", "99999999999999999999", "-99999999999999999999", "100000000000000000000",
				"-100000000000000000000", "170141183460469231731687303715884105727", "-170141183460469231731687303715884105727", "9999", "10000", "-9999", "123456789012"}
			n := c08Big(Pick(r, edges))
			if r.Chance(30) {
				n = new(big.Int).SetUint64(r.U64())
				if r.Bool() {
					n.Neg(n)
				}
			}
			limit := c08Big("100000000000000000000")
			return one("i:"+n.String(), new(big.Int).Abs(n).Cmp(limit) < 0)
		}
		if (at == "enum" || at == "dict_string") && r.Chance(75) {
			// a peer's dictionary column: several distinct entries in arbitrary order, the row
			// selects any of them (often the last), unused entries before and after
			pool := []string{"red", "green", "blue", "", "é", "RED", "a,b", "x", "zz", "north", "south"}
			n := r.Range(2, 5)
			start := r.Intn(len(pool))
			hs := make([]string, n)
			for i := range hs {
				hs[i] = fmt.Sprintf("%x", pool[(start+i*3)%len(pool)])
			}
			idx := r.Intn(n)
			if r.Chance(40) {
				idx = n - 1
			}
			return one(fmt.Sprintf("e:%d:%s", idx, strings.Join(hs, ",")), true)
		}
		return one(fmt.Sprintf("s:%x", c08GenStr(r)), true)
	case "bytes":
		return one(fmt.Sprintf("y:%x", r.Bytes(Pick(r, []int{0, 1, 5, 16}))), true)
	case "time":
		switch at {
		case "date":
			d := Pick(r, []int64{0, -1, 1, 106751, 106752, -106752, c08MaxDay, -c08MaxDay - 1, 19000, -719162, int64(int32(r.U64()))})
			return one(fmt.Sprintf("i:%d", d), true)
		case "timestamp", "timestamp_utc":
			us := Pick(r, []int64{0, -1, 1, 999999, -999999, 1000000, -1000000, -1000001, 9223372036854775807, -9223372036854775808,
				9223372036854775, 9223372036854776, -9223372036854776, 16725225600000000, -62135596800000000, int64(r.U64())})
			return one(fmt.Sprintf("i:%d", us), true)
		default:
			us := Pick(r, []int64{0, 1, 999999, 1000000, 86399999999, 86400000000, -1, 43200000000, 9223372036854775807, -9223372036854775808,
				int64(r.Intn(86400)) * 1000000})
			return one(fmt.Sprintf("i:%d", us), us >= 0 && us < 86400000000)
		}
	case "dur":
		us := Pick(r, []int64{0, 1, -1, 9223372036854775, -9223372036854775, 9223372036854776, -9223372036854776, 9223372036854775807,
			-9223372036854775808, 1000000, int64(r.U64()) >> uint(r.Intn(40))})
		return one(fmt.Sprintf("i:%d", us), us >= -9223372036854775 && us <= 9223372036854775)
	}
	panic("c08GenCell " + kind)
}

// c08GenWire builds a wr/wrx line for one leaf spec at a position.
func c08GenWire(r *Rng, sp c08Spec) string {
	name := Pick(r, c08Names)
	leaf := c08Leaf(sp.kind)
	exact := true
	cell := func(nullOK bool) []string {
		toks, ok := c08GenCell(r, sp.kind, sp.at, nullOK)
		exact = exact && ok
		return toks
	}
	var f c08Field
	var toks []string
	et := ""
	if sp.at != "" {
		et = "elem=" + sp.at
	}
	shape := r.Intn(5)
	if shape == 2 && sp.kind == "u8" { // []uint8 is []byte
		shape = 3
	}
	switch shape {
	case 0:
		f, toks = c08Field{Tag: c08JoinTag(name, sp.at), T: leaf}, cell(false)
	case 1:
		f, toks = c08Field{Tag: c08JoinTag(name, sp.at), T: c08Ptr(leaf)}, cell(true)
	case 2:
		n := r.Range(0, 4)
		toks = []string{fmt.Sprintf("l:%d", n)}
		for i := 0; i < n; i++ {
			toks = append(toks, cell(false)...)
		}
		f = c08Field{Tag: c08JoinTag(name, et), T: c08Sl(leaf)}
	case 3:
		n := r.Range(1, 4)
		toks = []string{fmt.Sprintf("l:%d", n)}
		for i := 0; i < n; i++ {
			toks = append(toks, cell(true)...)
		}
		f = c08Field{Tag: c08JoinTag(name, et), T: c08Sl(c08Ptr(leaf))}
	default:
		ct := leaf
		nullOK := r.Bool()
		if nullOK {
			ct = c08Ptr(leaf)
		}
		toks = append([]string{"r"}, cell(nullOK)...)
		f = c08Field{Tag: c08JoinTag(name, "struct"), T: c08St(c08Field{Tag: c08JoinTag("c", sp.at), T: ct})}
	}
	if sp.at == "" && r.Chance(25) { // map with sorted distinct string keys
		n := r.Range(0, 3)
		keys := []string{"", "a", "b", "c"}[:n]
		toks = []string{fmt.Sprintf("m:%d", n)}
		exact = true
		for _, k := range keys {
			toks = append(toks, fmt.Sprintf("s:%x", k))
			toks = append(toks, cell(true)...)
		}
		f = c08Field{Tag: name, T: c08Map(c08Leaf("str"), c08Ptr(leaf))}
	}
	op := "wr"
	if exact {
		op = "wrx"
	}
	return c08Line(op, c08St(f), toks)
}

// ---------------------------------------------------------------- the generator

func c08Gen(g *Gen) {
	r := g.Rng
	specs := c08SupportedSpecs()

	// (a) scalar edges at every position
	for i, n := 0, g.N(9000, 400000); i < n; i++ {
		sp := specs[r.Intn(len(specs))]
		if r.Chance(45) { // weight the conversions the theorems are about
			sp = Pick(r, []c08Spec{{"time", "date"}, {"time", "timestamp"}, {"time", "timestamp_utc"}, {"time", "time"}, {"dur", "duration"}, {"str", "decimal"}})
		}
		f, v := c08Wrap(r, sp, c08PosFor(r, sp))
		st := c08St(f)
		g.Case(c08Line("rt", st, (&c08Val{K: 'r', Elems: []*c08Val{v}}).tokens()))
	}
	// (b) wire-side cells
	for i, n := 0, g.N(3000, 150000); i < n; i++ {
		sp := specs[r.Intn(len(specs))]
		if r.Chance(45) {
			sp = Pick(r, []c08Spec{{"time", "date"}, {"time", "timestamp"}, {"time", "timestamp_utc"}, {"time", "time"}, {"dur", "duration"}, {"str", "decimal"}})
		}
		g.Case(c08GenWire(r, sp))
	}
	// (c) random struct types, nested
	tg := &c08TreeGen{r: r, specs: specs}
	for i, n := 0, g.N(2500, 80000); i < n; i++ {
		st, sv := tg.structTy(r.Range(0, 3), r.Range(1, 5))
		lines := []string{c08Line("rt", st, sv.tokens())}
		for k := 0; k < 2 && r.Chance(50); k++ { // the same type again: the memoized description is used
			lines = append(lines, c08Line("rt", st, tg.value(st, "").tokens()))
		}
		g.Case(lines...)
	}
	// (e) histories: k values of mixed types and sizes (a large one early), serialized back to back
	for i, n := 0, g.N(500, 20000); i < n; i++ {
		k := r.Range(2, 8)
		lines := make([]string, 0, k)
		big := r.Intn(k)
		var st *c08Ty
		var sv *c08Val
		for j := 0; j < k; j++ {
			switch {
			case j > 0 && r.Chance(30): // the same type again, another value
				sv = tg.value(st, "")
			case r.Chance(50):
				sp := specs[r.Intn(len(specs))]
				f, v := c08Wrap(r, sp, c08PosFor(r, sp))
				st, sv = c08St(f), &c08Val{K: 'r', Elems: []*c08Val{v}}
			default:
				st, sv = tg.structTy(r.Range(0, 2), r.Range(1, 4))
			}
			if j == big || r.Chance(15) { // pad with a long string so that later, smaller streams fit inside this one
				st = c08St(append(append([]c08Field{}, st.Fields...), c08Field{Tag: "pad", T: c08Leaf("str")})...)
				sv = &c08Val{K: 'r', Elems: append(append([]*c08Val{}, sv.Elems...), &c08Val{K: 's', S: []byte(strings.Repeat("p", r.Range(200, 3000)))})}
			}
			lines = append(lines, c08Line("rth", st, sv.tokens()))
		}
		g.Case(lines...)
	}
	// (f) collections that do not start at offset 0 of their Arrow child array: lists of maps and maps of
	// maps with pointer values and differing nil patterns, lists of lists with nil elements
	for i, n := 0, g.N(700, 20000); i < n; i++ {
		kind := Pick(r, []string{"i64", "i8", "u16", "str", "f64", "bool", "bytes"})
		leaf := c08Leaf(kind)
		mkMap := func() *c08Val {
			m := &c08Val{K: 'm'}
			keys := []string{"a", "b", "c", "d"}
			for j, nk := 0, r.Range(0, 4); j < nk; j++ {
				m.Keys = append(m.Keys, &c08Val{K: 's', S: []byte(keys[j])})
				if r.Chance(45) {
					m.Elems = append(m.Elems, &c08Val{K: 'n'})
				} else {
					m.Elems = append(m.Elems, c08GenLeaf(r, kind, ""))
				}
			}
			return m
		}
		var f c08Field
		var v *c08Val
		switch r.Intn(3) {
		case 0: // []map[string]*T
			f = c08Field{Tag: "lm", T: c08Sl(c08Map(c08Leaf("str"), c08Ptr(leaf)))}
			v = &c08Val{K: 'l'}
			for j, nm := 0, r.Range(2, 4); j < nm; j++ {
				v.Elems = append(v.Elems, mkMap())
			}
		case 1: // map[int32]map[string]*T
			f = c08Field{Tag: "mm", T: c08Map(c08Leaf("i32"), c08Map(c08Leaf("str"), c08Ptr(leaf)))}
			v = &c08Val{K: 'm'}
			for j, nm := 0, r.Range(2, 4); j < nm; j++ {
				v.Keys = append(v.Keys, &c08Val{K: 'i', I: big.NewInt(int64(j*7 - 3))})
				v.Elems = append(v.Elems, mkMap())
			}
		default: // [][]*T
			f = c08Field{Tag: "ll", T: c08Sl(c08Sl(c08Ptr(leaf)))}
			v = &c08Val{K: 'l'}
			for j, nl := 0, r.Range(2, 4); j < nl; j++ {
				in := &c08Val{K: 'l'}
				for q, ne := 0, r.Range(0, 3); q < ne; q++ {
					if r.Chance(45) {
						in.Elems = append(in.Elems, &c08Val{K: 'n'})
					} else {
						in.Elems = append(in.Elems, c08GenLeaf(r, kind, ""))
					}
				}
				v.Elems = append(v.Elems, in)
			}
		}
		g.Case(c08Line("rt", c08St(f), (&c08Val{K: 'r', Elems: []*c08Val{v}}).tokens()))
	}
	// (g) hand-written named string types with methods (Stringer, error, TextMarshaler, json.Marshaler,
	// Formatter) as field types, list elements, map values, map keys and struct children
	for i, n := 0, g.N(900, 20000); i < n; i++ {
		kind := Pick(r, c08NamedStringKinds)
		at := Pick(r, []string{"", "", "large_string", "enum", "dict_string", "decimal"})
		sp := c08Spec{kind, at}
		f, v := c08Wrap(r, sp, c08PosFor(r, sp))
		st := c08St(f)
		sv := &c08Val{K: 'r', Elems: []*c08Val{v}}
		if r.Chance(30) { // next to ordinary fields
			st2, sv2 := tg.structTy(0, r.Range(1, 2))
			st = c08St(append(st2.Fields, f)...)
			sv = &c08Val{K: 'r', Elems: append(sv2.Elems, v)}
		}
		g.Case(c08Line("rt", st, sv.tokens()))
	}
	g.Case("sc st 2 x636f6465 x niC x6c x sl ptr niC") // a named integer with String(): described by its kind
	// (h) concurrent first use of a struct type this process has never described
	for i, n := 0, g.N(300, 6000); i < n; i++ {
		st, sv := tg.structTy(r.Range(1, 3), r.Range(4, 9)) // many fields: a long reflection walk
		// a field name no other case uses makes the type new to the process-wide memo table
		st.Fields = append(st.Fields, c08Field{Tag: fmt.Sprintf("cc%d_%d_%d", g.Seed, i, r.Intn(1<<30)), T: c08Leaf("i64")})
		sv.Elems = append(sv.Elems, c08GenInt(r, "i64"))
		g.Case(c08Line("cc", st, sv.tokens()))
	}
	// (d) malformed / rejected: unsupported pairs, tag soup, over-deep nesting, odd shapes
	for i, n := 0, g.N(1200, 30000); i < n; i++ {
		switch r.Intn(4) {
		case 0:
			sp := Pick(r, c08RejectedSpecs)
			f, v := c08Wrap(r, sp, Pick(r, []int{0, 0, 1, 2, 4}))
			g.Case(c08Line("rt", c08St(f), (&c08Val{K: 'r', Elems: []*c08Val{v}}).tokens()))
		case 1: // tag soup on a leaf that tolerates any option text
			kind := Pick(r, []string{"i32", "u8", "str", "bytes", "bool", "i64", "f64"})
			soup := []string{"nullable", "default=1", "default=", "elem=int8", "elem=", "foo", "INT32", "int32 ", "", "nullable ", "struct",
				"fixed_binary[3", "fixed_binary[+2]", "fixed_binary[02]", "fixed_binary[ 2]", "fixed_binary[2]x", "int8", "uint64", "binary", "decimal", "date"}
			opts := []string{}
			for k, m := 0, r.Range(0, 4); k < m; k++ {
				o := Pick(r, soup)
				if kind != "str" && (o == "enum" || o == "large_string") {
					continue
				}
				if kind == "f64" && (o == "float32" || o == "duration") {
					continue
				}
				opts = append(opts, o)
			}
			tag := strings.Join(append([]string{Pick(r, c08Names)}, opts...), ",")
			f := c08Field{Tag: tag, T: c08Leaf(kind)}
			g.Case(c08Line("rt", c08St(f), (&c08Val{K: 'r', Elems: []*c08Val{c08GenLeaf(r, kind, "")}}).tokens()))
		case 2: // struct nesting 6..10 deep
			depth := r.Range(6, 10)
			t := c08St(c08Field{Tag: "leaf", T: c08Leaf("i32")})
			v := &c08Val{K: 'r', Elems: []*c08Val{c08GenInt(r, "i32")}}
			for d := 0; d < depth; d++ {
				t = c08St(c08Field{Tag: "s,struct", T: t})
				v = &c08Val{K: 'r', Elems: []*c08Val{v}}
			}
			g.Case(c08Line("rt", t, v.tokens()))
		default: // shapes the derivation refuses or treats specially
			shapes := []*c08Ty{
				c08St(c08Field{Tag: "p", T: c08Ptr(c08Ptr(c08Leaf("i32")))}),
				c08St(c08Field{Tag: "s", T: c08St(c08Field{Tag: "x", T: c08Leaf("i8")})}),
				c08St(c08Field{Tag: "s,struct", T: c08St(c08Field{Tag: "-", T: c08Leaf("i8")})}),
				c08St(c08Field{Tag: "s,struct", T: c08St()}),
				c08St(c08Field{Tag: "m", T: c08Map(c08Leaf("str"), c08Leaf("time"))}),
				c08St(c08Field{Tag: "m", T: c08Map(c08Leaf("str"), c08St(c08Field{Tag: "x", T: c08Leaf("i8")}))}),
				c08St(c08Field{Tag: "l", T: c08Sl(c08Leaf("time"))}),
				c08St(c08Field{Tag: "l,elem=date", T: c08Sl(c08Sl(c08Leaf("time")))}),
				c08St(c08Field{Tag: "l,int8", T: c08Sl(c08Leaf("i32"))}),
				c08St(c08Field{Tag: "l,binary", T: c08Sl(c08Leaf("i32"))}),
				c08St(c08Field{Tag: "m,date", T: c08Map(c08Leaf("str"), c08Leaf("i8"))}),
				c08St(c08Field{Tag: "", T: c08Leaf("i8")}, c08Field{Tag: "-", T: c08Leaf("str")}),
				c08St(),
				c08St(c08Field{Tag: "a", T: c08Leaf("i8")}, c08Field{Tag: "a", T: c08Leaf("str")}),
				c08St(c08Field{Tag: ",nullable", T: c08Leaf("i8")}),
				c08St(c08Field{Tag: "s,struct", T: c08St(c08Field{Tag: "a", T: c08Leaf("i8")}, c08Field{Tag: "a", T: c08Leaf("i16")})}),
				c08St(c08Field{Tag: "s,struct", T: c08St(c08Field{Tag: "a", ATag: "b", T: c08Leaf("i8")}, c08Field{Tag: "b", T: c08Leaf("i16")})}),
				c08St(c08Field{Tag: "s,struct", T: c08St(c08Field{Tag: "a", ATag: "b,omitempty", T: c08Leaf("i8")}, c08Field{Tag: "b", ATag: "a", T: c08Leaf("i8")})}),
			}
			t := Pick(r, shapes)
			v := tg.value(t, "")
			if r.Bool() {
				g.Case("sc " + strings.Join(t.tokens(), " "))
			} else {
				g.Case(c08Line("rt", t, v.tokens()))
			}
		}
	}
	if g.Thorough() {
		c08Exhaustive(g)
	}
}

// c08Exhaustive: every Go integer kind x wire type x edge value x position; every int32-day class
// boundary for dates.
func c08Exhaustive(g *Gen) {
	r := g.Rng
	for _, k := range c08IntKinds {
		lo, hi, _ := c08IntRange(k)
		for _, t := range c08IntTags {
			for _, e := range c08IntEdges {
				n := c08Big(e)
				if n.Cmp(lo) < 0 || n.Cmp(hi) > 0 {
					continue
				}
				for pos := 0; pos < 5; pos++ {
					if pos == 2 && k == "u8" { // []uint8 is []byte, not a list
						continue
					}
					var f c08Field
					var v *c08Val
					for { // c08Wrap draws its own values: overwrite them with the edge
						f, v = c08Wrap(r, c08Spec{k, t}, pos)
						break
					}
					c08Overwrite(v, n)
					g.Case(c08Line("rt", c08St(f), (&c08Val{K: 'r', Elems: []*c08Val{v}}).tokens()))
				}
			}
		}
	}
	for d := int64(-110000); d <= 110000; d += 997 {
		for _, s := range []int64{0, 1, 86399} {
			for _, at := range []string{"date", "timestamp", "time"} {
				v := &c08Val{K: 't', Sec: d*86400 + s, Nsec: 999999999}
				g.Case(c08Line("rt", c08St(c08Field{Tag: "d," + at, T: c08Leaf("time")}), (&c08Val{K: 'r', Elems: []*c08Val{v}}).tokens()))
			}
		}
	}
}

func c08Overwrite(v *c08Val, n *big.Int) {
	if v.K == 'i' {
		v.I = n
	}
	for _, e := range v.Elems {
		c08Overwrite(e, n)
	}
}
