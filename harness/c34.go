package main

import (
	"fmt"
	"hash/fnv"
	"strconv"
	"strings"

	"github.com/Query-farm/vgi-rpc-go/vgirpc"
	"github.com/apache/arrow-go/v18/arrow"
	"github.com/apache/arrow-go/v18/arrow/array"
	"github.com/apache/arrow-go/v18/arrow/memory"
)

// C34 — shared-memory allocator table consistency.
//
// Script ops (one segment per case):
//   new <dataSize>         create a segment with that many data bytes (plus the 64 KiB header)
//   alloc <n>              allocateLocked(n)            -> "ok <off> <hdr>" | "fail <hdr>"
//   free <off>             freeAtLocked(off)            -> "ok <hdr>" | "err <hdr>"
//   allocw <rows>          AllocateAndWrite(int64 batch of <rows> rows); the model line is enriched with the two
//                          Arrow-derived sizes (estimate, exact total)  -> "ok <off> <len> <hdr>" | "fail <hdr>"
//   fill <n> <size>        n times allocateLocked(size)  -> "filled <successes> <hdr>"
//   reset                  Reset()                      -> "ok <hdr>"
//   attachsz <delta>       attach with size+delta: must be refused unless delta = 0  -> "attach-ok=<bool>"
//   attach                 second attachment of the same OS object reads the table -> "table a:b,c:d"
// <hdr> is the hex of the live header prefix (24 fixed bytes + 16 per counted entry).

func init() {
	Register(&Prop{
		ID: "C34",
		Rule: "random allocate/free/reset/attach sequences on real POSIX segments; sizes drawn around the free-gap sizes; " +
			"a case is non-trivial when it has at least one successful-looking alloc and one free; distinct = distinct op scripts",
		Gen:  c34Gen,
		Exec: c34Exec,
		NonTrivial: func(lines []string) bool {
			a, f := false, false
			for _, l := range lines {
				if strings.HasPrefix(l, "alloc ") {
					a = true
				}
				if strings.HasPrefix(l, "free ") {
					f = true
				}
			}
			return a && f
		},
	})
}

func c34Gen(g *Gen) {
	r := g.Rng
	n := g.N(300, 6000)
	for i := 0; i < n; i++ {
		dataSize := Pick(r, []int{1, 16, 64, 100, 256, 1000, 4096, 8192, 12000, 20000, 65536})
		lines := []string{fmt.Sprintf("new %d", dataSize)}
		// shadow table so generated frees mostly hit live offsets and sizes sit near gap sizes
		type ent struct{ off, ln int }
		var tab []ent
		nops := r.Range(5, 60)
		for k := 0; k < nops; k++ {
			switch x := r.Intn(100); {
			case x < 50:
				var sz int
				switch r.Intn(7) {
				case 6:
					// huge requests: signed/unsigned overflow boundaries of offset+size
					sz = Pick(r, []int{1 << 62, 1<<63 - 1, 1<<63 - 65536, 1<<63 - 65537, 1<<63 - 65536 - dataSize, 1<<63 - 1 - 65536 - r.Range(0, dataSize), 1 << 40, -(1 << 62)})
				case 0:
					sz = r.Range(-2, 1)
				case 1:
					sz = dataSize + r.Range(-1, 1)
				case 2:
					sz = r.Range(1, 8)
				default:
					sz = r.Range(1, dataSize/4+2)
				}
				lines = append(lines, fmt.Sprintf("alloc %d", sz))
				// shadow first fit (only to steer generation)
				if sz > 0 {
					prev := 65536
					placed := false
					for j, e := range tab {
						if e.off-prev >= sz {
							tab = append(tab[:j], append([]ent{{prev, sz}}, tab[j:]...)...)
							placed = true
							break
						}
						prev = e.off + e.ln
					}
					if !placed && 65536+dataSize-prev >= sz {
						tab = append(tab, ent{prev, sz})
					}
				}
			case x < 62:
				lines = append(lines, fmt.Sprintf("allocw %d", Pick(r, []int{0, 1, 3, 17, 200, 5000})))
				tab = nil // sizes come from Arrow: stop steering, frees below fall back to guesses
			case x < 88:
				if len(tab) > 0 && r.Chance(85) {
					j := r.Intn(len(tab))
					lines = append(lines, fmt.Sprintf("free %d", tab[j].off))
					tab = append(tab[:j], tab[j+1:]...)
				} else {
					lines = append(lines, fmt.Sprintf("free %d", 65536+r.Range(-3, dataSize+3)))
				}
			case x < 92:
				lines = append(lines, "reset")
				tab = nil
			default:
				if r.Chance(30) {
					lines = append(lines, fmt.Sprintf("attachsz %d", Pick(r, []int{0, 1, -1, 4096, -4096, 65536, 8})))
				} else {
					lines = append(lines, "attach")
				}
			}
		}
		lines = append(lines, "attach")
		g.Case(lines...)
	}
	// write-batch refusals must not be sticky: fill, refused allocw, then reset / free, then the same allocw again
	for i := 0; i < g.N(12, 120); i++ {
		rows := Pick(r, []int{200, 1000, 5000})
		dataSize := Pick(r, []int{8192, 12000, 20000, 65536})
		lines := []string{fmt.Sprintf("new %d", dataSize), fmt.Sprintf("alloc %d", dataSize-r.Range(0, 64)), fmt.Sprintf("allocw %d", rows)}
		if r.Bool() {
			lines = append(lines, "reset")
		} else {
			lines = append(lines, "free 65536")
		}
		lines = append(lines, fmt.Sprintf("allocw %d", rows), fmt.Sprintf("allocw %d", rows), "attach")
		g.Case(lines...)
	}
	// table-capacity boundary: fill to just below ShmMaxAllocs, then cross it, free, re-cross
	for i := 0; i < g.N(6, 60); i++ {
		near := vgirpc.ShmMaxAllocs - r.Range(0, 3)
		lines := []string{"new 65536", fmt.Sprintf("fill %d 1", near)}
		for k := 0; k < r.Range(4, 12); k++ {
			switch r.Intn(4) {
			case 0:
				lines = append(lines, fmt.Sprintf("free %d", 65536+r.Intn(near)))
			case 1:
				lines = append(lines, fmt.Sprintf("fill %d 1", r.Range(1, 5)))
			default:
				lines = append(lines, fmt.Sprintf("alloc %d", r.Range(1, 3)))
			}
		}
		lines = append(lines, "attach")
		g.Case(lines...)
	}
	if g.Thorough() {
		// exhaustive: all op sequences of length <= 5 over a small alphabet on a 16-byte data area
		alpha := []string{"alloc 4", "alloc 8", "alloc 16", "free 65536", "free 65540", "free 65544", "reset"}
		var rec func(prefix []string, depth int)
		rec = func(prefix []string, depth int) {
			if depth == 0 {
				g.Case(append(append([]string{"new 16"}, prefix...), "attach")...)
				return
			}
			for _, a := range alpha {
				rec(append(append([]string{}, prefix...), a), depth-1)
			}
		}
		for d := 1; d <= 5; d++ {
			rec(nil, d)
		}
	}
}

func c34Exec(c *Case) {
	var seg *vgirpc.ShmSegment
	defer func() {
		if seg != nil {
			seg.Close()
		}
	}()
	hdr := func() string {
		h := seg.VerifHeaderPrefix()
		if n := (len(h) - 24) / 16; n > 64 {
			f := fnv.New64a()
			f.Write(h)
			return fmt.Sprintf("fnv:%d:%d", f.Sum64(), n)
		}
		return X(h)
	}
	for _, l := range c.Lines {
		f := strings.Fields(l)
		if len(f) == 0 {
			continue
		}
		if f[0] != "new" && seg == nil {
			c.Out(l, "err:no-segment")
			continue
		}
		switch f[0] {
		case "new":
			n, _ := strconv.Atoi(f[1])
			if seg != nil {
				seg.Close()
			}
			s, err := vgirpc.ShmCreate(vgirpc.ShmHeaderSize + n)
			if err != nil {
				panic(err)
			}
			seg = s
			c.Out(l, "ok "+hdr())
		case "alloc":
			n, _ := strconv.Atoi(f[1])
			before := seg.VerifTable()
			off, ok := seg.VerifAllocate(n)
			// property oracle: first fit / fails only when nothing fits
			{
				want, fits := uint64(0), false
				if n > 0 && len(before) < vgirpc.ShmMaxAllocs {
					prev := uint64(vgirpc.ShmHeaderSize)
					for _, e := range before {
						if e[0] >= prev && e[0]-prev >= uint64(n) {
							want, fits = prev, true
							break
						}
						prev = e[0] + e[1]
					}
					if !fits && uint64(seg.Size()) >= prev && uint64(seg.Size())-prev >= uint64(n) {
						want, fits = prev, true
					}
				}
				if fits && !ok {
					c.Oracle("alloc-failed-though-gap-fits", fmt.Sprintf("%q on table %v failed though a gap at %d fits", l, before, want))
				} else if !fits && ok {
					c.Oracle("alloc-succeeded-without-gap", fmt.Sprintf("%q on table %v returned %d though no gap fits", l, before, off))
				} else if fits && ok && off != want {
					c.Oracle("not-first-fit", fmt.Sprintf("%q on table %v returned %d, first fitting gap starts at %d", l, before, off, want))
				}
			}
			if ok {
				c.Stat("alloc-ok")
				c.Out(l, fmt.Sprintf("ok %d %s", off, hdr()))
			} else {
				c.Stat("alloc-fail")
				c.Out(l, "fail "+hdr())
			}
			c34Oracle(c, seg, l)
		case "fill":
			n, _ := strconv.Atoi(f[1])
			sz, _ := strconv.Atoi(f[2])
			okc := 0
			for i := 0; i < n; i++ {
				if _, ok := seg.VerifAllocate(sz); ok {
					okc++
				}
			}
			c.Stat("fill")
			c.Out(l, fmt.Sprintf("filled %d %s", okc, hdr()))
			c34Oracle(c, seg, l)
		case "free":
			n, _ := strconv.ParseUint(f[1], 10, 64)
			before := seg.VerifTable()
			err := seg.VerifFree(n)
			{
				after := seg.VerifTable()
				idx := -1
				for i, e := range before {
					if e[0] == n {
						idx = i
						break
					}
				}
				var want [][2]uint64
				if idx >= 0 {
					want = append(append(want, before[:idx]...), before[idx+1:]...)
				} else {
					want = before
				}
				if (idx >= 0) != (err == nil) || fmt.Sprint(want) != fmt.Sprint(after) {
					c.Oracle("free-not-exact", fmt.Sprintf("%q on %v gave %v (err=%v)", l, before, after, err))
				}
			}
			if err != nil {
				c.Stat("free-miss")
				c.Out(l, "err "+hdr())
			} else {
				c.Stat("free-ok")
				c.Out(l, "ok "+hdr())
			}
			c34Oracle(c, seg, l)
		case "allocw":
			rows, _ := strconv.Atoi(f[1])
			b := c34Batch(rows)
			est, tot, err := seg.VerifShmWireSizes(b)
			if err != nil {
				panic(err)
			}
			before := seg.VerifTable()
			off, ln, ok, err := seg.AllocateAndWrite(b)
			b.Release()
			ml := fmt.Sprintf("allocw %d %d %d", rows, est, tot)
			if err != nil {
				c.Out(ml, "err:"+err.Error())
			} else if ok {
				c.Stat("allocw-ok")
				c.Out(ml, fmt.Sprintf("ok %d %d %s", off, ln, hdr()))
				// oracle: the new region is exactly (off, ln), inside the data area, disjoint from the old ones
				if off < uint64(vgirpc.ShmHeaderSize) || off+uint64(ln) > uint64(seg.Size()) {
					c.Oracle("allocw-out-of-data-area", fmt.Sprintf("%q placed [%d,+%d) outside the data area", l, off, ln))
				}
				for _, e := range before {
					if off < e[0]+e[1] && e[0] < off+uint64(ln) {
						c.Oracle("allocw-overlaps", fmt.Sprintf("%q placed [%d,+%d) over existing %v", l, off, ln, e))
					}
				}
			} else {
				c.Stat("allocw-fail")
				c.Out(ml, "fail "+hdr())
				// a write-batch allocation may be refused only when the estimate or the exact size has no gap
				fits := func(n int) bool {
					if n <= 0 || len(before) >= vgirpc.ShmMaxAllocs {
						return false
					}
					prev := uint64(vgirpc.ShmHeaderSize)
					for _, e := range before {
						if e[0] >= prev && e[0]-prev >= uint64(n) {
							return true
						}
						prev = e[0] + e[1]
					}
					return uint64(seg.Size()) >= prev && uint64(seg.Size())-prev >= uint64(n)
				}
				if fits(est) && fits(tot) {
					c.Oracle("allocw-refused-though-fits", fmt.Sprintf("%q on table %v refused though estimate %d and size %d both fit", l, before, est, tot))
				}
			}
			c34Oracle(c, seg, l)
		case "reset":
			seg.Reset()
			c.Stat("reset")
			c.Out(l, "ok "+hdr())
		case "attachsz":
			// a peer attaching with a size that differs from the creator's must be refused by
			// header validation (data_size is part of the documented layout)
			delta, _ := strconv.Atoi(f[1])
			other, err := vgirpc.ShmAttach(seg.Name(), seg.Size()+delta, false)
			if err == nil {
				other.Close()
			}
			c.Stat("attachsz")
			if delta != 0 && err == nil {
				c.Oracle("attach-with-wrong-size-accepted", fmt.Sprintf("%q: attach with size %d accepted for a segment of size %d", l, seg.Size()+delta, seg.Size()))
			}
			if delta == 0 && err != nil {
				c.Oracle("attach-with-right-size-refused", err.Error())
			}
			c.Out(l, fmt.Sprintf("attach-ok=%v", err == nil))
		case "attach":
			other, err := vgirpc.ShmAttach(seg.Name(), seg.Size(), false)
			if err != nil {
				c.Out(l, "err:attach")
				c.Oracle("attach-failed", err.Error())
				continue
			}
			tab := other.VerifTable()
			verr := other.VerifValidateHeader()
			other.Close()
			parts := []string{}
			for _, e := range tab {
				parts = append(parts, fmt.Sprintf("%d:%d", e[0], e[1]))
			}
			c.Stat("attach")
			c.Out(l, fmt.Sprintf("table %s valid=%v", strings.Join(parts, ","), verr == nil))
		default:
			c.Out(l, "err:bad-op")
		}
	}
}

// c34Batch builds a one-column int64 batch with the given number of rows.
func c34Batch(rows int) arrow.RecordBatch {
	bld := array.NewInt64Builder(memory.DefaultAllocator)
	defer bld.Release()
	for i := 0; i < rows; i++ {
		bld.Append(int64(i))
	}
	arr := bld.NewArray()
	defer arr.Release()
	sch := arrow.NewSchema([]arrow.Field{{Name: "v", Type: arrow.PrimitiveTypes.Int64}}, nil)
	return array.NewRecordBatch(sch, []arrow.Array{arr}, int64(rows))
}

// c34Oracle states the property directly on the real table: sorted, disjoint, inside the data
// area, at most ShmMaxAllocs entries.
func c34Oracle(c *Case, seg *vgirpc.ShmSegment, after string) {
	tab := seg.VerifTable()
	if len(tab) > vgirpc.ShmMaxAllocs {
		c.Oracle("table-over-max", fmt.Sprintf("after %q: %d entries", after, len(tab)))
	}
	prev := uint64(vgirpc.ShmHeaderSize)
	for _, e := range tab {
		if e[0] < prev || e[1] == 0 || e[0]+e[1] > uint64(seg.Size()) || e[0]+e[1] < e[0] {
			c.Oracle("table-not-wf", fmt.Sprintf("after %q: table %v violates sorted/disjoint/in-bounds", after, tab))
			return
		}
		prev = e[0] + e[1]
	}
}
