package main

import (
	"fmt"
	"strings"
)

// ---- C19 generator ---------------------------------------------------------------------------

func c19Gen(g *Gen) {
	r := g.Rng
	n := g.N(900, 9000)
	for i := 0; i < n; i++ {
		switch x := r.Intn(100); {
		case x < 22:
			c19GenUnary(g)
		case x < 50:
			c19GenExchange(g)
		default:
			c19GenProducer(g)
		}
	}
	if g.Thorough() {
		c19GenExhaustive(g)
	}
}

var capOffsets = []int{-1, 0, 1, -1, 0, 1, -8, 8, -100, 100, -2, 2}

func c19Cfg(r *Rng, limit int) (line string, ext bool, thr int) {
	ext = r.Chance(55)
	thr = Pick(r, []int{1, rowsBufSize(8), rowsBufSize(25), rowsBufSize(100), rowsBufSize(200), rowsBufSize(500)}) // sizes some batch has exactly
	zstd := ext && r.Chance(6) // the server builds a fresh zstd encoder per upload (~40 ms): keep it rare
	return fmt.Sprintf("cfg cache=%d limit=%d ext=%d thr=%d zstd=%d", b2i(r.Chance(70)), limit, b2i(ext), thr, b2i(zstd)), ext, thr
}

// wireCap draws a wire cap word for a request with up to `cycles` cycles.
func wireCap(r *Rng, cycles int) string {
	switch x := r.Intn(100); {
	case x < 18:
		return "w0"
	case x < 24:
		return "w1"
	case x < 30:
		return fmt.Sprintf("w%d", 1<<r.Range(8, 30))
	default:
		k := 0
		if cycles > 0 && r.Chance(75) {
			k = r.Range(1, cycles)
		}
		return fmt.Sprintf("w~%d:%d", k, Pick(r, capOffsets))
	}
}

func extCap(r *Rng, ext bool, uploads int) string {
	if !ext {
		if r.Chance(85) {
			return "e0"
		}
		return Pick(r, []string{"e1", "e5000"})
	}
	switch x := r.Intn(100); {
	case x < 25:
		return "e0"
	case x < 30:
		return "e1"
	case x < 36:
		return fmt.Sprintf("e%d", 1<<r.Range(10, 30))
	case x < 68:
		k := 0
		if uploads > 0 {
			k = r.Range(1, uploads)
		}
		return fmt.Sprintf("e~%d:%d", k, Pick(r, capOffsets))
	default:
		k := 1
		if uploads > 1 {
			k = r.Range(1, uploads)
		}
		return fmt.Sprintf("e^%d:%d", k, Pick(r, capOffsets))
	}
}

func c19GenUnary(g *Gen) {
	r := g.Rng
	cfg, ext, thr := c19Cfg(r, 0)
	lines := []string{cfg}
	for k := r.Range(1, 5); k > 0; k-- {
		size := Pick(r, []int{0, 1, 7, 8, 100, thr - 9, thr - 8, thr - 7, thr, thr + 1, 2 * thr, 5000, 20000})
		if size < 0 {
			size = 0
		}
		mode := "ok"
		switch r.Intn(12) {
		case 0:
			mode = "fail"
		case 1:
			mode = "panic"
		}
		lines = append(lines, fmt.Sprintf("u %d %d %s %s %s", r.Intn(4), size, mode, wireCap(r, 0), extCap(r, ext, 1)))
	}
	g.Case(lines...)
}

// sizedEmit draws an emit whose data batch has a controlled number of rows (8 bytes each).
func sizedEmit(r *Rng, thr int, exchange bool) string {
	at := rowsAtThr(thr) // the batch of `at` rows has a buffer size exactly equal to the threshold
	rows := Pick(r, []int{0, 1, 3, at - 1, at, at + 1, 2 * at, 30, 120, 600})
	if rows < 0 {
		rows = 0
	}
	if rows > 2500 {
		rows = 2500
	}
	meta := ""
	if r.Chance(30) { // at most one key: with several, the batch's wire size depends on map order
		meta = hx(Pick(r, []string{"vgi_batch_index", "a", "k", "ключ", "zz"})) + "=" + hx(Pick(r, metaValues))
	}
	if exchange && r.Chance(25) {
		return fmt.Sprintf("e1:i%d:%s", r.Range(-2, 2), meta)
	}
	return fmt.Sprintf("e1:n%dx%d:%s", rows, r.Range(-3, 9), meta)
}

func sizedTick(r *Rng, thr int, exchange bool) string {
	var acts []string
	for i := r.Intn(3); i > 0; i-- {
		acts = append(acts, fmt.Sprintf("l%d", r.Intn(50)))
	}
	switch x := r.Intn(100); {
	case x < 84:
		acts = append(acts, sizedEmit(r, thr, exchange))
		if r.Chance(30) {
			acts = append(acts, fmt.Sprintf("l%d", r.Intn(50)))
		}
	case x < 88:
		// no data
	case x < 92:
		acts = append(acts, sizedEmit(r, thr, exchange), fmt.Sprintf("r%d", r.Intn(9)))
	case x < 95:
		acts = append(acts, fmt.Sprintf("p%d", r.Intn(9)))
	default:
		if exchange {
			acts = append(acts, sizedEmit(r, thr, exchange), sizedEmit(r, thr, exchange))
		} else {
			acts = append(acts, sizedEmit(r, thr, exchange), "f1")
		}
	}
	if len(acts) == 0 {
		return "_"
	}
	return strings.Join(acts, ";")
}

func c19GenExchange(g *Gen) {
	r := g.Rng
	cfg, ext, thr := c19Cfg(r, 0)
	lines := []string{cfg}
	n := r.Range(1, 5)
	ticks := make([]string, n)
	for i := range ticks {
		ticks[i] = sizedTick(r, thr, true)
	}
	prog := strings.Join(ticks, "/")
	parsed, _ := parseScriptProg(prog)
	lines = append(lines, fmt.Sprintf("init 0 ex ok %s w0 e0", prog))
	pos, tok, nTok := 0, 0, 1
	for t := r.Range(1, 6); t > 0; t-- {
		vals := genVals(r, 3)
		if r.Chance(25) {
			cnt := Pick(r, []int{rowsAtThr(thr) - 1, rowsAtThr(thr), rowsAtThr(thr) + 1, 200})
			if cnt < 1 {
				cnt = 1
			}
			vals = "c" + strings.TrimSuffix(strings.Repeat("5.", cnt), ".")
		}
		wc, ec := wireCap(r, 0), extCap(r, ext, 1)
		meta := genUserMeta(r, 2)
		meta = shuffleInsert(r, meta, hx(fwKeyState)+"="+fmt.Sprintf("T%d", tok))
		meta = shuffleInsert(r, meta, hx(fwKeyCall)+"=C0")
		lines = append(lines, fmt.Sprintf("x 0 ex ok %s %s %s %s", vals, strings.Join(meta, " "), wc, ec))
		// follow the new cursor only when the turn certainly succeeded (no caps in play)
		if wc == "w0" && ec == "e0" {
			if np, ok := shadowTurn(parsed, pos, false, 0); ok {
				pos, tok = np, nTok
				nTok++
			}
		} else if r.Chance(50) && wc != "w1" {
			// a capped turn may or may not mint; stay on the old cursor (replays are legal)
		}
		if wc != "w0" || ec != "e0" {
			// capped turns that succeed mint cursors the shadow does not know about: stop following
			// new ones, keep replaying `tok`
			nTok = 1 << 20
		}
	}
	g.Case(lines...)
}

func c19GenProducer(g *Gen) {
	r := g.Rng
	limit := Pick(r, []int{0, 0, 1, 2, 3, 5})
	cfg, ext, thr := c19Cfg(r, limit)
	// stream header: the producer method registered with a header type, the init returning none / a
	// small one / one larger than typical caps; it is written in front of the data stream on /init and
	// counts against max_response_bytes like everything else in the body
	hdrOn := r.Chance(45)
	cfg += fmt.Sprintf(" hdr=%d", b2i(hdrOn))
	hword := ""
	if r.Chance(map[bool]int{true: 75, false: 8}[hdrOn]) {
		hword = fmt.Sprintf(" H%d", Pick(r, []int{0, 0, 40, 300, 1000, 5000, 20000}))
	}
	lines := []string{cfg}
	n := r.Range(1, 9)
	ticks := make([]string, n)
	atThr := ext && thr >= 8 && r.Chance(25) // every data batch exactly AT the externalize threshold
	for i := range ticks {
		if atThr {
			t := fmt.Sprintf("e1:n%dx%d:", rowsAtThr(thr), r.Range(1, 9))
			if r.Chance(25) {
				t = fmt.Sprintf("l%d;", r.Intn(50)) + t
			}
			ticks[i] = t
			continue
		}
		if r.Chance(88) {
			t := sizedEmit(r, thr, false)
			if r.Chance(40) {
				t = fmt.Sprintf("l%d;", r.Intn(50)) + t
			}
			if r.Chance(15) {
				t += fmt.Sprintf(";l%d", r.Intn(50))
			}
			ticks[i] = t
		} else {
			ticks[i] = sizedTick(r, thr, false)
		}
	}
	// how the stream ends: Finish() in a call of its own, Finish() in the SAME call as the last
	// (possibly uploaded) data batch, or the script just runs out
	lastWithFinish := false
	switch r.Intn(10) {
	case 0, 1:
		ticks = append(ticks, "f1")
	case 2, 3, 4, 5:
		big := Pick(r, []int{rowsAtThr(thr), rowsAtThr(thr) + 1, 2 * rowsAtThr(thr), 120, 600})
		if big < 1 {
			big = 1
		}
		t := fmt.Sprintf("e1:n%dx%d:", big, r.Range(1, 9))
		if r.Chance(30) {
			t = fmt.Sprintf("l%d;", r.Intn(50)) + t
		}
		ticks = append(ticks, t+";f1")
		lastWithFinish = true
	}
	prog := strings.Join(ticks, "/")
	drainable := r.Chance(45) // external cap off everywhere: the drain theorem applies
	if (lastWithFinish && ext) || atThr {
		drainable = r.Chance(15)
	}
	ecap := func(up int) string {
		if drainable {
			return "e0"
		}
		if lastWithFinish && ext && r.Chance(60) {
			// aim at the pre-flight of the final upload (the one made in the finishing call)
			return fmt.Sprintf("e%s0:%d", Pick(r, []string{"^", "^", "~"}), Pick(r, capOffsets))
		}
		return extCap(r, ext, up)
	}
	wc := wireCap(r, n)
	if hword != "" && hdrOn && r.Chance(25) {
		wc = fmt.Sprintf("w%d", Pick(r, []int{200, 500, 1000, 3000, 8000})) // absolute: below / around / above the header's size
	}
	lines = append(lines, fmt.Sprintf("init 0 pr %s %s%s %s %s", Pick(r, []string{"absent", "ok"}), prog, hword, wc, ecap(n)))
	// continuation requests on whatever cursors exist (T0 exists iff the init turn stopped early)
	for t := r.Range(0, 5); t > 0; t-- {
		tok := fmt.Sprintf("T%d", r.Intn(t+1))
		if r.Chance(70) {
			tok = fmt.Sprintf("T%d", len(lines)-2) // the newest one if every turn so far minted
		}
		meta := genUserMeta(r, 1)
		meta = shuffleInsert(r, meta, hx(fwKeyState)+"="+tok)
		meta = shuffleInsert(r, meta, hx(fwKeyCall)+"=C0")
		lines = append(lines, fmt.Sprintf("x 0 pr empty c %s %s %s", strings.Join(meta, " "), wireCap(r, n), ecap(n)))
	}
	if drainable {
		lines = append(lines, fmt.Sprintf("drain T%d %s", r.Intn(2), Pick(r, []string{"w0", "w1", "w300", "w700", "w1500", "w5000", "w100000"})))
	}
	g.Case(lines...)
}

// c19GenExhaustive (thorough): every wire-cap position of a fixed 5-cycle producer, with every
// batch limit 0..3, followed by a drain.
func c19GenExhaustive(g *Gen) {
	prog := "e1:n10x1:/l1;e1:n40x2:/e1:n5x3:;l2/e1:n80x4:/e1:n1x5:"
	for limit := 0; limit <= 3; limit++ {
		for k := 0; k <= 5; k++ {
			for _, d := range []int{-1, 0, 1} {
				g.Case(fmt.Sprintf("cfg cache=1 limit=%d ext=0 thr=1 zstd=0", limit),
					fmt.Sprintf("init 0 pr ok %s w~%d:%d e0", prog, k, d),
					fmt.Sprintf("x 0 pr empty c %s=T0 %s=C0 w~1:%d e0", hx(fwKeyState), hx(fwKeyCall), d),
					"drain T0 w"+fmt.Sprint(200+100*k+d))
			}
		}
	}
	finProg := "e1:n40x1:/l1;e1:n40x2:/e1:n40x3:;f1"
	for _, limit := range []int{0, 2} {
		for _, form := range []string{"^", "~"} {
			for k := 0; k <= 3; k++ {
				for _, d := range []int{-1, 0, 1} {
					g.Case(fmt.Sprintf("cfg cache=1 limit=%d ext=1 thr=64 zstd=0", limit),
						fmt.Sprintf("init 0 pr ok %s w0 e%s%d:%d", finProg, form, k, d),
						fmt.Sprintf("x 0 pr empty c %s=T0 %s=C0 w0 e%s0:%d", hx(fwKeyState), hx(fwKeyCall), form, d))
				}
			}
		}
	}
	for _, thr := range []int{1, 80, 400} {
		for k := 1; k <= 4; k++ {
			for _, d := range []int{-1, 0, 1} {
				for _, form := range []string{"~", "^"} {
					g.Case(fmt.Sprintf("cfg cache=1 limit=0 ext=1 thr=%d zstd=0", thr),
						fmt.Sprintf("init 0 pr ok %s w0 e%s%d:%d", prog, form, k, d))
				}
			}
		}
	}
}
