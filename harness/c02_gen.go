package main

import (
	"fmt"
	"strconv"
	"strings"
)

// Generator for C02: histories of client calls drawn from the categories below. Every call is
// emitted as a frame-level `op` line, so the model sees exactly the metadata, schemas and
// batches the server sees.

type c02Method struct {
	name   string
	kind   string // unary | producer | exchange | dynamic
	params []c02Field
	header bool
}

var c02P3f = []c02Field{{"a", "int64", false}, {"b", "int64", false}, {"c", "int64", false}}
var c02P1f = []c02Field{{"a", "int64", false}}
var c02P2sf = []c02Field{{"a", "int64", false}, {"s", "utf8", false}}

var c02Unaries = []c02Method{
	{"u3", "unary", c02P3f, false}, {"u1", "unary", c02P1f, false}, {"u0", "unary", nil, false},
	{"us", "unary", c02P2sf, false}, {"v3", "unary", c02P3f, false},
}
var c02StreamsM = []c02Method{
	{"p3", "producer", c02P3f, false}, {"ph3", "producer", c02P3f, true},
	{"x3", "exchange", c02P3f, false}, {"xh1", "exchange", c02P1f, true}, {"d3", "dynamic", c02P3f, true},
}

const (
	c02KMethod  = "vgi_rpc.method"
	c02KVersion = "vgi_rpc.request_version"
	c02KReqID   = "vgi_rpc.request_id"
	c02KPv      = "vgi_rpc.protocol_version"
	c02KCancel  = "vgi_rpc.cancel"
)

func c02SchemaStr(fs []c02Field) string {
	if len(fs) == 0 {
		return "-"
	}
	var p []string
	for _, f := range fs {
		n := "0"
		if f.nullable {
			n = "1"
		}
		p = append(p, f.name+":"+f.typ+":"+n)
	}
	return strings.Join(p, ",")
}

func c02CellsStr(cs []int64) string {
	if len(cs) == 0 {
		return "-"
	}
	var p []string
	for _, c := range cs {
		p = append(p, strconv.FormatInt(c, 10))
	}
	return strings.Join(p, ",")
}

func c02MetaStr(m [][2]string) string {
	if len(m) == 0 {
		return "-"
	}
	var p []string
	for _, kv := range m {
		p = append(p, c02Hex(kv[0])+"="+c02Hex(kv[1]))
	}
	return strings.Join(p, ",")
}

func c02BatchStr(rows int, cells []int64, meta [][2]string) string {
	if rows == 0 {
		cells = nil
	}
	return fmt.Sprintf("B %d %s %s", rows, c02CellsStr(cells), c02MetaStr(meta))
}

type c02G struct {
	g    *Gen
	pvOn bool
	seq  int
}

func (x *c02G) reqID() (string, bool) {
	r := x.g.Rng
	x.seq++
	switch r.Intn(12) {
	case 0:
		return "", false // no request id at all
	case 1:
		return string(r.Bytes(r.Range(1, 6))), true // arbitrary bytes
	case 2:
		return "ü-" + strconv.Itoa(x.seq), true
	}
	return "r" + strconv.Itoa(x.seq), true
}

// protocol_version values: components around 2^63 / 2^64 and of 19/20/21/40 digits are canonical
// semver too (the gate compares them with arbitrary precision); only major.minor = 1.2 is admitted
var c02GoodPv = []string{"1.2.0", "1.2.7", "1.2.10", "1.2.999", "1.2.18446744073709551615", "1.2.18446744073709551616",
	"1.2.99999999999999999999", "1.2.9999999999999999999999999999999999999999", "1.2.9223372036854775808"}
var c02BadPv = []string{"1.3.0", "2.0.0", "0.9.1", "1.2", "junk", "", "01.2.0", "1.02.0", "1.2.0-rc1", "12.0.0",
	"18446744073709551615.0.0", "18446744073709551616.0.0", "18446744073709551616.2.0", "99999999999999999999.0.0",
	"1.18446744073709551616.0", "1.99999999999999999999.0", "1.18446744073709551615.0", "9223372036854775807.2.0", "9223372036854775808.2.0",
	"1.9223372036854775808.0", "1234567890123456789.2.0", "123456789012345678901.2.0", "1.123456789012345678901.0",
	"9999999999999999999999999999999999999999.2.0", "1.9999999999999999999999999999999999999999.0", "+1.2.0", "-1.2.0", "1.-2.0", "1.+2.0",
	"1.2.0\xff", "\xff", " 1.2.0", "1.2.0 ", "1..0", "..", "1.2.0.0", "١.٢.٠"}

// meta builds the request batch metadata. goodPv: the effective protocol_version is admitted.
func (x *c02G) meta(method string, goodPv bool) [][2]string {
	r := x.g.Rng
	var m [][2]string
	m = append(m, [2]string{c02KMethod, method}, [2]string{c02KVersion, "1"})
	if id, ok := x.reqID(); ok {
		m = append(m, [2]string{c02KReqID, id})
	}
	if goodPv {
		if x.pvOn || r.Chance(30) {
			if r.Chance(15) { // an earlier, refused duplicate: the LAST one is the effective one
				m = append(m, [2]string{c02KPv, Pick(r, c02BadPv)})
			}
			m = append(m, [2]string{c02KPv, Pick(r, c02GoodPv)})
		}
	} else {
		switch r.Intn(3) {
		case 0: // absent
		case 1:
			m = append(m, [2]string{c02KPv, Pick(r, c02BadPv)})
		default: // a good one overridden by a later bad one
			m = append(m, [2]string{c02KPv, Pick(r, c02GoodPv)}, [2]string{c02KPv, Pick(r, c02BadPv)})
		}
	}
	// extras that must not matter
	for r.Chance(25) {
		switch r.Intn(6) {
		case 0:
			m = append(m, [2]string{"traceparent", "00-0af7651916cd43dd8448eb211c80319c-b7ad6b7169203331-01"})
		case 1:
			m = append(m, [2]string{c02KMethod, "u3"}) // later duplicate of the method key: ignored
		case 2:
			m = append(m, [2]string{c02KReqID, "dup"}) // later duplicate: ignored
		case 3:
			m = append(m, [2]string{c02KCancel, "1"}) // cancel key on a request: ignored
		case 4:
			m = append(m, [2]string{"vgi_rpc.stream_state#b64", "AAAA"})
		default:
			m = append(m, [2]string{string(r.Bytes(r.Range(1, 5))), string(r.Bytes(r.Range(0, 5)))})
		}
	}
	// rotate the leading well-known keys sometimes (their relative order is irrelevant)
	if r.Chance(20) && len(m) >= 2 {
		m[0], m[1] = m[1], m[0]
	}
	return m
}

func (x *c02G) small() int64 { return int64(x.g.Rng.Range(-3, 40)) }

// mismatch mutates a parameter schema so that Schema.Equal fails.
func (x *c02G) mismatch(fs []c02Field) []c02Field {
	r := x.g.Rng
	out := append([]c02Field{}, fs...)
	if len(out) == 0 {
		return []c02Field{{"a", Pick(r, []string{"int64", "utf8"}), false}}
	}
	i := r.Intn(len(out))
	switch r.Intn(8) {
	case 0:
		out[i].typ = Pick(r, []string{"utf8", "int32", "float64", "bool", "binary"})
		if out[i].typ == fs[i].typ {
			out[i].typ = "int32"
		}
	case 1:
		out = append(out[:i], out[i+1:]...) // missing column
		if len(out) == 0 && r.Bool() {
			return nil
		}
	case 2:
		out = append(out, c02Field{"extra", "int64", false})
	case 3:
		out[i].name = out[i].name + "x"
	case 4:
		out[i].nullable = !out[i].nullable
	case 5:
		if len(out) >= 2 {
			out[0], out[len(out)-1] = out[len(out)-1], out[0]
		} else {
			out[i].name = "z"
		}
	case 6:
		return nil // empty schema
	default:
		out = append([]c02Field{{"pre", "utf8", true}}, out...)
	}
	return out
}

func (x *c02G) reqStream(schema []c02Field, rows int, cells []int64, meta [][2]string) string {
	return "S " + c02SchemaStr(schema) + " " + c02BatchStr(rows, cells, meta)
}

func (x *c02G) ticks(n int, cancelAt int) string {
	var p []string
	p = append(p, "S -")
	for i := 0; i < n; i++ {
		var meta [][2]string
		if i == cancelAt {
			meta = [][2]string{{c02KCancel, Pick(x.g.Rng, []string{"", "1", "true"})}}
		}
		p = append(p, c02BatchStr(0, nil, meta))
	}
	return strings.Join(p, " ")
}

func (x *c02G) dataInput(schema []c02Field, n int, cancelAt int) string {
	var p []string
	p = append(p, "S "+c02SchemaStr(schema))
	for i := 0; i < n; i++ {
		var meta [][2]string
		rows := 1
		if i == cancelAt {
			meta = [][2]string{{c02KCancel, ""}}
			if x.g.Rng.Bool() {
				rows = 0
			}
		} else if x.g.Rng.Chance(8) {
			rows = Pick(x.g.Rng, []int{0, 2})
		}
		cells := make([]int64, len(schema))
		for j := range cells {
			cells[j] = x.small()
		}
		p = append(p, c02BatchStr(rows, cells, meta))
	}
	return strings.Join(p, " ")
}

var c02VIn = []c02Field{{"v", "int64", false}}

// streamCall emits one call of a stream method. mode a, count b, failAt c.
func (x *c02G) streamCall(cat string, m c02Method, a, b, c int64, schema []c02Field, goodPv bool, inputVariant string) string {
	r := x.g.Rng
	cells := []int64{a, b, c}[:len(m.params)]
	if len(schema) != len(m.params) { // mismatching schema: cells just fill the columns
		cells = make([]int64, len(schema))
		for i := range cells {
			cells[i] = x.small()
		}
	}
	req := x.reqStream(schema, 1, cells, x.meta(m.name, goodPv))
	// which interface will the state be driven through?
	exchange := m.kind == "exchange" || (m.kind == "dynamic" && ((a >= 20 && a <= 29) || a == 6))
	n := r.Range(0, int(b)+3)
	if n > 12 {
		n = 12
	}
	cancelAt := -1
	if inputVariant == "cancel" && n > 0 {
		cancelAt = r.Intn(n)
	}
	var in string
	switch {
	case inputVariant == "empty":
		if exchange {
			in = "S " + c02SchemaStr(c02VIn)
		} else {
			in = "S -"
		}
	case !exchange:
		in = x.ticks(n, cancelAt)
	default:
		sch := c02VIn
		switch inputVariant {
		case "int32":
			sch = []c02Field{{"v", "int32", false}}
		case "utf8":
			sch = []c02Field{{"v", "utf8", false}}
		case "renamed":
			sch = []c02Field{{"w", "int64", false}}
		case "twocols":
			sch = []c02Field{{"v", "int64", false}, {"w", "int64", false}}
		case "nullable":
			sch = []c02Field{{"v", "int64", true}}
		case "ticks":
			sch = nil
		}
		if n == 0 && inputVariant != "" && inputVariant != "cancel" {
			n = 1
		}
		in = x.dataInput(sch, n, cancelAt)
	}
	return "op w:" + cat + " " + req + " " + in
}

func (x *c02G) goodStreamMode() int64 {
	return Pick(x.g.Rng, []int64{0, 0, 0, 7, 8, 9, 10, 17, 18, 30})
}

// op returns one well-shaped call of a random category.
func (x *c02G) op() string {
	r := x.g.Rng
	um := Pick(r, c02Unaries)
	sm := Pick(r, c02StreamsM)
	ucells := func(a int64) []int64 {
		return []int64{a, x.small(), x.small()}[:len(um.params)]
	}
	goodA := Pick(r, []int64{0, 0, 3, 6, 7, 25})
	if um.name == "u0" {
		goodA = 0
	}
	b, c := int64(r.Range(0, 5)), int64(r.Range(0, 5))
	n := 40
	if x.pvOn {
		n = 44
	}
	if r.Chance(6) {
		// shared-memory pointer batches on a connection that never advertised a segment: the
		// request (zero rows + shm_offset, no log level) is refused with IOError, and the input
		// stream of a registered stream method is drained; a pointer INPUT batch ends the stream
		ptr := [][2]string{{"vgi_rpc.shm_offset", Pick(r, []string{"0", "64", ""})}, {"vgi_rpc.shm_length", "8"}}
		switch r.Intn(4) {
		case 0:
			m := append(x.meta(um.name, true), ptr...)
			return "op w:pointer-request-unary " + x.reqStream(um.params, 0, nil, m)
		case 1:
			m := append(x.meta(sm.name, true), ptr...)
			return "op w:pointer-request-stream " + x.reqStream(sm.params, 0, nil, m) + " " + x.ticks(r.Range(0, 3), -1)
		case 2:
			m := append(x.meta(Pick(r, []string{"nope", "__describe__"}), true), ptr...)
			return "op w:pointer-request-unknown " + x.reqStream(nil, 0, nil, m)
		default:
			cells := []int64{0, 3, 99}[:len(sm.params)]
			in := "S - " + c02BatchStr(0, nil, nil) + " " + c02BatchStr(0, nil, ptr) + " " + c02BatchStr(0, nil, nil)
			if sm.kind == "exchange" {
				in = "S " + c02SchemaStr(c02VIn) + " " + c02BatchStr(1, []int64{4}, nil) + " " + c02BatchStr(0, nil, ptr) + " " + c02BatchStr(1, []int64{5}, nil)
			}
			return "op w:pointer-input-batch " + x.reqStream(sm.params, 1, cells, x.meta(sm.name, true)) + " " + in
		}
	}
	switch k := r.Intn(n); {
	case k < 6:
		return "op w:unary-ok " + x.reqStream(um.params, 1, ucells(goodA), x.meta(um.name, true))
	case k < 8:
		if um.name == "u0" {
			um = c02Unaries[0]
		}
		return "op w:unary-handler-error " + x.reqStream(um.params, 1, []int64{Pick(r, []int64{1, 4}), 1, 1}[:len(um.params)], x.meta(um.name, true))
	case k < 10:
		if um.name == "u0" {
			um = c02Unaries[1]
		}
		return "op w:unary-handler-panic " + x.reqStream(um.params, 1, []int64{Pick(r, []int64{2, 5}), 1, 1}[:len(um.params)], x.meta(um.name, true))
	case k < 12:
		sch := x.mismatch(um.params)
		cells := make([]int64, len(sch))
		return "op w:unary-param-mismatch " + x.reqStream(sch, 1, cells, x.meta(um.name, true))
	case k < 13:
		m := x.meta(um.name, true)
		var m2 [][2]string
		for _, kv := range m {
			if kv[0] != c02KMethod {
				m2 = append(m2, kv)
			}
		}
		return "op w:no-method " + x.reqStream(um.params, 1, ucells(0), m2)
	case k < 14:
		bad := Pick(r, []string{"\xff", "u3\xc0", "\xed\xa0\x80", "\xf4\x90\x80\x80", "\xc0\xaf", "a\xe2\x82"})
		return "op w:bad-utf8-method " + x.reqStream(um.params, 1, ucells(0), x.meta(bad, true))
	case k < 16:
		m := x.meta(Pick(r, []string{um.name, sm.name}), true)
		var m2 [][2]string
		for _, kv := range m {
			if kv[0] == c02KVersion {
				switch r.Intn(3) {
				case 0:
					continue // missing
				case 1:
					kv[1] = Pick(r, []string{"2", "0", "", "1.0", " 1", "01"})
				default:
					kv[1] = "2"
				}
			}
			m2 = append(m2, kv)
		}
		return "op w:bad-version " + x.reqStream(um.params, 1, ucells(0), m2)
	case k < 18:
		if um.name == "u0" {
			um = c02Unaries[0]
		}
		return "op w:bad-rows " + x.reqStream(um.params, Pick(r, []int{0, 2, 3}), ucells(0), x.meta(Pick(r, []string{um.name, sm.name}), true))
	case k < 20:
		name := Pick(r, []string{"nope", "", "U3", "u3 ", "ü", "__describe", "p3x", "\uFFFD", "u3\uFFFD", "\uFFFF", "\U0010FFFF", "\uD7FF\uE000"})
		return "op w:unknown-method " + x.reqStream(um.params, 1, ucells(0), x.meta(name, true))
	case k < 21:
		return "op w:describe " + x.reqStream(nil, 1, nil, x.meta("__describe__", r.Bool()))
	case k < 22:
		return "op w:transport-options " + x.reqStream(nil, Pick(r, []int{0, 1}), nil, x.meta("__transport_options__", r.Bool()))
	case k < 26:
		v := Pick(r, []string{"", "", "cancel", "int32", "nullable", "empty"})
		return x.streamCall("stream-ok", sm, x.goodStreamMode(), b, 99, sm.params, true, v)
	case k < 29:
		sch := x.mismatch(sm.params)
		return x.streamCall("stream-param-mismatch", sm, 0, b, 99, sch, true, Pick(r, []string{"", "", "cancel", "empty"}))
	case k < 31:
		a := Pick(r, []int64{1, 2, 3})
		cat := map[int64]string{1: "stream-init-error", 2: "stream-init-panic", 3: "stream-nil-result"}[a]
		return x.streamCall(cat, sm, a, b, 99, sm.params, true, Pick(r, []string{"", "empty", "cancel"}))
	case k < 33:
		// a state object of the wrong type for the method
		a := int64(4)
		if r.Bool() {
			if sm.kind == "producer" {
				a = 6
			} else if sm.kind == "exchange" {
				a = 5
			}
		}
		return x.streamCall("stream-bad-state", sm, a, b, 99, sm.params, true, "")
	case k < 36:
		a := Pick(r, []int64{11, 12})
		cat := map[int64]string{11: "stream-mid-error", 12: "stream-mid-panic"}[a]
		return x.streamCall(cat, sm, a, b+1, c%(b+1), sm.params, true, "")
	case k < 38:
		a := Pick(r, []int64{13, 14, 15, 16})
		return x.streamCall("stream-contract", sm, a, b+1, c%(b+1), sm.params, true, "")
	case k < 39:
		xm := Pick(r, []c02Method{c02StreamsM[2], c02StreamsM[3]})
		return x.streamCall("stream-input-cast", xm, 0, b, 99, xm.params, true, Pick(r, []string{"utf8", "renamed", "twocols", "ticks"}))
	case k < 40:
		// dynamic method driven as an exchange, with / without a declared input schema
		a := Pick(r, []int64{20, 21, 21, 22})
		return x.streamCall("stream-dynamic-exchange", c02StreamsM[4], a, b, 99, c02P3f, true, Pick(r, []string{"", "int32", "utf8", "cancel"}))
	case k < 42:
		return "op w:unary-pv-refusal " + x.reqStream(um.params, 1, ucells(goodA), x.meta(um.name, false))
	default:
		return x.streamCall("stream-pv-refusal", sm, x.goodStreamMode(), b, 99, sm.params, false, Pick(r, []string{"", "cancel", "empty"}))
	}
}

// illOp returns a call that is NOT well-shaped (the client and the server disagree on the
// number of streams); used for the model/implementation correspondence only.
func (x *c02G) illOp() string {
	r := x.g.Rng
	sm := Pick(r, c02StreamsM)
	um := c02Unaries[0]
	switch r.Intn(5) {
	case 0: // stream call without an input stream
		cells := []int64{0, 2, 99}[:len(sm.params)]
		return "op i:stream-no-input " + x.reqStream(sm.params, 1, cells, x.meta(sm.name, true))
	case 1: // unary call followed by a stray tick stream
		return "op i:unary-stray-input " + x.reqStream(um.params, 1, []int64{0, 1, 2}, x.meta(um.name, true)) + " " + x.ticks(r.Range(0, 2), -1)
	case 2: // an IPC stream without any batch where a request is expected
		return "op i:empty-request S " + c02SchemaStr(Pick(r, [][]c02Field{nil, c02P1f}))
	case 3: // garbage request followed by an input stream
		return "op i:garbage-with-input " + x.reqStream(nil, 0, nil, nil) + " " + x.ticks(r.Range(0, 2), -1)
	default: // unknown method followed by an input stream
		return "op i:unknown-with-input " + x.reqStream(nil, 1, nil, x.meta("nope", true)) + " " + x.ticks(1, -1)
	}
}

func c02Gen(g *Gen) {
	r := g.Rng
	n := g.N(1500, 20000)
	maxLen := g.N(8, 30)
	for i := 0; i < n; i++ {
		x := &c02G{g: g, pvOn: r.Chance(40)}
		lines := []string{"pv " + map[bool]string{true: "on", false: "off"}[x.pvOn]}
		k := r.Range(1, maxLen)
		ill := r.Chance(12)
		illAt := r.Intn(k)
		for j := 0; j < k; j++ {
			if ill && j == illAt {
				lines = append(lines, x.illOp())
			} else {
				lines = append(lines, x.op())
			}
		}
		lines = append(lines, "end")
		g.Case(lines...)
	}
	if g.Thorough() {
		// exhaustive: every history of length <= 4 over a fixed 9-call alphabet
		meta := func(m, id string) string {
			return c02MetaStr([][2]string{{c02KMethod, m}, {c02KVersion, "1"}, {c02KReqID, id}})
		}
		alpha := []string{
			"op w:unary-ok S a:int64:0,b:int64:0,c:int64:0 B 1 0,3,1 " + meta("u3", "A"),
			"op w:no-method S - B 0 - -",
			"op w:unknown-method S - B 1 - " + meta("nope", "C"),
			"op w:unary-param-mismatch S a:utf8:0 B 1 1 " + meta("u1", "D"),
			"op w:stream-ok S a:int64:0,b:int64:0,c:int64:0 B 1 0,2,99 " + meta("ph3", "E") + " S - B 0 - - B 0 - - B 0 - - B 0 - -",
			"op w:stream-param-mismatch S a:int64:0 B 1 0 " + meta("p3", "F") + " S - B 0 - -",
			"op w:stream-init-error S a:int64:0,b:int64:0,c:int64:0 B 1 1,2,99 " + meta("x3", "G") + " S v:int64:0 B 1 5 -",
			"op w:stream-mid-error S a:int64:0,b:int64:0,c:int64:0 B 1 11,3,1 " + meta("p3", "H") + " S - B 0 - - B 0 - - B 0 - -",
			"op w:stream-cancel S a:int64:0,b:int64:0,c:int64:0 B 1 0,3,99 " + meta("x3", "I") + " S v:int64:0 B 1 4 - B 1 5 " + c02MetaStr([][2]string{{c02KCancel, ""}}) + " B 1 6 -",
		}
		var rec func(prefix []string, depth int)
		rec = func(prefix []string, depth int) {
			if depth == 0 {
				g.Case(append(append([]string{"pv off"}, prefix...), "end")...)
				return
			}
			for _, a := range alpha {
				rec(append(append([]string{}, prefix...), a), depth-1)
			}
		}
		for d := 1; d <= 4; d++ {
			rec(nil, d)
		}
	}
}
