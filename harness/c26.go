package main

import (
	"bytes"
	"context"
	"crypto/sha256"
	"encoding/hex"
	"encoding/json"
	"errors"
	"fmt"
	"io"
	"log/slog"
	"net/http"
	"net/http/httptest"
	"sort"
	"strconv"
	"strings"
	"sync"
	"time"

	"github.com/Query-farm/vgi-rpc-go/vgirpc"
)

// C26 — Token introspection never becomes an open credential oracle.
//
// Script ops (one server per case; byte strings as x<hex>):
//
//   cfg <enabled 0|1> <principals: -|xA,xB> <defaultTTL> <rate> <authmode: func|none>
//        real HttpServer (+ EnableTokenIntrospection when enabled); the limiter window is set to one
//        hour through the verif hook so only scripted `shift`s move its clock
//   shift <ns>                       advance the limiter's clock
//   req <auth> <cl: auto|n> xBODY <res> [t:xREMOTEADDR:xXFF:xUSERAGENT]
//        POST {prefix}/__introspect_token__ in-process (hs.ServeHTTP) with a body reader that records
//        whether it was touched
//   <auth> = anon | fail-value | fail-unavail | fail-other | ok:xPRINCIPAL | unauth:xPRINCIPAL
//   <res>  = unknown | id:xPRINCIPAL:xNAME:<ttl> | no:xPRINCIPAL:xNAME:<ttl> | unavail:<retryAfter>:xERRTEXT
//            | r:<ok 0|1>:<err nil|unavail|other>:<retryAfter>:xERR:xPRINCIPAL:xNAME:<ttl>   (what the resolver
//            answers for whatever credential it is handed; it records every credential it sees)
//
// Model line: `req <ctx|fail> <cl> xBODY <json> <res>` where <json> is encoding/json's decoding of the
// body into struct{Token string `json:"token"`} (library behaviour handed to the model as input).

const c26Window = time.Hour

func init() {
	Register(&Prop{
		ID: "C26",
		Rule: "per case one real HttpServer; callers (anonymous, failing authenticators, authenticated but unlisted, unauthenticated with a listed name, listed) x " +
			"bodies (JSON shapes, escapes, duplicate keys, 8192/8193 bytes, lying Content-Length) x credentials (opaque, JWS-shaped variants, 4095/4096/4097 chars) x " +
			"resolver outcomes x bursts around the per-window budget with clock shifts across window boundaries; non-trivial = at least one req line; distinct = distinct scripts",
		Gen:  c26Gen,
		Exec: c26Exec,
		NonTrivial: func(lines []string) bool {
			for _, l := range lines {
				if strings.HasPrefix(l, "req ") {
					return true
				}
			}
			return false
		},
	})
}

// ---- log capture

type c26Rec struct {
	msg   string
	attrs []string
}

type c26LogHandler struct {
	mu   sync.Mutex
	recs []c26Rec
}

func (h *c26LogHandler) Enabled(context.Context, slog.Level) bool { return true }
func (h *c26LogHandler) Handle(_ context.Context, r slog.Record) error {
	rec := c26Rec{msg: r.Message}
	r.Attrs(func(a slog.Attr) bool {
		rec.attrs = append(rec.attrs, a.Key+"="+a.Value.String())
		return true
	})
	h.mu.Lock()
	h.recs = append(h.recs, rec)
	h.mu.Unlock()
	return nil
}
func (h *c26LogHandler) WithAttrs([]slog.Attr) slog.Handler { return h }
func (h *c26LogHandler) WithGroup(string) slog.Handler      { return h }
func (h *c26LogHandler) take() []c26Rec {
	h.mu.Lock()
	defer h.mu.Unlock()
	r := h.recs
	h.recs = nil
	return r
}

var c26Log = &c26LogHandler{}

// ---- body reader that notices being read

type c26Body struct {
	r     *bytes.Reader
	reads int
}

func (b *c26Body) Read(p []byte) (int, error) { b.reads++; return b.r.Read(p) }
func (b *c26Body) Close() error               { return nil }

// ---- environment

type c26Env struct {
	hs        *vgirpc.HttpServer
	enabled   bool
	allow     map[string]bool
	rate      int
	mu        sync.Mutex
	calls     []string
	res       string
	shadowWin map[string]int // admitted per caller since the last (shadow) reset — oracle only
	shadowAt  int64
	shadowNow int64
	started   bool
	hasAuth   bool
}

func c26Digest(s string) string {
	h := sha256.Sum256([]byte(s))
	return hex.EncodeToString(h[:])
}

func newC26Env(enabled bool, principals []string, ttl, rate int, authmode string) (*c26Env, string) {
	hs, err := vgirpc.NewHttpServerWithKey(vgirpc.NewServer(), []byte("verif-c26-signing-key-0123456789"))
	if err != nil {
		panic(err)
	}
	e := &c26Env{hs: hs, allow: map[string]bool{}, shadowWin: map[string]int{}}
	if authmode == "func" {
		e.hasAuth = true
		hs.SetAuthenticate(func(r *http.Request) (*vgirpc.AuthContext, error) {
			a := r.Header.Get("X-Verif-Auth")
			switch {
			case a == "anon":
				return vgirpc.Anonymous(), nil
			case a == "fail-value":
				return nil, &vgirpc.RpcError{Type: "ValueError", Message: "bad credential"}
			case a == "fail-unavail":
				return nil, vgirpc.NewAuthUnavailable("authority down")
			case a == "fail-other":
				return nil, errors.New("boom")
			case strings.HasPrefix(a, "ok:"):
				return &vgirpc.AuthContext{Domain: "verif", Authenticated: true, Principal: UnXS(a[3:])}, nil
			case strings.HasPrefix(a, "unauth:"):
				return &vgirpc.AuthContext{Domain: "verif", Authenticated: false, Principal: UnXS(a[7:])}, nil
			}
			return vgirpc.Anonymous(), nil
		})
	}
	status := "disabled"
	if enabled {
		err := hs.EnableTokenIntrospection(vgirpc.TokenIntrospectionConfig{
			Principals:         principals,
			DefaultTTLSeconds:  ttl,
			RateLimitPerSecond: rate,
			Resolver: func(credential string) (vgirpc.TokenIdentity, bool, error) {
				e.mu.Lock()
				e.calls = append(e.calls, credential)
				res := e.res
				e.mu.Unlock()
				f := strings.Split(res, ":")
				switch f[0] {
				case "r":
					// full product: r:<ok>:<err nil|unavail|other>:<retryAfter>:xERR:xPRINCIPAL:xNAME:<ttl>
					ra, _ := strconv.Atoi(f[3])
					t, _ := strconv.Atoi(f[7])
					id := vgirpc.TokenIdentity{Principal: UnXS(f[5]), TokenName: UnXS(f[6]), TTLSeconds: t}
					switch f[2] {
					case "unavail":
						ue := vgirpc.NewAuthUnavailable(UnXS(f[4]))
						ue.RetryAfter = ra
						return id, f[1] == "1", ue
					case "other":
						return id, f[1] == "1", errors.New(UnXS(f[4]))
					}
					return id, f[1] == "1", nil
				case "no":
					t, _ := strconv.Atoi(f[3])
					return vgirpc.TokenIdentity{Principal: UnXS(f[1]), TokenName: UnXS(f[2]), TTLSeconds: t}, false, nil
				case "id":
					t, _ := strconv.Atoi(f[3])
					return vgirpc.TokenIdentity{Principal: UnXS(f[1]), TokenName: UnXS(f[2]), TTLSeconds: t}, true, nil
				case "unavail":
					ra, _ := strconv.Atoi(f[1])
					if ra == -1 {
						return vgirpc.TokenIdentity{}, false, errors.New(UnXS(f[2]))
					}
					ue := vgirpc.NewAuthUnavailable(UnXS(f[2]))
					ue.RetryAfter = ra
					return vgirpc.TokenIdentity{}, false, ue
				}
				return vgirpc.TokenIdentity{}, false, nil
			},
		})
		if err != nil {
			status = "err:config"
		} else {
			status = "ok"
			e.enabled = true
			hs.VerifC26SetLimiterWindow(c26Window)
			for _, p := range principals {
				if p != "" {
					e.allow[p] = true
				}
			}
			e.rate = rate
			if rate <= 0 {
				e.rate = 20
			}
		}
	}
	hs.InitPages()
	return e, status
}

func c26Exec(c *Case) {
	slog.SetDefault(slog.New(c26Log))
	var env *c26Env
	for _, l := range c.Lines {
		f := strings.Split(l, " ")
		switch f[0] {
		case "cfg":
			if len(f) != 6 {
				c.Out(l, "err:bad-script")
				continue
			}
			ps, ok := c26List(f[2])
			if !ok {
				c.Out(l, "err:bad-script")
				continue
			}
			ttl, _ := strconv.Atoi(f[3])
			rate, _ := strconv.Atoi(f[4])
			var st string
			env, st = newC26Env(f[1] == "1", ps, ttl, rate, f[5])
			c26Log.take()
			c.Out(fmt.Sprintf("cfg %s %s %d %d %d", f[1], f[2], ttl, rate, int64(c26Window)), st)
		case "shift":
			if len(f) != 2 || env == nil {
				c.Out(l, "err:bad-script")
				continue
			}
			d, _ := strconv.ParseInt(f[1], 10, 64)
			env.hs.VerifC26AdvanceLimiterClock(time.Duration(d))
			env.shadowNow += d
			c.Out(l, "ok")
		case "req":
			if (len(f) != 5 && len(f) != 6) || env == nil {
				c.Out(l, "err:bad-script")
				continue
			}
			c26Req(c, env, l, f)
		default:
			c.Out(l, "err:bad-script")
		}
	}
}

func c26List(s string) ([]string, bool) {
	if s == "-" {
		return nil, true
	}
	var out []string
	for _, it := range strings.Split(s, ",") {
		b, ok := UnX(it)
		if !ok {
			return nil, false
		}
		out = append(out, string(b))
	}
	return out, true
}

func c26Req(c *Case, env *c26Env, l string, f []string) {
	auth, clSpec, body, res := f[1], f[2], MustUnX(f[3]), f[4]
	env.mu.Lock()
	env.calls, env.res = nil, res
	env.mu.Unlock()
	c26Log.take()

	rb := &c26Body{r: bytes.NewReader(body)}
	req := httptest.NewRequest(http.MethodPost, vgirpc.IntrospectEndpoint, nil)
	req.Body = rb
	cl := int64(len(body))
	if clSpec != "auto" {
		cl, _ = strconv.ParseInt(clSpec, 10, 64)
	}
	req.ContentLength = cl
	req.Header.Set("Content-Type", "application/json")
	req.Header.Set("X-Verif-Auth", auth)
	if len(f) == 6 {
		// transport identity, independent of the caller principal: t:xREMOTEADDR:xFORWARDEDFOR:xUSERAGENT
		// (the model never sees it: the budget belongs to the principal, however it connects)
		if tf := strings.Split(f[5], ":"); len(tf) == 4 && tf[0] == "t" {
			if ra := UnXS(tf[1]); ra != "" {
				req.RemoteAddr = ra
			}
			if xf := UnXS(tf[2]); xf != "" {
				req.Header.Set("X-Forwarded-For", xf)
				req.Header.Set("Forwarded", "for="+xf)
				req.Header.Set("X-Real-IP", xf)
			}
			if ua := UnXS(tf[3]); ua != "" {
				req.Header.Set("User-Agent", ua)
			}
			c.Stat("transport-identity-varied")
		}
	}
	rec := httptest.NewRecorder()
	env.hs.ServeHTTP(rec, req)
	resp := rec.Result()
	respBody, _ := io.ReadAll(resp.Body)
	recs := c26Log.take()
	env.mu.Lock()
	calls := append([]string{}, env.calls...)
	env.mu.Unlock()

	// ---- model line: authenticator outcome, encoding/json's reading of the body
	mAuth, authorized, caller := "", false, ""
	switch {
	case !env.authFunc(auth):
		mAuth = "ctx:0:x"
	case auth == "anon":
		mAuth = "ctx:0:x"
	case strings.HasPrefix(auth, "fail-"):
		mAuth = "fail"
	case strings.HasPrefix(auth, "ok:"):
		mAuth = "ctx:1:" + auth[3:]
		caller = UnXS(auth[3:])
		authorized = env.allow[caller]
	case strings.HasPrefix(auth, "unauth:"):
		mAuth = "ctx:0:" + auth[7:]
	default:
		mAuth = "ctx:0:x"
	}
	var jb struct {
		Token string `json:"token"`
	}
	mJSON := "-"
	cred, haveCred := "", false
	if err := json.Unmarshal(body, &jb); err == nil {
		mJSON = XS(jb.Token)
		cred, haveCred = jb.Token, true
	}
	mRes, resOK, resErr := res, res != "unknown" && !strings.HasPrefix(res, "no:"), strings.HasPrefix(res, "unavail:")
	if rf := strings.Split(res, ":"); rf[0] == "r" && len(rf) == 8 {
		resOK, resErr = rf[1] == "1", rf[2] != "nil"
		switch {
		case rf[2] == "unavail":
			mRes = fmt.Sprintf("unavail:%s:%s", rf[3], rf[4])
			if rf[3] == "-1" {
				mRes = fmt.Sprintf("unavail:0:%s", rf[4]) // an AuthUnavailableError with a non-positive hint: the default
			}
		case rf[2] == "other":
			mRes = fmt.Sprintf("unavail:-1:%s", rf[4])
		case rf[1] == "1":
			mRes = fmt.Sprintf("id:%s:%s:%s", rf[5], rf[6], rf[7])
		default:
			mRes = fmt.Sprintf("no:%s:%s:%s", rf[5], rf[6], rf[7])
		}
	}
	modelLine := fmt.Sprintf("req %s %d %s %s %s", mAuth, cl, f[3], mJSON, mRes)

	// ---- observation
	var obs string
	status := resp.StatusCode
	ra := resp.Header.Get("Retry-After")
	if ra == "" {
		ra = "-"
	}
	if strings.HasPrefix(auth, "fail-") && env.enabled && env.authFunc(auth) {
		want := map[string]int{"fail-value": 401, "fail-unavail": 503, "fail-other": 500}[auth]
		if status == want {
			obs = "auth-answered"
		} else {
			obs = fmt.Sprintf("auth-unexpected-%d", status)
		}
		c.Stat("auth-answered")
	} else if status == 200 {
		var m map[string]any
		if err := json.Unmarshal(respBody, &m); err != nil {
			obs = "ok-unparsable " + X(respBody)
		} else {
			p, _ := m["principal"].(string)
			n, _ := m["token_name"].(string)
			t, _ := m["ttl_seconds"].(float64)
			obs = fmt.Sprintf("ok %s %s %d", XS(p), XS(n), int64(t))
			keys := make([]string, 0, len(m))
			for k := range m {
				keys = append(keys, k)
			}
			sort.Strings(keys)
			if strings.Join(keys, ",") != "principal,token_name,ttl_seconds" {
				c.Oracle("response-carries-extra-fields", fmt.Sprintf("%q: keys %v", l, keys))
			}
		}
		c.Stat("resolved")
	} else {
		obs = fmt.Sprintf("refusal %d %s ra=%s", status, strings.TrimSpace(string(respBody)), ra)
		c.Stat(fmt.Sprintf("refusal-%d", status))
	}
	read := 0
	if rb.reads > 0 {
		read = 1
	}
	callsS := "-"
	if len(calls) > 0 {
		xs := make([]string, len(calls))
		for i, s := range calls {
			xs[i] = XS(s)
		}
		callsS = strings.Join(xs, ",")
	}
	dcount := 0
	digest := ""
	if haveCred {
		digest = c26Digest(cred)
	}
	for _, r := range recs {
		for _, a := range r.attrs {
			if digest != "" && strings.HasSuffix(a, "="+digest) {
				dcount++
				break
			}
		}
	}
	c.Out(modelLine, fmt.Sprintf("%s read=%d calls=%s log=%s", obs, read, callsS, strings.Repeat("d", dcount)))

	// ---- the property, directly
	if !env.enabled {
		if len(calls) > 0 || status != 404 {
			c.Oracle("disabled-route-resolves", fmt.Sprintf("%q: status %d, resolver calls %d on a server without introspection", l, status, len(calls)))
		}
	}
	if env.enabled && !authorized {
		if len(calls) > 0 {
			c.Oracle("resolver-reached-by-unauthorized-caller", fmt.Sprintf("%q: resolver called for caller %q", l, caller))
		}
		if read == 1 {
			c.Oracle("subject-read-before-authorization", fmt.Sprintf("%q: body read for a caller that may not introspect", l))
		}
		if !strings.HasPrefix(auth, "fail-") || !env.authFunc(auth) {
			if status != 403 || string(respBody) != `{"error":"not_an_introspector"}` {
				c.Oracle("forbidden-not-uniform", fmt.Sprintf("%q: status %d body %q", l, status, respBody))
			}
		}
	}
	for _, cc := range calls {
		switch {
		case !haveCred || cc != cred:
			c.Oracle("resolver-got-other-credential", fmt.Sprintf("%q: resolver saw %q", l, cc))
		case c26JWS(cc):
			c.Oracle("jws-reached-resolver", fmt.Sprintf("%q: JWS-shaped credential handed to the resolver", l))
		case len(cc) > 4096 || cc == "":
			c.Oracle("oversized-credential-reached-resolver", fmt.Sprintf("%q: %d chars", l, len(cc)))
		case len(body) > 8192:
			c.Oracle("oversized-body-reached-resolver", fmt.Sprintf("%q: body of %d bytes", l, len(body)))
		}
	}
	if len(calls) > 1 {
		c.Oracle("resolver-called-twice", fmt.Sprintf("%q: %d calls", l, len(calls)))
	}
	// rate bound on the shadow window (window boundaries are the scripted shifts only)
	if env.enabled && authorized {
		if !env.started || env.shadowNow-env.shadowAt >= int64(c26Window) {
			env.started, env.shadowAt, env.shadowWin = true, env.shadowNow, map[string]int{}
		}
		admitted := status != 429
		if admitted {
			env.shadowWin[caller]++
			if env.shadowWin[caller] > env.rate {
				c.Oracle("rate-limit-exceeded", fmt.Sprintf("%q: caller %q admitted %d times in one window (limit %d)", l, caller, env.shadowWin[caller], env.rate))
			}
		} else {
			c.Stat("rate-limited")
			if len(calls) > 0 || read == 1 {
				c.Oracle("rate-limited-call-still-served", fmt.Sprintf("%q: 429 but resolver calls=%d read=%d", l, len(calls), read))
			}
		}
	}
	// one fixed 404 for everything unresolvable
	if env.enabled && authorized && status != 429 && status != 200 && status != 503 {
		if status != 404 || string(respBody) != `{"error":"unresolved"}` {
			c.Oracle("unresolved-not-uniform-404", fmt.Sprintf("%q: status %d body %q", l, status, respBody))
		}
	}
	// the resolver said ok=false (no error): whatever identity it filled in alongside, the answer
	// is the one fixed 404
	if len(calls) > 0 && !resOK && !resErr {
		c.Stat("resolver-said-no")
		if status != 404 || string(respBody) != `{"error":"unresolved"}` {
			c.Oracle("unresolved-not-uniform-404", fmt.Sprintf("%q: resolver answered ok=false but the response is %d %q", l, status, respBody))
		}
	}
	if len(calls) > 0 && resErr && status != 503 {
		c.Oracle("resolver-error-not-503", fmt.Sprintf("%q: resolver returned an error but the response is %d %q", l, status, respBody))
	}
	// the credential never appears in a response or a log line
	if haveCred && len(cred) >= 8 {
		hay := []string{string(respBody)}
		for k, vs := range resp.Header {
			hay = append(hay, k+": "+strings.Join(vs, ","))
		}
		for _, h := range hay {
			if c26Leaks(h, cred) {
				c.Oracle("credential-in-response", fmt.Sprintf("%q: response part %q contains (part of) the credential", l, h))
			}
		}
		for _, r := range recs {
			line := r.msg + " " + strings.Join(r.attrs, " ")
			if c26Leaks(line, cred) {
				c.Oracle("credential-in-log", fmt.Sprintf("%q: log record %q contains (part of) the credential", l, line))
			}
		}
	}
}

func (e *c26Env) authFunc(string) bool { return e.hasAuth }

// c26Leaks: hay contains the credential or any 8-byte window of it.
func c26Leaks(hay, cred string) bool {
	if strings.Contains(hay, cred) {
		return true
	}
	for i := 0; i+8 <= len(cred); i++ {
		if strings.Contains(hay, cred[i:i+8]) {
			return true
		}
	}
	return false
}

// c26JWS states the regular expression by hand: seg '.' seg '.' seg*, segments over [A-Za-z0-9_-],
// the first two non-empty.
func c26JWS(s string) bool {
	parts := strings.Split(s, ".")
	if len(parts) != 3 || parts[0] == "" || parts[1] == "" {
		return false
	}
	for _, p := range parts {
		for i := 0; i < len(p); i++ {
			ch := p[i]
			if !(ch >= 'A' && ch <= 'Z' || ch >= 'a' && ch <= 'z' || ch >= '0' && ch <= '9' || ch == '_' || ch == '-') {
				return false
			}
		}
	}
	return true
}
