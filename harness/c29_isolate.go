package main

import (
	"bufio"
	"context"
	"encoding/json"
	"fmt"
	"os"
	"os/exec"
	"path/filepath"
	"strings"
	"time"
)

// Process isolation for C29. A defect in the lock handling can end in a Go *fatal* error ("sync:
// unlock of unlocked mutex"), which no recover() can stop and which would take the whole run —
// including every oracle failure already found — down with it. So the real code is only ever run
// in child processes of this same binary (`harness exec C29`, VERIF_C29_CHILD=1): generated cases
// in batches, corpus and replay cases one by one. A batch whose child dies is re-run case by case;
// the case that kills its child is reported as oracle class `process-crash` with the runtime's
// message, and all other cases keep their own observations and oracle results.

const c29ChildEnv = "VERIF_C29_CHILD"

type c29Result struct {
	modelIn []string
	implOut []string
	oracles [][2]string
	stats   map[string]int
}

var c29Cache = map[string]*c29Result{}

func c29Key(lines []string) string { return strings.Join(lines, "\n") }

func c29Exec(c *Case) {
	if os.Getenv(c29ChildEnv) == "1" {
		c29ExecLocal(c)
		return
	}
	res := c29Cache[c29Key(c.Lines)]
	if res == nil {
		res = c29RunChildren([][]string{c.Lines})[0]
	} else {
		delete(c29Cache, c29Key(c.Lines))
	}
	for i := range res.modelIn {
		c.Out(res.modelIn[i], res.implOut[i])
	}
	for _, o := range res.oracles {
		c.Oracle(o[0], o[1])
	}
	for k, v := range res.stats {
		for j := 0; j < v; j++ {
			c.Stat(k)
		}
	}
}

func c29Gen(gen *Gen) {
	var all [][]string
	inner := &Gen{Rng: gen.Rng, Tier: gen.Tier, Seed: gen.Seed, emit: func(lines []string) {
		all = append(all, append([]string(nil), lines...))
	}}
	c29GenLocal(inner)
	const batch = 60
	for i := 0; i < len(all); i += batch {
		j := min(i+batch, len(all))
		res := c29RunChildren(all[i:j])
		for k, r := range res {
			c29Cache[c29Key(all[i+k])] = r
		}
		for k := i; k < j; k++ {
			gen.Case(all[k]...)
		}
	}
}

func c29ReadCases(path string) [][]string {
	f, err := os.Open(path)
	if err != nil {
		return nil
	}
	defer f.Close()
	var out [][]string
	sc := bufio.NewScanner(f)
	sc.Buffer(make([]byte, 1<<20), 1<<28)
	for sc.Scan() {
		l := sc.Text()
		if strings.HasPrefix(l, "#case") {
			out = append(out, []string{})
			continue
		}
		if len(out) > 0 {
			out[len(out)-1] = append(out[len(out)-1], l)
		}
	}
	return out
}

// c29RunChildren executes the cases in one child process; on any failure it falls back to one child
// per case.
func c29RunChildren(cases [][]string) []*c29Result {
	res, ok, msg := c29TryChild(cases)
	if ok {
		return res
	}
	if len(cases) == 1 {
		r := &c29Result{stats: map[string]int{"process-crash": 1}}
		for _, l := range cases[0] {
			r.modelIn = append(r.modelIn, l)
			r.implOut = append(r.implOut, "!crash")
		}
		r.oracles = append(r.oracles, [2]string{"process-crash", "running this script against the server kills the process: " + msg})
		return []*c29Result{r}
	}
	var out []*c29Result
	for _, cs := range cases {
		out = append(out, c29RunChildren([][]string{cs})[0])
	}
	return out
}

func c29TryChild(cases [][]string) ([]*c29Result, bool, string) {
	dir, ok, msg := c29Child(cases)
	if dir != "" {
		defer os.RemoveAll(dir)
	}
	if !ok {
		return nil, false, msg
	}
	mi := c29ReadCases(filepath.Join(dir, "model_in.txt"))
	io := c29ReadCases(filepath.Join(dir, "impl.out"))
	if len(mi) != len(cases) || len(io) != len(cases) {
		return nil, false, "child produced incomplete output"
	}
	res := make([]*c29Result, len(cases))
	for i := range cases {
		if len(mi[i]) != len(io[i]) {
			return nil, false, "child produced incomplete output"
		}
		res[i] = &c29Result{modelIn: mi[i], implOut: io[i], stats: map[string]int{}}
	}
	if f, err := os.Open(filepath.Join(dir, "oracle.jsonl")); err == nil {
		sc := bufio.NewScanner(f)
		sc.Buffer(make([]byte, 1<<20), 1<<28)
		for sc.Scan() {
			var o OracleFailure
			if json.Unmarshal(sc.Bytes(), &o) == nil && o.Case >= 1 && o.Case <= len(cases) {
				res[o.Case-1].oracles = append(res[o.Case-1].oracles, [2]string{o.Class, o.Desc})
			}
		}
		f.Close()
	}
	if b, err := os.ReadFile(filepath.Join(dir, "stats.json")); err == nil {
		var st Stats
		if json.Unmarshal(b, &st) == nil {
			res[0].stats = st.Distribution
		}
	}
	return res, true, ""
}

// c29Child runs `harness exec C29` on the cases; ok=false when the child died or timed out.
func c29Child(cases [][]string) (dir string, ok bool, msg string) {
	dir, err := os.MkdirTemp("", "verif-c29-child-")
	if err != nil {
		return "", false, err.Error()
	}
	var b strings.Builder
	for i, cs := range cases {
		fmt.Fprintf(&b, "#case %d\n", i+1)
		for _, l := range cs {
			b.WriteString(oneLine(l))
			b.WriteByte('\n')
		}
	}
	if err := os.WriteFile(filepath.Join(dir, "script.txt"), []byte(b.String()), 0o644); err != nil {
		return dir, false, err.Error()
	}
	ctx, cancel := context.WithTimeout(context.Background(), time.Duration(60+5*len(cases))*time.Second)
	defer cancel()
	cmd := exec.CommandContext(ctx, os.Args[0], "exec", "C29", "--dir", dir)
	cmd.Env = append(os.Environ(), c29ChildEnv+"=1")
	var stderr strings.Builder
	cmd.Stderr = &stderr
	err = cmd.Run()
	if err != nil {
		msg = err.Error()
		// the runtime's own explanation, if any
		for _, l := range strings.Split(stderr.String(), "\n") {
			if strings.HasPrefix(l, "fatal error:") || strings.HasPrefix(l, "panic:") {
				msg = strings.TrimSpace(l)
				break
			}
		}
		if ctx.Err() != nil {
			msg = "timed out: " + msg
		}
		return dir, false, msg
	}
	return dir, true, ""
}
