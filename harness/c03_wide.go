package main

import (
	"bufio"
	"bytes"
	"crypto/x509"
	"encoding/hex"
	"fmt"
	"io"
	"log"
	"net"
	"net/http"
	"net/http/httptest"
	"strings"
	"time"

	"github.com/Query-farm/vgi-rpc-go/vgirpc"
	"github.com/apache/arrow-go/v18/arrow"
)

// C03, widened HTTP family: "client bytes" are also the request line and the HEADERS, and the
// property speaks about every route the mux answers. These cases go to servers that have the
// shipped authenticators installed and every optional route enabled, over a RAW TCP client (so
// header values may hold any byte except CR/LF), and are judged by the oracles only: the server
// must answer with a complete HTTP response and must not log a panic.
//
//	hx <cfg> <VERB> <request-target x..> <headers> <mut> <tag> body [{S ...} | x<hex>]
//	    <cfg>     = plain | xfcc | xfccv | pem | pemfp | bearer | proof | chain
//	    <headers> = - | hexname=hexvalue,...   (value "@PROOF": a freshly minted valid proxy
//	                proof; "@PROOFREPLAY": the previous one again)
//
// Every configuration has: upload-URL provider, token introspection, sticky sessions, describe /
// landing / not-found pages, OAuth resource metadata + PKCE routes, CORS, max_request_bytes.

type c03Provider struct{}

func (c03Provider) GenerateUploadURL(*arrow.Schema) (vgirpc.UploadURL, error) {
	return vgirpc.UploadURL{UploadURL: "https://up.example/u", DownloadURL: "https://up.example/d", ExpiresAt: time.Unix(2000000000, 0)}, nil
}

var c03ProofKey = bytes.Repeat([]byte{0x42}, 32)

const c03ProofNow = int64(2000000000)

var c03Wide = map[string]*c03HTTP{}

func c03WideAuth(cfg string) (vgirpc.AuthenticateFunc, error) {
	who := &vgirpc.AuthContext{Domain: "bearer", Authenticated: true, Principal: "introspector"}
	bearer := vgirpc.BearerAuthenticateStatic(map[string]*vgirpc.AuthContext{"tok1": who, "tok2": {Domain: "bearer", Authenticated: true, Principal: "bob"}})
	xfcc, err := vgirpc.MtlsAuthenticateXfcc(vgirpc.MtlsAuthenticateXfccConfig{})
	if err != nil {
		return nil, err
	}
	pem, err := vgirpc.MtlsAuthenticateSubject(vgirpc.MtlsAuthenticateSubjectConfig{CheckExpiry: true})
	if err != nil {
		return nil, err
	}
	switch cfg {
	case "plain":
		return nil, nil
	case "xfcc":
		return xfcc, nil
	case "xfccv":
		return vgirpc.MtlsAuthenticateXfcc(vgirpc.MtlsAuthenticateXfccConfig{SelectElement: "last",
			Validate: func(e vgirpc.XfccElement) (*vgirpc.AuthContext, error) {
				if e.Subject == "" && e.Hash == "" {
					return nil, &vgirpc.RpcError{Type: "ValueError", Message: "no identity"}
				}
				return &vgirpc.AuthContext{Domain: "mtls", Authenticated: true, Principal: e.Subject, Claims: map[string]any{"uri": e.URI, "dns": e.DNS}}, nil
			}})
	case "pem":
		return pem, nil
	case "pemfp":
		return vgirpc.MtlsAuthenticateFingerprint(vgirpc.MtlsAuthenticateFingerprintConfig{
			Fingerprints: map[string]*vgirpc.AuthContext{strings.Repeat("ab", 32): who}, Algorithm: "sha256"})
	case "pemv":
		return vgirpc.MtlsAuthenticate(vgirpc.MtlsAuthenticateConfig{Validate: func(c *x509.Certificate) (*vgirpc.AuthContext, error) {
			return &vgirpc.AuthContext{Domain: "mtls", Authenticated: true, Principal: c.Subject.CommonName}, nil
		}})
	case "bearer":
		return bearer, nil
	case "proof":
		return vgirpc.ProofAuthenticate(vgirpc.ProofConfig{Mode: vgirpc.ProofModeRequire, OriginID: "origin-1",
			Secrets: map[string]vgirpc.ProofSecret{"k1": {Secret: c03ProofKey, Label: "proxy"}}, SkewSeconds: 300,
			Now: func() time.Time { return time.Unix(c03ProofNow, 0) }}, bearer)
	case "chain":
		return vgirpc.ChainAuthenticate(xfcc, pem, bearer), nil
	}
	return nil, fmt.Errorf("unknown configuration %q", cfg)
}

func c03WideFor(cfg string) (*c03HTTP, error) {
	if h, ok := c03Wide[cfg]; ok {
		return h, nil
	}
	auth, err := c03WideAuth(cfg)
	if err != nil {
		return nil, err
	}
	srv := c02NewServer(false)
	srv.SetServerID("srv-c03")
	hs := vgirpc.NewHttpServer(srv)
	hs.SetEnableDescribePage(true)
	hs.SetEnableLandingPage(true)
	hs.SetEnableNotFoundPage(true)
	hs.SetUploadURLProvider(c03Provider{})
	hs.SetCorsOrigins("*")
	hs.SetMaxRequestBytes(1 << 20)
	if err := hs.EnableTokenIntrospection(vgirpc.TokenIntrospectionConfig{
		Resolver: func(cred string) (vgirpc.TokenIdentity, bool, error) {
			if cred == "good-token" {
				return vgirpc.TokenIdentity{Principal: "bob", TokenName: "t"}, true, nil
			}
			return vgirpc.TokenIdentity{}, false, nil
		},
		Principals: []string{"introspector"}, RateLimitPerSecond: 1 << 30,
	}); err != nil {
		return nil, err
	}
	if err := hs.SetOAuthResourceMetadata(&vgirpc.OAuthResourceMetadata{
		Resource: "https://api.example.com", AuthorizationServers: []string{"http://127.0.0.1:1"}, ClientID: "client-1",
	}); err != nil {
		return nil, err
	}
	hs.EnableSticky(0)
	if auth != nil {
		hs.SetAuthenticate(auth)
		// the PKCE browser-login routes need an authenticator to wrap
		if err := hs.SetOAuthPkce(vgirpc.OAuthPkceConfig{}); err != nil {
			return nil, err
		}
	}
	lb := &c03LogBuf{}
	ts := httptest.NewUnstartedServer(hs)
	ts.Config.ErrorLog = log.New(lb, "", 0)
	ts.Start()
	h := &c03HTTP{ts: ts, log: lb}
	c03Wide[cfg] = h
	return h, nil
}

var c03ProofSeq int
var c03LastProof string

func c03Proof(replay bool) string {
	if replay && c03LastProof != "" {
		return c03LastProof
	}
	c03ProofSeq++
	p, err := vgirpc.MintProof(c03ProofKey, "k1", "origin-1", c03ProofNow, fmt.Sprintf("nonce-%d", c03ProofSeq))
	if err != nil {
		return "mint-failed"
	}
	c03LastProof = p
	return p
}

// c03RawRequest sends one HTTP/1.1 request over a fresh TCP connection and reads the response.
func c03RawRequest(addr, verb, target string, headers [][2]string, body []byte) (status int, respBody []byte, err error) {
	conn, err := net.DialTimeout("tcp", addr, 5*time.Second)
	if err != nil {
		return 0, nil, fmt.Errorf("dial: %w", err)
	}
	defer conn.Close()
	_ = conn.SetDeadline(time.Now().Add(30 * time.Second))
	var req bytes.Buffer
	fmt.Fprintf(&req, "%s %s HTTP/1.1\r\nHost: verif\r\nConnection: close\r\n", verb, target)
	for _, kv := range headers {
		fmt.Fprintf(&req, "%s: %s\r\n", kv[0], kv[1])
	}
	if len(body) > 0 || verb == "POST" || verb == "PUT" {
		fmt.Fprintf(&req, "Content-Length: %d\r\n", len(body))
	}
	req.WriteString("\r\n")
	req.Write(body)
	if _, err := conn.Write(req.Bytes()); err != nil {
		return 0, nil, fmt.Errorf("write: %w", err)
	}
	resp, err := http.ReadResponse(bufio.NewReader(conn), &http.Request{Method: verb})
	if err != nil {
		return 0, nil, fmt.Errorf("no response: %w", err)
	}
	defer resp.Body.Close()
	b, rerr := io.ReadAll(resp.Body)
	if rerr != nil {
		return resp.StatusCode, b, fmt.Errorf("incomplete body: %w", rerr)
	}
	return resp.StatusCode, b, nil
}

func c03ParseHeaders(s string) ([][2]string, bool) {
	if s == "-" {
		return nil, true
	}
	var out [][2]string
	for _, kv := range strings.Split(s, ",") {
		p := strings.SplitN(kv, "=", 2)
		if len(p) != 2 {
			return nil, false
		}
		k, e1 := hex.DecodeString(p[0])
		v, e2 := hex.DecodeString(p[1])
		if e1 != nil || e2 != nil || len(k) == 0 || bytes.ContainsAny(k, "\r\n: ") || bytes.ContainsAny(v, "\r\n") {
			return nil, false
		}
		val := string(v)
		switch val {
		case "@PROOF":
			val = c03Proof(false)
		case "@PROOFREPLAY":
			val = c03Proof(true)
		}
		out = append(out, [2]string{string(k), val})
	}
	return out, true
}

// c03ExecWide handles one `hx` line (oracles only; nothing is handed to the model).
func c03ExecWide(c *Case, l string, f []string) {
	if len(f) < 8 || f[7] != "body" {
		c.Out(l, "err:bad-op")
		return
	}
	cfg, verb, mut, tag := f[1], f[2], f[5], f[6]
	target, ok1 := UnX(f[3])
	headers, ok2 := c03ParseHeaders(f[4])
	var data []byte
	ok3 := true
	switch {
	case len(f) == 8:
	case len(f) == 9 && strings.HasPrefix(f[8], "x"):
		data, ok3 = UnX(f[8])
	default:
		data, ok3 = c03Encode(c03SubstTokens(f[8:], false))
	}
	if !ok1 || !ok2 || !ok3 || len(target) == 0 || bytes.ContainsAny(target, " \r\n") || strings.ContainsAny(verb, " \r\n") {
		c.Out(l, "err:bad-op")
		return
	}
	data, ok := c01Mutate(data, mut)
	if !ok {
		c.Out(l, "err:bad-op")
		return
	}
	if mut != "-" && !c03Screen(c, l, data) {
		return
	}
	h, err := c03WideFor(cfg)
	if err != nil {
		c.Out(l, "err:bad-config "+err.Error())
		return
	}
	c.Stat("wide:" + cfg + ":" + tag)
	h.log.take()
	status, body, err := c03RawRequest(h.ts.Listener.Addr().String(), verb, string(target), headers, data)
	lg := h.log.take()
	if err != nil {
		cls := "http-no-response-" + tag
		if status != 0 {
			cls = "http-incomplete-response-" + tag
		}
		c.Oracle(cls, fmt.Sprintf("%q: %v; server log: %s", l, err, lg[:min(len(lg), 600)]))
		return
	}
	if strings.Contains(lg, "panic") {
		c.Oracle("http-panic-logged-"+tag, fmt.Sprintf("%q: status %d; %s", l, status, lg[:min(len(lg), 600)]))
	}
	if status < 100 || status > 599 {
		c.Oracle("http-status-outside-set", fmt.Sprintf("%q: status %d", l, status))
	}
	_ = body
	c.Stat(fmt.Sprintf("wide-status:%d", status))
}
