package main

import (
	"bufio"
	"bytes"
	"context"
	"crypto/x509"
	"encoding/hex"
	"fmt"
	"io"
	"log"
	"net"
	"net/http"
	"net/http/httptest"
	"strings"
	"time"

	"github.com/Query-farm/vgi-rpc-go/vgirpc"
	"github.com/apache/arrow-go/v18/arrow"
)

// C03, widened HTTP family: "client bytes" are also the request line and the HEADERS, and the
// property speaks about every route the mux answers. These cases go to servers that have the
// shipped authenticators installed and every optional route enabled, over a RAW TCP client (so
// header values may hold any byte except CR/LF), and are judged by the oracles only: the server
// must answer with a complete HTTP response and must not log a panic.
//
//	fresh <cfg>          new instances of that configuration (empty replay cache, no sessions), clock reset
//	clock <delta>        move the clock of the proof gate (ProofConfig.Now) by delta seconds (may be negative)
//	hx <cfg> <VERB> <request-target x..> <headers> <mut> <tag> body [{S ...} | x<hex>]
//	    <cfg>     = plain | xfcc | xfccv | pem | pemfp | bearer | proof | chain
//	    <headers> = - | hexname=hexvalue,...   (value "@PROOF": a freshly minted valid proxy
//	                proof for the current clock; "@PROOFREPLAY": the previous one again;
//	                "@STICKY:own|foreign|other|expired|closed": a genuine sticky-session token
//	                (see c03StickyToken); "@CRED": the configuration's valid credential)
//
// Every configuration has: upload-URL provider, token introspection, sticky sessions, describe /
// landing / not-found pages, OAuth resource metadata + PKCE routes, CORS, max_request_bytes.

type c03Provider struct{}

func (c03Provider) GenerateUploadURL(*arrow.Schema) (vgirpc.UploadURL, error) {
	return vgirpc.UploadURL{UploadURL: "https://up.example/u", DownloadURL: "https://up.example/d", ExpiresAt: time.Unix(2000000000, 0)}, nil
}

var c03ProofKey = bytes.Repeat([]byte{0x42}, 32)

const c03ProofNow = int64(2000000000)

// c03Clock is the clock of the proof-gated servers (ProofConfig.Now) and of the proofs the
// harness mints; `clock <delta>` lines move it, `fresh <cfg>` resets it.
var c03Clock = c03ProofNow

// c03TokenKey is shared by every wide server and its sibling, so a sticky / state token sealed by
// one instance authenticates on the other (only the embedded server id differs).
var c03TokenKey = bytes.Repeat([]byte{7}, 32)

var c03Wide = map[string]*c03HTTP{}

func c03WideAuth(cfg string) (vgirpc.AuthenticateFunc, error) {
	who := &vgirpc.AuthContext{Domain: "bearer", Authenticated: true, Principal: "introspector"}
	bearer := vgirpc.BearerAuthenticateStatic(map[string]*vgirpc.AuthContext{"tok1": who, "tok2": {Domain: "bearer", Authenticated: true, Principal: "bob"}})
	xfcc, err := vgirpc.MtlsAuthenticateXfcc(vgirpc.MtlsAuthenticateXfccConfig{})
	if err != nil {
		return nil, err
	}
	pem, err := vgirpc.MtlsAuthenticateSubject(vgirpc.MtlsAuthenticateSubjectConfig{CheckExpiry: true})
	if err != nil {
		return nil, err
	}
	switch cfg {
	case "plain":
		return nil, nil
	case "xfcc":
		return xfcc, nil
	case "xfccv":
		return vgirpc.MtlsAuthenticateXfcc(vgirpc.MtlsAuthenticateXfccConfig{SelectElement: "last",
			Validate: func(e vgirpc.XfccElement) (*vgirpc.AuthContext, error) {
				if e.Subject == "" && e.Hash == "" {
					return nil, &vgirpc.RpcError{Type: "ValueError", Message: "no identity"}
				}
				return &vgirpc.AuthContext{Domain: "mtls", Authenticated: true, Principal: e.Subject, Claims: map[string]any{"uri": e.URI, "dns": e.DNS}}, nil
			}})
	case "pem":
		return pem, nil
	case "pemfp":
		return vgirpc.MtlsAuthenticateFingerprint(vgirpc.MtlsAuthenticateFingerprintConfig{
			Fingerprints: map[string]*vgirpc.AuthContext{strings.Repeat("ab", 32): who}, Algorithm: "sha256"})
	case "pemv":
		return vgirpc.MtlsAuthenticate(vgirpc.MtlsAuthenticateConfig{Validate: func(c *x509.Certificate) (*vgirpc.AuthContext, error) {
			return &vgirpc.AuthContext{Domain: "mtls", Authenticated: true, Principal: c.Subject.CommonName}, nil
		}})
	case "bearer":
		return bearer, nil
	case "proof":
		return vgirpc.ProofAuthenticate(vgirpc.ProofConfig{Mode: vgirpc.ProofModeRequire, OriginID: "origin-1",
			Secrets: map[string]vgirpc.ProofSecret{"k1": {Secret: c03ProofKey, Label: "proxy"}}, SkewSeconds: 300,
			Now: func() time.Time { return time.Unix(c03Clock, 0) }}, bearer)
	case "chain":
		return vgirpc.ChainAuthenticate(xfcc, pem, bearer), nil
	}
	return nil, fmt.Errorf("unknown configuration %q", cfg)
}

func c03WideFor(cfg string) (*c03HTTP, error) { return c03WideInstance(cfg, "srv-c03") }

// c03WideInstance returns the server of a configuration; serverID "srv-sibling" is a second worker
// of the same deployment (same token key, same authenticator, another server id).
func c03WideInstance(cfg, serverID string) (*c03HTTP, error) {
	key := cfg + "/" + serverID
	if h, ok := c03Wide[key]; ok {
		return h, nil
	}
	auth, err := c03WideAuth(cfg)
	if err != nil {
		return nil, err
	}
	srv := c02NewServer(false)
	srv.SetServerID(serverID)
	// ss opens a sticky session (a = 1: one that is already expired when the response arrives)
	vgirpc.Unary(srv, "ss", func(_ context.Context, ctx *vgirpc.CallContext, p c02P1) (int64, error) {
		ttl := time.Duration(0)
		if p.A == 1 {
			ttl = time.Nanosecond
		}
		if err := ctx.OpenSession(&struct{}{}, ttl); err != nil {
			return 0, err
		}
		return p.A, nil
	})
	hs, err := vgirpc.NewHttpServerWithKey(srv, c03TokenKey)
	if err != nil {
		return nil, err
	}
	hs.SetEnableDescribePage(true)
	hs.SetEnableLandingPage(true)
	hs.SetEnableNotFoundPage(true)
	hs.SetUploadURLProvider(c03Provider{})
	hs.SetCorsOrigins("*")
	hs.SetMaxRequestBytes(1 << 20)
	if err := hs.EnableTokenIntrospection(vgirpc.TokenIntrospectionConfig{
		Resolver: func(cred string) (vgirpc.TokenIdentity, bool, error) {
			if cred == "good-token" {
				return vgirpc.TokenIdentity{Principal: "bob", TokenName: "t"}, true, nil
			}
			return vgirpc.TokenIdentity{}, false, nil
		},
		Principals: []string{"introspector"}, RateLimitPerSecond: 1 << 30,
	}); err != nil {
		return nil, err
	}
	if err := hs.SetOAuthResourceMetadata(&vgirpc.OAuthResourceMetadata{
		Resource: "https://api.example.com", AuthorizationServers: []string{"http://127.0.0.1:1"}, ClientID: "client-1",
	}); err != nil {
		return nil, err
	}
	hs.EnableSticky(0)
	if auth != nil {
		hs.SetAuthenticate(auth)
		// the PKCE browser-login routes need an authenticator to wrap
		if err := hs.SetOAuthPkce(vgirpc.OAuthPkceConfig{}); err != nil {
			return nil, err
		}
	}
	lb := &c03LogBuf{}
	ts := httptest.NewUnstartedServer(hs)
	ts.Config.ErrorLog = log.New(lb, "", 0)
	ts.Start()
	h := &c03HTTP{ts: ts, log: lb}
	c03Wide[key] = h
	return h, nil
}

// c03Fresh drops the instances of a configuration (their replay caches, sessions) and resets the
// clock, so that a multi-request history is replayable from its script alone.
func c03Fresh(cfg string) {
	for _, id := range []string{"srv-c03", "srv-sibling"} {
		if h, ok := c03Wide[cfg+"/"+id]; ok {
			go h.ts.Close() // Close waits for idle keep-alive connections; nothing depends on it
			delete(c03Wide, cfg+"/"+id)
		}
	}
	c03Clock = c03ProofNow
	c03LastProof = ""
}

// c03ValidAuth: request headers with which the configuration's authenticator admits the caller
// (principal "introspector" where the scheme names one); nil when the harness has no valid
// credential for it (PEM certificates).
func c03ValidAuth(cfg string, principal2 bool) [][2]string {
	tok := "Bearer tok1"
	if principal2 {
		tok = "Bearer tok2"
	}
	switch cfg {
	case "plain":
		return [][2]string{}
	case "xfcc", "xfccv":
		if principal2 {
			return [][2]string{{"X-Forwarded-Client-Cert", `Hash=def;Subject="CN=bob"`}}
		}
		return [][2]string{{"X-Forwarded-Client-Cert", `Hash=abc;Subject="CN=alice"`}}
	case "bearer", "chain":
		return [][2]string{{"Authorization", tok}}
	case "proof":
		return [][2]string{{"Authorization", tok}, {"VGI-Proxy-Proof", c03Proof(false)}}
	}
	return nil
}

// c03StickyToken obtains a GENUINE sticky-session token for a `VGI-Session` header:
//
//	own      opened on this server for this caller
//	foreign  opened on the sibling worker (same key, another server id)
//	other    opened on this server by another principal
//	expired  opened on this server with a TTL that has already run out
//	closed   opened on this server and then closed with DELETE /__session__
func c03StickyToken(cfg, kind string) string {
	inst, a, p2 := "srv-c03", int64(0), false
	switch kind {
	case "foreign":
		inst = "srv-sibling"
	case "other":
		p2 = true
	case "expired":
		a = 1
	}
	auth := c03ValidAuth(cfg, p2)
	if auth == nil {
		return "no-valid-credential"
	}
	h, err := c03WideInstance(cfg, inst)
	if err != nil {
		return "no-server"
	}
	var body bytes.Buffer
	meta := [][2]string{{"vgi_rpc.method", "ss"}, {"vgi_rpc.request_version", "1"}}
	_ = c02Encode(&body, c02Stream{schema: c02P1f, batches: []c02Batch{{rows: 1, cells: []int64{a}, meta: meta}}})
	hdrs := append([][2]string{{"Content-Type", c03Arrow}, {"VGI-Session-Accept", "true"}}, auth...)
	_, _, rh, err := c03RawRequest(h.ts.Listener.Addr().String(), "POST", "/ss", hdrs, body.Bytes())
	if err != nil || rh.Get("VGI-Session") == "" {
		return "no-token"
	}
	tok := rh.Get("VGI-Session")
	if kind == "closed" {
		del := append([][2]string{{"VGI-Session", tok}}, c03ValidAuth(cfg, false)...)
		_, _, _, _ = c03RawRequest(h.ts.Listener.Addr().String(), "DELETE", "/__session__", del, nil)
	}
	return tok
}

var c03ProofSeq int
var c03LastProof string

func c03Proof(replay bool) string {
	if replay && c03LastProof != "" {
		return c03LastProof
	}
	c03ProofSeq++
	p, err := vgirpc.MintProof(c03ProofKey, "k1", "origin-1", c03Clock, fmt.Sprintf("n%021d", c03ProofSeq))
	if err != nil {
		return "mint-failed"
	}
	c03LastProof = p
	return p
}

// c03RawRequest sends one HTTP/1.1 request over a fresh TCP connection and reads the response.
func c03RawRequest(addr, verb, target string, headers [][2]string, body []byte) (status int, respBody []byte, hdr http.Header, err error) {
	conn, err := net.DialTimeout("tcp", addr, 5*time.Second)
	if err != nil {
		return 0, nil, nil, fmt.Errorf("dial: %w", err)
	}
	defer conn.Close()
	_ = conn.SetDeadline(time.Now().Add(30 * time.Second))
	var req bytes.Buffer
	fmt.Fprintf(&req, "%s %s HTTP/1.1\r\nHost: verif\r\nConnection: close\r\n", verb, target)
	for _, kv := range headers {
		fmt.Fprintf(&req, "%s: %s\r\n", kv[0], kv[1])
	}
	if len(body) > 0 || verb == "POST" || verb == "PUT" {
		fmt.Fprintf(&req, "Content-Length: %d\r\n", len(body))
	}
	req.WriteString("\r\n")
	req.Write(body)
	if _, err := conn.Write(req.Bytes()); err != nil {
		return 0, nil, nil, fmt.Errorf("write: %w", err)
	}
	resp, err := http.ReadResponse(bufio.NewReader(conn), &http.Request{Method: verb})
	if err != nil {
		return 0, nil, nil, fmt.Errorf("no response: %w", err)
	}
	defer resp.Body.Close()
	b, rerr := io.ReadAll(resp.Body)
	if rerr != nil {
		return resp.StatusCode, b, resp.Header, fmt.Errorf("incomplete body: %w", rerr)
	}
	return resp.StatusCode, b, resp.Header, nil
}

func c03ParseHeaders(s, cfg string) ([][2]string, bool) {
	if s == "-" {
		return nil, true
	}
	var out [][2]string
	for _, kv := range strings.Split(s, ",") {
		p := strings.SplitN(kv, "=", 2)
		if len(p) != 2 {
			return nil, false
		}
		k, e1 := hex.DecodeString(p[0])
		v, e2 := hex.DecodeString(p[1])
		if e1 != nil || e2 != nil || len(k) == 0 || bytes.ContainsAny(k, "\r\n: ") || bytes.ContainsAny(v, "\r\n") {
			return nil, false
		}
		val := string(v)
		switch {
		case val == "@PROOF":
			val = c03Proof(false)
		case val == "@PROOFREPLAY":
			val = c03Proof(true)
		case strings.HasPrefix(val, "@STICKY:"):
			val = c03StickyToken(cfg, val[len("@STICKY:"):])
		case val == "@CRED": // the configuration's own valid credential, in whatever header it lives
			if va := c03ValidAuth(cfg, false); len(va) > 0 && string(k) == va[0][0] {
				val = va[0][1]
			}
		}
		out = append(out, [2]string{string(k), val})
	}
	return out, true
}

// c03ExecWide handles one `hx` line (oracles only; nothing is handed to the model).
func c03ExecWide(c *Case, l string, f []string) {
	if len(f) < 8 || f[7] != "body" {
		c.Out(l, "err:bad-op")
		return
	}
	cfg, verb, mut, tag := f[1], f[2], f[5], f[6]
	target, ok1 := UnX(f[3])
	headers, ok2 := c03ParseHeaders(f[4], f[1])
	var data []byte
	ok3 := true
	switch {
	case len(f) == 8:
	case len(f) == 9 && strings.HasPrefix(f[8], "x"):
		data, ok3 = UnX(f[8])
	default:
		data, ok3 = c03Encode(c03SubstWideTokens(c03SubstTokens(f[8:], false), cfg))
	}
	if !ok1 || !ok2 || !ok3 || len(target) == 0 || bytes.ContainsAny(target, " \r\n") || strings.ContainsAny(verb, " \r\n") {
		c.Out(l, "err:bad-op")
		return
	}
	data, ok := c01Mutate(data, mut)
	if !ok {
		c.Out(l, "err:bad-op")
		return
	}
	if mut != "-" && !c03Screen(c, l, data) {
		return
	}
	h, err := c03WideFor(cfg)
	if err != nil {
		c.Out(l, "err:bad-config "+err.Error())
		return
	}
	c.Stat("wide:" + cfg + ":" + tag)
	h.log.take()
	t0 := time.Now()
	status, body, _, err := c03RawRequest(h.ts.Listener.Addr().String(), verb, string(target), headers, data)
	if d := time.Since(t0); d > 300*time.Millisecond {
		c.Stat(fmt.Sprintf("slow(>300ms):%s:%s", verb, strings.SplitN(string(target), "?", 2)[0]))
	}
	lg := h.log.take()
	if err != nil {
		cls := "http-no-response-" + tag
		if status != 0 {
			cls = "http-incomplete-response-" + tag
		}
		c.Oracle(cls, fmt.Sprintf("%q: %v; server log: %s", l, err, lg[:min(len(lg), 600)]))
		return
	}
	if strings.Contains(lg, "panic") {
		c.Oracle("http-panic-logged-"+tag, fmt.Sprintf("%q: status %d; %s", l, status, lg[:min(len(lg), 600)]))
	}
	if status < 100 || status > 599 {
		c.Oracle("http-status-outside-set", fmt.Sprintf("%q: status %d", l, status))
	}
	_ = body
	c.Stat(fmt.Sprintf("wide-status:%d", status))
}

// c03SubstWideTokens replaces metadata values "@WINIT:<own|sibling>:<method>" by a genuine stream
// state token minted by POST /<method>/init on this configuration's own or sibling instance
// (valid credentials), i.e. a continuation token that is authentic but possibly another worker's.
func c03SubstWideTokens(words []string, cfg string) []string {
	marker := hex.EncodeToString([]byte("@WINIT:"))
	out := append([]string{}, words...)
	for i, w := range out {
		if !strings.Contains(w, "="+marker) {
			continue
		}
		kvs := strings.Split(w, ",")
		for j, kv := range kvs {
			p := strings.SplitN(kv, "=", 2)
			if len(p) == 2 && strings.HasPrefix(p[1], marker) {
				spec, _ := hex.DecodeString(p[1][len(marker):])
				parts := strings.SplitN(string(spec), ":", 2)
				tok := []byte("no-token")
				if len(parts) == 2 {
					inst := "srv-c03"
					if parts[0] == "sibling" {
						inst = "srv-sibling"
					}
					if auth := c03ValidAuth(cfg, false); auth != nil {
						if h, err := c03WideInstance(cfg, inst); err == nil {
							cols, cells := c02P3f, []int64{20, 2, 99}
							if parts[1] == "xh1" {
								cols, cells = c02P1f, []int64{0}
							}
							var buf bytes.Buffer
							_ = c02Encode(&buf, c02Stream{schema: cols, batches: []c02Batch{{rows: 1, cells: cells,
								meta: [][2]string{{"vgi_rpc.method", parts[1]}, {"vgi_rpc.request_version", "1"}}}}})
							hdrs := append([][2]string{{"Content-Type", c03Arrow}}, auth...)
							if _, body, _, err := c03RawRequest(h.ts.Listener.Addr().String(), "POST", "/"+parts[1]+"/init", hdrs, buf.Bytes()); err == nil {
								if t := vgirpc.FindStateToken(body); t != nil {
									tok = t
								}
							}
						}
					}
				}
				kvs[j] = p[0] + "=" + hex.EncodeToString(tok)
			}
		}
		out[i] = strings.Join(kvs, ",")
	}
	return out
}
