package main

import (
	"bytes"
	"context"
	"encoding/json"
	"errors"
	"fmt"
	"io"
	"os"
	"strconv"
	"strings"
	"sync"
	"time"

	"github.com/Query-farm/vgi-rpc-go/vgirpc"
	"github.com/apache/arrow-go/v18/arrow"
	"github.com/apache/arrow-go/v18/arrow/array"
	"github.com/apache/arrow-go/v18/arrow/ipc"
)

// C36 — shared-memory pipe sessions match plain pipe sessions and leak no slots.
//
// One case = one connection to a real Server.Serve loop (in-process, over buffered pipes) driven by
// a lockstep client written here, plus the same history replayed on a second connection by a client
// that never mentions shared memory (the property's own comparison).
//
// Script:
//
//	seg <k> <dataSize>                                   client creates POSIX segment #k
//	unary <adv> <blob|void> <n> <seed> <pad> <via> <hold>
//	      blob returns n seeded bytes (n<0: the handler fails); pad = bytes of request padding
//	stream <adv> xch <mult> <initfail> <seed> <pad> <via> <hold> <turn>;<turn>...
//	      turn = <nbytes>:<o|e|p|n|d>:<via>   exchange answers the input repeated <mult> times; this turn's handler
//	             e returns an error, p panics, n emits nothing, d emits two batches (all after the input was resolved)
//	      xchl / xchi instead of xch: same method, the client's input schema is large_binary (cast succeeds) /
//	             int64 (cast fails on the first turn)
//	stream <adv> gen|genb|genc|gd<k> <count> <n> <seed> <pad> <via> <hold> <turn>;...
//	      genb / genc: same batches as gen under an output schema that differs only in field / schema metadata;
//	      gd<k>: n rows of a schema whose dictionaries sit 1..4 levels deep (c36DeepCols[k])
//	      producer: <count> batches of n bytes then finish; turn = t:<via> (a tick)
//	release                                               client frees every pointer it still holds
//	release <i>                                           client frees the i-th most recently received pointer it holds
//	                                                      (out-of-order release: holes in front of live slots)
//
//	<adv>  - | g<k> (name+size of segment k) | n<k> (name only) | b<k> (bad size) | x (unattachable name)
//	<via>  i (inline) | s<k> (through segment k when the server has it attached for this request)
//	       | f<k> (through segment k regardless: misuse) | raw (pointer batch with garbage offset/length: misuse)
//	<hold> 1: the client keeps received pointers unreleased until `release`
//
// The model line carries, for every batch, `id:rows:big:est:len` (content hash, row count, the size
// gate of MaybeWriteToShm evaluated through the hooks, capacity estimate, stored length) — sizes of
// the environment, never a decision of the server.

const c36MinBatchBytes = 256

// how long the client waits for a response byte before it declares the session stuck
var c36ReadTimeout = 30 * time.Second

func init() {
	// arrow-go v18.6 defect, outside vgi-rpc: in ONE IPC stream a dictionary [""] followed by a batch
	// whose dictionary is ["\x00"] is taken for unchanged, the replacement is not written and the
	// reader decodes the second batch against the first dictionary ("" instead of "\x00"). A pipe
	// stream then delivers a different value than a self-contained shared-memory slot — through no
	// fault of the code under test. The session producers therefore never use the NUL string.
	for i, v := range c35Strings {
		if v == "\x00" {
			c35Strings[i] = "nul"
		}
	}
	os.Setenv("VGI_RPC_SHM_MIN_BATCH_BYTES", strconv.Itoa(c36MinBatchBytes))
	Register(&Prop{
		ID: "C36",
		Rule: "random call histories (unary blob/void, exchange, producer; handler failures; large/small batches around the shm size gate; " +
			"1-2 client segments sized to fit none/one/several batches; advertisement none/good/name-only/bad-size/unattachable on some or all " +
			"requests; request/input batches inline or through shm; pointers held and released later; misuse: pointers on never-advertised " +
			"connections) over a real Serve loop; non-trivial = at least one segment, one advertised call and one batch at or above the size gate",
		Gen:  c36Gen,
		Exec: c36Exec,
		NonTrivial: func(lines []string) bool {
			seg, adv := false, false
			for _, l := range lines {
				f := strings.Fields(l)
				if len(f) > 1 && f[0] == "seg" {
					seg = true
				}
				if len(f) > 1 && (f[0] == "unary" || f[0] == "stream") && strings.HasPrefix(f[1], "g") {
					adv = true
				}
			}
			return seg && adv
		},
	})
}

// ------------------------------------------------------------------ scripted service

type c36BlobParams struct {
	N    int64  `vgirpc:"n"`
	Seed int64  `vgirpc:"seed"`
	Pad  []byte `vgirpc:"pad"`
}

type c36XchParams struct {
	Mult     int64  `vgirpc:"mult"`
	InitFail int64  `vgirpc:"initfail"`
	Seed     int64  `vgirpc:"seed"`
	Pad      []byte `vgirpc:"pad"`
}

type c36GenParams struct {
	Count int64  `vgirpc:"count"`
	N     int64  `vgirpc:"n"`
	Seed  int64  `vgirpc:"seed"`
	Pad   []byte `vgirpc:"pad"`
}

var c36DataSchema = arrow.NewSchema([]arrow.Field{{Name: "data", Type: arrow.BinaryTypes.Binary, Nullable: true}}, nil)
var c36TickSchema = arrow.NewSchema(nil, nil)

func c36Bytes(seed int64, n int64) []byte {
	if n <= 0 {
		return []byte{}
	}
	return NewRng(uint64(seed)*7919 + 13).Bytes(int(n))
}

func c36DataBatch(schema *arrow.Schema, data []byte) arrow.RecordBatch {
	bb := array.NewBinaryBuilder(c35Mem, arrow.BinaryTypes.Binary)
	defer bb.Release()
	bb.Append(data)
	arr := bb.NewArray()
	defer arr.Release()
	return array.NewRecordBatch(schema, []arrow.Array{arr}, 1)
}

type c36XchState struct{ mult int64 }

func (s *c36XchState) Exchange(_ context.Context, in arrow.RecordBatch, out *vgirpc.OutputCollector, cc *vgirpc.CallContext) error {
	// the client tags every turn input with custom metadata (c36tag=t<k>, c36seq=q<k>); a handler must see
	// the same values whether the input travelled inline or as a shm pointer
	if cc != nil {
		for _, kv := range [][2]string{{"c36tag", "t"}, {"c36seq", "q"}} {
			if i := cc.InputMetadata.FindKey(kv[0]); i >= 0 && !strings.HasPrefix(cc.InputMetadata.Values()[i], kv[1]) {
				return &vgirpc.RpcError{Type: "InputMetadataMangled", Message: kv[0] + "=" + cc.InputMetadata.Values()[i]}
			}
		}
	}
	if in.NumRows() != 1 || in.NumCols() != 1 {
		// what a pointer batch that slipped through looks like to a handler
		return &vgirpc.RpcError{Type: "HandlerSawNonData", Message: fmt.Sprintf("input has %d rows", in.NumRows())}
	}
	data := in.Column(0).(*array.Binary).Value(0)
	if len(data) > 0 {
		switch data[0] {
		case 0xEE:
			return &vgirpc.RpcError{Type: "ValueError", Message: "scripted turn failure"}
		case 0xEF:
			panic("scripted turn panic")
		case 0xED:
			return nil // no data batch emitted: the framework's validation fails the turn
		case 0xEC:
			// two data batches: the collector refuses the second, the handler hands that error back
			if err := out.Emit(c36DataBatch(c36DataSchema, []byte{1})); err != nil {
				return err
			}
			b := c36DataBatch(c36DataSchema, []byte{2})
			if err := out.Emit(b); err != nil {
				b.Release()
				return err
			}
			return nil
		}
	}
	// Emit takes ownership of the batch
	return out.Emit(c36DataBatch(c36DataSchema, bytes.Repeat(data, int(s.mult))))
}

type c36GenState struct {
	left, n, seed int64
	method        string
}

func (s *c36GenState) Produce(_ context.Context, out *vgirpc.OutputCollector, _ *vgirpc.CallContext) error {
	if s.left <= 0 {
		return out.Finish()
	}
	s.left--
	return out.Emit(c36ProducerBatch(s.method, s.seed+s.left, s.n))
}

// Producer family. gen / genb / genc produce the same one-column binary batches under output schemas
// that differ ONLY in field metadata (genb) or schema metadata (genc) — equal names, types,
// nullability, hence equal Schema.Fingerprint(). gd0.. produce batches (n = rows) whose only
// dictionaries sit 1..4 levels below the top, through every container kind.
var c36DataSchemaB = arrow.NewSchema([]arrow.Field{{Name: "data", Type: arrow.BinaryTypes.Binary, Nullable: true,
	Metadata: arrow.NewMetadata([]string{"unit"}, []string{"bytes"})}}, nil)
var c36DataSchemaC = func() *arrow.Schema {
	md := arrow.NewMetadata([]string{"owner"}, []string{"c"})
	return arrow.NewSchema([]arrow.Field{{Name: "data", Type: arrow.BinaryTypes.Binary, Nullable: true}}, &md)
}()

var c36DeepCols = []string{
	"struct1,dict8,str",                       // depth 1 (the documented ENUM-in-STRUCT case)
	"list,dict16,str",                         // depth 1
	"struct1,struct1,dict8,str",               // depth 2
	"list,struct1,dict16,str;i64",             // depth 2
	"map,str,struct1,dict8,str",               // map value
	"llist,map,i32,dict8,bin",                 // list of map
	"struct2,i64,list,struct1,dict32,str",     // depth 3
	"flist2,list,struct1,dict8,i64",           // depth 3
	"struct1,struct1,struct1,struct1,dict8,str", // depth 4
	"map,str,list,struct2,i32,list,dict8,str", // depth 4 through map, list, struct, list
}

func c36ProducerSchema(method string) *arrow.Schema {
	switch {
	case method == "genb":
		return c36DataSchemaB
	case method == "genc":
		return c36DataSchemaC
	case strings.HasPrefix(method, "gd"):
		k, _ := strconv.Atoi(method[2:])
		s, err := c35Schema(c36DeepCols[k])
		if err != nil {
			panic(err)
		}
		return s
	}
	return c36DataSchema
}

func c36IsProducer(method string) bool { return strings.HasPrefix(method, "gen") || strings.HasPrefix(method, "gd") }

// c36ProducerBatch: the batch producer `method` emits for (seed, n); also how the harness computes
// the expected result.
func c36ProducerBatch(method string, seed, n int64) arrow.RecordBatch {
	if strings.HasPrefix(method, "gd") {
		k, _ := strconv.Atoi(method[2:])
		b, err := c35Batch(c36DeepCols[k], int(n), uint64(seed), arrow.Metadata{}, false)
		if err != nil {
			panic(err)
		}
		return b
	}
	return c36DataBatch(c36ProducerSchema(method), c36Bytes(seed, n))
}

func c36Server() *vgirpc.Server {
	s := vgirpc.NewServer()
	vgirpc.Unary(s, "blob", func(_ context.Context, _ *vgirpc.CallContext, p c36BlobParams) ([]byte, error) {
		if p.N < 0 {
			return nil, &vgirpc.RpcError{Type: "ValueError", Message: "scripted failure"}
		}
		return c36Bytes(p.Seed, p.N), nil
	})
	vgirpc.UnaryVoid(s, "void", func(_ context.Context, _ *vgirpc.CallContext, p c36BlobParams) error {
		if p.N < 0 {
			return &vgirpc.RpcError{Type: "ValueError", Message: "scripted failure"}
		}
		return nil
	})
	vgirpc.Exchange(s, "xch", c36DataSchema, c36DataSchema, func(_ context.Context, _ *vgirpc.CallContext, p c36XchParams) (*vgirpc.StreamResult, error) {
		if p.InitFail != 0 {
			return nil, &vgirpc.RpcError{Type: "ValueError", Message: "scripted init failure"}
		}
		return &vgirpc.StreamResult{OutputSchema: c36DataSchema, State: &c36XchState{mult: p.Mult}}, nil
	})
	producers := []string{"gen", "genb", "genc"}
	for k := range c36DeepCols {
		producers = append(producers, fmt.Sprintf("gd%d", k))
	}
	for _, name := range producers {
		name, schema := name, c36ProducerSchema(name)
		vgirpc.Producer(s, name, schema, func(_ context.Context, _ *vgirpc.CallContext, p c36GenParams) (*vgirpc.StreamResult, error) {
			return &vgirpc.StreamResult{OutputSchema: schema, State: &c36GenState{left: p.Count, n: p.N, seed: p.Seed, method: name}}, nil
		})
	}
	return s
}

// ------------------------------------------------------------------ transport

var errC36Timeout = errors.New("c36: read timeout")

// c36Pipe is an unbounded in-memory pipe (a real pipe has a buffer; io.Pipe has none and would
// deadlock a client that writes its first input while the server writes a refusal).
type c36Pipe struct {
	mu      sync.Mutex
	cond    *sync.Cond
	buf     []byte
	closed  bool
	timeout time.Duration
}

func newC36Pipe(timeout time.Duration) *c36Pipe {
	p := &c36Pipe{timeout: timeout}
	p.cond = sync.NewCond(&p.mu)
	return p
}

func (p *c36Pipe) Write(b []byte) (int, error) {
	p.mu.Lock()
	defer p.mu.Unlock()
	if p.closed {
		return 0, io.ErrClosedPipe
	}
	p.buf = append(p.buf, b...)
	p.cond.Broadcast()
	return len(b), nil
}

func (p *c36Pipe) Read(b []byte) (int, error) {
	p.mu.Lock()
	defer p.mu.Unlock()
	deadline := time.Now().Add(p.timeout)
	for len(p.buf) == 0 && !p.closed {
		if p.timeout > 0 && time.Now().After(deadline) {
			return 0, errC36Timeout
		}
		t := time.AfterFunc(20*time.Millisecond, p.cond.Broadcast)
		p.cond.Wait()
		t.Stop()
	}
	if len(p.buf) == 0 {
		return 0, io.EOF
	}
	n := copy(b, p.buf)
	p.buf = p.buf[n:]
	return n, nil
}

func (p *c36Pipe) Close() {
	p.mu.Lock()
	p.closed = true
	p.cond.Broadcast()
	p.mu.Unlock()
}

func (p *c36Pipe) Pending() int {
	p.mu.Lock()
	defer p.mu.Unlock()
	return len(p.buf)
}

// ------------------------------------------------------------------ batches as the model sees them

type c36B struct {
	id   string
	rows int64
	big  bool
	est  int
	len  int
}

func (b c36B) String() string {
	g := 0
	if b.big {
		g = 1
	}
	return fmt.Sprintf("%s:%d:%d:%d:%d", b.id, b.rows, g, b.est, b.len)
}

// c36Plain rebuilds the batch without custom metadata (what identity is taken over).
func c36Plain(b arrow.RecordBatch) arrow.RecordBatch {
	return array.NewRecordBatch(b.Schema(), b.Columns(), b.NumRows())
}

// c36ID is the content identity of a batch: its schema (names, nullability, types incl. widths,
// field and schema metadata) and every value, rendered independently of the physical encoding. (A
// byte hash of the IPC stream is NOT an identity for dictionary columns: batches that travel in one
// pipe stream share/replace dictionaries, so the reader hands back equal values over a different
// dictionary than a self-contained shared-memory slot does.)
func c36ID(b arrow.RecordBatch) string {
	var sb strings.Builder
	sc := b.Schema()
	md := sc.Metadata()
	fmt.Fprintf(&sb, "schema-md %q %q\n", md.Keys(), md.Values())
	for i, f := range sc.Fields() {
		fmt.Fprintf(&sb, "field %q %s null=%v md %q %q\n", f.Name, f.Type, f.Nullable, f.Metadata.Keys(), f.Metadata.Values())
		col := b.Column(i)
		for r := 0; r < col.Len(); r++ {
			if col.IsNull(r) {
				sb.WriteString("\x00null\n")
			} else {
				sb.WriteString(col.ValueStr(r))
				sb.WriteByte('\n')
			}
		}
	}
	fmt.Fprintf(&sb, "rows %d", b.NumRows())
	return c35Fnv([]byte(sb.String()))
}

func c36Describe(b arrow.RecordBatch) c36B {
	p := c36Plain(b)
	defer p.Release()
	full := c35FullStream(p)
	return c36B{
		id:   c36ID(b),
		rows: b.NumRows(),
		big:  vgirpc.VerifC35BatchBufferSize(b) >= vgirpc.VerifC35ShmMinBatchBytes(),
		est:  vgirpc.VerifC35EstimateSerializedSize(b),
		len:  len(full),
	}
}

// ------------------------------------------------------------------ client

type c36Held struct {
	k   int
	off uint64
	ptr arrow.RecordBatch // the pointer batch as received (retained): re-read when the slot is released
	id  string            // content hash of what it resolved to when received
}

type c36Client struct {
	srv      *vgirpc.Server
	c2s, s2c *c36Pipe
	done     chan struct{}
	segs     []*vgirpc.ShmSegment // shared by reference with the case (client owns them)
	useShm   bool                 // false: the plain client (never advertises, always inline)
	attached int                  // what the server has attached, as the client can know it (-1 none)
	held     []c36Held
	broken   string // first transport-level failure
	sentPtr  []bool // for the last call: was the request / each sent input a pointer batch
	damaged  []string // held pointers whose slot no longer held the batch when released
}

func newC36Client(segs []*vgirpc.ShmSegment, useShm bool) *c36Client {
	cl := &c36Client{srv: c36Server(), c2s: newC36Pipe(0), s2c: newC36Pipe(c36ReadTimeout), done: make(chan struct{}),
		segs: segs, useShm: useShm, attached: -1}
	go func() {
		defer close(cl.done)
		cl.srv.Serve(cl.c2s, cl.s2c)
	}()
	return cl
}

// finish closes the client side and reports bytes the server wrote that no call consumed.
func (cl *c36Client) finish() (leftover int, exited bool) {
	cl.c2s.Close()
	select {
	case <-cl.done:
		exited = true
	case <-time.After(30 * time.Second):
	}
	return cl.s2c.Pending(), exited
}

func c36ParseIdx(s, pre string) (int, bool) {
	if !strings.HasPrefix(s, pre) {
		return 0, false
	}
	k, err := strconv.Atoi(s[len(pre):])
	return k, err == nil
}

// advKeys renders the advertisement token as request metadata and tells what the server will
// have attached after reading it (shmConnState.ensure, as the client knows it).
func (cl *c36Client) advKeys(adv string) (keys, vals []string, hasName bool) {
	if !cl.useShm || adv == "-" {
		return nil, nil, false
	}
	if adv == "x" {
		cl.attached = -1
		return []string{vgirpc.MetaShmSegmentName, vgirpc.MetaShmSegmentSize}, []string{"/vgi-c36-no-such-segment", "70000"}, true
	}
	if k, ok := c36ParseIdx(adv, "g"); ok && k < len(cl.segs) {
		cl.attached = k
		return []string{vgirpc.MetaShmSegmentName, vgirpc.MetaShmSegmentSize}, []string{cl.segs[k].Name(), strconv.Itoa(cl.segs[k].Size())}, true
	}
	if k, ok := c36ParseIdx(adv, "n"); ok && k < len(cl.segs) {
		return []string{vgirpc.MetaShmSegmentName}, []string{cl.segs[k].Name()}, true
	}
	if k, ok := c36ParseIdx(adv, "b"); ok && k < len(cl.segs) {
		return []string{vgirpc.MetaShmSegmentName, vgirpc.MetaShmSegmentSize}, []string{cl.segs[k].Name(), []string{"65536", "12x"}[k%2]}, true
	}
	panic("bad adv token " + adv)
}

type c36Wire struct {
	batch arrow.RecordBatch // what goes on the pipe (owned)
	isPtr bool
	k     int    // segment of an own slot (-1: none)
	off   uint64 // own slot offset
}

// send turns a batch into what travels: the batch itself, a pointer to a slot the client wrote,
// or a garbage pointer. meta is attached in every case.
func (cl *c36Client) send(b arrow.RecordBatch, via string, attached int, mk, mv []string) c36Wire {
	inline := func() c36Wire {
		return c36Wire{batch: array.NewRecordBatchWithMetadata(b.Schema(), b.Columns(), b.NumRows(), arrow.NewMetadata(mk, mv)), k: -1}
	}
	extra := map[string]string{}
	for i := range mk {
		extra[mk[i]] = mv[i]
	}
	writeTo := func(k int) c36Wire {
		if k < 0 || k >= len(cl.segs) {
			return inline()
		}
		off, ln, ok, err := cl.segs[k].AllocateAndWrite(b)
		if err != nil || !ok {
			return inline()
		}
		return c36Wire{batch: vgirpc.VerifC35MakePointerBatch(b.Schema(), off, ln, extra), isPtr: true, k: k, off: off}
	}
	if !cl.useShm || via == "i" {
		return inline()
	}
	if via == "raw" {
		keys := append([]string{vgirpc.MetaShmOffset, vgirpc.MetaShmLength}, mk...)
		vals := append([]string{"18446744073709551615", "-7"}, mv...)
		eb := c36Empty(b.Schema())
		defer eb.Release()
		return c36Wire{batch: array.NewRecordBatchWithMetadata(b.Schema(), eb.Columns(), 0, arrow.NewMetadata(keys, vals)), isPtr: true, k: -1}
	}
	if k, ok := c36ParseIdx(via, "s"); ok {
		if attached == k {
			return writeTo(k)
		}
		return inline()
	}
	if k, ok := c36ParseIdx(via, "f"); ok {
		return writeTo(k)
	}
	panic("bad via token " + via)
}

func c36Empty(schema *arrow.Schema) arrow.RecordBatch {
	cols := make([]arrow.Array, schema.NumFields())
	for i, f := range schema.Fields() {
		bl := array.NewBuilder(c35Mem, f.Type)
		cols[i] = bl.NewArray()
		bl.Release()
	}
	defer func() {
		for _, c := range cols {
			c.Release()
		}
	}()
	return array.NewRecordBatch(schema, cols, 0)
}

func (cl *c36Client) reclaim(w c36Wire) {
	if w.isPtr && w.k >= 0 {
		_ = cl.segs[w.k].FreeOffset(w.off)
	}
}

func c36ErrType(md arrow.Metadata) string {
	extra, _ := md.GetValue(vgirpc.MetaLogExtra)
	var m map[string]any
	if json.Unmarshal([]byte(extra), &m) == nil {
		if t, ok := m["exception_type"].(string); ok {
			return t
		}
	}
	return "?"
}

// classify turns one response batch into a view item ("" = log batch, skip).
func (cl *c36Client) classify(b arrow.RecordBatch, hold bool) string {
	var md arrow.Metadata
	if rb, ok := b.(arrow.RecordBatchWithMetadata); ok {
		md = rb.Metadata()
	}
	if lvl, ok := md.GetValue(vgirpc.MetaLogLevel); ok {
		if lvl == "EXCEPTION" {
			return "err:" + c36ErrType(md)
		}
		return ""
	}
	if vgirpc.IsShmPointerBatch(b) {
		if cl.attached < 0 || cl.attached >= len(cl.segs) {
			return "err:client:no-segment"
		}
		seg := cl.segs[cl.attached]
		out, off, rel, err := vgirpc.ResolveShmBatch(b, seg)
		if err != nil {
			return "err:client:unresolvable"
		}
		id := c36ID(out)
		out.Release()
		if rel {
			if hold {
				b.Retain()
				cl.held = append(cl.held, c36Held{cl.attached, off, b, id})
			} else {
				_ = seg.FreeOffset(off)
			}
		}
		return "ok:" + id + ":shm"
	}
	if b.NumCols() == 0 && b.NumRows() == 0 {
		return "done" // void result
	}
	return "ok:" + c36ID(b) + ":pipe"
}

func (cl *c36Client) requestMeta(method string, adv string) (mk, mv []string, hasName bool) {
	ak, av, hasName := cl.advKeys(adv)
	mk = append([]string{vgirpc.MetaMethod, vgirpc.MetaRequestVersion}, ak...)
	mv = append([]string{method, vgirpc.ProtocolVersion}, av...)
	return mk, mv, hasName
}

func (cl *c36Client) writeStream(w c36Wire) {
	wr := ipc.NewWriter(cl.c2s, ipc.WithSchema(w.batch.Schema()))
	if err := wr.Write(w.batch); err != nil && cl.broken == "" {
		cl.broken = "write: " + err.Error()
	}
	if err := wr.Close(); err != nil && cl.broken == "" {
		cl.broken = "close: " + err.Error()
	}
}

func (cl *c36Client) unary(method, adv string, params arrow.RecordBatch, via string, hold bool) []string {
	mk, mv, _ := cl.requestMeta(method, adv)
	w := cl.send(params, via, cl.attached, mk, mv)
	defer w.batch.Release()
	cl.sentPtr = []bool{w.isPtr}
	cl.writeStream(w)
	rd, err := ipc.NewReader(cl.s2c)
	if err != nil {
		cl.reclaim(w)
		return []string{"err:client-read"}
	}
	defer rd.Release()
	var items []string
	for rd.Next() {
		if it := cl.classify(rd.RecordBatch(), hold); it != "" {
			items = append(items, it)
		}
	}
	if rd.Err() != nil {
		items = append(items, "err:client-read")
	}
	if len(items) == 1 && items[0] == "err:IOError" {
		cl.reclaim(w) // refused before the server took the slot
	}
	return items
}

type c36Turn struct {
	input arrow.RecordBatch
	via   string
}

func (cl *c36Client) stream(method, adv string, params arrow.RecordBatch, via string, hold bool, inSchema *arrow.Schema, turns []c36Turn, initFails bool) []string {
	mk, mv, hasName := cl.requestMeta(method, adv)
	w := cl.send(params, via, cl.attached, mk, mv)
	defer w.batch.Release()
	cl.sentPtr = []bool{w.isPtr}
	engaged := -1
	if cl.attached >= 0 && (hasName || w.isPtr) {
		engaged = cl.attached
	}
	// LOCKSTEP: the allocation table in the segment header is shared memory without any
	// inter-process lock; client and server may only touch it in turns. The slot of the first input
	// (which the client sends before it reads anything) is therefore allocated BEFORE a single byte
	// of the request is on the pipe — once the server has the request it resolves and frees the
	// request slot, and a client allocating at that moment loses that update (the freed entry comes
	// back: observed as a sporadic one-entry "leak" under load).
	cur := c36Wire{k: -1}
	sent := 0
	var prepared *c36Wire
	if len(turns) > 0 {
		fw := cl.send(turns[0].input, turns[0].via, engaged, []string{"c36tag", "c36seq"}, []string{"t0", "q0"})
		prepared = &fw
	}
	cl.writeStream(w)
	// input stream: the client writes before it reads
	iw := ipc.NewWriter(cl.c2s, ipc.WithSchema(inSchema))
	sendNext := func() bool {
		if sent >= len(turns) {
			return false
		}
		if prepared != nil {
			cur, prepared = *prepared, nil
		} else {
			cur = cl.send(turns[sent].input, turns[sent].via, engaged, []string{"c36tag", "c36seq"}, []string{fmt.Sprintf("t%d", sent), fmt.Sprintf("q%d", sent)})
		}
		cl.sentPtr = append(cl.sentPtr, cur.isPtr)
		if err := iw.Write(cur.batch); err != nil && cl.broken == "" {
			cl.broken = "input write: " + err.Error()
		}
		cur.batch.Release()
		sent++
		return true
	}
	have := sendNext()
	var items []string
	closeInput := func() {
		if iw != nil {
			_ = iw.Close()
			iw = nil
		}
	}
	if !have {
		// nothing to send: the input stream is just schema + EOS; the server opens its output only
		// after it has seen the input schema
		closeInput()
	}
	rd, err := ipc.NewReader(cl.s2c)
	if err != nil {
		closeInput()
		cl.reclaim(cur)
		cl.reclaim(w)
		return []string{"err:client-read"}
	}
	defer rd.Release()
	consumed := 0 // inputs answered with a data batch
	ended, failed := false, false
	for have && !ended && !failed {
		got := ""
		for got == "" {
			if !rd.Next() {
				ended = true
				break
			}
			got = cl.classify(rd.RecordBatch(), hold)
		}
		if ended {
			if rd.Err() != nil {
				items = append(items, "err:client-read")
			} else {
				items = append(items, "done")
			}
			break
		}
		items = append(items, got)
		if strings.HasPrefix(got, "err:") {
			failed = true
			break
		}
		consumed++
		have = sendNext()
	}
	closeInput()
	for !ended && rd.Next() {
		it := cl.classify(rd.RecordBatch(), hold)
		switch {
		case it == "":
		case strings.HasPrefix(it, "err:") && !failed:
			items = append(items, it)
			failed = true
		default:
			items = append(items, "extra:"+it)
		}
	}
	if failed {
		// The client takes back exactly the slots the server never read — and no others, so a
		// server that reads a slot but forgets to free it is not covered up:
		//  * a refusal before dispatch (IOError on a response stream with the EMPTY schema): the
		//    request slot and the input already sent;
		//  * a failing init handler (scripted): the input already sent was drained unread;
		//  * an input refused by the stream loop (IOError inside the output stream): that input.
		// A turn that fails in the handler, in the cast or in validation had its input resolved
		// first: freeing that slot is the server's job.
		last := items[len(items)-1]
		refusedBeforeDispatch := consumed == 0 && last == "err:IOError" && rd.Schema().NumFields() == 0
		switch {
		case refusedBeforeDispatch:
			if sent > 0 {
				cl.reclaim(cur)
			}
			cl.reclaim(w)
		case consumed == 0 && initFails:
			if sent > 0 {
				cl.reclaim(cur)
			}
		case last == "err:IOError":
			if sent > 0 {
				cl.reclaim(cur)
			}
		}
	}
	return items
}

// drop re-reads a held slot just before giving it back (a zero-copy client reads the bytes as long
// as it holds the pointer): it must still hold the batch that was received.
func (cl *c36Client) drop(h c36Held) {
	out, _, _, err := vgirpc.ResolveShmBatch(h.ptr, cl.segs[h.k])
	switch {
	case err != nil:
		cl.damaged = append(cl.damaged, fmt.Sprintf("slot %d of segment %d: no longer readable: %v", h.off, h.k, err))
	default:
		if id := c36ID(out); id != h.id {
			cl.damaged = append(cl.damaged, fmt.Sprintf("slot %d of segment %d: held batch %s now reads as %s", h.off, h.k, h.id, id))
		}
		out.Release()
	}
	h.ptr.Release()
	_ = cl.segs[h.k].FreeOffset(h.off)
}

func (cl *c36Client) releaseAll() {
	for _, h := range cl.held {
		cl.drop(h)
	}
	cl.held = nil
}

// releaseOne releases the i-th most recently received held pointer (and, like the model, forgets
// every held entry for the same slot).
func (cl *c36Client) releaseOne(i int) {
	if i < 0 || i >= len(cl.held) {
		return
	}
	h := cl.held[len(cl.held)-1-i]
	cl.drop(h)
	var keep []c36Held
	for _, x := range cl.held {
		if x.k == h.k && x.off == h.off {
			if x.ptr != h.ptr {
				x.ptr.Release()
			}
			continue
		}
		keep = append(keep, x)
	}
	cl.held = keep
}

// ------------------------------------------------------------------ exec

func c36ParamsBatch(srv *vgirpc.Server, method string, a, b, seed int64, pad int) arrow.RecordBatch {
	ps, _, _, _, ok := vgirpc.VerifC36Schemas(srv, method)
	if !ok {
		panic("unknown method " + method)
	}
	cols := make([]arrow.Array, ps.NumFields())
	for i, f := range ps.Fields() {
		bl := array.NewBuilder(c35Mem, f.Type)
		switch bb := bl.(type) {
		case *array.Int64Builder:
			v := seed
			switch f.Name {
			case "n", "mult", "count":
				v = a
			case "initfail":
				v = b
			}
			if c36IsProducer(method) && f.Name == "n" {
				v = b
			}
			bb.Append(v)
		case *array.BinaryBuilder:
			bb.Append(c36Bytes(seed+1000, int64(pad)))
		default:
			panic(fmt.Sprintf("c36: unexpected params field %s %s", f.Name, f.Type))
		}
		cols[i] = bl.NewArray()
		bl.Release()
	}
	defer func() {
		for _, c := range cols {
			c.Release()
		}
	}()
	return array.NewRecordBatch(ps, cols, 1)
}

func c36ViaPlain(via string) bool { return via == "i" || strings.HasPrefix(via, "s") }

func c36View(items []string) []string {
	out := make([]string, len(items))
	for i, it := range items {
		out[i] = strings.TrimSuffix(strings.TrimSuffix(it, ":shm"), ":pipe")
	}
	return out
}

func c36Exec(c *Case) {
	var segs []*vgirpc.ShmSegment
	defer func() {
		for _, s := range segs {
			s.Close()
		}
	}()
	// connections are opened lazily so that `seg` lines come first
	var cl, plain *c36Client
	open := func() {
		if cl == nil {
			cl = newC36Client(segs, true)
			plain = newC36Client(nil, false)
		}
	}
	hdrs := func() string {
		if len(segs) == 0 {
			return "-"
		}
		p := make([]string, len(segs))
		for i, s := range segs {
			p[i] = X(s.VerifHeaderPrefix())
		}
		return strings.Join(p, ",")
	}
	report := func(items []string) string {
		its := "-"
		if len(items) > 0 {
			its = strings.Join(items, ",")
		}
		held := 0
		if cl != nil {
			held = len(cl.held)
		}
		return fmt.Sprintf("%s | %s | held=%d", its, hdrs(), held)
	}
	refSrv := c36Server() // only for schema lookups when describing batches
	everGood := false // harness's own tracking for the oracle on never-advertised connections

	for _, l := range c.Lines {
		f := strings.Fields(l)
		if len(f) == 0 {
			continue
		}
		switch f[0] {
		case "seg":
			k, _ := strconv.Atoi(f[1])
			n, _ := strconv.Atoi(f[2])
			if k != len(segs) || cl != nil {
				c.Out(l, "err:bad-op")
				continue
			}
			s, err := vgirpc.ShmCreate(vgirpc.ShmHeaderSize + n)
			if err != nil {
				panic(err)
			}
			segs = append(segs, s)
			c.Out(l, "ok")
		case "release":
			open()
			cl.segs = segs
			if len(f) > 1 {
				i, _ := strconv.Atoi(f[1])
				cl.releaseOne(i)
			} else {
				cl.releaseAll()
			}
			c36SlotOracles(c, l, cl, segs)
			c.Out(l, report(nil))
		case "unary":
			open()
			cl.segs = segs
			adv, method := f[1], f[2]
			n, _ := strconv.ParseInt(f[3], 10, 64)
			seed, _ := strconv.ParseInt(f[4], 10, 64)
			pad, _ := strconv.Atoi(f[5])
			via, hold := f[6], f[7] == "1"
			params := c36ParamsBatch(refSrv, method, n, 0, seed, pad)
			pb := c36Describe(params)
			outcome := "fin"
			switch {
			case n < 0:
				outcome = "e=ValueError"
			case method == "blob":
				_, rs, _, _, _ := vgirpc.VerifC36Schemas(refSrv, method)
				rb := c36DataBatch(rs, c36Bytes(seed, n))
				outcome = "r=" + c36Describe(rb).String()
				rb.Release()
			}
			ml := fmt.Sprintf("unary %s %s %s %s %s", adv, pb, via, outcome, f[7])
			if strings.HasPrefix(adv, "g") {
				everGood = true
			}
			items := cl.unary(method, adv, params, via, hold)
			pitems := plain.unary(method, "-", params, "i", false)
			params.Release()
			c36Oracles(c, l, via, nil, cl.sentPtr, items, pitems, everGood, false)
			c36SlotOracles(c, l, cl, segs)
			c.Stat("unary-" + method)
			c.Out(ml, report(items))
		case "stream":
			open()
			cl.segs = segs
			adv, method := f[1], f[2]
			a, _ := strconv.ParseInt(f[3], 10, 64)
			b, _ := strconv.ParseInt(f[4], 10, 64)
			seed, _ := strconv.ParseInt(f[5], 10, 64)
			pad, _ := strconv.Atoi(f[6])
			via, hold := f[7], f[8] == "1"
			// xchl / xchi: the exchange method fed with a castable (large_binary) / an uncastable
			// (int64) input schema: the framework casts, or fails to cast, AFTER resolving the input
			wireKind := method
			if strings.HasPrefix(method, "xch") {
				method = "xch"
			}
			params := c36ParamsBatch(refSrv, method, a, b, seed, pad)
			pb := c36Describe(params)
			initErr := "-"
			if method == "xch" && b != 0 {
				initErr = "ValueError"
			}
			var turns []c36Turn
			var mturns, vias []string
			inSchema := c36DataSchema
			if c36IsProducer(method) {
				inSchema = c36TickSchema
			}
			switch wireKind {
			case "xchl":
				inSchema = arrow.NewSchema([]arrow.Field{{Name: "data", Type: arrow.BinaryTypes.LargeBinary, Nullable: true}}, nil)
			case "xchi":
				inSchema = arrow.NewSchema([]arrow.Field{{Name: "data", Type: arrow.PrimitiveTypes.Int64, Nullable: true}}, nil)
			}
			left := a
			if f[9] != "-" {
				for i, ts := range strings.Split(f[9], ";") {
					p := strings.Split(ts, ":")
					var in arrow.RecordBatch
					var outc string
					var tvia string
					if c36IsProducer(method) {
						tvia = p[1]
						in = c36Empty(c36TickSchema)
						if left > 0 {
							left--
							ob := c36ProducerBatch(method, seed+left, b)
							outc = "r=" + c36Describe(ob).String()
							ob.Release()
						} else {
							outc = "fin"
						}
					} else {
						nb, _ := strconv.ParseInt(p[0], 10, 64)
						tvia = p[2]
						data := c36Bytes(seed+int64(i)*31, nb)
						flagByte := map[string]byte{"e": 0xEE, "p": 0xEF, "n": 0xED, "d": 0xEC}
						if len(data) > 0 {
							data[0] = 0x01
							if fb, ok := flagByte[p[1]]; ok {
								data[0] = fb
							}
						}
						switch wireKind {
						case "xchl":
							lb := array.NewBinaryBuilder(c35Mem, arrow.BinaryTypes.LargeBinary)
							lb.Append(data)
							arr := lb.NewArray()
							lb.Release()
							in = array.NewRecordBatch(inSchema, []arrow.Array{arr}, 1)
							arr.Release()
						case "xchi":
							ib := array.NewInt64Builder(c35Mem)
							for k := int64(0); k < nb/8+1; k++ {
								ib.Append(seed + k)
							}
							arr := ib.NewArray()
							ib.Release()
							in = array.NewRecordBatch(inSchema, []arrow.Array{arr}, int64(arr.Len()))
							arr.Release()
						default:
							in = c36DataBatch(c36DataSchema, data)
						}
						switch {
						case wireKind == "xchi":
							outc = "e=TypeError" // castRecordBatch refuses int64 -> binary
						case p[1] == "e" && len(data) > 0:
							outc = "e=ValueError"
						case (p[1] == "p" || p[1] == "n" || p[1] == "d") && len(data) > 0:
							outc = "e=RuntimeError"
						default:
							ob := c36DataBatch(c36DataSchema, bytes.Repeat(data, int(a)))
							outc = "r=" + c36Describe(ob).String()
							ob.Release()
						}
					}
					turns = append(turns, c36Turn{in, tvia})
					vias = append(vias, tvia)
					mturns = append(mturns, fmt.Sprintf("%s/%s/%s", c36Describe(in), tvia, outc))
				}
			}
			mt := "-"
			if len(mturns) > 0 {
				mt = strings.Join(mturns, ";")
			}
			ml := fmt.Sprintf("stream %s %s %s %s %s %s", adv, pb, via, initErr, f[8], mt)
			if strings.HasPrefix(adv, "g") {
				everGood = true
			}
			items := cl.stream(method, adv, params, via, hold, inSchema, turns, initErr != "-")
			pturns := make([]c36Turn, len(turns))
			for i, t := range turns {
				pturns[i] = c36Turn{t.input, "i"}
			}
			pitems := plain.stream(method, "-", params, "i", false, inSchema, pturns, initErr != "-")
			for _, t := range turns {
				t.input.Release()
			}
			params.Release()
			c36Oracles(c, l, via, vias, cl.sentPtr, items, pitems, everGood, initErr != "-")
			c36SlotOracles(c, l, cl, segs)
			c.Stat("stream-" + wireKind)
			c.Out(ml, report(items))
		default:
			c.Out(l, "err:bad-op")
		}
	}
	if cl != nil {
		// end of session: the client releases what it still holds; nothing may stay allocated
		cl.releaseAll()
		c36SlotOracles(c, "end of session", cl, segs)
		for i, s := range segs {
			if t := s.VerifTable(); len(t) != 0 {
				c.Oracle("slot-leak", fmt.Sprintf("segment %d still has %d allocation(s) after the client released every pointer: %v", i, len(t), t))
			}
		}
		if left, exited := cl.finish(); left != 0 || !exited || cl.broken != "" {
			c.Oracle("session-out-of-frame", fmt.Sprintf("shm connection: %d unread response bytes, server exited=%v, transport=%q", left, exited, cl.broken))
		}
		if left, exited := plain.finish(); left != 0 || !exited || plain.broken != "" {
			c.Oracle("plain-session-out-of-frame", fmt.Sprintf("plain connection: %d unread response bytes, server exited=%v, transport=%q", left, exited, plain.broken))
		}
	}
}

// c36SlotOracles: after every step each segment's table is offset-sorted, disjoint and inside the
// data area, and no pointer the client gave back had lost its batch while it was held.
func c36SlotOracles(c *Case, l string, cl *c36Client, segs []*vgirpc.ShmSegment) {
	for i, s := range segs {
		prev := uint64(vgirpc.ShmHeaderSize)
		for _, e := range s.VerifTable() {
			if e[0] < prev || e[1] == 0 || e[0]+e[1] > uint64(s.Size()) {
				c.Oracle("table-not-wf", fmt.Sprintf("after %q: segment %d table %v is not sorted/disjoint/in bounds", l, i, s.VerifTable()))
				break
			}
			prev = e[0] + e[1]
		}
	}
	for _, d := range cl.damaged {
		c.Oracle("held-slot-overwritten", fmt.Sprintf("at %q: %s", l, d))
	}
	cl.damaged = nil
}

// c36Oracles states the property on the real outputs of one call: same results as the plain
// session when the client is well behaved; a framework error (and nothing after it) for a pointer
// batch the server has no way to resolve, with everything before it as in the plain session.
func c36Oracles(c *Case, l, via string, vias []string, sentPtr []bool, items, pitems []string, everGood, initErr bool) {
	misuseAt := -2 // -1: the request; i: turn i
	all := append([]string{via}, vias...)
	for i, v := range all {
		if !c36ViaPlain(v) && i < len(sentPtr) && sentPtr[i] {
			misuseAt = i - 1
			break
		}
	}
	got, want := c36View(items), c36View(pitems)
	reached := misuseAt != -2
	if misuseAt >= 0 {
		// a turn is reached only if the call got past init and every earlier turn was answered
		if initErr || len(want) < misuseAt {
			reached = false
		}
		for i := 0; i < misuseAt && i < len(want); i++ {
			if !strings.HasPrefix(want[i], "ok:") {
				reached = false
			}
		}
	}
	if !reached {
		// no unresolvable pointer was sent (or the call ended before reaching it)
		if strings.Join(got, ",") != strings.Join(want, ",") {
			c.Oracle("shm-result-differs", fmt.Sprintf("%q: with segment %v, without %v", l, got, want))
		}
		return
	}
	c.Stat("misuse-call")
	pos := 0
	if misuseAt >= 0 {
		pos = misuseAt
	}
	for i := 0; i < pos && i < len(got) && i < len(want); i++ {
		if got[i] != want[i] {
			c.Oracle("shm-result-differs", fmt.Sprintf("%q: turn %d with segment %s, without %s", l, i, got[i], want[i]))
			return
		}
	}
	// the refusal must come from the framework (IOError), not from a handler that was handed the
	// zero-row pointer batch as if it were data
	if len(got) != pos+1 || got[len(got)-1] != "err:IOError" {
		cls := "request-pointer-not-refused"
		if misuseAt >= 0 {
			cls = "input-pointer-not-refused"
		}
		if !everGood {
			cls = "unadvertised-" + cls
		} else {
			cls = "unresolvable-" + cls
		}
		c.Oracle(cls, fmt.Sprintf("%q: pointer batch the server cannot resolve (segment ever advertised on this connection: %v) answered with %v", l, everGood, got))
	}
}

// ------------------------------------------------------------------ generator

func c36Gen(g *Gen) {
	r := g.Rng
	n := g.N(220, 4000)
	for i := 0; i < n; i++ {
		var lines []string
		nseg := Pick(r, []int{0, 1, 1, 1, 1, 2, 2})
		for k := 0; k < nseg; k++ {
			lines = append(lines, fmt.Sprintf("seg %d %d", k, Pick(r, []int{4096, 4500, 5200, 7000, 9000, 12000, 30000})))
		}
		attached := -1
		everGood := false
		advAll := r.Chance(25) // advertise on every request
		ncalls := r.Range(2, 9)
		sizes := []int{0, 1, 10, 100, 230, 250, 260, 300, 700, 1500, 3000, 6000}
		for k := 0; k < ncalls; k++ {
			if r.Chance(7) {
				if r.Bool() {
					lines = append(lines, fmt.Sprintf("release %d", r.Intn(4)))
				} else {
					lines = append(lines, "release")
				}
				continue
			}
			adv := "-"
			if nseg > 0 {
				x := r.Intn(100)
				switch {
				case advAll || (k == 0 && x < 65) || x < 22:
					adv = fmt.Sprintf("g%d", r.Intn(nseg))
					if advAll && attached >= 0 && r.Chance(85) {
						adv = fmt.Sprintf("g%d", attached)
					}
				case x < 30:
					adv = fmt.Sprintf("n%d", r.Intn(nseg))
				case x < 36:
					adv = fmt.Sprintf("b%d", r.Intn(nseg))
				case x < 40:
					adv = "x"
				}
			} else if r.Chance(10) {
				adv = "x"
			}
			if strings.HasPrefix(adv, "g") {
				attached, _ = strconv.Atoi(adv[1:])
				everGood = true
			} else if adv == "x" {
				attached = -1
			}
			engagedIfInline := attached >= 0 && adv != "-"
			pickVia := func(att int) string {
				x := r.Intn(100)
				switch {
				case att >= 0 && x < 60:
					return fmt.Sprintf("s%d", att)
				case nseg > 0 && x < 66:
					return fmt.Sprintf("s%d", r.Intn(nseg))
				}
				return "i"
			}
			via := pickVia(attached)
			// misuse: pointers where the server has nothing attached / garbage pointers
			if r.Chance(9) {
				if !everGood && nseg > 0 && r.Bool() {
					via = fmt.Sprintf("f%d", r.Intn(nseg))
				} else {
					via = "raw"
				}
			}
			hold := 0
			if r.Chance(20) {
				hold = 1
			}
			pad := Pick(r, []int{0, 0, 10, 300, 2000})
			seed := r.Intn(1000)
			switch x := r.Intn(100); {
			case x < 45:
				method := "blob"
				nn := Pick(r, sizes)
				if r.Chance(12) {
					method = "void"
				}
				if r.Chance(8) {
					nn = -1
				}
				lines = append(lines, fmt.Sprintf("unary %s %s %d %d %d %s %d", adv, method, nn, seed, pad, via, hold))
			case x < 80:
				// exchange; inputs may go through shm only when this request engages it
				eng := -1
				if engagedIfInline || (attached >= 0 && strings.HasPrefix(via, "s") && via == fmt.Sprintf("s%d", attached)) {
					eng = attached
				}
				nt := r.Intn(5)
				var turns []string
				for t := 0; t < nt; t++ {
					tv := pickVia(eng)
					if r.Chance(6) {
						if !everGood && nseg > 0 && r.Bool() {
							tv = fmt.Sprintf("f%d", r.Intn(nseg))
						} else {
							tv = "raw"
						}
					}
					flag := "o"
					if r.Chance(22) {
						flag = Pick(r, []string{"e", "e", "p", "n", "d"})
					}
					turns = append(turns, fmt.Sprintf("%d:%s:%s", Pick(r, []int{0, 1, 50, 240, 300, 900, 2500}), flag, tv))
				}
				ts := "-"
				if len(turns) > 0 {
					ts = strings.Join(turns, ";")
				}
				initfail := 0
				if r.Chance(7) {
					initfail = 1
				}
				lines = append(lines, fmt.Sprintf("stream %s %s %d %d %d %d %s %d %s", adv, Pick(r, []string{"xch", "xch", "xch", "xch", "xchl", "xchl", "xchi"}),
					Pick(r, []int{0, 1, 1, 2, 5}), initfail, seed, pad, via, hold, ts))
			default:
				count := r.Intn(4)
				nt := count + Pick(r, []int{0, 1, 1, 1, 2})
				var turns []string
				for t := 0; t < nt; t++ {
					tv := "i"
					if r.Chance(5) {
						tv = "raw"
					}
					turns = append(turns, "t:"+tv)
				}
				ts := "-"
				if len(turns) > 0 {
					ts = strings.Join(turns, ";")
				}
				gm := Pick(r, []string{"gen", "gen", "genb", "genc", "gd"})
				gn := Pick(r, sizes)
				if gm == "gd" {
					gm, gn = fmt.Sprintf("gd%d", r.Intn(len(c36DeepCols))), Pick(r, []int{0, 1, 8, 40, 60})
				}
				lines = append(lines, fmt.Sprintf("stream %s %s %d %d %d %d %s %d %s", adv, gm, count, gn, seed, pad, via, hold, ts))
			}
		}
		g.Case(lines...)
	}
	// table capacity: one producer stream of more batches than the allocation table has entries
	// (4094), every pointer held until the end; past the table's capacity results must fall back to
	// the pipe, and every held slot must still hold its batch when it is finally read and released
	for i, nc := 0, g.N(1, 4); i < nc; i++ {
		count := 4094 + r.Range(2, 12)
		ts := make([]string, count+1)
		for t := range ts {
			ts[t] = "t:i"
		}
		lines := []string{"seg 0 3000000",
			fmt.Sprintf("unary g0 blob 300 %d 0 i 1", r.Intn(1000)),
			fmt.Sprintf("stream g0 %s %d %d %d 0 i 1 %s", Pick(r, []string{"gen", "genb"}), count, Pick(r, []int{260, 300}), r.Intn(1000), strings.Join(ts, ";")),
			"release",
			fmt.Sprintf("unary - blob 300 %d 0 s0 0", r.Intn(1000))}
		g.Case(lines...)
	}
	// several producers in ONE session whose output schemas are pairwise almost equal (metadata
	// only), and producers of deeply nested dictionary columns — large batches, through the segment
	for i, nm := 0, g.N(60, 1200); i < nm; i++ {
		lines := []string{fmt.Sprintf("seg 0 %d", Pick(r, []int{30000, 60000, 120000}))}
		deep := r.Bool()
		for k := r.Range(2, 5); k > 0; k-- {
			count := r.Range(1, 2)
			ts := make([]string, count+1)
			for t := range ts {
				ts[t] = "t:i"
			}
			m, nn := Pick(r, []string{"gen", "genb", "genc"}), Pick(r, []int{700, 1500, 3000})
			if deep {
				m, nn = fmt.Sprintf("gd%d", r.Intn(len(c36DeepCols))), Pick(r, []int{40, 60, 100})
			}
			lines = append(lines, fmt.Sprintf("stream %s %s %d %d %d 0 %s %d %s", Pick(r, []string{"g0", "g0", "-"}), m, count, nn, r.Intn(1000), Pick(r, []string{"i", "s0"}), r.Intn(2), strings.Join(ts, ";")))
			if k == 1 || len(lines) == 2 {
				lines[len(lines)-1] = strings.Replace(lines[len(lines)-1], "stream - ", "stream g0 ", 1)
			}
		}
		lines = append(lines, "release")
		g.Case(lines...)
	}
	// turns that FAIL after their input arrived as a pointer (handler error, panic, no emit, double
	// emit, uncastable input, castable input), and failing unary / init calls whose REQUEST arrived
	// as a pointer: same answers as the plain session, and every slot must be free afterwards
	for i, nf := 0, g.N(60, 1200); i < nf; i++ {
		lines := []string{fmt.Sprintf("seg 0 %d", Pick(r, []int{9000, 20000, 60000}))}
		for k := r.Range(2, 5); k > 0; k-- {
			adv := Pick(r, []string{"g0", "g0", "-"})
			if k == 5 || len(lines) == 1 {
				adv = "g0"
			}
			hold := r.Intn(2)
			switch r.Intn(4) {
			case 0: // failing / void unary with a pointer request
				lines = append(lines, fmt.Sprintf("unary %s %s %d %d %d s0 %d", adv, Pick(r, []string{"blob", "void"}), Pick(r, []int{-1, -1, 300}), r.Intn(1000), Pick(r, []int{300, 2000}), hold))
			case 1: // failing init with a pointer request and a pointer first input
				lines = append(lines, fmt.Sprintf("stream %s xch 1 1 %d %d s0 %d %d:o:s0", adv, r.Intn(1000), Pick(r, []int{300, 2000}), hold, Pick(r, []int{300, 900})))
			default:
				nt := r.Range(1, 4)
				failAt := r.Intn(nt)
				ts := make([]string, nt)
				for t := range ts {
					flag := "o"
					if t == failAt {
						flag = Pick(r, []string{"e", "p", "n", "d"})
					}
					ts[t] = fmt.Sprintf("%d:%s:%s", Pick(r, []int{240, 300, 900, 2500}), flag, Pick(r, []string{"s0", "s0", "s0", "i"}))
				}
				m := Pick(r, []string{"xch", "xch", "xchl", "xchi"})
				lines = append(lines, fmt.Sprintf("stream %s %s %d 0 %d %d %s %d %s", adv, m, Pick(r, []int{1, 2}), r.Intn(1000), Pick(r, []int{0, 300}), Pick(r, []string{"i", "s0"}), hold, strings.Join(ts, ";")))
			}
		}
		lines = append(lines, "release")
		g.Case(lines...)
	}
	// out-of-order release: several large results held in one roomy segment, an EARLIER one given
	// back while later ones are still held (a hole in front of a live slot), then further large
	// results that first-fit into that hole, then everything read back and released
	for i, no := 0, g.N(60, 1200); i < no; i++ {
		lines := []string{fmt.Sprintf("seg 0 %d", Pick(r, []int{20000, 30000, 60000}))}
		big := func() int { return Pick(r, []int{700, 1000, 1500, 1500, 3000}) }
		held := 0
		emit := func(n int) {
			switch r.Intn(3) {
			case 0, 1:
				for k := 0; k < n; k++ {
					lines = append(lines, fmt.Sprintf("unary g0 blob %d %d %d %s 1", big(), r.Intn(1000), Pick(r, []int{0, 300}), Pick(r, []string{"i", "s0"})))
				}
			default:
				ts := make([]string, n)
				for k := range ts {
					ts[k] = "t:i"
				}
				lines = append(lines, fmt.Sprintf("stream g0 gen %d %d %d 0 i 1 %s", n, big(), r.Intn(1000), strings.Join(ts, ";")))
			}
			held += n
		}
		emit(r.Range(3, 4))
		for rounds := r.Range(1, 3); rounds > 0 && held > 1; rounds-- {
			// give back an older pointer (index >= 1 counts from the newest), keep the newest
			lines = append(lines, fmt.Sprintf("release %d", r.Range(1, held-1)))
			held--
			if r.Chance(40) && held > 1 {
				lines = append(lines, fmt.Sprintf("release %d", r.Range(1, held-1)))
				held--
			}
			emit(r.Range(2, 3))
		}
		lines = append(lines, "release")
		if r.Bool() {
			lines = append(lines, fmt.Sprintf("unary - blob %d %d 0 s0 0", big(), r.Intn(1000)))
		}
		g.Case(lines...)
	}
}
