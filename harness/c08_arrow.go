package main

// Independent reading / writing of Arrow data for the C08 and C07 harnesses: a canonical text of
// a schema and of row 0 of a batch (what went over the wire), and a batch builder from cell
// tokens (what a peer could send). None of this goes through the code under verification.
//
//	cell tokens (following the column type): N | i:<int> | g:<bits> | f:<bits> | b:0|1 | s:<hex>
//	            | y:<hex> | l:<n> c*n | m:<n> (k c)*n | r c*children

import (
	"encoding/hex"
	"fmt"
	"math"
	"math/big"
	"sort"
	"strconv"
	"strings"

	"github.com/apache/arrow-go/v18/arrow"
	"github.com/apache/arrow-go/v18/arrow/array"
	"github.com/apache/arrow-go/v18/arrow/decimal128"
	"github.com/apache/arrow-go/v18/arrow/memory"
)

func c08TypeString(dt arrow.DataType) string {
	switch t := dt.(type) {
	case *arrow.Int8Type:
		return "i8"
	case *arrow.Int16Type:
		return "i16"
	case *arrow.Int32Type:
		return "i32"
	case *arrow.Int64Type:
		return "i64"
	case *arrow.Uint8Type:
		return "u8"
	case *arrow.Uint16Type:
		return "u16"
	case *arrow.Uint32Type:
		return "u32"
	case *arrow.Uint64Type:
		return "u64"
	case *arrow.Float32Type:
		return "f32"
	case *arrow.Float64Type:
		return "f64"
	case *arrow.BooleanType:
		return "bool"
	case *arrow.StringType:
		return "utf8"
	case *arrow.LargeStringType:
		return "lutf8"
	case *arrow.BinaryType:
		return "bin"
	case *arrow.LargeBinaryType:
		return "lbin"
	case *arrow.FixedSizeBinaryType:
		return fmt.Sprintf("fsb%d", t.ByteWidth)
	case *arrow.Date32Type:
		return "date32"
	case *arrow.TimestampType:
		if t.Unit != arrow.Microsecond {
			return "ts-unit-" + t.Unit.String()
		}
		switch t.TimeZone {
		case "":
			return "ts"
		case "UTC":
			return "tsutc"
		}
		return "ts-zone-" + t.TimeZone
	case *arrow.Time64Type:
		if t.Unit != arrow.Microsecond {
			return "time64-unit-" + t.Unit.String()
		}
		return "time64"
	case *arrow.DurationType:
		if t.Unit != arrow.Microsecond {
			return "dur-unit-" + t.Unit.String()
		}
		return "dur"
	case *arrow.Decimal128Type:
		if t.Precision != 20 || t.Scale != 4 {
			return fmt.Sprintf("dec-%d-%d", t.Precision, t.Scale)
		}
		return "dec"
	case *arrow.DictionaryType:
		if t.IndexType.ID() == arrow.INT16 && t.ValueType.ID() == arrow.STRING {
			return "dict"
		}
		return "dict-" + t.IndexType.Name() + "-" + t.ValueType.Name()
	case *arrow.ListType:
		if !t.ElemField().Nullable { // the derivation's lists have nullable items; anything else is another type
			return "list-nonnull-items<" + c08TypeString(t.Elem()) + ">"
		}
		return "list<" + c08TypeString(t.Elem()) + ">"
	case *arrow.MapType:
		if !t.ItemField().Nullable || t.KeyField().Nullable {
			return "map-odd-nullability<" + c08TypeString(t.KeyType()) + "," + c08TypeString(t.ItemType()) + ">"
		}
		return "map<" + c08TypeString(t.KeyType()) + "," + c08TypeString(t.ItemType()) + ">"
	case *arrow.StructType:
		return "struct{" + c08FieldsString(t.Fields()) + "}"
	}
	return "other-" + dt.Name()
}

func c08FieldsString(fs []arrow.Field) string {
	parts := make([]string, len(fs))
	for i, f := range fs {
		n := "0"
		if f.Nullable {
			n = "1"
		}
		parts[i] = XS(f.Name) + ":" + c08TypeString(f.Type) + ":" + n
	}
	return strings.Join(parts, ",")
}

func c08SchemaString(s *arrow.Schema) string { return c08FieldsString(s.Fields()) }

func c08DecString(n decimal128.Num) string { return n.BigInt().String() }

// c08CellString renders slot i of arr. Map entries are listed in key order (strings bytewise,
// integers by decimal text) whatever order they were written in.
func c08CellString(arr arrow.Array, i int) string {
	if arr.IsNull(i) {
		return "N"
	}
	switch a := arr.(type) {
	case *array.Int8:
		return "i8:" + strconv.FormatInt(int64(a.Value(i)), 10)
	case *array.Int16:
		return "i16:" + strconv.FormatInt(int64(a.Value(i)), 10)
	case *array.Int32:
		return "i32:" + strconv.FormatInt(int64(a.Value(i)), 10)
	case *array.Int64:
		return "i64:" + strconv.FormatInt(a.Value(i), 10)
	case *array.Uint8:
		return "u8:" + strconv.FormatUint(uint64(a.Value(i)), 10)
	case *array.Uint16:
		return "u16:" + strconv.FormatUint(uint64(a.Value(i)), 10)
	case *array.Uint32:
		return "u32:" + strconv.FormatUint(uint64(a.Value(i)), 10)
	case *array.Uint64:
		return "u64:" + strconv.FormatUint(a.Value(i), 10)
	case *array.Float32:
		return "f32:" + c08ShowF32(math.Float32bits(a.Value(i)))
	case *array.Float64:
		return "f64:" + c08ShowF64(math.Float64bits(a.Value(i)))
	case *array.Boolean:
		if a.Value(i) {
			return "b:1"
		}
		return "b:0"
	case *array.String:
		return "s:" + hex.EncodeToString([]byte(a.Value(i)))
	case *array.LargeString:
		return "ls:" + hex.EncodeToString([]byte(a.Value(i)))
	case *array.Binary:
		return "y:" + hex.EncodeToString(a.Value(i))
	case *array.LargeBinary:
		return "ly:" + hex.EncodeToString(a.Value(i))
	case *array.FixedSizeBinary:
		return "fy:" + hex.EncodeToString(a.Value(i))
	case *array.Date32:
		return "date:" + strconv.FormatInt(int64(a.Value(i)), 10)
	case *array.Timestamp:
		return "ts:" + strconv.FormatInt(int64(a.Value(i)), 10)
	case *array.Time64:
		return "time:" + strconv.FormatInt(int64(a.Value(i)), 10)
	case *array.Duration:
		return "dur:" + strconv.FormatInt(int64(a.Value(i)), 10)
	case *array.Decimal128:
		return "dec:" + c08DecString(a.Value(i))
	case *array.Dictionary:
		if d, ok := a.Dictionary().(*array.String); ok {
			return "dict:" + hex.EncodeToString([]byte(d.Value(a.GetValueIndex(i))))
		}
		return "dict-other"
	case *array.Map: // before *array.List: a Map embeds a List
		start, end := a.ValueOffsets(i)
		type ent struct{ key, text string }
		ents := []ent{}
		for j := int(start); j < int(end); j++ {
			ents = append(ents, ent{c08KeyText(a.Keys(), j), c08CellString(a.Keys(), j) + "=" + c08CellString(a.Items(), j)})
		}
		sort.SliceStable(ents, func(x, y int) bool { return c08MapKeyLess(ents[x].key, ents[y].key) })
		parts := make([]string, len(ents))
		for k, e := range ents {
			parts[k] = e.text
		}
		return "{" + strings.Join(parts, ",") + "}"
	case *array.List:
		start, end := a.ValueOffsets(i)
		parts := []string{}
		for j := int(start); j < int(end); j++ {
			parts = append(parts, c08CellString(a.ListValues(), j))
		}
		return "[" + strings.Join(parts, ",") + "]"
	case *array.Struct:
		st := a.DataType().(*arrow.StructType)
		parts := make([]string, a.NumField())
		for k := range parts {
			parts[k] = XS(st.Field(k).Name) + "=" + c08CellString(a.Field(k), i)
		}
		return "(" + strings.Join(parts, ",") + ")"
	}
	return "other-" + arr.DataType().Name()
}

func c08KeyText(arr arrow.Array, i int) string {
	switch a := arr.(type) {
	case *array.String:
		return a.Value(i)
	case *array.Dictionary:
		if d, ok := a.Dictionary().(*array.String); ok {
			return d.Value(a.GetValueIndex(i))
		}
	case *array.Int8:
		return strconv.FormatInt(int64(a.Value(i)), 10)
	case *array.Int16:
		return strconv.FormatInt(int64(a.Value(i)), 10)
	case *array.Int32:
		return strconv.FormatInt(int64(a.Value(i)), 10)
	case *array.Int64:
		return strconv.FormatInt(a.Value(i), 10)
	case *array.Uint8:
		return strconv.FormatUint(uint64(a.Value(i)), 10)
	case *array.Uint16:
		return strconv.FormatUint(uint64(a.Value(i)), 10)
	case *array.Uint32:
		return strconv.FormatUint(uint64(a.Value(i)), 10)
	case *array.Uint64:
		return strconv.FormatUint(a.Value(i), 10)
	}
	return ""
}

// c08RowString renders row 0 of a batch as (name=cell,…).
func c08RowString(b arrow.RecordBatch) string {
	parts := make([]string, b.NumCols())
	for i := range parts {
		parts[i] = XS(b.ColumnName(i)) + "=" + c08CellString(b.Column(i), 0)
	}
	return "(" + strings.Join(parts, ",") + ")"
}

// ---------------------------------------------------------------- building batches from cell tokens

// c08AppendCell appends one cell (tokens following dt) to builder b.
func c08AppendCell(b array.Builder, dt arrow.DataType, toks []string) ([]string, error) {
	if len(toks) == 0 {
		return nil, fmt.Errorf("cell: out of tokens")
	}
	tok := toks[0]
	if tok == "N" {
		b.AppendNull()
		return toks[1:], nil
	}
	bad := fmt.Errorf("cell: token %q does not fit %s", tok, dt)
	intTok := func() (*big.Int, bool) {
		if !strings.HasPrefix(tok, "i:") {
			return nil, false
		}
		return new(big.Int).SetString(tok[2:], 10)
	}
	hexTok := func(pre string) ([]byte, bool) {
		if !strings.HasPrefix(tok, pre) {
			return nil, false
		}
		v, err := hex.DecodeString(tok[len(pre):])
		return v, err == nil
	}
	fits := func(n *big.Int, bits int, signed bool) bool {
		if signed {
			return n.BitLen() < bits || (n.Sign() < 0 && new(big.Int).Add(n, big.NewInt(1)).BitLen() < bits)
		}
		return n.Sign() >= 0 && n.BitLen() <= bits
	}
	switch bb := b.(type) {
	case *array.Int8Builder:
		n, ok := intTok()
		if !ok || !fits(n, 8, true) {
			return nil, bad
		}
		bb.Append(int8(n.Int64()))
	case *array.Int16Builder:
		n, ok := intTok()
		if !ok || !fits(n, 16, true) {
			return nil, bad
		}
		bb.Append(int16(n.Int64()))
	case *array.Int32Builder:
		n, ok := intTok()
		if !ok || !fits(n, 32, true) {
			return nil, bad
		}
		bb.Append(int32(n.Int64()))
	case *array.Int64Builder:
		n, ok := intTok()
		if !ok || !fits(n, 64, true) {
			return nil, bad
		}
		bb.Append(n.Int64())
	case *array.Uint8Builder:
		n, ok := intTok()
		if !ok || !fits(n, 8, false) {
			return nil, bad
		}
		bb.Append(uint8(n.Uint64()))
	case *array.Uint16Builder:
		n, ok := intTok()
		if !ok || !fits(n, 16, false) {
			return nil, bad
		}
		bb.Append(uint16(n.Uint64()))
	case *array.Uint32Builder:
		n, ok := intTok()
		if !ok || !fits(n, 32, false) {
			return nil, bad
		}
		bb.Append(uint32(n.Uint64()))
	case *array.Uint64Builder:
		n, ok := intTok()
		if !ok || !fits(n, 64, false) {
			return nil, bad
		}
		bb.Append(n.Uint64())
	case *array.Date32Builder:
		n, ok := intTok()
		if !ok || !fits(n, 32, true) {
			return nil, bad
		}
		bb.Append(arrow.Date32(n.Int64()))
	case *array.TimestampBuilder:
		n, ok := intTok()
		if !ok || !fits(n, 64, true) {
			return nil, bad
		}
		bb.Append(arrow.Timestamp(n.Int64()))
	case *array.Time64Builder:
		n, ok := intTok()
		if !ok || !fits(n, 64, true) {
			return nil, bad
		}
		bb.Append(arrow.Time64(n.Int64()))
	case *array.DurationBuilder:
		n, ok := intTok()
		if !ok || !fits(n, 64, true) {
			return nil, bad
		}
		bb.Append(arrow.Duration(n.Int64()))
	case *array.Decimal128Builder:
		n, ok := intTok()
		if !ok || n.BitLen() > 127 {
			return nil, bad
		}
		bb.Append(decimal128.FromBigInt(n))
	case *array.Float32Builder:
		if !strings.HasPrefix(tok, "g:") {
			return nil, bad
		}
		v, err := strconv.ParseUint(tok[2:], 16, 32)
		if err != nil {
			return nil, bad
		}
		bb.Append(math.Float32frombits(uint32(v)))
	case *array.Float64Builder:
		if !strings.HasPrefix(tok, "f:") {
			return nil, bad
		}
		v, err := strconv.ParseUint(tok[2:], 16, 64)
		if err != nil {
			return nil, bad
		}
		bb.Append(math.Float64frombits(v))
	case *array.BooleanBuilder:
		if tok != "b:0" && tok != "b:1" {
			return nil, bad
		}
		bb.Append(tok == "b:1")
	case *array.StringBuilder:
		v, ok := hexTok("s:")
		if !ok {
			return nil, bad
		}
		bb.Append(string(v))
	case *array.LargeStringBuilder:
		v, ok := hexTok("s:")
		if !ok {
			return nil, bad
		}
		bb.Append(string(v))
	case *array.BinaryBuilder: // binary and large_binary
		v, ok := hexTok("y:")
		if !ok {
			return nil, bad
		}
		bb.Append(v)
	case *array.FixedSizeBinaryBuilder:
		v, ok := hexTok("y:")
		if !ok || len(v) != dt.(*arrow.FixedSizeBinaryType).ByteWidth {
			return nil, bad
		}
		bb.Append(v)
	case *array.BinaryDictionaryBuilder:
		if strings.HasPrefix(tok, "e:") {
			// e:<index>:<hex>,<hex>,… : the peer ships a whole dictionary (distinct entries) and
			// this row selects entry <index>; the unused entries are inserted first, in order
			parts := strings.SplitN(tok[2:], ":", 2)
			if len(parts) != 2 {
				return nil, bad
			}
			idx, err := strconv.Atoi(parts[0])
			hs := strings.Split(parts[1], ",")
			if err != nil || idx < 0 || idx >= len(hs) {
				return nil, bad
			}
			sb := array.NewStringBuilder(memory.DefaultAllocator)
			defer sb.Release()
			entries := make([]string, len(hs))
			for i, h := range hs {
				e, err := hex.DecodeString(h)
				if err != nil {
					return nil, bad
				}
				entries[i] = string(e)
				sb.Append(entries[i])
			}
			dict := sb.NewStringArray()
			defer dict.Release()
			if err := bb.InsertStringDictValues(dict); err != nil {
				return nil, err
			}
			if err := bb.AppendString(entries[idx]); err != nil {
				return nil, err
			}
			return toks[1:], nil
		}
		v, ok := hexTok("s:")
		if !ok {
			return nil, bad
		}
		if err := bb.AppendString(string(v)); err != nil {
			return nil, err
		}
	case *array.MapBuilder: // before ListBuilder is not needed: distinct types
		n, ok := c08Count(tok, "m:")
		if !ok {
			return nil, bad
		}
		mt := dt.(*arrow.MapType)
		bb.Append(true)
		r := toks[1:]
		for i := 0; i < n; i++ {
			var err error
			if r, err = c08AppendCell(bb.KeyBuilder(), mt.KeyType(), r); err != nil {
				return nil, err
			}
			if r, err = c08AppendCell(bb.ItemBuilder(), mt.ItemType(), r); err != nil {
				return nil, err
			}
		}
		return r, nil
	case *array.ListBuilder:
		n, ok := c08Count(tok, "l:")
		if !ok {
			return nil, bad
		}
		lt := dt.(*arrow.ListType)
		bb.Append(true)
		r := toks[1:]
		for i := 0; i < n; i++ {
			var err error
			if r, err = c08AppendCell(bb.ValueBuilder(), lt.Elem(), r); err != nil {
				return nil, err
			}
		}
		return r, nil
	case *array.StructBuilder:
		if tok != "r" {
			return nil, bad
		}
		st := dt.(*arrow.StructType)
		bb.Append(true)
		r := toks[1:]
		for i := 0; i < st.NumFields(); i++ {
			var err error
			if r, err = c08AppendCell(bb.FieldBuilder(i), st.Field(i).Type, r); err != nil {
				return nil, err
			}
		}
		return r, nil
	default:
		return nil, fmt.Errorf("cell: no builder support for %s (%T)", dt, b)
	}
	return toks[1:], nil
}

// c08BuildBatch builds a one-row batch of the given schema from cell tokens (one cell per column).
func c08BuildBatch(schema *arrow.Schema, toks []string) (arrow.RecordBatch, error) {
	rb := array.NewRecordBuilder(memory.DefaultAllocator, schema)
	defer rb.Release()
	r := toks
	for i := 0; i < schema.NumFields(); i++ {
		var err error
		if r, err = c08AppendCell(rb.Field(i), schema.Field(i).Type, r); err != nil {
			return nil, err
		}
	}
	if len(r) != 0 {
		return nil, fmt.Errorf("cell: %d tokens left over", len(r))
	}
	return rb.NewRecordBatch(), nil
}
