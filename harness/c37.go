package main

import (
	"bytes"
	"context"
	"fmt"
	"net/http"
	"net/http/httptest"
	"regexp"
	"strconv"
	"strings"
	"sync"
	"time"

	"github.com/apache/arrow-go/v18/arrow"

	"github.com/Query-farm/vgi-rpc-go/vgirpc"
)

// C37 — dispatch hooks see exactly one start and one end per dispatched call.
//
// A case is a call HISTORY against one server with a scripted DispatchHook installed (and, for
// the transparency oracle, the same history against an identical server without a hook):
//   hist <producerBatchLimit> <cfg>     cfg = plain | wirecap (max_response_bytes=1) | extcap (external storage,
//                                       threshold 1, max_externalized_response_bytes=1) | sticky | pver (protocol version 1.2.0)
//   P <mode> U <method> <lvl> <rid> <unary script>            pipe unary          (grammar: c04.go)
//   P <mode> S <method> <lvl> <rid> <stream script> IN …      pipe stream         (grammar: c06.go)
//   P <mode> X | P <mode> B                                   unknown method | parameters that do not deserialize
//   H <mode> U … | H <mode> X | H <mode> B                    the same over HTTP
//   H <mode> I <label> <enc:0|1> <method> <lvl> <stream script>   POST /<m>/init (enc=0: state type not gob-registered)
//   H <mode> E <label> <variant> (d <val> | c)                    POST /<m>/exchange with the label's latest token
//   P|H <mode> SU                       unary whose result cannot be serialized
//   P|H <mode> VU, H <mode> VI          protocol-version mismatch (pver cases)
//   H <mode> KU | KI | KE <label>       request carrying an unresolvable VGI-Session token (sticky cases)
//   H <mode> BI                         stream init whose parameters do not deserialize
// A stream script whose header token is BAD returns a header that cannot be serialized (HTTP only).
// mode = what the hook does on this call: normal | nilctx | pstart (panic in start) | pend (panic in end).
// Consecutive P lines share ONE pipe session. Observation per call: the hook's own event log
// (S<tok>[!], E<tok|nil>:<err>[!]) and whether the response reports an error.

func init() {
	Register(&Prop{
		ID: "C37",
		Rule: "call histories (3-12 calls) mixing pipe sessions and HTTP requests over the scripted family: unary (all outcomes), pipe streams " +
			"(all C06 scripts/inputs), HTTP stream init / continuation / exchange / cancel with batch limit 1-3, unknown methods, undeserializable " +
			"parameters, unregistered state types; hook behaviour per call normal / nil context / panic in start / panic in end; " +
			"non-trivial = at least one dispatched call with a panicking hook or a failing outcome; distinct = distinct histories",
		Gen:  c37Gen,
		Exec: c37Exec,
		NonTrivial: func(lines []string) bool {
			for _, l := range lines {
				if strings.Contains(l, " pstart ") || strings.Contains(l, " pend ") || strings.Contains(l, " err ") || strings.Contains(l, " panic ") {
					return true
				}
			}
			return false
		},
	})
}

// ---------------------------------------------------------------- the scripted hook

type c37Tok struct{ n int }

type c37Event struct {
	rid string
	ev  string
}

type c37Hook struct {
	mu     sync.Mutex
	next   int
	events []c37Event
	byRid  map[string]string // pipe: request id -> mode
	cur    string            // http: mode of the request in flight
}

type c37CtxKey struct{}

func (h *c37Hook) mode(info vgirpc.DispatchInfo) string {
	if strings.HasPrefix(info.RequestID, "probe") {
		return "skip"
	}
	if m, ok := h.byRid[info.RequestID]; ok {
		return m
	}
	return h.cur
}

func (h *c37Hook) OnDispatchStart(ctx context.Context, info vgirpc.DispatchInfo) (context.Context, vgirpc.HookToken) {
	h.mu.Lock()
	m := h.mode(info)
	if m == "skip" {
		h.mu.Unlock()
		return ctx, nil
	}
	h.next++
	tok := &c37Tok{h.next}
	ev := "S" + strconv.Itoa(tok.n)
	if m == "pstart" {
		ev += "!"
	}
	h.events = append(h.events, c37Event{info.RequestID, ev})
	h.mu.Unlock()
	switch m {
	case "pstart":
		panic("hook start panics")
	case "nilctx":
		return nil, tok
	}
	return context.WithValue(ctx, c37CtxKey{}, tok.n), tok
}

func (h *c37Hook) OnDispatchEnd(_ context.Context, token vgirpc.HookToken, info vgirpc.DispatchInfo, _ *vgirpc.CallStatistics, err error) {
	h.mu.Lock()
	m := h.mode(info)
	if m == "skip" {
		h.mu.Unlock()
		return
	}
	t := "nil"
	if tk, ok := token.(*c37Tok); ok && tk != nil {
		t = strconv.Itoa(tk.n)
	}
	e := "0"
	if err != nil {
		e = "1"
	}
	ev := "E" + t + ":" + e
	if m == "pend" {
		ev += "!"
	}
	h.events = append(h.events, c37Event{info.RequestID, ev})
	h.mu.Unlock()
	if m == "pend" {
		panic("hook end panics")
	}
}

// take returns and forgets the events recorded for rid ("" = everything recorded so far).
func (h *c37Hook) take(rid string, all bool) []string {
	h.mu.Lock()
	defer h.mu.Unlock()
	var out []string
	var keep []c37Event
	for _, e := range h.events {
		if all || e.rid == rid {
			out = append(out, e.ev)
		} else {
			keep = append(keep, e)
		}
	}
	h.events = keep
	return out
}

// ---------------------------------------------------------------- servers

// Stream state types that are deliberately NOT registered with vgirpc.RegisterStateType.
type C37StateUP struct{ FamCore }
type C37StateUE struct{ FamCore }

func (s *C37StateUP) Produce(_ context.Context, out *vgirpc.OutputCollector, _ *vgirpc.CallContext) error {
	return s.produce(out)
}
func (s *C37StateUE) Exchange(_ context.Context, in arrow.RecordBatch, out *vgirpc.OutputCollector, _ *vgirpc.CallContext) error {
	return s.exchange(in, out)
}

// c37BadHeader declares a column its struct does not have: writeStreamHeader fails on it.
type c37BadHeader struct {
	N int64 `arrow:"n"`
}

func (c37BadHeader) ArrowSchema() *arrow.Schema {
	return arrow.NewSchema([]arrow.Field{{Name: "n", Type: arrow.PrimitiveTypes.Int64}, {Name: "missing", Type: arrow.BinaryTypes.String}}, nil)
}

// c37BadSer announces an int64 result column but is a struct: serializeResult fails on it.
type c37BadSer struct{ V string }

func (c37BadSer) VgirpcArrowResult() arrow.DataType { return arrow.PrimitiveTypes.Int64 }

func c37StreamInit(ctx context.Context, cc *vgirpc.CallContext, p famStreamParams) (*vgirpc.StreamResult, error) {
	f := strings.Fields(p.Script)
	badHeader := false
	// `… ok <state> <hook> BAD <insch> …`: hand the family a script without header, add the bad one after
	for i := 0; i+3 < len(f); i++ {
		if f[i] == "ok" && f[i+3] == "BAD" && i >= 2 {
			f[i+3] = "-"
			badHeader = true
			break
		}
	}
	if badHeader {
		p.Script = strings.Join(f, " ")
	}
	res, err := famStreamInit(ctx, cc, p)
	if err != nil || res == nil {
		return res, err
	}
	if badHeader {
		res.Header = c37BadHeader{N: 1}
	}
	if strings.HasSuffix(f[0], "!unreg") {
		core := FamCore{Script: strings.Join(f[1:], " "), SID: f[0]}
		if _, ok := res.State.(vgirpc.ProducerState); ok {
			res.State = &C37StateUP{core}
		} else {
			res.State = &C37StateUE{core}
		}
	}
	return res, nil
}

type c37Side struct {
	srv      *vgirpc.Server
	http     *vgirpc.HttpServer
	hook     *c37Hook
	cfg      string
	tokens   map[string][2]string // label -> (stream state token, call state token)
	method   map[string]string
	producer map[string]bool
}

type c37Storage struct{}

func (c37Storage) Upload([]byte, *arrow.Schema, string) (string, error) {
	return "https://verif.invalid/object", nil
}

const c37GoodVersion, c37BadVersion = "1.2.0", "9.9.9"

// req builds a scripted request; on a version-gated server every request carries a version.
func (s *c37Side) req(method, script, lvl, rid string, badVersion bool) []byte {
	if s.cfg == "pver" {
		v := c37GoodVersion
		if badVersion {
			v = c37BadVersion
		}
		return famRequest(method, script, lvl, rid, [2]string{vgirpc.MetaProtocolVersion, v})
	}
	return famRequest(method, script, lvl, rid)
}

func c37NewSide(withHook bool, limit int, cfg string) *c37Side {
	s := vgirpc.NewServer()
	s.SetServerID("verif-srv")
	vgirpc.Unary(s, "u_badser", func(_ context.Context, cc *vgirpc.CallContext, p famUnaryParams) (c37BadSer, error) {
		_, err := famRunUnary(cc, p.Script)
		return c37BadSer{V: "x"}, err
	})
	famRegisterUnary(s)
	famRegisterStreams(s) // registers the gob state types
	vgirpc.Producer(s, "p_plain", famOutSchema, c37StreamInit)
	vgirpc.ProducerWithHeader(s, "p_hdr", famOutSchema, famHdrSchema, c37StreamInit)
	vgirpc.Exchange(s, "e_plain", famOutSchema, famInSchema, c37StreamInit)
	vgirpc.ExchangeWithHeader(s, "e_hdr", famOutSchema, famInSchema, famHdrSchema, c37StreamInit)
	vgirpc.DynamicStreamWithHeader(s, "d_hdr", famHdrSchema, c37StreamInit)
	side := &c37Side{srv: s, cfg: cfg, tokens: map[string][2]string{}, method: map[string]string{}, producer: map[string]bool{}}
	if withHook {
		side.hook = &c37Hook{byRid: map[string]string{}}
		s.SetDispatchHook(side.hook)
	}
	switch cfg {
	case "pver":
		s.SetProtocolVersion(c37GoodVersion)
	case "extcap":
		ec := vgirpc.DefaultExternalLocationConfig(c37Storage{})
		ec.ExternalizeThresholdBytes = 1
		s.SetExternalLocation(ec)
	}
	side.http = vgirpc.NewHttpServer(s)
	side.http.SetProducerBatchLimit(limit)
	switch cfg {
	case "wirecap":
		side.http.SetMaxResponseBytes(1)
	case "extcap":
		side.http.SetMaxExternalizedResponseBytes(1)
	case "sticky":
		side.http.EnableSticky(time.Minute)
	}
	return side
}

// ---------------------------------------------------------------- generator

var c37Modes = []string{"normal", "normal", "normal", "normal", "normal", "nilctx", "pstart", "pstart", "pend", "pend"}

func c37UnaryTokens(r *Rng) []string {
	method := Pick(r, famUnaryMethods)
	sc := &famUnaryScript{Logs: c04RandLogs(r, 2), Out: c04RandOutcome(r, method)}
	return append([]string{method, XS(famRandLevel(r))}, sc.tokens()...)
}

func c37Gen(g *Gen) {
	r := g.Rng
	n := g.N(2000, 25000)
	for i := 0; i < n; i++ {
		cfg := Pick(r, []string{"plain", "plain", "plain", "plain", "plain", "plain", "wirecap", "extcap", "sticky", "pver"})
		lines := []string{"hist " + strconv.Itoa(r.Range(1, 3)) + " " + cfg}
		// external storage also changes pipe results and the wire cap makes producers soft-stop:
		// those two configurations run HTTP calls only, the wire cap exchange-mode streams only
		httpOnly := cfg == "wirecap" || cfg == "extcap"
		type lab struct {
			name     string
			producer bool
			method   string
		}
		var labs []lab
		ncalls := r.Range(3, 12)
		for k := 0; k < ncalls; k++ {
			mode := Pick(r, c37Modes)
			rid := "c" + strconv.Itoa(k)
			x := r.Intn(100)
			if (cfg == "sticky" || cfg == "pver") && r.Chance(20) {
				x = 46 // one of the configuration's own refusals
			}
			if httpOnly && x < 45 {
				x = 45 + r.Intn(55)
			}
			switch {
			case x < 16:
				t := c37UnaryTokens(r)
				kind := "U"
				if r.Chance(8) {
					kind = "U@" // the handler cancels the serve context
				}
				lines = append(lines, strings.Join(append([]string{"P", mode, kind, t[0], t[1], XS(rid)}, t[2:]...), " "))
				if r.Chance(3) { // a session whose context is cancelled before Serve starts
					lines = append(lines, "H "+mode+" X", "P "+mode+" DEAD", "P "+Pick(r, c37Modes)+" DEAD")
				}
			case x < 33:
				method := Pick(r, famStreamMethods)
				s, producer := c06Script(r, method)
				variant, in := c06Inputs(r, producer)
				l := c06Line(method, famRandLevel(r), rid, s, variant, in)
				kind := "S"
				if r.Chance(22) { // the serve context is cancelled during turn k (maybe one never reached)
					kind = "S@" + strconv.Itoa(r.Intn(len(in)+2))
				}
				lines = append(lines, "P "+mode+" "+kind+" "+strings.TrimPrefix(l, "stream "))
				if kind != "S" && r.Chance(50) { // what the client sends next on the old session is never served
					lines = append(lines, "H "+mode+" X")
				}
			case x < 37:
				lines = append(lines, Pick(r, []string{"P", "H"})+" "+mode+" X")
			case x < 41:
				lines = append(lines, Pick(r, []string{"P", "H"})+" "+mode+" B")
			case x < 45:
				lines = append(lines, Pick(r, []string{"P", "H"})+" "+mode+" SU")
			case x < 49:
				// refusals after the hook started (the sticky / version ones need their configuration)
				switch {
				case cfg == "sticky":
					if len(labs) > 0 && r.Bool() {
						lines = append(lines, "H "+mode+" KE "+Pick(r, labs).name)
					} else {
						lines = append(lines, "H "+mode+" "+Pick(r, []string{"KU", "KI"}))
					}
				case cfg == "pver":
					lines = append(lines, Pick(r, []string{"H " + mode + " VU", "H " + mode + " VI", "P " + mode + " VU"}))
				default:
					lines = append(lines, "H "+mode+" "+Pick(r, []string{"BI", "SU", "B"}))
				}
			case x < 62:
				t := c37UnaryTokens(r)
				lines = append(lines, strings.Join(append([]string{"H", mode, "U", t[0], t[1], XS(rid)}, t[2:]...), " "))
			case x < 74 || len(labs) == 0:
				methods := famStreamMethods
				if cfg == "wirecap" {
					methods = []string{"e_plain", "e_hdr", "d_hdr"}
				}
				method := Pick(r, methods)
				s, producer := c06Script(r, method)
				if r.Chance(60) || cfg == "wirecap" { // a stream that certainly gets under way: fitting state, clean first turns
					s.Init = famInit{Kind: "ok", Hook: Pick(r, []string{"absent", "ok", "panic"}), Header: s.Init.Header, InSch: "-"}
					if s.Init.Header == "" {
						s.Init.Header = "-"
					}
					switch {
					case strings.HasPrefix(method, "p_"):
						s.Init.State, producer = "prod", true
					case strings.HasPrefix(method, "e_"):
						s.Init.State, producer = "exch", false
					default:
						producer = r.Bool() && cfg != "wirecap"
						s.Init.State = map[bool]string{true: "prod", false: "exch"}[producer]
					}
					if method == "d_hdr" && !producer {
						s.Init.InSch = "decl"
					}
					for k := range s.Turns {
						if k < 3 {
							s.Turns[k] = c06GoodTurn(r)
						}
					}
					if len(s.Turns) < 3 && r.Chance(70) {
						s.Rest = c06GoodTurn(r)
					}
				}
				if s.Init.Kind == "ok" && method != "p_plain" && method != "e_plain" && r.Chance(6) {
					s.Init.Header = "BAD" // a header that cannot be serialized
				}
				enc := "1"
				if s.Init.Kind == "ok" && r.Chance(10) && (s.Init.State == "prod" || s.Init.State == "exch") {
					enc = "0"
					s.Init.Hook = "absent"
				}
				name := "L" + strconv.Itoa(len(labs))
				labs = append(labs, lab{name, producer, method})
				lines = append(lines, strings.Join(append([]string{"H", mode, "I", name, enc, method, XS(famRandLevel(r))}, s.tokens()...), " "))
			default:
				lb := Pick(r, labs)
				var in string
				switch {
				case r.Chance(12):
					in = "empty c"
				case lb.producer:
					in = "empty d rows=0[]"
				default:
					// static methods refuse an uncastable input BEFORE the hook starts, a dynamic
					// stream (declared schema) AFTER it
					variant := Pick(r, []string{"exact", "exact", "exact", "exact", "nullable", "i32", "name", "f64", "utf8", "two"})
					in = variant + " d " + c06InputVal(r, variant)
				}
				lines = append(lines, "H "+mode+" E "+lb.name+" "+in)
			}
		}
		g.Case(lines...)
	}
}

// ---------------------------------------------------------------- exec

type c37Resp struct {
	canon  string   // canonical response (hidden tokens), for the transparency oracle
	err    bool     // the response reports an error
	events []string // hook events of this call
	token  bool     // (HTTP stream) the response carries a state token
	note   string   // non-empty: the call could not be run (no-token, out-of-frame)
}

func c37HasExc(streams []famStream) bool {
	for _, st := range streams {
		for _, b := range st.Batches {
			if b.kind() == "exc" {
				return true
			}
		}
	}
	return false
}

var c37Digits = regexp.MustCompile(`[0-9]+`)

// c37Canon renders a response for the hooked-vs-hookless comparison. Numbers inside exception
// messages are masked: a cap refusal quotes the body size, which depends on the (randomly keyed,
// compressed) state token and differs between two servers by a few bytes.
func c37Canon(streams []famStream) string {
	p := []string{}
	for _, st := range streams {
		parts := []string{famSchemaCanon(st.Schema)}
		for _, b := range st.Batches {
			if b.kind() == "exc" {
				msg, _ := b.get(vgirpc.MetaLogMessage)
				parts = append(parts, fmt.Sprintf("exc %q %s", c37Digits.ReplaceAllString(msg, "N"), b.rid()))
			} else {
				parts = append(parts, b.canon())
			}
		}
		p = append(p, strings.Join(parts, " ; "))
	}
	return strings.Join(p, " || ")
}

// pipe session: calls[i] = (request id, input bytes); returns one response per call.
func (s *c37Side) pipeSession(c *Case, rids []string, modes []string, inputs [][]byte, kinds []string) []c37Resp {
	dead := len(kinds) > 0 && kinds[0] == "pipe-dead"
	var all []byte
	for i := range inputs {
		if s.hook != nil {
			s.hook.byRid[rids[i]] = modes[i]
		}
		all = append(all, inputs[i]...)
		all = append(all, s.req("u_i64", "0 ret "+c06ProbeVal, "", "probe-"+rids[i], false)...)
	}
	out, p := famServePipeCtx(s.srv, all, dead)
	if p != nil {
		c.Oracle("hook-panic-escaped-pipe", fmt.Sprintf("Serve panicked: %v", p))
	}
	streams, _ := famReadStreams(out)
	resps := make([]c37Resp, len(inputs))
	pos := 0
	for i := range inputs {
		var mine []famStream
		found := false
		if dead { // nothing may be served on a context cancelled before Serve started
			resps[i].canon = fmt.Sprintf("dead streams=%d", len(streams))
			if s.hook != nil {
				resps[i].events = s.hook.take(rids[i], false)
			}
			continue
		}
		if strings.HasSuffix(kinds[i], "-cancelled") { // the serve loop returns after this call: no probe answer
			mine, pos, found = streams[pos:], len(streams), true
		}
		for !found && pos < len(streams) {
			st := streams[pos]
			pos++
			if len(st.Batches) == 1 && st.Batches[0].Val == c06ProbeVal {
				found = true
				break
			}
			mine = append(mine, st)
		}
		if !found {
			resps[i].note = "out-of-frame"
			continue
		}
		resps[i].canon = c37Canon(mine)
		resps[i].err = c37HasExc(mine)
		if s.hook != nil {
			resps[i].events = s.hook.take(rids[i], false)
		}
	}
	return resps
}

func (s *c37Side) httpCall(c *Case, mode, path string, body []byte, lostSession ...bool) (c37Resp, []famStream) {
	if s.hook != nil {
		s.hook.cur = mode
	}
	var rec *httptest.ResponseRecorder
	var p any
	if len(lostSession) > 0 && lostSession[0] {
		req := httptest.NewRequest(http.MethodPost, path, bytes.NewReader(body))
		req.Header.Set("Content-Type", "application/vnd.apache.arrow.stream")
		req.Header.Set("VGI-Session", "bm90LWEtc2Vzc2lvbi10b2tlbg") // does not open: session lost
		rec = httptest.NewRecorder()
		func() {
			defer func() { p = recover() }()
			s.http.ServeHTTP(rec, req)
		}()
	} else {
		rec, p = famHTTPPost(s.http, path, body)
	}
	var r c37Resp
	if p != nil {
		c.Oracle("hook-panic-escaped-http", fmt.Sprintf("ServeHTTP %s panicked: %v", path, p))
		r.note = "server-panic"
		return r, nil
	}
	streams, _ := famReadStreams(rec.Body.Bytes())
	r.err = c37HasExc(streams) || rec.Header().Get("X-VGI-RPC-Error") == "true" || rec.Code >= 400
	r.canon = fmt.Sprintf("%d/%s %s", rec.Code, rec.Header().Get("X-VGI-RPC-Error"), c37Canon(streams))
	if rec.Code != http.StatusOK && len(streams) == 0 {
		r.canon = fmt.Sprintf("%d", rec.Code)
	}
	if s.hook != nil {
		r.events = s.hook.take("", true)
	}
	return r, streams
}

func c37Tokens(streams []famStream) (state, call string) {
	for _, st := range streams {
		for _, b := range st.Batches {
			if v, ok := b.get(vgirpc.MetaStreamState); ok {
				state = v
			}
			if v, ok := b.get(vgirpc.MetaCallState); ok {
				call = v
			}
		}
	}
	return
}

func c37BadParams(side *c37Side, method, rid string) []byte {
	// a parameter batch whose schema is not the declared one: {script:int64}
	schema := arrow.NewSchema([]arrow.Field{{Name: "script", Type: arrow.PrimitiveTypes.Int64}}, nil)
	keys := []string{vgirpc.MetaMethod, vgirpc.MetaRequestVersion, vgirpc.MetaRequestID}
	vals := []string{method, vgirpc.ProtocolVersion, rid}
	if side.cfg == "pver" {
		keys, vals = append(keys, vgirpc.MetaProtocolVersion), append(vals, c37GoodVersion)
	}
	var md [][2]string
	for i := range keys {
		md = append(md, [2]string{keys[i], vals[i]})
	}
	rec, err := famBuildBatch(schema, "i:1", md)
	if err != nil {
		panic(err)
	}
	defer rec.Release()
	return famIPC(schema, rec)
}

type c37Call struct {
	tr, mode, kind string
	rest           []string
	line           string
	idx            int
}

func c37Exec(c *Case) {
	if len(c.Lines) == 0 {
		return
	}
	famResetShared()
	famAbortMu.Lock()
	famAbortTurn, famAbortRID = map[string]int{}, map[string]bool{}
	famAbortMu.Unlock()
	h := strings.Fields(c.Lines[0])
	limit, cfg := 2, "plain"
	if len(h) == 3 && h[0] == "hist" {
		if n, err := strconv.Atoi(h[1]); err == nil && n > 0 {
			limit = n
		}
		switch h[2] {
		case "plain", "wirecap", "extcap", "sticky", "pver":
			cfg = h[2]
		}
	}
	c.Out(fmt.Sprintf("hist %d %s", limit, cfg), "ok")
	hooked, plain := c37NewSide(true, limit, cfg), c37NewSide(false, limit, cfg)
	c.Stat("cfg-" + cfg)
	var calls []c37Call
	for i, l := range c.Lines[1:] {
		f := strings.Fields(l)
		if len(f) < 3 {
			calls = append(calls, c37Call{line: l, idx: i, kind: "?"})
			continue
		}
		calls = append(calls, c37Call{tr: f[0], mode: f[1], kind: f[2], rest: f[3:], line: l, idx: i})
	}
	emit := func(call c37Call, modelLine string, hk, pl c37Resp, kindName string, showToken bool) {
		if hk.note != "" {
			c.Out(modelLine, hk.note)
			if hk.note == "out-of-frame" {
				c.Oracle("session-out-of-frame", fmt.Sprintf("%q: pipe session lost framing", call.line))
			}
			return
		}
		if kindName == "pipe-dead" {
			c.Out(modelLine, "dead")
			if len(hk.events) > 0 || hk.canon != "dead streams=0" || pl.canon != "dead streams=0" {
				c.Oracle("dispatch-after-serve-cancelled", fmt.Sprintf("%q: events %v, %s / %s", call.line, hk.events, hk.canon, pl.canon))
			}
			c.Stat("call-" + kindName)
			return
		}
		ev := "-"
		if len(hk.events) > 0 {
			ev = strings.Join(hk.events, ",")
		}
		obs := fmt.Sprintf("ev=%s err=%s", ev, map[bool]string{true: "1", false: "0"}[hk.err])
		if showToken {
			obs += " token=" + map[bool]string{true: "1", false: "0"}[hk.token]
		}
		c.Out(modelLine, obs)
		c37Oracle(c, call, kindName, hk, pl)
		c.Stat("call-" + kindName)
		c.Stat("mode-" + call.mode)
	}
	for i := 0; i < len(calls); {
		call := calls[i]
		switch {
		case call.kind == "?":
			c.Out(call.line, "err:bad-script")
			i++
		case call.tr == "P":
			// one pipe session for the run of consecutive P lines
			j := i
			var rids, modes, models, kinds []string
			var inputs [][]byte
			var seg []c37Call
			for j < len(calls) && calls[j].tr == "P" {
				cl := calls[j]
				rid := "c" + strconv.Itoa(cl.idx)
				model, input, kind, ok := c37PipeCall(hooked, cl, rid)
				if !ok {
					break
				}
				if len(seg) > 0 && (kind == "pipe-dead") != (kinds[0] == "pipe-dead") {
					break // a dead session holds dead calls only
				}
				rids, modes, models, kinds = append(rids, rid), append(modes, cl.mode), append(models, model), append(kinds, kind)
				inputs = append(inputs, input)
				seg = append(seg, cl)
				j++
				if strings.HasSuffix(kind, "-cancelled") {
					break // the serve context is gone: the session ends with this call
				}
			}
			if len(seg) == 0 {
				c.Out(call.line, "err:bad-script")
				i++
				continue
			}
			hr := hooked.pipeSession(c, rids, modes, inputs, kinds)
			pr := plain.pipeSession(c, rids, modes, inputs, kinds)
			for k := range seg {
				emit(seg[k], models[k], hr[k], pr[k], kinds[k], false)
			}
			i = j
		case call.tr == "H":
			c37HTTPCall(c, hooked, plain, call, emit)
			i++
		default:
			c.Out(call.line, "err:bad-script")
			i++
		}
	}
}

// c37PipeCall builds the model line and the request bytes of one pipe call.
func c37PipeCall(side *c37Side, cl c37Call, rid string) (model string, input []byte, kind string, ok bool) {
	abortTurn := -1
	if strings.HasPrefix(cl.kind, "S@") {
		n, err := strconv.Atoi(cl.kind[2:])
		if err != nil || n < 0 {
			return "", nil, "", false
		}
		abortTurn = n
	}
	switch {
	case abortTurn >= 0:
		cl2 := cl
		cl2.kind = "S"
		model, input, _, ok = c37PipeCall(side, cl2, rid)
		if !ok {
			return "", nil, "", false
		}
		// the stream id is the first word of the script parameter: find it back in what was registered last
		famAbortMu.Lock()
		famAbortTurn[famLastSID()] = abortTurn
		famAbortMu.Unlock()
		return strings.Replace(model, " S ", " "+cl.kind+" ", 1), input, "pipe-stream-cancelled", true
	case cl.kind == "U@":
		cl2 := cl
		cl2.kind = "U"
		model, input, _, ok = c37PipeCall(side, cl2, rid)
		if !ok {
			return "", nil, "", false
		}
		famAbortMu.Lock()
		famAbortRID[rid] = true
		famAbortMu.Unlock()
		return strings.Replace(model, " U ", " U@ ", 1), input, "pipe-unary-cancelled", true
	case cl.kind == "DEAD":
		return "P " + cl.mode + " DEAD", side.req("u_i64", "0 ret i:1", "", rid, false), "pipe-dead", true
	}
	switch cl.kind {
	case "X":
		return "P " + cl.mode + " X", side.req("no_such_method", "x", "", rid, false), "pipe-unknown", true
	case "B":
		return "P " + cl.mode + " B", c37BadParams(side, "u_i64", rid), "pipe-badparams", true
	case "SU":
		return "P " + cl.mode + " SU", side.req("u_badser", "0 ret i:1", "", rid, false), "pipe-serialization", true
	case "VU":
		return "P " + cl.mode + " VU", side.req("u_i64", "0 ret i:1", "", rid, true), "pipe-version", true
	case "U":
		if len(cl.rest) < 3 {
			return "", nil, "", false
		}
		method := cl.rest[0]
		lvl, ok1 := UnX(cl.rest[1])
		info, ok2 := side.srv.VerifC04Method(method)
		if !ok1 || !ok2 || info.Kind != "unary" {
			return "", nil, "", false
		}
		if _, err := famParseUnaryScript(cl.rest[3:]); err != nil {
			return "", nil, "", false
		}
		void := "0"
		if info.Void {
			void = "1"
		}
		model = strings.Join(append([]string{"P", cl.mode, "U", famSchemaCanon(info.ResultSchema), void, cl.rest[1], XS(rid)}, cl.rest[3:]...), " ")
		return model, side.req(method, strings.Join(cl.rest[3:], " "), string(lvl), rid, false), "pipe-unary", true
	case "S":
		sc, err := c06ParseLine("stream " + strings.Join(cl.rest, " "))
		if err != nil {
			return "", nil, "", false
		}
		info, ok2 := side.srv.VerifC04Method(sc.method)
		if !ok2 || info.Kind == "unary" {
			return "", nil, "", false
		}
		ml := append([]string{"P", cl.mode, "S"}, c06MethodFacts(info)...)
		ml = append(ml, XS(sc.lvl), XS(rid))
		ml = append(ml, c37ScriptModelTokens(sc.scriptTokens)...)
		ml = append(ml, "IN", famFieldsCanon(famInVariants[sc.variant]), strconv.Itoa(len(sc.in)))
		for _, b := range sc.in {
			if b.Cancel {
				ml = append(ml, "c")
			} else {
				ml = append(ml, "d", b.Val, famLibCast(sc.variant, b.Val, famInSchema))
			}
		}
		input = side.req(sc.method, famNewSID()+" "+strings.Join(sc.scriptTokens, " "), sc.lvl, rid, false)
		instream, err := famInputStream(sc.variant, sc.in)
		if err != nil {
			return "", nil, "", false
		}
		return strings.Join(ml, " "), append(input, instream...), "pipe-stream", true
	}
	return "", nil, "", false
}

// c37ScriptModelTokens replaces the init's `decl` input schema by its field list.
func c37ScriptModelTokens(ts []string) []string {
	out := make([]string, len(ts))
	for i, t := range ts {
		if t == "decl" && i >= 4 && ts[i-4] == "ok" {
			t = famFieldsCanon(famInSchema)
		}
		out[i] = t
	}
	return out
}

func c37HTTPCall(c *Case, hooked, plain *c37Side, cl c37Call, emit func(c37Call, string, c37Resp, c37Resp, string, bool)) {
	rid := "c" + strconv.Itoa(cl.idx)
	lost := false
	both := func(path string, body func(s *c37Side) []byte) (c37Resp, c37Resp, []famStream, []famStream) {
		hr, hs := hooked.httpCall(c, cl.mode, path, body(hooked), lost)
		pr, ps := plain.httpCall(c, cl.mode, path, body(plain), lost)
		return hr, pr, hs, ps
	}
	trivialStream := "INIT 0 ok exch absent - - TURNS 0 REST 1 echo p ok"
	switch cl.kind {
	case "X":
		hr, pr, _, _ := both("/no_such_method", func(s *c37Side) []byte { return s.req("no_such_method", "x", "", rid, false) })
		emit(cl, "H "+cl.mode+" X", hr, pr, "http-unknown", false)
	case "B":
		hr, pr, _, _ := both("/u_i64", func(s *c37Side) []byte { return c37BadParams(s, "u_i64", rid) })
		emit(cl, "H "+cl.mode+" B", hr, pr, "http-badparams", false)
	case "BI":
		hr, pr, _, _ := both("/p_plain/init", func(s *c37Side) []byte { return c37BadParams(s, "p_plain", rid) })
		emit(cl, "H "+cl.mode+" BI", hr, pr, "http-init-badparams", false)
	case "SU":
		hr, pr, _, _ := both("/u_badser", func(s *c37Side) []byte { return s.req("u_badser", "0 ret i:1", "", rid, false) })
		emit(cl, "H "+cl.mode+" SU", hr, pr, "http-serialization", false)
	case "VU":
		hr, pr, _, _ := both("/u_i64", func(s *c37Side) []byte { return s.req("u_i64", "0 ret i:1", "", rid, true) })
		emit(cl, "H "+cl.mode+" VU", hr, pr, "http-version-unary", false)
	case "VI":
		hr, pr, _, _ := both("/e_plain/init", func(s *c37Side) []byte { return s.req("e_plain", famNewSID()+" "+trivialStream, "", rid, true) })
		emit(cl, "H "+cl.mode+" VI", hr, pr, "http-version-init", false)
	case "KU":
		lost = true
		hr, pr, _, _ := both("/u_i64", func(s *c37Side) []byte { return s.req("u_i64", "0 ret i:1", "", rid, false) })
		emit(cl, "H "+cl.mode+" KU", hr, pr, "http-sticky-unary", false)
	case "KI":
		lost = true
		hr, pr, _, _ := both("/e_plain/init", func(s *c37Side) []byte { return s.req("e_plain", famNewSID()+" "+trivialStream, "", rid, false) })
		emit(cl, "H "+cl.mode+" KI", hr, pr, "http-sticky-init", false)
	case "KE":
		if len(cl.rest) != 1 {
			c.Out(cl.line, "err:bad-script")
			return
		}
		label := cl.rest[0]
		model := "H " + cl.mode + " KE " + label
		ht, okh := hooked.tokens[label]
		pt, okp := plain.tokens[label]
		if !okh || !okp {
			c.Out(model, "no-token")
			return
		}
		variant, val := "exact", "i:1"
		if hooked.producer[label] {
			variant, val = "empty", "rows=0[]"
		}
		body := func(tok [2]string) []byte {
			md := [][2]string{{vgirpc.MetaStreamState, tok[0]}}
			if tok[1] != "" {
				md = append(md, [2]string{vgirpc.MetaCallState, tok[1]})
			}
			rec, err := famBuildBatch(famInVariants[variant], val, md)
			if err != nil {
				panic(err)
			}
			defer rec.Release()
			return famIPC(famInVariants[variant], rec)
		}
		path := "/" + hooked.method[label] + "/exchange"
		hr, _ := hooked.httpCall(c, cl.mode, path, body(ht), true)
		pr, _ := plain.httpCall(c, cl.mode, path, body(pt), true)
		emit(cl, model, hr, pr, "http-sticky-exchange", true)
	case "U":
		if len(cl.rest) < 3 {
			c.Out(cl.line, "err:bad-script")
			return
		}
		method := cl.rest[0]
		lvl, ok1 := UnX(cl.rest[1])
		info, ok2 := hooked.srv.VerifC04Method(method)
		if _, err := famParseUnaryScript(cl.rest[3:]); err != nil || !ok1 || !ok2 || info.Kind != "unary" {
			c.Out(cl.line, "err:bad-script")
			return
		}
		void := "0"
		if info.Void {
			void = "1"
		}
		model := strings.Join(append([]string{"H", cl.mode, "U", famSchemaCanon(info.ResultSchema), void, cl.rest[1], XS(rid)}, cl.rest[3:]...), " ")
		hr, pr, _, _ := both("/"+method, func(s *c37Side) []byte {
			return s.req(method, strings.Join(cl.rest[3:], " "), string(lvl), rid, false)
		})
		emit(cl, model, hr, pr, "http-unary", false)
	case "I":
		if len(cl.rest) < 5 {
			c.Out(cl.line, "err:bad-script")
			return
		}
		label, enc, method := cl.rest[0], cl.rest[1], cl.rest[2]
		lvl, ok1 := UnX(cl.rest[3])
		info, ok2 := hooked.srv.VerifC04Method(method)
		sc, rest, err := famParseStreamScript(cl.rest[4:])
		if err != nil || len(rest) != 0 || !ok1 || !ok2 || info.Kind == "unary" || (enc != "0" && enc != "1") {
			c.Out(cl.line, "err:bad-script")
			return
		}
		ml := append([]string{"H", cl.mode, "I", label, enc}, c06MethodFacts(info)...)
		ml = append(ml, cl.rest[3])
		ml = append(ml, c37ScriptModelTokens(cl.rest[4:])...)
		hr, pr, hs, ps := both("/"+method+"/init", func(s *c37Side) []byte {
			sid := famNewSID()
			if enc == "0" {
				sid += "!unreg"
			}
			return s.req(method, sid+" "+strings.Join(cl.rest[4:], " "), string(lvl), rid, false)
		})
		isProd := info.Kind == "producer" || (info.Kind == "dynamic" && (sc.Init.State == "prod" || sc.Init.State == "both"))
		for _, x := range []struct {
			side *c37Side
			st   []famStream
		}{{hooked, hs}, {plain, ps}} {
			st, call := c37Tokens(x.st)
			x.side.method[label] = method
			x.side.producer[label] = isProd
			if st != "" {
				x.side.tokens[label] = [2]string{st, call}
			} else {
				delete(x.side.tokens, label)
			}
		}
		_, hr.token = hooked.tokens[label]
		emit(cl, strings.Join(ml, " "), hr, pr, "http-init", true)
	case "E":
		if len(cl.rest) < 3 {
			c.Out(cl.line, "err:bad-script")
			return
		}
		label, variant := cl.rest[0], cl.rest[1]
		schema, okv := famInVariants[variant]
		if !okv {
			c.Out(cl.line, "err:bad-script")
			return
		}
		ml := []string{"H", cl.mode, "E", label, famFieldsCanon(schema)}
		var val string
		cancel := false
		switch {
		case cl.rest[2] == "c" && len(cl.rest) == 3:
			cancel = true
			ml = append(ml, "c")
		case cl.rest[2] == "d" && len(cl.rest) == 4:
			val = cl.rest[3]
			ml = append(ml, "d", val, famLibCast(variant, val, famInSchema))
		default:
			c.Out(cl.line, "err:bad-script")
			return
		}
		model := strings.Join(ml, " ")
		ht, okh := hooked.tokens[label]
		pt, okp := plain.tokens[label]
		if !okh || !okp {
			if okh != okp {
				c.Oracle("hook-changes-response", fmt.Sprintf("%q: one server issued a token for %s, the other did not", cl.line, label))
			}
			c.Out(model, "no-token")
			return
		}
		method := hooked.method[label]
		body := func(tok [2]string) []byte {
			md := [][2]string{{vgirpc.MetaStreamState, tok[0]}}
			if tok[1] != "" {
				md = append(md, [2]string{vgirpc.MetaCallState, tok[1]})
			}
			v := val
			if cancel {
				md = append(md, [2]string{vgirpc.MetaCancel, "true"})
				v = "rows=0[]"
			}
			rec, err := famBuildBatch(schema, v, md)
			if err != nil {
				panic(err)
			}
			defer rec.Release()
			return famIPC(schema, rec)
		}
		hr, hs := hooked.httpCall(c, cl.mode, "/"+method+"/exchange", body(ht))
		pr, ps := plain.httpCall(c, cl.mode, "/"+method+"/exchange", body(pt))
		if st, call := c37Tokens(hs); st != "" {
			if call == "" {
				call = ht[1]
			}
			hooked.tokens[label] = [2]string{st, call}
			hr.token = true
		}
		if st, call := c37Tokens(ps); st != "" {
			if call == "" {
				call = pt[1]
			}
			plain.tokens[label] = [2]string{st, call}
		}
		emit(cl, model, hr, pr, "http-exchange", true)
	default:
		c.Out(cl.line, "err:bad-script")
	}
}

// ---------------------------------------------------------------- oracle

func c37Oracle(c *Case, call c37Call, kind string, hk, pl c37Resp) {
	fail := func(class, format string, a ...any) {
		c.Oracle(class, fmt.Sprintf("%q: ", call.line)+fmt.Sprintf(format, a...))
	}
	// transparency: the hooked server answers exactly like the server without a hook
	if pl.note == "" && hk.canon != pl.canon {
		fail("hook-changes-response-"+call.mode, "with hook: %s ; without: %s", hk.canon, pl.canon)
	}
	// event structure
	var starts, ends []string
	for _, e := range hk.events {
		if strings.HasPrefix(e, "S") {
			starts = append(starts, e)
		} else {
			ends = append(ends, e)
		}
	}
	if len(starts) > 1 {
		fail("start-more-than-once", "events %v", hk.events)
		return
	}
	if len(starts) == 0 {
		if len(ends) > 0 {
			fail("end-without-start", "events %v", hk.events)
		}
		return // not dispatched (unknown method, refused input): the property does not speak
	}
	st := starts[0]
	if strings.HasSuffix(st, "!") { // start panicked: inactive, no end
		if len(ends) != 0 {
			fail("end-after-panicking-start", "events %v", hk.events)
		}
		return
	}
	tok := strings.TrimPrefix(st, "S")
	if len(ends) == 0 {
		fail("end-missing-"+kind, "start returned normally but OnDispatchEnd never ran (events %v)", hk.events)
		return
	}
	if len(ends) > 1 {
		fail("end-more-than-once", "events %v", hk.events)
		return
	}
	e := strings.TrimSuffix(ends[0], "!")
	p := strings.SplitN(strings.TrimPrefix(e, "E"), ":", 2)
	if len(p) != 2 || p[0] != tok {
		fail("end-wrong-token", "start minted token %s, end received %s", tok, p[0])
		return
	}
	if hk.events[0] != st {
		fail("end-before-start", "events %v", hk.events)
	}
	endErr := p[1] == "1"
	if endErr && !hk.err {
		fail("end-error-but-response-clean-"+kind, "OnDispatchEnd got a non-nil error, the response reports none: %s", hk.canon)
	}
	if !endErr && hk.err {
		fail("end-nil-but-response-error-"+kind, "the response reports an error, OnDispatchEnd got nil: %s", hk.canon)
	}
}
