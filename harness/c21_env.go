package main

// C21 environment: a real vgirpc.HttpServer (exchange, producer, unary methods, with and without
// stream headers) reached through a fault-injecting http.RoundTripper that records every request
// the native client sends and abstracts every response it hands back.

import (
	"bytes"
	"compress/gzip"
	"context"
	"crypto/sha256"
	"encoding/hex"
	"encoding/json"
	"errors"
	"fmt"
	"io"
	"net/http"
	"net/http/httptest"
	"net"
	"sort"
	"strconv"
	"strings"
	"sync"

	"github.com/Query-farm/vgi-rpc-go/vgirpc"
	"github.com/apache/arrow-go/v18/arrow"
	"github.com/apache/arrow-go/v18/arrow/array"
	"github.com/apache/arrow-go/v18/arrow/ipc"
	"github.com/apache/arrow-go/v18/arrow/memory"
	"github.com/klauspost/compress/zstd"
)

const (
	c21MaxReq      = 1 << 16 // client request cap; "big" inputs are far above, everything else far below
	c21BigRows     = 20000
	c21HdrCE       = "Content-Encoding"
	c21HdrXCE      = "X-VGI-Content-Encoding"
	c21HdrRPCError = "X-VGI-RPC-Error"
)

var c21Cur *c21Env // the environment of the case being executed (server handlers read it)

func init() {
	vgirpc.RegisterStateType(&C21Prod{})
	vgirpc.RegisterStateType(&C21Exch{})
}

// ---------------------------------------------------------------- server side

type c21Plan map[string]string

func c21ParsePlan(s string) c21Plan {
	p := c21Plan{}
	for _, kv := range strings.Split(s, ";") {
		if i := strings.IndexByte(kv, ':'); i > 0 {
			p[kv[:i]] = kv[i+1:]
		} else if kv != "" {
			p[kv] = "1"
		}
	}
	return p
}
func (p c21Plan) int(k string, def int) int {
	if v, ok := p[k]; ok {
		if n, err := strconv.Atoi(v); err == nil {
			return n
		}
	}
	return def
}

type c21Params struct {
	Plan string `vgirpc:"plan"`
}

// C21Prod is the producer state (gob-encoded into the cursor token between turns).
type C21Prod struct {
	Plan string
	I    int
}

// C21Exch is the exchange state.
type C21Exch struct {
	N int
}

type c21Hdr struct {
	Label string `arrow:"label"`
	N     int64  `arrow:"n"`
}

func (c21Hdr) ArrowSchema() *arrow.Schema {
	return arrow.NewSchema([]arrow.Field{
		{Name: "label", Type: arrow.BinaryTypes.String},
		{Name: "n", Type: arrow.PrimitiveTypes.Int64},
	}, nil)
}

// c21Emit is what a server handler handed to the OutputCollector.
type c21Emit struct {
	rows    int64
	payload string
	md      map[string]string
	// the application put a stream-state key on a zero-row batch: on the wire that IS a
	// cursor-only batch, so the exactness oracle does not count it as data
	cursorLookalike bool
}

type c21Raise struct{ typ, msg string }

func c21Int64Batch(schema *arrow.Schema, vals []int64) arrow.RecordBatch {
	b := array.NewInt64Builder(memory.DefaultAllocator)
	defer b.Release()
	b.AppendValues(vals, nil)
	arr := b.NewArray()
	defer arr.Release()
	return array.NewRecordBatch(schema, []arrow.Array{arr}, int64(len(vals)))
}

func c21ServerErr(spec string, n int) error {
	// spec: "rpc=<Type>" | "go"
	msg := fmt.Sprintf("srv:boom-%d", n)
	if spec == "go" {
		return errors.New(msg)
	}
	return &vgirpc.RpcError{Type: spec, Message: msg}
}

func (s *C21Prod) Produce(_ context.Context, out *vgirpc.OutputCollector, _ *vgirpc.CallContext) error {
	env := c21Cur
	p := c21ParsePlan(s.Plan)
	i := s.I
	if p.int("errat", -1) == i {
		et := p["etype"]
		if et == "" {
			et = "ValueError"
		}
		env.raised = append(env.raised, c21Raise{et, fmt.Sprintf("srv:boom-%d", i)})
		return c21ServerErr(et, i)
	}
	if p.int("panicat", -1) == i {
		panic("srv:panic")
	}
	if i >= p.int("n", 0) {
		return out.Finish()
	}
	if p.int("logat", -1) == i || p["logs"] != "" {
		out.ClientLog(vgirpc.LogInfo, fmt.Sprintf("srv:log-%d", i))
	}
	s.I++
	rows := p.int("rows", 1)
	if p.int("zeroat", -1) == i {
		rows = 0
	}
	vals := make([]int64, rows)
	for j := range vals {
		vals[j] = int64(i*100 + j)
	}
	batch := c21Int64Batch(env.outSchema, vals)
	var md map[string]string
	if p["meta"] != "" {
		md = map[string]string{"u": strconv.Itoa(i), "empty": "", "ünï": "çødé"}
	}
	if p.int("clashat", -1) == i {
		if md == nil {
			md = map[string]string{}
		}
		md[vgirpc.MetaStreamState] = "user-cursor"
		md[vgirpc.MetaCallState] = "user-call"
	}
	env.emitted = append(env.emitted, c21Emit{int64(rows), c21Payload(batch), md, false})
	return out.EmitWithMetadata(batch, md)
}

func (s *C21Exch) Exchange(_ context.Context, input arrow.RecordBatch, out *vgirpc.OutputCollector, _ *vgirpc.CallContext) error {
	env := c21Cur
	s.N++
	turn := env.turn
	kind, arg := turn, ""
	if i := strings.IndexByte(turn, ':'); i > 0 {
		kind, arg = turn[:i], turn[i+1:]
	}
	switch kind {
	case "err":
		env.raised = append(env.raised, c21Raise{arg, fmt.Sprintf("srv:boom-%d", s.N)})
		return c21ServerErr(arg, s.N)
	case "goerr":
		return c21ServerErr("go", s.N)
	case "panic":
		panic("srv:panic")
	case "none":
		return nil
	}
	rows := int(input.NumRows())
	if kind == "zero" {
		rows = 0
	}
	if rows > 64 {
		rows = 64
	}
	vals := make([]int64, rows)
	for j := range vals {
		vals[j] = int64(s.N*1000 + j)
	}
	if kind == "log" {
		out.ClientLog(vgirpc.LogInfo, "srv:log")
		out.ClientLog(vgirpc.LogLevel("WARN"), "srv:log2")
	}
	batch := c21Int64Batch(env.outSchema, vals)
	var md map[string]string
	switch kind {
	case "meta":
		md = map[string]string{"u": strconv.Itoa(s.N), "empty": "", "k k": "v=v,;"}
	case "clash":
		md = map[string]string{vgirpc.MetaStreamState: "user-cursor", vgirpc.MetaCallState: "user-call", "u": "1"}
	case "lvl":
		// a data batch (rows > 0) that carries a log level key is still data
		md = map[string]string{vgirpc.MetaLogLevel: "INFO", "u": "2"}
	}
	if !(rows == 0 && md[vgirpc.MetaLogLevel] != "") { // a zero-row batch with a log level IS a log envelope on the wire
		env.emitted = append(env.emitted, c21Emit{int64(rows), c21Payload(batch), md, false})
	}
	return out.EmitWithMetadata(batch, md)
}

// One real server per producer batch limit, shared by all cases of the run: the HTTP transport is
// stateless (all stream state travels in the sealed tokens) and the handlers read the running
// case from c21Cur, so sharing changes nothing a case can observe (token strings are random per
// mint either way and are renamed t1, t2, ... per case).
type c21Shared struct {
	srv                      *vgirpc.Server
	hs                       *vgirpc.HttpServer
	hdr, unary, params, o, i *arrow.Schema
}

var c21Servers = map[int]*c21Shared{}

func c21NewServer(env *c21Env, limit int) {
	if sh := c21Servers[limit]; sh != nil {
		env.srv, env.hs, env.hdrSchema, env.unarySchema, env.paramsSchema = sh.srv, sh.hs, sh.hdr, sh.unary, sh.params
		env.outSchema, env.inSchema = sh.o, sh.i
		return
	}
	defer func() {
		c21Servers[limit] = &c21Shared{env.srv, env.hs, env.hdrSchema, env.unarySchema, env.paramsSchema, env.outSchema, env.inSchema}
	}()
	srv := vgirpc.NewServer()
	out := env.outSchema
	in := env.inSchema
	hs := c21Hdr{}.ArrowSchema()
	prod := func(hdr bool) func(context.Context, *vgirpc.CallContext, c21Params) (*vgirpc.StreamResult, error) {
		return func(_ context.Context, cc *vgirpc.CallContext, p c21Params) (*vgirpc.StreamResult, error) {
			pl := c21ParsePlan(p.Plan)
			if t := pl["initerr"]; t != "" {
				c21Cur.raised = append(c21Cur.raised, c21Raise{t, "srv:boom-0"})
				return nil, c21ServerErr(t, 0)
			}
			if pl["initlog"] != "" {
				cc.ClientLog(vgirpc.LogInfo, "srv:init-log")
			}
			r := &vgirpc.StreamResult{OutputSchema: out, State: &C21Prod{Plan: p.Plan}}
			if hdr {
				r.Header = c21Hdr{Label: "hdr-" + pl["n"], N: 7}
			}
			return r, nil
		}
	}
	exch := func(hdr bool) func(context.Context, *vgirpc.CallContext, c21Params) (*vgirpc.StreamResult, error) {
		return func(_ context.Context, cc *vgirpc.CallContext, p c21Params) (*vgirpc.StreamResult, error) {
			pl := c21ParsePlan(p.Plan)
			if t := pl["initerr"]; t != "" {
				c21Cur.raised = append(c21Cur.raised, c21Raise{t, "srv:boom-0"})
				return nil, c21ServerErr(t, 0)
			}
			if pl["initlog"] != "" {
				cc.ClientLog(vgirpc.LogInfo, "srv:init-log")
			}
			r := &vgirpc.StreamResult{OutputSchema: out, InputSchema: in, State: &C21Exch{}}
			if hdr {
				r.Header = c21Hdr{Label: "hdr-x", N: 9}
			}
			return r, nil
		}
	}
	vgirpc.Producer(srv, "px", out, prod(false))
	vgirpc.ProducerWithHeader(srv, "pxh", out, hs, prod(true))
	vgirpc.Exchange(srv, "ex", out, in, exch(false))
	vgirpc.ExchangeWithHeader(srv, "exh", out, in, hs, exch(true))
	vgirpc.Unary(srv, "un", func(_ context.Context, cc *vgirpc.CallContext, p c21Params) (int64, error) {
		pl := c21ParsePlan(p.Plan)
		if t := pl["err"]; t != "" {
			c21Cur.raised = append(c21Cur.raised, c21Raise{t, "srv:boom-0"})
			return 0, c21ServerErr(t, 0)
		}
		if pl["log"] != "" {
			cc.ClientLog(vgirpc.LogInfo, "srv:unary-log")
		}
		return int64(pl.int("v", 42)), nil
	})
	env.srv = srv
	env.hs = vgirpc.NewHttpServer(srv)
	env.hs.SetProducerBatchLimit(limit)
	env.hdrSchema = hs
	_, res, _, _, _, _ := vgirpc.VerifC21MethodSchemas(srv, "un")
	env.unarySchema = res
	ps, _, _, _, _, _ := vgirpc.VerifC21MethodSchemas(srv, "px")
	env.paramsSchema = ps
}

// ---------------------------------------------------------------- abstraction

type c21Env struct {
	c              *Case
	maxEnc, maxDec int64
	srv            *vgirpc.Server
	hs             *vgirpc.HttpServer
	client         *vgirpc.HttpClient
	rt             *c21RT
	stream         *vgirpc.HttpClientStream
	outSchema      *arrow.Schema
	inSchema       *arrow.Schema
	hdrSchema      *arrow.Schema
	unarySchema    *arrow.Schema
	paramsSchema   *arrow.Schema
	tokIDs         map[string]string
	firstTok       string
	turn           string
	emitted        []c21Emit
	raised         []c21Raise

	// "net" family: the client runs over a real http.Transport against a real listener; faults are
	// made at the connection level by the front handler and every request is recorded where the
	// SERVER receives it (so retries made below the client by net/http are visible).
	net       bool
	netSrv    *httptest.Server
	netTr     *http.Transport
	mu        sync.Mutex
	srvSeen   []c21Wire // requests as received by the server during the current call
	netFaults []string  // connection-level fault for the i-th request the server receives in this call
}

// c21ReplayHeaders: request headers that make net/http treat a POST as idempotent and resend it
// on its own when a reused connection dies.
var c21ReplayHeaders = []string{"Idempotency-Key", "X-Idempotency-Key"}

func c21ReqInfo(path string, body []byte) c21Wire {
	w := c21Wire{kind: "unary"}
	switch {
	case strings.HasSuffix(path, "/init"):
		w.kind = "init"
	case strings.HasSuffix(path, "/exchange"):
		w.kind = "cont"
		func() {
			defer func() { _ = recover() }()
			rd, err := ipc.NewReader(bytes.NewReader(body))
			if err != nil {
				return
			}
			defer rd.Release()
			if rd.Next() {
				keys, vals := c21RecordMD(rd.RecordBatch())
				for i := range keys {
					switch keys[i] {
					case vgirpc.MetaStreamState:
						w.cursor = vals[i]
					case vgirpc.MetaCallState:
						w.call = vals[i]
					case vgirpc.MetaCancel:
						w.cancel = vals[i] == "1"
					}
				}
			}
		}()
	}
	return w
}

// netBegin resets the per-call server-side record and schedules the connection faults.
func (e *c21Env) netBegin(faults []string) {
	e.mu.Lock()
	e.srvSeen, e.netFaults = nil, faults
	e.mu.Unlock()
}

func (e *c21Env) netSeen() []c21Wire {
	e.mu.Lock()
	defer e.mu.Unlock()
	return append([]c21Wire(nil), e.srvSeen...)
}

// front is the real listener's handler: record the request, then either hand it to the real
// HttpServer or break the connection.
func (e *c21Env) front(w http.ResponseWriter, r *http.Request) {
	body, _ := io.ReadAll(r.Body)
	info := c21ReqInfo(r.URL.Path, body)
	for _, h := range c21ReplayHeaders {
		if r.Header.Get(h) != "" {
			info.fault = h // reused as "offending header" for the oracle
		}
	}
	e.mu.Lock()
	idx := len(e.srvSeen)
	fault := "ok"
	if idx < len(e.netFaults) {
		fault = e.netFaults[idx]
	}
	info.abs = fault
	e.srvSeen = append(e.srvSeen, info)
	e.mu.Unlock()
	r.Body = io.NopCloser(bytes.NewReader(body))
	hijack := func() net.Conn {
		conn, _, err := w.(http.Hijacker).Hijack()
		if err != nil {
			panic(err)
		}
		return conn
	}
	switch fault {
	case "netdrop": // the request was received in full; no response byte is written
		hijack().Close()
	case "netreset":
		conn := hijack()
		if tc, ok := conn.(*net.TCPConn); ok {
			tc.SetLinger(0)
		}
		conn.Close()
	case "netdropafter": // the worker runs the turn, the answer is lost
		rec := httptest.NewRecorder()
		e.hs.ServeHTTP(rec, r)
		hijack().Close()
	case "nethalf": // the worker runs the turn, the answer breaks off in the middle of the body
		rec := httptest.NewRecorder()
		e.hs.ServeHTTP(rec, r)
		data := rec.Body.Bytes()
		conn := hijack()
		fmt.Fprintf(conn, "HTTP/1.1 %d OK\r\n", rec.Code)
		for k, vs := range rec.Header() {
			for _, v := range vs {
				fmt.Fprintf(conn, "%s: %s\r\n", k, v)
			}
		}
		fmt.Fprintf(conn, "Content-Length: %d\r\n\r\n", len(data))
		conn.Write(data[:len(data)/2])
		conn.Close()
	default:
		if strings.HasPrefix(fault, "netcut") {
			// the worker runs the turn; the uncompressed answer is announced with its full
			// Content-Length but the connection breaks exactly at an IPC message boundary
			rec := httptest.NewRecorder()
			e.hs.ServeHTTP(rec, r)
			resp := &c21Resp{status: rec.Code, header: rec.Header().Clone(), body: append([]byte(nil), rec.Body.Bytes()...), clen: -2, readErr: -1}
			var cw c21Wire
			if e.applyFault(resp, "shortcl"+strings.TrimPrefix(fault, "netcut"), &cw) {
				conn := hijack()
				fmt.Fprintf(conn, "HTTP/1.1 %d OK\r\n", resp.status)
				for k, vs := range resp.header {
					if k == "Content-Length" {
						continue
					}
					for _, v := range vs {
						fmt.Fprintf(conn, "%s: %s\r\n", k, v)
					}
				}
				fmt.Fprintf(conn, "Content-Length: %d\r\n\r\n", resp.clen)
				conn.Write(resp.body[:resp.readErr])
				conn.Close()
				return
			}
			// not applicable to this response: deliver it unchanged
			for k, vs := range rec.Header() {
				for _, v := range vs {
					w.Header().Add(k, v)
				}
			}
			w.WriteHeader(rec.Code)
			w.Write(rec.Body.Bytes())
			return
		}
		e.hs.ServeHTTP(w, r)
	}
}

func (e *c21Env) netStart() string {
	e.netSrv = httptest.NewServer(http.HandlerFunc(e.front))
	e.netTr = &http.Transport{MaxIdleConnsPerHost: 4}
	return e.netSrv.URL
}

func (e *c21Env) netStop() {
	if e.netTr != nil {
		e.netTr.CloseIdleConnections()
	}
	if e.netSrv != nil {
		e.netSrv.Close()
	}
	e.netSrv, e.netTr = nil, nil
}

func (e *c21Env) tokID(v string) string {
	if v == "" {
		return "x"
	}
	if id, ok := e.tokIDs[v]; ok {
		return id
	}
	id := "t" + strconv.Itoa(len(e.tokIDs)+1)
	e.tokIDs[v] = id
	if e.firstTok == "" {
		e.firstTok = v
	}
	return id
}

func c21KeyWord(k string) string {
	switch k {
	case vgirpc.MetaStreamState:
		return "S"
	case vgirpc.MetaCallState:
		return "C"
	case vgirpc.MetaLogLevel:
		return "L"
	case vgirpc.MetaLogMessage:
		return "M"
	case vgirpc.MetaLocation:
		return "X"
	}
	return XS(k)
}

func (e *c21Env) valWord(k, v string) string {
	if v == "" {
		return "x"
	}
	switch k {
	case vgirpc.MetaStreamState, vgirpc.MetaCallState:
		return e.tokID(v)
	case vgirpc.MetaLogLevel:
		if v == string(vgirpc.LogException) {
			return "EXC"
		}
	}
	return XS(v)
}

// mdWords renders a metadata *map* canonically (sorted by key word).
func (e *c21Env) mdWords(md map[string]string) string {
	if len(md) == 0 {
		return "-"
	}
	type kv struct{ k, v string }
	kvs := make([]kv, 0, len(md))
	for k, v := range md {
		kvs = append(kvs, kv{c21KeyWord(k), e.valWord(k, v)})
	}
	// keys are unique in a map and the key renaming is injective: sorting by key word is total
	sort.Slice(kvs, func(i, j int) bool { return kvs[i].k < kvs[j].k })
	parts := make([]string, 0, len(kvs))
	for _, p := range kvs {
		parts = append(parts, p.k+"="+p.v)
	}
	return strings.Join(parts, ",")
}

func c21Payload(rec arrow.RecordBatch) string {
	h := sha256.New()
	for i := 0; i < int(rec.NumCols()); i++ {
		fmt.Fprintf(h, "%d:%s|", i, rec.Column(i).String())
	}
	return "p" + hex.EncodeToString(h.Sum(nil)[:4])
}

func c21SchemaID(s *arrow.Schema) string {
	if s == nil {
		return "nil"
	}
	h := sha256.New()
	for _, f := range s.Fields() {
		fmt.Fprintf(h, "%q|%s|%v|%q|%q;", f.Name, f.Type.String(), f.Nullable, f.Metadata.Keys(), f.Metadata.Values())
	}
	md := s.Metadata()
	fmt.Fprintf(h, "#%q|%q", md.Keys(), md.Values())
	return "s" + hex.EncodeToString(h.Sum(nil)[:4])
}

func c21RecordMD(rec arrow.RecordBatch) (keys, vals []string) {
	if wm, ok := rec.(arrow.RecordBatchWithMetadata); ok {
		md := wm.Metadata()
		return md.Keys(), md.Values()
	}
	return nil, nil
}

// c21AbsStream reads ONE Arrow IPC stream from r with the Arrow library and renders what it saw.
// tokens collects every non-empty stream-state value seen in the stream.
func (e *c21Env) absStream(r *bytes.Reader, tokens *[]string) (words []string, bad bool) {
	defer func() {
		if rv := recover(); rv != nil {
			words, bad = []string{"S", "!", "0", "0"}, true
		}
	}()
	if c21HugePrefix(r) {
		return []string{"S", "!", "0", "0"}, true
	}
	rd, err := ipc.NewReader(r)
	if err != nil {
		return []string{"S", "!", "0", "0"}, true
	}
	defer rd.Release()
	var msgs []string
	n := 0
	for rd.Next() {
		rec := rd.RecordBatch()
		keys, vals := c21RecordMD(rec)
		m := map[string]string{}
		for i := range keys {
			m[keys[i]] = vals[i]
		}
		xt := ""
		var extra struct {
			ExceptionType string `json:"exception_type"`
		}
		if json.Unmarshal([]byte(m[vgirpc.MetaLogExtra]), &extra) == nil {
			xt = extra.ExceptionType
		}
		w := []string{"M", strconv.FormatInt(rec.NumRows(), 10), c21Payload(rec), XS(xt), strconv.Itoa(len(keys))}
		if xt == "" {
			w[3] = "x"
		}
		for i := range keys {
			w = append(w, c21KeyWord(keys[i]), e.valWord(keys[i], vals[i]))
			if keys[i] == vgirpc.MetaStreamState && vals[i] != "" {
				*tokens = append(*tokens, vals[i])
			}
		}
		msgs = append(msgs, strings.Join(w, " "))
		n++
	}
	rerr := "0"
	if rd.Err() != nil {
		rerr, bad = "1", true
	}
	words = []string{"S", c21SchemaID(rd.Schema()), strconv.Itoa(n)}
	words = append(words, msgs...)
	words = append(words, rerr)
	return words, bad
}

// c21HugePrefix: the first message of the stream declares more metadata bytes than the body has
// left. The library would allocate that much and then fail to read the schema; the outcome
// (unreadable stream) is certain, so skip the allocation.
func c21HugePrefix(r *bytes.Reader) bool {
	rest := make([]byte, 8)
	n, _ := r.ReadAt(rest, r.Size()-int64(r.Len()))
	if n < 4 {
		return false
	}
	le := func(b []byte) int64 { return int64(int32(uint32(b[0]) | uint32(b[1])<<8 | uint32(b[2])<<16 | uint32(b[3])<<24)) }
	ln := le(rest[:4])
	hdr := int64(4)
	if ln == -1 {
		if n < 8 {
			return false
		}
		ln, hdr = le(rest[4:8]), 8
	}
	return ln > int64(r.Len())-hdr
}

// ---------------------------------------------------------------- the transport

type c21Resp struct {
	status  int
	header  http.Header
	body    []byte
	clen    int64 // -2 = len(body)
	readErr int   // >= 0: the body reader fails after that many bytes
}

// c21Wire is one request/response pair as seen on the wire.
type c21Wire struct {
	kind    string // init | unary | cont
	cursor  string
	call    string
	cancel  bool
	fault   string
	applied bool     // the fault took effect (some faults do not apply to some responses)
	overCap bool     // the response handed to the client exceeds one of the client's size caps
	bad     bool     // the Arrow library could not read the (decoded) body to its end
	short   bool     // the body ended (with a read error) before the declared Content-Length was delivered
	abs     string   // abstract response (model words)
	tokens  []string // non-empty stream-state values in the response handed to the client
}

type c21RT struct {
	env    *c21Env
	faults []string
	n      int
	wire   []c21Wire
}

func (rt *c21RT) begin(faults []string) { rt.faults, rt.n, rt.wire = faults, 0, nil }

// netRoundTrip observes what the real transport hands to the client (the model's responses).
func (rt *c21RT) netRoundTrip(req *http.Request) (*http.Response, error) {
	env := rt.env
	var body []byte
	if req.GetBody != nil {
		if rc, err := req.GetBody(); err == nil {
			body, _ = io.ReadAll(rc)
			rc.Close()
		}
	}
	w := c21ReqInfo(req.URL.Path, body)
	w.fault, w.applied = "ok", true
	if rt.n < len(rt.faults) {
		w.fault = rt.faults[rt.n]
	}
	rt.n++
	for _, h := range c21ReplayHeaders {
		if req.Header.Get(h) != "" {
			env.c.Oracle("replayable-post-header", fmt.Sprintf("the client sent header %s on a POST: net/http then resends the request on its own when a reused connection dies", h))
		}
	}
	resp, err := env.netTr.RoundTrip(req)
	if err != nil {
		w.abs = "T"
		rt.wire = append(rt.wire, w)
		return nil, err
	}
	data, rerr := io.ReadAll(resp.Body)
	resp.Body.Close()
	r := &c21Resp{status: resp.StatusCode, header: resp.Header, body: data, clen: resp.ContentLength, readErr: -1}
	if rerr != nil {
		r.readErr = len(data)
	}
	w.short = rerr != nil || (resp.ContentLength >= 0 && int64(len(data)) < resp.ContentLength)
	w.abs, w.tokens, w.overCap, w.bad = env.abstract(r)
	rt.wire = append(rt.wire, w)
	var rd io.Reader = bytes.NewReader(data)
	if rerr != nil {
		rd = io.MultiReader(bytes.NewReader(data), c21ErrReader{})
	}
	resp.Body = io.NopCloser(rd)
	return resp, nil
}

func (rt *c21RT) RoundTrip(req *http.Request) (*http.Response, error) {
	env := rt.env
	if env.net {
		return rt.netRoundTrip(req)
	}
	for _, h := range c21ReplayHeaders {
		if req.Header.Get(h) != "" {
			env.c.Oracle("replayable-post-header", fmt.Sprintf("the client sent header %s on a POST: net/http then resends the request on its own when a reused connection dies", h))
		}
	}
	var body []byte
	if req.Body != nil {
		body, _ = io.ReadAll(req.Body)
		req.Body.Close()
	}
	w := c21Wire{kind: "unary"}
	switch {
	case strings.HasSuffix(req.URL.Path, "/init"):
		w.kind = "init"
	case strings.HasSuffix(req.URL.Path, "/exchange"):
		w.kind = "cont"
		func() {
			defer func() { _ = recover() }()
			rd, err := ipc.NewReader(bytes.NewReader(body))
			if err != nil {
				return
			}
			defer rd.Release()
			if rd.Next() {
				keys, vals := c21RecordMD(rd.RecordBatch())
				for i := range keys {
					switch keys[i] {
					case vgirpc.MetaStreamState:
						w.cursor = vals[i]
					case vgirpc.MetaCallState:
						w.call = vals[i]
					case vgirpc.MetaCancel:
						w.cancel = vals[i] == "1"
					}
				}
			}
		}()
	}
	fault := "ok"
	if rt.n < len(rt.faults) {
		fault = rt.faults[rt.n]
	}
	rt.n++
	w.fault = fault
	fs := strings.Split(fault, "&")
	has := func(name string) bool {
		for _, f := range fs {
			if f == name {
				return true
			}
		}
		return false
	}
	if has("dropreq") {
		w.applied, w.abs = true, "T"
		rt.wire = append(rt.wire, w)
		return nil, errors.New("injected: connection refused")
	}
	rec := httptest.NewRecorder()
	sreq := req.Clone(req.Context())
	sreq.Body = io.NopCloser(bytes.NewReader(body))
	sreq.ContentLength = int64(len(body))
	sreq.RequestURI = req.URL.RequestURI()
	env.hs.ServeHTTP(rec, sreq)
	if has("dropresp") {
		w.applied, w.abs = true, "T"
		rt.wire = append(rt.wire, w)
		return nil, errors.New("injected: connection reset by peer")
	}
	// structural faults first, then padding to a size, then (re-)encoding: a later fault must not
	// undo an earlier one
	prio := func(f string) int {
		switch {
		case strings.HasPrefix(f, "enc:"), strings.HasPrefix(f, "bomb"), f == "bigbody":
			return 2
		case strings.HasPrefix(f, "pad:"):
			return 1
		}
		return 0
	}
	sort.SliceStable(fs, func(i, j int) bool { return prio(fs[i]) < prio(fs[j]) })
	resp := &c21Resp{status: rec.Code, header: rec.Header().Clone(), body: append([]byte(nil), rec.Body.Bytes()...), clen: -2, readErr: -1}
	w.applied = true
	for _, f := range fs {
		if f == "ok" || f == "" {
			continue
		}
		if !env.applyFault(resp, f, &w) {
			w.applied = false
		}
	}
	w.abs, w.tokens, w.overCap, w.bad = env.abstract(resp)
	w.short = resp.readErr >= 0
	rt.wire = append(rt.wire, w)

	clen := resp.clen
	if clen == -2 {
		clen = int64(len(resp.body))
	}
	var rd io.Reader = bytes.NewReader(resp.body)
	if resp.readErr >= 0 {
		k := resp.readErr
		if k > len(resp.body) {
			k = len(resp.body)
		}
		rd = io.MultiReader(bytes.NewReader(resp.body[:k]), c21ErrReader{})
	}
	return &http.Response{
		Status:        fmt.Sprintf("%d %s", resp.status, http.StatusText(resp.status)),
		StatusCode:    resp.status,
		Proto:         "HTTP/1.1",
		ProtoMajor:    1,
		ProtoMinor:    1,
		Header:        resp.header,
		Body:          io.NopCloser(rd),
		ContentLength: clen,
		Request:       req,
	}, nil
}

type c21ErrReader struct{}

func (c21ErrReader) Read([]byte) (int, error) { return 0, io.ErrUnexpectedEOF }

func c21Encoding(h http.Header) string {
	enc := strings.TrimSpace(h.Get(c21HdrCE))
	if enc == "" {
		enc = strings.TrimSpace(h.Get(c21HdrXCE))
	}
	return enc
}

// abstract renders the response exactly as net/http + the decompression and Arrow libraries
// present it to the client.
func (e *c21Env) abstract(r *c21Resp) (string, []string, bool, bool) {
	clen := r.clen
	if clen == -2 {
		clen = int64(len(r.body))
	}
	rdErr, elen := "0", len(r.body)
	if r.readErr >= 0 {
		rdErr = "1"
		if r.readErr < elen {
			elen = r.readErr
		}
	}
	rpc := "0"
	if strings.EqualFold(r.header.Get(c21HdrRPCError), "true") {
		rpc = "1"
	}
	words := []string{"H", strconv.Itoa(r.status), strconv.FormatInt(clen, 10), rdErr, strconv.Itoa(elen),
		XS(r.header.Get(c21HdrCE)), XS(r.header.Get(c21HdrXCE))}
	dec := "-"
	var plain []byte
	if r.readErr < 0 {
		func() {
			defer func() { _ = recover() }()
			out, err := vgirpc.DecodeContentEncoding(r.body, c21Encoding(r.header), e.maxDec)
			if err == nil {
				dec, plain = strconv.Itoa(len(out)), out
			}
		}()
	}
	words = append(words, dec, rpc)
	var tokens []string
	var streams []string
	trail := 0
	anyBad := false
	if dec != "-" {
		rd := bytes.NewReader(plain)
		for i := 0; i < 3 && (i == 0 || rd.Len() > 0); i++ {
			sw, bad := e.absStream(rd, &tokens)
			streams = append(streams, strings.Join(sw, " "))
			if bad {
				anyBad = true
				break
			}
		}
		trail = rd.Len()
	}
	words = append(words, strconv.Itoa(len(streams)))
	words = append(words, streams...)
	words = append(words, strconv.Itoa(trail))
	over := clen > e.maxEnc || int64(elen) > e.maxEnc || dec == "-" || int64(len(plain)) > e.maxDec
	return strings.Join(words, " "), tokens, over, anyBad
}

// ---------------------------------------------------------------- faults

type c21Rec struct {
	rows int64
	cols []arrow.Array
	keys []string
	vals []string
}

func (r *c21Rec) del(k string) {
	var ks, vs []string
	for i := range r.keys {
		if r.keys[i] != k {
			ks, vs = append(ks, r.keys[i]), append(vs, r.vals[i])
		}
	}
	r.keys, r.vals = ks, vs
}
func (r *c21Rec) get(k string) (string, bool) {
	v, ok := "", false
	for i := range r.keys {
		if r.keys[i] == k {
			v, ok = r.vals[i], true
		}
	}
	return v, ok
}
func (r *c21Rec) add(k, v string) { r.keys, r.vals = append(r.keys, k), append(r.vals, v) }
func (r *c21Rec) isLog() bool {
	l, _ := r.get(vgirpc.MetaLogLevel)
	return r.rows == 0 && l != ""
}
func (r *c21Rec) clone() *c21Rec {
	return &c21Rec{r.rows, r.cols, append([]string(nil), r.keys...), append([]string(nil), r.vals...)}
}

// c21Split cuts plain into its leading complete IPC streams; the last element is the stream the
// rewrite targets. ok is false when plain is not a sequence of well-formed streams.
func c21Split(plain []byte) (parts [][]byte, ok bool) {
	rd := bytes.NewReader(plain)
	for rd.Len() > 0 && len(parts) < 3 {
		start := len(plain) - rd.Len()
		good := func() (good bool) {
			defer func() {
				if recover() != nil {
					good = false
				}
			}()
			r, err := ipc.NewReader(rd)
			if err != nil {
				return false
			}
			defer r.Release()
			for r.Next() {
			}
			return r.Err() == nil
		}()
		if !good {
			return nil, false
		}
		parts = append(parts, plain[start:len(plain)-rd.Len()])
	}
	return parts, len(parts) > 0
}

func c21DecodeStream(data []byte) (*arrow.Schema, []*c21Rec, bool) {
	r, err := ipc.NewReader(bytes.NewReader(data))
	if err != nil {
		return nil, nil, false
	}
	defer r.Release()
	var recs []*c21Rec
	for r.Next() {
		rec := r.RecordBatch()
		rec.Retain()
		keys, vals := c21RecordMD(rec)
		recs = append(recs, &c21Rec{rec.NumRows(), rec.Columns(), append([]string(nil), keys...), append([]string(nil), vals...)})
	}
	if r.Err() != nil {
		return nil, nil, false
	}
	return r.Schema(), recs, true
}

func c21EncodeStream(schema *arrow.Schema, recs []*c21Rec, eos bool) []byte {
	var buf bytes.Buffer
	w := ipc.NewWriter(&buf, ipc.WithSchema(schema))
	for _, r := range recs {
		md := arrow.NewMetadata(r.keys, r.vals)
		b := array.NewRecordBatchWithMetadata(schema, r.cols, r.rows, md)
		if err := w.Write(b); err != nil {
			panic(fmt.Sprintf("c21 re-encode: %v", err))
		}
		b.Release()
	}
	w.Close()
	out := buf.Bytes()
	if !eos && len(out) >= 8 {
		out = out[:len(out)-8]
	}
	return out
}

func c21ConstArray(dt arrow.DataType, n int64) arrow.Array {
	b := array.NewBuilder(memory.DefaultAllocator, dt)
	defer b.Release()
	for i := int64(0); i < n; i++ {
		switch bb := b.(type) {
		case *array.Int32Builder:
			bb.Append(int32(i))
		case *array.Int64Builder:
			bb.Append(i)
		case *array.StringBuilder:
			bb.Append("s")
		default:
			b.AppendNull()
		}
	}
	return b.NewArray()
}

// c21DriftSchema returns the named variant of schema s (used both for client-side declarations
// and for responses rewritten by the transport).
func c21DriftSchema(s *arrow.Schema, variant string) *arrow.Schema {
	fields := append([]arrow.Field(nil), s.Fields()...)
	md := s.Metadata()
	switch variant {
	case "ok", "same":
	case "name":
		if len(fields) > 0 {
			fields[0].Name = fields[0].Name + "_renamed"
		}
	case "null":
		if len(fields) > 0 {
			fields[0].Nullable = !fields[0].Nullable
		}
	case "type":
		if len(fields) > 0 {
			fields[0].Type = arrow.PrimitiveTypes.Int32
		}
	case "smeta":
		md = arrow.NewMetadata([]string{"contract"}, []string{"drifted"})
	case "fmeta":
		if len(fields) > 0 {
			fields[0].Metadata = arrow.NewMetadata([]string{"unit"}, []string{"m"})
		}
	case "extra":
		fields = append(fields, arrow.Field{Name: "extra", Type: arrow.PrimitiveTypes.Int64, Nullable: true})
	case "nocols":
		fields = nil
	default:
		return nil
	}
	return arrow.NewSchema(fields, &md)
}

func c21Compress(name string, data []byte) []byte {
	var buf bytes.Buffer
	switch name {
	case "gzip":
		zw := gzip.NewWriter(&buf)
		zw.Write(data)
		zw.Close()
	case "zstd":
		zw, _ := zstd.NewWriter(&buf)
		zw.Write(data)
		zw.Close()
	}
	return buf.Bytes()
}

// plainize decodes whatever encoding the server chose and drops the encoding headers.
func (e *c21Env) plainize(r *c21Resp) bool {
	enc := c21Encoding(r.header)
	if enc != "" {
		out, err := vgirpc.DecodeContentEncoding(r.body, enc, 1<<30)
		if err != nil {
			return false
		}
		r.body = out
	}
	r.header.Del(c21HdrCE)
	r.header.Del(c21HdrXCE)
	return true
}

// rewrite re-encodes the target IPC stream of the (plain) body after f transformed it.
func (e *c21Env) rewrite(r *c21Resp, hdrStream bool, eos bool, f func(s *arrow.Schema, recs []*c21Rec) (*arrow.Schema, []*c21Rec, bool)) bool {
	if !e.plainize(r) {
		return false
	}
	parts, ok := c21Split(r.body)
	if !ok {
		return false
	}
	idx := len(parts) - 1
	if hdrStream {
		if len(parts) < 2 {
			return false
		}
		idx = 0
	}
	schema, recs, ok := c21DecodeStream(parts[idx])
	if !ok {
		return false
	}
	ns, nrecs, ok := f(schema, recs)
	if !ok {
		return false
	}
	parts[idx] = c21EncodeStream(ns, nrecs, eos)
	r.body = bytes.Join(parts, nil)
	return true
}

func c21LogRec(schema *arrow.Schema, level, msg, extra string) *c21Rec {
	cols := make([]arrow.Array, schema.NumFields())
	for i, f := range schema.Fields() {
		cols[i] = c21ConstArray(f.Type, 0)
	}
	r := &c21Rec{rows: 0, cols: cols}
	r.add(vgirpc.MetaLogLevel, level)
	r.add(vgirpc.MetaLogMessage, msg)
	if extra != "" {
		r.add(vgirpc.MetaLogExtra, extra)
	}
	return r
}

// applyFault mutates the response; false = the fault could not be applied to this response.
func (e *c21Env) applyFault(r *c21Resp, f string, w *c21Wire) bool {
	name, arg := f, ""
	if i := strings.IndexByte(f, ':'); i > 0 {
		name, arg = f[:i], f[i+1:]
	}
	hdr := false
	if strings.HasPrefix(name, "h/") {
		hdr, name = true, name[2:]
	}
	argInt := func(def int) int {
		if n, err := strconv.Atoi(arg); err == nil {
			return n
		}
		return def
	}
	same := func(s *arrow.Schema, recs []*c21Rec) (*arrow.Schema, []*c21Rec, bool) { return s, recs, true }
	eachData := func(g func(rec *c21Rec)) func(*arrow.Schema, []*c21Rec) (*arrow.Schema, []*c21Rec, bool) {
		return func(s *arrow.Schema, recs []*c21Rec) (*arrow.Schema, []*c21Rec, bool) {
			n := 0
			for _, rec := range recs {
				if !rec.isLog() {
					g(rec)
					n++
				}
			}
			return s, recs, n > 0
		}
	}
	switch name {
	case "st", "stt": // status replaced (stt: with a text body)
		r.status = argInt(500)
		if name == "stt" {
			e.plainize(r)
			r.body = []byte("no\n") // short on purpose: see the note at "text"
			r.header.Set("Content-Type", "text/plain")
		}
		return true
	case "rpcerr":
		r.header.Set(c21HdrRPCError, "true")
		return true
	case "clen":
		switch arg {
		case "unknown":
			r.clen = -1
		case "over":
			r.clen = e.maxEnc + 1
		case "eq":
			r.clen = e.maxEnc
		default:
			r.clen = int64(argInt(0))
		}
		return true
	case "readerr":
		k := argInt(0)
		if k < 0 {
			k = len(r.body) + k
			if k < 0 {
				k = 0
			}
		}
		r.readErr = k
		return true
	case "empty":
		e.plainize(r)
		r.body = nil
		return true
	case "text":
		// A text body whose first four bytes read as a huge little-endian length makes the Arrow
		// reader allocate that much before it fails (~2 GiB, seconds): only "text:html" does that.
		e.plainize(r)
		r.body = []byte("ok\n")
		if arg == "html" {
			r.body = []byte("<html>502 bad gateway</html>")
		}
		return true
	case "garbage":
		// random bytes behind a well-formed continuation marker and a small metadata length
		e.plainize(r)
		rng := NewRng(uint64(argInt(7)))
		r.body = append([]byte{0xff, 0xff, 0xff, 0xff, byte(8 * (argInt(7) % 16)), 0, 0, 0}, rng.Bytes(argInt(7)%97+1)...)
		return true
	case "truncb", "trunce": // byte-level truncation (framing stays consistent)
		if !e.plainize(r) {
			return false
		}
		k := argInt(0)
		if name == "trunce" {
			k = len(r.body) - k
		}
		if k < 0 {
			k = 0
		}
		if k >= len(r.body) {
			return false
		}
		r.body = r.body[:k]
		return true
	case "flip":
		if !e.plainize(r) || len(r.body) == 0 {
			return false
		}
		parts := strings.Split(arg, ":")
		pos, _ := strconv.Atoi(parts[0])
		mask := 0xff
		if len(parts) > 1 {
			mask, _ = strconv.Atoi(parts[1])
		}
		if mask&0xff == 0 {
			mask = 1
		}
		r.body[pos%len(r.body)] ^= byte(mask)
		return true
	case "trail":
		if !e.plainize(r) {
			return false
		}
		n := argInt(1)
		if n <= 0 {
			return false
		}
		r.body = append(r.body, bytes.Repeat([]byte{0xEE}, n)...)
		return true
	case "trail0":
		if !e.plainize(r) {
			return false
		}
		r.body = append(r.body, make([]byte, argInt(8))...)
		return true
	case "trailstream":
		if !e.plainize(r) {
			return false
		}
		parts, ok := c21Split(r.body)
		if !ok {
			return false
		}
		r.body = append(r.body, parts[len(parts)-1]...)
		return true
	case "shortcl":
		// the declared Content-Length promises the whole body, the connection delivers only a prefix
		// that ends exactly at an Arrow IPC message boundary (k record batches, or all but the EOS
		// marker) and then breaks: the body reader reports io.ErrUnexpectedEOF like net/http does
		if !e.plainize(r) {
			return false
		}
		full := len(r.body)
		okc := false
		if arg == "eos" {
			okc = e.rewrite(r, hdr, false, same)
		} else {
			k := argInt(0)
			okc = e.rewrite(r, hdr, false, func(s *arrow.Schema, recs []*c21Rec) (*arrow.Schema, []*c21Rec, bool) {
				if k > len(recs) {
					return s, recs, false
				}
				return s, recs[:k], true
			})
		}
		if !okc || len(r.body) >= full {
			return false
		}
		r.clen, r.readErr = int64(full), len(r.body)
		return true
	case "noeos":
		return e.rewrite(r, hdr, false, same)
	case "cut": // keep only the first k record batches, no end-of-stream marker
		k := argInt(0)
		return e.rewrite(r, hdr, false, func(s *arrow.Schema, recs []*c21Rec) (*arrow.Schema, []*c21Rec, bool) {
			if k >= len(recs) {
				return s, recs, false
			}
			return s, recs[:k], true
		})
	case "drift":
		return e.rewrite(r, hdr, true, func(s *arrow.Schema, recs []*c21Rec) (*arrow.Schema, []*c21Rec, bool) {
			ns := c21DriftSchema(s, arg)
			if ns == nil {
				return nil, nil, false
			}
			for _, rec := range recs {
				cols := make([]arrow.Array, ns.NumFields())
				for i, fld := range ns.Fields() {
					if i < len(rec.cols) && arrow.TypeEqual(rec.cols[i].DataType(), fld.Type) {
						cols[i] = rec.cols[i]
					} else {
						cols[i] = c21ConstArray(fld.Type, rec.rows)
					}
				}
				rec.cols = cols
			}
			return ns, recs, true
		})
	case "notok":
		return e.rewrite(r, hdr, true, eachData(func(rec *c21Rec) { rec.del(vgirpc.MetaStreamState); rec.del(vgirpc.MetaCallState) }))
	case "nostate":
		return e.rewrite(r, hdr, true, eachData(func(rec *c21Rec) { rec.del(vgirpc.MetaStreamState) }))
	case "nocall":
		return e.rewrite(r, hdr, true, eachData(func(rec *c21Rec) { rec.del(vgirpc.MetaCallState) }))
	case "emptytok":
		return e.rewrite(r, hdr, true, eachData(func(rec *c21Rec) {
			if _, ok := rec.get(vgirpc.MetaStreamState); ok {
				rec.del(vgirpc.MetaStreamState)
				rec.add(vgirpc.MetaStreamState, "")
			}
		}))
	case "emptycall":
		return e.rewrite(r, hdr, true, eachData(func(rec *c21Rec) {
			rec.del(vgirpc.MetaCallState)
			rec.add(vgirpc.MetaCallState, "")
		}))
	case "oldtok", "sametok", "newcall":
		return e.rewrite(r, hdr, true, eachData(func(rec *c21Rec) {
			switch name {
			case "newcall":
				rec.del(vgirpc.MetaCallState)
				rec.add(vgirpc.MetaCallState, "rotated-call-"+arg)
			default:
				if _, ok := rec.get(vgirpc.MetaStreamState); ok {
					v := e.firstTok
					if name == "sametok" && w.cursor != "" {
						v = w.cursor
					}
					if v != "" {
						rec.del(vgirpc.MetaStreamState)
						rec.add(vgirpc.MetaStreamState, v)
					}
				}
			}
		}))
	case "dupstate": // a second stream-state key after the real one (the later value wins in a Go map)
		return e.rewrite(r, hdr, true, eachData(func(rec *c21Rec) {
			if _, ok := rec.get(vgirpc.MetaStreamState); ok {
				if arg == "empty" {
					rec.add(vgirpc.MetaStreamState, "")
				} else {
					rec.add(vgirpc.MetaStreamState, "later-cursor")
				}
			}
		}))
	case "usermd":
		return e.rewrite(r, hdr, true, eachData(func(rec *c21Rec) {
			rec.add("k", "v1")
			rec.add("k", "v2")
			rec.add("", "emptykey")
			rec.add("e", "")
		}))
	case "loc":
		return e.rewrite(r, hdr, true, eachData(func(rec *c21Rec) { rec.add(vgirpc.MetaLocation, "https://elsewhere.example/blob") }))
	case "emptyloc":
		return e.rewrite(r, hdr, true, eachData(func(rec *c21Rec) { rec.add(vgirpc.MetaLocation, "") }))
	case "rows0":
		return e.rewrite(r, hdr, true, func(s *arrow.Schema, recs []*c21Rec) (*arrow.Schema, []*c21Rec, bool) {
			for _, rec := range recs {
				cols := make([]arrow.Array, s.NumFields())
				for i, fld := range s.Fields() {
					cols[i] = c21ConstArray(fld.Type, 0)
				}
				rec.cols, rec.rows = cols, 0
			}
			return s, recs, true
		})
	case "dup": // every non-log batch twice
		return e.rewrite(r, hdr, true, func(s *arrow.Schema, recs []*c21Rec) (*arrow.Schema, []*c21Rec, bool) {
			var out []*c21Rec
			n := 0
			for _, rec := range recs {
				out = append(out, rec)
				if !rec.isLog() {
					out = append(out, rec.clone())
					n++
				}
			}
			return s, out, n > 0
		})
	case "extradata": // one more data batch (no token) in front
		return e.rewrite(r, hdr, true, func(s *arrow.Schema, recs []*c21Rec) (*arrow.Schema, []*c21Rec, bool) {
			cols := make([]arrow.Array, s.NumFields())
			for i, fld := range s.Fields() {
				cols[i] = c21ConstArray(fld.Type, 2)
			}
			x := &c21Rec{rows: 2, cols: cols}
			if arg == "end" {
				return s, append(recs, x), true
			}
			return s, append([]*c21Rec{x}, recs...), true
		})
	case "nodata": // drop every non-log batch
		return e.rewrite(r, hdr, true, func(s *arrow.Schema, recs []*c21Rec) (*arrow.Schema, []*c21Rec, bool) {
			var out []*c21Rec
			for _, rec := range recs {
				if rec.isLog() {
					out = append(out, rec)
				}
			}
			return s, out, len(out) != len(recs)
		})
	case "addlog":
		return e.rewrite(r, hdr, true, func(s *arrow.Schema, recs []*c21Rec) (*arrow.Schema, []*c21Rec, bool) {
			l := c21LogRec(s, "INFO", "srv:injected-log", `{"a":1}`)
			if arg == "end" {
				return s, append(recs, l), true
			}
			return s, append([]*c21Rec{l}, recs...), true
		})
	case "addexc", "excend":
		return e.rewrite(r, hdr, true, func(s *arrow.Schema, recs []*c21Rec) (*arrow.Schema, []*c21Rec, bool) {
			extra := ""
			if arg != "" {
				b, _ := json.Marshal(map[string]string{"exception_type": arg, "traceback": "tb"})
				extra = string(b)
			}
			l := c21LogRec(s, string(vgirpc.LogException), "srv:injected-exception", extra)
			if arg == "badjson" {
				l = c21LogRec(s, string(vgirpc.LogException), "srv:injected-exception", "{not json")
			}
			if name == "excend" {
				return s, append(recs, l), true
			}
			return s, append([]*c21Rec{l}, recs...), true
		})
	case "pad": // grow the body to exactly cap+delta bytes with a user metadata value (when reachable)
		parts := strings.Split(arg, ":")
		if len(parts) != 2 {
			return false
		}
		delta, _ := strconv.Atoi(parts[1])
		target := int(e.maxEnc) + delta
		if parts[0] == "d" {
			target = int(e.maxDec) + delta
		}
		if !e.plainize(r) || len(r.body) > target {
			return false
		}
		base := append([]byte(nil), r.body...)
		for extra := 0; extra <= 64; extra++ {
			try := &c21Resp{status: r.status, header: r.header, body: append([]byte(nil), base...), clen: -2, readErr: -1}
			n := target - len(base) - extra
			if n < 0 {
				break
			}
			okk := e.rewrite(try, false, true, eachData(func(rec *c21Rec) {
				if _, has := rec.get("pad"); !has {
					rec.add("pad", strings.Repeat("p", n))
				}
			}))
			if okk && len(try.body) == target {
				r.body = try.body
				if parts[0] == "d" {
					r.body = c21Compress("gzip", r.body)
					r.header.Set(c21HdrCE, "gzip")
				}
				return true
			}
		}
		return false
	case "bigbody": // a body far over the encoded cap
		if !e.plainize(r) {
			return false
		}
		r.body = append(r.body, make([]byte, int(e.maxEnc)+1)...)
		return true
	case "bomb": // small on the wire, far over the decoded cap once decompressed
		if !e.plainize(r) {
			return false
		}
		r.body = c21Compress(map[bool]string{true: "zstd", false: "gzip"}[arg == "zstd"], append(r.body, make([]byte, int(e.maxDec)+1)...))
		r.header.Set(c21HdrCE, map[bool]string{true: "zstd", false: "gzip"}[arg == "zstd"])
		return true
	case "enc":
		if !e.plainize(r) {
			return false
		}
		switch arg {
		case "gzip", "zstd":
			r.body = c21Compress(arg, r.body)
			r.header.Set(c21HdrCE, arg)
		case "GZIP":
			r.body = c21Compress("gzip", r.body)
			r.header.Set(c21HdrCE, "GZip")
		case "sp-gzip":
			r.body = c21Compress("gzip", r.body)
			r.header.Set(c21HdrCE, "  gzip ")
		case "gzip+identity":
			r.body = c21Compress("gzip", r.body)
			r.header.Set(c21HdrCE, "gzip, identity")
		case "gzip+zstd": // applied in order gzip then zstd
			r.body = c21Compress("zstd", c21Compress("gzip", r.body))
			r.header.Set(c21HdrCE, "gzip,zstd")
		case "identity":
			r.header.Set(c21HdrCE, "identity")
		case "Identity":
			r.header.Set(c21HdrCE, " IDENTITY")
		case "br", "deflate", "compress", "x-gzip", "gzip;q=1":
			r.header.Set(c21HdrCE, arg)
		case "gzip+br":
			r.body = c21Compress("gzip", r.body)
			r.header.Set(c21HdrCE, "gzip, br")
		case "comma":
			r.header.Set(c21HdrCE, ",")
		case "gzip-comma":
			r.body = c21Compress("gzip", r.body)
			r.header.Set(c21HdrCE, "gzip,")
		case "gzip-fake", "zstd-fake":
			r.header.Set(c21HdrCE, strings.TrimSuffix(arg, "-fake"))
		case "xgzip", "xzstd":
			r.body = c21Compress(arg[1:], r.body)
			r.header.Set(c21HdrXCE, arg[1:])
		case "xbr":
			r.header.Set(c21HdrXCE, "br")
		case "id-xbr": // the standard header wins over the custom one
			r.header.Set(c21HdrCE, "identity")
			r.header.Set(c21HdrXCE, "br")
		case "blank-xgzip": // blank standard header falls through to the custom one
			r.body = c21Compress("gzip", r.body)
			r.header.Set(c21HdrCE, "  ")
			r.header.Set(c21HdrXCE, "gzip")
		default:
			return false
		}
		return true
	}
	return false
}

// ---------------------------------------------------------------- client-side helpers

func (e *c21Env) paramsBatch(plan string) arrow.RecordBatch {
	b := array.NewStringBuilder(memory.DefaultAllocator)
	defer b.Release()
	b.Append(plan)
	arr := b.NewArray()
	defer arr.Release()
	return array.NewRecordBatch(e.paramsSchema, []arrow.Array{arr}, 1)
}

func (e *c21Env) inputBatch(schema *arrow.Schema, rows int, userMD bool) arrow.RecordBatch {
	cols := make([]arrow.Array, schema.NumFields())
	for i, f := range schema.Fields() {
		cols[i] = c21ConstArray(f.Type, int64(rows))
	}
	if !userMD {
		return array.NewRecordBatch(schema, cols, int64(rows))
	}
	// caller metadata, including keys the client must strip before sending
	md := arrow.NewMetadata(
		[]string{"caller", vgirpc.MetaStreamState, vgirpc.MetaCancel, vgirpc.MetaCallState},
		[]string{"yes", "caller-injected-cursor", "1", "caller-injected-call"})
	return array.NewRecordBatchWithMetadata(schema, cols, int64(rows), md)
}

type c21ErrObs struct {
	class string // canonical observation
	typ   string
	msg   string
}

func c21ClassifyErr(err error) c21ErrObs {
	var re *vgirpc.RpcError
	if errors.As(err, &re) {
		o := c21ErrObs{typ: re.Type, msg: re.Message}
		o.class = "err:rpc:" + XS(re.Type)
		// messages are compared only when they carry the harness marker "srv:" (server-made text);
		// the test is made on the hex form so that the Lean driver can repeat it literally
		if strings.Contains(hex.EncodeToString([]byte(re.Message)), "7372763a") {
			o.class += ":" + XS(re.Message)
		}
		return o
	}
	var se *vgirpc.HTTPStatusError
	if errors.As(err, &se) {
		return c21ErrObs{class: "err:status:" + strconv.Itoa(se.StatusCode)}
	}
	return c21ErrObs{class: "err:other"}
}

func (e *c21Env) batchObs(b *vgirpc.ClientBatch) string {
	return fmt.Sprintf("%d %s %s", b.Batch.NumRows(), c21Payload(b.Batch), e.mdWords(b.Metadata))
}
