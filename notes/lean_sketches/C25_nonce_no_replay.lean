/-! Sketch (design-time calibration, not framework code): replay protection of the nonce
    cache (C25), cache level.  Mirrors proof.go:nonceCache.checkAndAdd. -/
namespace Sketch

abbrev E := Nat × Nat          -- (nonce, expiresAt)

structure Cache where
  ttl : Nat
  cap : Nat
  order : List E                -- oldest first

/-- drop the expired prefix: `for front.expiresAt.After(now) == false { remove front }` -/
def sweep (now : Nat) : List E → List E
  | [] => []
  | x :: r => if x.2 > now then x :: r else sweep now r

/-- `for order.Len() >= capacity { remove front }` -/
def evict (cap : Nat) : List E → List E
  | [] => []
  | x :: r => if (x :: r).length ≥ cap then evict cap r else x :: r

def checkAndAdd (c : Cache) (nonce now : Nat) : Bool × Cache :=
  let o := sweep now c.order
  if o.any (·.1 == nonce) then (false, { c with order := o })
  else (true, { c with order := evict c.cap o ++ [(nonce, now + c.ttl)] })

/-- `Has l n e k`: entry (n,e) is in `l` with exactly `k` entries behind it (newer). -/
def Has (l : List E) (n e k : Nat) : Prop := ∃ pre post, l = pre ++ (n, e) :: post ∧ post.length = k

theorem sweep_has {l : List E} {n e k now : Nat} (h : Has l n e k) (he : e > now) :
    Has (sweep now l) n e k := by
  obtain ⟨pre, post, rfl, hk⟩ := h
  induction pre with
  | nil => exact ⟨[], post, by simp [sweep, he], hk⟩
  | cons x pre ih =>
    simp only [List.cons_append, sweep]
    split
    · exact ⟨x :: pre, post, by simp, hk⟩
    · exact ih

theorem evict_has {l : List E} {n e k cap : Nat} (h : Has l n e k) (hc : k + 1 < cap) :
    Has (evict cap l) n e k := by
  obtain ⟨pre, post, rfl, hk⟩ := h
  induction pre with
  | nil =>
    refine ⟨[], post, ?_, hk⟩
    simp only [List.nil_append, evict]
    split
    · rename_i hlen; simp at hlen; omega
    · rfl
  | cons x pre ih =>
    simp only [List.cons_append, evict]
    split
    · exact ih
    · exact ⟨x :: pre, post, by simp, hk⟩

theorem has_any {l : List E} {n e k : Nat} (h : Has l n e k) : l.any (·.1 == n) = true := by
  obtain ⟨pre, post, rfl, _⟩ := h
  simp

theorem has_append {l : List E} {n e k : Nat} (h : Has l n e k) (x : E) : Has (l ++ [x]) n e (k + 1) := by
  obtain ⟨pre, post, rfl, hk⟩ := h
  exact ⟨pre, post ++ [x], by simp, by simp [hk]⟩

/-- one later presentation of any nonce `m` at a time when (n,e) is still live -/
theorem step_has (c : Cache) (n e k m now : Nat) (h : Has c.order n e k) (he : e > now) :
    let r := checkAndAdd c m now
    (m = n → r.1 = false) ∧
    (r.1 = false → Has r.2.order n e k) ∧
    (r.1 = true → k + 1 < c.cap → Has r.2.order n e (k + 1)) ∧
    r.2.cap = c.cap ∧ r.2.ttl = c.ttl := by
  have hs := sweep_has h he
  simp only [checkAndAdd]
  split
  · rename_i hany
    refine ⟨fun _ => rfl, fun _ => hs, fun hc => by simp at hc, rfl, rfl⟩
  · rename_i hany
    refine ⟨?_, fun hc => by simp at hc, ?_, rfl, rfl⟩
    · intro hm; subst hm; exact absurd (has_any hs) hany
    · intro _ hc; exact has_append (evict_has hs hc) _

/-- presentations: (nonce, now) -/
def runOps (c : Cache) : List (Nat × Nat) → Cache × Nat     -- returns final cache and #accepted
  | [] => (c, 0)
  | (m, t) :: ops =>
      let r := checkAndAdd c m t
      let rest := runOps r.2 ops
      (rest.1, rest.2 + (if r.1 then 1 else 0))

theorem run_has (ops : List (Nat × Nat)) :
    ∀ (c : Cache) (n e k : Nat), Has c.order n e k → (∀ op ∈ ops, op.2 < e) →
      k + (runOps c ops).2 + 1 ≤ c.cap →
      ∃ k', Has (runOps c ops).1.order n e k' ∧ (runOps c ops).1.cap = c.cap := by
  induction ops with
  | nil => intro c n e k h _ _; exact ⟨k, h, rfl⟩
  | cons op ops ih =>
    intro c n e k h ht hcap
    obtain ⟨m, t⟩ := op
    have hlt : t < e := ht (m, t) (by simp)
    have hstep := step_has c n e k m t h hlt
    simp only [runOps] at hcap ⊢
    obtain ⟨_, hf, htr, hcapEq, _⟩ := hstep
    cases hb : (checkAndAdd c m t).1
    · have hh := hf hb
      have := ih (checkAndAdd c m t).2 n e k hh (fun op hop => ht op (by simp [hop])) (by simp [hb] at hcap; omega)
      obtain ⟨k', h1, h2⟩ := this
      exact ⟨k', h1, by omega⟩
    · simp [hb] at hcap
      have hh := htr hb (by omega)
      have := ih (checkAndAdd c m t).2 n e (k + 1) hh (fun op hop => ht op (by simp [hop])) (by omega)
      obtain ⟨k', h1, h2⟩ := this
      exact ⟨k', h1, by omega⟩

/-- Headline (cache level): a nonce accepted at time `a` is refused on every later
    presentation made before `a + ttl`, as long as fewer than `cap` *other* nonces were
    admitted in between. No assumption on the clock being monotone is needed. -/
theorem no_replay (c : Cache) (n a b : Nat) (mid : List (Nat × Nat))
    (hcap : 1 ≤ c.cap)
    (hacc : (checkAndAdd c n a).1 = true)
    (hmid : ∀ op ∈ mid, op.2 < a + c.ttl) (hb : b < a + c.ttl)
    (hfew : (runOps (checkAndAdd c n a).2 mid).2 < c.cap) :
    (checkAndAdd (runOps (checkAndAdd c n a).2 mid).1 n b).1 = false := by
  -- after acceptance the entry sits at the back
  have h0 : Has (checkAndAdd c n a).2.order n (a + c.ttl) 0 := by
    simp only [checkAndAdd] at hacc ⊢
    by_cases hany : ((sweep a c.order).any fun x => x.fst == n) = true
    · simp [hany] at hacc
    · rw [if_neg hany]
      exact ⟨evict c.cap (sweep a c.order), [], rfl, rfl⟩
  have hc1 : (checkAndAdd c n a).2.cap = c.cap := by
    simp only [checkAndAdd]; split <;> rfl
  obtain ⟨k', hk', _⟩ := run_has mid _ n (a + c.ttl) 0 h0 hmid (by rw [hc1]; omega)
  exact (step_has _ n (a + c.ttl) k' n b hk' hb).1 rfl

#print axioms no_replay

-- the CURRENT code's flaw is one level up: ttl = skew while the timestamp stays acceptable
-- for up to 2*skew.  Concrete witness at the cache level: expiry reached ⇒ accepted again.
example : let c : Cache := ⟨30, 8, []⟩
          ((checkAndAdd (checkAndAdd c 7 100).2 7 130).1) = true := by decide

end Sketch
