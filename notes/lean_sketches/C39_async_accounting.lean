/-! Sketch (design-time calibration, not framework code): accounting invariant of the
    async access-log emitter (C39) over all interleavings. -/
namespace Sketch

structure Rec where
  id : Nat
  stamp : Nat        -- dropped_records carried by this record (0 = absent)
deriving Repr, DecidableEq

structure St where
  cap     : Nat
  queue   : List Rec
  pending : Nat        -- a.dropped
  closed  : Bool
  written : List Rec
  -- ghost state
  enq     : List Nat   -- ids accepted by enqueue before close
  lost    : List Nat   -- ids dropped because the queue was full
deriving Repr

inductive Act | enqueue (id : Nat) | writer | close
deriving Repr

def step (s : St) : Act → Option St
  | .enqueue id =>
      if s.closed then some s
      else if s.queue.length < s.cap then
        some { s with queue := s.queue ++ [⟨id, s.pending⟩], pending := 0, enq := id :: s.enq }
      else
        some { s with pending := s.pending + 1, enq := id :: s.enq, lost := id :: s.lost }
  | .writer =>
      match s.queue with
      | [] => none
      | r :: q => some { s with queue := q, written := s.written ++ [r] }
  | .close => some { s with closed := true }

def run (s : St) : List Act → Option St
  | [] => some s
  | a :: as => match step s a with
    | none => none
    | some s' => run s' as

def stamps (l : List Rec) : Nat := (l.map (·.stamp)).sum
def ids (l : List Rec) : List Nat := l.map (·.id)

theorem stamps_append (a b : List Rec) : stamps (a ++ b) = stamps a + stamps b := by
  simp [stamps, List.map_append, List.sum_append]

/-- the accounting invariant -/
def Inv (s : St) : Prop :=
  stamps s.written + stamps s.queue + s.pending = s.lost.length ∧
  s.enq.length = s.written.length + s.queue.length + s.lost.length ∧
  (∀ i, i ∈ s.enq ↔ i ∈ ids s.written ∨ i ∈ ids s.queue ∨ i ∈ s.lost)

def init (cap : Nat) : St := ⟨cap, [], 0, false, [], [], []⟩

theorem inv_init (cap : Nat) : Inv (init cap) := by
  simp [Inv, init, stamps, ids]

@[simp] theorem stamps_nil : stamps [] = 0 := rfl
@[simp] theorem stamps_cons (r : Rec) (l : List Rec) : stamps (r :: l) = r.stamp + stamps l := by
  simp [stamps]
@[simp] theorem ids_append (a b : List Rec) : ids (a ++ b) = ids a ++ ids b := by simp [ids]
@[simp] theorem ids_cons (r : Rec) (l : List Rec) : ids (r :: l) = r.id :: ids l := rfl
@[simp] theorem ids_nil : ids [] = [] := rfl

theorem inv_step (s s' : St) (a : Act) (h : Inv s) (hs : step s a = some s') : Inv s' := by
  obtain ⟨h1, h2, h3⟩ := h
  cases a with
  | enqueue id =>
    simp only [step] at hs
    split at hs
    · cases hs; exact ⟨h1, h2, h3⟩
    · split at hs
      · cases hs
        refine ⟨?_, ?_, ?_⟩
        · simp only [stamps_append, stamps_cons, stamps_nil]; omega
        · simp only [List.length_cons, List.length_append, List.length_nil]; omega
        · intro i
          simp only [List.mem_cons, ids_append, ids_cons, ids_nil, List.mem_append, List.not_mem_nil, or_false, h3 i]
          grind
      · cases hs
        refine ⟨?_, ?_, ?_⟩
        · simp only [List.length_cons]; omega
        · simp only [List.length_cons]; omega
        · intro i
          simp only [List.mem_cons, h3 i]
          grind
  | writer =>
    simp only [step] at hs
    split at hs
    · cases hs
    · rename_i r q hq
      cases hs
      rw [hq] at h1 h2 h3
      refine ⟨?_, ?_, ?_⟩
      · simp only [stamps_append, stamps_cons, stamps_nil] at *; omega
      · simp only [List.length_cons, List.length_append, List.length_nil] at *; omega
      · intro i
        have := h3 i
        simp only [ids_append, ids_cons, ids_nil, List.mem_append, List.mem_cons, List.not_mem_nil, or_false] at *
        grind
  | close =>
    simp only [step] at hs
    cases hs
    exact ⟨h1, h2, h3⟩

theorem inv_run (s : St) (as : List Act) (h : Inv s) : ∀ s', run s as = some s' → Inv s' := by
  induction as generalizing s with
  | nil => intro s' hs; simp [run] at hs; cases hs; exact h
  | cons a as ih =>
    intro s' hs
    simp only [run] at hs
    split at hs
    · cases hs
    · rename_i s1 h1
      exact ih s1 (inv_step s s1 a h h1) s' hs

/-- Headline: in every reachable state whose queue has been drained (as after close()),
    every accepted record is written or was dropped, and the dropped ones are all counted:
    by the stamps of written records, plus the trailing pending count. -/
theorem accounting (cap : Nat) (as : List Act) (s : St)
    (hr : run (init cap) as = some s) (hq : s.queue = []) :
    (∀ i ∈ s.enq, i ∈ ids s.written ∨ i ∈ s.lost) ∧
    stamps s.written + s.pending = s.lost.length := by
  have := inv_run _ as (inv_init cap) s hr
  obtain ⟨h1, _, h3⟩ := this
  rw [hq] at h1 h3
  constructor
  · intro i hi; have := (h3 i).1 hi; simpa [ids] using this
  · simpa [stamps] using h1

-- non-vacuity: a concrete run that drops and then reports
example : (run (init 1) [.enqueue 1, .enqueue 2, .enqueue 3, .writer, .enqueue 4, .close, .writer]).map
    (fun s => (ids s.written, s.written.map (·.stamp), s.lost, s.pending)) =
    some ([1, 4], [0, 2], [3, 2], 0) := by decide

end Sketch

#print axioms Sketch.accounting
