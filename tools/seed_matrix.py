#!/usr/bin/env python3
"""tools/seed_matrix.py [ids...] — run every confirmed seeded change (seeded/<PROP>-<k>/patch.diff) against
its property's check in a scratch worktree (tools/seedtest.sh) and record the outcome in
seeded/<id>/detection.json and seeded/MATRIX.md. Self-test tooling only."""
import json, os, re, subprocess, sys, concurrent.futures as cf
V = '/verif'
ids = sys.argv[1:] or sorted(d for d in os.listdir(f'{V}/seeded') if os.path.isdir(f'{V}/seeded/{d}'))
def one(i):
    prop = i.split('-')[0]
    if not os.path.exists(f'{V}/checks.d/{prop}.json'):
        return i, {'status': 'check-not-registered'}
    r = subprocess.run([f'{V}/tools/seedtest.sh', prop, f'{V}/seeded/{i}/patch.diff'], capture_output=True, text=True)
    out = r.stdout + r.stderr
    if 'PATCH-DOES-NOT-APPLY' in out:
        st = 'patch-does-not-apply-on-current-head'
    elif re.search(r'^VIOLATION .*no-failing-input-found', out, re.M):
        st = 'caught: correspondence/proof broken, no failing input found'
    elif re.search(r'^VIOLATION', out, re.M):
        st = 'caught: counterexample (oracle) with replay'
    else:
        st = 'MISSED'
    tail = [l for l in out.splitlines() if l.startswith('[check]')][-1:]
    return i, {'status': st, 'check_summary': tail[0] if tail else '', 'cmd': f'tools/seedtest.sh {prop} seeded/{i}/patch.diff',
               'repo_head': subprocess.run(['git', '-C', '/repo', 'rev-parse', '--short', 'HEAD'], capture_output=True, text=True).stdout.strip()}
with cf.ThreadPoolExecutor(max_workers=int(os.environ.get('JOBS', '3'))) as ex:
    for i, res in ex.map(one, ids):
        json.dump(res, open(f'{V}/seeded/{i}/detection.json', 'w'), indent=1)
        print(i, res['status'], flush=True)
rows = []
for d in sorted(os.listdir(f'{V}/seeded')):
    p = f'{V}/seeded/{d}'
    if not os.path.isdir(p): continue
    meta = json.load(open(f'{p}/meta.json'))
    det = json.load(open(f'{p}/detection.json')) if os.path.exists(f'{p}/detection.json') else {'status': 'not run'}
    rows.append(f"| {d} | {meta.get('summary','')[:160].replace('|','/')} | {det['status']}{(' — ' + meta['lead_note'].replace('|','/')) if meta.get('lead_note') else ''} |")
open(f'{V}/seeded/MATRIX.md', 'w').write('# Seeded changes (written by independent agents that saw only the property text) × detection\n\n| id | change | ./check result |\n|---|---|---|\n' + '\n'.join(rows) + '\n')
