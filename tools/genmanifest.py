#!/usr/bin/env python3
"""Regenerate MANIFEST.json from checks.d/<ID>.json (one file per claimed property) and
not_applicable.json (reasons for properties not claimed). Validates against the schema when the
jsonschema module is available."""
import json, os, sys
V = os.path.join(os.path.dirname(os.path.abspath(__file__)), '..')
props = [json.loads(l)['id'] for l in open(os.path.join(V, 'properties.jsonl'))]
na_reasons = json.load(open(os.path.join(V, 'not_applicable.json')))
checks, na = [], []
for pid in props:
    p = os.path.join(V, 'checks.d', pid + '.json')
    if os.path.exists(p):
        m = json.load(open(p))
        checks.append({
            'property_id': pid,
            'quick_cmd': f'./check {pid} --tier quick',
            'thorough_cmd': f'./check {pid} --tier thorough',
            'evidence_file': f'/verif/evidence/{pid}.json',
            'replay_cmd_template': f'./check {pid} --replay {{path}}',
            'engine': 'lean4-model+correspondence',
            'level_claimed': {'category': 'proof', 'text': m['level_text'], 'design_ref': m.get('design_ref', f'DESIGN.md §6 {pid}')},
            'level_note': m['level_note'],
            'technique': m.get('technique', 'Lean 4 theorems about an executable model; model tied to the code by a differential correspondence run'),
        })
    else:
        na.append({'property_id': pid, 'reason': na_reasons.get(pid, 'no check registered yet: the Lean model/proof and correspondence harness for this property are not built; nothing is claimed')})
import subprocess
hooks_commits = subprocess.run(['git', '-C', '/repo', 'log', '--format=%H', '--grep=^verif hooks'], capture_output=True, text=True).stdout.split()
# known_findings.json is assembled from findings.d/<ID>.json (lists of entries); it is a committed
# file and is never written by a check at run time.
kf = []
fd = os.path.join(V, 'findings.d')
if os.path.isdir(fd):
    for f in sorted(os.listdir(fd)):
        if f.endswith('.json'):
            kf += json.load(open(os.path.join(fd, f)))
json.dump(kf, open(os.path.join(V, 'known_findings.json'), 'w'), indent=1)
man = {
    'version': 1,
    'setup_cmd': './setup.sh',
    'hooks': {
        'guard': 'verif',
        'enable': 'go1.26 build -tags verif (harness module /verif/harness, replace github.com/Query-farm/vgi-rpc-go => /repo)',
        'baseline_off_cmd': 'for m in . ./vgirpc/gcs ./vgirpc/jwtauth ./vgirpc/otel ./vgirpc/s3 ./vgirpc/sentry; do (cd /repo/$m && GOFLAGS=-mod=mod GOPROXY=off go test -json -vet=off -count=1 -timeout 25m ./...); done',
        'source_commits': hooks_commits,
        'add_only': True,
    },
    'engines': [{'name': 'lean4-model+correspondence', 'path': '/verif/check',
                 'serves_properties': [c['property_id'] for c in checks],
                 'kind_free_text': 'Lean 4 (4.33.0, core only) theorems about hand-written executable models; native Lean driver + Go harness (real code, -tags verif hooks) differential correspondence; go/ast fact regeneration'}],
    'checks': checks,
    'not_applicable': na,
    'notes': 'See DESIGN.md. Every check: facts regen -> lake build Props/<ID> + axiom audit -> go build harness against /repo -> correspondence diff + property oracle -> evidence.',
}
json.dump(man, open(os.path.join(V, 'MANIFEST.json'), 'w'), indent=1)
try:
    import jsonschema
    jsonschema.validate(man, json.load(open('/root/.vp/MANIFEST.schema.json')))
    print('MANIFEST.json valid;', len(checks), 'checks,', len(na), 'not claimed')
except ImportError:
    print('MANIFEST.json written (jsonschema not available to validate);', len(checks), 'checks')
