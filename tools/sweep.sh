#!/bin/sh
# tools/sweep.sh [tier] [seeds...] — run every registered check on the unchanged tree; report non-zero exits.
tier=${1:-quick}; shift; seeds=${*:-1}
cd /verif
for f in checks.d/C*.json; do id=$(basename "$f" .json)
  for s in $seeds; do
    out=$(./check "$id" --tier "$tier" --seed "$s" 2>&1); rc=$?
    echo "$id seed=$s rc=$rc $(echo "$out" | tail -1 | sed 's/.*: obligations/obligations/')"
    [ $rc -ne 0 ] && echo "$out" | grep -E "VIOLATION|broken" | head -3
  done
done
