#!/usr/bin/env python3
"""Print the prompt for an independent mutant-seeding agent for one property (text only)."""
import json, sys
pid = sys.argv[1]
ROUND = sys.argv[2] if len(sys.argv) > 2 else 'ab'   # names of the two changes to deliver
import os, glob
prev = []
for d in sorted(glob.glob(f'/verif/seeded/{pid}-*')):
    try: prev.append(json.load(open(d + '/meta.json')).get('summary', ''))
    except Exception: pass
p = next(json.loads(l) for l in open('/verif/properties.jsonl') if json.loads(l)['id'] == pid)
wt = f'/tmp/seed/{pid}'
print(f"""You are testing how robust a Go library is against subtle regressions. You have your own scratch git worktree of the repository Query-farm/vgi-rpc-go at {wt} (Go implementation of vgi-rpc, an Arrow-IPC RPC protocol). Work ONLY inside {wt}; never touch /repo or /verif, and do not read anything under /verif. No network is available. Go commands: run `go` with env `GOFLAGS=-mod=mod GOPROXY=off` (e.g. `cd {wt} && GOFLAGS=-mod=mod GOPROXY=off go test -vet=off -count=1 ./vgirpc/`), which takes ~15-60 s; files named verif_*.go are build-tagged instrumentation, ignore them and do not edit them.

Here is a semantic property the library is supposed to satisfy:

  {p['id']} — {p['title']}
  Statement: {p['statement']}
  Quantified over: {p['quantifier']['text']}

Your job: produce TWO DIFFERENT small source changes (each its own patch) to the library that each BREAK this property while (a) the package still compiles, and (b) the repository's existing test suite still passes (`go test -vet=off -count=1 ./vgirpc/...` and, if you touch a sub-module such as vgirpc/s3 or vgirpc/otel, that module's tests too). Make them realistic regressions a maintainer could plausibly introduce (an inverted or off-by-one comparison, a dropped guard or release, a reordered step, a wrong key/field, a lost error path, two cooperating sites that each look fine alone) and make them need something SPECIFIC to manifest — a particular interleaving, a fault at a particular point, a multi-step sequence of operations, an unusual input or boundary value — rather than something ordinary use would expose at once. The two changes should touch different mechanisms.

For each change also write a demonstration: a Go test file (package vgirpc or an external test package, placed in the worktree, e.g. vgirpc/zz_seed_{pid.lower()}_{ROUND[0]}_test.go) or a small program that FAILS with the change applied and PASSES on the original code. Verify all of it yourself: original code → existing tests pass, demo passes; changed code → compiles, existing tests pass, demo fails.

Deliver, in the directory {wt}/_seed/ (create it): for change k in ({ROUND[0]}, {ROUND[1]}): `k/patch.diff` (output of `git diff` for the library source only, NOT including the demo test file and NOT including _seed), `k/demo_test.go` (the demonstration, with a header comment giving the path it must be copied to and the exact command to run it), and `k/meta.json` with keys: property (the id), summary (one sentence: what the change does), needs (what specific input/sequence/interleaving it needs to manifest), files (list of source files changed), demo_cmd, verified (what you ran and observed). When done, leave the worktree's tracked source files reverted to the original (`git checkout -- .` there; keep only the _seed directory and nothing else untracked). Do NOT use `git stash` (the stash is shared between worktrees; save diffs to files and use `git apply` instead). Final message: a two-line summary of the two changes.""" + ("\n\nOther people have already produced the following changes for this property; yours must use DIFFERENT mechanisms and different code sites from all of them:\n" + "\n".join("  - " + x for x in prev) if (prev and ROUND != "ab") else ""))
