#!/bin/sh
# tools/seedtest.sh <ID> <patch.diff> [tier]  — self-test only: apply a patch to a scratch worktree of
# /repo (outside /repo and /verif), run ./check <ID> against it via VERIF_REPO, remove the worktree.
# Prints the check's VIOLATION line (expected) or "MISSED". Never touches /repo's working tree.
id=$1; patch=$(readlink -f "$2"); tier=${3:-quick}
wt=/tmp/seedtest-$id-$$
git -C /repo worktree add -q --detach "$wt" HEAD || exit 2
if ! git -C "$wt" apply "$patch"; then echo "PATCH-DOES-NOT-APPLY $patch"; git -C /repo worktree remove --force "$wt"; exit 3; fi
cd /verif && VERIF_REPO="$wt" ./check "$id" --tier "$tier" > "/tmp/seedtest-$id-$$.out" 2>"/tmp/seedtest-$id-$$.err"; rc=$?
grep -E "^VIOLATION|^KNOWN-FINDING" "/tmp/seedtest-$id-$$.out"
tail -1 "/tmp/seedtest-$id-$$.err"
[ $rc -eq 0 ] && echo "MISSED $id $patch"
git -C /repo worktree remove --force "$wt"; h=$(printf %s "$wt" | sha1sum | cut -c1-8); rm -rf "/verif/run/$id-$h" "/verif/run/alt-$h" "/tmp/seedtest-$id-$$.out" "/tmp/seedtest-$id-$$.err"
exit $rc
