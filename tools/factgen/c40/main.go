// Command c40 regenerates lean/Vgi/Generated/C40.lean: for the fields that concurrent HTTP
// requests share (transport binding, protocol hash, pre-rendered pages, health body, sticky
// registry, call-state cache, nonce cache, introspection rate limiter) every read/write site with
// the mutex region or sync.Once body it sits in, plus the structural facts the C40 model relies on.
package main

import (
	"flag"
	"fmt"
	"go/ast"
	"go/parser"
	"go/token"
	"os"
	"path/filepath"
	"sort"
	"strings"

	"factgen/lockset"
)

type owner struct {
	typ       string
	mutex     map[string]string // field -> mutex field
	once      map[string]string // field -> Once field
	onceFuncs map[string]string // method used as Once body -> Once field
	postInit  map[string]bool   // methods reachable only after InitPages (mux routes registered by it)
}

var owners = []owner{
	{typ: "Server",
		mutex: map[string]string{"transportKind": "transportMu", "transportCapabilities": "transportMu", "serveStartHook": "transportMu"},
		once:  map[string]string{"protocolHash": "protocolHashOnce"}},
	{typ: "HttpServer",
		once:      map[string]string{"healthBody": "healthBodyOnce", "landingHTML": "initPagesOnce", "describeHTML": "initPagesOnce", "notFoundHTML": "initPagesOnce"},
		onceFuncs: map[string]string{"initPages": "initPagesOnce"},
		postInit:  map[string]bool{"handleLandingPage": true, "handleDescribePage": true, "handleNotFound": true}},
	{typ: "sessionRegistry", mutex: map[string]string{"entries": "mu", "draining": "mu"}},
	{typ: "callStateCache", mutex: map[string]string{"entries": "mu", "order": "mu"}},
	{typ: "nonceCache", mutex: map[string]string{"entries": "mu", "order": "mu"}},
	{typ: "introspectRateLimiter", mutex: map[string]string{"counts": "mu", "windowStart": "mu"}},
}

type access struct {
	lockset.Access
	afterDo  bool
	postInit bool
}

func recvOf(fd *ast.FuncDecl) (name, typ string) {
	if fd.Recv == nil || len(fd.Recv.List) != 1 {
		return "", ""
	}
	f := fd.Recv.List[0]
	if len(f.Names) == 1 {
		name = f.Names[0].Name
	}
	t := f.Type
	if st, ok := t.(*ast.StarExpr); ok {
		t = st.X
	}
	if id, ok := t.(*ast.Ident); ok {
		typ = id.Name
	}
	return
}

func main() {
	repo := flag.String("repo", "/repo", "")
	out := flag.String("out", "", "")
	flag.Parse()
	fset := token.NewFileSet()
	dir := filepath.Join(*repo, "vgirpc")
	ents, err := os.ReadDir(dir)
	if err != nil {
		fmt.Fprintln(os.Stderr, err)
		os.Exit(1)
	}
	var accs []access
	funcs := map[string]*ast.FuncDecl{} // "Type.method"
	srcOf := map[string]string{}
	for _, e := range ents {
		n := e.Name()
		if !strings.HasSuffix(n, ".go") || strings.HasSuffix(n, "_test.go") {
			continue
		}
		raw, err := os.ReadFile(filepath.Join(dir, n))
		if err != nil {
			continue
		}
		if strings.Contains(string(raw[:min(len(raw), 400)]), "go:build verif") {
			continue
		}
		f, err := parser.ParseFile(fset, filepath.Join(dir, n), raw, 0)
		if err != nil {
			fmt.Fprintln(os.Stderr, err)
			os.Exit(1)
		}
		for _, d := range f.Decls {
			fd, ok := d.(*ast.FuncDecl)
			if !ok || fd.Body == nil {
				continue
			}
			rn, rt := recvOf(fd)
			funcs[rt+"."+fd.Name.Name] = fd
			srcOf[rt+"."+fd.Name.Name] = n
			for _, o := range owners {
				if o.typ != rt || rn == "" {
					continue
				}
				o := o
				locks := map[string]bool{}
				for _, m := range o.mutex {
					locks[rn+"."+m] = true
				}
				cfg := lockset.Config{Fset: fset, File: n, Locks: locks,
					Guarded: func(e ast.Expr) string {
						sel, ok := e.(*ast.SelectorExpr)
						if !ok {
							return ""
						}
						x, ok := sel.X.(*ast.Ident)
						if !ok || x.Name != rn {
							return ""
						}
						if _, ok := o.mutex[sel.Sel.Name]; ok {
							return o.typ + "." + sel.Sel.Name
						}
						if _, ok := o.once[sel.Sel.Name]; ok {
							return o.typ + "." + sel.Sel.Name
						}
						return ""
					}}
				if on, ok := o.onceFuncs[fd.Name.Name]; ok {
					cfg.InitialOnce = rn + "." + on
				}
				// lines of `recv.<once>.Do(` calls in this function
				doLine := map[string]int{}
				ast.Inspect(fd.Body, func(nd ast.Node) bool {
					if c, ok := nd.(*ast.CallExpr); ok {
						if sel, ok := c.Fun.(*ast.SelectorExpr); ok && sel.Sel.Name == "Do" {
							k := strings.TrimPrefix(lockset.Str(fset, sel.X), rn+".")
							if _, seen := doLine[k]; !seen {
								doLine[k] = fset.Position(c.End()).Line
							}
						}
					}
					return true
				})
				for _, a := range lockset.Analyze(cfg, fd) {
					a.Func = o.typ + "." + a.Func
					a.Once = strings.TrimPrefix(a.Once, rn+".")
					for i := range a.Held {
						a.Held[i] = strings.TrimPrefix(a.Held[i], rn+".")
					}
					x := access{Access: a}
					fld := strings.TrimPrefix(a.Field, o.typ+".")
					if on, ok := o.once[fld]; ok {
						if l, seen := doLine[on]; seen && a.Line >= l && a.Once == "" {
							x.afterDo = true
						}
						x.postInit = o.postInit[fd.Name.Name]
					}
					accs = append(accs, x)
				}
			}
		}
	}
	// second pass: the uniquely named shared fields must not be touched from anywhere else (another
	// type's method reaching through h.server.…, a free function, …): such an access bypasses the
	// accessor and is recorded with no guard at all
	unique := map[string]string{}
	for _, o := range owners {
		for f := range o.once {
			unique[f] = o.typ
		}
	}
	for _, f := range []string{"transportKind", "transportCapabilities", "serveStartHook"} {
		unique[f] = "Server"
	}
	type key struct {
		file string
		line int
		fld  string
	}
	seen := map[key]bool{}
	for _, a := range accs {
		seen[key{a.File, a.Line, a.Field}] = true
	}
	fnames := make([]string, 0, len(funcs))
	for k := range funcs {
		fnames = append(fnames, k)
	}
	sort.Strings(fnames)
	for _, fk := range fnames {
		fd := funcs[fk]
		ast.Inspect(fd.Body, func(nd ast.Node) bool {
			sel, ok := nd.(*ast.SelectorExpr)
			if !ok {
				return true
			}
			typ, isU := unique[sel.Sel.Name]
			if !isU {
				return true
			}
			k := key{srcOf[fk], fset.Position(sel.Pos()).Line, typ + "." + sel.Sel.Name}
			if seen[k] {
				return true
			}
			seen[k] = true
			accs = append(accs, access{Access: lockset.Access{File: k.file, Func: fk, Field: k.fld, Line: k.line}})
			return true
		})
	}
	sort.SliceStable(accs, func(i, j int) bool {
		if accs[i].File != accs[j].File {
			return accs[i].File < accs[j].File
		}
		return accs[i].Line < accs[j].Line
	})

	// ---- structural facts
	type fact struct {
		name string
		ok   bool
		why  string
	}
	var facts []fact
	pos := func(fd *ast.FuncDecl, needle string) token.Pos {
		var p token.Pos = token.NoPos
		if fd == nil {
			return p
		}
		ast.Inspect(fd.Body, func(nd ast.Node) bool {
			if c, ok := nd.(*ast.CallExpr); ok && p == token.NoPos {
				if strings.HasPrefix(strings.ReplaceAll(lockset.Str(fset, c), " ", ""), needle) {
					p = c.Pos()
				}
			}
			return true
		})
		return p
	}
	sh := funcs["HttpServer.ServeHTTP"]
	pn, pi, pm := pos(sh, "h.server.notifyTransport("), pos(sh, "h.InitPages("), pos(sh, "h.mux.ServeHTTP(")
	facts = append(facts, fact{"ServeHTTP.notifyTransport_then_InitPages_then_mux", sh != nil && pn != token.NoPos && pi != token.NoPos && pm != token.NoPos && pn < pi && pi < pm,
		"h.server.notifyTransport(…) < h.InitPages() < h.mux.ServeHTTP(…)"})
	nt := funcs["Server.notifyTransport"]
	okGate, okOrder, okRet := false, false, false
	if nt != nil && len(nt.Body.List) >= 2 {
		s0 := strings.ReplaceAll(lockset.Str(fset, nt.Body.List[0]), " ", "")
		s1 := strings.ReplaceAll(lockset.Str(fset, nt.Body.List[1]), " ", "")
		okGate = s0 == "s.transportNotifyMu.Lock()" && s1 == "defers.transportNotifyMu.Unlock()"
		ph := pos(nt, "hook(")
		var pc token.Pos = token.NoPos
		ast.Inspect(nt.Body, func(nd ast.Node) bool {
			if as, ok := nd.(*ast.AssignStmt); ok && len(as.Lhs) == 1 && lockset.Str(fset, as.Lhs[0]) == "s.transportKind" {
				pc = as.Pos()
			}
			return true
		})
		okOrder = ph != token.NoPos && pc != token.NoPos && ph < pc
		// the hook's error returns before the commit
		ast.Inspect(nt.Body, func(nd ast.Node) bool {
			if is, ok := nd.(*ast.IfStmt); ok && is.Init != nil && strings.Contains(lockset.Str(fset, is.Init), "hook(") &&
				strings.Contains(strings.ReplaceAll(lockset.Str(fset, is.Cond), " ", ""), "err!=nil") {
				for _, st := range is.Body.List {
					if r, ok := st.(*ast.ReturnStmt); ok && len(r.Results) == 1 && lockset.Str(fset, r.Results[0]) == "err" {
						okRet = true
					}
				}
			}
			return true
		})
	}
	facts = append(facts,
		fact{"notifyTransport.gate_held_for_whole_transaction", okGate, "s.transportNotifyMu.Lock(); defer s.transportNotifyMu.Unlock() are the first two statements"},
		fact{"notifyTransport.commit_after_hook", okOrder, "hook(kind, caps) precedes s.transportKind = kind"},
		fact{"notifyTransport.hook_error_returns_without_commit", okRet, "if err := hook(…); err != nil { … return err }"})
	// the Once cells are used through Do
	for _, want := range []struct{ fn, call string }{
		{"Server.ProtocolHash", "s.protocolHashOnce.Do("}, {"HttpServer.handleHealth", "h.healthBodyOnce.Do("}, {"HttpServer.InitPages", "h.initPagesOnce.Do(h.initPages)"}} {
		facts = append(facts, fact{want.fn + ".uses_once", pos(funcs[want.fn], want.call) != token.NoPos, want.call + "…)"})
	}
	// pooled codec writers: the pool registry is a sync.Map filled with LoadOrStore
	cp := funcs[".codecPool"]
	facts = append(facts, fact{"codecPool.pools_are_published_with_LoadOrStore", cp != nil && strings.Contains(lockset.Str(fset, cp.Body), "codecWriterPools.LoadOrStore("), "codecWriterPools.LoadOrStore(key, p)"})

	// ---- output
	var b strings.Builder
	b.WriteString("/-! GENERATED by tools/factgen/c40 from /repo/vgirpc/*.go (non-test, non-verif) — do not edit. -/\n")
	b.WriteString("namespace Vgi.Generated.C40\n\n")
	b.WriteString("structure Access where\n  file : String\n  fn : String\n  field : String\n  line : Nat\n  write : Bool\n  held : List String\n  once : String\n  afterDo : Bool\n  postInit : Bool\n  deriving Repr\n\n")
	b.WriteString("inductive Guard\n  | mutex (l : String)\n  | once (o : String)\n  | unknown\n\n")
	b.WriteString("/-- The designated guard of each shared field. -/\ndef designated : String → Guard\n")
	var fields []string
	for _, o := range owners {
		var fs []string
		for f := range o.mutex {
			fs = append(fs, f)
		}
		for f := range o.once {
			fs = append(fs, f)
		}
		sort.Strings(fs)
		for _, f := range fs {
			full := o.typ + "." + f
			fields = append(fields, full)
			if m, ok := o.mutex[f]; ok {
				fmt.Fprintf(&b, "  | %s => .mutex %s\n", lockset.LeanString(full), lockset.LeanString(m))
			} else {
				fmt.Fprintf(&b, "  | %s => .once %s\n", lockset.LeanString(full), lockset.LeanString(o.once[f]))
			}
		}
	}
	b.WriteString("  | _ => .unknown\n\n")
	fmt.Fprintf(&b, "def fields : List String := %s\n\n", lockset.LeanStrings(fields))
	b.WriteString("/-- The lock-set / Once discipline for one access. -/\ndef ok (a : Access) : Bool :=\n  match designated a.field with\n  | .mutex l => a.held.contains l\n  | .once o => a.once == o || (!a.write && (a.afterDo || a.postInit))\n  | .unknown => false\n\n")
	b.WriteString("def accesses : List Access := [\n")
	for i, a := range accs {
		sep := ","
		if i == len(accs)-1 {
			sep = ""
		}
		fmt.Fprintf(&b, "  ⟨%s, %s, %s, %d, %v, %s, %s, %v, %v⟩%s\n", lockset.LeanString(a.File), lockset.LeanString(a.Func), lockset.LeanString(a.Field),
			a.Line, a.Write, lockset.LeanStrings(a.Held), lockset.LeanString(a.Once), a.afterDo, a.postInit, sep)
	}
	b.WriteString("]\n\ndef facts : List (String × Bool) := [\n")
	for i, f := range facts {
		sep := ","
		if i == len(facts)-1 {
			sep = ""
		}
		fmt.Fprintf(&b, "  (%s, %v)%s  -- %s\n", lockset.LeanString(f.name), f.ok, sep, f.why)
	}
	b.WriteString("]\n\nend Vgi.Generated.C40\n")
	if err := os.WriteFile(*out, []byte(b.String()), 0o644); err != nil {
		fmt.Fprintln(os.Stderr, err)
		os.Exit(1)
	}
}
