// factgen/c22: structural facts for C22 regenerated from /repo's CURRENT source (go/ast only).
//
//   - every `<x>.mux.HandleFunc(pattern, handler)` / `.mux.Handle(...)` registration in package
//     vgirpc (non-test, non-verif files): registering function, guarding `if` conditions, the
//     pattern (format string evaluated symbolically: `h.prefix` stays a placeholder, constants and
//     one-line helper functions such as wellKnownURL are evaluated) tokenised into verb / segments /
//     tail, and the handler expression (method value, wrapped method value, parameter);
//   - for every handler method named by a registration: does a top-level statement of its body call
//     `h.authenticate(w, r)`, does a nil result return immediately, and which statements run before
//     that call (classified: configRead / pathValueRead / nilGuard / other);
//   - the `h.handle*` methods that ServeHTTP calls directly (bypassing the mux) with their guards.
//
// Output: lean/Vgi/Generated/C22.lean (namespace Vgi.Generated.C22, `def table : Table`).
// Anything the extractor cannot interpret is emitted in a form the Lean side does not recognise
// (or the tool exits non-zero), so it can never be silently dropped.
package main

import (
	"bytes"
	"flag"
	"fmt"
	"go/ast"
	"go/parser"
	"go/printer"
	"go/token"
	"os"
	"path/filepath"
	"sort"
	"strconv"
	"strings"
)

const pfxMark = "\x00"

var fset = token.NewFileSet()

type cond struct {
	neg  bool
	text string
}

type route struct {
	registrar string
	conds     []cond
	pattern   string // evaluated pattern with pfxMark, or "" when operator
	operator  bool
	unknown   string // non-empty: pattern expression could not be evaluated
	handler   string
	wrapper   string
	pos       token.Pos
}

type handlerFact struct {
	name     string
	hasAuth  bool
	guarded  bool
	kinds    []string // Lean terms
	texts    []string
	found    bool
	position string
}

type pkg struct {
	files  []*ast.File
	consts map[string]string
	funcs  map[string]*ast.FuncDecl // package-level functions
	meths  map[string]*ast.FuncDecl // methods on *HttpServer / HttpServer
}

func die(format string, a ...any) {
	fmt.Fprintf(os.Stderr, "factgen c22: "+format+"\n", a...)
	os.Exit(1)
}

func render(n ast.Node) string {
	var b bytes.Buffer
	if err := printer.Fprint(&b, fset, n); err != nil {
		return "<unprintable>"
	}
	return strings.Join(strings.Fields(b.String()), " ")
}

func leanStr(s string) string {
	var b strings.Builder
	b.WriteByte('"')
	for _, r := range s {
		switch {
		case r == '"':
			b.WriteString("\\\"")
		case r == '\\':
			b.WriteString("\\\\")
		case r >= 0x20 && r < 0x7f:
			b.WriteRune(r)
		default:
			b.WriteByte('?') // documentation text only: keep the generated file plain ASCII
		}
	}
	b.WriteByte('"')
	return b.String()
}

func recvIsHttpServer(fd *ast.FuncDecl) (string, bool) {
	if fd.Recv == nil || len(fd.Recv.List) != 1 {
		return "", false
	}
	t := fd.Recv.List[0].Type
	if st, ok := t.(*ast.StarExpr); ok {
		t = st.X
	}
	id, ok := t.(*ast.Ident)
	if !ok || id.Name != "HttpServer" {
		return "", false
	}
	if len(fd.Recv.List[0].Names) == 0 {
		return "_", true
	}
	return fd.Recv.List[0].Names[0].Name, true
}

func load(dir string) *pkg {
	p := &pkg{consts: map[string]string{}, funcs: map[string]*ast.FuncDecl{}, meths: map[string]*ast.FuncDecl{}}
	ents, err := os.ReadDir(dir)
	if err != nil {
		die("%v", err)
	}
	for _, e := range ents {
		n := e.Name()
		if !strings.HasSuffix(n, ".go") || strings.HasSuffix(n, "_test.go") || strings.HasPrefix(n, "verif_") {
			continue
		}
		src, err := os.ReadFile(filepath.Join(dir, n))
		if err != nil {
			die("%v", err)
		}
		if bytes.Contains(src, []byte("//go:build verif")) {
			continue
		}
		f, err := parser.ParseFile(fset, filepath.Join(dir, n), src, 0)
		if err != nil {
			die("%v", err)
		}
		if f.Name.Name != "vgirpc" {
			continue
		}
		p.files = append(p.files, f)
	}
	for _, f := range p.files {
		for _, d := range f.Decls {
			switch d := d.(type) {
			case *ast.GenDecl:
				if d.Tok != token.CONST {
					continue
				}
				for _, s := range d.Specs {
					vs := s.(*ast.ValueSpec)
					for i, n := range vs.Names {
						if i < len(vs.Values) {
							if bl, ok := vs.Values[i].(*ast.BasicLit); ok && bl.Kind == token.STRING {
								if v, err := strconv.Unquote(bl.Value); err == nil {
									p.consts[n.Name] = v
								}
							}
						}
					}
				}
			case *ast.FuncDecl:
				if d.Recv == nil {
					p.funcs[d.Name.Name] = d
				} else if _, ok := recvIsHttpServer(d); ok {
					p.meths[d.Name.Name] = d
				}
			}
		}
	}
	return p
}

// evalStr evaluates a string-valued expression symbolically. recv is the receiver identifier of the
// enclosing method (so recv.prefix becomes the placeholder), env binds parameter names.
func (p *pkg) evalStr(e ast.Expr, recv string, env map[string]string, depth int) (string, bool) {
	if depth > 6 {
		return "", false
	}
	switch e := e.(type) {
	case *ast.BasicLit:
		if e.Kind == token.STRING {
			v, err := strconv.Unquote(e.Value)
			return v, err == nil
		}
	case *ast.ParenExpr:
		return p.evalStr(e.X, recv, env, depth+1)
	case *ast.Ident:
		if v, ok := env[e.Name]; ok {
			return v, true
		}
		if v, ok := p.consts[e.Name]; ok {
			return v, true
		}
	case *ast.SelectorExpr:
		if id, ok := e.X.(*ast.Ident); ok && id.Name == recv && e.Sel.Name == "prefix" {
			return pfxMark, true
		}
	case *ast.BinaryExpr:
		if e.Op == token.ADD {
			a, ok1 := p.evalStr(e.X, recv, env, depth+1)
			b, ok2 := p.evalStr(e.Y, recv, env, depth+1)
			return a + b, ok1 && ok2
		}
	case *ast.CallExpr:
		// fmt.Sprintf("...%s...", args...)
		if se, ok := e.Fun.(*ast.SelectorExpr); ok {
			if id, ok := se.X.(*ast.Ident); ok && id.Name == "fmt" && se.Sel.Name == "Sprintf" && len(e.Args) >= 1 {
				format, ok := p.evalStr(e.Args[0], recv, env, depth+1)
				if !ok {
					return "", false
				}
				parts := strings.Split(format, "%s")
				if len(parts)-1 != len(e.Args)-1 || strings.Contains(strings.ReplaceAll(format, "%s", ""), "%") {
					return "", false
				}
				out := parts[0]
				for i, a := range e.Args[1:] {
					v, ok := p.evalStr(a, recv, env, depth+1)
					if !ok {
						return "", false
					}
					out += v + parts[i+1]
				}
				return out, true
			}
		}
		// one-line package-level helper: func f(a, b string) string { return <expr> }
		if id, ok := e.Fun.(*ast.Ident); ok {
			fd := p.funcs[id.Name]
			if fd == nil || fd.Body == nil || len(fd.Body.List) != 1 {
				return "", false
			}
			rs, ok := fd.Body.List[0].(*ast.ReturnStmt)
			if !ok || len(rs.Results) != 1 {
				return "", false
			}
			var names []string
			for _, f := range fd.Type.Params.List {
				for _, n := range f.Names {
					names = append(names, n.Name)
				}
			}
			if len(names) != len(e.Args) {
				return "", false
			}
			env2 := map[string]string{}
			for i, a := range e.Args {
				v, ok := p.evalStr(a, recv, env, depth+1)
				if !ok {
					return "", false
				}
				env2[names[i]] = v
			}
			return p.evalStr(rs.Results[0], "", env2, depth+1)
		}
	}
	return "", false
}

// ---------------------------------------------------------------- statement walking with guards

type visitFn func(call *ast.CallExpr, conds []cond)

// walkCalls visits every call expression under stmts together with the stack of enclosing `if`
// conditions (else-branches get the negated condition; other control flow adds an opaque guard).
func walkCalls(stmts []ast.Stmt, conds []cond, visit visitFn) {
	inspect := func(n ast.Node, cs []cond) {
		if n == nil {
			return
		}
		ast.Inspect(n, func(x ast.Node) bool {
			if _, ok := x.(*ast.FuncLit); ok {
				// calls inside closures run later / elsewhere: report them under an opaque guard
				fl := x.(*ast.FuncLit)
				walkCalls(fl.Body.List, append(append([]cond{}, cs...), cond{false, "<closure>"}), visit)
				return false
			}
			if c, ok := x.(*ast.CallExpr); ok {
				visit(c, cs)
			}
			return true
		})
	}
	for _, s := range stmts {
		switch s := s.(type) {
		case *ast.BlockStmt:
			walkCalls(s.List, conds, visit)
		case *ast.IfStmt:
			if s.Init != nil {
				inspect(s.Init, conds)
			}
			inspect(s.Cond, conds)
			ct := render(s.Cond)
			if s.Init != nil {
				ct = render(s.Init) + "; " + ct
			}
			walkCalls(s.Body.List, append(append([]cond{}, conds...), cond{false, ct}), visit)
			if s.Else != nil {
				walkCalls([]ast.Stmt{s.Else}, append(append([]cond{}, conds...), cond{true, ct}), visit)
			}
		case *ast.ForStmt:
			walkCalls(s.Body.List, append(append([]cond{}, conds...), cond{false, "<for>"}), visit)
		case *ast.RangeStmt:
			inspect(s.X, conds)
			walkCalls(s.Body.List, append(append([]cond{}, conds...), cond{false, "<range>"}), visit)
		case *ast.SwitchStmt, *ast.TypeSwitchStmt, *ast.SelectStmt:
			inspect(s, append(append([]cond{}, conds...), cond{false, "<switch>"}))
		case *ast.LabeledStmt:
			walkCalls([]ast.Stmt{s.Stmt}, conds, visit)
		default:
			inspect(s, conds)
		}
	}
}

func isMuxRegistration(c *ast.CallExpr) bool {
	se, ok := c.Fun.(*ast.SelectorExpr)
	if !ok || (se.Sel.Name != "HandleFunc" && se.Sel.Name != "Handle") || len(c.Args) != 2 {
		return false
	}
	inner, ok := se.X.(*ast.SelectorExpr)
	return ok && inner.Sel.Name == "mux"
}

type alt struct {
	expr  ast.Expr
	extra []cond
}

func condsHavePrefix(cs, prefix []cond) bool {
	if len(cs) < len(prefix) {
		return false
	}
	for i := range prefix {
		if cs[i] != prefix[i] {
			return false
		}
	}
	return true
}

// localAlternatives resolves a local variable used at a registration site: one `v := E0` in scope
// plus any number of later single-condition overrides `if C { v = E1 }` (no else).
func localAlternatives(fd *ast.FuncDecl, name string, at token.Pos, siteConds []cond) ([]alt, bool) {
	type asg struct {
		expr  ast.Expr
		conds []cond
		pos   token.Pos
	}
	var asgs []asg
	var rec func(stmts []ast.Stmt, conds []cond) bool
	rec = func(stmts []ast.Stmt, conds []cond) bool {
		for _, s := range stmts {
			switch s := s.(type) {
			case *ast.AssignStmt:
				for i, l := range s.Lhs {
					if id, ok := l.(*ast.Ident); ok && id.Name == name {
						if len(s.Lhs) != len(s.Rhs) {
							return false
						}
						asgs = append(asgs, asg{s.Rhs[i], append([]cond{}, conds...), s.Pos()})
					}
				}
			case *ast.DeclStmt:
				// var v = E
				if gd, ok := s.Decl.(*ast.GenDecl); ok {
					for _, sp := range gd.Specs {
						if vs, ok := sp.(*ast.ValueSpec); ok {
							for i, n := range vs.Names {
								if n.Name == name {
									if i >= len(vs.Values) {
										return false
									}
									asgs = append(asgs, asg{vs.Values[i], append([]cond{}, conds...), s.Pos()})
								}
							}
						}
					}
				}
			case *ast.BlockStmt:
				if !rec(s.List, conds) {
					return false
				}
			case *ast.IfStmt:
				ct := render(s.Cond)
				if s.Init != nil {
					ct = render(s.Init) + "; " + ct
				}
				if !rec(s.Body.List, append(append([]cond{}, conds...), cond{false, ct})) {
					return false
				}
				if s.Else != nil {
					if !rec([]ast.Stmt{s.Else}, append(append([]cond{}, conds...), cond{true, ct})) {
						return false
					}
				}
			case *ast.ForStmt:
				if !rec(s.Body.List, append(append([]cond{}, conds...), cond{false, "<for>"})) {
					return false
				}
			case *ast.RangeStmt:
				if !rec(s.Body.List, append(append([]cond{}, conds...), cond{false, "<range>"})) {
					return false
				}
			}
		}
		return true
	}
	if !rec(fd.Body.List, nil) {
		return nil, false
	}
	var before []asg
	for _, a := range asgs {
		if a.pos < at {
			before = append(before, a)
		}
	}
	if len(before) == 0 {
		return nil, false
	}
	base := before[0]
	if !condsHavePrefix(siteConds, base.conds) {
		return nil, false
	}
	var alts []alt
	var negs []cond
	// later overrides win: walk from the last one backwards
	for i := len(before) - 1; i >= 1; i-- {
		o := before[i]
		if !condsHavePrefix(o.conds, base.conds) {
			return nil, false
		}
		extra := o.conds[len(base.conds):]
		// the override must either be guarded by site conditions already, or by exactly one more
		var own []cond
		for _, c := range extra {
			inSite := false
			for _, sc := range siteConds {
				if sc == c {
					inSite = true
				}
			}
			if !inSite {
				own = append(own, c)
			}
		}
		if len(own) > 1 {
			return nil, false
		}
		alts = append(alts, alt{o.expr, append(append([]cond{}, negs...), own...)})
		if len(own) == 0 {
			// unconditional override (at the site's guard level): earlier assignments are dead
			return alts, true
		}
		negs = append(negs, cond{!own[0].neg, own[0].text})
	}
	alts = append(alts, alt{base.expr, negs})
	return alts, true
}

func paramNames(fd *ast.FuncDecl) map[string]bool {
	m := map[string]bool{}
	for _, f := range fd.Type.Params.List {
		for _, n := range f.Names {
			m[n.Name] = true
		}
	}
	return m
}

func (p *pkg) collectRoutes() []route {
	var routes []route
	var decls []*ast.FuncDecl
	for _, f := range p.files {
		for _, d := range f.Decls {
			if fd, ok := d.(*ast.FuncDecl); ok && fd.Body != nil {
				decls = append(decls, fd)
			}
		}
	}
	for _, fd := range decls {
		recv, _ := recvIsHttpServer(fd)
		params := paramNames(fd)
		walkCalls(fd.Body.List, nil, func(c *ast.CallExpr, conds []cond) {
			if !isMuxRegistration(c) {
				return
			}
			// pattern alternatives
			type palt struct {
				pattern  string
				operator bool
				unknown  string
				extra    []cond
			}
			var pats []palt
			addPat := func(e ast.Expr, extra []cond) {
				if v, ok := p.evalStr(e, recv, nil, 0); ok {
					pats = append(pats, palt{pattern: v, extra: extra})
				} else {
					pats = append(pats, palt{unknown: render(e), extra: extra})
				}
			}
			if id, ok := c.Args[0].(*ast.Ident); ok && p.consts[id.Name] == "" {
				if params[id.Name] {
					pats = append(pats, palt{operator: true})
				} else if alts, ok := localAlternatives(fd, id.Name, c.Pos(), conds); ok {
					for _, a := range alts {
						addPat(a.expr, a.extra)
					}
				} else {
					pats = append(pats, palt{unknown: "local " + id.Name})
				}
			} else {
				addPat(c.Args[0], nil)
			}
			// handler alternatives
			type halt struct {
				name, wrapper string
				extra         []cond
			}
			var hs []halt
			var addH func(e ast.Expr, extra []cond, depth int)
			addH = func(e ast.Expr, extra []cond, depth int) {
				switch e := e.(type) {
				case *ast.SelectorExpr:
					if id, ok := e.X.(*ast.Ident); ok && id.Name == recv {
						hs = append(hs, halt{name: e.Sel.Name, extra: extra})
						return
					}
				case *ast.CallExpr:
					// recv.wrapX(recv.handleY)
					if se, ok := e.Fun.(*ast.SelectorExpr); ok && len(e.Args) == 1 {
						if id, ok := se.X.(*ast.Ident); ok && id.Name == recv {
							if in, ok := e.Args[0].(*ast.SelectorExpr); ok {
								if id2, ok := in.X.(*ast.Ident); ok && id2.Name == recv {
									hs = append(hs, halt{name: in.Sel.Name, wrapper: se.Sel.Name, extra: extra})
									return
								}
							}
						}
					}
				case *ast.Ident:
					if params[e.Name] {
						hs = append(hs, halt{name: "<param>", extra: extra})
						return
					}
					if depth == 0 {
						if alts, ok := localAlternatives(fd, e.Name, c.Pos(), conds); ok {
							for _, a := range alts {
								addH(a.expr, append(append([]cond{}, extra...), a.extra...), 1)
							}
							return
						}
					}
				}
				hs = append(hs, halt{name: "<expr " + render(e) + ">", extra: extra})
			}
			addH(c.Args[1], nil, 0)
			for _, pa := range pats {
				for _, h := range hs {
					cs := append(append(append([]cond{}, conds...), pa.extra...), h.extra...)
					// drop duplicate conditions; drop contradictory alternatives
					var uniq []cond
					contradictory := false
					for _, c1 := range cs {
						dup := false
						for _, c2 := range uniq {
							if c1 == c2 {
								dup = true
							}
							if c1.text == c2.text && c1.neg != c2.neg {
								contradictory = true
							}
						}
						if !dup {
							uniq = append(uniq, c1)
						}
					}
					if contradictory {
						continue
					}
					routes = append(routes, route{registrar: fd.Name.Name, conds: uniq, pattern: pa.pattern,
						operator: pa.operator, unknown: pa.unknown, handler: h.name, wrapper: h.wrapper, pos: c.Pos()})
				}
			}
		})
	}
	sort.SliceStable(routes, func(i, j int) bool {
		pi, pj := fset.Position(routes[i].pos), fset.Position(routes[j].pos)
		if pi.Filename != pj.Filename {
			return pi.Filename < pj.Filename
		}
		return pi.Offset < pj.Offset
	})
	return routes
}

// patternLean tokenises an evaluated pattern ("POST \x00/{method}/init") into the Lean term.
func patternLean(r route) string {
	if r.operator {
		return ".operator"
	}
	if r.unknown != "" {
		// not interpretable: a pattern no request can be shown to match; the Lean side refuses it
		return fmt.Sprintf(".pat (some %s) [] .exact", leanStr("<unknown pattern: "+r.unknown+">"))
	}
	s := r.pattern
	verb := "none"
	if i := strings.IndexAny(s, " \t"); i >= 0 {
		verb = "(some " + leanStr(s[:i]) + ")"
		s = strings.TrimLeft(s[i:], " \t")
	}
	// host part is not used by this package; a pattern not starting with "/" or the prefix is refused
	if !(strings.HasPrefix(s, "/") || strings.HasPrefix(s, pfxMark)) {
		return fmt.Sprintf(".pat (some %s) [] .exact", leanStr("<pattern with host or empty path: "+strings.ReplaceAll(r.pattern, pfxMark, "{prefix}")+">"))
	}
	// make the placeholder its own segment
	s = strings.ReplaceAll(s, pfxMark, "/"+pfxMark+"/")
	raw := strings.Split(s, "/")
	trailing := strings.HasSuffix(s, "/") && !strings.HasSuffix(r.pattern, pfxMark)
	var segs []string
	tail := ".exact"
	var parts []string
	for _, x := range raw {
		if x != "" {
			parts = append(parts, x)
		}
	}
	for i, x := range parts {
		switch {
		case x == pfxMark:
			segs = append(segs, ".pfx")
		case x == "{$}" && i == len(parts)-1:
			tail = ".dollar"
			trailing = false
		case strings.HasPrefix(x, "{") && strings.HasSuffix(x, "...}") && i == len(parts)-1:
			tail = ".subtree"
			trailing = false
		case strings.HasPrefix(x, "{") && strings.HasSuffix(x, "}"):
			segs = append(segs, ".wild")
		default:
			segs = append(segs, ".lit "+leanStr(x))
		}
	}
	if trailing {
		tail = ".subtree"
	}
	return fmt.Sprintf(".pat %s [%s] %s", verb, strings.Join(segs, ", "), tail)
}

// ---------------------------------------------------------------- handler facts

func isAuthCall(e ast.Expr, recv string) bool {
	c, ok := e.(*ast.CallExpr)
	if !ok {
		return false
	}
	se, ok := c.Fun.(*ast.SelectorExpr)
	if !ok || se.Sel.Name != "authenticate" {
		return false
	}
	id, ok := se.X.(*ast.Ident)
	return ok && id.Name == recv
}

func containsAuthCall(n ast.Node, recv string) bool {
	found := false
	ast.Inspect(n, func(x ast.Node) bool {
		if e, ok := x.(ast.Expr); ok && isAuthCall(e, recv) {
			found = true
		}
		return !found
	})
	return found
}

func isBareReturnBlock(b *ast.BlockStmt) bool {
	if b == nil || len(b.List) != 1 {
		return false
	}
	rs, ok := b.List[0].(*ast.ReturnStmt)
	return ok && len(rs.Results) == 0
}

func isNilCompare(e ast.Expr) (ast.Expr, bool) {
	be, ok := e.(*ast.BinaryExpr)
	if !ok || be.Op != token.EQL {
		return nil, false
	}
	if id, ok := be.Y.(*ast.Ident); ok && id.Name == "nil" {
		return be.X, true
	}
	if id, ok := be.X.(*ast.Ident); ok && id.Name == "nil" {
		return be.Y, true
	}
	return nil, false
}

func argsAreHandlerParams(c *ast.CallExpr, w, r string) bool {
	if len(c.Args) != 2 {
		return false
	}
	a, ok1 := c.Args[0].(*ast.Ident)
	b, ok2 := c.Args[1].(*ast.Ident)
	return ok1 && ok2 && a.Name == w && b.Name == r
}

func hasCallOtherThanFmt(n ast.Node) bool {
	bad := false
	ast.Inspect(n, func(x ast.Node) bool {
		if c, ok := x.(*ast.CallExpr); ok {
			if se, ok := c.Fun.(*ast.SelectorExpr); ok {
				if id, ok := se.X.(*ast.Ident); ok && id.Name == "fmt" {
					return true
				}
			}
			bad = true
		}
		return !bad
	})
	return bad
}

// isRefusalBlock: every statement but the last writes a refusal on the ResponseWriter parameter w
// (http.NotFound / http.Error / w.WriteHeader / a package-level write* helper taking w first), the
// last one is a bare return.
func (p *pkg) isRefusalBlock(b *ast.BlockStmt, w string) bool {
	if b == nil || len(b.List) == 0 {
		return false
	}
	last, ok := b.List[len(b.List)-1].(*ast.ReturnStmt)
	if !ok || len(last.Results) != 0 {
		return false
	}
	for _, s := range b.List[:len(b.List)-1] {
		es, ok := s.(*ast.ExprStmt)
		if !ok {
			return false
		}
		c, ok := es.X.(*ast.CallExpr)
		if !ok || len(c.Args) == 0 {
			return false
		}
		okFn := false
		switch f := c.Fun.(type) {
		case *ast.SelectorExpr:
			if id, ok := f.X.(*ast.Ident); ok {
				if id.Name == "http" && (f.Sel.Name == "NotFound" || f.Sel.Name == "Error") {
					okFn = true
				}
				if id.Name == w && f.Sel.Name == "WriteHeader" {
					okFn = true
					goto argsCheck
				}
			}
		case *ast.Ident:
			if p.funcs[f.Name] != nil && strings.HasPrefix(f.Name, "write") {
				okFn = true
			}
		}
		if !okFn {
			return false
		}
		if id, ok := c.Args[0].(*ast.Ident); !ok || id.Name != w {
			return false
		}
	argsCheck:
		for _, a := range c.Args {
			if hasCallOtherThanFmt(a) {
				return false
			}
		}
	}
	return true
}

func (p *pkg) handlerFactOf(name string) handlerFact {
	hf := handlerFact{name: name}
	fd := p.meths[name]
	if fd == nil || fd.Body == nil {
		return hf
	}
	hf.found = true
	hf.position = fset.Position(fd.Pos()).String()
	recv, _ := recvIsHttpServer(fd)
	var w, r string
	var names []string
	for _, f := range fd.Type.Params.List {
		for _, n := range f.Names {
			names = append(names, n.Name)
		}
	}
	if len(names) == 2 {
		w, r = names[0], names[1]
	}
	alias := map[string]string{} // local ident -> receiver field it was read from
	stmts := fd.Body.List
	for i, s := range stmts {
		if containsAuthCall(s, recv) {
			hf.hasAuth = true
			switch s := s.(type) {
			case *ast.AssignStmt:
				if len(s.Lhs) == 1 && len(s.Rhs) == 1 && isAuthCall(s.Rhs[0], recv) &&
					argsAreHandlerParams(s.Rhs[0].(*ast.CallExpr), w, r) && i+1 < len(stmts) {
					if lhs, ok := s.Lhs[0].(*ast.Ident); ok {
						if ifs, ok := stmts[i+1].(*ast.IfStmt); ok && ifs.Init == nil && ifs.Else == nil && isBareReturnBlock(ifs.Body) {
							if x, ok := isNilCompare(ifs.Cond); ok {
								if id, ok := x.(*ast.Ident); ok && id.Name == lhs.Name {
									hf.guarded = true
								}
							}
						}
					}
				}
			case *ast.IfStmt:
				if s.Else == nil && isBareReturnBlock(s.Body) {
					if x, ok := isNilCompare(s.Cond); ok {
						if s.Init == nil && isAuthCall(x, recv) && argsAreHandlerParams(x.(*ast.CallExpr), w, r) {
							hf.guarded = true
						}
						if as, ok := s.Init.(*ast.AssignStmt); ok && len(as.Lhs) == 1 && len(as.Rhs) == 1 &&
							isAuthCall(as.Rhs[0], recv) && argsAreHandlerParams(as.Rhs[0].(*ast.CallExpr), w, r) {
							if l, ok := as.Lhs[0].(*ast.Ident); ok {
								if id, ok := x.(*ast.Ident); ok && id.Name == l.Name {
									hf.guarded = true
								}
							}
						}
					}
				}
			}
			return hf
		}
		// classify the pre-auth statement
		kind := ".other"
		switch s := s.(type) {
		case *ast.AssignStmt:
			if len(s.Lhs) == 1 && len(s.Rhs) == 1 && s.Tok == token.DEFINE {
				lhs, lok := s.Lhs[0].(*ast.Ident)
				if se, ok := s.Rhs[0].(*ast.SelectorExpr); ok && lok {
					if id, ok := se.X.(*ast.Ident); ok && id.Name == recv {
						kind = ".configRead " + leanStr(se.Sel.Name)
						alias[lhs.Name] = se.Sel.Name
					}
				}
				if c, ok := s.Rhs[0].(*ast.CallExpr); ok && lok {
					if se, ok := c.Fun.(*ast.SelectorExpr); ok && se.Sel.Name == "PathValue" && len(c.Args) == 1 {
						if id, ok := se.X.(*ast.Ident); ok && id.Name == r {
							if _, ok := c.Args[0].(*ast.BasicLit); ok {
								kind = ".pathValueRead"
							}
						}
					}
				}
			}
		case *ast.IfStmt:
			if s.Init == nil && s.Else == nil {
				if x, ok := isNilCompare(s.Cond); ok {
					field := ""
					switch x := x.(type) {
					case *ast.Ident:
						field = alias[x.Name]
					case *ast.SelectorExpr:
						if id, ok := x.X.(*ast.Ident); ok && id.Name == recv {
							field = x.Sel.Name
						}
					}
					if field != "" && p.isRefusalBlock(s.Body, w) {
						kind = ".nilGuard " + leanStr(field)
					}
				}
			}
		}
		hf.kinds = append(hf.kinds, kind)
		hf.texts = append(hf.texts, render(s))
	}
	// no authenticate call at the top level of the body
	hf.kinds, hf.texts = nil, nil
	// (a call nested deeper, e.g. inside an if-body, is still "no top-level call": report hasAuth
	// only when some top-level statement contains it — handled above)
	return hf
}

// ---------------------------------------------------------------- the gate itself

type retFact struct {
	conds []string
	expr  string
}

type gateFact struct {
	found         bool
	ctxVar        string // identifiers bound by `ctx, err := recv.authenticateFunc(r)`
	errVar        string
	callTopLevel  bool // that assignment is a top-level statement of the body
	errBranchExit bool // the top-level `if err != nil { ... }` right after it ends in `return nil`
	returns       []retFact
}

// gateFactOf describes HttpServer.authenticate: every return statement with the conditions guarding
// it, and the shape "call the authenticator; if err != nil { ...; return nil }; return ctx".
func (p *pkg) gateFactOf() gateFact {
	g := gateFact{}
	fd := p.meths["authenticate"]
	if fd == nil || fd.Body == nil {
		return g
	}
	g.found = true
	recv, _ := recvIsHttpServer(fd)
	// conditions are rendered with the receiver called `h`, whatever the source calls it
	norm := func(s string) string {
		if recv != "h" && recv != "_" {
			return strings.ReplaceAll(" "+s, " "+recv+".", " h.")[1:]
		}
		return s
	}
	var walk func(stmts []ast.Stmt, conds []string)
	walk = func(stmts []ast.Stmt, conds []string) {
		for _, s := range stmts {
			switch s := s.(type) {
			case *ast.ReturnStmt:
				var parts []string
				for _, r := range s.Results {
					parts = append(parts, render(r))
				}
				g.returns = append(g.returns, retFact{append([]string{}, conds...), strings.Join(parts, ", ")})
			case *ast.BlockStmt:
				walk(s.List, conds)
			case *ast.IfStmt:
				ct := norm(render(s.Cond))
				if s.Init != nil {
					ct = norm(render(s.Init)) + "; " + ct
				}
				walk(s.Body.List, append(append([]string{}, conds...), ct))
				if s.Else != nil {
					walk([]ast.Stmt{s.Else}, append(append([]string{}, conds...), "!("+ct+")"))
				}
			case *ast.ForStmt:
				walk(s.Body.List, append(append([]string{}, conds...), "<for>"))
			case *ast.RangeStmt:
				walk(s.Body.List, append(append([]string{}, conds...), "<range>"))
			case *ast.SwitchStmt:
				walk(s.Body.List, append(append([]string{}, conds...), "<switch>"))
			case *ast.TypeSwitchStmt:
				walk(s.Body.List, append(append([]string{}, conds...), "<switch>"))
			case *ast.CaseClause:
				walk(s.Body, append(append([]string{}, conds...), "<case>"))
			case *ast.LabeledStmt:
				walk([]ast.Stmt{s.Stmt}, conds)
			}
		}
	}
	walk(fd.Body.List, nil)
	for i, s := range fd.Body.List {
		as, ok := s.(*ast.AssignStmt)
		if !ok || len(as.Lhs) != 2 || len(as.Rhs) != 1 {
			continue
		}
		c, ok := as.Rhs[0].(*ast.CallExpr)
		if !ok {
			continue
		}
		se, ok := c.Fun.(*ast.SelectorExpr)
		if !ok || se.Sel.Name != "authenticateFunc" {
			continue
		}
		if id, ok := se.X.(*ast.Ident); !ok || id.Name != recv {
			continue
		}
		a, ok1 := as.Lhs[0].(*ast.Ident)
		b, ok2 := as.Lhs[1].(*ast.Ident)
		if !ok1 || !ok2 {
			continue
		}
		g.ctxVar, g.errVar, g.callTopLevel = a.Name, b.Name, true
		if i+1 < len(fd.Body.List) {
			if ifs, ok := fd.Body.List[i+1].(*ast.IfStmt); ok && ifs.Init == nil && ifs.Else == nil &&
				(render(ifs.Cond) == b.Name+" != nil" || render(ifs.Cond) == "nil != "+b.Name) && len(ifs.Body.List) > 0 {
				if rs, ok := ifs.Body.List[len(ifs.Body.List)-1].(*ast.ReturnStmt); ok && len(rs.Results) == 1 && render(rs.Results[0]) == "nil" {
					g.errBranchExit = true
				}
			}
		}
	}
	return g
}

func main() {
	repo := flag.String("repo", "/repo", "")
	out := flag.String("out", "", "")
	flag.Parse()
	if *out == "" {
		die("-out required")
	}
	p := load(filepath.Join(*repo, "vgirpc"))
	routes := p.collectRoutes()
	if len(routes) == 0 {
		die("no mux registrations found (source layout changed?)")
	}

	// handler facts for every named handler
	seen := map[string]bool{}
	var hnames []string
	for _, r := range routes {
		if !strings.HasPrefix(r.handler, "<") && !seen[r.handler] {
			seen[r.handler] = true
			hnames = append(hnames, r.handler)
		}
	}
	sort.Strings(hnames)

	// direct calls of handler methods from ServeHTTP
	type direct struct {
		conds   []string
		handler string
	}
	var directs []direct
	if fd := p.meths["ServeHTTP"]; fd != nil && fd.Body != nil {
		recv, _ := recvIsHttpServer(fd)
		walkCalls(fd.Body.List, nil, func(c *ast.CallExpr, conds []cond) {
			se, ok := c.Fun.(*ast.SelectorExpr)
			if !ok {
				return
			}
			id, ok := se.X.(*ast.Ident)
			if !ok || id.Name != recv || !strings.HasPrefix(se.Sel.Name, "handle") {
				return
			}
			var cs []string
			for _, c := range conds {
				t := c.text
				if c.neg {
					t = "!(" + t + ")"
				}
				cs = append(cs, t)
			}
			directs = append(directs, direct{cs, se.Sel.Name})
		})
	} else {
		die("HttpServer.ServeHTTP not found")
	}

	var b strings.Builder
	b.WriteString("import Vgi.Model.RouteAuthFacts\n")
	b.WriteString("/-! GENERATED by tools/factgen/c22 from /repo/vgirpc (all non-test sources). Do not edit. -/\n")
	b.WriteString("namespace Vgi.Generated.C22\nopen Vgi.RouteAuth\n\n")
	b.WriteString("/-- every `.mux.HandleFunc/.Handle` registration of package vgirpc, in source order -/\n")
	b.WriteString("def routes : List RouteFact := [\n")
	for i, r := range routes {
		var cs []string
		for _, c := range r.conds {
			cs = append(cs, fmt.Sprintf("⟨%v, %s⟩", c.neg, leanStr(c.text)))
		}
		pos := fset.Position(r.pos)
		fmt.Fprintf(&b, "  -- %s:%d  %s\n", filepath.Base(pos.Filename), pos.Line, strings.ReplaceAll(r.pattern, pfxMark, "{prefix}"))
		fmt.Fprintf(&b, "  { registrar := %s, conds := [%s], pattern := %s, handler := %s, wrapper := %s }",
			leanStr(r.registrar), strings.Join(cs, ", "), patternLean(r), leanStr(r.handler), leanStr(r.wrapper))
		if i+1 < len(routes) {
			b.WriteString(",")
		}
		b.WriteString("\n")
	}
	b.WriteString("]\n\n")
	b.WriteString("/-- per handler method: the authenticate call and what runs before it -/\n")
	b.WriteString("def handlers : List HandlerFact := [\n")
	var hfs []string
	for _, n := range hnames {
		hf := p.handlerFactOf(n)
		if !hf.found {
			continue
		}
		var ts []string
		for _, t := range hf.texts {
			if len(t) > 160 {
				t = t[:160] + "..."
			}
			ts = append(ts, leanStr(t))
		}
		hfs = append(hfs, fmt.Sprintf("  { name := %s, hasAuth := %v, guarded := %v, preAuth := [%s], preAuthText := [%s] }",
			leanStr(hf.name), hf.hasAuth, hf.guarded, strings.Join(hf.kinds, ", "), strings.Join(ts, ", ")))
	}
	b.WriteString(strings.Join(hfs, ",\n"))
	b.WriteString("\n]\n\n")
	b.WriteString("/-- `h.handle*` methods called directly by ServeHTTP (not through the mux) -/\n")
	b.WriteString("def direct : List DirectFact := [\n")
	var ds []string
	for _, d := range directs {
		var cs []string
		for _, c := range d.conds {
			cs = append(cs, leanStr(c))
		}
		ds = append(ds, fmt.Sprintf("  { conds := [%s], handler := %s }", strings.Join(cs, ", "), leanStr(d.handler)))
	}
	b.WriteString(strings.Join(ds, ",\n"))
	b.WriteString("\n]\n\n")
	gf := p.gateFactOf()
	if !gf.found {
		die("HttpServer.authenticate not found")
	}
	b.WriteString("/-- `HttpServer.authenticate`: its return statements with their guards, and its call shape -/\n")
	b.WriteString("def gate : GateFact := {\n")
	fmt.Fprintf(&b, "  ctxVar := %s, errVar := %s, callTopLevel := %v, errBranchExit := %v,\n  returns := [\n",
		leanStr(gf.ctxVar), leanStr(gf.errVar), gf.callTopLevel, gf.errBranchExit)
	var rs []string
	for _, r := range gf.returns {
		var cs []string
		for _, c := range r.conds {
			cs = append(cs, leanStr(c))
		}
		rs = append(rs, fmt.Sprintf("    { conds := [%s], expr := %s }", strings.Join(cs, ", "), leanStr(r.expr)))
	}
	b.WriteString(strings.Join(rs, ",\n"))
	b.WriteString("\n  ] }\n\n")
	b.WriteString("def table : Table := { routes := routes, handlers := handlers, direct := direct, gate := gate }\n\n")
	b.WriteString("end Vgi.Generated.C22\n")
	if err := os.WriteFile(*out, []byte(b.String()), 0o644); err != nil {
		die("%v", err)
	}
}
