// Package lockset is a small syntactic lock-region analysis over go/ast, shared by the C40 and
// C42 fact generators. For a function body it reports, for every access to a guarded variable or
// field, the set of mutexes held at that point (Lock()/Unlock()/defer Unlock() regions, structured
// control flow, closures analysed at the intersection of their call sites) and the enclosing
// sync.Once body if any.
package lockset

import (
	"bytes"
	"fmt"
	"go/ast"
	"go/printer"
	"go/token"
	"sort"
	"strings"
)

type Access struct {
	File  string
	Func  string
	Field string
	Line  int
	Write bool
	Held  []string // sorted lock expressions held
	Once  string   // expression of the sync.Once whose Do body contains the access ("" if none)
}

type Config struct {
	Fset *token.FileSet
	File string
	// Locks: printed receiver expressions of mutexes, e.g. "mu", "r.mu", "s.transportMu".
	Locks map[string]bool
	// Guarded reports the canonical field name for an expression (ident or selector), "" if not guarded.
	Guarded func(e ast.Expr) string
	// InitialHeld: locks held on entry (helpers documented "caller holds mu").
	InitialHeld []string
	// InitialOnce: the function itself is the body handed to this sync.Once (`once.Do(recv.method)`).
	InitialOnce string
}

func Str(fset *token.FileSet, n ast.Node) string {
	var b bytes.Buffer
	_ = printer.Fprint(&b, fset, n)
	return b.String()
}

type held map[string]bool

func (h held) clone() held {
	c := held{}
	for k := range h {
		c[k] = true
	}
	return c
}

func (h held) list() []string {
	var l []string
	for k := range h {
		l = append(l, k)
	}
	sort.Strings(l)
	return l
}

func inter(a, b held) held {
	c := held{}
	for k := range a {
		if b[k] {
			c[k] = true
		}
	}
	return c
}

type analyzer struct {
	cfg      Config
	fn       string
	out      []Access
	closures map[string]*ast.FuncLit // local name -> literal
	callHeld map[string]held         // local closure name -> intersection of held at call sites (previous pass)
	next     map[string]held
	once     string
}

// Analyze walks one function declaration.
func Analyze(cfg Config, fd *ast.FuncDecl) []Access {
	a := &analyzer{cfg: cfg, fn: fd.Name.Name, closures: map[string]*ast.FuncLit{}, callHeld: map[string]held{}, once: cfg.InitialOnce}
	if fd.Body == nil {
		return nil
	}
	// find local closures `name := func(...) {...}`
	ast.Inspect(fd.Body, func(n ast.Node) bool {
		if as, ok := n.(*ast.AssignStmt); ok && len(as.Lhs) == 1 && len(as.Rhs) == 1 {
			if id, ok := as.Lhs[0].(*ast.Ident); ok {
				if fl, ok := as.Rhs[0].(*ast.FuncLit); ok {
					a.closures[id.Name] = fl
				}
			}
		}
		return true
	})
	init := held{}
	for _, l := range cfg.InitialHeld {
		init[l] = true
	}
	// fixpoint over closure call-site lock sets (closures may call each other)
	names := make([]string, 0, len(a.closures))
	for n := range a.closures {
		names = append(names, n)
	}
	sort.Strings(names)
	for iter := 0; iter < 6; iter++ {
		a.out = nil
		a.next = map[string]held{}
		a.block(fd.Body.List, init.clone())
		for _, name := range names {
			h := held{}
			if cur, ok := a.callHeld[name]; ok {
				h = cur.clone()
			}
			saved := a.fn
			a.fn = fd.Name.Name + "." + name
			a.block(a.closures[name].Body.List, h)
			a.fn = saved
		}
		same := fmt.Sprint(dump(a.next)) == fmt.Sprint(dump(a.callHeld))
		a.callHeld = a.next
		if same && iter > 0 {
			break
		}
	}
	return a.out
}

func dump(m map[string]held) []string {
	var l []string
	for k, v := range m {
		l = append(l, k+"="+strings.Join(v.list(), ","))
	}
	sort.Strings(l)
	return l
}

func (a *analyzer) noteCall(name string, h held) {
	if cur, ok := a.next[name]; ok {
		a.next[name] = inter(cur, h)
	} else {
		a.next[name] = h.clone()
	}
}

func terminates(list []ast.Stmt) bool {
	if len(list) == 0 {
		return false
	}
	switch s := list[len(list)-1].(type) {
	case *ast.ReturnStmt:
		return true
	case *ast.BranchStmt:
		return s.Tok == token.BREAK || s.Tok == token.CONTINUE || s.Tok == token.GOTO
	case *ast.ExprStmt:
		if c, ok := s.X.(*ast.CallExpr); ok {
			if id, ok := c.Fun.(*ast.Ident); ok && id.Name == "panic" {
				return true
			}
		}
	case *ast.BlockStmt:
		return terminates(s.List)
	}
	return false
}

// lockOp recognises X.Lock()/X.Unlock()/X.RLock()/X.RUnlock() on a configured mutex.
func (a *analyzer) lockOp(e ast.Expr) (lock string, acquire bool, ok bool) {
	c, isCall := e.(*ast.CallExpr)
	if !isCall {
		return "", false, false
	}
	sel, isSel := c.Fun.(*ast.SelectorExpr)
	if !isSel {
		return "", false, false
	}
	x := Str(a.cfg.Fset, sel.X)
	if !a.cfg.Locks[x] {
		return "", false, false
	}
	switch sel.Sel.Name {
	case "Lock", "RLock":
		return x, true, true
	case "Unlock", "RUnlock":
		return x, false, true
	}
	return "", false, false
}

func (a *analyzer) block(list []ast.Stmt, h held) held {
	for _, s := range list {
		h = a.stmt(s, h)
	}
	return h
}

func (a *analyzer) stmt(s ast.Stmt, h held) held {
	switch s := s.(type) {
	case nil:
		return h
	case *ast.ExprStmt:
		if l, acq, ok := a.lockOp(s.X); ok {
			h = h.clone()
			if acq {
				h[l] = true
			} else {
				delete(h, l)
			}
			return h
		}
		a.expr(s.X, h, false)
		return h
	case *ast.DeferStmt:
		if _, acq, ok := a.lockOp(s.Call); ok && !acq {
			return h // held until the function returns
		}
		if fl, ok := s.Call.Fun.(*ast.FuncLit); ok {
			a.block(fl.Body.List, held{})
			for _, arg := range s.Call.Args {
				a.expr(arg, h, false)
			}
			return h
		}
		a.expr(s.Call, h, false)
		return h
	case *ast.GoStmt:
		if fl, ok := s.Call.Fun.(*ast.FuncLit); ok {
			a.block(fl.Body.List, held{})
			for _, arg := range s.Call.Args {
				a.expr(arg, h, false)
			}
			return h
		}
		a.expr(s.Call, h, false)
		return h
	case *ast.AssignStmt:
		for _, r := range s.Rhs {
			if fl, ok := r.(*ast.FuncLit); ok && len(s.Lhs) == 1 {
				if id, ok := s.Lhs[0].(*ast.Ident); ok && a.closures[id.Name] == fl {
					continue // analysed separately at its call sites
				}
			}
			a.expr(r, h, false)
		}
		for _, l := range s.Lhs {
			a.expr(l, h, true)
		}
		return h
	case *ast.IncDecStmt:
		a.expr(s.X, h, true)
		return h
	case *ast.DeclStmt:
		if gd, ok := s.Decl.(*ast.GenDecl); ok {
			for _, sp := range gd.Specs {
				if vs, ok := sp.(*ast.ValueSpec); ok {
					for _, v := range vs.Values {
						a.expr(v, h, false)
					}
				}
			}
		}
		return h
	case *ast.ReturnStmt:
		for _, r := range s.Results {
			a.expr(r, h, false)
		}
		return h
	case *ast.BlockStmt:
		return a.block(s.List, h)
	case *ast.IfStmt:
		h = a.stmt(s.Init, h)
		a.expr(s.Cond, h, false)
		hThen := a.block(s.Body.List, h.clone())
		thenTerm := terminates(s.Body.List)
		var hElse held = h
		elseTerm := false
		if s.Else != nil {
			switch e := s.Else.(type) {
			case *ast.BlockStmt:
				hElse = a.block(e.List, h.clone())
				elseTerm = terminates(e.List)
			default:
				hElse = a.stmt(e, h.clone())
			}
		}
		switch {
		case thenTerm && elseTerm:
			return h
		case thenTerm:
			return hElse
		case elseTerm:
			return hThen
		default:
			return inter(hThen, hElse)
		}
	case *ast.ForStmt:
		h = a.stmt(s.Init, h)
		if s.Cond != nil {
			a.expr(s.Cond, h, false)
		}
		a.block(s.Body.List, h.clone())
		a.stmt(s.Post, h)
		return h
	case *ast.RangeStmt:
		a.expr(s.X, h, false)
		a.block(s.Body.List, h.clone())
		return h
	case *ast.SwitchStmt:
		h = a.stmt(s.Init, h)
		if s.Tag != nil {
			a.expr(s.Tag, h, false)
		}
		for _, c := range s.Body.List {
			cc := c.(*ast.CaseClause)
			for _, e := range cc.List {
				a.expr(e, h, false)
			}
			a.block(cc.Body, h.clone())
		}
		return h
	case *ast.TypeSwitchStmt:
		for _, c := range s.Body.List {
			a.block(c.(*ast.CaseClause).Body, h.clone())
		}
		return h
	case *ast.SelectStmt:
		for _, c := range s.Body.List {
			cc := c.(*ast.CommClause)
			a.stmt(cc.Comm, h)
			a.block(cc.Body, h.clone())
		}
		return h
	case *ast.SendStmt:
		a.expr(s.Chan, h, false)
		a.expr(s.Value, h, false)
		return h
	case *ast.LabeledStmt:
		return a.stmt(s.Stmt, h)
	}
	return h
}

func (a *analyzer) record(e ast.Expr, field string, h held, write bool) {
	a.out = append(a.out, Access{File: a.cfg.File, Func: a.fn, Field: field, Line: a.cfg.Fset.Position(e.Pos()).Line,
		Write: write, Held: h.list(), Once: a.once})
}

func (a *analyzer) expr(e ast.Expr, h held, write bool) {
	switch e := e.(type) {
	case nil:
		return
	case *ast.Ident:
		if f := a.cfg.Guarded(e); f != "" {
			a.record(e, f, h, write)
		}
	case *ast.SelectorExpr:
		if f := a.cfg.Guarded(e); f != "" {
			a.record(e, f, h, write)
			return
		}
		a.expr(e.X, h, false)
	case *ast.IndexExpr:
		a.expr(e.X, h, write) // m[k] = v writes m
		a.expr(e.Index, h, false)
	case *ast.StarExpr:
		a.expr(e.X, h, write)
	case *ast.ParenExpr:
		a.expr(e.X, h, write)
	case *ast.UnaryExpr:
		a.expr(e.X, h, write || e.Op == token.AND)
	case *ast.BinaryExpr:
		a.expr(e.X, h, false)
		a.expr(e.Y, h, false)
	case *ast.KeyValueExpr:
		a.expr(e.Value, h, false)
	case *ast.CompositeLit:
		for _, el := range e.Elts {
			a.expr(el, h, false)
		}
	case *ast.SliceExpr:
		a.expr(e.X, h, false)
		a.expr(e.Low, h, false)
		a.expr(e.High, h, false)
	case *ast.TypeAssertExpr:
		a.expr(e.X, h, false)
	case *ast.FuncLit:
		a.block(e.Body.List, held{})
	case *ast.CallExpr:
		// local closure call: remember the locks held here
		if id, ok := e.Fun.(*ast.Ident); ok {
			if _, isClosure := a.closures[id.Name]; isClosure {
				a.noteCall(id.Name, h)
			}
			if id.Name == "delete" && len(e.Args) > 0 {
				a.expr(e.Args[0], h, true)
				for _, arg := range e.Args[1:] {
					a.expr(arg, h, false)
				}
				return
			}
		}
		// X.Do(func(){...}) on a sync.Once: body runs once, serialised by the Once
		if sel, ok := e.Fun.(*ast.SelectorExpr); ok && sel.Sel.Name == "Do" && len(e.Args) == 1 {
			if fl, ok := e.Args[0].(*ast.FuncLit); ok {
				saved := a.once
				a.once = Str(a.cfg.Fset, sel.X)
				a.block(fl.Body.List, held{})
				a.once = saved
				return
			}
		}
		a.expr(e.Fun, h, false)
		for _, arg := range e.Args {
			a.expr(arg, h, false)
		}
	}
}

// LeanString renders a Go string as a Lean string literal.
func LeanString(s string) string {
	var b strings.Builder
	b.WriteByte('"')
	for _, r := range s {
		switch r {
		case '"':
			b.WriteString("\\\"")
		case '\\':
			b.WriteString("\\\\")
		case '\n':
			b.WriteString("\\n")
		default:
			b.WriteRune(r)
		}
	}
	b.WriteByte('"')
	return b.String()
}

func LeanStrings(l []string) string {
	q := make([]string, len(l))
	for i, s := range l {
		q[i] = LeanString(s)
	}
	return "[" + strings.Join(q, ", ") + "]"
}
