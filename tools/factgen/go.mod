module factgen

go 1.26.0
