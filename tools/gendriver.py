#!/usr/bin/env python3
"""Regenerate lean/lakefile.toml: library `Vgi` (every module under lean/Vgi, built separately)
plus one native executable `vgidriver_<ID>` per lean/Vgi/Drive/<ID>.lean (each such module ends
with a root-level `def main`). Idempotent: rewrites only on change."""
import os, re
root = os.path.join(os.path.dirname(os.path.abspath(__file__)), '..', 'lean')
drives = sorted(f[:-5] for f in os.listdir(os.path.join(root, 'Vgi', 'Drive')) if re.fullmatch(r'C\d+\.lean', f))
out = 'name = "Vgi"\nversion = "0.1.0"\ndefaultTargets = ["Vgi"]\n\n[[lean_lib]]\nname = "Vgi"\nglobs = ["Vgi.+"]\n'
for d in drives:
    out += f'\n[[lean_exe]]\nname = "vgidriver_{d}"\nroot = "Vgi.Drive.{d}"\n'
path = os.path.join(root, 'lakefile.toml')
try:
    same = open(path).read() == out
except FileNotFoundError:
    same = False
if not same:
    open(path, 'w').write(out)
