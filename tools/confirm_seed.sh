#!/bin/sh
# tools/confirm_seed.sh <PROP> <k> [srcdir]  — independently confirm a seeded change written by a
# sub-agent (default srcdir /tmp/seed/<PROP>/_seed/<k>): in a fresh scratch worktree of /repo's HEAD
#   original: demo passes;  patched: builds, existing vgirpc tests pass, demo fails.
# On success stores /verif/seeded/<PROP>-<k>/{patch.diff,demo_test.go,meta.json,confirmed.txt}.
prop=$1; k=$2; src=${3:-/tmp/seed/$prop/_seed/$k}
export GOFLAGS=-mod=mod GOPROXY=off
wt=/tmp/confirm-$prop-$k-$$
git -C /repo worktree add -q --detach "$wt" HEAD || exit 2
cleanup() { git -C /repo worktree remove --force "$wt" 2>/dev/null; }
dest=$(grep -m1 -oE '(vgirpc|conformance|examples)[A-Za-z0-9_/.-]*_test\.go' "$src/demo_test.go")
[ -z "$dest" ] && { echo "cannot find demo destination in header"; cleanup; exit 2; }
pkgdir=$(dirname "$dest")
moddir=$wt; case "$pkgdir" in vgirpc/s3*|vgirpc/otel*|vgirpc/gcs*|vgirpc/jwtauth*|vgirpc/sentry*) moddir=$wt/$(echo $pkgdir | cut -d/ -f1-2); pkgrel=./$(echo $pkgdir | cut -d/ -f3-);; *) pkgrel=./$pkgdir;; esac
run=$(grep -oE "\-run '?\^?Test[A-Za-z0-9_|^$]+'?" "$src/meta.json" | head -1 | sed "s/-run //; s/'//g")
[ -z "$run" ] && run=Seed
tags=$(grep -oE "\-tags [A-Za-z0-9_,]+" "$src/meta.json" | head -1)
cp "$src/demo_test.go" "$wt/$dest"
log=/tmp/confirm-$prop-$k-$$.log
( cd "$moddir" && go test -vet=off -count=1 $tags -run "$run" "$pkgrel" ) > $log 2>&1; orig=$?
git -C "$wt" apply "$src/patch.diff" || { echo "PATCH DOES NOT APPLY on HEAD"; cleanup; exit 3; }
( cd "$moddir" && go test -vet=off -count=1 $tags -run "$run" "$pkgrel" ) >> $log 2>&1; mut=$?
rm "$wt/$dest"
( cd "$moddir" && go build ./... && go test -vet=off -count=1 "$pkgrel" ) >> $log 2>&1; suite=$?
echo "demo on original rc=$orig (want 0); demo on patched rc=$mut (want !=0); existing suite on patched rc=$suite (want 0)"
if [ $orig -eq 0 ] && [ $mut -ne 0 ] && [ $suite -eq 0 ]; then
  d=/verif/seeded/$prop-$k; mkdir -p $d; cp "$src/patch.diff" "$src/demo_test.go" "$src/meta.json" $d/
  echo "confirmed $(date -u +%FT%TZ) at /repo HEAD $(git -C /repo rev-parse --short HEAD): demo passes on original, fails with patch; existing $pkgrel suite passes with patch (tools/confirm_seed.sh)" > $d/confirmed.txt
  echo CONFIRMED $d
else tail -20 $log; fi
cleanup; rm -f $log
