#!/bin/sh
# tools/seed_round.sh "<letters>" <PROP>...  — confirm the seeded changes <PROP>-<letter> delivered under
# /tmp/seed/<PROP>/_seed/<letter>, remove the seed worktrees, then run the detection matrix on what was confirmed.
letters=$1; shift
ids=""
for p in "$@"; do for k in $letters; do
  if [ -d /tmp/seed/$p/_seed/$k ]; then
    r=$(/verif/tools/confirm_seed.sh $p $k 2>&1 | tail -1); echo "$p-$k: $r"
    case "$r" in CONFIRMED*) ids="$ids $p-$k";; esac
  else echo "$p-$k: not delivered"; fi
done; git -C /repo worktree remove --force /tmp/seed/$p 2>/dev/null; done
[ -n "$ids" ] && JOBS=${JOBS:-4} python3 /verif/tools/seed_matrix.py $ids
