import Vgi.Basic
import Vgi.Util
import Vgi.Model.Shm
import Vgi.Props.C34
import Vgi.Drive.C34
