import Vgi.Model.HttpClient
/-!
Specification vocabulary and helper lemmas for the model of `vgirpc/http_client.go`.
The property theorems themselves are in `Vgi.Props.C21`.
-/
namespace Vgi.HttpClient

instance instDecEqExcept {ε α : Type} [DecidableEq ε] [DecidableEq α] : DecidableEq (Except ε α) :=
  fun a b =>
    match a, b with
    | .ok x, .ok y => if h : x = y then isTrue (by rw [h]) else isFalse (fun e => h (by cases e; rfl))
    | .error x, .error y => if h : x = y then isTrue (by rw [h]) else isFalse (fun e => h (by cases e; rfl))
    | .ok _, .error _ => isFalse (fun e => by cases e)
    | .error _, .ok _ => isFalse (fun e => by cases e)

/-! ## Metadata maps -/

theorem mdFind_del (m : Md) (k k' : String) :
    mdFind (mdDel m k) k' = if k' = k then none else mdFind m k' := by
  induction m with
  | nil => simp [mdDel, mdFind]
  | cons p r ih =>
    obtain ⟨a, v⟩ := p
    unfold mdDel at ih ⊢
    by_cases ha : a = k
    · subst ha
      simp only [List.filter_cons, ne_eq, not_true_eq_false, decide_false, Bool.false_eq_true,
        if_false, ih]
      by_cases hk : k' = a
      · simp [hk]
      · have : ¬ a = k' := fun h => hk h.symm
        simp [hk, mdFind, this]
    · simp only [List.filter_cons, ne_eq, ha, not_false_eq_true, decide_true, if_true, mdFind, ih]
      by_cases hk : k' = k
      · subst hk; simp [ha]
      · simp [hk]

theorem mdGet_del_self (m : Md) (k : String) : mdGet (mdDel m k) k = "" := by
  simp [mdGet, mdFind_del]

theorem mdGet_del_other (m : Md) (k k' : String) (h : k' ≠ k) : mdGet (mdDel m k) k' = mdGet m k' := by
  simp [mdGet, mdFind_del, h]

/-! ## What the server's stream contains (specification side) -/

/-- The metadata map a record batch carries. -/
def mapOf (m : Msg) : Md := toMap m.md

/-- A zero-row batch with a log level: a log/exception envelope, never data. -/
def isLog (m : Msg) : Bool := decide (m.rows = 0 ∧ mdGet (mapOf m) kLevel ≠ "")

/-- An EXCEPTION envelope. -/
def isExc (m : Msg) : Bool := decide (m.rows = 0 ∧ mdGet (mapOf m) kLevel = lvlException)

/-- The cursor a batch carries ("" = none). -/
def cursorOf (m : Msg) : String := mdGet (mapOf m) kState

/-- The call token a batch carries. -/
def callOf (m : Msg) : String := mdGet (mapOf m) kCall

/-- The external-location pointer a batch carries. -/
def locOf (m : Msg) : String := mdGet (mapOf m) kLocation

/-- A zero-row batch that only transports a cursor (not data unless the call says so). -/
def isCursorOnly (tid : Bool) (m : Msg) : Bool := decide (cursorOf m ≠ "" ∧ m.rows = 0 ∧ tid = false)

/-- Metadata with the framework tokens removed: the stream-state and call-state entries are
dropped when they carry a token; every other entry is kept. -/
def stripTokens (md : Md) : Md :=
  let md1 := if mdGet md kState ≠ "" then mdDel md kState else md
  if mdGet md1 kCall ≠ "" then mdDel md1 kCall else md1

/-- The batch the caller must receive for a data batch of the server. -/
def strip (m : Msg) : Batch := ⟨m.payload, m.rows, stripTokens (mapOf m)⟩

/-- The server's data batches, in order. -/
def dataMsgs (tid : Bool) (ms : List Msg) : List Msg :=
  ms.filter (fun m => !isLog m && !isCursorOnly tid m)

/-- The last non-empty element of `l`, else `init`. -/
def lastNonEmpty (init : String) (l : List String) : String :=
  l.foldl (fun acc t => if t ≠ "" then t else acc) init

/-- Cursors / call tokens in stream order (log envelopes carry none). -/
def cursorSeq (ms : List Msg) : List String := (ms.filter (fun m => !isLog m)).map cursorOf
def callSeq (ms : List Msg) : List String := (ms.filter (fun m => !isLog m)).map callOf

theorem kState_ne_kCall : kState ≠ kCall := by decide
theorem kCall_ne_kState : kCall ≠ kState := by decide
theorem kLocation_ne_kState : kLocation ≠ kState := by decide
theorem kLocation_ne_kCall : kLocation ≠ kCall := by decide
theorem lvlException_ne_empty : lvlException ≠ "" := by decide

theorem stripTokens_find (md : Md) (k : String) :
    mdFind (stripTokens md) k =
      if (k = kState ∨ k = kCall) ∧ mdGet md k ≠ "" then none else mdFind md k := by
  have hc : mdGet (mdDel md kState) kCall = mdGet md kCall :=
    mdGet_del_other md kState kCall kCall_ne_kState
  have hne1 : kState ≠ kCall := kState_ne_kCall
  simp only [stripTokens]
  by_cases hs : mdGet md kState = "" <;> by_cases hcall : mdGet md kCall = "" <;>
    by_cases h1 : k = kCall <;> by_cases h2 : k = kState <;>
    simp_all [mdFind_del]

theorem stripTokens_get (md : Md) (k : String) :
    mdGet (stripTokens md) k = if k = kState ∨ k = kCall then "" else mdGet md k := by
  unfold mdGet
  rw [stripTokens_find]
  by_cases hk : k = kState ∨ k = kCall
  · simp only [hk, true_and, if_true]
    by_cases hv : mdGet md k ≠ ""
    · simp [hv]
    · have : mdGet md k = "" := by simpa using hv
      simp only [hv, if_false]
      exact this
  · simp [hk]

/-! ## `parseMsgs` computes the specification -/

/-- Messages that make `parseIPCStream` stop with an error. -/
def refuses (m : Msg) : Bool := isExc m || (!isLog m && decide (locOf m ≠ ""))

theorem isExc_isLog {m : Msg} (h : isExc m = true) : isLog m = true := by
  simp only [isExc, isLog, decide_eq_true_eq] at h ⊢
  refine ⟨h.1, ?_⟩
  rw [h.2]; exact lvlException_ne_empty

/-- One loop iteration, restated with the specification vocabulary. -/
theorem parseMsgs_cons (tid : Bool) (m : Msg) (rest : List Msg) (p : Parsed) :
    parseMsgs tid (m :: rest) p =
      if isLog m then
        (if isExc m then .error (excOf (mapOf m) m.xt) else parseMsgs tid rest p)
      else if locOf m ≠ "" then .error .protocol
      else
        let p1 : Parsed := { p with token := if cursorOf m ≠ "" then cursorOf m else p.token,
                                    callToken := if callOf m ≠ "" then callOf m else p.callToken }
        if isCursorOnly tid m then parseMsgs tid rest p1
        else parseMsgs tid rest { p1 with batches := p1.batches ++ [strip m] } := by
  by_cases h1 : m.rows = 0 ∧ mdGet (toMap m.md) kLevel ≠ ""
  · have hlog : isLog m = true := by simp [isLog, mapOf, h1.1, h1.2]
    by_cases h2 : mdGet (toMap m.md) kLevel = lvlException
    · have hexc : isExc m = true := by simp [isExc, mapOf, h1.1, h2]
      simp only [parseMsgs, hlog, hexc, if_pos h1, if_pos h2, if_true, mapOf]
    · have hexc : isExc m = false := by simp [isExc, mapOf, h2]
      simp only [parseMsgs, hlog, hexc, if_pos h1, if_neg h2, if_true, Bool.false_eq_true, if_false]
  · have hlog : isLog m = false := by
      unfold isLog mapOf; exact decide_eq_false h1
    simp only [parseMsgs, hlog, if_neg h1, Bool.false_eq_true, if_false, locOf, mapOf, cursorOf,
      callOf, isCursorOnly, strip, stripTokens]
    have e1 := mdGet_del_other (toMap m.md) kState kCall kCall_ne_kState
    have e2 : ∀ x : Md, mdGet (mdDel x kState) kLocation = mdGet x kLocation :=
      fun x => mdGet_del_other x kState kLocation kLocation_ne_kState
    have e3 : ∀ x : Md, mdGet (mdDel x kCall) kLocation = mdGet x kLocation :=
      fun x => mdGet_del_other x kCall kLocation kLocation_ne_kCall
    by_cases hS : mdGet (toMap m.md) kState = "" <;> by_cases hC : mdGet (toMap m.md) kCall = "" <;>
      simp [hS, hC, e1, e2, e3]

theorem lastNonEmpty_cons (init t : String) (l : List String) :
    lastNonEmpty init (t :: l) = lastNonEmpty (if t ≠ "" then t else init) l := rfl

/-- An accepted stream: the batches are the server's data batches in order with the tokens
stripped, the cursor / call token are the last ones the stream carries, and no batch refuses. -/
theorem parseMsgs_ok (tid : Bool) : ∀ (ms : List Msg) (p p' : Parsed),
    parseMsgs tid ms p = .ok p' →
      p'.batches = p.batches ++ (dataMsgs tid ms).map strip ∧
      p'.token = lastNonEmpty p.token (cursorSeq ms) ∧
      p'.callToken = lastNonEmpty p.callToken (callSeq ms) ∧
      (∀ m ∈ ms, refuses m = false)
  | [], p, p', h => by
    simp only [parseMsgs, Except.ok.injEq] at h
    subst h
    simp [dataMsgs, cursorSeq, callSeq, lastNonEmpty]
  | m :: rest, p, p', h => by
    rw [parseMsgs_cons] at h
    by_cases hlog : isLog m = true
    · by_cases hexc : isExc m = true
      · simp [hlog, hexc] at h
      · have hexc' : isExc m = false := by simpa using hexc
        simp only [hlog, hexc', if_true, Bool.false_eq_true, if_false] at h
        obtain ⟨h1, h2, h3, h4⟩ := parseMsgs_ok tid rest p p' h
        refine ⟨?_, ?_, ?_, ?_⟩
        · simpa [dataMsgs, hlog] using h1
        · simpa [cursorSeq, hlog] using h2
        · simpa [callSeq, hlog] using h3
        · intro x hx
          rcases List.mem_cons.mp hx with rfl | hx
          · simp [refuses, hexc', hlog]
          · exact h4 x hx
    · have hlog' : isLog m = false := by simpa using hlog
      have hexc' : isExc m = false := by
        cases he : isExc m with
        | false => rfl
        | true => exact absurd (isExc_isLog he) hlog
      simp only [hlog', Bool.false_eq_true, if_false] at h
      by_cases hloc : locOf m ≠ ""
      · simp [hloc] at h
      · simp only [hloc, if_false] at h
        have hloc' : locOf m = "" := by simpa using hloc
        by_cases hco : isCursorOnly tid m = true
        · simp only [hco, if_true] at h
          obtain ⟨h1, h2, h3, h4⟩ := parseMsgs_ok tid rest _ p' h
          refine ⟨?_, ?_, ?_, ?_⟩
          · simpa [dataMsgs, hlog', hco] using h1
          · simpa [cursorSeq, hlog', lastNonEmpty_cons] using h2
          · simpa [callSeq, hlog', lastNonEmpty_cons] using h3
          · intro x hx
            rcases List.mem_cons.mp hx with rfl | hx
            · simp [refuses, hexc', hlog', hloc']
            · exact h4 x hx
        · have hco' : isCursorOnly tid m = false := by simpa using hco
          simp only [hco', Bool.false_eq_true, if_false] at h
          obtain ⟨h1, h2, h3, h4⟩ := parseMsgs_ok tid rest _ p' h
          refine ⟨?_, ?_, ?_, ?_⟩
          · simpa [dataMsgs, hlog', hco', List.append_assoc] using h1
          · simpa [cursorSeq, hlog', lastNonEmpty_cons] using h2
          · simpa [callSeq, hlog', lastNonEmpty_cons] using h3
          · intro x hx
            rcases List.mem_cons.mp hx with rfl | hx
            · simp [refuses, hexc', hlog', hloc']
            · exact h4 x hx

/-- Conversely a stream in which no batch refuses is accepted. -/
theorem parseMsgs_ok_of (tid : Bool) : ∀ (ms : List Msg) (p : Parsed),
    (∀ m ∈ ms, refuses m = false) → ∃ p', parseMsgs tid ms p = .ok p'
  | [], p, _ => ⟨p, rfl⟩
  | m :: rest, p, h => by
    have hm := h m (List.mem_cons_self ..)
    have hrest : ∀ x ∈ rest, refuses x = false := fun x hx => h x (List.mem_cons_of_mem _ hx)
    simp only [refuses, Bool.or_eq_false_iff, Bool.and_eq_false_iff, Bool.not_eq_false',
      decide_eq_false_iff_not, Decidable.not_not] at hm
    rw [parseMsgs_cons]
    by_cases hlog : isLog m = true
    · simp only [hlog, hm.1, if_true, Bool.false_eq_true, if_false]
      exact parseMsgs_ok_of tid rest p hrest
    · have hlog' : isLog m = false := by simpa using hlog
      have hloc : locOf m = "" := by
        rcases hm.2 with h' | h'
        · exact absurd h' hlog
        · exact h'
      simp only [hlog', hloc, Bool.false_eq_true, if_false, ne_eq, not_true_eq_false]
      split
      · exact parseMsgs_ok_of tid rest _ hrest
      · exact parseMsgs_ok_of tid rest _ hrest

/-- The first refusing batch decides the error: an EXCEPTION envelope is surfaced as the typed
error built from its metadata, an external-location pointer is a protocol error. -/
theorem parseMsgs_refused (tid : Bool) : ∀ (pre : List Msg) (e : Msg) (post : List Msg) (p : Parsed),
    (∀ m ∈ pre, refuses m = false) → refuses e = true →
      parseMsgs tid (pre ++ e :: post) p =
        .error (if isExc e then excOf (mapOf e) e.xt else .protocol)
  | [], e, post, p, _, he => by
    rw [List.nil_append, parseMsgs_cons]
    by_cases hexc : isExc e = true
    · simp [hexc, isExc_isLog hexc]
    · have hexc' : isExc e = false := by simpa using hexc
      simp only [refuses, hexc', Bool.false_or, Bool.and_eq_true, Bool.not_eq_true',
        decide_eq_true_eq] at he
      simp [hexc', he.1, he.2]
  | m :: pre, e, post, p, h, he => by
    have hm := h m (List.mem_cons_self ..)
    have hpre : ∀ x ∈ pre, refuses x = false := fun x hx => h x (List.mem_cons_of_mem _ hx)
    simp only [refuses, Bool.or_eq_false_iff, Bool.and_eq_false_iff, Bool.not_eq_false',
      decide_eq_false_iff_not, Decidable.not_not] at hm
    rw [List.cons_append, parseMsgs_cons]
    by_cases hlog : isLog m = true
    · simp only [hlog, hm.1, if_true, Bool.false_eq_true, if_false]
      exact parseMsgs_refused tid pre e post p hpre he
    · have hlog' : isLog m = false := by simpa using hlog
      have hloc : locOf m = "" := by
        rcases hm.2 with h' | h'
        · exact absurd h' hlog
        · exact h'
      simp only [hlog', hloc, Bool.false_eq_true, if_false, ne_eq, not_true_eq_false]
      split
      · exact parseMsgs_refused tid pre e post _ hpre he
      · exact parseMsgs_refused tid pre e post _ hpre he

/-! ## `parseStream`, `post`, `parseMain`, `fetch` -/

theorem post_ok {cfg : Cfg} {r : Resp} {h : HttpOk} (hp : post cfg r = .ok h) :
    ∃ status clen elen ce xce dec,
      r = .http status clen false elen ce xce dec h.rpcErr h.streams h.trail ∧
      clen ≤ (cfg.maxEnc : Int) ∧ elen ≤ cfg.maxEnc ∧ validEnc (encOf ce xce) = true ∧
      (∃ n, decodedLen elen (encOf ce xce) dec = some n ∧ n ≤ cfg.maxDec) ∧
      200 ≤ status ∧ status < 300 := by
  cases r with
  | terr => simp [post] at hp
  | http status clen rdErr elen ce xce dec rpcErr streams trail =>
    simp only [post] at hp
    by_cases h1 : clen > (cfg.maxEnc : Int)
    · simp [h1] at hp
    by_cases h2 : rdErr = true
    · simp [h1, h2] at hp
    by_cases h3 : elen > cfg.maxEnc
    · simp [h1, h2, h3] at hp
    by_cases h4 : validEnc (encOf ce xce) = false
    · simp [h1, h2, h3, h4] at hp
    simp only [h1, h2, h3, h4, if_false, Bool.false_eq_true] at hp
    cases hd : decodedLen elen (encOf ce xce) dec with
    | none => simp [hd] at hp
    | some n =>
      simp only [hd] at hp
      by_cases h5 : n > cfg.maxDec
      · simp [h5] at hp
      by_cases h6 : status < 200 ∨ status ≥ 300
      · simp [h5, h6] at hp
      simp [h5, h6] at hp
      subst hp
      have hrd : rdErr = false := by simpa using h2
      subst hrd
      refine ⟨status, clen, elen, ce, xce, dec, rfl, by omega, by omega, by simpa using h4,
        ⟨n, hd, by omega⟩, by omega, by omega⟩

theorem parseStream_ok {exp : Option String} {tid : Bool} {s : Ipc} {p : Parsed}
    (h : parseStream exp tid s = .ok p) :
    (∃ sid, s.schema = some sid ∧ (exp = none ∨ exp = some sid)) ∧ s.readErr = false ∧
    (∀ m ∈ s.msgs, refuses m = false) ∧
    p.batches = (dataMsgs tid s.msgs).map strip ∧
    p.token = lastNonEmpty "" (cursorSeq s.msgs) ∧
    p.callToken = lastNonEmpty "" (callSeq s.msgs) := by
  unfold parseStream at h
  split at h
  · cases h
  · rename_i sid hsid
    split at h
    · split at h <;> cases h
    · rename_i hexp
      split at h
      · cases h
      · rename_i p0 hp0
        split at h
        · cases h
        · rename_i hrd
          cases h
          obtain ⟨h1, h2, h3, h4⟩ := parseMsgs_ok tid s.msgs emptyParsed p hp0
          refine ⟨⟨sid, hsid, ?_⟩, by simpa using hrd, h4, by simpa [emptyParsed] using h1,
            by simpa [emptyParsed] using h2, by simpa [emptyParsed] using h3⟩
          cases exp with
          | none => exact Or.inl rfl
          | some e =>
            right
            by_cases he : e = sid
            · rw [he]
            · exact absurd ⟨rfl, fun hh => he (Option.some.inj hh)⟩ hexp

theorem parseMain_ok {r : HttpOk} {exp : Option String} {tid : Bool} {p : Parsed}
    (h : parseMain r exp tid = .ok p) :
    ∃ s, r.streams = [s] ∧ r.trail = 0 ∧ r.rpcErr = false ∧ parseStream exp tid s = .ok p := by
  unfold parseMain at h
  split at h
  · cases h
  · rename_i s more hs
    split at h
    · cases h
    · rename_i p0 hp0
      split at h
      · cases h
      · rename_i h1
        split at h
        · cases h
        · rename_i h2
          cases h
          have hmore : more = [] := by
            by_cases hm : more = []
            · exact hm
            · exact absurd (Or.inl hm) h1
          have htrail : r.trail = 0 := by
            have : ¬ r.trail > 0 := fun hh => h1 (Or.inr hh)
            omega
          exact ⟨s, by rw [hs, hmore], htrail, by simpa using h2, hp0⟩

/-- Everything `fetch` requires of a response before it hands anything to the caller. -/
structure Accepted (cfg : Cfg) (exp : Option String) (tid : Bool) (r : Resp) (p : Parsed) : Prop where
  shape : ∃ status clen elen ce xce dec s,
    r = .http status clen false elen ce xce dec false [s] 0 ∧
    200 ≤ status ∧ status < 300 ∧
    clen ≤ (cfg.maxEnc : Int) ∧ elen ≤ cfg.maxEnc ∧
    validEnc (encOf ce xce) = true ∧
    (∃ n, decodedLen elen (encOf ce xce) dec = some n ∧ n ≤ cfg.maxDec) ∧
    (∃ sid, s.schema = some sid ∧ (exp = none ∨ exp = some sid)) ∧
    s.readErr = false ∧
    (∀ m ∈ s.msgs, refuses m = false) ∧
    p.batches = (dataMsgs tid s.msgs).map strip ∧
    p.token = lastNonEmpty "" (cursorSeq s.msgs) ∧
    p.callToken = lastNonEmpty "" (callSeq s.msgs)

theorem fetch_ok {cfg : Cfg} {exp : Option String} {tid : Bool} {r : Resp} {p : Parsed}
    (h : fetch cfg exp tid r = .ok p) : Accepted cfg exp tid r p := by
  unfold fetch at h
  split at h
  · cases h
  · rename_i ho hpost
    obtain ⟨status, clen, elen, ce, xce, dec, hr, h1, h2, h3, h4, h5, h6⟩ := post_ok hpost
    obtain ⟨s, hs, htrail, hrpc, hps⟩ := parseMain_ok h
    obtain ⟨g1, g2, g3, g4, g5, g6⟩ := parseStream_ok hps
    refine ⟨status, clen, elen, ce, xce, dec, s, ?_, h5, h6, h1, h2, h3, h4, g1, g2, g3, g4, g5, g6⟩
    rw [hr, hs, htrail, hrpc]

/-! ## Cursors on the wire -/

theorem mdFind_set (m : Md) (k v k' : String) :
    mdFind (mdSet m k v) k' = if k' = k then some v else mdFind m k' := by
  unfold mdSet
  by_cases h : k' = k
  · subst h; simp [mdFind]
  · have h' : ¬ k = k' := fun e => h e.symm
    simp [mdFind, h, h', mdFind_del]

theorem mdFind_foldl_mem (wire : Md) : ∀ (acc : Md) (k v : String),
    mdFind (wire.foldl (fun m p => mdSet m p.1 p.2) acc) k = some v →
      (k, v) ∈ wire ∨ mdFind acc k = some v := by
  induction wire with
  | nil => intro acc k v h; exact Or.inr h
  | cons p rest ih =>
    intro acc k v h
    simp only [List.foldl_cons] at h
    rcases ih _ k v h with h1 | h1
    · exact Or.inl (List.mem_cons_of_mem _ h1)
    · rw [mdFind_set] at h1
      by_cases hk : k = p.1
      · simp only [hk, if_true, Option.some.injEq] at h1
        left
        have : p = (k, v) := by
          cases p; simp_all
        rw [← this]; exact List.mem_cons_self ..
      · simp only [hk, if_false] at h1
        exact Or.inr h1

/-- A value found in the map view is on the wire under that key. -/
theorem mdGet_toMap_mem {wire : Md} {k : String} (h : mdGet (toMap wire) k ≠ "") :
    (k, mdGet (toMap wire) k) ∈ wire := by
  unfold mdGet at h ⊢
  cases hf : mdFind (toMap wire) k with
  | none => simp [hf] at h
  | some v =>
    simp only [Option.getD_some]
    rcases mdFind_foldl_mem wire [] k v (by simpa [toMap] using hf) with h1 | h1
    · exact h1
    · simp [mdFind] at h1

/-- The non-empty cursors a batch carries on the wire (every stream-state entry, in order). -/
def tokensOfMsg (m : Msg) : List String :=
  (m.md.filter (fun p => decide (p.1 = kState ∧ p.2 ≠ ""))).map (·.2)

def tokensOfIpc (s : Ipc) : List String := s.msgs.flatMap tokensOfMsg

/-- Every cursor a response hands out. -/
def tokensOf : Resp → List String
  | .terr => []
  | .http _ _ _ _ _ _ _ _ streams _ => streams.flatMap tokensOfIpc

theorem cursorOf_mem {m : Msg} (h : cursorOf m ≠ "") : cursorOf m ∈ tokensOfMsg m := by
  have hm := mdGet_toMap_mem (wire := m.md) (k := kState) h
  unfold tokensOfMsg
  refine List.mem_map.mpr ⟨(kState, cursorOf m), ?_, rfl⟩
  refine List.mem_filter.mpr ⟨hm, ?_⟩
  simpa using h

theorem lastNonEmpty_mem (l : List String) : ∀ init : String,
    lastNonEmpty init l = init ∨ (lastNonEmpty init l ∈ l ∧ lastNonEmpty init l ≠ "") := by
  induction l with
  | nil => intro init; exact Or.inl rfl
  | cons t rest ih =>
    intro init
    rw [lastNonEmpty_cons]
    by_cases ht : t ≠ ""
    · rw [if_pos ht]
      rcases ih t with h | h
      · right; rw [h]; exact ⟨List.mem_cons_self .., ht⟩
      · right; exact ⟨List.mem_cons_of_mem _ h.1, h.2⟩
    · rw [if_neg ht]
      rcases ih init with h | h
      · exact Or.inl h
      · right; exact ⟨List.mem_cons_of_mem _ h.1, h.2⟩

/-- The cursor an accepted stream yields was handed out by that stream. -/
theorem streamToken_mem (s : Ipc) (h : lastNonEmpty "" (cursorSeq s.msgs) ≠ "") :
    lastNonEmpty "" (cursorSeq s.msgs) ∈ tokensOfIpc s := by
  rcases lastNonEmpty_mem (cursorSeq s.msgs) "" with h1 | ⟨h1, h2⟩
  · exact absurd h1 h
  · obtain ⟨m, hm, hc⟩ := List.mem_map.mp (show lastNonEmpty "" (cursorSeq s.msgs) ∈
        (s.msgs.filter (fun m => !isLog m)).map cursorOf from h1)
    have hm' : m ∈ s.msgs := (List.mem_filter.mp hm).1
    unfold tokensOfIpc
    refine List.mem_flatMap.mpr ⟨m, hm', ?_⟩
    have hne : cursorOf m ≠ "" := by rw [hc]; exact h2
    have := cursorOf_mem hne
    rwa [hc] at this

theorem fetch_token_mem {cfg : Cfg} {exp : Option String} {tid : Bool} {r : Resp} {p : Parsed}
    (h : fetch cfg exp tid r = .ok p) (ht : p.token ≠ "") : p.token ∈ tokensOf r := by
  obtain ⟨status, clen, elen, ce, xce, dec, s, hr, _, _, _, _, _, _, _, _, _, _, htok, _⟩ := (fetch_ok h).shape
  subst hr
  simp only [tokensOf, List.flatMap_cons, List.flatMap_nil, List.append_nil]
  rw [htok] at ht ⊢
  exact streamToken_mem s ht

/-! ## The wire-trace check for "never replays a cursor" -/

def isCont : Kind → Bool
  | .next | .exchange | .cancel => true
  | _ => false

/-- Bookkeeping of the wire-trace check: the cursors the server has handed out so far and the
*burnt* ones — sent on a continuation request and not handed out again by any response since. -/
structure Ledger where
  issued : List String
  burnt : List String
  deriving Repr, DecidableEq

/-- Scan a wire trace. A continuation request must carry a non-empty cursor that the server has
handed out and that is not burnt; sending burns it; a response hands out its cursors (un-burning
any it repeats). `none` = the trace sends an invented cursor or replays one. -/
def scan : Ledger → List Event → Option Ledger
  | l, [] => some l
  | l, .sent k q :: rest =>
    if isCont k then
      if q.cursor ≠ "" ∧ q.cursor ∈ l.issued ∧ q.cursor ∉ l.burnt then
        scan ⟨l.issued, q.cursor :: l.burnt⟩ rest
      else none
    else scan l rest
  | l, .recv _ r :: rest =>
    scan ⟨tokensOf r ++ l.issued, l.burnt.filter (fun c => decide (c ∉ tokensOf r))⟩ rest

theorem scan_append (e1 : List Event) : ∀ (l : Ledger) (e2 : List Event),
    scan l (e1 ++ e2) = (scan l e1).bind (fun b => scan b e2) := by
  induction e1 with
  | nil => intro l e2; rfl
  | cons e rest ih =>
    intro l e2
    cases e with
    | sent k q =>
      simp only [List.cons_append, scan]
      split
      · split
        · exact ih _ _
        · rfl
      · exact ih _ _
    | recv k r =>
      simp only [List.cons_append, scan]
      exact ih _ _

/-- The cursors of the continuation requests in a trace, in order. -/
def contCursors : List Event → List String
  | [] => []
  | .sent k q :: rest => if isCont k then q.cursor :: contCursors rest else contCursors rest
  | .recv _ _ :: rest => contCursors rest

theorem contCursors_append (a b : List Event) : contCursors (a ++ b) = contCursors a ++ contCursors b := by
  induction a with
  | nil => rfl
  | cons e rest ih =>
    cases e with
    | sent k q =>
      simp only [List.cons_append, contCursors]
      split <;> simp [ih]
    | recv k r => simp only [List.cons_append, contCursors, ih]

/-- "The server never hands out the same cursor twice": every response's cursors are new. -/
def freshTokens : List String → List Event → Prop
  | _, [] => True
  | iss, .sent _ _ :: rest => freshTokens iss rest
  | iss, .recv _ r :: rest => (∀ t ∈ tokensOf r, t ∉ iss) ∧ freshTokens (tokensOf r ++ iss) rest

instance decFreshTokens : ∀ (iss : List String) (ev : List Event), Decidable (freshTokens iss ev)
  | _, [] => isTrue trivial
  | iss, .sent _ _ :: rest => decFreshTokens iss rest
  | iss, .recv _ r :: rest =>
    have := decFreshTokens (tokensOf r ++ iss) rest
    inferInstanceAs (Decidable ((∀ t ∈ tokensOf r, t ∉ iss) ∧ freshTokens (tokensOf r ++ iss) rest))

/-- On a trace that passes the scan, if the server never repeats a cursor then no cursor is sent
twice. -/
theorem scan_nodup : ∀ (ev : List Event) (l l' : Ledger),
    scan l ev = some l' → freshTokens l.issued ev → (∀ c ∈ l.burnt, c ∈ l.issued) →
      (contCursors ev).Nodup ∧ (∀ c ∈ contCursors ev, c ∉ l.burnt)
  | [], _, _, _, _, _ => by simp [contCursors]
  | .sent k q :: rest, l, l', hs, hf, hb => by
    simp only [scan] at hs
    by_cases hk : isCont k = true
    · simp only [hk, if_true] at hs
      by_cases hc : q.cursor ≠ "" ∧ q.cursor ∈ l.issued ∧ q.cursor ∉ l.burnt
      · rw [if_pos hc] at hs
        have ih := scan_nodup rest ⟨l.issued, q.cursor :: l.burnt⟩ l' hs hf (by
          intro c hcm
          rcases List.mem_cons.mp hcm with rfl | hcm
          · exact hc.2.1
          · exact hb c hcm)
        simp only [contCursors, hk, if_true]
        refine ⟨List.nodup_cons.mpr ⟨?_, ih.1⟩, ?_⟩
        · intro hmem
          exact ih.2 _ hmem (List.mem_cons_self ..)
        · intro c hcm
          rcases List.mem_cons.mp hcm with rfl | hcm
          · exact hc.2.2
          · intro hbm
            exact ih.2 c hcm (List.mem_cons_of_mem _ hbm)
      · rw [if_neg hc] at hs; cases hs
    · simp only [hk, if_false, Bool.false_eq_true] at hs
      simp only [contCursors, hk, if_false, Bool.false_eq_true]
      exact scan_nodup rest l l' hs hf hb
  | .recv k r :: rest, l, l', hs, hf, hb => by
    simp only [scan] at hs
    have hkeep : l.burnt.filter (fun c => decide (c ∉ tokensOf r)) = l.burnt := by
      apply List.filter_eq_self.mpr
      intro c hc
      have : c ∉ tokensOf r := fun hm => hf.1 c hm (hb c hc)
      simpa using this
    rw [hkeep] at hs
    have ih := scan_nodup rest ⟨tokensOf r ++ l.issued, l.burnt⟩ l' hs hf.2 (by
      intro c hc
      exact List.mem_append_right _ (hb c hc))
    simpa [contCursors] using ih

/-! ## Summaries of the stream operations -/

/-- The stream after `Exchange`/`Cancel` gave up its cursor. -/
def poisoned (s : Stream) : Stream := { s with token := "", finished := true }

/-- Everything `Exchange` checks before it serialises the request. -/
def exGuard (s : Stream) (inp : Input) : Prop :=
  s.closed = false ∧ s.exchange = true ∧ s.finished = false ∧ s.token ≠ "" ∧
  inp.schema = s.inSchema ∧ inp.tooBig = false

instance (s : Stream) (inp : Input) : Decidable (exGuard s inp) := by unfold exGuard; infer_instance

theorem exchangeOp_refused {cfg : Cfg} {cc : Bool} {s : Stream} {inp : Input} {rs : List Resp}
    (h : ¬ exGuard s inp) : ∃ e, exchangeOp cfg cc s inp rs = (s, .err e, []) := by
  unfold exGuard at h
  unfold exchangeOp
  by_cases h1 : s.closed = true
  · exact ⟨.other, by simp [h1]⟩
  by_cases h2 : s.exchange = false
  · exact ⟨.other, by simp [h1, h2]⟩
  by_cases h3 : s.finished = true ∨ s.token = ""
  · exact ⟨.protocol, by simp [h1, h2, h3]⟩
  by_cases h4 : inp.schema ≠ s.inSchema
  · exact ⟨.typeErr, by simp [h1, h2, h3, h4]⟩
  by_cases h5 : inp.tooBig = true
  · exact ⟨.transport, by simp [h1, h2, h3, h4, h5]⟩
  exfalso
  apply h
  simp only [not_or, Bool.not_eq_true, ne_eq, Decidable.not_not] at h1 h2 h3 h4 h5
  refine ⟨h1, by simpa using h2, h3.1, h3.2, h4, h5⟩

/-- `Exchange` once the local checks passed. -/
theorem exchangeOp_guarded {cfg : Cfg} {cc : Bool} {s : Stream} {inp : Input} {rs : List Resp}
    (h : exGuard s inp) :
    exchangeOp cfg cc s inp rs =
      if cc then (poisoned s, .err .other, [])
      else
        let r := headResp rs
        let ev := [Event.sent .exchange ⟨s.token, s.callToken, false⟩, Event.recv .exchange r]
        match fetch cfg (some s.outSchema) true r with
        | .error e => (poisoned s, .err e, ev)
        | .ok p =>
          match p.batches with
          | [b] =>
            if p.token = "" then (poisoned s, .err .protocol, ev)
            else ({ s with token := p.token,
                           callToken := if p.callToken ≠ "" then p.callToken else s.callToken,
                           finished := false }, .batch b, ev)
          | _ => (poisoned s, .err .protocol, ev) := by
  obtain ⟨h1, h2, h3, h4, h5, h6⟩ := h
  obtain ⟨ex, os, is, hd, pd, tk, ct, fin, cl⟩ := s
  obtain ⟨isch, big⟩ := inp
  simp only at h1 h2 h3 h4 h5 h6
  subst h1 h2 h3 h5 h6
  cases cc with
  | true => simp [exchangeOp, poisoned, h4]
  | false =>
    simp only [exchangeOp, poisoned, h4, Bool.false_eq_true, if_false, or_self, ne_eq,
      not_true_eq_false]
    cases fetch cfg (some os) true (headResp rs) with
    | error e => rfl
    | ok p =>
      simp only
      cases hb : p.batches with
      | nil => rfl
      | cons b tl =>
        cases tl with
        | nil =>
          by_cases ht : p.token = ""
          · simp [ht]
          · simp [ht]
        | cons b2 tl2 => rfl

/-- What `Cancel` checks before it sends. -/
def cancelIdle (s : Stream) : Prop := s.closed = true ∨ s.finished = true ∨ s.token = ""

instance (s : Stream) : Decidable (cancelIdle s) := by unfold cancelIdle; infer_instance

theorem cancelOp_idle {cfg : Cfg} {cc : Bool} {s : Stream} {rs : List Resp} (h : cancelIdle s) :
    cancelOp cfg cc s rs = ({ s with finished := true }, .ok, []) := by
  unfold cancelIdle at h
  unfold cancelOp
  simp [h]

theorem cancelOp_live {cfg : Cfg} {cc : Bool} {s : Stream} {rs : List Resp} (h : ¬ cancelIdle s) :
    ∃ res, cancelOp cfg cc s rs =
      (poisoned s, res,
        if cc then [] else [Event.sent .cancel ⟨s.token, s.callToken, true⟩, Event.recv .cancel (headResp rs)]) := by
  unfold cancelIdle at h
  unfold cancelOp poisoned
  simp only [h, if_false]
  by_cases hcc : cc = true
  · exact ⟨.err .other, by simp [hcc]⟩
  · simp only [hcc, if_false, Bool.false_eq_true]
    split
    · exact ⟨_, rfl⟩
    · split
      · exact ⟨_, rfl⟩
      · exact ⟨_, rfl⟩

theorem openParse_ok {o : OpenSpec} {h : HttpOk} {s : Stream} (hp : openParse o h = .ok s) :
    s.exchange = o.exchange ∧ s.closed = false ∧ s.outSchema = o.outSchema ∧
    (s.token ≠ "" → ∃ st ∈ h.streams, s.token ∈ tokensOfIpc st) := by
  unfold openParse at hp
  simp only at hp
  split at hp
  · cases hp
  · rename_i hdr rest hres
    have hsub : ∀ st ∈ rest, st ∈ h.streams := by
      intro st hst
      split at hres
      · cases hres; exact hst
      · split at hres
        · cases hres
        · rename_i s0 more hs0
          split at hres
          · cases hres
          · split at hres
            · cases hres
              rw [hs0]; exact List.mem_cons_of_mem _ hst
            · cases hres
    cases rest with
    | nil => simp at hp
    | cons st more =>
      simp only at hp
      cases hps : parseStream (some o.outSchema) false st with
      | error e => simp [hps] at hp
      | ok p =>
        simp only [hps] at hp
        split at hp
        · cases hp
        · split at hp
          · cases hp
          · split at hp
            · cases hp
            · split at hp
              · cases hp
              · cases hp
                refine ⟨rfl, rfl, rfl, ?_⟩
                intro ht
                simp only at ht ⊢
                obtain ⟨_, _, _, _, htok, _⟩ := parseStream_ok hps
                refine ⟨st, hsub st (List.mem_cons_self ..), ?_⟩
                rw [htok] at ht ⊢
                exact streamToken_mem st ht

theorem openOp_spec (cfg : Cfg) (cc : Bool) (o : OpenSpec) (rs : List Resp) :
    ∃ st res ev, openOp cfg cc o rs = (st, res, ev) ∧
      (ev = [] ∨ ev = [Event.sent .init noReq, Event.recv .init (headResp rs)]) ∧
      (∀ s, st = some s → s.exchange = o.exchange ∧ s.closed = false ∧
        ev = [Event.sent .init noReq, Event.recv .init (headResp rs)] ∧
        (s.token ≠ "" → s.token ∈ tokensOf (headResp rs))) := by
  unfold openOp
  by_cases hcc : cc = true
  · exact ⟨none, .err .other, [], by simp [hcc], Or.inl rfl, by intro s hs; cases hs⟩
  · simp only [hcc, Bool.false_eq_true, if_false]
    cases hpost : post cfg (headResp rs) with
    | error e => exact ⟨none, _, _, rfl, Or.inr rfl, by intro s hs; cases hs⟩
    | ok h =>
      simp only
      cases hop : openParse o h with
      | error e => exact ⟨none, _, _, rfl, Or.inr rfl, by intro s hs; cases hs⟩
      | ok s =>
        refine ⟨some s, _, _, rfl, Or.inr rfl, ?_⟩
        intro s' hs'
        cases hs'
        obtain ⟨h1, h2, _, h4⟩ := openParse_ok hop
        refine ⟨h1, h2, rfl, ?_⟩
        intro ht
        obtain ⟨st, hst, hmem⟩ := h4 ht
        obtain ⟨status, clen, elen, ce, xce, dec, hr, _⟩ := post_ok hpost
        rw [hr]
        simp only [tokensOf]
        exact List.mem_flatMap.mpr ⟨st, hst, hmem⟩

theorem exchangeOp_sent {cfg : Cfg} {s : Stream} {inp : Input} {rs : List Resp}
    (h : exGuard s inp) :
    ∃ s' res, exchangeOp cfg false s inp rs =
        (s', res, [Event.sent .exchange ⟨s.token, s.callToken, false⟩, Event.recv .exchange (headResp rs)]) ∧
      s'.exchange = s.exchange ∧ s'.closed = s.closed ∧
      ((s' = poisoned s ∧ ∃ e, res = .err e) ∨
        ∃ p b, fetch cfg (some s.outSchema) true (headResp rs) = .ok p ∧ p.batches = [b] ∧
          p.token ≠ "" ∧ res = .batch b ∧ s'.token = p.token ∧ s'.finished = false ∧
          s'.pending = s.pending) := by
  rw [exchangeOp_guarded h]
  simp only [Bool.false_eq_true, if_false]
  cases hf : fetch cfg (some s.outSchema) true (headResp rs) with
  | error e => exact ⟨_, _, rfl, rfl, rfl, Or.inl ⟨rfl, e, rfl⟩⟩
  | ok p =>
    simp only
    cases hb : p.batches with
    | nil => exact ⟨_, _, rfl, rfl, rfl, Or.inl ⟨rfl, _, rfl⟩⟩
    | cons b tl =>
      cases tl with
      | cons b2 tl2 => exact ⟨_, _, rfl, rfl, rfl, Or.inl ⟨rfl, _, rfl⟩⟩
      | nil =>
        by_cases ht : p.token = ""
        · simp only [ht, if_true]
          exact ⟨_, _, rfl, rfl, rfl, Or.inl ⟨rfl, _, rfl⟩⟩
        · simp only [ht, if_false]
          exact ⟨_, _, rfl, rfl, rfl, Or.inr ⟨p, b, rfl, hb, ht, rfl, rfl, rfl, rfl⟩⟩

/-! ## The ledger invariant along histories of exchange streams -/

/-- The world only holds an exchange stream, and its cursor (if any) was handed out by the
server and is not burnt. -/
def LedgerInv (w : World) (l : Ledger) : Prop :=
  ∀ s, w.st = some s → s.exchange = true ∧ (s.token ≠ "" → s.token ∈ l.issued ∧ s.token ∉ l.burnt)

def opOk (op : Op) : Prop := ∀ o, op = .open o → o.exchange = true

theorem scan_pair_noncont (l : Ledger) (k k' : Kind) (q : Req) (r : Resp) (hk : isCont k = false) :
    scan l [Event.sent k q, Event.recv k' r] =
      some ⟨tokensOf r ++ l.issued, l.burnt.filter (fun c => decide (c ∉ tokensOf r))⟩ := by
  simp [scan, hk]

theorem scan_pair_cont (l : Ledger) (k k' : Kind) (q : Req) (r : Resp) (hk : isCont k = true)
    (h1 : q.cursor ≠ "") (h2 : q.cursor ∈ l.issued) (h3 : q.cursor ∉ l.burnt) :
    scan l [Event.sent k q, Event.recv k' r] =
      some ⟨tokensOf r ++ l.issued, (q.cursor :: l.burnt).filter (fun c => decide (c ∉ tokensOf r))⟩ := by
  simp [scan, hk, h1, h2, h3]

theorem step_ledger (w : World) (op : Op) (rs : List Resp) (l : Ledger)
    (hi : LedgerInv w l) (ho : opOk op) :
    ∃ l', scan l (stepOp w op rs).2.2 = some l' ∧ LedgerInv (stepOp w op rs).1 l' := by
  -- a response keeps an unburnt issued cursor unburnt and issued
  have keep : ∀ (t : String) (r : Resp) (extra : List String), t ∈ l.issued → t ∉ extra →
      t ∈ tokensOf r ++ l.issued ∧ t ∉ extra.filter (fun c => decide (c ∉ tokensOf r)) := by
    intro t r extra h1 h2
    exact ⟨List.mem_append_right _ h1, fun hm => h2 (List.mem_filter.mp hm).1⟩
  have fresh : ∀ (t : String) (r : Resp) (extra : List String), t ∈ tokensOf r →
      t ∈ tokensOf r ++ l.issued ∧ t ∉ extra.filter (fun c => decide (c ∉ tokensOf r)) := by
    intro t r extra h1
    refine ⟨List.mem_append_left _ h1, fun hm => ?_⟩
    have := (List.mem_filter.mp hm).2
    simp only [decide_eq_true_eq] at this
    exact this h1
  cases op with
  | «open» o =>
    obtain ⟨st, res, ev, he, hev, hst⟩ := openOp_spec w.cfg w.cc o rs
    simp only [stepOp, he]
    rcases hev with hev | hev
    · subst hev
      refine ⟨l, rfl, ?_⟩
      intro s hs
      have := (hst s hs).2.2.1
      cases this
    · subst hev
      refine ⟨_, scan_pair_noncont l .init .init noReq (headResp rs) rfl, ?_⟩
      intro s hs
      obtain ⟨h1, _, _, h4⟩ := hst s hs
      refine ⟨by rw [h1]; exact ho o rfl, fun ht => fresh _ _ _ (h4 ht)⟩
  | unary e =>
    simp only [stepOp]
    unfold unaryOp
    by_cases hcc : w.cc = true
    · simp only [hcc, if_true]
      exact ⟨l, rfl, hi⟩
    · simp only [hcc, if_false, Bool.false_eq_true]
      have hscan := scan_pair_noncont l .unary .unary noReq (headResp rs) rfl
      have hinv : LedgerInv w ⟨tokensOf (headResp rs) ++ l.issued,
          l.burnt.filter (fun c => decide (c ∉ tokensOf (headResp rs)))⟩ := by
        intro s hs
        obtain ⟨h1, h2⟩ := hi s hs
        exact ⟨h1, fun ht => keep _ _ _ (h2 ht).1 (h2 ht).2⟩
      split
      · exact ⟨_, hscan, hinv⟩
      · split
        · exact ⟨_, hscan, hinv⟩
        · exact ⟨_, hscan, hinv⟩
  | clientClose =>
    refine ⟨l, rfl, ?_⟩
    intro s hs
    exact hi s hs
  | stat => exact ⟨l, rfl, hi⟩
  | close =>
    simp only [stepOp]
    cases hst : w.st with
    | none => exact ⟨l, rfl, by intro s hs; rw [hst] at hs; cases hs⟩
    | some s =>
      refine ⟨l, rfl, ?_⟩
      intro s' hs'
      simp only [Option.some.injEq] at hs'
      subst hs'
      obtain ⟨h1, h2⟩ := hi s hst
      unfold closeOp
      split
      · exact ⟨h1, h2⟩
      · exact ⟨h1, h2⟩
  | next =>
    simp only [stepOp]
    cases hst : w.st with
    | none => exact ⟨l, rfl, by intro s hs; rw [hst] at hs; cases hs⟩
    | some s =>
      obtain ⟨h1, h2⟩ := hi s hst
      have hn : nextOp w.cfg w.cc s rs = (s, .err .other, []) := by
        unfold nextOp
        by_cases hc : s.closed = true
        · simp [hc]
        · simp [hc, h1]
      simp only [hn]
      refine ⟨l, rfl, ?_⟩
      intro s' hs'
      simp only [Option.some.injEq] at hs'
      subst hs'
      exact ⟨h1, h2⟩
  | cancel =>
    simp only [stepOp]
    cases hst : w.st with
    | none => exact ⟨l, rfl, by intro s hs; rw [hst] at hs; cases hs⟩
    | some s =>
      obtain ⟨h1, h2⟩ := hi s hst
      by_cases hidle : cancelIdle s
      · simp only [cancelOp_idle hidle]
        refine ⟨l, rfl, ?_⟩
        intro s' hs'
        simp only [Option.some.injEq] at hs'
        subst hs'
        exact ⟨h1, h2⟩
      · obtain ⟨res, hres⟩ := cancelOp_live (cfg := w.cfg) (cc := w.cc) (rs := rs) hidle
        simp only [hres]
        have htok : s.token ≠ "" := fun ht => hidle (Or.inr (Or.inr ht))
        have hpo : ∀ l', LedgerInv { w with st := some (poisoned s) } l' := by
          intro l' s' hs'
          simp only [Option.some.injEq] at hs'
          subst hs'
          exact ⟨h1, fun ht => absurd rfl ht⟩
        by_cases hcc : w.cc = true
        · simp only [hcc, if_true]
          exact ⟨l, rfl, hpo l⟩
        · simp only [hcc, if_false, Bool.false_eq_true]
          exact ⟨_, scan_pair_cont l .cancel .cancel _ _ rfl htok (h2 htok).1 (h2 htok).2, hpo _⟩
  | exchange inp =>
    simp only [stepOp]
    cases hst : w.st with
    | none => exact ⟨l, rfl, by intro s hs; rw [hst] at hs; cases hs⟩
    | some s =>
      dsimp only
      obtain ⟨h1, h2⟩ := hi s hst
      by_cases hg : exGuard s inp
      · have htok : s.token ≠ "" := hg.2.2.2.1
        by_cases hcc : w.cc = true
        · rw [exchangeOp_guarded hg]
          simp only [hcc, if_true]
          refine ⟨l, rfl, ?_⟩
          intro s' hs'
          simp only [Option.some.injEq] at hs'
          subst hs'
          exact ⟨h1, fun ht => absurd rfl ht⟩
        · have hcc' : w.cc = false := by simpa using hcc
          obtain ⟨s', res, hop, hex, _, hout⟩ := exchangeOp_sent (cfg := w.cfg) (rs := rs) hg
          rw [hcc', hop]
          refine ⟨_, scan_pair_cont l .exchange .exchange _ _ rfl htok (h2 htok).1 (h2 htok).2, ?_⟩
          intro s'' hs''
          simp only [Option.some.injEq] at hs''
          subst hs''
          refine ⟨by rw [hex]; exact h1, ?_⟩
          intro ht
          rcases hout with ⟨hp, _⟩ | ⟨p, b, hf, _, hpt, _, hs't, _⟩
          · rw [hp] at ht; exact absurd rfl ht
          · rw [hs't]
            exact fresh _ _ _ (fetch_token_mem hf hpt)
      · obtain ⟨e, he⟩ := exchangeOp_refused (cfg := w.cfg) (cc := w.cc) (rs := rs) hg
        simp only [he]
        refine ⟨l, rfl, ?_⟩
        intro s' hs'
        simp only [Option.some.injEq] at hs'
        subst hs'
        exact ⟨h1, h2⟩

theorem run_ledger : ∀ (h : History) (w : World) (l : Ledger),
    LedgerInv w l → (∀ x ∈ h, opOk x.1) →
      ∃ l', scan l (run w h).2.2 = some l' ∧ LedgerInv (run w h).1 l'
  | [], w, l, hi, _ => ⟨l, rfl, hi⟩
  | (op, rs) :: h, w, l, hi, ho => by
    obtain ⟨l1, hs1, hi1⟩ := step_ledger w op rs l hi (ho (op, rs) (List.mem_cons_self ..))
    obtain ⟨l2, hs2, hi2⟩ := run_ledger h (stepOp w op rs).1 l1 hi1
      (fun x hx => ho x (List.mem_cons_of_mem _ hx))
    refine ⟨l2, ?_, ?_⟩
    · simp only [run]
      rw [scan_append, hs1]
      exact hs2
    · simpa [run] using hi2

/-! ## A stream without a cursor is silent -/

theorem nextLoop_dead (cfg : Cfg) (cc : Bool) (s : Stream) (rs : List Resp) (ev : List Event)
    (ht : s.token = "") :
    ∃ s' res, nextLoop cfg cc s rs ev = (s', res, ev) ∧ s'.token = "" := by
  unfold nextLoop
  cases hp : s.pending with
  | cons b rest => exact ⟨_, _, rfl, ht⟩
  | nil =>
    have hc : s.finished = true ∨ s.token = "" := Or.inr ht
    simp only [if_pos hc]
    exact ⟨_, _, rfl, ht⟩

theorem stepOp_cfg (w : World) (op : Op) (rs : List Resp) : (stepOp w op rs).1.cfg = w.cfg := by
  cases op <;> simp only [stepOp] <;> (try rfl) <;> (cases w.st <;> rfl)

/-- One caller action on a stream that holds no cursor: nothing goes on the wire, the stream
still holds no cursor, and an `Exchange` fails. -/
theorem step_dead (w : World) (op : Op) (rs : List Resp) (s : Stream)
    (hst : w.st = some s) (ht : s.token = "") (hno : ∀ o, op ≠ .open o) :
    (∃ s', (stepOp w op rs).1.st = some s' ∧ s'.token = "") ∧
    ((stepOp w op rs).2.2 = [] ∨ ∃ r, (stepOp w op rs).2.2 = [Event.sent .unary noReq, Event.recv .unary r]) ∧
    (∀ inp, op = .exchange inp → ∃ e, (stepOp w op rs).2.1 = .err e) := by
  cases op with
  | «open» o => exact absurd rfl (hno o)
  | unary e =>
    simp only [stepOp]
    refine ⟨⟨s, hst, ht⟩, ?_, by intro inp h; cases h⟩
    unfold unaryOp
    by_cases hcc : w.cc = true
    · simp [hcc]
    · simp only [hcc, if_false, Bool.false_eq_true]
      right
      split
      · exact ⟨_, rfl⟩
      · split <;> exact ⟨_, rfl⟩
  | clientClose => exact ⟨⟨s, hst, ht⟩, Or.inl rfl, by intro inp h; cases h⟩
  | stat => exact ⟨⟨s, hst, ht⟩, Or.inl rfl, by intro inp h; cases h⟩
  | close =>
    simp only [stepOp, hst]
    refine ⟨⟨closeOp s, rfl, ?_⟩, by simp, by intro inp h; cases h⟩
    unfold closeOp; split <;> exact ht
  | next =>
    simp only [stepOp, hst]
    refine ⟨?_, ?_, by intro inp h; cases h⟩
    · unfold nextOp
      split
      · exact ⟨s, rfl, ht⟩
      · split
        · exact ⟨s, rfl, ht⟩
        · obtain ⟨s', res, h1, h2⟩ := nextLoop_dead w.cfg w.cc s rs [] ht
          exact ⟨s', by rw [h1], h2⟩
    · left
      unfold nextOp
      split
      · rfl
      · split
        · rfl
        · obtain ⟨s', res, h1, _⟩ := nextLoop_dead w.cfg w.cc s rs [] ht
          rw [h1]
  | cancel =>
    simp only [stepOp, hst]
    have hidle : cancelIdle s := Or.inr (Or.inr ht)
    rw [cancelOp_idle hidle]
    exact ⟨⟨_, rfl, ht⟩, Or.inl rfl, by intro inp h; cases h⟩
  | exchange inp =>
    simp only [stepOp, hst]
    have hg : ¬ exGuard s inp := fun hg => hg.2.2.2.1 ht
    obtain ⟨e, he⟩ := exchangeOp_refused (cfg := w.cfg) (cc := w.cc) (rs := rs) hg
    rw [he]
    exact ⟨⟨s, rfl, ht⟩, Or.inl rfl, fun _ _ => ⟨e, rfl⟩⟩

/-! ## Producer streams: what `Next` hands out -/

def delivered : Res → List Batch
  | .batch b => [b]
  | _ => []

/-- The batches of the responses that `Next` requests received and accepted, in wire order. -/
def acceptedNext (cfg : Cfg) (out : String) : List Event → List Batch
  | [] => []
  | .recv .next r :: rest =>
    (match fetch cfg (some out) false r with
      | .ok p => p.batches
      | .error _ => []) ++ acceptedNext cfg out rest
  | _ :: rest => acceptedNext cfg out rest

theorem acceptedNext_append (cfg : Cfg) (out : String) (a b : List Event) :
    acceptedNext cfg out (a ++ b) = acceptedNext cfg out a ++ acceptedNext cfg out b := by
  induction a with
  | nil => rfl
  | cons e rest ih =>
    cases e with
    | sent k q => simpa [acceptedNext] using ih
    | recv k r =>
      cases k <;> simp [acceptedNext, ih]

theorem nextLoop_delivery (cfg : Cfg) (cc : Bool) : ∀ (rs : List Resp) (s : Stream) (ev : List Event),
    ∃ evNew, (nextLoop cfg cc s rs ev).2.2 = ev ++ evNew ∧
      delivered (nextLoop cfg cc s rs ev).2.1 ++ (nextLoop cfg cc s rs ev).1.pending
        = s.pending ++ acceptedNext cfg s.outSchema evNew ∧
      (nextLoop cfg cc s rs ev).1.outSchema = s.outSchema ∧
      (nextLoop cfg cc s rs ev).1.exchange = s.exchange ∧
      (nextLoop cfg cc s rs ev).1.closed = s.closed := by
  intro rs
  induction rs with
  | nil =>
    intro s ev
    unfold nextLoop
    cases hp : s.pending with
    | cons b rest => exact ⟨[], by simp, by simp [delivered, acceptedNext], rfl, rfl, rfl⟩
    | nil =>
      simp only
      split
      · exact ⟨[], by simp, by simp [delivered, acceptedNext, hp], rfl, rfl, rfl⟩
      · split
        · exact ⟨[], by simp, by simp [delivered, acceptedNext, hp], rfl, rfl, rfl⟩
        · exact ⟨_, rfl, by simp [delivered, acceptedNext, hp, fetch, post], rfl, rfl, rfl⟩
  | cons r rs' ih =>
    intro s ev
    unfold nextLoop
    cases hp : s.pending with
    | cons b rest => exact ⟨[], by simp, by simp [delivered, acceptedNext], rfl, rfl, rfl⟩
    | nil =>
      simp only
      split
      · exact ⟨[], by simp, by simp [delivered, acceptedNext, hp], rfl, rfl, rfl⟩
      · split
        · exact ⟨[], by simp, by simp [delivered, acceptedNext, hp], rfl, rfl, rfl⟩
        · cases hf : fetch cfg (some s.outSchema) false r with
          | error e =>
            exact ⟨_, rfl, by simp [delivered, acceptedNext, hp, hf], rfl, rfl, rfl⟩
          | ok p =>
            simp only
            obtain ⟨evNew, h1, h2, h3, h4, h5⟩ := ih
              { s with pending := p.batches, token := p.token,
                       callToken := if p.callToken ≠ "" then p.callToken else s.callToken,
                       finished := decide (p.token = "") }
              (ev ++ [Event.sent .next ⟨s.token, s.callToken, false⟩, Event.recv .next r])
            refine ⟨[Event.sent .next ⟨s.token, s.callToken, false⟩, Event.recv .next r] ++ evNew,
              by rw [h1, List.append_assoc], ?_, h3, h4, h5⟩
            rw [h2]
            simp [acceptedNext, hf]

end Vgi.HttpClient
