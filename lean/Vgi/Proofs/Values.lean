import Vgi.Model.Values
/-! Helper lemmas for `Vgi.Props.C08` / `Vgi.Props.C07` (core Lean only). -/
namespace Vgi.Values

/-! ### integer wrap-around -/

theorem two_pow_pos (k : Nat) : (0 : Int) < (2 : Int) ^ k := Int.pow_pos (by decide)

theorem two_pow_succ (k : Nat) : (2 : Int) ^ (k + 1) = 2 * (2 : Int) ^ k := by
  rw [Int.pow_succ]; omega

theorem two_pow_le (a b : Nat) (h : a ≤ b) : (2 : Int) ^ a ≤ (2 : Int) ^ b := by
  induction b with
  | zero => have : a = 0 := by omega
            subst this; exact Int.le_refl _
  | succ k ih =>
    by_cases hk : a ≤ k
    · have := ih hk
      rw [two_pow_succ]
      have := two_pow_pos k
      omega
    · have : a = k + 1 := by omega
      subst this; exact Int.le_refl _

theorem wrap_of_inRange (t : ITy) (v : Int) (hb : 0 < t.bits) (h : t.InRange v) : wrap t v = v := by
  obtain ⟨sg, bits⟩ := t
  obtain ⟨k, rfl⟩ : ∃ k, bits = k + 1 := ⟨bits - 1, by simp at hb; omega⟩
  unfold ITy.InRange ITy.lo ITy.hi at h
  unfold wrap
  cases sg
  · simp only [Bool.false_eq_true, if_false] at h ⊢
    exact Int.emod_eq_of_lt h.1 h.2
  · simp only [if_true, Nat.add_sub_cancel] at h ⊢
    rw [two_pow_succ]
    have hp := two_pow_pos k
    have : (v + 2 ^ k) % (2 * 2 ^ k) = v + 2 ^ k := Int.emod_eq_of_lt (by omega) (by omega)
    omega

theorem wrap_i64_of_inRange (t : ITy) (v : Int) (hb : 0 < t.bits ∧ t.bits ≤ 64) (h : t.InRange v) :
    (t.signed = true → wrap i64 v = v) ∧ (t.signed = false → wrap u64 v = v) := by
  obtain ⟨sg, bits⟩ := t
  unfold ITy.InRange ITy.lo ITy.hi at h
  constructor
  · intro hs
    simp only at hs
    subst hs
    simp only [if_true] at h
    apply wrap_of_inRange i64 v (by decide)
    have := two_pow_le (bits - 1) 63 (by simp at hb; omega)
    unfold ITy.InRange ITy.lo ITy.hi i64
    simp only [if_true]
    constructor <;> omega
  · intro hs
    simp only at hs
    subst hs
    simp only [Bool.false_eq_true, if_false] at h
    apply wrap_of_inRange u64 v (by decide)
    have := two_pow_le bits 64 (by simp at hb; omega)
    unfold ITy.InRange ITy.lo ITy.hi u64
    simp only [Bool.false_eq_true, if_false]
    constructor <;> omega

theorem wrapS64_id (x : Int) (h1 : -9223372036854775808 ≤ x) (h2 : x < 9223372036854775808) : wrapS64 x = x := by
  unfold wrapS64
  have := Int.emod_eq_of_lt (a := x + 9223372036854775808) (b := 18446744073709551616) (by omega) (by omega)
  omega

theorem wrapS32_id (x : Int) (h1 : -2147483648 ≤ x) (h2 : x < 2147483648) : wrapS32 x = x := by
  unfold wrapS32
  have := Int.emod_eq_of_lt (a := x + 2147483648) (b := 4294967296) (by omega) (by omega)
  omega

/-! ### decimal digits -/

theorem digitVal_digitChar (d : Nat) (h : d < 10) : digitVal (digitChar d) = some d := by
  have : d = 0 ∨ d = 1 ∨ d = 2 ∨ d = 3 ∨ d = 4 ∨ d = 5 ∨ d = 6 ∨ d = 7 ∨ d = 8 ∨ d = 9 := by omega
  rcases this with h | h | h | h | h | h | h | h | h | h <;> subst h <;> decide

theorem digitChar_ne (d : Nat) (h : d < 10) :
    digitChar d ≠ '.' ∧ digitChar d ≠ '-' ∧ digitChar d ≠ '+' ∧ (digitChar d).toNat < 53 + 5 := by
  have : d = 0 ∨ d = 1 ∨ d = 2 ∨ d = 3 ∨ d = 4 ∨ d = 5 ∨ d = 6 ∨ d = 7 ∨ d = 8 ∨ d = 9 := by omega
  rcases this with h | h | h | h | h | h | h | h | h | h <;> subst h <;> decide

/-- Every character is a decimal digit. -/
def AllDigits (cs : List Char) : Prop := ∀ c ∈ cs, ∃ d, d < 10 ∧ c = digitChar d

theorem natDigits_allDigits : ∀ (f n : Nat), AllDigits (natDigits f n)
  | 0, _ => by intro c hc; simp [natDigits] at hc
  | f + 1, n => by
    unfold natDigits
    split
    · intro c hc
      simp only [List.mem_singleton] at hc
      exact ⟨n, by omega, hc⟩
    · intro c hc
      simp only [List.mem_append, List.mem_singleton] at hc
      rcases hc with hc | hc
      · exact natDigits_allDigits f (n / 10) c hc
      · exact ⟨n % 10, by omega, hc⟩

theorem natDigits_ne_nil (f n : Nat) : natDigits (f + 1) n ≠ [] := by
  unfold natDigits
  split <;> simp

theorem parseDigitsAcc_append (xs : List Char) (c : Char) :
    ∀ acc, parseDigitsAcc acc (xs ++ [c]) =
      match parseDigitsAcc acc xs with
      | some a => (match digitVal c with | some d => some (a * 10 + d) | none => none)
      | none => none := by
  induction xs with
  | nil => intro acc; simp [parseDigitsAcc]; split <;> simp_all
  | cons x xs ih =>
    intro acc
    simp only [List.cons_append, parseDigitsAcc]
    split
    · exact ih _
    · rfl

theorem parseDigits_natDigits : ∀ (f n : Nat), n < f → parseDigitsAcc 0 (natDigits f n) = some n
  | 0, _, h => by omega
  | f + 1, n, h => by
    unfold natDigits
    split
    · rename_i hn
      simp [parseDigitsAcc, digitVal_digitChar n hn]
    · rename_i hn
      rw [parseDigitsAcc_append]
      rw [parseDigits_natDigits f (n / 10) (by omega)]
      simp only [digitVal_digitChar (n % 10) (by omega)]
      congr 1
      omega

theorem parseDigits_natStr (n : Nat) : parseDigits (natStr n) = some n :=
  parseDigits_natDigits (n + 1) n (by omega)

theorem parseDigits_pad4 (r : Nat) (h : r < 10000) : parseDigits (pad4 r) = some r := by
  unfold parseDigits pad4
  simp only [parseDigitsAcc, digitVal_digitChar (r / 1000 % 10) (by omega), digitVal_digitChar (r / 100 % 10) (by omega),
    digitVal_digitChar (r / 10 % 10) (by omega), digitVal_digitChar (r % 10) (by omega)]
  congr 1
  omega

theorem takeWhile_digits (xs ys : List Char) (h : AllDigits xs) :
    (xs ++ '.' :: ys).takeWhile (· ≠ '.') = xs ∧ (xs ++ '.' :: ys).dropWhile (· ≠ '.') = '.' :: ys := by
  induction xs with
  | nil => simp
  | cons x xs ih =>
    obtain ⟨d, hd, rfl⟩ := h x (by simp)
    have hne := (digitChar_ne d hd).1
    have ih' := ih (fun c hc => h c (by simp [hc]))
    simp only [List.cons_append, List.takeWhile_cons, List.dropWhile_cons, ne_eq, hne, not_false_eq_true, decide_true,
      if_true, ih'.1, ih'.2, and_self]

theorem decParseBody_canonical (q r : Nat) (hr : r < 10000) :
    decParseBody (natStr q ++ '.' :: pad4 r) = some (q * 10000 + r) := by
  have hd : AllDigits (natStr q) := natDigits_allDigits _ _
  obtain ⟨h1, h2⟩ := takeWhile_digits (natStr q) (pad4 r) hd
  unfold decParseBody
  simp only [h1, h2, List.drop_succ_cons, List.drop_zero]
  have hne : natStr q ≠ [] := natDigits_ne_nil q q
  have : ¬ ((natStr q).isEmpty = true ∧ (pad4 r).isEmpty = true) := by
    intro h; exact hne (List.isEmpty_iff.mp h.1)
  simp only [this, if_false, parseDigits_natStr]
  unfold decScale
  have e1 : (pad4 r ++ ['0', '0', '0', '0']).take 4 = pad4 r := by simp [pad4]
  have e2 : (pad4 r).drop 4 = [] := by simp [pad4]
  simp only [e1, e2, parseDigits_pad4 r hr, List.head?_nil]
  simp [parseDigits, parseDigitsAcc]

theorem natStr_head (q : Nat) : ∃ c cs, natStr q = c :: cs ∧ c ≠ '-' ∧ c ≠ '+' := by
  have hd : AllDigits (natStr q) := natDigits_allDigits _ _
  have hne : natStr q ≠ [] := natDigits_ne_nil q q
  match hq : natStr q with
  | [] => exact absurd hq hne
  | c :: cs =>
    obtain ⟨d, hd', rfl⟩ := hd c (by simp [hq])
    exact ⟨_, cs, rfl, (digitChar_ne d hd').2.1, (digitChar_ne d hd').2.2.1⟩

theorem decParse_decToString (n : Int) (h : -decLimit < n ∧ n < decLimit) :
    decParse (decToString n) = .ok n := by
  have hr : n.natAbs % 10000 < 10000 := Nat.mod_lt _ (by decide)
  have hb := decParseBody_canonical (n.natAbs / 10000) (n.natAbs % 10000) hr
  have hq : n.natAbs / 10000 * 10000 + n.natAbs % 10000 = n.natAbs := by omega
  rw [hq] at hb
  unfold decLimit at h
  by_cases hn : n < 0
  · have e : decToString n = '-' :: (natStr (n.natAbs / 10000) ++ '.' :: pad4 (n.natAbs % 10000)) := by
      simp [decToString, hn]
    rw [e]
    unfold decParse
    simp only [List.head?_cons, true_or, if_true, List.drop_succ_cons, List.drop_zero, hb]
    have : ((n.natAbs : Nat) : Int) < decLimit := by unfold decLimit; omega
    simp only [this, if_true]
    congr 1
    omega
  · obtain ⟨c, cs, hc, hc1, hc2⟩ := natStr_head (n.natAbs / 10000)
    have e : decToString n = natStr (n.natAbs / 10000) ++ '.' :: pad4 (n.natAbs % 10000) := by
      simp [decToString, hn]
    have hh : (decToString n).head? = some c := by rw [e, hc]; rfl
    unfold decParse
    have n1 : ¬ (some c = some '-') := by simpa using hc1
    have n2 : ¬ (some c = some '+') := by simpa using hc2
    simp only [hh, n1, n2, or_self, if_false]
    rw [e, hb]
    have : ((n.natAbs : Nat) : Int) < decLimit := by unfold decLimit; omega
    simp only [this, if_true]
    congr 1
    omega

end Vgi.Values
