import Vgi.Model.Describe
/-!
Helper lemmas for C09: the byte-wise order, the `methods` map operations, sorting.
-/
namespace Vgi.Describe
open Vgi

/-! ### `bytesLe` is a total order -/

theorem bytesLe_refl : ∀ a : Bytes, bytesLe a a = true
  | [] => rfl
  | a :: as => by
    have : ¬ a < a := by
      intro h; exact absurd h (by simp [UInt8.lt_irrefl])
    simp [bytesLe, this, bytesLe_refl as]

theorem bytesLe_total : ∀ a b : Bytes, (bytesLe a b || bytesLe b a) = true
  | [], _ => by simp [bytesLe]
  | _ :: _, [] => by simp [bytesLe]
  | a :: as, b :: bs => by
    simp only [bytesLe]
    by_cases h1 : a < b
    · simp [h1]
    · by_cases h2 : a = b
      · subst h2
        simp only [h1, if_false, if_true]
        exact bytesLe_total as bs
      · have h3 : b < a := by
          rcases UInt8.lt_or_lt_of_ne h2 with h | h
          · exact absurd h h1
          · exact h
        have h4 : ¬ b = a := fun h => h2 h.symm
        simp [h1, h2, h3]

theorem bytesLe_antisymm : ∀ a b : Bytes, bytesLe a b = true → bytesLe b a = true → a = b
  | [], [], _, _ => rfl
  | [], _ :: _, _, h => by simp [bytesLe] at h
  | _ :: _, [], h, _ => by simp [bytesLe] at h
  | a :: as, b :: bs, h1, h2 => by
    simp only [bytesLe] at h1 h2
    by_cases hab : a < b
    · have hba : ¬ b < a := UInt8.lt_asymm hab
      have hne : ¬ b = a := fun h => by subst h; exact absurd hab (UInt8.lt_irrefl _)
      simp [hba, hne] at h2
    · by_cases heq : a = b
      · subst heq
        simp only [hab, if_false, if_true] at h1 h2
        rw [bytesLe_antisymm as bs h1 h2]
      · simp [hab, heq] at h1

theorem bytesLe_trans : ∀ a b c : Bytes, bytesLe a b = true → bytesLe b c = true → bytesLe a c = true
  | [], _, _, _, _ => by simp [bytesLe]
  | _ :: _, [], _, h, _ => by simp [bytesLe] at h
  | _ :: _, _ :: _, [], _, h => by simp [bytesLe] at h
  | a :: as, b :: bs, c :: cs, h1, h2 => by
    simp only [bytesLe] at h1 h2 ⊢
    by_cases hab : a < b
    · by_cases hbc : b < c
      · simp [UInt8.lt_trans hab hbc]
      · by_cases hbc' : b = c
        · subst hbc'; simp [hab]
        · simp [hbc, hbc'] at h2
    · by_cases hab' : a = b
      · subst hab'
        simp only [hab, if_false, if_true] at h1
        by_cases hbc : a < c
        · simp [hbc]
        · by_cases hbc' : a = c
          · subst hbc'
            simp only [hbc, if_false, if_true] at h2 ⊢
            exact bytesLe_trans as bs cs h1 h2
          · simp [hbc, hbc'] at h2
      · simp [hab, hab'] at h1

/-! ### Sorting names -/

theorem sortNames_perm (l : List Name) : (sortNames l).Perm l := List.mergeSort_perm l bytesLe

theorem sortNames_sorted (l : List Name) : (sortNames l).Pairwise (fun a b => bytesLe a b = true) :=
  List.pairwise_mergeSort (le := bytesLe) bytesLe_trans bytesLe_total l

/-- Sorting is insensitive to the order of its input. -/
theorem sortNames_eq_of_perm {l₁ l₂ : List Name} (h : l₁.Perm l₂) : sortNames l₁ = sortNames l₂ := by
  apply List.Perm.eq_of_pairwise (le := fun a b => bytesLe a b = true)
  · intro a b _ _ h1 h2; exact bytesLe_antisymm a b h1 h2
  · exact sortNames_sorted l₁
  · exact sortNames_sorted l₂
  · exact (sortNames_perm l₁).trans (h.trans (sortNames_perm l₂).symm)

theorem sortNames_nodup {l : List Name} (h : l.Nodup) : (sortNames l).Nodup :=
  (sortNames_perm l).nodup_iff.mpr h

/-! ### The map -/

theorem lookup_isSome_iff (m : Methods) (n : Name) : (lookup m n).isSome ↔ n ∈ keys m := by
  induction m with
  | nil => simp [lookup, keys]
  | cons e rest ih =>
    simp only [lookup, keys, List.map_cons, List.mem_cons]
    by_cases h : e.1 = n
    · simp [h]
    · simp only [h, if_false]
      rw [ih]
      constructor
      · intro h2; exact Or.inr h2
      · intro h2
        rcases h2 with h2 | h2
        · exact absurd h2.symm h
        · exact h2

theorem lookup_set (m : Methods) (n : Name) (i : Info) (n' : Name) :
    lookup (set m n i) n' = if n = n' then some i else lookup m n' := by
  induction m with
  | nil => simp [set, lookup]
  | cons e rest ih =>
    simp only [set]
    by_cases h : e.1 = n
    · simp only [h, if_true, lookup]
      by_cases h2 : n = n'
      · simp [h2]
      · simp [h2, h]
    · simp only [h, if_false, lookup]
      by_cases h3 : e.1 = n'
      · have : ¬ n = n' := fun hh => h (hh ▸ h3)
        simp [h3, this]
      · simp only [h3, if_false]
        exact ih

theorem keys_set (m : Methods) (n : Name) (i : Info) :
    keys (set m n i) = if n ∈ keys m then keys m else keys m ++ [n] := by
  induction m with
  | nil => simp [set, keys]
  | cons e rest ih =>
    simp only [set]
    by_cases h : e.1 = n
    · simp [h, keys]
    · simp only [h, if_false]
      have ih' : List.map (fun x => x.1) (set rest n i) =
          if n ∈ List.map (fun x => x.1) rest then List.map (fun x => x.1) rest
          else List.map (fun x => x.1) rest ++ [n] := ih
      simp only [keys, List.map_cons, List.mem_cons, ih']
      have h' : ¬ n = e.1 := fun hh => h hh.symm
      by_cases h2 : n ∈ List.map (fun x => x.1) rest
      · simp [h2]
      · simp [h2, h']

theorem set_nodup (m : Methods) (n : Name) (i : Info) (h : (keys m).Nodup) :
    (keys (set m n i)).Nodup := by
  rw [keys_set]
  by_cases h2 : n ∈ keys m
  · simp [h2, h]
  · simp only [h2, if_false]
    rw [List.nodup_append]
    refine ⟨h, by simp, ?_⟩
    intro a ha b hb
    simp at hb
    subst hb
    intro hab; subst hab; exact h2 ha

theorem snoc_induction {α : Type} {motive : List α → Prop} (nil : motive [])
    (append_singleton : ∀ l a, motive l → motive (l ++ [a])) : ∀ l, motive l := by
  intro l
  have h : ∀ l : List α, motive l.reverse := by
    intro l
    induction l with
    | nil => exact nil
    | cons a l ih => simpa using append_singleton _ a ih
  simpa using h l.reverse

theorem registerAll_snoc (regs : List Reg) (r : Reg) :
    registerAll (regs ++ [r]) = set (registerAll regs) r.name r.info := by
  simp [registerAll, List.foldl_append]

theorem registerAll_nodup (regs : List Reg) : (keys (registerAll regs)).Nodup := by
  induction regs using snoc_induction with
  | nil => simp [registerAll, keys]
  | append_singleton regs r ih =>
    rw [registerAll_snoc]
    exact set_nodup _ _ _ ih

/-- A stored entry comes from some registration of that name. -/
theorem lookup_registerAll_some {regs : List Reg} {n : Name} {i : Info}
    (h : lookup (registerAll regs) n = some i) : ∃ r ∈ regs, r.name = n ∧ r.info = i := by
  induction regs using snoc_induction generalizing i with
  | nil => simp [registerAll, lookup] at h
  | append_singleton regs r ih =>
    rw [registerAll_snoc, lookup_set] at h
    by_cases hn : r.name = n
    · simp only [hn, if_true, Option.some.injEq] at h
      exact ⟨r, by simp, hn, h⟩
    · simp only [hn, if_false] at h
      obtain ⟨r', hr', h1, h2⟩ := ih h
      exact ⟨r', by simp [hr'], h1, h2⟩

/-- Every registered name is stored. -/
theorem lookup_registerAll_isSome {regs : List Reg} {r : Reg} (h : r ∈ regs) :
    (lookup (registerAll regs) r.name).isSome := by
  induction regs using snoc_induction with
  | nil => simp at h
  | append_singleton regs r' ih =>
    rw [registerAll_snoc, lookup_set]
    by_cases hn : r'.name = r.name
    · simp [hn]
    · simp only [hn, if_false]
      simp only [List.mem_append, List.mem_singleton] at h
      rcases h with h | h
      · exact ih h
      · subst h; exact absurd rfl hn

theorem inj_of_nodup_map {α β : Type} (f : α → β) :
    ∀ {l : List α}, (l.map f).Nodup → ∀ {a b : α}, a ∈ l → b ∈ l → f a = f b → a = b
  | [], _, _, _, ha, _, _ => by simp at ha
  | x :: xs, hnd, a, b, ha, hb, hab => by
    simp only [List.map_cons, List.nodup_cons, List.mem_map, not_exists, not_and] at hnd
    simp only [List.mem_cons] at ha hb
    rcases ha with ha | ha <;> rcases hb with hb | hb
    · rw [ha, hb]
    · subst ha; exact absurd hab.symm (hnd.1 b hb)
    · subst hb; exact absurd hab (hnd.1 a ha)
    · exact inj_of_nodup_map f hnd.2 ha hb hab

/-! ### Rows -/

theorem rows_names (m : Methods) : (rows m).map (·.name) = sortNames (keys m) := by
  unfold rows
  have hall : ∀ n ∈ sortNames (keys m), (lookup m n).isSome := by
    intro n hn
    rw [lookup_isSome_iff]
    exact (sortNames_perm (keys m)).mem_iff.mp hn
  generalize sortNames (keys m) = l at hall
  induction l with
  | nil => simp
  | cons n rest ih =>
    have h1 := hall n (by simp)
    have h2 : ∀ n ∈ rest, (lookup m n).isSome := fun x hx => hall x (by simp [hx])
    cases hl : lookup m n with
    | none => simp [hl] at h1
    | some i =>
      simp only [List.filterMap_cons, hl, Option.map_some, List.map_cons, mkRow]
      rw [ih h2]

theorem mem_rows {m : Methods} {row : Row} (h : row ∈ rows m) :
    ∃ i, lookup m row.name = some i ∧ row = mkRow row.name i := by
  unfold rows at h
  simp only [List.mem_filterMap] at h
  obtain ⟨n, _, hn⟩ := h
  cases hl : lookup m n with
  | none => simp [hl] at hn
  | some i =>
    simp only [hl, Option.map_some, Option.some.injEq] at hn
    subst hn
    exact ⟨i, by simpa [mkRow] using hl, by simp [mkRow]⟩

/-- The rows depend only on the map's contents, not on its iteration order. -/
theorem rows_eq_of_lookup_eq {m₁ m₂ : Methods} (h₁ : (keys m₁).Nodup) (h₂ : (keys m₂).Nodup)
    (h : ∀ n, lookup m₁ n = lookup m₂ n) : rows m₁ = rows m₂ := by
  have hperm : (keys m₁).Perm (keys m₂) := by
    rw [List.perm_ext_iff_of_nodup h₁ h₂]
    intro a
    rw [← lookup_isSome_iff, ← lookup_isSome_iff, h a]
  unfold rows
  rw [sortNames_eq_of_perm hperm]
  have hf : (fun n => (lookup m₁ n).map (mkRow n)) = (fun n => (lookup m₂ n).map (mkRow n)) := by
    funext n; rw [h n]
  rw [hf]

end Vgi.Describe
