import Vgi.Model.Params
import Vgi.Proofs.ValuesSpec
import Vgi.Proofs.ValuesTree
/-! Lemmas for `Vgi.Props.C07`. -/
namespace Vgi.Params
open Vgi Vgi.Values

theorem ity_eq (a b : ITy) (h : (a.signed == b.signed && a.bits == b.bits) = true) : a = b := by
  obtain ⟨s1, b1⟩ := a
  obtain ⟨s2, b2⟩ := b
  simp only [Bool.and_eq_true, beq_iff_eq] at h
  simp [h.1, h.2]

mutual
theorem typeEq_eq : ∀ (a b : ATy), typeEq a b = true → a = b
  | .int x, b, h => by cases b <;> simp [typeEq] at h; exact congrArg _ (ity_eq _ _ (by simpa using h))
  | .f32, b, h => by cases b <;> simp [typeEq] at h; rfl
  | .f64, b, h => by cases b <;> simp [typeEq] at h; rfl
  | .bool, b, h => by cases b <;> simp [typeEq] at h; rfl
  | .utf8, b, h => by cases b <;> simp [typeEq] at h; rfl
  | .largeUtf8, b, h => by cases b <;> simp [typeEq] at h; rfl
  | .binary, b, h => by cases b <;> simp [typeEq] at h; rfl
  | .largeBinary, b, h => by cases b <;> simp [typeEq] at h; rfl
  | .fixed w, b, h => by cases b <;> simp [typeEq] at h; simp [h]
  | .date32, b, h => by cases b <;> simp [typeEq] at h; rfl
  | .ts u, b, h => by cases b <;> simp [typeEq] at h; simp [h]
  | .time64, b, h => by cases b <;> simp [typeEq] at h; rfl
  | .dur, b, h => by cases b <;> simp [typeEq] at h; rfl
  | .dec, b, h => by cases b <;> simp [typeEq] at h; rfl
  | .dict, b, h => by cases b <;> simp [typeEq] at h; rfl
  | .list e, b, h => by
    cases b <;> simp [typeEq] at h
    rename_i e'
    rw [typeEq_eq e e' h]
  | .map k v, b, h => by
    cases b <;> simp [typeEq] at h
    rename_i k' v'
    rw [typeEq_eq k k' h.1, typeEq_eq v v' h.2]
  | .struct fs, b, h => by
    cases b <;> simp [typeEq] at h
    rename_i gs
    rw [fieldsEq_eq fs gs h]
  | .other n, b, h => by cases b <;> simp [typeEq] at h; simp [h]
theorem fieldsEq_eq : ∀ (a b : AFields), fieldsEq a b = true → a = b
  | .nil, b, h => by cases b <;> simp [fieldsEq] at h; rfl
  | .cons n t nl r, b, h => by
    cases b with
    | nil => simp [fieldsEq] at h
    | cons n' t' nl' r' =>
      simp only [fieldsEq, Bool.and_eq_true, beq_iff_eq] at h
      obtain ⟨⟨⟨h1, h2⟩, h3⟩, h4⟩ := h
      rw [h1, h2, typeEq_eq t t' h3, fieldsEq_eq r r' h4]
end

mutual
theorem typeEq_refl : ∀ (a : ATy), typeEq a a = true
  | .int x => by simp [typeEq]
  | .f32 => by simp [typeEq] | .f64 => by simp [typeEq] | .bool => by simp [typeEq] | .utf8 => by simp [typeEq]
  | .largeUtf8 => by simp [typeEq] | .binary => by simp [typeEq] | .largeBinary => by simp [typeEq]
  | .fixed w => by simp [typeEq] | .date32 => by simp [typeEq] | .ts u => by simp [typeEq] | .time64 => by simp [typeEq]
  | .dur => by simp [typeEq] | .dec => by simp [typeEq] | .dict => by simp [typeEq]
  | .list e => by simp [typeEq, typeEq_refl e]
  | .map k v => by simp [typeEq, typeEq_refl k, typeEq_refl v]
  | .struct fs => by simp [typeEq, fieldsEq_refl fs]
  | .other n => by simp [typeEq]
theorem fieldsEq_refl : ∀ (a : AFields), fieldsEq a a = true
  | .nil => by simp [fieldsEq]
  | .cons n t nl r => by simp [fieldsEq, typeEq_refl t, fieldsEq_refl r]
end

/-! ### what one bound field holds -/

/-- One tagged field after binding cell `c`: a null takes the declared default (parsed by the
field's kind) or, without a default, the zero value; anything else is the decoded cell. -/
def FieldBound (env : FloatEnv) (tag : BStr) (t : GoTy) (c : Cell) (v : Val) : Prop :=
  (c = .null → match (parseTag tag).dflt with
    | some d => defaultVal env t d = .ok v
    | none => v = zeroVal t) ∧
  (c ≠ .null → decode t c = .ok v)

/-- The struct `vals` is what row `cfs` binds to: tagged fields positionally (`FieldBound`),
untagged fields zero. -/
def Bound (env : FloatEnv) : GoFields → CFields → SFields → Prop
  | .nil, _, vals => vals = .nil
  | .cons tag atag t r, cfs, vals =>
    if tagged tag then
      match cfs, vals with
      | .cons _ c cr, .cons tag' atag' v vr => tag' = tag ∧ atag' = atag ∧ FieldBound env tag t c v ∧ Bound env r cr vr
      | _, _ => False
    else
      match vals with
      | .cons tag' atag' v vr => tag' = tag ∧ atag' = atag ∧ v = zeroVal t ∧ Bound env r cfs vr
      | .nil => False

theorem isNull_iff' (c : Cell) : c.isNull = true ↔ c = .null := by
  cases c <;> simp [Cell.isNull]

theorem bindFields_bound (env : FloatEnv) : ∀ (fs : GoFields) (cfs : CFields) (vals : SFields),
    bindFields env fs cfs = .ok vals ↔ Bound env fs cfs vals
  | .nil, cfs, vals => by
    simp only [bindFields, Bound]
    constructor
    · intro h; cases h; rfl
    · intro h; rw [h]
  | .cons tag atag t r, cfs, vals => by
    by_cases ht : tagged tag = true
    · simp only [bindFields, Bound, ht, if_true]
      cases cfs with
      | nil => simp
      | cons name c cr =>
        have ih := bindFields_bound env r cr
        by_cases hc : c.isNull = true
        · have hn : c = .null := (isNull_iff' c).mp hc
          subst hn
          simp only [Cell.isNull, if_true]
          cases hd : (parseTag tag).dflt with
          | none =>
            simp only []
            cases hr : bindFields env r cr with
            | error e =>
              simp only [reduceCtorEq, false_iff]
              cases vals with
              | nil => simp
              | cons tag' atag' v vr =>
                simp only [FieldBound, hd, ne_eq, not_true_eq_false, false_implies, and_true, true_implies]
                intro h
                have := (ih vr).mpr h.2.2.2
                rw [hr] at this
                cases this
            | ok vs =>
              cases vals with
              | nil => simp
              | cons tag' atag' v vr =>
                simp only [Except.ok.injEq, SFields.cons.injEq, FieldBound, hd, ne_eq, not_true_eq_false, false_implies,
                  and_true, true_implies]
                constructor
                · intro h
                  obtain ⟨h1, h2, h3, h4⟩ := h
                  exact ⟨h1.symm, h2.symm, h3.symm, (ih vr).mp (by rw [hr, h4])⟩
                · intro h
                  obtain ⟨h1, h2, h3, h4⟩ := h
                  have := (ih vr).mpr h4
                  rw [hr] at this
                  cases this
                  exact ⟨h1.symm, h2.symm, h3.symm, rfl⟩
          | some d =>
            simp only []
            cases hv : defaultVal env t d with
            | error e =>
              simp only [reduceCtorEq, false_iff]
              cases vals with
              | nil => simp
              | cons tag' atag' v vr =>
                simp only [FieldBound, hd, hv, reduceCtorEq, true_implies, false_and, and_false, not_false_eq_true]
            | ok v0 =>
              simp only []
              cases hr : bindFields env r cr with
              | error e =>
                simp only [reduceCtorEq, false_iff]
                cases vals with
                | nil => simp
                | cons tag' atag' v vr =>
                  intro h
                  have := (ih vr).mpr h.2.2.2
                  rw [hr] at this
                  cases this
              | ok vs =>
                cases vals with
                | nil => simp
                | cons tag' atag' v vr =>
                  simp only [Except.ok.injEq, SFields.cons.injEq, FieldBound, hd, hv, ne_eq, not_true_eq_false,
                    false_implies, and_true, true_implies]
                  constructor
                  · intro h
                    obtain ⟨h1, h2, h3, h4⟩ := h
                    exact ⟨h1.symm, h2.symm, h3, (ih vr).mp (by rw [hr, h4])⟩
                  · intro h
                    obtain ⟨h1, h2, h3, h4⟩ := h
                    have := (ih vr).mpr h4
                    rw [hr] at this
                    cases this
                    exact ⟨h1.symm, h2.symm, h3, rfl⟩
        · have hn : c ≠ .null := fun h => hc ((isNull_iff' c).mpr h)
          simp only [hc, Bool.false_eq_true, if_false]
          cases hv : decode t c with
          | error e =>
            simp only [reduceCtorEq, false_iff]
            cases vals with
            | nil => simp
            | cons tag' atag' v vr =>
              simp only [FieldBound, hn, false_implies, ne_eq, not_false_eq_true, true_implies, hv,
                reduceCtorEq, false_and, and_false]
          | ok v0 =>
            simp only []
            cases hr : bindFields env r cr with
            | error e =>
              simp only [reduceCtorEq, false_iff]
              cases vals with
              | nil => simp
              | cons tag' atag' v vr =>
                intro h
                have := (ih vr).mpr h.2.2.2
                rw [hr] at this
                cases this
            | ok vs =>
              cases vals with
              | nil => simp
              | cons tag' atag' v vr =>
                simp only [Except.ok.injEq, SFields.cons.injEq, FieldBound, hn, false_implies, true_and, ne_eq,
                  not_false_eq_true, true_implies, hv]
                constructor
                · intro h
                  obtain ⟨h1, h2, h3, h4⟩ := h
                  exact ⟨h1.symm, h2.symm, h3, (ih vr).mp (by rw [hr, h4])⟩
                · intro h
                  obtain ⟨h1, h2, h3, h4⟩ := h
                  have := (ih vr).mpr h4
                  rw [hr] at this
                  cases this
                  exact ⟨h1.symm, h2.symm, h3, rfl⟩
    · have ht' : tagged tag = false := by simpa using ht
      simp only [bindFields, Bound, ht', Bool.false_eq_true, if_false]
      have ih := bindFields_bound env r cfs
      cases hr : bindFields env r cfs with
      | error e =>
        simp only [reduceCtorEq, false_iff]
        cases vals with
        | nil => simp
        | cons tag' atag' v vr =>
          intro h
          have := (ih vr).mpr h.2.2.2
          rw [hr] at this
          cases this
      | ok vs =>
        cases vals with
        | nil => simp
        | cons tag' atag' v vr =>
          simp only [Except.ok.injEq, SFields.cons.injEq]
          constructor
          · intro h
            obtain ⟨h1, h2, h3, h4⟩ := h
            exact ⟨h1.symm, h2.symm, h3.symm, (ih vr).mp (by rw [hr, h4])⟩
          · intro h
            obtain ⟨h1, h2, h3, h4⟩ := h
            have := (ih vr).mpr h4
            rw [hr] at this
            cases this
            exact ⟨h1.symm, h2.symm, h3.symm, rfl⟩

/-! ### without defaults, binding is `decodeTop` -/

def NoDefaults : GoFields → Prop
  | .nil => True
  | .cons tag _ _ r => (parseTag tag).dflt = none ∧ NoDefaults r

theorem bindFields_noDefaults (env : FloatEnv) : ∀ (fs : GoFields) (cfs : CFields), NoDefaults fs →
    bindFields env fs cfs = decodeTop fs cfs
  | .nil, _, _ => by simp [bindFields, decodeTop]
  | .cons tag atag t r, cfs, h => by
    obtain ⟨h1, h2⟩ := h
    by_cases ht : tagged tag = true
    · simp only [bindFields, decodeTop, ht, if_true]
      cases cfs with
      | nil => rfl
      | cons name c cr =>
        simp only [h1, bindFields_noDefaults env r cr h2]
        by_cases hc : c.isNull = true
        · have hn : c = .null := (isNull_iff' c).mp hc
          subst hn
          simp only [Cell.isNull, decode, if_true]
          cases decodeTop r cr <;> rfl
        · simp only [hc, Bool.false_eq_true, if_false]
          cases decode t c
          · rfl
          · cases decodeTop r cr <;> rfl
    · have ht' : tagged tag = false := by simpa using ht
      simp only [bindFields, decodeTop, ht', Bool.false_eq_true, if_false, bindFields_noDefaults env r cfs h2]
      cases decodeTop r cfs <;> rfl

/-- The innermost ordinary batch of a (possibly request-wrapped) batch. -/
def core : PBatch → Option (AFields × CFields)
  | .plain schema row => some (schema, row)
  | .wrapped none => none
  | .wrapped (some b) => core b
  | .empty schema => some (schema, .nil)

theorem parseIntBody_inRange (t : ITy) (neg : Bool) (body : BStr) (v : Int) (h : parseIntBody t neg body = .ok v) :
    t.InRange v := by
  unfold parseIntBody at h
  split at h
  · cases h
  · split at h
    · cases h
    · rename_i m _
      cases neg
      · simp only [Bool.false_eq_true, if_false] at h
        by_cases hr : t.lo ≤ (m : Int) ∧ (m : Int) < t.hi
        · rw [if_pos hr] at h; cases h; exact hr
        · rw [if_neg hr] at h; cases h
      · simp only [if_true] at h
        by_cases hr : t.lo ≤ -(m : Int) ∧ -(m : Int) < t.hi
        · rw [if_pos hr] at h; cases h; exact hr
        · rw [if_neg hr] at h; cases h

theorem parseIntDefault_inRange (t : ITy) (s : BStr) (v : Int) (h : parseIntDefault t s = .ok v) : t.InRange v :=
  parseIntBody_inRange t _ _ v h

end Vgi.Params
