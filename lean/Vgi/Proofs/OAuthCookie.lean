import Vgi.Model.OAuthCookie
/-!
Lemmas about the session-cookie codec model (`Vgi.OAuth`): base64 round trip, little-endian
integers, the field walk. Used by `Vgi.Props.C27`.
-/
namespace Vgi.OAuth
open Vgi

/-! ### base64 -/

theorem decChar_encChar : ∀ n, n < 64 → decChar (encChar n) = some n := by decide

theorem encChar_notNL_lt : ∀ n, n < 64 → isNL (encChar n) = false := by decide

theorem encChar_ge (n : Nat) (h : ¬ n < 64) : encChar n = 95 := by
  unfold encChar
  have h1 : ¬ n < 26 := by omega
  have h2 : ¬ n < 52 := by omega
  have h3 : ¬ n < 62 := by omega
  have h4 : ¬ n = 62 := by omega
  simp [h1, h2, h3, h4]

theorem encChar_notNL (n : Nat) : isNL (encChar n) = false := by
  by_cases h : n < 64
  · exact encChar_notNL_lt n h
  · rw [encChar_ge n h]; decide

theorem decChar_pad : decChar padCh = none := by decide

theorem padCh_notNL : isNL padCh = false := by decide

theorem byte_recombine1 (a b : UInt8) :
    byte1 (a.toNat / 4) (a.toNat % 4 * 16 + b.toNat / 16) = a := by
  have ha := a.toNat_lt
  have hb := b.toNat_lt
  unfold byte1
  have : a.toNat / 4 * 4 + (a.toNat % 4 * 16 + b.toNat / 16) / 16 = a.toNat := by omega
  rw [this]; exact UInt8.ofNat_toNat

theorem byte_recombine2 (a b c : UInt8) :
    byte2 (a.toNat % 4 * 16 + b.toNat / 16) (b.toNat % 16 * 4 + c.toNat / 64) = b := by
  have ha := a.toNat_lt
  have hb := b.toNat_lt
  have hc := c.toNat_lt
  unfold byte2
  have : (a.toNat % 4 * 16 + b.toNat / 16) % 16 * 16 + (b.toNat % 16 * 4 + c.toNat / 64) / 4
      = b.toNat := by omega
  rw [this]; exact UInt8.ofNat_toNat

theorem byte_recombine3 (b c : UInt8) :
    byte3 (b.toNat % 16 * 4 + c.toNat / 64) (c.toNat % 64) = c := by
  have hb := b.toNat_lt
  have hc := c.toNat_lt
  unfold byte3
  have : (b.toNat % 16 * 4 + c.toNat / 64) % 4 * 64 + c.toNat % 64 = c.toNat := by omega
  rw [this]; exact UInt8.ofNat_toNat

theorem decodeQ_encode : ∀ bs : Bytes, decodeQ true (b64encode bs) = some bs
  | [] => by simp [b64encode, decodeQ]
  | [a] => by
    have ha := a.toNat_lt
    have e1 := decChar_encChar (a.toNat / 4) (by omega)
    have e2 := decChar_encChar (a.toNat % 4 * 16) (by omega)
    have r := byte_recombine1 a 0
    simp only [b64encode, decodeQ, e1, e2, decChar_pad]
    simp
    have : (0:UInt8).toNat = 0 := rfl
    rw [this] at r
    simpa using r
  | [a, b] => by
    have ha := a.toNat_lt
    have hb := b.toNat_lt
    have e1 := decChar_encChar (a.toNat / 4) (by omega)
    have e2 := decChar_encChar (a.toNat % 4 * 16 + b.toNat / 16) (by omega)
    have e3 := decChar_encChar (b.toNat % 16 * 4) (by omega)
    have r1 := byte_recombine1 a b
    have r2 := byte_recombine2 a b 0
    have : (0:UInt8).toNat = 0 := rfl
    rw [this] at r2
    simp only [b64encode, decodeQ, e1, e2, e3, decChar_pad]
    simp at r2 ⊢
    exact ⟨r1, r2⟩
  | a :: b :: c :: rest => by
    have ha := a.toNat_lt
    have hb := b.toNat_lt
    have hc := c.toNat_lt
    have e1 := decChar_encChar (a.toNat / 4) (by omega)
    have e2 := decChar_encChar (a.toNat % 4 * 16 + b.toNat / 16) (by omega)
    have e3 := decChar_encChar (b.toNat % 16 * 4 + c.toNat / 64) (by omega)
    have e4 := decChar_encChar (c.toNat % 64) (by omega)
    have ih := decodeQ_encode rest
    simp only [b64encode, decodeQ, e1, e2, e3, e4, ih, byte_recombine1, byte_recombine2,
      byte_recombine3]

theorem encode_noNL : ∀ bs : Bytes, ∀ c ∈ b64encode bs, isNL c = false
  | [], c, h => by simp [b64encode] at h
  | [a], c, h => by
    simp only [b64encode, List.mem_cons, List.not_mem_nil, or_false] at h
    rcases h with h | h | h | h <;> subst h <;> first | exact encChar_notNL _ | exact padCh_notNL
  | [a, b], c, h => by
    simp only [b64encode, List.mem_cons, List.not_mem_nil, or_false] at h
    rcases h with h | h | h | h <;> subst h <;> first | exact encChar_notNL _ | exact padCh_notNL
  | a :: b :: d :: rest, c, h => by
    simp only [b64encode, List.mem_cons] at h
    rcases h with h | h | h | h | h
    · subst h; exact encChar_notNL _
    · subst h; exact encChar_notNL _
    · subst h; exact encChar_notNL _
    · subst h; exact encChar_notNL _
    · exact encode_noNL rest c h

/-- `URLEncoding.DecodeString(URLEncoding.EncodeToString(bs)) = bs`. -/
theorem b64_roundtrip (bs : Bytes) : b64decode true (b64encode bs) = some bs := by
  unfold b64decode
  have : (b64encode bs).filter (fun c => !isNL c) = b64encode bs := by
    apply List.filter_eq_self.mpr
    intro c hc
    simp [encode_noNL bs c hc]
  rw [this]
  exact decodeQ_encode bs

theorem decodeCookie_encode (bs : Bytes) : decodeCookie (b64encode bs) = some bs := by
  simp [decodeCookie, b64_roundtrip]

/-! ### little-endian integers -/

theorem leN_length : ∀ k n, (leN k n).length = k
  | 0, _ => rfl
  | k + 1, n => by simp [leN, leN_length k]

theorem ofLE_leN : ∀ (k n : Nat), n < 256 ^ k → ofLE (leN k n) = n
  | 0, n, h => by simp at h; simp [leN, ofLE, h]
  | k + 1, n, h => by
    have hdiv : n / 256 < 256 ^ k := by
      rw [Nat.div_lt_iff_lt_mul (by decide)]
      rw [Nat.pow_succ] at h
      exact h
    simp only [leN, ofLE, ofLE_leN k (n / 256) hdiv]
    have : (UInt8.ofNat (n % 256)).toNat = n % 256 := by
      simp [UInt8.toNat_ofNat']
    rw [this]
    omega

/-! ### the field walk -/

theorem readField_field (b rest : Bytes) (h : b.length < 65536) :
    readField (field b ++ rest) = some (b, rest) := by
  have h0 : (UInt8.ofNat (b.length % 256)).toNat = b.length % 256 := by
    simp [UInt8.toNat_ofNat']
  have h1 : (UInt8.ofNat (b.length / 256 % 256)).toNat = b.length / 256 % 256 := by
    simp [UInt8.toNat_ofNat']
  have hn : b.length % 256 + 256 * (b.length / 256 % 256) = b.length := by omega
  simp only [field, le16, List.cons_append, List.nil_append, readField, h0, h1, hn]
  simp

theorem parseFields_fields (v s u r : Bytes) (hv : v.length < 65536) (hs : s.length < 65536)
    (hu : u.length < 65536) (hr : r.length < 65536) :
    parseFields (field v ++ (field s ++ (field u ++ field r))) = some ⟨v, s, u, r⟩ := by
  have h4 : readField (field r) = some (r, []) := by
    have := readField_field r [] hr
    simpa using this
  simp only [parseFields, readField_field v _ hv, readField_field s _ hs, readField_field u _ hu, h4]

/-! ### an honestly packed cookie -/

/-- The server-side age of a cookie stamped `created` (a uint64 on the wire) at clock `now`,
computed as the Go code does (int64 arithmetic, wrap-around included). -/
def ageOf (created : Nat) (now : Int) : Int := toI64 (now - toI64 created)

theorem payload_length_ge (v s u r : Bytes) (t : Int) : 17 ≤ (payload v s u r t).length := by
  simp [payload, payloadV, field, le16, leN_length]
  omega

theorem payload_parts (v s u r : Bytes) (t : Int) :
    (payload v s u r t).head? = some cookieVersion ∧
    ((payload v s u r t).drop 1).take 8 = leN 8 (toU64 t) ∧
    (payload v s u r t).drop 9 = field v ++ (field s ++ (field u ++ field r)) := by
  have l8 : (leN 8 (toU64 t)).length = 8 := leN_length 8 _
  refine ⟨rfl, ?_, ?_⟩
  · simp only [payload, payloadV, List.drop_succ_cons, List.drop_zero]
    rw [List.take_append_of_le_length (by omega), List.take_of_length_le (by omega)]
  · simp only [payload, payloadV]
    have : (9 : Nat) = 8 + 1 := rfl
    rw [this, List.drop_succ_cons, List.drop_append_of_le_length (by omega),
      List.drop_of_length_le (by omega)]
    rfl

theorem toU64_small (t : Int) (h0 : 0 ≤ t) (h1 : t < two63) : (toU64 t : Int) = t ∧ toU64 t < 256 ^ 8 := by
  unfold toU64 two64
  unfold two63 at h1
  constructor
  · omega
  · have : (256 : Nat) ^ 8 = 18446744073709551616 := by decide
    omega

theorem ageOf_honest (t now : Int) (h0 : 0 ≤ t) (h1 : t < two63) (n0 : 0 ≤ now) (n1 : now < two63) :
    ageOf (toU64 t) now = now - t := by
  have := (toU64_small t h0 h1).1
  unfold ageOf toI64 two64 two63
  unfold two63 at h1 n1
  simp only [this]
  omega

/-- What `unpackRaw` does with an honestly built `payload ++ tag`. -/
theorem unpackRaw_honest (mac : Bytes → Bytes → Bytes) (hmac : ∀ k p, (mac k p).length = 32)
    (v s u r key : Bytes) (t maxAge now : Int)
    (hv : v.length < 65536) (hs : s.length < 65536) (hu : u.length < 65536) (hr : r.length < 65536)
    (h0 : 0 ≤ t) (h1 : t < two63) :
    unpackRaw mac (payload v s u r t ++ mac key (payload v s u r t)) key maxAge now =
      if maxAge > 0 ∧ (ageOf (toU64 t) now < 0 ∨ ageOf (toU64 t) now > maxAge) then .error .expired
      else .ok ⟨v, s, u, r⟩ := by
  have hlen := payload_length_ge v s u r t
  have hm := hmac key (payload v s u r t)
  obtain ⟨hhead, hts, hfields⟩ := payload_parts v s u r t
  have htake : (payload v s u r t ++ mac key (payload v s u r t)).take
      ((payload v s u r t ++ mac key (payload v s u r t)).length - macLen) = payload v s u r t := by
    simp [macLen, hm]
  have hdrop : (payload v s u r t ++ mac key (payload v s u r t)).drop
      ((payload v s u r t ++ mac key (payload v s u r t)).length - macLen) = mac key (payload v s u r t) := by
    simp [macLen, hm]
  have hshort : ¬ (payload v s u r t ++ mac key (payload v s u r t)).length < minLen := by
    simp [minLen, hm]; omega
  unfold unpackRaw
  simp only [hshort, if_false, htake, hdrop, ne_eq, not_true_eq_false, hhead, hts,
    ofLE_leN 8 _ (toU64_small t h0 h1).2, hfields, parseFields_fields v s u r hv hs hu hr]
  rfl

end Vgi.OAuth
